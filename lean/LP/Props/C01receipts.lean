import LP.Proofs.Receipts
import LP.Props.C16reach
import LP.Props.C01reachG1
/-
  C01 "nobody receives more or less than owed", C02 "every winner receives in total exactly
  tokens-per-ticket × winning tickets", C09 "each participant settles exactly once" —
  CUMULATIVE RECEIPTS over whole histories, ALL EIGHT contracts.

  Vocabulary (LP/Proofs/Receipts.lean, LP/Proofs/LockedGuarClaim.lean):
    `lk_runLog hash s hist`   the accepted transactions of a history `(pre-state, env, call, outputs)`
    `cr_paid tok a xfers`     amount of the fungible token `tok` (nonce 0) the transfers send to `a`
    `cr_totalPay a log`       Σ over the log of `cr_paid payTok a` (payment token of each pre-state)
    `cr_total tok a log`      Σ over the log of `cr_paid tok a` (fixed token)
    `totalReceived lp a log`  Σ over the log of lock calls with destination `a` + direct transfers
                              of the launchpad token to `a`
    `cr_owedPay s e c a`      what the accepted call `c` by `e.caller` in pre-state `s` owes `a` in the
                              payment token: his first `claim`: price × (confirmed − winning) (+ the
                              NFT fee if charged in the payment token and he paid it without being
                              drawn); `blacklist l` ∋ a: price × confirmed (+ the NFT fee if charged in
                              the payment token and he had paid it); `refundUsers l` ∋ a:
                              price × confirmed; every other call: 0
    `cr_due s a`              `cr_owedPay` of `a`'s own first claim, read in state `s`

  1  `payment_per_transaction`, `payment_total`        ANY history (no side condition), any start
       state with `payTok ≠ lpTok` (every reachable state: `static_of_covered`): a non-owner receives
       in the payment token exactly Σ `cr_owedPay`; `settles_at_most_once` (ANY state, ANY history);
       `payment_total_classified`: a log entry that owes `a` anything is his settlement or a
       blacklisting that lists him.
  2  `payment_after_completion`    the sharp corollary: from a reachable state with all steps done,
       along any admissible history, an unsettled `a` receives 0 or exactly
       price × (confirmed − winning) (+ NFT fee) AS EVALUATED IN THE STARTING STATE.
  3  `launchpad_total`, `launchpad_after_completion` (six non-vested contracts: perTicket × winning,
       evaluated in the starting state, direct + locked), `vested_after_completion` (guarV1, guarV2:
       cumulative receipts = increase of `userClaimed`), `receipts_every_variant` (`match v with`).
  4  owner: `owner_only_from_withdrawals` (PARTIAL, see the comment there).
-/
namespace LP.Props.C01receipts
open LP LP.FY LP.Props.C09 LP.Props.C17 LP.Props.AllVariants

/-- the reachable states of the eight launchpads -/
abbrev Covered := be_Covered
/-- side conditions on a transaction of a history -/
abbrev HistOK := be_HistOK

/-- `ReachOf hash v` (the per-variant relation of LP/Props/AllVariants.lean) is covered -/
theorem covered_of_reachOf (hash : List Nat → List Nat) (v : Variant) (s : State) (r : Nat)
    (h : ReachOf hash v s r) : Covered hash s r := by
  cases v <;> simp only [ReachOf] at h
  · exact .plain (Or.inl rfl) h
  · exact .plain (Or.inr rfl) h
  · exact .nft h
  · exact .guarV1 h
  · exact .guarV2 h
  · exact .v1 (Or.inl rfl) h
  · exact .v1 (Or.inr rfl) h
  · exact .nftGuar h

theorem variant_g1 {hash : List Nat → List Nat} {s : State} {r : Nat} (h : g1_Reach hash s r) :
    s.variant = .guarV1 := by
  induction h with
  | init a e s h => exact rc_init_variant h
  | call s r e c s' o _ _ _ _ h4 ih => rw [pl_step_variant h4]; exact ih
  | wait s r r' _ _ ih => exact ih

/-- **static facts of every reachable state** of the eight contracts: payment token ≠ launchpad
    token, NFT fee token ≠ launchpad token, lock percentage ≤ 100 % -/
theorem static_of_covered (hash : List Nat → List Nat) (s : State) (r : Nat) (h : Covered hash s r) :
    s.payTok ≠ .esdt s.lpTok ∧ s.nftCost.tok ≠ .esdt s.lpTok ∧ s.lockPct ≤ 10000 :=
  ⟨(cr_static_covered h).tokNe, (cr_static_covered h).feeNe, (cr_static_covered h).pct⟩

/-! ## 1. the payment token -/

/-- **one accepted transaction, payment token** — ANY state of ANY variant in which the payment
    token is not the launchpad token (no reachability needed): an address other than the owner
    receives in the ticket-payment token EXACTLY `cr_owedPay s e c a`:
    his first `claim` pays `price × (confirmed − winning)` (+ NFT fee, same token, category 2);
    a `blacklist l` / `refundUsers l` listing him pays `price × confirmed` (+ NFT fee, same token,
    if he had paid it); every other call — and every later claim of a vested variant — pays 0. -/
theorem payment_per_transaction (hash : List Nat → List Nat) (s : State) (e : Env) (c : Call)
    (s' : State) (o : Out) (hne : s.payTok ≠ .esdt s.lpTok) (a : Nat) (ha : a ≠ s.owner)
    (hs : step hash s e c = .ok (s', o)) :
    cr_paid s.payTok a o.xfers = cr_owedPay s e c a ∧
    (cr_owedPay s e .claim a =
      if e.caller = a ∧ s.claimed a = false then
        s.price * (s.confirmed a - winCountOf s a) +
          (if s.variant.hasNft = true ∧ nftCategory s a = 2 then cr_fee s s.payTok else 0)
      else 0) ∧
    (∀ l, cr_owedPay s e (.blacklist l) a =
      if a ∈ l then s.price * s.confirmed a +
        (if s.variant.hasNft = true ∧ a ∈ s.payers then cr_fee s s.payTok else 0) else 0) ∧
    (∀ l, cr_owedPay s e (.refundUsers l) a = if a ∈ l then s.price * s.confirmed a else 0) ∧
    (c ≠ .claim → (∀ l, c ≠ .blacklist l) → (∀ l, c ≠ .refundUsers l) → cr_owedPay s e c a = 0) := by
  refine ⟨cr_step_pay hne ha hs, rfl, fun _ => rfl, fun _ => rfl, fun h1 h2 h3 => ?_⟩
  cases c <;> first | rfl | exact absurd rfl h1 | exact absurd rfl (h2 _) | exact absurd rfl (h3 _)

/-- **payment-token receipts over ANY history** (all eight contracts; any calls by anybody, any
    arguments and call values, any rounds; rejected transactions leave no trace): from a reachable
    state, what `a ≠ owner` receives in the payment token over the accepted transactions is exactly
    the sum of `cr_owedPay`, each term evaluated in the pre-state of its transaction; nothing else
    ever reaches `a`. -/
theorem payment_total (hash : List Nat → List Nat) (s : State) (r : Nat) (h : Covered hash s r)
    (hist : List (Env × Call)) (a : Nat) (ha : a ≠ s.owner) :
    cr_totalPay a (lk_runLog hash s hist) = cr_totalOwed a (lk_runLog hash s hist) :=
  cr_totalPay_eq hash a hist s (cr_static_covered h).tokNe ha

/-- the same from ANY state in which the payment token is not the launchpad token -/
theorem payment_total_any_state (hash : List Nat → List Nat) (s : State)
    (hne : s.payTok ≠ .esdt s.lpTok) (hist : List (Env × Call)) (a : Nat) (ha : a ≠ s.owner) :
    cr_totalPay a (lk_runLog hash s hist) = cr_totalOwed a (lk_runLog hash s hist) :=
  cr_totalPay_eq hash a hist s hne ha

/-- **each participant settles at most once** (C09): along ANY history from ANY state of ANY
    variant, at most ONE accepted claim by `a` performs a settlement (runs while `claimed a` is still
    unset) — the only kind of claim that can pay a refund or deliver an entitlement. -/
theorem settles_at_most_once (hash : List Nat → List Nat) (s : State) (hist : List (Env × Call))
    (a : Nat) : ((lk_runLog hash s hist).filter (cr_isSettleBy a)).length ≤ 1 :=
  cr_settle_once hash a hist s

/-- only `a`'s settlement and the blacklistings that list `a` owe him anything -/
theorem payment_total_classified (s : State) (e : Env) (c : Call) (o : Out) (a : Nat)
    (h : cr_owedPay s e c a ≠ 0) :
    cr_isSettleBy a (s, e, c, o) = true ∨ cr_isBlacklistOf a (s, e, c, o) = true := by
  cases h1 : cr_isSettleBy a (s, e, c, o)
  · cases h2 : cr_isBlacklistOf a (s, e, c, o)
    · exact absurd (cr_owedPay_of_not s e c o a h1 h2) h
    · exact Or.inr rfl
  · exact Or.inl rfl

/-! ## 2. the sharp corollary -/

/-- **from completion to any later point** (all eight contracts): `s` reachable with all selection
    steps done, `a` unsettled, not the owner (nor the lock contract); along any admissible history
    (`HistOK`, non-decreasing rounds, rejected transactions allowed) `a` receives in the payment
    token EITHER 0 (no accepted claim by him yet) OR exactly
    `cr_due s a = price × (confirmed a − winCountOf a)` (+ the NFT fee if it is charged in the payment
    token and he paid it without being drawn) AS EVALUATED IN THE STARTING STATE `s`: these
    quantities do not change between the completion and his claim (`cr_post_frame`). -/
theorem payment_after_completion (hash : List Nat → List Nat) (s : State) (r : Nat)
    (h : Covered hash s r) (hd : AllDone s) (hist : Hist) (hr : RoundsFrom r hist)
    (hok : ∀ x ∈ hist, HistOK x.1 x.2) (a : Nat) (ha : a ≠ s.owner)
    (ha2 : s.variant.hasLock = true → a ≠ s.lockAddr) (hcl : s.claimed a = false) :
    cr_total s.payTok a (lk_runLog hash s hist) =
      (match (lk_runLog hash s hist).find? (isClaimBy a) with
       | some _ => cr_due s a
       | none => 0) ∧
    (s.variant.hasNft = false → cr_due s a = s.price * (s.confirmed a - winCountOf s a)) ∧
    cr_due s a = s.price * (s.confirmed a - winCountOf s a) +
      (if s.variant.hasNft = true ∧ nftCategory s a = 2 then cr_fee s s.payTok else 0) := by
  refine ⟨(cr_from_done hash a hist s r h hd (cr_static_covered h) hr hok ha ha2 hcl).1, ?_, rfl⟩
  intro hn
  simp [cr_due, hn]

/-- ... and once `a` has settled nothing more reaches him in the payment token -/
theorem payment_after_settlement (hash : List Nat → List Nat) (s : State) (r : Nat)
    (h : Covered hash s r) (hd : AllDone s) (hist : Hist) (hr : RoundsFrom r hist)
    (hok : ∀ x ∈ hist, HistOK x.1 x.2) (a : Nat) (ha : a ≠ s.owner)
    (ha2 : s.variant.hasLock = true → a ≠ s.lockAddr) (hcl : s.claimed a = true) :
    cr_total s.payTok a (lk_runLog hash s hist) = 0 :=
  (cr_after_settle hash a hist s r h hd (cr_static_covered h) hr hok ha ha2 hcl).1

/-- the frame behind the corollary: after completion an accepted call that is not `a`'s own claim
    changes nothing of `a`'s data -/
theorem unsettled_data_frozen (hash : List Nat → List Nat) (s : State) (r : Nat)
    (h : Covered hash s r) (hd : AllDone s) (e : Env) (c : Call) (s' : State) (o : Out)
    (hr : r ≤ e.round) (hs : step hash s e c = .ok (s', o)) (a : Nat)
    (hnot : c = .claim → e.caller ≠ a) :
    s'.range a = s.range a ∧ s'.confirmed a = s.confirmed a ∧ winCountOf s' a = winCountOf s a ∧
    s'.claimed a = s.claimed a ∧ s'.price = s.price ∧ s'.payTok = s.payTok ∧
    s'.perTicket = s.perTicket ∧ cr_due s' a = cr_due s a := by
  obtain ⟨hf, hv, hsel, hdisj⟩ := cr_covered_done h hd
  have hk := cr_post_frame (a := a) hd hf hv (Nat.le_trans hsel hr) (cr_static_covered h).tokNe
    (fun b ra rb => hdisj a b ra rb) hs hnot
  exact ⟨hk.range, hk.confirmed, cr_winCountOf_kept hk, hk.claimed, hk.price, hk.payTok, hk.perTicket,
    cr_due_kept hk (pl_step_variant hs)⟩

/-! ## 3. the launchpad token -/

/-- **launchpad-token receipts over ANY history**, all eight contracts: lock calls with destination
    `a` plus direct launchpad-token transfers to `a` add up to the sum of `cr_owedLp` — for his
    claim `perTicket × winning` of the pre-state (six non-vested contracts), resp. the increment of
    his `userClaimed` record (guarV1, guarV2); 0 for every other transaction. -/
theorem launchpad_total (hash : List Nat → List Nat) (s : State) (r : Nat) (h : Covered hash s r)
    (hist : List (Env × Call)) (a : Nat) (ha : a ≠ s.owner)
    (ha2 : s.variant.hasLock = true → a ≠ s.lockAddr) :
    totalReceived s.lpTok a (lk_runLog hash s hist) = cr_totalOwedLp hash a (lk_runLog hash s hist) :=
  cr_totalLp_eq hash a hist s (cr_static_covered h) ha ha2

/-- **six non-vested contracts, from completion**: an unsettled `a` receives in launchpad tokens
    (direct + locked) 0 before his claim and exactly `perTicket × winCountOf a` — as evaluated in the
    starting state — from his claim on; nothing after he has settled. -/
theorem launchpad_after_completion (hash : List Nat → List Nat) (s : State) (r : Nat)
    (h : Covered hash s r) (hd : AllDone s) (hv : s.variant.vested = false) (hist : Hist)
    (hr : RoundsFrom r hist) (hok : ∀ x ∈ hist, HistOK x.1 x.2) (a : Nat) (ha : a ≠ s.owner)
    (ha2 : s.variant.hasLock = true → a ≠ s.lockAddr) :
    (s.claimed a = false → totalReceived s.lpTok a (lk_runLog hash s hist) =
      (match (lk_runLog hash s hist).find? (isClaimBy a) with
       | some _ => s.perTicket * winCountOf s a
       | none => 0)) ∧
    (s.claimed a = true → totalReceived s.lpTok a (lk_runLog hash s hist) = 0) :=
  ⟨fun hcl => (cr_from_done hash a hist s r h hd (cr_static_covered h) hr hok ha ha2 hcl).2 hv,
   fun hcl => (cr_after_settle hash a hist s r h hd (cr_static_covered h) hr hok ha ha2 hcl).2.1 hv⟩

/-- **two vested contracts (guarV1, guarV2), from completion**: the launchpad tokens `a` receives
    over any admissible history are exactly the increase of his `userClaimed` record (which never
    decreases).  With `LP.Props.C13reachV2.claim_releases_exactly_guarV2` /
    `LP.Props.C01reachG1` (`released_exact_*`, `vesting_path_independent_*`) the final
    `userClaimed a` is the floor formula `userTotal × unlocked % / 10000` at the round of his last
    claim. -/
theorem vested_after_completion (hash : List Nat → List Nat) (s : State) (r : Nat)
    (h : Covered hash s r) (hd : AllDone s) (hv : s.variant.vested = true) (hist : Hist)
    (hr : RoundsFrom r hist) (hok : ∀ x ∈ hist, HistOK x.1 x.2) (a : Nat) (ha : a ≠ s.owner) :
    totalReceived s.lpTok a (lk_runLog hash s hist)
      = (run hash s hist).userClaimed a - s.userClaimed a ∧
    s.userClaimed a ≤ (run hash s hist).userClaimed a := by
  have := cr_vested_from_done hash a hist s r h hd (cr_static_covered h) hv hr hok ha
  omega

/-- **all eight contracts in one statement** (`ReachOf hash v`, from completion, unsettled `a`):
    payment token — 0 or `cr_due s a`; launchpad token — per family. -/
theorem receipts_every_variant (hash : List Nat → List Nat) (v : Variant) (s : State) (r : Nat)
    (h : ReachOf hash v s r) (hd : AllDone s) (hist : Hist) (hr : RoundsFrom r hist)
    (hok : ∀ x ∈ hist, HistOK x.1 x.2) (a : Nat) (ha : a ≠ s.owner)
    (ha2 : s.variant.hasLock = true → a ≠ s.lockAddr) (hcl : s.claimed a = false) :
    s.variant = v ∧
    cr_total s.payTok a (lk_runLog hash s hist) =
      (match (lk_runLog hash s hist).find? (isClaimBy a) with
       | some _ => cr_due s a
       | none => 0) ∧
    ((lk_runLog hash s hist).filter (cr_isSettleBy a)).length ≤ 1 ∧
    (match v with
     | .guarV1 | .guarV2 =>
        totalReceived s.lpTok a (lk_runLog hash s hist)
          = (run hash s hist).userClaimed a - s.userClaimed a
     | _ =>
        totalReceived s.lpTok a (lk_runLog hash s hist) =
          (match (lk_runLog hash s hist).find? (isClaimBy a) with
           | some _ => s.perTicket * winCountOf s a
           | none => 0)) := by
  have hc := covered_of_reachOf hash v s r h
  have hvar : s.variant = v := by
    cases v <;> simp only [ReachOf] at h
    · exact rc_variant_reach h
    · exact rc_variant_reach h
    · exact rc_variant_reach h
    · exact variant_g1 h
    · exact rc_variant_reach h
    · exact rc_variant_v1 h
    · exact rc_variant_v1 h
    · exact rc_variant_ng h
  have hpay := (payment_after_completion hash s r hc hd hist hr hok a ha ha2 hcl).1
  refine ⟨hvar, hpay, settles_at_most_once hash s hist a, ?_⟩
  have nonv : s.variant.vested = false → totalReceived s.lpTok a (lk_runLog hash s hist) =
      (match (lk_runLog hash s hist).find? (isClaimBy a) with
       | some _ => s.perTicket * winCountOf s a
       | none => 0) :=
    fun hv => (launchpad_after_completion hash s r hc hd hv hist hr hok a ha ha2).1 hcl
  have vest : s.variant.vested = true → totalReceived s.lpTok a (lk_runLog hash s hist)
      = (run hash s hist).userClaimed a - s.userClaimed a :=
    fun hv => (vested_after_completion hash s r hc hd hv hist hr hok a ha).1
  cases v <;> simp only [] <;> first
    | exact nonv (by rw [hvar]; rfl)
    | exact vest (by rw [hvar]; rfl)

/-! ## 4. the owner (PARTIAL)

  FULL STATEMENT WANTED: over any history from a reachable state the owner's payment-token receipts
  from `claimPayment` total `price × winners` exactly once (a second withdrawal pays 0 proceeds),
  with the proceeds value at completion.
  PROVED here: a `claimPayment` pays nobody but the owner (any state) — so everything a non-owner
  receives comes from `claim` / `blacklist` / `refundUsers` (section 1).
  EXISTING elsewhere: per family, `claimablePayment = price × winners at completion` and
  "only `claimPayment` changes it, to zero" (`LP.Props.AllVariants.C03_every_variant`,
  `C03_proceeds_until_withdrawal_partial`: base, locked, migration, lockedGuar, guarV1); exact
  transfers of one withdrawal: `LP.PL.owner_*` (C02reach), `C14.claimPayment_nft`.
  MISSING: an exact, variant-uniform characterisation of the transfers of `claimPayment`
  (`cr_paid payTok owner o.xfers = claimablePayment (+ claimableNft in the same token)`) and the
  proceeds frame for guarV2 / nft / nftGuar; the owner may also be a participant, so his total is
  proceeds + his own `cr_owedPay`. -/
theorem owner_only_from_withdrawals (hash : List Nat → List Nat) (s : State) (e : Env) (s' : State)
    (o : Out) (hs : step hash s e .claimPayment = .ok (s', o)) (tok : Token) (a : Nat)
    (ha : a ≠ s.owner) : e.caller = s.owner ∧ cr_paid tok a o.xfers = 0 :=
  ⟨step_claimPayment_owner hs, cr_xfers_to_caller hs tok ha⟩

/-! ## non-vacuity

  (a) the locked guaranteed-ticket launchpad `g7` of LP/Props/C16reach.lean (round 12, all steps
  done; participant 7 confirmed 2 and holds both winning tickets, participant 8 confirmed 1 and
  lost; price 10 EGLD, 1000 tokens per ticket) and its history `gHist`: 7 claims, 8 claims, the owner
  withdraws, 7 claims again (rejected). -/

open LP.Props.C16reach in
theorem g7_covered : Covered id g7 12 := covered_of_reachOf id .lockedGuar g7 12 g7_reachOf

open LP.Props.C16reach in
theorem gHist_ok : RoundsFrom 12 gHist ∧ ∀ x ∈ gHist, HistOK x.1 x.2 := by
  refine ⟨⟨by decide, by decide, by decide, by decide, trivial⟩, ?_⟩
  intro x hx
  simp only [gHist, List.mem_cons, List.not_mem_nil, or_false] at hx
  rcases hx with rfl | rfl | rfl | rfl <;> exact ⟨Or.inl rfl, trivial, trivial⟩

open LP.Props.C16reach in
/-- the hypotheses of `payment_after_completion` hold for participants 7 and 8 in `g7`, and the
    amounts are: 7 is owed `10 × (2 − 2) = 0`, 8 is owed `10 × (1 − 0) = 10` -/
example : AllDone g7 ∧ g7.owner = 1 ∧ g7.lockAddr = 77 ∧ g7.claimed 7 = false ∧ g7.claimed 8 = false ∧
    cr_due g7 7 = 0 ∧ cr_due g7 8 = 10 ∧ g7.payTok = .egld := by
  refine ⟨⟨rfl, rfl⟩, rfl, rfl, rfl, rfl, by decide +kernel, by decide +kernel, rfl⟩

open LP.Props.C16reach in
/-- the theorem applied: over `gHist` participant 8 receives exactly `cr_due g7 8 = 10` EGLD -/
example : cr_total .egld 8 (lk_runLog id g7 gHist) = 10 := by
  have h := (payment_after_completion id g7 12 g7_covered ⟨rfl, rfl⟩ gHist gHist_ok.1 gHist_ok.2 8
    (by decide +kernel) (fun _ => by decide +kernel) rfl).1
  have h1 : g7.payTok = .egld := rfl
  rw [h1] at h
  rw [h]
  have h2 : (lk_runLog id g7 gHist).find? (isClaimBy 8) ≠ none := by decide +kernel
  have h3 : cr_due g7 8 = 10 := by decide +kernel
  cases hf : (lk_runLog id g7 gHist).find? (isClaimBy 8) with
  | none => exact absurd hf h2
  | some x => exact h3

open LP.Props.C16reach in
/-- evaluated directly: 8 receives 10 EGLD, 7 nothing in EGLD; 7 receives `1000 × 2` launchpad
    tokens (500 locked + 1500 direct), 8 none; three accepted transactions, one settlement each -/
example : cr_total .egld 8 (lk_runLog id g7 gHist) = 10 ∧ cr_total .egld 7 (lk_runLog id g7 gHist) = 0 ∧
    totalReceived 1 7 (lk_runLog id g7 gHist) = 2000 ∧ totalReceived 1 8 (lk_runLog id g7 gHist) = 0 ∧
    ((lk_runLog id g7 gHist).filter (cr_isSettleBy 7)).length = 1 ∧
    g7.perTicket * winCountOf g7 7 = 2000 := by
  refine ⟨by decide +kernel, by decide +kernel, by decide +kernel, by decide +kernel,
    by decide +kernel, by decide +kernel⟩

open LP.Props.C16reach in
/-- `receipts_every_variant` on `g7` / participant 7 -/
example : totalReceived g7.lpTok 7 (lk_runLog id g7 gHist) =
    (match (lk_runLog id g7 gHist).find? (isClaimBy 7) with
     | some _ => g7.perTicket * winCountOf g7 7
     | none => 0) :=
  (receipts_every_variant id .lockedGuar g7 12 g7_reachOf ⟨rfl, rfl⟩ gHist gHist_ok.1 gHist_ok.2 7
    (by decide +kernel) (fun _ => by decide +kernel) rfl).2.2.2

/-! (b) the base launchpad `ex7` of LP/Props/C01reach.lean (round 12, all steps done) -/

open LP.Props.C01reach in
example : Covered id ex7 12 ∧ AllDone ex7 ∧ ex7.variant.vested = false :=
  ⟨.plain (Or.inl rfl) ex7_reach, ⟨rfl, rfl⟩, rfl⟩

open LP.Props.C01reach in
/-- `payment_per_transaction` on the winner's claim `ex7 → ex8`: its hypotheses hold -/
example : ex7.payTok ≠ .esdt ex7.lpTok ∧ (7 : Nat) ≠ ex7.owner ∧
    ∃ o, step id ex7 { caller := 7, round := 15 } .claim = .ok (ex8, o) ∧
      cr_paid ex7.payTok 7 o.xfers = cr_owedPay ex7 { caller := 7, round := 15 } .claim 7 := by
  obtain ⟨o, ho⟩ := LP.PL.stOf_step (x := step id ex7 { caller := 7, round := 15 } .claim) rfl ex7
  have ho' : step id ex7 { caller := 7, round := 15 } .claim = .ok (ex8, o) := ho
  exact ⟨by decide, by decide, o, ho',
    (payment_per_transaction id ex7 _ _ ex8 o (by decide) 7 (by decide) ho').1⟩

end LP.Props.C01receipts

#print axioms LP.Props.C01receipts.covered_of_reachOf
#print axioms LP.Props.C01receipts.static_of_covered
#print axioms LP.Props.C01receipts.payment_per_transaction
#print axioms LP.Props.C01receipts.payment_total
#print axioms LP.Props.C01receipts.payment_total_any_state
#print axioms LP.Props.C01receipts.settles_at_most_once
#print axioms LP.Props.C01receipts.payment_total_classified
#print axioms LP.Props.C01receipts.payment_after_completion
#print axioms LP.Props.C01receipts.payment_after_settlement
#print axioms LP.Props.C01receipts.unsettled_data_frozen
#print axioms LP.Props.C01receipts.launchpad_total
#print axioms LP.Props.C01receipts.launchpad_after_completion
#print axioms LP.Props.C01receipts.vested_after_completion
#print axioms LP.Props.C01receipts.receipts_every_variant
#print axioms LP.Props.C01receipts.owner_only_from_withdrawals
#print axioms LP.Props.C01receipts.g7_covered
#print axioms LP.Props.C01receipts.gHist_ok
#print axioms LP.Props.C01receipts.variant_g1
