import LP.Proofs.Blacklist
import LP.Props.C06gates
import LP.Props.C07
import LP.Props.C08
import LP.Props.C20
/-
  C10 — blacklisting refunds in full and excludes; un-blacklisting restores.

  1  `blacklist_effect`, `blacklist_atomic`              (accepted ⇒ who / when / whom, exact refunds, frame)
  2  `blacklisted_cannot_confirm`
  3  `blacklisted_confirmed_zero` (invariant), `no_range_cannot_claim`
  4  `unblacklist_effect`, `unblacklist_restores_v2`
-/
namespace LP.Props.C10
open LP LP.Events LP.Props.C20

/-! ## 1. blacklisting -/

/-- **C10.1** an accepted `addUsersToBlacklist` (any variant): the caller is owner or support, the
    stage is AddTickets or Confirm, the list has no duplicates, every listed user had an allocation
    record and was not blacklisted; afterwards every listed user is blacklisted with zero
    confirmations and was sent exactly `price * confirmed_before` of the payment token (one
    transfer, none if nothing was confirmed); every other address keeps `confirmed`, `range`,
    `blacklist`; all allocation records (`range`) are unchanged — also those of the listed users. -/
theorem blacklist_effect (hash : List Nat → List Nat) (s : State) (e : Env) (l : List Nat)
    (s' : State) (o : Out) (h : step hash s e (.blacklist l) = .ok (s', o)) :
    (e.caller = s.owner ∨ e.caller = s.support) ∧
    (s.stage e = .addTickets ∨ s.stage e = .confirm) ∧
    l.Nodup ∧
    (∀ u ∈ l, (s.range u).isSome = true ∧ s.blacklist u = false) ∧
    (∀ u ∈ l, s'.blacklist u = true ∧ s'.confirmed u = 0) ∧
    (∃ xf, o.xfers = l.filterMap (blXfer s) ++ xf ∧ (s.variant.hasNft = false → xf = []) ∧
      ∀ u ∈ l, (l.filterMap (blXfer s)).filter (fun x => x.1 = u) =
        if s.confirmed u > 0 then [(u, ⟨s.payTok, 0, s.price * s.confirmed u⟩)] else []) ∧
    (∀ a, a ∉ l → s'.confirmed a = s.confirmed a ∧ s'.blacklist a = s.blacklist a) ∧
    (∀ a, s'.range a = s.range a) ∧
    s.price * blConfSum s l ≤ s.bal s.payTok 0 ∧
    (s.variant.hasNft = false → s'.bal = s.bal.sub s.payTok 0 (s.price * blConfSum s l)) := by
  obtain ⟨t, hx, rfl, rfl⟩ := step_nopay_inv (by intro m hm; simp [endpointMeta] at hm; rw [← hm]) h
  obtain ⟨hadd, _, ⟨xf, hxf, hnft⟩, _, _, _, s1, py, bal, hg, hs, hpb⟩ := exec_blacklist_out hx
  obtain ⟨hperm, hstage, hnd, hall, hle, _⟩ := (addUsersToBlacklist_ok_iff _ _ _ _).mp hadd
  obtain ⟨⟨wl, uu, bb, nw, tg, rfl⟩, _⟩ := hg
  refine ⟨hperm, hstage, hnd, fun u hu => ⟨(hall u hu).2, (hall u hu).1⟩, ?_, ⟨xf, ?_, hnft, ?_⟩,
    ?_, ?_, hle, ?_⟩
  · intro u hu
    rw [hs]
    simp [blState, txOf, hu]
  · rw [hxf]; exact congrArg (· ++ _) (List.nil_append _)
  · intro u hu
    have := blXfer_filter s u l hnd hu
    rw [this]
    unfold blXfer refundPay
    split <;> rfl
  · intro a ha
    rw [hs]
    simp [blState, txOf, ha]
  · intro a
    rw [hs]; rfl
  · intro hn
    rw [hs, (hpb hn).2]; rfl

/-- **C10.1, batch atomicity**: if any listed user is already blacklisted or has no allocation
    record (or the list contains a duplicate) the whole call fails -/
theorem blacklist_atomic (hash : List Nat → List Nat) (s : State) (e : Env) (l : List Nat)
    (hbad : (∃ u ∈ l, s.blacklist u = true ∨ s.range u = none) ∨ ¬ l.Nodup) :
    ∃ err, step hash s e (.blacklist l) = .error err := by
  cases h : step hash s e (.blacklist l) with
  | error err => exact ⟨err, rfl⟩
  | ok r =>
    obtain ⟨s', o⟩ := r
    obtain ⟨_, _, hnd, hall, _⟩ := blacklist_effect hash s e l s' o h
    rcases hbad with ⟨u, hu, hb | hr⟩ | hd
    · have := (hall u hu).2; rw [hb] at this; cases this
    · have := (hall u hu).1; rw [hr] at this; cases this
    · exact absurd hnd hd

/-- the stage gate, via `C06.blacklist_only_before_selection` -/
theorem blacklist_stage (hash : List Nat → List Nat) (s : State) (e : Env) (l : List Nat) (r : State × Out)
    (h : step hash s e (.blacklist l) = .ok r) : s.stage e = .addTickets ∨ s.stage e = .confirm :=
  C06.blacklist_only_before_selection hash s e _ r (Or.inl ⟨l, rfl⟩) h

/-! ## 2. a blacklisted user cannot confirm -/

/-- **C10.2** -/
theorem blacklisted_cannot_confirm (hash : List Nat → List Nat) (s : State) (e : Env) (n : Nat)
    (hb : s.blacklist e.caller = true) : ∃ err, step hash s e (.confirm n) = .error err := by
  cases h : step hash s e (.confirm n) with
  | error err => exact ⟨err, rfl⟩
  | ok r =>
    obtain ⟨total, hacc⟩ := (C07.confirm_accepted_iff hash s e n).mp ⟨r, h⟩
    have := hacc.2.2.2.2.1
    rw [hb] at this; cases this

/-! ## 3. blacklisted users hold no ticket in the draw and can claim nothing

  `BlZero s` : every blacklisted user has `confirmed = 0`.  It holds after blacklisting (C10.1) and
  is preserved: only `confirm` raises `confirmed`, and it is rejected for blacklisted callers
  (C10.2).  With `confirmed u = 0` the filter removes `u`'s allocation record
  (`C08.filter_spec`: `conf p.1 = 0 → f.range p.1 = none`), and with `range u = none` the
  settlement fails with "You have no tickets" (`no_range_cannot_claim` below). -/

/-- the calls for which preservation of `BlZero` is proved here -/
def covered : Call → Bool
  | .confirm _ | .blacklist _ | .refundUsers _ | .unblacklist _
  | .addTickets _ | .addTicketsV1 _ | .addTicketsV2 _ | .setTicketPrice _ _ | .setSchedule2 _
  | .pause | .unpause | .setSupport _ => true
  | _ => false

/-- **C10.3, invariant** `blacklisted ⇒ confirmed = 0` is preserved by confirmations, blacklist
    changes, allocations (all three variants' endpoints) and the simple setters listed in `covered` -/
theorem blacklisted_confirmed_zero (hash : List Nat → List Nat) (s : State) (e : Env) (c : Call)
    (s' : State) (o : Out) (hc : covered c = true) (hz : BlZero s)
    (h : step hash s e c = .ok (s', o)) : BlZero s' := by
  cases c <;> simp only [covered, Bool.false_eq_true] at hc
  case confirm n =>
    obtain ⟨total, hacc, hs, _⟩ := C07.confirm_effect hash s e n s' o h
    have hnb := hacc.2.2.2.2.1
    intro u hu
    rw [hs] at hu ⊢
    have hu' : s.blacklist u = true := hu
    have hne : u ≠ e.caller := by rintro rfl; rw [hnb] at hu'; cases hu'
    show upd s.confirmed e.caller _ u = 0
    rw [upd_other _ _ _ _ hne]
    exact hz u hu'
  case blacklist l =>
    obtain ⟨t, hx, rfl, rfl⟩ := step_nopay_inv (by intro m hm; simp [endpointMeta] at hm; rw [← hm]) h
    obtain ⟨_, _, _, _, _, _, s1, py, bal, hg, hs, _⟩ := exec_blacklist_out hx
    have h1 : BlZero s1 := BlZero.of_sameCB hg.sameCB (hz.blState l)
    rw [hs]; exact h1
  case refundUsers l =>
    obtain ⟨t, hx, rfl, rfl⟩ := step_nopay_inv (by
      intro m hm; simp only [endpointMeta] at hm; split at hm
      · injection hm with hm; rw [← hm]
      · cases hm) h
    obtain ⟨_, _, _, hg⟩ := exec_refundUsers_out hx
    exact BlZero.of_sameCB hg.sameCB (hz.blState l)
  case unblacklist l =>
    obtain ⟨t, hx, rfl, rfl⟩ := step_nopay_inv (by
      intro m hm; simp only [endpointMeta] at hm; split at hm
      · injection hm with hm; rw [← hm]
      · cases hm) h
    obtain ⟨_, hg, _⟩ := exec_unblacklist_out hx
    exact BlZero.of_sameCB hg.sameCB (hz.unblState l)
  case addTickets l =>
    obtain ⟨t, hx, rfl, rfl⟩ := step_nopay_inv (by
      intro m hm; simp only [endpointMeta] at hm; split at hm
      · injection hm with hm; rw [← hm]
      · cases hm) h
    simp only [exec, bind_ok_iff, pure_ok_iff, requireStage, req_ok_iff, exists_const] at hx
    obtain ⟨_, s1, hcm, rfl⟩ := hx
    exact BlZero.of_sameCB (createMany_sameCB l _ _ hcm) hz
  case addTicketsV1 l =>
    obtain ⟨t, hx, rfl, rfl⟩ := step_nopay_inv (by
      intro m hm; simp only [endpointMeta] at hm; split at hm
      · injection hm with hm; rw [← hm]
      · cases hm) h
    simp only [exec, addTicketsV1, bind_ok_iff, pure_ok_iff, Prod.exists, requireStage, req_ok_iff, exists_const] at hx
    obtain ⟨s2, ⟨_, s1, tw, tg, hm, rfl⟩, rfl⟩ := hx
    exact BlZero.of_sameCB (SameCB.trans (addV1Many_sameCB l _ _ _ _ _ _ hm) ⟨rfl, rfl⟩) hz
  case addTicketsV2 l =>
    obtain ⟨t, hx, rfl, rfl⟩ := step_nopay_inv (by
      intro m hm; simp only [endpointMeta] at hm; split at hm
      · injection hm with hm; rw [← hm]
      · cases hm) h
    simp only [exec, addTicketsV2, bind_ok_iff, pure_ok_iff, Prod.exists, requireStage, req_ok_iff, exists_const] at hx
    obtain ⟨_, s1, tw, tg, uc, ta, ga, hm, rfl⟩ := hx
    exact BlZero.of_sameCB (SameCB.trans (addV2Many_sameCB e l _ _ _ _ _ _ _ _ _ _ _ _ hm) ⟨rfl, rfl⟩) hz
  case setTicketPrice tok a =>
    obtain ⟨_, _, _, hs, _⟩ := setTicketPrice_exact hash s e tok a s' o h
    rw [hs]; exact hz
  case setSchedule2 ms =>
    obtain ⟨_, hs, _⟩ := setSchedule2_event hash s e ms s' o h
    rw [hs]; exact hz
  case pause =>
    obtain ⟨t, hx, rfl, rfl⟩ := step_nopay_inv (by intro m hm; simp [endpointMeta] at hm; rw [← hm]) h
    simp only [exec, pure_ok_iff] at hx; subst hx; exact hz
  case unpause =>
    obtain ⟨t, hx, rfl, rfl⟩ := step_nopay_inv (by intro m hm; simp [endpointMeta] at hm; rw [← hm]) h
    simp only [exec, pure_ok_iff] at hx; subst hx; exact hz
  case setSupport a =>
    obtain ⟨t, hx, rfl, rfl⟩ := step_nopay_inv (by intro m hm; simp [endpointMeta] at hm; rw [← hm]) h
    simp only [exec, pure_ok_iff] at hx; subst hx; exact hz

/-- blacklisting establishes the invariant for the listed users whatever held before -/
theorem blacklist_establishes (hash : List Nat → List Nat) (s : State) (e : Env) (l : List Nat)
    (s' : State) (o : Out) (h : step hash s e (.blacklist l) = .ok (s', o)) :
    ∀ u ∈ l, s'.blacklist u = true ∧ s'.confirmed u = 0 :=
  (blacklist_effect hash s e l s' o h).2.2.2.2.1

/-- **C10.3, last step**: without an allocation record a `claim` fails, unless the variant is a
    vesting one and the caller has already settled (then the call only releases vested tokens) -/
theorem no_range_cannot_claim (hash : List Nat → List Nat) (s : State) (e : Env) (r : State × Out)
    (hr : s.range e.caller = none) (h : step hash s e .claim = .ok r) :
    s.variant.vested = true ∧ s.claimed e.caller = true := by
  obtain ⟨s', o⟩ := r
  obtain ⟨t, hx, rfl, rfl⟩ := step_nopay_inv (by intro m hm; simp [endpointMeta] at hm; rw [← hm]) h
  cases hv : s.variant.vested with
  | false =>
    exfalso
    obtain ⟨s1, redeem, rf, hset, _⟩ := exec_claim_plain_events (t := txOf s e) hv hx
    obtain ⟨_, _, r, _, _, _, hrr, _⟩ := settle_ok_frame hset
    have : s.range e.caller = some r := hrr
    rw [hr] at this; cases this
  | true =>
    refine ⟨rfl, ?_⟩
    have hvest : (txOf s e).s.variant.vested = true := hv
    simp only [exec, hvest, ↓reduceIte] at hx
    cases hcl : s.claimed e.caller with
    | true => rfl
    | false =>
      exfalso
      obtain ⟨s1, redeem, rf, t1, c, hset, _⟩ := claimVested_first (t := txOf s e) hcl hx
      obtain ⟨_, _, r, _, _, _, hrr, _⟩ := settle_ok_frame hset
      have : s.range e.caller = some r := hrr
      rw [hr] at this; cases this

/-! ## 4. un-blacklisting -/

/-- **C10.4** an accepted `removeUsersFromBlacklist` (variants guarV1, guarV2, migration): caller
    is owner or support, stage AddTickets or Confirm, every listed user was blacklisted (no
    duplicates); the flag is cleared for exactly the listed users; nobody's confirmations,
    allocation records or winning flags change; outside the list the guaranteed-ticket records
    `uts` / `blUts` are unchanged; besides `blacklist` only `whitelist`, `uts`, `blUts`,
    `nrWinning`, `totalGuaranteed` may differ. -/
theorem unblacklist_effect (hash : List Nat → List Nat) (s : State) (e : Env) (l : List Nat)
    (s' : State) (o : Out) (h : step hash s e (.unblacklist l) = .ok (s', o)) :
    s.variant.hasUnblacklist = true ∧
    (e.caller = s.owner ∨ e.caller = s.support) ∧
    (s.stage e = .addTickets ∨ s.stage e = .confirm) ∧
    l.Nodup ∧ (∀ u ∈ l, s.blacklist u = true) ∧
    (∀ a, s'.blacklist a = if a ∈ l then false else s.blacklist a) ∧
    (∀ a, s'.confirmed a = s.confirmed a ∧ s'.range a = s.range a ∧ s'.status a = s.status a) ∧
    (∀ a, a ∉ l → s'.uts a = s.uts a ∧ s'.blUts a = s.blUts a) ∧
    (∃ wl u b nw tg, s' = { s with blacklist := fun a => if a ∈ l then false else s.blacklist a,
                                   whitelist := wl, uts := u, blUts := b, nrWinning := nw,
                                   totalGuaranteed := tg }) ∧
    o.xfers = [] := by
  have hvar : s.variant.hasUnblacklist = true := by
    obtain ⟨m, _, hm, _⟩ := step_ok_inv h
    simp only [endpointMeta] at hm
    split at hm
    · assumption
    · cases hm
  obtain ⟨t, hx, rfl, rfl⟩ := step_nopay_inv (by
    intro m hm; simp only [endpointMeta, hvar, ↓reduceIte] at hm
    injection hm with hm; rw [← hm]) h
  obtain ⟨hrem, hg, _, ho, _⟩ := exec_unblacklist_out hx
  obtain ⟨hperm, hstage, hnd, hall, _⟩ := (removeUsersFromBlacklist_ok_iff _ _ _ _).mp hrem
  obtain ⟨⟨wl, uu, bb, nw, tg, hs⟩, hout⟩ := hg
  refine ⟨hvar, hperm, hstage, hnd, hall, ?_, ?_, ?_, ⟨wl, uu, bb, nw, tg, ?_⟩, ?_⟩
  · intro a; rw [hs]; rfl
  · intro a; rw [hs]; exact ⟨rfl, rfl, rfl⟩
  · intro a ha; exact hout a ha
  · rw [hs]; rfl
  · rw [ho]; rfl

/-- **C10.4, v2 restore**: a listed user with an allocation record whose guaranteed-ticket record
    was parked in `blUts` by the blacklisting gets it back in `uts`, and the parked copy is cleared -/
theorem unblacklist_restores_v2 (hash : List Nat → List Nat) (s : State) (e : Env) (l : List Nat)
    (s' : State) (o : Out) (hv : s.variant = .guarV2)
    (h : step hash s e (.unblacklist l) = .ok (s', o))
    (u : Nat) (hu : u ∈ l) (hr : (s.range u).isSome = true) (st : UTS) (hst : s.blUts u = some st) :
    s'.uts u = some st ∧ s'.blUts u = none := by
  obtain ⟨t, hx, rfl, rfl⟩ := step_nopay_inv (by
    intro m hm; simp only [endpointMeta] at hm; split at hm
    · injection hm with hm; rw [← hm]
    · cases hm) h
  obtain ⟨hrem, _, _, _, hres⟩ := exec_unblacklist_out hx
  obtain ⟨_, _, hnd, _, _⟩ := (removeUsersFromBlacklist_ok_iff _ _ _ _).mp hrem
  have hv2 : (txOf s e).s.variant.isV2 = true := by simp [txOf, hv, Variant.isV2]
  simp only [hv2, ↓reduceIte] at hres
  have := restoreGuaranteedV2_moves hres hnd u hu hr
  have hb : (unblState (txOf s e).s l).blUts u = some st := hst
  rw [hb] at this
  simpa using this

/-! ## 5. NFT variants: the fee goes back to exactly the listed payers -/

/-- **C10.5** `refund_nft_cost_after_blacklist`: with duplicate-free `payers` (the set mapper's
    invariant) and a duplicate-free list (guaranteed by the blacklisting loop that runs first),
    the NFT fee is transferred to exactly the listed users that were in `payers`, in list order,
    and exactly those users are removed from `payers` (which stays duplicate-free) -/
theorem refundNft_exact (l : List Nat) (t t' : Tx) (hp : t.s.payers.Nodup) (hl : l.Nodup)
    (h : refundNftMany l t = .ok t') :
    t'.o.xfers = t.o.xfers ++ (l.filter (fun u => decide (u ∈ t.s.payers))).map (fun u => (u, t.s.nftCost)) ∧
    t'.s.payers.Nodup ∧ (∀ x, x ∈ t'.s.payers ↔ x ∈ t.s.payers ∧ x ∉ l) ∧
    t'.s.nftCost = t.s.nftCost ∧
    (∃ py bal, t'.s = { t.s with payers := py, bal := bal }) ∧ t'.o.events = t.o.events := by
  obtain ⟨h1, h2, h3, h4⟩ := refundNftMany_exact l t t' hp hl h
  obtain ⟨hs, _, xf, ho⟩ := refundNftMany_frame l t t' h
  exact ⟨h1, h2, h3, h4, hs, by rw [ho]⟩

/-! ## non-vacuity -/

/-- a concrete accepted blacklisting: support blacklists user 7 (2 confirmed tickets at price 10)
    and user 8 (nothing confirmed) during the confirmation window -/
def exS : State :=
  { variant := .base, owner := 1, lpTok := 1, perTicket := 1, payTok := .egld, price := 10,
    nrWinning := 1, cfg := ⟨5, 10, 15⟩, flags := {}, support := 2, deposited := true,
    range := fun a => if a = 7 then some ⟨1, 3⟩ else if a = 8 then some ⟨4, 4⟩ else none,
    confirmed := fun a => if a = 7 then 2 else 0,
    bal := fun t _ => if t = .egld then 20 else 0 }

def exE : Env := { caller := 2, round := 6 }

example : ∃ s' o, step (fun x => x) exS exE (.blacklist [7, 8]) = .ok (s', o) ∧
    o.xfers = [(7, ⟨.egld, 0, 20⟩)] ∧ o.events.length = 1 ∧
    s'.blacklist 7 = true ∧ s'.blacklist 8 = true ∧ s'.confirmed 7 = 0 ∧ s'.bal .egld 0 = 0 := by
  refine ⟨_, _, rfl, ?_⟩
  decide

example : BlZero { exS with blacklist := fun a => a == 8 } := by
  intro u hu
  have : u = 8 := by simpa [exS] using hu
  subst this; rfl

end LP.Props.C10

#print axioms LP.Props.C10.blacklist_effect
#print axioms LP.Props.C10.blacklist_atomic
#print axioms LP.Props.C10.blacklist_stage
#print axioms LP.Props.C10.blacklisted_cannot_confirm
#print axioms LP.Props.C10.blacklisted_confirmed_zero
#print axioms LP.Props.C10.blacklist_establishes
#print axioms LP.Props.C10.no_range_cannot_claim
#print axioms LP.Props.C10.unblacklist_effect
#print axioms LP.Props.C10.unblacklist_restores_v2
#print axioms LP.Props.C10.refundNft_exact
