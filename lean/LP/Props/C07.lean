import LP.Proofs.StepLemmas
/-
  C07 — Confirmation needs exact payment and never exceeds the allocation.
-/
namespace LP.Props.C07
open LP

/-- the event emitted by an accepted confirmation -/
def confirmEvent (s : State) (e : Env) (n total : Nat) : Ev :=
  ⟨"confirmTickets", [e.caller, e.round, e.epoch],
    [e.caller, e.round, e.epoch, n, s.confirmed e.caller + n, total, s.payTok.code, 0, s.price * n]⟩

/-- the conditions under which a confirmation of `n` tickets is accepted: not paused, a single
    payment (EGLD or one fungible ESDT transfer), confirmation window, tokens deposited, caller not
    blacklisted, total confirmed within the allocation, right token, exact amount -/
def Accepts (s : State) (e : Env) (n total : Nat) : Prop :=
  s.paused = false ∧
  egldOrSingleFungible e = .ok (s.payTok, s.price * n) ∧
  s.stage e = .confirm ∧ s.deposited = true ∧ s.blacklist e.caller = false ∧
  ticketsFor s e.caller = .ok total ∧ s.confirmed e.caller + n ≤ total

theorem confirmTickets_ok_iff (t : Tx) (e : Env) (n : Nat) (t' : Tx) :
    confirmTickets t e n = .ok t' ↔
      ∃ total, Accepts t.s e n total ∧
        t' = (t.setS { t.s with confirmed := upd t.s.confirmed e.caller (t.s.confirmed e.caller + n) }).emit
                (confirmEvent t.s e n total) := by
  unfold confirmTickets Accepts confirmEvent
  simp only [bind_ok_iff, pure_ok_iff, req_ok_iff, requireStage, exists_const, Prod.exists,
    Bool.not_eq_true', beq_iff_eq, decide_eq_true_eq, topics]
  constructor
  · rintro ⟨hp, tok, amount, hpay, hst, hd, hb, total, htix, hle, htok, hamt, rfl⟩
    subst htok hamt
    exact ⟨total, ⟨hp, hpay, hst, hd, hb, htix, hle⟩, rfl⟩
  · rintro ⟨total, ⟨hp, hpay, hst, hd, hb, htix, hle⟩, rfl⟩
    exact ⟨hp, _, _, hpay, hst, hd, hb, total, htix, hle, rfl, rfl, rfl⟩

/-- **C07, acceptance**: a confirmation is accepted exactly under the listed conditions -/
theorem confirm_accepted_iff (hash : List Nat → List Nat) (s : State) (e : Env) (n : Nat) :
    (∃ r, step hash s e (.confirm n) = .ok r) ↔ ∃ total, Accepts s e n total := by
  constructor
  · rintro ⟨⟨s', o⟩, h⟩
    obtain ⟨m, t, hm, _, _, hx, _, _⟩ := step_ok_inv h
    simp only [exec] at hx
    obtain ⟨total, hacc, _⟩ := (confirmTickets_ok_iff _ e n t).mp hx
    exact ⟨total, by simpa [Accepts, tx0, ticketsFor] using hacc⟩
  · rintro ⟨total, hacc⟩
    have hacc' : Accepts (tx0 s e).s e n total := by simpa [Accepts, tx0, ticketsFor] using hacc
    have hx := (confirmTickets_ok_iff (tx0 s e) e n _).mpr ⟨total, hacc', rfl⟩
    unfold step
    simp only [endpointMeta, Bool.not_true, Bool.false_and, Bool.false_eq_true, ↓reduceIte, exec]
    unfold tx0 at hx
    rw [hx]
    exact ⟨_, rfl⟩

/-- **C07, effect**: on acceptance exactly `n` more tickets are recorded as confirmed for the
    caller, the contract's holdings are the old ones plus the call value, nothing is sent out, and
    one `confirmTickets` event reports (n, new total, allocation, token, amount); nothing else
    in the state changes -/
theorem confirm_effect (hash : List Nat → List Nat) (s : State) (e : Env) (n : Nat) (s' : State) (o : Out)
    (h : step hash s e (.confirm n) = .ok (s', o)) :
    ∃ total, Accepts s e n total ∧
      s' = { creditPayments s e with confirmed := upd s.confirmed e.caller (s.confirmed e.caller + n) } ∧
      o.xfers = [] ∧ o.locks = [] ∧ o.sfts = [] ∧ o.events = [confirmEvent s e n total] := by
  obtain ⟨m, t, hm, _, _, hx, hs, ho⟩ := step_ok_inv h
  simp only [exec] at hx
  obtain ⟨total, hacc, ht⟩ := (confirmTickets_ok_iff _ e n t).mp hx
  refine ⟨total, by simpa [Accepts, tx0, ticketsFor] using hacc, ?_, ?_, ?_, ?_, ?_⟩ <;>
    simp [hs, ho, ht, tx0, Tx.setS, Tx.emit, confirmEvent]

/-- the call value of an accepted confirmation is exactly `price * n` of the payment token:
    the holdings grow by exactly that (for a well-formed call value: EGLD or ESDT, not both) -/
theorem confirm_holdings (s : State) (e : Env) (n total : Nat) (hacc : Accepts s e n total)
    (hwf : e.egld = 0 ∨ e.esdts = []) :
    (creditPayments s e).bal = s.bal.add s.payTok 0 (s.price * n) := by
  obtain ⟨_, hpay, _⟩ := hacc
  unfold egldOrSingleFungible at hpay
  unfold creditPayments
  cases hes : e.esdts with
  | nil =>
    simp [hes] at hpay
    simp [hpay.1.symm, hpay.2]
  | cons p rest =>
    cases rest with
    | nil =>
      simp [hes] at hpay
      have he : e.egld = 0 := by
        cases hwf with
        | inl h => exact h
        | inr h => simp [hes] at h
      split at hpay
      · rename_i hn
        simp at hpay
        simp only [List.foldl_cons, List.foldl_nil, he]
        funext t k
        simp [Bal.add, hpay.1.symm, hpay.2.symm, hn]
      · simp at hpay
    | cons q rest' => simp [hes] at hpay

/-- any other payment (wrong token, one unit more or less, several transfers, a non-fungible
    nonce) is rejected — and a rejected call has no effect (`C15.rejected_is_noop`) -/
theorem confirm_wrong_payment_rejected (hash : List Nat → List Nat) (s : State) (e : Env) (n : Nat)
    (hbad : egldOrSingleFungible e ≠ .ok (s.payTok, s.price * n)) :
    ∃ err, step hash s e (.confirm n) = .error err := by
  cases h : step hash s e (.confirm n) with
  | error err => exact ⟨err, rfl⟩
  | ok r =>
    obtain ⟨total, hacc⟩ := (confirm_accepted_iff hash s e n).mp ⟨r, h⟩
    exact absurd hacc.2.1 hbad

/-- non-vacuity: a concrete accepted confirmation -/
example : ∃ s : State, ∃ e : Env, Accepts s e 2 3 := by
  refine ⟨{ variant := .base, owner := 1, lpTok := 1, perTicket := 1, payTok := .egld, price := 10,
            nrWinning := 1, cfg := ⟨5, 10, 15⟩, flags := {}, support := 1, deposited := true,
            range := fun a => if a = 7 then some ⟨1, 3⟩ else none },
          { caller := 7, round := 6, egld := 20 }, ?_⟩
  simp [Accepts, egldOrSingleFungible, State.stage, stageOf, ticketsFor, csub, bind, Except.bind, pure, Except.pure]

end LP.Props.C07

#print axioms LP.Props.C07.confirm_accepted_iff
#print axioms LP.Props.C07.confirm_effect
#print axioms LP.Props.C07.confirm_holdings
#print axioms LP.Props.C07.confirm_wrong_payment_rejected

#print axioms LP.Props.C07.confirmTickets_ok_iff
