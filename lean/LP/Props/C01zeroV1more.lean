import LP.Proofs.ZeroAllocV1C
import LP.Props.C01zeroV1
/-
  The REMAINING theorems of LP/Props/C01reachV1.lean (v1 guaranteed family on the common claim path:
  `Variant.migration`, `Variant.lockedGuar`) transferred to the UNRESTRICTED reachability relation
  `v1_ReachZ` / `v1_ReachZA` (LP/Proofs/ZeroAllocV1B.lean: no premise on allocation entries, an
  `addTicketsV1` entry may be `(a, 0, 0, m)`; `EnvOK` kept).  Continues LP/Props/C01zeroV1.lean.

      original (`v1_Reach`)                       here (`v1_ReachZ` / `v1_ReachZA`)
      `proceeds_until_withdrawal_v1`              `proceeds_until_withdrawal_ZV1`
      `proceeds_are_price_times_winners_v1`       `proceeds_are_price_times_winners_ZV1` (`LaterZ`)
      `interrupted_distribute_keeps_pre`          `interrupted_distribute_keeps_pre_ZV1`
      `whitelisted_iff_v1`                        `whitelisted_iff_ZV1`
      `guarantee_honoured_v1`                     `guarantee_honoured_ZV1`
      `deposit_is_perTicket_times_T0`             `deposit_is_perTicket_times_T0_ZV1`
      `owner_surplus_v1`                          `owner_surplus_ZV1`
      `lp_zero_at_end_v1`                         `lp_zero_at_end_ZV1` (also `…_empty`: stale empty
                                                  ranges may remain)
      `all_settled_nothing_left_v1`               `all_settled_nothing_left_ZV1` (also `…_empty`)
      —                                           `nothing_confirmed_before_deposit_ZV1`,
                                                  `winner_covered_ZV1_full`,
                                                  `claim_never_starves_ZV1` (NO deposit hypothesis)

  All statements are at full strength (same conclusions as the originals; `r ≤ e.round` / `EnvOK e`
  added only where a step is replayed on the erased state, i.e. `guarantee_honoured_ZV1` and
  `proceeds_are_price_times_winners_ZV1`, which go through `final_winners_ZV1_partial`).
  Helper lemmas: LP/Proofs/ZeroAllocV1C.lean (`zw_*`).
-/
namespace LP.Props.C01zeroV1more
open LP LP.FY LP.Props.C01reachV1 LP.Props.C01zeroV1

/-! ### 3. the proceeds -/

/-- after completion the recorded proceeds and the price are frozen until the owner withdraws
    (same statement as `proceeds_until_withdrawal_v1`) -/
theorem proceeds_until_withdrawal_ZV1 (hash : List Nat → List Nat) (v : Variant) (hv : v1_Fam v)
    (s : State) (r : Nat) (h : v1_ReachZ hash v s r) (hd : AllDone s) (e : Env) (c : Call)
    (s' : State) (o : Out) (hr : r ≤ e.round) (hs : step hash s e c = .ok (s', o)) :
    s'.price = s.price ∧ AllDone s' ∧
    (s'.claimablePayment = s.claimablePayment ∨ (c = .claimPayment ∧ s'.claimablePayment = 0)) := by
  obtain ⟨a0, h⟩ := v1_ReachZ_iff.mp h
  exact zw_proceeds_frame (zv_sim hv h) hr hd hs

/-- `LaterZ hash s r s2 r2`: `s2` (at round `r2`) is reached from `s` (at round `r`) by ANY accepted
    calls (no restriction on allocation entries) none of which is the owner's withdrawal
    `claimPayment`, and by the passing of time -/
inductive LaterZ (hash : List Nat → List Nat) (s : State) (r : Nat) : State → Nat → Prop
  | refl : LaterZ hash s r s r
  | call (s1 : State) (r1 : Nat) (e : Env) (c : Call) (s2 : State) (o : Out) :
      LaterZ hash s r s1 r1 → r1 ≤ e.round → EnvOK e → c ≠ .claimPayment →
      step hash s1 e c = .ok (s2, o) → LaterZ hash s r s2 e.round
  | wait (s1 : State) (r1 r2 : Nat) : LaterZ hash s r s1 r1 → r1 ≤ r2 → LaterZ hash s r s1 r2

/-- **until the owner has withdrawn, `claimablePayment = price × (winners at completion)`**, zero-size
    entries allowed: `s'` is the state in which the distribution completed (`ret = [0]`), whatever
    participants (ghosts included) claim afterwards -/
theorem proceeds_are_price_times_winners_ZV1 (hash : List Nat → List Nat) (v : Variant)
    (hv : v1_Fam v) (a0 : InitArgs) (s : State) (r : Nat) (h : v1_ReachZA hash v a0 s r) (e : Env)
    (s' : State) (o : Out) (hr : r ≤ e.round) (hok : EnvOK e)
    (hs : step hash s e .distribute = .ok (s', o)) (hret : o.ret = [0])
    (s2 : State) (r2 : Nat) (hl : LaterZ hash s' e.round s2 r2) :
    v1_ReachZA hash v a0 s2 r2 ∧ AllDone s2 ∧
    s2.claimablePayment = s2.price * countTrue s'.status s'.lastTicketId ∧
    countTrue s'.status s'.lastTicketId = min a0.nrWinning s'.lastTicketId := by
  obtain ⟨hd, h1, h2, h3, _⟩ := final_winners_ZV1_partial hash v hv a0 s r h e s' o hr hok hs hret
  have hreach' : v1_ReachZA hash v a0 s' e.round := .call s r e .distribute s' o h hr hok hs
  have key : v1_ReachZA hash v a0 s2 r2 ∧ AllDone s2 ∧ s2.price = s'.price ∧
      s2.claimablePayment = s'.claimablePayment := by
    induction hl with
    | refl => exact ⟨hreach', hd, rfl, rfl⟩
    | call s1 r1 e1 c s2 o1 _ k1 k2 k4 k5 ih =>
      obtain ⟨i1, i2, i3, i4⟩ := ih
      obtain ⟨j1, j2, j3⟩ := zw_proceeds_frame (zv_sim hv i1) k1 i2 k5
      refine ⟨.call s1 r1 e1 c s2 o1 i1 k1 k2 k5, j2, j1.trans i3, ?_⟩
      rcases j3 with j3 | ⟨j3, _⟩
      · exact j3.trans i4
      · exact absurd j3 k4
    | wait s1 r1 r2 _ k1 ih =>
      obtain ⟨i1, i2, i3, i4⟩ := ih
      exact ⟨.wait s1 r1 r2 i1 k1, i2, i3, i4⟩
  obtain ⟨k1, k2, k3, k4⟩ := key
  exact ⟨k1, k2, by rw [k4, k3, h3, h1], by rw [h1, h2]⟩

/-- an accepted `distribute` call that does not complete is an interruption: the successor is a
    `v1_ReachZ` state with the ledger equation of the selection phase -/
theorem interrupted_distribute_keeps_pre_ZV1 (hash : List Nat → List Nat) (v : Variant)
    (hv : v1_Fam v) (s : State) (r : Nat) (h : v1_ReachZ hash v s r) (e : Env) (s' : State) (o : Out)
    (hr : r ≤ e.round) (hok : EnvOK e)
    (hs : step hash s e .distribute = .ok (s', o)) (hnd : ¬ AllDone s') :
    ∃ L : List Nat, Covers s' L ∧ PayEqPre s' L := by
  have h' : v1_ReachZ hash v s' e.round := .call s r e .distribute s' o h hr hok hs
  obtain ⟨L, h1, h2, _⟩ := C01_solvent_ZV1 hash v hv s' e.round h'
  exact ⟨L, h1, h2 hnd⟩

/-! ### 4. the guarantees -/

/-- until the first `distribute` call is accepted the whitelist is exactly the set of holders of a
    positive guarantee — GHOSTS (zero-size entry with migration guarantee) included
    (same statement as `whitelisted_iff_v1`) -/
theorem whitelisted_iff_ZV1 (hash : List Nat → List Nat) (v : Variant) (hv : v1_Fam v) (s : State)
    (r : Nat) (h : v1_ReachZ hash v s r) (hna : s.flags.additional = false)
    (hop : s.flags.selected = true → s.op = .none) (u : Nat) :
    u ∈ s.whitelist ↔ ∃ st, s.uts u = some st ∧ st.c + st.d > 0 := by
  obtain ⟨a0, h⟩ := v1_ReachZ_iff.mp h
  exact zw_whitelist (zv_sim hv h) hna hop u

/-- **guarantees honoured (v1), zero-size entries allowed**: when the distribution completes, every
    holder of a guarantee record owns at least `min (qualified guarantee) (confirmed)` winning
    tickets (a ghost: `min 1 0 = 0`), and no flag lies outside `1..lastTicketId` -/
theorem guarantee_honoured_ZV1 (hash : List Nat → List Nat) (v : Variant) (hv : v1_Fam v)
    (a0 : InitArgs) (s : State) (r : Nat) (h : v1_ReachZA hash v a0 s r) (e : Env) (s' : State)
    (o : Out) (hr : r ≤ e.round) (hok : EnvOK e)
    (hs : step hash s e .distribute = .ok (s', o)) (hret : o.ret = [0]) :
    (∀ u st, s'.uts u = some st →
      min (calcV1 st (s'.confirmed u) s'.minConfirmed).1 (s'.confirmed u) ≤ winCountOf s' u) ∧
    (∀ t, s'.status t = true → 1 ≤ t ∧ t ≤ s'.lastTicketId) := by
  obtain ⟨_, _, _, _, h5, _, h7⟩ := final_winners_ZV1_partial hash v hv a0 s r h e s' o hr hok hs hret
  exact ⟨h7, h5⟩

/-! ### 5. the launchpad-token side -/

/-- **the deposit** made before the filter has completed is exactly `perTicket × T0` launchpad
    tokens — ghost guarantees move reserve tickets between `nrWinning` and `totalGuaranteed` but
    never change the sum (same statement as `deposit_is_perTicket_times_T0`) -/
theorem deposit_is_perTicket_times_T0_ZV1 (hash : List Nat → List Nat) (v : Variant) (hv : v1_Fam v)
    (a0 : InitArgs) (s : State) (r : Nat) (h : v1_ReachZA hash v a0 s r) (e : Env) (s' : State)
    (o : Out) (hf : s.flags.filtered = false) (hs : step hash s e .deposit = .ok (s', o)) :
    s'.totalDeposited = s.perTicket * a0.nrWinning ∧ s'.deposited = true ∧
    singleFungible e = .ok (.esdt s.lpTok, s.perTicket * a0.nrWinning) :=
  zw_deposit (zv_sim hv h) hf hs

/-- **the owner can withdraw only the surplus** (same statement as `owner_surplus_v1`) -/
theorem owner_surplus_ZV1 (hash : List Nat → List Nat) (v : Variant) (hv : v1_Fam v) (s : State)
    (r : Nat) (h : v1_ReachZ hash v s r) (e : Env) (s' : State) (o : Out)
    (hs : step hash s e .claimPayment = .ok (s', o)) :
    s'.bal (.esdt s'.lpTok) 0 = s'.perTicket * s'.nrWinning ∧ s'.nrWinning = s.nrWinning ∧
    s'.claimablePayment = 0 := by
  obtain ⟨a0, h⟩ := v1_ReachZ_iff.mp h
  obtain ⟨k1, k2, k3, _⟩ := zw_owner_surplus (zv_sim hv h) hs
  exact ⟨k1, k2, k3⟩

/-- **nothing is left at the end**, strong form: once every participant holding a NON-EMPTY range
    has settled (stale empty ranges of zero-size entries may remain for ever: their holders need
    not claim), no winner is outstanding and the owner's withdrawal leaves no launchpad token -/
theorem lp_zero_at_end_ZV1_empty (hash : List Nat → List Nat) (v : Variant) (hv : v1_Fam v)
    (s : State) (r : Nat) (h : v1_ReachZ hash v s r) (hd : AllDone s)
    (hall : ∀ a rg, s.range a = some rg → ¬ rg.first ≤ rg.last)
    (e : Env) (s' : State) (o : Out) (hs : step hash s e .claimPayment = .ok (s', o)) :
    s.nrWinning = 0 ∧ s'.bal (.esdt s'.lpTok) 0 = 0 := by
  obtain ⟨a0, h0⟩ := v1_ReachZ_iff.mp h
  have hz := zw_all_settled (zv_sim hv h0) hd hall
  obtain ⟨k1, k2, _⟩ := owner_surplus_ZV1 hash v hv s r h e s' o hs
  exact ⟨hz, by rw [k1, k2, hz]; simp⟩

/-- **nothing is left at the end** (same statement as `lp_zero_at_end_v1`) -/
theorem lp_zero_at_end_ZV1 (hash : List Nat → List Nat) (v : Variant) (hv : v1_Fam v) (s : State)
    (r : Nat) (h : v1_ReachZ hash v s r) (hd : AllDone s) (hall : ∀ a, s.range a = none)
    (e : Env) (s' : State) (o : Out) (hs : step hash s e .claimPayment = .ok (s', o)) :
    s.nrWinning = 0 ∧ s'.bal (.esdt s'.lpTok) 0 = 0 :=
  lp_zero_at_end_ZV1_empty hash v hv s r h hd
    (fun a rg hr => by rw [hall a] at hr; cases hr) e s' o hs

/-- once every holder of a NON-EMPTY range has settled and the owner has withdrawn, no payment
    token is left -/
theorem all_settled_nothing_left_ZV1_empty (hash : List Nat → List Nat) (v : Variant)
    (hv : v1_Fam v) (s : State) (r : Nat) (h : v1_ReachZ hash v s r) (hd : AllDone s)
    (hall : ∀ a rg, s.range a = some rg → ¬ rg.first ≤ rg.last) (hcp : s.claimablePayment = 0) :
    s.bal s.payTok 0 = 0 := by
  obtain ⟨L, _, hpost, _, _, hrg⟩ := three_counts_ZV1 hash v hv s r h hd
  unfold PayEqPost at hpost
  rw [hpost, hcp, sumOver_zero]
  intro a _
  unfold refundDue
  cases hr : s.range a with
  | none => rfl
  | some rg =>
    have hlen := (hrg a rg hr).1
    have hne := hall a rg hr
    have hc : s.confirmed a = 0 := by rw [← hlen]; unfold rangeLen; omega
    simp [hc]

/-- same statement as `all_settled_nothing_left_v1` -/
theorem all_settled_nothing_left_ZV1 (hash : List Nat → List Nat) (v : Variant) (hv : v1_Fam v)
    (s : State) (r : Nat) (h : v1_ReachZ hash v s r) (hd : AllDone s)
    (hall : ∀ a, s.range a = none) (hcp : s.claimablePayment = 0) : s.bal s.payTok 0 = 0 :=
  all_settled_nothing_left_ZV1_empty hash v hv s r h hd
    (fun a rg hr => by rw [hall a] at hr; cases hr) hcp

/-! ### 6. claims never starve — WITHOUT the deposit hypothesis -/

/-- **nothing is confirmed before the deposit** (every `v1_ReachZ` state; direct induction over the
    relation, no simulation: `confirm` requires the deposit — `LP.Props.C07.confirm_accepted_iff` /
    `confirm_effect` — and no other endpoint increases a `confirmed` entry) -/
theorem nothing_confirmed_before_deposit_ZV1 (hash : List Nat → List Nat) (v : Variant) (s : State)
    (r : Nat) (h : v1_ReachZ hash v s r) (hnd : s.deposited = false) (a : Nat) :
    s.confirmed a = 0 :=
  zw_reachZ_noConf h hnd a

/-- the launchpad tokens of ANY address are covered after completion — deposit made or not (without
    a deposit nobody has confirmed, hence nobody has won) -/
theorem winner_covered_ZV1_full (hash : List Nat → List Nat) (v : Variant) (hv : v1_Fam v)
    (s : State) (r : Nat) (h : v1_ReachZ hash v s r) (hd : AllDone s) (a : Nat) :
    s.perTicket * winCountOf s a ≤ s.bal (.esdt s.lpTok) 0 ∧ winCountOf s a ≤ s.nrWinning := by
  obtain ⟨L, hcov, _, hwin, hle, _⟩ := three_counts_ZV1 hash v hv s r h hd
  have hwn : winCountOf s a ≤ s.nrWinning := by
    by_cases hc : s.confirmed a = 0
    · have := hle a; omega
    · rw [← hwin]
      exact rb_le_sumOver (winCountOf s) L a (hcov.supp a hc)
  refine ⟨?_, hwn⟩
  cases hdep : s.deposited with
  | true => exact (winner_covered_ZV1 hash v hv s r h hd hdep a).1
  | false =>
    have hc := nothing_confirmed_before_deposit_ZV1 hash v s r h hdep a
    have hw : winCountOf s a = 0 := by have := hle a; omega
    rw [hw]; simp

/-- **claims never starve** (FULL statement, no deposit hypothesis): in every `v1_ReachZ` state, in
    the claim stage, a claim (without call value) by any address that holds a range — empty or
    not — and has not claimed yet is ACCEPTED -/
theorem claim_never_starves_ZV1 (hash : List Nat → List Nat) (v : Variant) (hv : v1_Fam v)
    (s : State) (r : Nat) (h : v1_ReachZ hash v s r) (e : Env) (rg : Range)
    (he1 : e.egld = 0) (he2 : e.esdts = []) (hst : s.stage e = .claim)
    (hcl : s.claimed e.caller = false) (hrg : s.range e.caller = some rg) :
    ∃ x, step hash s e .claim = .ok x := by
  obtain ⟨hsel, hadd, _, _⟩ := v1_stage_claim hst
  have hd : AllDone s := ⟨hsel, hadd⟩
  obtain ⟨a0, h0⟩ := v1_ReachZ_iff.mp h
  obtain ⟨hfam, htok, hpct, _⟩ := zw_done (zv_sim hv h0) hd
  obtain ⟨L, _, _, _, hle, _⟩ := three_counts_ZV1 hash v hv s r h hd
  have hcov := claim_refund_covered_ZV1 hash v hv s r h hd e.caller rg hrg
  obtain ⟨hw1, hw2⟩ := winner_covered_ZV1_full hash v hv s r h hd e.caller
  have hwc : LP.winCount s e.caller = winCountOf s e.caller := rfl
  have hne' : ¬ (Token.esdt s.lpTok = s.payTok) := fun hh => htok hh.symm
  have hacc : LP.Props.C09.ClaimAccepts s e rg := by
    refine ⟨he1, he2, hst, hcl, hrg, ?_, ?_, ?_, ?_⟩
    · rw [hwc]; exact hw2
    · rw [hwc]; exact hle e.caller
    · rw [hwc]; omega
    · rw [hwc]
      have : (s.bal.sub s.payTok 0 (s.price * (s.confirmed e.caller - winCountOf s e.caller)))
          (.esdt s.lpTok) 0 = s.bal (.esdt s.lpTok) 0 := by simp [Bal.sub, hne']
      rw [this, Nat.mul_comm]; exact hw1
  obtain ⟨f1, f2, _⟩ := v1_fam_flags hfam
  rcases hfam with hb | hl
  · have hl0 : s.variant.hasLock = false := by rw [hb]; rfl
    refine ⟨({ LP.settledState s e.caller rg with bal := LP.Props.C09.balAfterClaim s e.caller },
      { xfers := LP.Props.C09.refundXfers s e.caller ++ LP.Props.C09.tokenXfers s e.caller,
        events := (if s.confirmed e.caller - LP.winCount s e.caller = 0 then []
                    else [LP.refundEvent s e (s.confirmed e.caller - LP.winCount s e.caller)]) }), ?_⟩
    rw [LP.Props.C09.claim_base_iff hash s e _ _ f1 hl0 f2]
    exact ⟨rg, hacc, rfl, rfl, rfl, rfl, rfl, rfl, rfl⟩
  · have hl1 : s.variant.hasLock = true := by rw [hl]; rfl
    exact (LP.Props.C09.claim_lock_accepted_iff hash s e f1 hl1 hpct).mpr ⟨rg, hacc⟩

/-! ### non-vacuity: the launch with a GHOST guarantee of LP/Props/C01zeroV1.lean (`g1 … g7`) -/

/-- the `distribute` call of `g5` interrupted by a zero budget -/
def g5i : State := stOf (step id g5 { caller := 9, round := 12, budget := some 0 } .distribute) g5
/-- the owner withdraws after the ghost's claim -/
def g8 : State := stOf (step id g7 { caller := 1, round := 16 } .claimPayment) g7

theorem g2_reachZ : v1_ReachZA id .migration exArgs g2 2 :=
  ReachZA.callOk { caller := 1, round := 2, esdts := [⟨.esdt 1, 0, 20⟩] } .deposit g1_reachZ
    (by decide) (Or.inl rfl) rfl

theorem g5_reachZ : v1_ReachZA id .migration exArgs g5 11 :=
  ReachZA.callOk { caller := 9, round := 11 } .select
    (ReachZA.callOk { caller := 9, round := 10 } .filter
      (ReachZA.callOk { caller := 1, round := 6 } (.blacklist [9])
        (ReachZA.callOk { caller := 8, round := 5, egld := 30 } (.confirm 3) g2_reachZ
          (by decide) (Or.inr rfl) rfl)
        (by decide) (Or.inl rfl) rfl)
      (by decide) (Or.inl rfl) rfl)
    (by decide) (Or.inl rfl) rfl

/-- `whitelisted_iff_ZV1` on `g1`: the GHOST 7 (empty range, record `d = 1`) is whitelisted -/
example : 7 ∈ g1.whitelist ↔ ∃ st, g1.uts 7 = some st ∧ st.c + st.d > 0 :=
  whitelisted_iff_ZV1 id .migration (Or.inl rfl) g1 1 (v1_ReachZ_iff.mpr ⟨_, g1_reachZ⟩) rfl
    (fun h => absurd h (by decide)) 7

example : 7 ∈ g1.whitelist ∧ g1.range 7 = some ⟨1, 0⟩ := ⟨by decide, rfl⟩

/-- `deposit_is_perTicket_times_T0_ZV1` on `g1 → g2`: the deposit is `5 × 4 = 20` although the
    ghost moved one reserve ticket -/
example : g2.totalDeposited = g1.perTicket * exArgs.nrWinning ∧ g2.totalDeposited = 20 ∧
    g1.nrWinning = 2 ∧ g1.totalGuaranteed = 2 :=
  ⟨(deposit_is_perTicket_times_T0_ZV1 id .migration (Or.inl rfl) exArgs g1 1 g1_reachZ
    { caller := 1, round := 2, esdts := [⟨.esdt 1, 0, 20⟩] } g2 _ rfl rfl).1, rfl, rfl, rfl⟩

/-- `interrupted_distribute_keeps_pre_ZV1` on `g5 → g5i` -/
example : ∃ L : List Nat, Covers g5i L ∧ PayEqPre g5i L :=
  interrupted_distribute_keeps_pre_ZV1 id .migration (Or.inl rfl) g5 11
    (v1_ReachZ_iff.mpr ⟨_, g5_reachZ⟩) { caller := 9, round := 12, budget := some 0 } g5i _
    (by decide) (Or.inl rfl) rfl (fun h => by cases h.2)

/-- `guarantee_honoured_ZV1` on `g5 → g6`: holder 8 (staking guarantee) and the ghost 7 -/
example : (∀ u st, g6.uts u = some st →
      min (calcV1 st (g6.confirmed u) g6.minConfirmed).1 (g6.confirmed u) ≤ winCountOf g6 u) ∧
    winCountOf g6 8 = 3 ∧ winCountOf g6 7 = 0 :=
  ⟨(guarantee_honoured_ZV1 id .migration (Or.inl rfl) exArgs g5 11 g5_reachZ
    { caller := 9, round := 12 } g6 _ (by decide) (Or.inl rfl) rfl rfl).1, rfl, rfl⟩

/-- `proceeds_until_withdrawal_ZV1` on `g6 → g7` (the ghost's claim) -/
example : g7.price = g6.price ∧ AllDone g7 ∧ g7.claimablePayment = 30 := by
  obtain ⟨h1, h2, h3⟩ := proceeds_until_withdrawal_ZV1 id .migration (Or.inl rfl) g6 12
    (v1_ReachZ_iff.mpr ⟨_, g6_reachZ⟩) ⟨rfl, rfl⟩ { caller := 7, round := 15 } .claim g7 _
    (by decide) rfl
  exact ⟨h1, h2, rfl⟩

/-- `proceeds_are_price_times_winners_ZV1`: distribution completed in `g6`, the ghost claims (`g7`):
    the proceeds are still `price × 3` -/
example : g7.claimablePayment = g7.price * countTrue g6.status g6.lastTicketId ∧
    countTrue g6.status g6.lastTicketId = min exArgs.nrWinning g6.lastTicketId :=
  (proceeds_are_price_times_winners_ZV1 id .migration (Or.inl rfl) exArgs g5 11 g5_reachZ
    { caller := 9, round := 12 } g6 _ (by decide) (Or.inl rfl) rfl rfl g7 15
    (.call g6 12 { caller := 7, round := 15 } .claim g7 _ .refl (by decide) (Or.inl rfl)
      (by intro h; cases h) rfl)).2.2

/-- `owner_surplus_ZV1` on `g7 → g8` -/
example : g8.bal (.esdt g8.lpTok) 0 = g8.perTicket * g8.nrWinning ∧ g8.nrWinning = g7.nrWinning ∧
    g8.claimablePayment = 0 :=
  owner_surplus_ZV1 id .migration (Or.inl rfl) g7 15 (v1_ReachZ_iff.mpr ⟨_, g7_reachZ⟩)
    { caller := 1, round := 16 } g8 _ rfl

example : g8.bal (.esdt 1) 0 = 15 ∧ g8.nrWinning = 3 ∧ g7.bal (.esdt 1) 0 = 20 :=
  ⟨rfl, rfl, rfl⟩

/-- `claim_never_starves_ZV1` (no deposit hypothesis) on `g6`: the ghost's and holder 8's claims -/
example : (∃ x, step id g6 { caller := 7, round := 15 } .claim = .ok x) ∧
    (∃ x, step id g6 { caller := 8, round := 15 } .claim = .ok x) :=
  ⟨claim_never_starves_ZV1 id .migration (Or.inl rfl) g6 12 (v1_ReachZ_iff.mpr ⟨_, g6_reachZ⟩)
    { caller := 7, round := 15 } ⟨1, 0⟩ rfl rfl rfl rfl rfl,
   claim_never_starves_ZV1 id .migration (Or.inl rfl) g6 12 (v1_ReachZ_iff.mpr ⟨_, g6_reachZ⟩)
    { caller := 8, round := 15 } ⟨1, 3⟩ rfl rfl rfl rfl rfl⟩

/-- `nothing_confirmed_before_deposit_ZV1` on `g1` (allocation made, ghost whitelisted, no deposit) -/
example : g1.deposited = false ∧ ∀ a, g1.confirmed a = 0 :=
  ⟨rfl, nothing_confirmed_before_deposit_ZV1 id .migration g1 1 (v1_ReachZ_iff.mpr ⟨_, g1_reachZ⟩) rfl⟩

/-! ### non-vacuity of the end-of-launch theorems: a launch whose ONLY allocation entry is a ghost

  `addTicketsV1 [(7, 0, 0, true)]`: 7 gets the empty range `[1, 0]`, enters the whitelist and moves
  one reserve ticket; deposit `5 × 4 = 20`; filter / select / distribute over ZERO tickets: the
  whole reserve is dropped (`nrWinning = 0`).  The ghost never has to claim: its stale empty range
  stays, `lp_zero_at_end_ZV1_empty` applies and the owner's withdrawal returns all 20 tokens. -/

def m0 : State := stOf (step id ex0 { caller := 1, round := 1 } (.addTicketsV1 [(7, 0, 0, true)])) ex0
def m1 : State := stOf (step id m0 { caller := 1, round := 2, esdts := [⟨.esdt 1, 0, 20⟩] } .deposit) m0
def m2 : State := stOf (step id m1 { caller := 9, round := 10 } .filter) m1
def m3 : State := stOf (step id m2 { caller := 9, round := 11 } .select) m2
def m4 : State := stOf (step id m3 { caller := 9, round := 12 } .distribute) m3
/-- the owner withdraws while the ghost's empty range is still there -/
def m5 : State := stOf (step id m4 { caller := 1, round := 16 } .claimPayment) m4
/-- alternatively the ghost claims first (nothing is paid) -/
def m4c : State := stOf (step id m4 { caller := 7, round := 15 } .claim) m4
def m5c : State := stOf (step id m4c { caller := 1, round := 16 } .claimPayment) m4c

theorem m4_reachZ : v1_ReachZA id .migration exArgs m4 12 :=
  ReachZA.callOk { caller := 9, round := 12 } .distribute
    (ReachZA.callOk { caller := 9, round := 11 } .select
      (ReachZA.callOk { caller := 9, round := 10 } .filter
        (ReachZA.callOk { caller := 1, round := 2, esdts := [⟨.esdt 1, 0, 20⟩] } .deposit
          (ReachZA.callOk { caller := 1, round := 1 } (.addTicketsV1 [(7, 0, 0, true)]) ex0_reach.toZ
            (by decide) (Or.inl rfl) rfl)
          (by decide) (Or.inl rfl) rfl)
        (by decide) (Or.inl rfl) rfl)
      (by decide) (Or.inl rfl) rfl)
    (by decide) (Or.inl rfl) rfl

theorem m4c_reachZ : v1_ReachZA id .migration exArgs m4c 15 :=
  ReachZA.callOk { caller := 7, round := 15 } .claim m4_reachZ (by decide) (Or.inl rfl) rfl

theorem m4_range : m4.range = upd (fun _ => none) 7 (some ⟨1, 0⟩) := rfl

theorem m4c_range : m4c.range = upd m4.range 7 none := rfl

/-- every range of `m4` is empty (the ghost's) or absent -/
theorem m4_hall : ∀ a rg, m4.range a = some rg → ¬ rg.first ≤ rg.last := by
  intro a rg h
  rw [m4_range, upd_apply] at h
  split at h
  · cases h; decide
  · cases h

/-- every range of `m4c` is absent -/
theorem m4c_hall : ∀ a, m4c.range a = none := by
  intro a
  rw [m4c_range, m4_range, upd_apply]
  split
  · rfl
  · rw [upd_apply]; split
    · contradiction
    · rfl

example : m0.whitelist = [7] ∧ m0.nrWinning = 3 ∧ m0.totalGuaranteed = 1 ∧ AllDone m4 ∧
    m4.range 7 = some ⟨1, 0⟩ ∧ m4.claimed 7 = false ∧ m4.bal (.esdt 1) 0 = 20 ∧
    ¬ (∀ a, m4.range a = none) :=
  ⟨rfl, rfl, rfl, ⟨rfl, rfl⟩, rfl, rfl, rfl, fun h => absurd (h 7) (by decide)⟩

/-- `lp_zero_at_end_ZV1_empty` with a stale empty range left (the original hypothesis
    `∀ a, range a = none` FAILS in `m4`) -/
example : m4.nrWinning = 0 ∧ m5.bal (.esdt m5.lpTok) 0 = 0 :=
  lp_zero_at_end_ZV1_empty id .migration (Or.inl rfl) m4 12 (v1_ReachZ_iff.mpr ⟨_, m4_reachZ⟩)
    ⟨rfl, rfl⟩ m4_hall { caller := 1, round := 16 } m5 _ rfl

/-- `all_settled_nothing_left_ZV1_empty` after the withdrawal -/
example : m5.bal m5.payTok 0 = 0 :=
  all_settled_nothing_left_ZV1_empty id .migration (Or.inl rfl) m5 16
    (v1_ReachZ_iff.mpr ⟨_, ReachZA.callOk { caller := 1, round := 16 } .claimPayment m4_reachZ
      (by decide) (Or.inl rfl) rfl⟩) ⟨rfl, rfl⟩
    (by
      have : m5.range = m4.range := rfl
      rw [this]; exact m4_hall) rfl

/-- `lp_zero_at_end_ZV1` / `all_settled_nothing_left_ZV1` (original hypotheses) after the ghost's
    claim -/
example : m4c.nrWinning = 0 ∧ m5c.bal (.esdt m5c.lpTok) 0 = 0 :=
  lp_zero_at_end_ZV1 id .migration (Or.inl rfl) m4c 15 (v1_ReachZ_iff.mpr ⟨_, m4c_reachZ⟩)
    ⟨rfl, rfl⟩ m4c_hall { caller := 1, round := 16 } m5c _ rfl

example : m5c.bal m5c.payTok 0 = 0 :=
  all_settled_nothing_left_ZV1 id .migration (Or.inl rfl) m5c 16
    (v1_ReachZ_iff.mpr ⟨_, ReachZA.callOk { caller := 1, round := 16 } .claimPayment m4c_reachZ
      (by decide) (Or.inl rfl) rfl⟩) ⟨rfl, rfl⟩
    (by
      have : m5c.range = m4c.range := rfl
      rw [this]; exact m4c_hall) rfl

end LP.Props.C01zeroV1more

#print axioms LP.Props.C01zeroV1more.proceeds_until_withdrawal_ZV1
#print axioms LP.Props.C01zeroV1more.proceeds_are_price_times_winners_ZV1
#print axioms LP.Props.C01zeroV1more.interrupted_distribute_keeps_pre_ZV1
#print axioms LP.Props.C01zeroV1more.whitelisted_iff_ZV1
#print axioms LP.Props.C01zeroV1more.guarantee_honoured_ZV1
#print axioms LP.Props.C01zeroV1more.deposit_is_perTicket_times_T0_ZV1
#print axioms LP.Props.C01zeroV1more.owner_surplus_ZV1
#print axioms LP.Props.C01zeroV1more.lp_zero_at_end_ZV1_empty
#print axioms LP.Props.C01zeroV1more.lp_zero_at_end_ZV1
#print axioms LP.Props.C01zeroV1more.all_settled_nothing_left_ZV1_empty
#print axioms LP.Props.C01zeroV1more.all_settled_nothing_left_ZV1
#print axioms LP.Props.C01zeroV1more.nothing_confirmed_before_deposit_ZV1
#print axioms LP.Props.C01zeroV1more.winner_covered_ZV1_full
#print axioms LP.Props.C01zeroV1more.claim_never_starves_ZV1
#print axioms LP.Props.C01zeroV1more.g2_reachZ
#print axioms LP.Props.C01zeroV1more.g5_reachZ
#print axioms LP.Props.C01zeroV1more.m4_reachZ
#print axioms LP.Props.C01zeroV1more.m4c_reachZ
#print axioms LP.Props.C01zeroV1more.m4_hall
#print axioms LP.Props.C01zeroV1more.m4c_hall
