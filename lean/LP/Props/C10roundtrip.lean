import LP.Guaranteed
/-
  C10 — "where un-blacklisting is offered it restores": the v2 round trip at the level of the two
  bookkeeping functions that `refundUserTickets` / `addUsersToBlacklist` and
  `removeGuaranteedUsersFromBlacklist` call (`clear_users_with_guaranteed_ticket_after_blacklist`,
  `remove_guaranteed_tickets_from_blacklist`).

  `clear_then_restore_v2`: whatever the state (NO reachability assumption), if parking the guarantee
  record of one holder with an allocation record is accepted, then restoring it afterwards is ALWAYS
  accepted — it can never be refused for lack of base winners, because the parked tickets were just
  moved there — and it gives back exactly the record, the base-winner count and the reserve of before.
  The blacklist flags may change in between (that is what `remove_users_from_blacklist` does).
-/
namespace LP.Props.C10roundtrip
open LP

/-- **C10 round trip, v2** (one holder, any state) -/
theorem clear_then_restore_v2 (s s1 : State) (u : Nat) (hr : (s.range u).isSome = true)
    (h : clearGuaranteedV2 s [u] = .ok s1) (bl : Nat → Bool) :
    ∃ s2, restoreGuaranteedV2 { s1 with blacklist := bl } [u] = .ok s2 ∧
      s2.uts u = some ((s.uts u).getD {}) ∧ s2.blUts u = none ∧
      s2.nrWinning = s.nrWinning ∧ s2.totalGuaranteed = s.totalGuaranteed ∧
      (∀ a, a ≠ u → s2.uts a = s.uts a ∧ s2.blUts a = s.blUts a) ∧
      s2.range = s.range ∧ s2.confirmed = s.confirmed ∧ s2.status = s.status := by
  have hr' : (s.range u).isNone = false := by
    cases hx : s.range u <;> simp_all
  by_cases hle : sumG ((s.uts u).getD {}).infos ≤ s.totalGuaranteed
  · simp only [clearGuaranteedV2, clearV2Many, csub, hle, ↓reduceIte, bind, Except.bind, pure,
      Except.pure] at h
    injection h with h
    subst h
    have hng : ¬ (sumG ((s.uts u).getD {}).infos > s.nrWinning + sumG ((s.uts u).getD {}).infos) := by omega
    by_cases hpos : sumG ((s.uts u).getD {}).infos > 0
    · simp only [restoreGuaranteedV2, restoreV2Many, hr', upd_same, Option.getD_some, hpos, hng,
        Bool.false_eq_true, ↓reduceIte, bind, Except.bind, pure, Except.pure]
      refine ⟨_, rfl, by simp, by simp, by simp, by simp; omega, ?_, rfl, rfl, rfl⟩
      intro a ha
      simp [upd, ha]
    · have hz : sumG ((s.uts u).getD {}).infos = 0 := by omega
      simp only [restoreGuaranteedV2, restoreV2Many, hr', upd_same, Option.getD_some, hz,
        Nat.lt_irrefl, gt_iff_lt, Bool.false_eq_true, ↓reduceIte, bind, Except.bind, pure, Except.pure]
      refine ⟨_, rfl, by simp, by simp, by simp, by simp, ?_, rfl, rfl, rfl⟩
      intro a ha
      simp [upd, ha]
  · simp only [clearGuaranteedV2, clearV2Many, csub, hle, ↓reduceIte, bind, Except.bind] at h
    cases h

/-- non-vacuity: a v2 state in which holder 8 (allocation 4..6, guarantee "1 ticket if 2 confirmed",
    one reserved ticket, two base winners) is parked: the hypotheses hold, and the restore is accepted -/
def rtS : State :=
  { variant := .guarV2, owner := 1, lpTok := 1, perTicket := 1, payTok := .egld, price := 10,
    nrWinning := 2, totalGuaranteed := 1, cfg := ⟨5, 10, 15⟩, flags := {}, support := 2,
    range := fun a => if a = 7 then some ⟨1, 3⟩ else if a = 8 then some ⟨4, 6⟩ else none,
    whitelist := [8], uts := fun a => if a = 8 then some { a := 3, infos := [(1, 2)] } else none,
    bal := fun _ _ => 0 }

example : (rtS.range 8).isSome = true ∧ ∃ s1, clearGuaranteedV2 rtS [8] = .ok s1 ∧
    s1.nrWinning = 3 ∧ s1.totalGuaranteed = 0 ∧ s1.uts 8 = none ∧
    ∃ s2, restoreGuaranteedV2 { s1 with blacklist := fun _ => false } [8] = .ok s2 ∧
      s2.nrWinning = 2 ∧ s2.totalGuaranteed = 1 ∧ s2.uts 8 = some { a := 3, infos := [(1, 2)] } :=
  ⟨rfl, _, rfl, rfl, rfl, rfl, _, rfl, rfl, rfl, rfl⟩

end LP.Props.C10roundtrip

#print axioms LP.Props.C10roundtrip.clear_then_restore_v2
