import LP.Proofs.ReachBEAll
/-
  C10 (end-to-end form) — "Blacklisting … ensures they hold no ticket in the draw and can claim
  nothing; un-blacklisting … without altering anyone else's tickets, confirmations or
  entitlements", over reachable states and whole histories.

  COVERAGE.  `Covered hash s r` (= `be_Covered`, LP/Proofs/ReachBEAll.lean): `s` is a reachable
  state, latest transaction at a round `≤ r`, of one of the EIGHT launchpads —
      base, locked            (`Reach hash v`, `Plain v`;        invariant `WF`)
      guarV2                  (`Reach hash .guarV2`;             invariant `WF2`  + `be_NC`)
      migration, lockedGuar   (`v1_Reach hash v`, `v1_Fam v`;    invariant `v1_WF`)
      guarV1                  (`g1_Reach hash`;                  invariant `g1_WF` + `be_NC`)
      nft                     (`Reach hash .nft`;                invariant `nf_WF`)
      nftGuar                 (`ng_Reach hash`;                  invariant `ng_WF`).
  Reachable = from ANY deployment, by accepted
  transactions with non-decreasing rounds (any budgets: filter / selection / distribution may be
  interrupted anywhere), rounds may pass without a transaction.  `HistOK e c` are the side
  conditions the developments put on a transaction: it carries EGLD or ESDT but not both, and
  every entry of an `addTickets` / `addTicketsV1` call allocates at least one ticket.
  `Later hash s r s' r'` (= `be_Later HistOK`): `s'` is reached from `s` by such transactions.

  For the two vesting variants (guarV1, guarV2), where `claim` is also the endpoint that releases
  vested tokens to an already settled participant, one more inductive fact was added on top of the
  existing invariants: `be_NC` — a blacklisted participant has never settled
  (LP/Proofs/ReachBEV2.lean, ReachBEV1.lean; preserved by every accepted call: `be_NC_step`).
  The ticket-level facts (`be_Tix`: after the filter every allocation record belongs to somebody
  with ≥ 1 confirmed ticket; no flag before the filter completes; …) are READ OFF the existing
  phase invariants (LP/Proofs/ReachBECore.lean), no new invariant was needed there.

  0  `blacklisted_end_to_end`  the whole property from `init` / `run` / `step` only (8 variants)
  1  `blacklisted_holds_no_ticket`, `blacklisted_during_interrupted_filter`,
     `no_claim_before_filter_completes`                                    (8 variants)
  2  `blacklist_frozen_from_selection` (`Later` form, ANY state with a valid timeline, any variant),
     `blacklist_frozen_from_selection_run` (`run` form, from any deployment of ANY of the 8 variants)
  2' `blacklist_permanent_without_unblacklist` (any state of base, locked, nft, lockedGuar, nftGuar)
  3  `blacklisted_claim_rejected`, `blacklisted_claims_nothing`,
     `blacklisted_claims_nothing_run`                                      (8 variants)
  3' `blacklisted_claims_nothing_ever` (base, locked, nft, lockedGuar, nftGuar: no `sel ≤ r` needed)
  4  `blacklisted_never_wins` (8 variants, every phase including the guaranteed-ticket
     distribution), `blacklisted_not_in_nft_lists` (nft), `blacklisted_not_in_nft_lists_nftGuar`
  5  `unblacklist_touches_nobody_else` (history level: the state stays covered)
     (guarV2, guarV1, migration — the variants that expose the endpoint)
-/
namespace LP.Props.C10reach
open LP LP.Events LP.Props.C17

/-- the reachable states of the eight launchpads -/
abbrev Covered := be_Covered
/-- side conditions on a transaction of a history -/
abbrev HistOK := be_HistOK
/-- later states of a history of transactions satisfying `HistOK` -/
abbrev Later := be_Later HistOK

/-! ## 1. a blacklisted participant holds no ticket in the draw -/

/-- **C10 end-to-end, 1.** In every reachable state a blacklisted participant `a` has nothing
    confirmed, no winning ticket and an empty winner view; once the filter has completed they have
    no allocation record at all (`range a = none`: no ticket id belongs to them). -/
theorem blacklisted_holds_no_ticket (hash : List Nat → List Nat) (s : State) (r : Nat)
    (h : Covered hash s r) (a : Nat) (hb : s.blacklist a = true) :
    s.confirmed a = 0 ∧ winCountOf s a = 0 ∧ viewWinningIds s a = [] ∧
    (s.flags.filtered = true → s.range a = none) :=
  (be_family_all hash).holds_no_ticket h hb

/-- **1, interrupted filter.** While a filter operation is saved (`op = .filter f rm`: the loop
    has processed the ticket ids below `f`) the filter and selection flags are unset, the record
    of a blacklisted participant — if still present — starts at an id the loop has not reached
    (`f ≤ first`, so the loop will still delete it), and every `claim`, by anybody, is rejected. -/
theorem blacklisted_during_interrupted_filter (hash : List Nat → List Nat) (s : State) (r : Nat)
    (h : Covered hash s r) (f rm : Nat) (hop : s.op = .filter f rm) :
    s.flags.filtered = false ∧ s.flags.selected = false ∧
    (∀ a rg, s.blacklist a = true → s.range a = some rg → f ≤ rg.first) ∧
    (∀ e, ∃ err, step hash s e .claim = .error err) :=
  (be_family_all hash).mid_filter h hop

/-- **1, stage.** Before the filter has completed nobody can claim. -/
theorem no_claim_before_filter_completes (hash : List Nat → List Nat) (s : State) (r : Nat)
    (h : Covered hash s r) (hf : s.flags.filtered = false) (e : Env) :
    ∃ err, step hash s e .claim = .error err :=
  ((be_family_all hash).good h).no_claim_before_filter hash e hf

/-! ## 2. the blacklist is frozen once winner selection has started -/

/-- **C10 end-to-end, 2.** ANY variant, any state with a valid timeline (`conf < sel ≤ claim`,
    which holds in every state reachable from a deployment: `be_validPeriods_run`,
    `be_validPeriods_reach`): once the selection start round has been reached, in every later state
    of any history (accepted transactions with non-decreasing rounds; `P` arbitrary) the blacklist
    and the selection start round are unchanged. -/
theorem blacklist_frozen_from_selection (P : Env → Call → Prop) (hash : List Nat → List Nat)
    (s : State) (r : Nat) (hv : validPeriods s.cfg = true) (hsel : s.cfg.sel ≤ r)
    (s' : State) (r' : Nat) (hl : be_Later P hash s r s' r') :
    s'.blacklist = s.blacklist ∧ s'.cfg.sel = s.cfg.sel ∧ s.cfg.sel ≤ r' := by
  have := be_frozen_later hv hsel hl
  exact ⟨this.bl, this.sel, this.reached⟩

/-- **2, `run` form, all eight variants.** From any deployment, after any history `h1`: if every
    transaction of the continuation `h2` (accepted or not) happens at a round `≥ sel`, the blacklist
    after `h2` is the blacklist after `h1`. -/
theorem blacklist_frozen_from_selection_run (hash : List Nat → List Nat) (v : Variant) (a : InitArgs)
    (e0 : Env) (s0 : State) (hi : init v a e0 = .ok s0) (h1 h2 : Hist)
    (hr : ∀ p ∈ h2, (run hash s0 h1).cfg.sel ≤ p.1.round) :
    (run hash s0 (h1 ++ h2)).blacklist = (run hash s0 h1).blacklist ∧
    (run hash s0 (h1 ++ h2)).cfg.sel = (run hash s0 h1).cfg.sel := by
  rw [run_append]
  have hv := be_validPeriods_run hash s0 h1 (be_validPeriods_init hi)
  have := be_frozen_run hash h2 (run hash s0 h1) (run hash s0 h1) (run hash s0 h1).cfg.sel
    ⟨hv, rfl, Nat.le_refl _, rfl⟩ hr
  exact ⟨this.1, this.2.1⟩

/-! ## 3. a blacklisted participant can claim nothing -/

/-- **3, one state.** In every reachable state every `claim` of a blacklisted caller is rejected
    (so it moves no token and hands out no SFT). -/
theorem blacklisted_claim_rejected (hash : List Nat → List Nat) (s : State) (r : Nat)
    (h : Covered hash s r) (e : Env) (hb : s.blacklist e.caller = true) :
    ∃ err, step hash s e .claim = .error err :=
  ((be_family_all hash).good h).claim_rejected hash e hb

/-- **C10 end-to-end, 3.** From a reachable state in which `a` is blacklisted and winner selection
    has started: in EVERY later state of ANY history, every `claim` by `a` is rejected. -/
theorem blacklisted_claims_nothing (hash : List Nat → List Nat) (s : State) (r : Nat)
    (h : Covered hash s r) (a : Nat) (hb : s.blacklist a = true) (hsel : s.cfg.sel ≤ r)
    (s' : State) (r' : Nat) (hl : Later hash s r s' r') (e : Env) (he : e.caller = a) :
    ∃ err, step hash s' e .claim = .error err :=
  (be_family_all hash).claims_nothing h hb hsel hl e he

/-- **3, `run` form.** … along any history `p` with non-decreasing rounds (rejected transactions
    allowed), the claim of `a` after `p` is rejected. -/
theorem blacklisted_claims_nothing_run (hash : List Nat → List Nat) (s : State) (r : Nat)
    (h : Covered hash s r) (a : Nat) (hb : s.blacklist a = true) (hsel : s.cfg.sel ≤ r)
    (p : Hist) (hr : RoundsFrom r p) (hp : ∀ x ∈ p, HistOK x.1 x.2) (e : Env) (he : e.caller = a) :
    ∃ err, step hash (run hash s p) e .claim = .error err :=
  (be_family_all hash).claims_nothing_run h hb hsel p hr hp e he

/-- **2', variants without an un-blacklist endpoint** (base, locked, nft, lockedGuar, nftGuar):
    the flag is permanent — in every later state of any history (ANY state, no reachability
    needed) a blacklisted participant is still blacklisted. -/
theorem blacklist_permanent_without_unblacklist (P : Env → Call → Prop) (hash : List Nat → List Nat)
    (s : State) (r : Nat) (hv : s.variant.hasUnblacklist = false) (s' : State) (r' : Nat)
    (hl : be_Later P hash s r s' r') (a : Nat) (hb : s.blacklist a = true) :
    s'.blacklist a = true :=
  (be_blacklist_permanent hv hl hb).2

/-- **3', variants without an un-blacklist endpoint** (base, locked, nft, lockedGuar, nftGuar): from the
    moment `a` is blacklisted — whatever the stage — every `claim` by `a` in every later state of
    any history is rejected. -/
theorem blacklisted_claims_nothing_ever (hash : List Nat → List Nat) (s : State) (r : Nat)
    (h : Covered hash s r) (hv : s.variant.hasUnblacklist = false) (a : Nat)
    (hb : s.blacklist a = true) (s' : State) (r' : Nat) (hl : Later hash s r s' r') (e : Env)
    (he : e.caller = a) : ∃ err, step hash s' e .claim = .error err :=
  (be_family_all hash).claims_nothing_ever h hv hb hl e he

/-! ## 4. a blacklisted participant never wins -/

/-- **C10 end-to-end, 4.** In every reachable state (every phase: base lottery, interrupted or
    completed guaranteed-ticket distribution / top-up, NFT draw, claims) no ticket flagged winning
    lies in a range owned by a blacklisted participant. -/
theorem blacklisted_never_wins (hash : List Nat → List Nat) (s : State) (r : Nat)
    (h : Covered hash s r) (a : Nat) (hb : s.blacklist a = true) (rg : Range)
    (hr : s.range a = some rg) (id : Nat) (h1 : rg.first ≤ id) (h2 : id ≤ rg.last) :
    s.status id = false :=
  (be_family_all hash).never_wins h hb hr id h1 h2

/-- **4, NFT variant.** A blacklisted participant is neither waiting for the NFT draw nor drawn. -/
theorem blacklisted_not_in_nft_lists (hash : List Nat → List Nat) (s : State) (r : Nat)
    (h : Reach hash .nft s r) (a : Nat) (hb : s.blacklist a = true) :
    a ∉ s.payers ∧ a ∉ s.nftWinners :=
  be_nft_not_listed h hb

/-- **4, nftGuar.** The same for the launchpad with guaranteed tickets and NFT draw. -/
theorem blacklisted_not_in_nft_lists_nftGuar (hash : List Nat → List Nat) (s : State) (r : Nat)
    (h : ng_Reach hash s r) (a : Nat) (hb : s.blacklist a = true) :
    a ∉ s.payers ∧ a ∉ s.nftWinners :=
  be_ng_not_listed h hb

/-! ## 5. un-blacklisting touches nobody else -/

/-- **C10 end-to-end, 5.** An accepted un-blacklisting in a reachable state leads to a reachable
    (covered) state, moves no token, changes nobody's confirmations, allocation records or winning
    flags; outside the list the blacklist flags and guaranteed-ticket records are unchanged; the
    listed participants were blacklisted and come back with nothing confirmed. -/
theorem unblacklist_touches_nobody_else (hash : List Nat → List Nat) (s : State) (r : Nat)
    (h : Covered hash s r) (e : Env) (l : List Nat) (s' : State) (o : Out) (hr : r ≤ e.round)
    (hok : EnvOK e) (hst : step hash s e (.unblacklist l) = .ok (s', o)) :
    Covered hash s' e.round ∧ o.xfers = [] ∧
    (∀ a, s'.confirmed a = s.confirmed a ∧ s'.range a = s.range a ∧ s'.status a = s.status a) ∧
    (∀ a, a ∉ l → s'.blacklist a = s.blacklist a ∧ s'.uts a = s.uts a ∧ s'.blUts a = s.blUts a) ∧
    (∀ u ∈ l, s.blacklist u = true ∧ s'.blacklist u = false ∧ s'.confirmed u = 0) :=
  (be_family_all hash).unblacklist_others h hr ⟨hok, trivial, trivial⟩ hst

/-! ## 0. the whole property in terms of `init`, `run`, `step` only (stated last: it uses 2) -/

/-- **C10 end-to-end, from deployment.**  Deploy any of the eight launchpads, run any
    history `h1` and then any history `h2` (rounds non-decreasing over `h1 ++ h2`, every transaction
    satisfying `HistOK`; rejected transactions are allowed and leave no trace).  If `a` is
    blacklisted after `h1` and every transaction of `h2` happens at or after the selection start
    round, then after `h2`: `a` is still blacklisted, has nothing confirmed, no winning ticket, an
    empty winner view, no ticket of a range of `a` is flagged, once the filter has completed `a`
    has no allocation record, and every `claim` by `a` (at any round, with any payment) is
    rejected. -/
theorem blacklisted_end_to_end (hash : List Nat → List Nat) (v : Variant)
    (args : InitArgs) (e0 : Env) (s0 : State) (hi : init v args e0 = .ok s0) (h1 h2 : Hist)
    (hr : RoundsFrom e0.round (h1 ++ h2)) (hp : ∀ x ∈ h1 ++ h2, HistOK x.1 x.2) (a : Nat)
    (hb : (run hash s0 h1).blacklist a = true)
    (hsel : ∀ x ∈ h2, (run hash s0 h1).cfg.sel ≤ x.1.round) :
    let s := run hash s0 (h1 ++ h2)
    s.blacklist a = true ∧ s.confirmed a = 0 ∧ winCountOf s a = 0 ∧ viewWinningIds s a = [] ∧
    (∀ rg id, s.range a = some rg → s.status id = false) ∧
    (s.flags.filtered = true → s.range a = none) ∧
    (∀ e, e.caller = a → ∃ err, step hash s e .claim = .error err) := by
  intro s
  obtain ⟨r, hc, _⟩ := be_covered_run (be_covered_init (hash := hash) hi) (h1 ++ h2) hr hp
  have hbl := (blacklist_frozen_from_selection_run hash v args e0 s0 hi h1 h2 hsel).1
  have hb' : s.blacklist a = true := by show (run hash s0 (h1 ++ h2)).blacklist a = true; rw [hbl]; exact hb
  have hg := (be_family_all hash).good hc
  exact ⟨hb', hg.conf_zero hb', hg.winCount_zero hb', hg.view_nil hb',
    fun rg id hrg => hg.never_wins hb' hrg id, fun hf => hg.no_range hf hb',
    fun e he => hg.claim_rejected hash e (by rw [he]; exact hb')⟩

/-! ## non-vacuity: a participant is blacklisted after confirming, refunded, the lottery runs,
    their claim is rejected -/

def be_args : InitArgs :=
  { lpTok := 1, perTicket := 5, payTok := .egld, price := 10, nrWinning := 1, conf := 5, sel := 10, claim := 15 }

def be_stOf (x : Res (State × Out)) (d : State) : State :=
  match x with
  | .ok (s, _) => s
  | .error _ => d

def be_isOk {α : Type} (x : Res α) : Bool :=
  match x with
  | .ok _ => true
  | .error _ => false

theorem be_callOk {hash : List Nat → List Nat} {v : Variant} {s : State} {r : Nat} (e : Env) (c : Call)
    (h : Reach hash v s r) (hr : r ≤ e.round) (hok : EnvOK e) (hc : CallOK c)
    (hs : be_isOk (step hash s e c) = true) : Reach hash v (be_stOf (step hash s e c) s) e.round := by
  cases hx : step hash s e c with
  | error err => rw [hx] at hs; cases hs
  | ok q =>
    obtain ⟨s', o⟩ := q
    exact .call s r e c s' o h hr hok hc hx

def be_x0 : State := match init .base be_args { caller := 1, round := 0 } with
  | .ok s => s
  | .error _ => default

def be_x1 : State := be_stOf (step id be_x0 { caller := 1, round := 1 } (.addTickets [(7, 2), (8, 1)])) be_x0
def be_x2 : State := be_stOf (step id be_x1 { caller := 1, round := 2, esdts := [⟨.esdt 1, 0, 5⟩] } .deposit) be_x1
def be_x3 : State := be_stOf (step id be_x2 { caller := 7, round := 5, egld := 20 } (.confirm 2)) be_x2
def be_x4 : State := be_stOf (step id be_x3 { caller := 8, round := 6, egld := 10 } (.confirm 1)) be_x3
/-- the owner blacklists participant 7 (2 tickets confirmed, 20 EGLD paid) -/
def be_x5 : State := be_stOf (step id be_x4 { caller := 1, round := 7 } (.blacklist [7])) be_x4
def be_x6 : State := be_stOf (step id be_x5 { caller := 9, round := 10 } .filter) be_x5
def be_x7 : State := be_stOf (step id be_x6 { caller := 9, round := 11 } .select) be_x6

theorem be_x0_reach : Reach id .base be_x0 0 := Reach.init be_args { caller := 1, round := 0 } be_x0 rfl

theorem be_x5_reach : Reach id .base be_x5 7 :=
  be_callOk { caller := 1, round := 7 } (.blacklist [7])
    (be_callOk { caller := 8, round := 6, egld := 10 } (.confirm 1)
      (be_callOk { caller := 7, round := 5, egld := 20 } (.confirm 2)
        (be_callOk { caller := 1, round := 2, esdts := [⟨.esdt 1, 0, 5⟩] } .deposit
          (be_callOk { caller := 1, round := 1 } (.addTickets [(7, 2), (8, 1)])
            be_x0_reach (by decide) (Or.inl rfl) (by show ∀ p ∈ [(7, 2), (8, 1)], 1 ≤ p.2; decide) rfl)
          (by decide) (Or.inl rfl) trivial rfl)
        (by decide) (Or.inr rfl) trivial rfl)
      (by decide) (Or.inr rfl) trivial rfl)
    (by decide) (Or.inl rfl) trivial rfl

theorem be_x7_reach : Reach id .base be_x7 11 :=
  be_callOk { caller := 9, round := 11 } .select
    (be_callOk { caller := 9, round := 10 } .filter be_x5_reach (by decide) (Or.inl rfl) trivial rfl)
    (by decide) (Or.inl rfl) trivial rfl

/-- the blacklisting refunds participant 7 in full (one transfer of 20 EGLD) and flags them -/
example : ∃ s' o, step id be_x4 { caller := 1, round := 7 } (.blacklist [7]) = .ok (s', o) ∧
    o.xfers = [(7, ⟨.egld, 0, 20⟩)] ∧ s' = be_x5 ∧ s'.blacklist 7 = true ∧ s'.confirmed 7 = 0 ∧
    s'.bal .egld 0 = 10 ∧ be_x4.bal .egld 0 = 30 :=
  ⟨_, _, rfl, rfl, rfl, rfl, rfl, rfl, rfl⟩

/-- after the lottery: 7 has no record, 8 owns ticket 1 and wins; 7's claim is rejected, 8's is accepted -/
example : be_x7.flags.filtered = true ∧ be_x7.flags.selected = true ∧ be_x7.blacklist 7 = true ∧
    be_x7.range 7 = none ∧ be_x7.range 8 = some ⟨1, 1⟩ ∧ be_x7.status 1 = true ∧
    be_x5.range 7 = some ⟨1, 2⟩ ∧
    be_isOk (step id be_x7 { caller := 7, round := 15 } .claim) = false ∧
    be_isOk (step id be_x7 { caller := 8, round := 15 } .claim) = true :=
  ⟨rfl, rfl, rfl, rfl, rfl, rfl, rfl, rfl, rfl⟩

/-- the theorems applied to the concrete history: `be_x5` is covered, 7 is blacklisted there; in the
    later state `be_x7` (selection started at round 10 ≤ 11 …) -/
example : ∃ err, step id be_x7 { caller := 7, round := 15 } .claim = .error err :=
  blacklisted_claim_rejected id be_x7 11 (.plain (Or.inl rfl) be_x7_reach) { caller := 7, round := 15 } rfl

/-- … and along ANY continuation of the history from `be_x7` the claim of 7 stays rejected -/
example (p : Hist) (hr : RoundsFrom 11 p) (hp : ∀ x ∈ p, HistOK x.1 x.2) (e : Env) (he : e.caller = 7) :
    ∃ err, step id (run id be_x7 p) e .claim = .error err :=
  blacklisted_claims_nothing_run id be_x7 11 (.plain (Or.inl rfl) be_x7_reach) 7 rfl (by decide) p hr hp e he

example : be_x7.confirmed 7 = 0 ∧ winCountOf be_x7 7 = 0 ∧ viewWinningIds be_x7 7 = [] ∧
    (be_x7.flags.filtered = true → be_x7.range 7 = none) :=
  blacklisted_holds_no_ticket id be_x7 11 (.plain (Or.inl rfl) be_x7_reach) 7 rfl

/-- an interrupted filter on the same history: the loop stops after the first batch (that of the
    blacklisted participant 7, already deleted); hypotheses of `blacklisted_during_interrupted_filter` -/
example : (be_stOf (step id be_x5 { caller := 9, round := 10, budget := some 0 } .filter) be_x5).op = .filter 3 2 :=
  rfl

/-- the `Later` form: `be_x5` (7 blacklisted) seen at round 10 = `sel`, the lottery runs, and in the
    later state `be_x7` the claim of 7 is rejected by `blacklisted_claims_nothing` -/
theorem be_x5_later_x7 : Later id be_x5 10 be_x7 11 := by
  have h6 : ∃ o, step id be_x5 { caller := 9, round := 10 } .filter = .ok (be_x6, o) := ⟨_, rfl⟩
  have h7 : ∃ o, step id be_x6 { caller := 9, round := 11 } .select = .ok (be_x7, o) := ⟨_, rfl⟩
  obtain ⟨o6, h6⟩ := h6
  obtain ⟨o7, h7⟩ := h7
  exact .call be_x6 10 { caller := 9, round := 11 } .select be_x7 o7
    (.call be_x5 10 { caller := 9, round := 10 } .filter be_x6 o6 .refl (by decide)
      ⟨Or.inl rfl, trivial, trivial⟩ h6)
    (by decide) ⟨Or.inl rfl, trivial, trivial⟩ h7

example : ∃ err, step id be_x7 { caller := 7, round := 15 } .claim = .error err :=
  blacklisted_claims_nothing id be_x5 10 (.plain (Or.inl rfl) (.wait _ 7 10 be_x5_reach (by decide)))
    7 rfl (by decide) be_x7 11 be_x5_later_x7 { caller := 7, round := 15 } rfl

example : be_x7.blacklist = be_x5.blacklist ∧ be_x7.cfg.sel = be_x5.cfg.sel ∧ be_x5.cfg.sel ≤ 11 :=
  blacklist_frozen_from_selection HistOK id be_x5 10 rfl (by decide) be_x7 11 be_x5_later_x7

/-- `blacklisted_claims_nothing_ever` on the same history, starting at the blacklisting itself
    (round 7, before the selection start) -/
example : ∃ err, step id be_x7 { caller := 7, round := 15 } .claim = .error err :=
  blacklisted_claims_nothing_ever id be_x5 10 (.plain (Or.inl rfl) (.wait _ 7 10 be_x5_reach (by decide)))
    rfl 7 rfl be_x7 11 be_x5_later_x7 { caller := 7, round := 15 } rfl

theorem be_run_cons_ok {hash : List Nat → List Nat} {s s' : State} {e : Env} {c : Call} {o : Out}
    {rest : Hist} (h : step hash s e c = .ok (s', o)) :
    run hash s ((e, c) :: rest) = run hash s' rest := by
  simp only [run, h]

theorem be_run_cons_err {hash : List Nat → List Nat} {s : State} {e : Env} {c : Call} {err : Err}
    {rest : Hist} (h : step hash s e c = .error err) :
    run hash s ((e, c) :: rest) = run hash s rest := by
  simp only [run, h]

/-- `blacklisted_end_to_end` applied to the same history given as two lists for `run`, with a
    REJECTED transaction (7 tries to confirm again after being blacklisted) at the end of `be_h1` -/
def be_h1 : Hist :=
  [({ caller := 1, round := 1 }, .addTickets [(7, 2), (8, 1)]),
   ({ caller := 1, round := 2, esdts := [⟨.esdt 1, 0, 5⟩] }, .deposit),
   ({ caller := 7, round := 5, egld := 20 }, .confirm 2),
   ({ caller := 8, round := 6, egld := 10 }, .confirm 1),
   ({ caller := 1, round := 7 }, .blacklist [7]),
   ({ caller := 7, round := 8, egld := 10 }, .confirm 1)]

def be_h2 : Hist := [({ caller := 9, round := 10 }, .filter), ({ caller := 9, round := 11 }, .select)]

theorem be_h1_run : run id be_x0 be_h1 = be_x5 := by
  obtain ⟨o1, h1⟩ : ∃ o, step id be_x0 { caller := 1, round := 1 } (.addTickets [(7, 2), (8, 1)]) = .ok (be_x1, o) := ⟨_, rfl⟩
  obtain ⟨o2, h2⟩ : ∃ o, step id be_x1 { caller := 1, round := 2, esdts := [⟨.esdt 1, 0, 5⟩] } .deposit = .ok (be_x2, o) := ⟨_, rfl⟩
  obtain ⟨o3, h3⟩ : ∃ o, step id be_x2 { caller := 7, round := 5, egld := 20 } (.confirm 2) = .ok (be_x3, o) := ⟨_, rfl⟩
  obtain ⟨o4, h4⟩ : ∃ o, step id be_x3 { caller := 8, round := 6, egld := 10 } (.confirm 1) = .ok (be_x4, o) := ⟨_, rfl⟩
  obtain ⟨o5, h5⟩ : ∃ o, step id be_x4 { caller := 1, round := 7 } (.blacklist [7]) = .ok (be_x5, o) := ⟨_, rfl⟩
  have h6 : step id be_x5 { caller := 7, round := 8, egld := 10 } (.confirm 1)
      = .error (.user "You have been put into the blacklist and may not confirm tickets") := rfl
  unfold be_h1
  rw [be_run_cons_ok h1, be_run_cons_ok h2, be_run_cons_ok h3, be_run_cons_ok h4, be_run_cons_ok h5,
    be_run_cons_err h6]
  rfl

theorem be_h12_ok : ∀ x ∈ be_h1 ++ be_h2, HistOK x.1 x.2 := by
  intro x hx
  simp only [be_h1, be_h2, List.cons_append, List.nil_append, List.mem_cons, List.not_mem_nil,
    or_false] at hx
  rcases hx with rfl | rfl | rfl | rfl | rfl | rfl | rfl | rfl
  · exact ⟨Or.inl rfl, by show ∀ p ∈ [(7, 2), (8, 1)], 1 ≤ p.2; decide, trivial⟩
  · exact ⟨Or.inl rfl, trivial, trivial⟩
  · exact ⟨Or.inr rfl, trivial, trivial⟩
  · exact ⟨Or.inr rfl, trivial, trivial⟩
  · exact ⟨Or.inl rfl, trivial, trivial⟩
  · exact ⟨Or.inr rfl, trivial, trivial⟩
  · exact ⟨Or.inl rfl, trivial, trivial⟩
  · exact ⟨Or.inl rfl, trivial, trivial⟩

example : ∀ e : Env, e.caller = 7 →
    ∃ err, step id (run id be_x0 (be_h1 ++ be_h2)) e .claim = .error err := by
  refine (blacklisted_end_to_end id .base be_args { caller := 1, round := 0 } be_x0 rfl
    be_h1 be_h2 (by simp [be_h1, be_h2, RoundsFrom]) be_h12_ok 7 (by rw [be_h1_run]; rfl) ?_).2.2.2.2.2.2
  intro x hx
  rw [be_h1_run]
  simp only [be_h2, List.mem_cons, List.not_mem_nil, or_false] at hx
  rcases hx with rfl | rfl <;> decide


/-! ### a vesting variant (guarV2): blacklist, un-blacklist, blacklist again, lottery, distribution -/

def be_gArgs : InitArgs :=
  { lpTok := 1, perTicket := 5, payTok := .egld, price := 10, nrWinning := 2, conf := 5, sel := 10, claim := 15 }

def be_g0 : State := match init .guarV2 be_gArgs { caller := 1, round := 0 } with
  | .ok s => s
  | .error _ => default

def be_g1 : State := be_stOf (step id be_g0 { caller := 1, round := 1 } (.addTicketsV2 [(7, 3, [(1, 1)]), (8, 1, [])])) be_g0
def be_g2 : State := be_stOf (step id be_g1 { caller := 1, round := 2, esdts := [⟨.esdt 1, 0, 10⟩] } .deposit) be_g1
def be_g3 : State := be_stOf (step id be_g2 { caller := 7, round := 5, egld := 20 } (.confirm 2)) be_g2
def be_g4 : State := be_stOf (step id be_g3 { caller := 8, round := 6, egld := 10 } (.confirm 1)) be_g3
def be_g5 : State := be_stOf (step id be_g4 { caller := 1, round := 7 } (.blacklist [7])) be_g4
def be_g6 : State := be_stOf (step id be_g5 { caller := 1, round := 8 } (.unblacklist [7])) be_g5
def be_g7 : State := be_stOf (step id be_g6 { caller := 1, round := 9 } (.blacklist [7])) be_g6
def be_g8 : State := be_stOf (step id be_g7 { caller := 9, round := 10 } .filter) be_g7
def be_g9 : State := be_stOf (step id be_g8 { caller := 9, round := 11 } .select) be_g8
def be_g10 : State := be_stOf (step id be_g9 { caller := 9, round := 12 } .distribute) be_g9

theorem be_g0_reach : Reach id .guarV2 be_g0 0 := Reach.init be_gArgs { caller := 1, round := 0 } be_g0 rfl

theorem be_g5_reach : Reach id .guarV2 be_g5 7 :=
  be_callOk { caller := 1, round := 7 } (.blacklist [7])
    (be_callOk { caller := 8, round := 6, egld := 10 } (.confirm 1)
      (be_callOk { caller := 7, round := 5, egld := 20 } (.confirm 2)
        (be_callOk { caller := 1, round := 2, esdts := [⟨.esdt 1, 0, 10⟩] } .deposit
          (be_callOk { caller := 1, round := 1 } (.addTicketsV2 [(7, 3, [(1, 1)]), (8, 1, [])])
            be_g0_reach (by decide) (Or.inl rfl) trivial rfl)
          (by decide) (Or.inl rfl) trivial rfl)
        (by decide) (Or.inr rfl) trivial rfl)
      (by decide) (Or.inr rfl) trivial rfl)
    (by decide) (Or.inl rfl) trivial rfl

theorem be_g10_reach : Reach id .guarV2 be_g10 12 :=
  be_callOk { caller := 9, round := 12 } .distribute
    (be_callOk { caller := 9, round := 11 } .select
      (be_callOk { caller := 9, round := 10 } .filter
        (be_callOk { caller := 1, round := 9 } (.blacklist [7])
          (be_callOk { caller := 1, round := 8 } (.unblacklist [7]) be_g5_reach
            (by decide) (Or.inl rfl) trivial rfl)
          (by decide) (Or.inl rfl) trivial rfl)
        (by decide) (Or.inl rfl) trivial rfl)
      (by decide) (Or.inl rfl) trivial rfl)
    (by decide) (Or.inl rfl) trivial rfl

/-- the hypotheses of `unblacklist_touches_nobody_else` are satisfiable: 7 (guaranteed ticket,
    2 confirmed, refunded 20 EGLD by the blacklisting) is un-blacklisted at round 8; the reserve
    (`totalGuaranteed`) goes 1 → 0 → 1, participant 8 is untouched -/
example : ∃ s' o, step id be_g5 { caller := 1, round := 8 } (.unblacklist [7]) = .ok (s', o) ∧ s' = be_g6 ∧
    be_g5.blacklist 7 = true ∧ be_g6.blacklist 7 = false ∧ be_g6.confirmed 7 = 0 ∧ be_g6.confirmed 8 = 1 ∧
    be_g4.totalGuaranteed = 1 ∧ be_g5.totalGuaranteed = 0 ∧ be_g6.totalGuaranteed = 1 :=
  ⟨_, _, rfl, rfl, rfl, rfl, rfl, rfl, rfl, rfl, rfl⟩

example : Covered id be_g6 8 ∧ be_g6.confirmed 8 = be_g5.confirmed 8 := by
  have h : ∃ o, step id be_g5 { caller := 1, round := 8 } (.unblacklist [7]) = .ok (be_g6, o) := ⟨_, rfl⟩
  obtain ⟨o, h⟩ := h
  obtain ⟨h1, _, h3, _⟩ := unblacklist_touches_nobody_else id be_g5 7 (.guarV2 be_g5_reach)
    { caller := 1, round := 8 } [7] be_g6 o (by decide) (Or.inl rfl) h
  exact ⟨h1, (h3 8).1⟩

/-- after the distribution the blacklisted 7 has no record and their claim is rejected, 8 claims -/
example : be_g10.flags.additional = true ∧ be_g10.blacklist 7 = true ∧ be_g10.range 7 = none ∧
    be_g10.range 8 = some ⟨1, 1⟩ ∧
    be_isOk (step id be_g10 { caller := 7, round := 15 } .claim) = false ∧
    be_isOk (step id be_g10 { caller := 8, round := 15 } .claim) = true :=
  ⟨rfl, rfl, rfl, rfl, rfl, rfl⟩

example : ∃ err, step id be_g10 { caller := 7, round := 15 } .claim = .error err :=
  blacklisted_claim_rejected id be_g10 12 (.guarV2 be_g10_reach) { caller := 7, round := 15 } rfl

/-! ### nftGuar: a participant who paid the NFT fee is blacklisted (tickets and fee refunded),
    leaves the NFT list, the lottery and the NFT draw run, their claim is rejected -/

def be_nArgs : InitArgs :=
  { lpTok := 1, perTicket := 5, payTok := .egld, price := 10, nrWinning := 2, conf := 5, sel := 10, claim := 15,
    minConfirmed := 2, nftCost := ⟨.egld, 0, 3⟩, availNfts := 1 }

def be_n0 : State := match init .nftGuar be_nArgs { caller := 1, round := 0 } with
  | .ok s => s
  | .error _ => default

def be_n1 : State := be_stOf (step id be_n0 { caller := 1, round := 1 } (.addTicketsV1 [(7, 2, 1, false), (8, 1, 0, false)])) be_n0
def be_n2 : State := be_stOf (step id be_n1 { caller := 1, round := 2, esdts := [⟨.esdt 1, 0, 10⟩] } .deposit) be_n1
def be_n3 : State := be_stOf (step id be_n2 { caller := 9, round := 3 } .sftSetup) be_n2
def be_n4 : State := be_stOf (step id be_n3 { caller := 7, round := 5, egld := 20 } (.confirm 2)) be_n3
def be_n5 : State := be_stOf (step id be_n4 { caller := 8, round := 6, egld := 10 } (.confirm 1)) be_n4
def be_n6 : State := be_stOf (step id be_n5 { caller := 7, round := 7, egld := 3 } .confirmNft) be_n5
def be_n7 : State := be_stOf (step id be_n6 { caller := 1, round := 8 } (.blacklist [7])) be_n6
def be_n8 : State := be_stOf (step id be_n7 { caller := 9, round := 10 } .filter) be_n7
def be_n9 : State := be_stOf (step id be_n8 { caller := 9, round := 11 } .select) be_n8
def be_n10 : State := be_stOf (step id be_n9 { caller := 9, round := 12 } .secondary) be_n9

theorem be_ng_callOk {hash : List Nat → List Nat} {s : State} {r : Nat} (e : Env) (c : Call)
    (h : ng_Reach hash s r) (hr : r ≤ e.round) (hok : EnvOK e) (hc : v1_CallOK c)
    (hs : be_isOk (step hash s e c) = true) : ng_Reach hash (be_stOf (step hash s e c) s) e.round := by
  cases hx : step hash s e c with
  | error err => rw [hx] at hs; cases hs
  | ok q =>
    obtain ⟨s', o⟩ := q
    exact .call s r e c s' o h hr hok hc hx

theorem be_n6_reach : ng_Reach id be_n6 7 :=
  be_ng_callOk { caller := 7, round := 7, egld := 3 } .confirmNft
    (be_ng_callOk { caller := 8, round := 6, egld := 10 } (.confirm 1)
      (be_ng_callOk { caller := 7, round := 5, egld := 20 } (.confirm 2)
        (be_ng_callOk { caller := 9, round := 3 } .sftSetup
          (be_ng_callOk { caller := 1, round := 2, esdts := [⟨.esdt 1, 0, 10⟩] } .deposit
            (be_ng_callOk { caller := 1, round := 1 } (.addTicketsV1 [(7, 2, 1, false), (8, 1, 0, false)])
              (.init be_nArgs { caller := 1, round := 0 } be_n0 rfl) (by decide) (Or.inl rfl)
              (by show ∀ q ∈ [(7, 2, 1, false), (8, 1, 0, false)], 1 ≤ q.2.1 + q.2.2.1; decide) rfl)
            (by decide) (Or.inl rfl) trivial rfl)
          (by decide) (Or.inl rfl) trivial rfl)
        (by decide) (Or.inr rfl) trivial rfl)
      (by decide) (Or.inr rfl) trivial rfl)
    (by decide) (Or.inr rfl) trivial rfl

/- from the blacklisting on, the closed terms are evaluated by the kernel (`decide +kernel`): the
   elaborator's `rfl` does not get through `clearGuaranteedV1` / `refundNftMany` in reasonable time -/
theorem be_n7_reach : ng_Reach id be_n7 8 :=
  be_ng_callOk { caller := 1, round := 8 } (.blacklist [7]) be_n6_reach (by decide) (Or.inl rfl) trivial
    (by decide +kernel)

theorem be_n10_reach : ng_Reach id be_n10 12 :=
  be_ng_callOk { caller := 9, round := 12 } .secondary
    (be_ng_callOk { caller := 9, round := 11 } .select
      (be_ng_callOk { caller := 9, round := 10 } .filter be_n7_reach (by decide) (Or.inl rfl) trivial
        (by decide +kernel))
      (by decide) (Or.inl rfl) trivial (by decide +kernel))
    (by decide) (Or.inl rfl) trivial (by decide +kernel)

def be_outOf (x : Res (State × Out)) : Out :=
  match x with
  | .ok (_, o) => o
  | .error _ => {}

/-- the blacklisting refunds both the tickets (20) and the NFT fee (3) and removes 7 from `payers` -/
example : (be_outOf (step id be_n6 { caller := 1, round := 8 } (.blacklist [7]))).xfers
      = [(7, ⟨.egld, 0, 20⟩), (7, ⟨.egld, 0, 3⟩)] ∧
    be_n6.payers = [7] ∧ be_n7.payers = [] ∧ be_n7.blacklist 7 = true := by
  decide +kernel

example : be_n10.flags.additional = true ∧ be_n10.range 7 = none ∧ be_n10.range 8 = some ⟨1, 1⟩ ∧
    be_isOk (step id be_n10 { caller := 7, round := 15 } .claim) = false ∧
    be_isOk (step id be_n10 { caller := 8, round := 15 } .claim) = true := by
  decide +kernel

example : ∃ err, step id be_n10 { caller := 7, round := 15 } .claim = .error err :=
  blacklisted_claim_rejected id be_n10 12 (.nftGuar be_n10_reach) { caller := 7, round := 15 }
    (by decide +kernel)

example : 7 ∉ be_n7.payers ∧ 7 ∉ be_n7.nftWinners :=
  blacklisted_not_in_nft_lists_nftGuar id be_n7 8 be_n7_reach 7 (by decide +kernel)

end LP.Props.C10reach

#print axioms LP.Props.C10reach.blacklisted_end_to_end
#print axioms LP.Props.C10reach.blacklisted_holds_no_ticket
#print axioms LP.Props.C10reach.blacklisted_during_interrupted_filter
#print axioms LP.Props.C10reach.no_claim_before_filter_completes
#print axioms LP.Props.C10reach.blacklist_frozen_from_selection
#print axioms LP.Props.C10reach.blacklist_frozen_from_selection_run
#print axioms LP.Props.C10reach.blacklisted_claim_rejected
#print axioms LP.Props.C10reach.blacklisted_claims_nothing
#print axioms LP.Props.C10reach.blacklisted_claims_nothing_run
#print axioms LP.Props.C10reach.blacklist_permanent_without_unblacklist
#print axioms LP.Props.C10reach.blacklisted_claims_nothing_ever
#print axioms LP.Props.C10reach.blacklisted_never_wins
#print axioms LP.Props.C10reach.blacklisted_not_in_nft_lists
#print axioms LP.Props.C10reach.blacklisted_not_in_nft_lists_nftGuar
#print axioms LP.Props.C10reach.unblacklist_touches_nobody_else

#print axioms LP.Props.C10reach.be_callOk
#print axioms LP.Props.C10reach.be_x0_reach
#print axioms LP.Props.C10reach.be_x5_reach
#print axioms LP.Props.C10reach.be_x7_reach
#print axioms LP.Props.C10reach.be_x5_later_x7
#print axioms LP.Props.C10reach.be_run_cons_ok
#print axioms LP.Props.C10reach.be_run_cons_err
#print axioms LP.Props.C10reach.be_h1_run
#print axioms LP.Props.C10reach.be_h12_ok
#print axioms LP.Props.C10reach.be_g0_reach
#print axioms LP.Props.C10reach.be_g5_reach
#print axioms LP.Props.C10reach.be_g10_reach
#print axioms LP.Props.C10reach.be_ng_callOk
#print axioms LP.Props.C10reach.be_n6_reach
#print axioms LP.Props.C10reach.be_n7_reach
#print axioms LP.Props.C10reach.be_n10_reach
