import LP.Proofs.ZeroAllocG1FullD
/-
  The REMAINING headline theorems of LP/Props/C01reachG1.lean (`Variant.guarV1`,
  launchpad-guaranteed-tickets) transferred to the UNRESTRICTED reachability relation
  `g1_ReachFull hash s r` / `g1_ReachFullA hash a0 s r` (LP/Proofs/ZeroAllocG1g.lean,
  ZeroAllocG1FullB.lean): ANY accepted call, in particular `addTicketsV1` with zero-size entries
  `(a, 0, 0, m)` for either value of the migration flag (`m = true`: a GHOST GUARANTEE, see
  LP/Props/C01zeroG1full.lean).  Together with C01zeroG1full.lean every theorem of C01reachG1.lean
  now holds for every `g1_ReachFull` state.

  Each theorem has the SAME statement as its original with `g1_Reach` / `g1_ReachA` / `g1_Later`
  replaced by `g1_ReachFull` / `g1_ReachFullA` / `g1_LaterFull`
  (`g1_LaterFull` = `g1_Later` without the premise `v1_CallOK`, LP/Proofs/ZeroAllocG1FullD.lean;
  `later_is_laterFull`: the old relation is contained in the new one).  Differences:
    * `vesting_path_independent_guarV1_full` carries `EnvOK e` for the final claim (it is replayed
      through the simulation, as in `claim_releases_exactly_guarV1_full`);
    * `deposit_is_perTicket_times_T0_guarV1_full`, `proceeds_until_withdrawal_guarV1_full`,
      `setSchedule1_only_before_release_guarV1_full`, `schedule_frozen_guarV1_full`,
      `later_amount_guarV1_full`, `whitelisted_iff_guarV1_full`, `lp_nothing_left_guarV1_full`:
      no extra hypothesis at all;
    * `owner_withdrawal_guarV1_full`, `interrupted_distribute_keeps_pre_guarV1_full`: `EnvOK e` was
      already a hypothesis of the originals.
  Nothing is left partial.

  METHOD: every statement goes through the simulation invariant `zh_Inv` (`zh_sim`) and the
  `g1_WF`-level lemma of the original development applied to the erased state, or through the copy
  `zi_done_frame` of `g1_done_frame` whose hypotheses are facts that hold on the REAL state.

  Non-vacuity: the concrete launch with a ghost guarantee `m1`, `n2 … n9` of C01zeroG1full.lean,
  continued here by a vested claim of the real winner (`q10`), the owner's withdrawal (`q11`), the
  final claim (`q12`), and an interrupted `distribute` call (`d7`).
-/
namespace LP.Props.C01zeroG1more
open LP LP.FY LP.Props.C01reach LP.Props.C01reachG1 LP.Props.C01zeroG1 LP.Props.C01zeroG1full

/-- the restricted "later" relation is contained in the unrestricted one: the theorems below
    subsume their originals -/
theorem later_is_laterFull (hash : List Nat → List Nat) (s : State) (r : Nat) (s2 : State) (r2 : Nat)
    (hl : g1_Later hash s r s2 r2) : g1_LaterFull hash s r s2 r2 := hl.toFull

/-! ### 3. proceeds, whitelist -/

/-- after completion the recorded proceeds and the price are frozen until the owner withdraws
    (same statement as `proceeds_until_withdrawal_guarV1`) -/
theorem proceeds_until_withdrawal_guarV1_full (hash : List Nat → List Nat)
    (s : State) (r : Nat) (h : g1_ReachFull hash s r) (hd : AllDone s) (e : Env) (c : Call)
    (s' : State) (o : Out) (hr : r ≤ e.round) (hs : step hash s e c = .ok (s', o)) :
    s'.price = s.price ∧ AllDone s' ∧
    (s'.claimablePayment = s.claimablePayment ∨ (c = .claimPayment ∧ s'.claimablePayment = 0)) := by
  obtain ⟨a0, h⟩ := g1_ReachFull_iff.mp h
  obtain ⟨h1, h2, h3, _⟩ := zi_Inv_done_frame (zh_sim h) hr hd hs
  exact ⟨h1, by unfold AllDone; rw [h2]; exact hd, h3⟩

/-- an accepted `distribute` call that does not complete is an interruption: the successor still
    satisfies the ledger equation of the selection phase (same statement as
    `interrupted_distribute_keeps_pre_guarV1`) -/
theorem interrupted_distribute_keeps_pre_guarV1_full (hash : List Nat → List Nat)
    (s : State) (r : Nat) (h : g1_ReachFull hash s r) (e : Env) (s' : State) (o : Out)
    (hr : r ≤ e.round) (hok : EnvOK e)
    (hs : step hash s e .distribute = .ok (s', o)) (hnd : ¬ AllDone s') :
    ∃ L : List Nat, Covers s' L ∧ PayEqPre s' L := by
  have h' : g1_ReachFull hash s' e.round := .call s r e .distribute s' o h hr hok hs
  obtain ⟨L, h1, h2, _⟩ := C01_solvent_guarV1_full hash s' e.round h'
  exact ⟨L, h1, h2 hnd⟩

/-- until the first `distribute` call is accepted the whitelist is exactly the set of holders of a
    positive guarantee — GHOST guarantees `{c := 0, d := 1}` of empty-range addresses included
    (same statement as `whitelisted_iff_guarV1`) -/
theorem whitelisted_iff_guarV1_full (hash : List Nat → List Nat) (s : State)
    (r : Nat) (h : g1_ReachFull hash s r) (hna : s.flags.additional = false)
    (hop : s.flags.selected = true → s.op = .none) (u : Nat) :
    u ∈ s.whitelist ↔ ∃ st, s.uts u = some st ∧ st.c + st.d > 0 := by
  obtain ⟨a0, h⟩ := g1_ReachFull_iff.mp h
  exact zi_whitelist_intact (zh_sim h) hna hop u

/-! ### 4. the launchpad-token ledger with vesting -/

/-- **the owner's withdrawal** (same statement as `owner_withdrawal_guarV1`): an accepted
    `claimPayment` from a state reachable with ARBITRARY allocation entries pays the recorded
    proceeds and exactly `ownSurplus` launchpad tokens, clears both records, and leaves in the
    contract exactly the unsettled winners' tokens plus everything still owed to the settled -/
theorem owner_withdrawal_guarV1_full (hash : List Nat → List Nat) (s : State) (r : Nat)
    (h : g1_ReachFull hash s r) (e : Env) (s' : State) (o : Out) (hr : r ≤ e.round) (hok : EnvOK e)
    (hs : step hash s e .claimPayment = .ok (s', o)) :
    AllDone s ∧ s'.claimablePayment = 0 ∧ s'.totalDeposited = 0 ∧ s'.nrWinning = s.nrWinning ∧
    s'.bal (.esdt s.lpTok) 0 + ownSurplus s = s.bal (.esdt s.lpTok) 0 ∧
    s'.bal s.payTok 0 + s.claimablePayment = s.bal s.payTok 0 ∧
    ∃ L : List Nat, L.Nodup ∧ (∀ a, a ∉ L → s'.userTotal a = 0 ∧ s'.userClaimed a = 0) ∧
      s'.bal (.esdt s'.lpTok) 0 = s'.perTicket * s'.nrWinning
        + sumOver (fun a => s'.userTotal a - s'.userClaimed a) L := by
  have h' : g1_ReachFull hash s' e.round := .call s r e .claimPayment s' o h hr hok hs
  obtain ⟨a0, h0⟩ := g1_ReachFull_iff.mp h
  obtain ⟨hvar, htok, _⟩ := zi_static (zh_sim h0)
  obtain ⟨t, hx, rfl⟩ := rb_step_np (by intro m hm; simp [endpointMeta] at hm; rw [← hm]) hs
  obtain ⟨hvest, _⟩ := g1_flags hvar
  simp only [exec, rbTx_s, hvest, if_true] at hx
  obtain ⟨hst, hle1, hle2, hts⟩ := v2_claimPaymentOwn_state htok hx
  obtain ⟨hsel, hadd, _, _⟩ := v1_stage_claim hst
  have hne : Token.esdt s.lpTok ≠ s.payTok := fun hh => htok hh.symm
  have hd' : AllDone t.s := by rw [hts]; exact ⟨hsel, hadd⟩
  obtain ⟨L, k1, k2, k3⟩ := lp_exact_guarV1_full hash t.s e.round h' hd'
  have hsur : ownSurplus t.s = 0 := by unfold ownSurplus; rw [hts]; rfl
  rw [hsur, Nat.zero_add] at k3
  refine ⟨⟨hsel, hadd⟩, by rw [hts], by rw [hts], by rw [hts], ?_, ?_, L, k1, k2, k3⟩
  · rw [hts]
    show ((s.bal.sub s.payTok 0 s.claimablePayment).sub (.esdt s.lpTok) 0 (ownSurplus s)) (.esdt s.lpTok) 0
      + ownSurplus s = _
    simp only [Bal.sub, hne, and_self, false_and, if_true, if_false]
    omega
  · rw [hts]
    show ((s.bal.sub s.payTok 0 s.claimablePayment).sub (.esdt s.lpTok) 0 (ownSurplus s)) s.payTok 0
      + s.claimablePayment = _
    simp only [Bal.sub, htok, and_self, false_and, if_true, if_false]
    omega

/-- **path independence along histories with arbitrary allocation entries** (same statement as
    `vesting_path_independent_guarV1`, with `g1_LaterFull` and `EnvOK e`): let `a` have settled in a
    reachable state `s` in which the confirmation period has started and a schedule `sc` is stored.
    Whatever happens afterwards, after an accepted claim of `a` at round `e.round` his cumulative
    received amount is EXACTLY `userTotal a × unlockedPct1 e.round sc / 10000` for the entitlement
    `userTotal a` fixed at his settlement (for a former ghost: `0`); it is at most the entitlement
    and equals it once `sc` has fully released. -/
theorem vesting_path_independent_guarV1_full (hash : List Nat → List Nat) (s : State) (r : Nat)
    (h : g1_ReachFull hash s r) (sc : Sched1) (hconf : s.cfg.conf ≤ r) (hsc : s.sched1 = some sc)
    (e : Env) (hcl : s.claimed e.caller = true)
    (s1 : State) (r1 : Nat) (hl : g1_LaterFull hash s r s1 r1)
    (s2 : State) (o : Out) (hr : r1 ≤ e.round) (hok : EnvOK e)
    (hs : step hash s1 e .claim = .ok (s2, o)) :
    s2.userTotal e.caller = s.userTotal e.caller ∧ s2.sched1 = some sc ∧
    s2.userClaimed e.caller = entitled (s.userTotal e.caller) (unlockedPct1 e.round sc) ∧
    s.userClaimed e.caller ≤ s2.userClaimed e.caller ∧
    s2.userClaimed e.caller ≤ s.userTotal e.caller ∧
    ((sc.start + sc.times * sc.period ≤ e.round ∨ (sc.initial = 10000 ∧ sc.start ≤ e.round)) →
      s2.userClaimed e.caller = s.userTotal e.caller) := by
  obtain ⟨a0, h⟩ := g1_ReachFull_iff.mp h
  obtain ⟨f1, _, _⟩ := zi_later_frozen hconf hsc hl
  obtain ⟨k1, k2, k3, _⟩ := zi_later_settled h hcl hl
  have h1reach : g1_ReachFull hash s1 r1 := g1_ReachFull_iff.mpr ⟨a0, (g1_LaterFull.reach h hl).1⟩
  obtain ⟨j1, j2, j3, j4, j5, _, _, j8, _⟩ :=
    claim_releases_exactly_guarV1_full hash s1 r1 h1reach e s2 o hr hok hs
  have hut : s2.userTotal e.caller = s.userTotal e.caller := by rw [j8 k1]; exact k2
  rw [f1] at j2 j1
  rw [hut] at j2 j4
  refine ⟨hut, j1, j2, by omega, j4, fun hfull => ?_⟩
  have := j5 sc f1 hfull
  rw [hut] at this
  exact this

/-- the same at EVERY later state (same statement as `later_amount_guarV1`): the entitlement and
    the schedule are those of `s`, the cumulative received amount never decreases, never exceeds
    the entitlement, and is `0` or the schedule's released amount at some round `r' ≤ r2` -/
theorem later_amount_guarV1_full (hash : List Nat → List Nat) (s : State) (r : Nat)
    (h : g1_ReachFull hash s r) (sc : Sched1) (hconf : s.cfg.conf ≤ r) (hsc : s.sched1 = some sc)
    (a : Nat) (hcl : s.claimed a = true) (s2 : State) (r2 : Nat)
    (hl : g1_LaterFull hash s r s2 r2) :
    s2.userTotal a = s.userTotal a ∧ s2.sched1 = some sc ∧
    s.userClaimed a ≤ s2.userClaimed a ∧ s2.userClaimed a ≤ s.userTotal a ∧
    (s2.userClaimed a = 0 ∨
      ∃ r', r' ≤ r2 ∧ s2.userClaimed a = entitled (s.userTotal a) (unlockedPct1 r' sc)) := by
  obtain ⟨a0, h⟩ := g1_ReachFull_iff.mp h
  obtain ⟨f1, _, _⟩ := zi_later_frozen hconf hsc hl
  obtain ⟨_, k2, k3, _⟩ := zi_later_settled h hcl hl
  have h2reach : g1_ReachFull hash s2 r2 := g1_ReachFull_iff.mpr ⟨a0, (g1_LaterFull.reach h hl).1⟩
  obtain ⟨j1, _, _⟩ := released_exact_guarV1_full hash s2 r2 h2reach
  have j2 := (unsettled_no_record_guarV1_full hash s2 r2 h2reach).2 a
  refine ⟨k2, f1, k3, by rw [← k2]; exact j2, ?_⟩
  rcases j1 a with h0 | ⟨r', hr', h0⟩
  · exact Or.inl h0
  · refine Or.inr ⟨r', hr', ?_⟩
    rw [h0]
    show entitled (s2.userTotal a) (pct1 r' s2.sched1) = _
    rw [k2, f1]; rfl

/-- **nothing is left** (same statement as `lp_nothing_left_guarV1`): once every participant has
    settled and claimed everything and the owner has withdrawn, the contract holds no launchpad
    tokens -/
theorem lp_nothing_left_guarV1_full (hash : List Nat → List Nat) (s : State) (r : Nat)
    (h : g1_ReachFull hash s r) (hd : AllDone s) (hall : ∀ a, s.range a = none)
    (hclaimed : ∀ a, s.userClaimed a = s.userTotal a) (hown : s.totalDeposited = 0) :
    s.bal (.esdt s.lpTok) 0 = 0 := by
  obtain ⟨L', _, _, hwin, _, _⟩ := three_counts_guarV1_full hash s r h hd
  have hnw : s.nrWinning = 0 := by
    rw [← hwin]
    apply sumOver_zero
    intro a _
    simp [winCountOf, hall a]
  obtain ⟨L, _, _, heq⟩ := lp_exact_guarV1_full hash s r h hd
  have hsum : sumOver (fun a => s.userTotal a - s.userClaimed a) L = 0 :=
    sumOver_zero _ _ (fun a _ => by show s.userTotal a - s.userClaimed a = 0; rw [hclaimed a]; omega)
  have hsur : ownSurplus s = 0 := by unfold ownSurplus; rw [if_pos hown]
  rw [heq, hsur, hnw, hsum]; simp

/-- **the deposit** (same statement as `deposit_is_perTicket_times_T0_guarV1`): an accepted deposit
    made before the filter has completed is exactly `perTicket × (nrWinning + totalGuaranteed) =
    perTicket × T0` launchpad tokens — the ghost guarantees are part of the reserve -/
theorem deposit_is_perTicket_times_T0_guarV1_full (hash : List Nat → List Nat)
    (a0 : InitArgs) (s : State) (r : Nat) (h : g1_ReachFullA hash a0 s r) (e : Env) (s' : State)
    (o : Out) (hf : s.flags.filtered = false) (hs : step hash s e .deposit = .ok (s', o)) :
    s'.totalDeposited = s.perTicket * a0.nrWinning ∧ s'.deposited = true ∧
    singleFungible e = .ok (.esdt s.lpTok, s.perTicket * a0.nrWinning) := by
  have hinv := zh_sim h
  have hres := (zh_Inv_reserve hinv).1 hf
  have hmax : LP.Props.C02.maxWinners s = a0.nrWinning := by
    unfold LP.Props.C02.maxWinners reservedForDeposit
    rw [(g1_flags (zh_Inv_var hinv)).2.2.2.2.1]
    exact hres
  obtain ⟨hs', _, _⟩ := LP.Props.C02.deposit_effect hash s s' e o hs
  have hacc := ((LP.Props.C02.deposit_accepted_iff hash s e).mp ⟨_, hs⟩).2.2
  rw [hmax] at hacc
  refine ⟨?_, ?_, hacc⟩
  · rw [hs', hmax]
  · rw [hs']

/-! ### 5. the unlock schedule -/

/-- **the schedule is frozen once the confirmation period has started** (same statement as
    `schedule_frozen_guarV1`): from a (reachable or not) state in which the confirmation start
    round has been reached and a schedule is stored, no sequence of accepted calls — whatever their
    allocation entries — changes the schedule or the confirmation start round -/
theorem schedule_frozen_guarV1_full (hash : List Nat → List Nat) (s : State) (r : Nat) (sc : Sched1)
    (hconf : s.cfg.conf ≤ r) (hsc : s.sched1 = some sc) (s2 : State) (r2 : Nat)
    (hl : g1_LaterFull hash s r s2 r2) : s2.sched1 = some sc ∧ s2.cfg.conf = s.cfg.conf :=
  ⟨(zi_later_frozen hconf hsc hl).1, (zi_later_frozen hconf hsc hl).2.1⟩

/-- an accepted `setSchedule1` from a state reachable with arbitrary allocation entries finds
    `userClaimed = 0` for everybody, stores the schedule, and the schedule is valid (same statement
    as `setSchedule1_only_before_release_guarV1`) -/
theorem setSchedule1_only_before_release_guarV1_full (hash : List Nat → List Nat) (s : State)
    (r : Nat) (h : g1_ReachFull hash s r) (e : Env) (a b c d f : Nat) (s' : State) (o : Out)
    (hr : r ≤ e.round)
    (hs : step hash s e (.setSchedule1 a b c d f) = .ok (s', o)) :
    (∀ u, s.userClaimed u = 0) ∧ s'.sched1 = some ⟨a, b, c, d, f⟩ ∧
    validSched1 ⟨a, b, c, d, f⟩ := by
  obtain ⟨a0, h0⟩ := g1_ReachFull_iff.mp h
  have hinv := zh_sim h0
  have hsc : s'.sched1 = some ⟨a, b, c, d, f⟩ := by rw [setSchedule1_sched1 hs]
  have hval : validSched1 ⟨a, b, c, d, f⟩ := by
    obtain ⟨t, hx, _⟩ := rb_step_np (by
      intro m hm; simp only [endpointMeta] at hm; split at hm
      · simp at hm; rw [← hm]
      · cases hm) hs
    simp only [exec, bind_ok_iff, pure_ok_iff] at hx
    obtain ⟨s1, h1, _⟩ := hx
    obtain ⟨_, _, hv1, hv2, _⟩ := (setSchedule1_eq_ok ..).1 h1
    exact ⟨hv1, hv2⟩
  refine ⟨fun u => ?_, hsc, hval⟩
  rcases LP.Props.C06.schedule1_gate hash s e a b c d f (s', o) hs with hlt | hnone
  · have hns : s.flags.started = false := by
      cases hq : s.flags.started with
      | false => rfl
      | true => have := ((zi_static hinv).2.2 hq).1; omega
    rcases hinv with hpa | ⟨hst, _⟩
    · exact (zh_PA_fresh hpa u).2.1
    · rw [hns] at hst; cases hst
  · rcases (zh_Inv_exact hinv).1 u with h0' | ⟨r', _, h0'⟩
    · exact h0'
    · have h0'' : s.userClaimed u = entitled (s.userTotal u) (pct1 r' s.sched1) := h0'
      rw [h0'', hnone]
      simp [pct1, entitled]

/-! ### non-vacuity: the launch with a GHOST guarantee of C01zeroG1full.lean, continued

  `m1` = deployment `wArgs` (`T0 = 2`, `perTicket = 20`, `price = 10`, confirmation from round 5)
  followed by `addTicketsV1 [(6, 0, 0, true), (7, 2, 0, false)]` (6 is a ghost), `n2` schedule
  "25 % at round 16, then 3 × 25 % every 10 rounds", `n3` deposit 40, `n4` 7 confirms both tickets,
  `n5` filter, `n6` lottery, `n7` distribution (both tickets of 7 win), `n8`, `n9` two claims of
  the ghost.  Continued: `q10` 7 claims at round 26 (50 % of 40), `q11` the owner withdraws at
  round 27, `q12` 7 claims at round 50 (everything).  `d7`: the `distribute` call on `n6` with
  budget `0`, an interruption. -/

def q10 : State := stOf (step id n9 { caller := 7, round := 26 } .claim) n9
def q11 : State := stOf (step id q10 { caller := 1, round := 27 } .claimPayment) q10
def q12 : State := stOf (step id q11 { caller := 7, round := 50 } .claim) q11
def d7 : State := stOf (step id n6 { caller := 9, round := 12, budget := some 0 } .distribute) n6

theorem q10_reachFullA : g1_ReachFullA id wArgs q10 26 :=
  g1F_callOk { caller := 7, round := 26 } .claim n9_reachFullA (by decide +kernel) (Or.inl rfl) (by decide +kernel)

theorem q11_reachFullA : g1_ReachFullA id wArgs q11 27 :=
  g1F_callOk { caller := 1, round := 27 } .claimPayment q10_reachFullA (by decide +kernel) (Or.inl rfl) (by decide +kernel)

theorem q12_reachFullA : g1_ReachFullA id wArgs q12 50 :=
  g1F_callOk { caller := 7, round := 50 } .claim q11_reachFullA (by decide +kernel) (Or.inl rfl) (by decide +kernel)

theorem full_of_A {s : State} {r : Nat} (h : g1_ReachFullA id wArgs s r) : g1_ReachFull id s r :=
  g1_ReachFull_iff.mpr ⟨wArgs, h⟩

/-- one more accepted call along `g1_LaterFull` -/
theorem lF_callOk {hash : List Nat → List Nat} {s0 : State} {r0 : Nat} {s : State} {r : Nat}
    (e : Env) (c : Call)
    (h : g1_LaterFull hash s0 r0 s r) (hr : r ≤ e.round) (hok : EnvOK e)
    (hs : isOk (step hash s e c) = true) :
    g1_LaterFull hash s0 r0 (stOf (step hash s e c) s) e.round := by
  cases hx : step hash s e c with
  | error err => rw [hx] at hs; cases hs
  | ok q =>
    obtain ⟨s', o⟩ := q
    exact .call s r e c s' o h hr hok hx

/-- the concrete numbers: 7's entitlement is 40; 20 after the claim at round 26; the owner's
    withdrawal clears the proceeds; 40 after the claim at round 50 and no launchpad token is left -/
example : q10.userTotal 7 = 40 ∧ q10.userClaimed 7 = 20 ∧ q10.claimablePayment = 20 ∧
    q11.claimablePayment = 0 ∧ q11.totalDeposited = 0 ∧ q11.bal (.esdt 1) 0 = 20 ∧
    q12.userClaimed 7 = 40 ∧ q12.bal (.esdt 1) 0 = 0 ∧ q12.bal .egld 0 = 0 := by
  refine ⟨by decide +kernel, by decide +kernel, by decide +kernel, by decide +kernel, by decide +kernel, by decide +kernel, by decide +kernel, by decide +kernel,
    by decide +kernel⟩

/-- `whitelisted_iff_guarV1_full` on `m1`: the ghost 6 (record `{c := 0, d := 1}`, empty range) is
    whitelisted; 8 (no record) is not -/
example : 6 ∈ m1.whitelist ∧ 8 ∉ m1.whitelist := by
  have hw := whitelisted_iff_guarV1_full id m1 1 (full_of_A m1_reachFullA) (by decide +kernel)
    (fun hh => absurd hh (by decide +kernel))
  refine ⟨(hw 6).2 ⟨_, rfl, by decide +kernel⟩, fun h8 => ?_⟩
  obtain ⟨st, h1, _⟩ := (hw 8).1 h8
  have h2 : m1.uts 8 = none := by decide +kernel
  rw [h2] at h1; cases h1

/-- `setSchedule1_only_before_release_guarV1_full` on `m1 → n2` -/
example : n2.sched1 = some wSched ∧ validSched1 wSched := by
  have hs : step id m1 { caller := 1, round := 1 } (.setSchedule1 16 2500 3 2500 10)
      = .ok (n2, outOf (step id m1 { caller := 1, round := 1 } (.setSchedule1 16 2500 3 2500 10))) :=
    step_ok_of_isOk m1 (by decide +kernel)
  exact (setSchedule1_only_before_release_guarV1_full id m1 1 (full_of_A m1_reachFullA)
    { caller := 1, round := 1 } 16 2500 3 2500 10 n2 _ (by decide +kernel) hs).2

/-- `deposit_is_perTicket_times_T0_guarV1_full` on `n2 → n3`: the deposit is `20 × 2`, the ghost's
    reserve ticket included (`n2.nrWinning = 0`, `n2.totalGuaranteed = 2`) -/
example : n3.totalDeposited = n2.perTicket * wArgs.nrWinning ∧ n2.nrWinning = 0 := by
  have hs : step id n2 { caller := 1, round := 2, esdts := [⟨.esdt 1, 0, 40⟩] } .deposit
      = .ok (n3, outOf (step id n2 { caller := 1, round := 2, esdts := [⟨.esdt 1, 0, 40⟩] } .deposit)) :=
    step_ok_of_isOk n2 (by decide +kernel)
  exact ⟨(deposit_is_perTicket_times_T0_guarV1_full id wArgs n2 1 n2_reachFullA _ n3 _ (by decide +kernel) hs).1,
    by decide +kernel⟩

/-- `interrupted_distribute_keeps_pre_guarV1_full`: the `distribute` call with budget `0` on `n6`
    is accepted, does not complete, and the selection-phase ledger equation still holds -/
example : ¬ AllDone d7 ∧ ∃ L : List Nat, Covers d7 L ∧ PayEqPre d7 L := by
  have hs : step id n6 { caller := 9, round := 12, budget := some 0 } .distribute
      = .ok (d7, outOf (step id n6 { caller := 9, round := 12, budget := some 0 } .distribute)) :=
    step_ok_of_isOk n6 (by decide +kernel)
  have hnd : ¬ AllDone d7 := fun hd => absurd hd.2 (by decide +kernel)
  exact ⟨hnd, interrupted_distribute_keeps_pre_guarV1_full id n6 11 (full_of_A n6_reachFullA) _ d7 _
    (by decide +kernel) (Or.inl rfl) hs hnd⟩

/-- `proceeds_until_withdrawal_guarV1_full` on `n9 → q10` (a claim) and `owner_withdrawal_guarV1_full`
    on `q10 → q11` -/
example : q10.claimablePayment = n9.claimablePayment ∧ AllDone q10 ∧
    q11.claimablePayment = 0 ∧ q11.totalDeposited = 0 ∧
    q11.bal (.esdt q10.lpTok) 0 + ownSurplus q10 = q10.bal (.esdt q10.lpTok) 0 ∧
    q11.bal q10.payTok 0 + q10.claimablePayment = q10.bal q10.payTok 0 := by
  have hs1 : step id n9 { caller := 7, round := 26 } .claim
      = .ok (q10, outOf (step id n9 { caller := 7, round := 26 } .claim)) :=
    step_ok_of_isOk n9 (by decide +kernel)
  have hs2 : step id q10 { caller := 1, round := 27 } .claimPayment
      = .ok (q11, outOf (step id q10 { caller := 1, round := 27 } .claimPayment)) :=
    step_ok_of_isOk q10 (by decide +kernel)
  obtain ⟨_, h2, h3⟩ := proceeds_until_withdrawal_guarV1_full id n9 17 (full_of_A n9_reachFullA)
    ⟨by decide +kernel, by decide +kernel⟩ _ _ q10 _ (by decide +kernel) hs1
  obtain ⟨_, k2, k3, _, k5, k6, _⟩ := owner_withdrawal_guarV1_full id q10 26 (full_of_A q10_reachFullA)
    _ q11 _ (by decide +kernel) (Or.inl rfl) hs2
  refine ⟨?_, h2, k2, k3, k5, k6⟩
  rcases h3 with h3 | ⟨h3, _⟩
  · exact h3
  · cases h3

/-- `vesting_path_independent_guarV1_full`: from `q10` (7 has settled, the confirmation period has
    started, the schedule is stored), after the owner's withdrawal, the claim at round 50
    (`start + 3 × 10 = 46 ≤ 50`) releases everything; `schedule_frozen_guarV1_full` from `n4` (the
    confirmation period has just started) to `q12`: eight accepted calls later the schedule is the
    same -/
example : q12.userClaimed 7 = q10.userTotal 7 ∧ q12.sched1 = some wSched ∧
    q12.cfg.conf = n4.cfg.conf := by
  have hl : g1_LaterFull id q10 26 q11 27 :=
    lF_callOk { caller := 1, round := 27 } .claimPayment .refl (by decide +kernel) (Or.inl rfl) (by decide +kernel)
  have hs : step id q11 { caller := 7, round := 50 } .claim
      = .ok (q12, outOf (step id q11 { caller := 7, round := 50 } .claim)) :=
    step_ok_of_isOk q11 (by decide +kernel)
  have h := vesting_path_independent_guarV1_full id q10 26 (full_of_A q10_reachFullA) wSched
    (by decide +kernel) (by decide +kernel) { caller := 7, round := 50 } (by decide +kernel) q11 27 hl q12 _ (by decide +kernel)
    (Or.inl rfl) hs
  have hc : ({ caller := 7, round := 50 } : Env).caller = 7 := rfl
  rw [hc] at h
  have hl4 : g1_LaterFull id n4 5 q12 50 :=
    lF_callOk { caller := 7, round := 50 } .claim
      (lF_callOk { caller := 1, round := 27 } .claimPayment
        (lF_callOk { caller := 7, round := 26 } .claim
          (lF_callOk { caller := 6, round := 17 } .claim
            (lF_callOk { caller := 6, round := 16 } .claim
              (lF_callOk { caller := 9, round := 12 } .distribute
                (lF_callOk { caller := 9, round := 11 } .select
                  (lF_callOk { caller := 9, round := 10 } .filter .refl
                    (by decide +kernel) (Or.inl rfl) (by decide +kernel))
                  (by decide +kernel) (Or.inl rfl) (by decide +kernel))
                (by decide +kernel) (Or.inl rfl) (by decide +kernel))
              (by decide +kernel) (Or.inl rfl) (by decide +kernel))
            (by decide +kernel) (Or.inl rfl) (by decide +kernel))
          (by decide +kernel) (Or.inl rfl) (by decide +kernel))
        (by decide +kernel) (Or.inl rfl) (by decide +kernel))
      (by decide +kernel) (Or.inl rfl) (by decide +kernel)
  have hf := schedule_frozen_guarV1_full id n4 5 wSched (by decide +kernel) (by decide +kernel) q12 50 hl4
  exact ⟨h.2.2.2.2.2 (Or.inl (by decide +kernel)), h.2.1, hf.2⟩

/-- `later_amount_guarV1_full` for the former GHOST 6 (settled in `n8` with entitlement `0`): four
    accepted calls later its entitlement and booked amount are still `0` -/
example : q12.userTotal 6 = n8.userTotal 6 ∧ q12.userClaimed 6 ≤ n8.userTotal 6 ∧ n8.userTotal 6 = 0 := by
  have hl : g1_LaterFull id n8 16 q12 50 :=
    lF_callOk { caller := 7, round := 50 } .claim
      (lF_callOk { caller := 1, round := 27 } .claimPayment
        (lF_callOk { caller := 7, round := 26 } .claim
          (lF_callOk { caller := 6, round := 17 } .claim .refl
            (by decide +kernel) (Or.inl rfl) (by decide +kernel))
          (by decide +kernel) (Or.inl rfl) (by decide +kernel))
        (by decide +kernel) (Or.inl rfl) (by decide +kernel))
      (by decide +kernel) (Or.inl rfl) (by decide +kernel)
  have h := later_amount_guarV1_full id n8 16 (full_of_A n8_reachFullA) wSched (by decide +kernel) (by decide +kernel)
    6 (by decide +kernel) q12 50 hl
  exact ⟨h.1, h.2.2.2.1, by decide +kernel⟩

/-- the hypotheses of `lp_nothing_left_guarV1_full` hold in `q12` for the two participants (6, 7)
    and its conclusion holds there -/
example : AllDone q12 ∧ q12.range 6 = none ∧ q12.range 7 = none ∧
    q12.userClaimed 6 = q12.userTotal 6 ∧ q12.userClaimed 7 = q12.userTotal 7 ∧
    q12.totalDeposited = 0 ∧ q12.bal (.esdt q12.lpTok) 0 = 0 := by
  refine ⟨⟨by decide +kernel, by decide +kernel⟩, by decide +kernel, by decide +kernel, by decide +kernel, by decide +kernel, by decide +kernel, by decide +kernel⟩

end LP.Props.C01zeroG1more

#print axioms LP.Props.C01zeroG1more.later_is_laterFull
#print axioms LP.Props.C01zeroG1more.proceeds_until_withdrawal_guarV1_full
#print axioms LP.Props.C01zeroG1more.interrupted_distribute_keeps_pre_guarV1_full
#print axioms LP.Props.C01zeroG1more.whitelisted_iff_guarV1_full
#print axioms LP.Props.C01zeroG1more.owner_withdrawal_guarV1_full
#print axioms LP.Props.C01zeroG1more.vesting_path_independent_guarV1_full
#print axioms LP.Props.C01zeroG1more.later_amount_guarV1_full
#print axioms LP.Props.C01zeroG1more.lp_nothing_left_guarV1_full
#print axioms LP.Props.C01zeroG1more.deposit_is_perTicket_times_T0_guarV1_full
#print axioms LP.Props.C01zeroG1more.schedule_frozen_guarV1_full
#print axioms LP.Props.C01zeroG1more.setSchedule1_only_before_release_guarV1_full
#print axioms LP.Props.C01zeroG1more.q10_reachFullA
#print axioms LP.Props.C01zeroG1more.q11_reachFullA
#print axioms LP.Props.C01zeroG1more.q12_reachFullA
#print axioms LP.Props.C01zeroG1more.full_of_A
#print axioms LP.Props.C01zeroG1more.lF_callOk
