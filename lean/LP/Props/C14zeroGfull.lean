import LP.Proofs.ZeroAllocNGFull5
/-
  C14 / C01 / C02 / C03 / C11 / C12 for `Variant.nftGuar` (launchpad-nft-and-guaranteed-tickets)
  WITHOUT ANY RESTRICTION ON THE ALLOCATION ENTRIES.

  `ng_ReachZ hash s r` / `ng_ReachZA hash a0 s r` (LP/Proofs/ZeroAllocNG.lean) are `ng_Reach` /
  `ng_ReachA` without the premise `v1_CallOK c`: an `addTicketsV1` entry may be `(a, 0, 0, m)` for
  EITHER value of the migration flag `m`.  `EnvOK` is kept.  LP/Props/C14zeroG.lean covered
  `m = false` by erasure and proved that `m = true` — a GHOST GUARANTEE: `a` is whitelisted, one
  ticket moves from `nrWinning` to `totalGuaranteed`, but `a` owns no ticket and can never confirm —
  cannot be simulated by erasure.  This file closes that gap with the method of
  LP/Props/C01zeroV1.lean (v1 family).

  METHOD (LP/Proofs/ZeroAllocNGFull.lean … ZeroAllocNGFull5.lean): the invariant
  `zk_Inv T0 s r` holds in every `ng_ReachZA` state (`simulation`):
    * before the first `filter` call (`zk_PA`): the SHADOW `zv_sh s U BU N TG` — `s` with the empty
      ranges / zero-size batches erased and the guarantee bookkeeping (whitelist, records, reserve)
      replaced by a guarantee-free one — satisfies the invariant `ng_WF` of the original development
      and takes REAL steps of it (`addTicketsV1 (zv_lst l)`: zero-size entries dropped, guarantees
      stripped; `blacklist` restricted to the holders of non-empty ranges, the NFT-fee refunds being
      the same; every other call unchanged); the reserve part is `GuarInvX s` (C12) on the REAL state
      plus `nrWinning + totalGuaranteed = T0`;
    * from the first `filter` call on: `s` is `ZSimG`-related, with EQUAL guarantee records (hence
      `ZSim`-related: only empty ranges / zero-size batches erased, the whole guarantee bookkeeping
      — ghosts included — kept), to a state `z` satisfying `ng_WF`; `z` takes the same step as `s`
      (`filter`, `select`, `secondary` interrupted in any of its three loops, `claim`,
      `claimPayment`, setters), except that a claim by an empty-range address is matched by NO step.
  With ghost guarantees `z` is in general NOT an `ng_Reach` state (whitelisted address without any
  allocation history), but it satisfies the inductive invariant `ng_WF`, from which every headline
  theorem of LP/Props/C14reachG.lean is derived; they are transferred below to EVERY `ng_ReachZ`
  state:
    1  `ng_solvent_general_Z`, `ng_solvent_separate_Z`, `ng_fee_ledger_Z`, `ng_solvent_same_Z`,
       `ng_three_counts_Z`, `ng_claim_refund_covered_Z`
    2  `ng_final_winners_Z`, `ng_guarantee_honoured_Z`, `ng_draw_completion_Z`,
       `ng_secondary_ret_Z`, `ng_winners_bound_Z`, `ng_nft_lists_Z`, `ng_draw_from_start_Z`,
       `ng_participants_frozen_Z`, `ng_draw_end_to_end_Z` (relation `ng_LaterZ`: any accepted calls,
       no restriction on allocation entries), `ng_all_settled_lists_empty_Z`, `ng_nothing_left_Z`
    3  `ng_lp_cover_Z`, `ng_reserve_Z`, `ng_whitelisted_iff_Z`, `ng_owner_surplus_Z`,
       `ng_lp_zero_at_end_Z`
    4  `empty_range_claim_Z`, `claim_never_starves_Z`
  NOT transferred (false here): the two clauses of `ng_nft_lists` on the `claimed` flags — an
  empty-range address may have "claimed".  Statements that mention "all ranges settled" are given
  with "all remaining ranges are empty" (stale empty ranges of addresses that never claim remain).
  Non-vacuity: the history `m1 … m12` of LP/Props/C14zeroG.lean (entry `(5, 0, 0, true)`), extended
  by the ghost's claim `m13`; `mb`: the ghost blacklisted before the filter.
-/
namespace LP.Props.C14zeroGfull
open LP LP.FY LP.Props.C09 LP.Props.C14 LP.Props.C01reach LP.Props.C14reach LP.Props.C14reachG
open LP.Props.C14zeroG

/-! ### 0. the simulation -/

/-- **SIMULATION INVARIANT** for every state reachable with arbitrary allocation entries -/
theorem simulation (hash : List Nat → List Nat) (a0 : InitArgs) (s : State) (r : Nat)
    (h : ng_ReachZA hash a0 s r) : zk_Inv a0.nrWinning s r :=
  zk_sim h

/-- before the first `filter` call: the shadow (no empty range, no zero-size batch, no guarantee)
    satisfies the invariant of the original development; the C12 reserve invariant holds on the
    real state and the reserve is conserved -/
theorem simulation_before_filter (hash : List Nat → List Nat) (a0 : InitArgs) (s : State) (r : Nat)
    (h : ng_ReachZA hash a0 s r) (hns : s.flags.started = false) :
    (∃ U BU N TG, ng_WF a0.nrWinning (zv_sh s U BU N TG) r) ∧ GuarInvX s ∧
    s.nrWinning + s.totalGuaranteed = a0.nrWinning := by
  rcases zk_sim h with h1 | ⟨h1, _⟩
  · obtain ⟨U, BU, N, TG, hwf, _⟩ := h1.sh
    exact ⟨⟨U, BU, N, TG, hwf⟩, h1.gx, h1.sum⟩
  · rw [hns] at h1; cases h1

/-- from the first `filter` call on: `ZSim`-related (empty ranges / zero-size batches erased,
    EVERY other field — the guarantee bookkeeping with its ghosts included — equal) to a state
    satisfying the invariant of the original development -/
theorem simulation_after_filter (hash : List Nat → List Nat) (a0 : InitArgs) (s : State) (r : Nat)
    (h : ng_ReachZA hash a0 s r) (hst : s.flags.started = true) :
    ∃ z, ng_WF a0.nrWinning z r ∧ ZSim s z := by
  obtain ⟨z, hz, hsim, hu⟩ := zk_Inv_started (zk_sim h) hst
  refine ⟨z, hz, ?_, hsim.range, hsim.batch, hsim.bl, hsim.cl⟩
  have := hsim.rest
  rw [hu] at this
  exact this

/-- the states of the original development, and those of LP/Props/C14zeroG.lean, are among the
    new ones -/
theorem reach_is_reachZ (hash : List Nat → List Nat) (s : State) (r : Nat) (h : ng_Reach hash s r) :
    ng_ReachZ hash s r := h.toG.toZ

/-- the additional step cannot be complete before the lottery is -/
theorem additional_implies_selected_Z (hash : List Nat → List Nat) (s : State) (r : Nat)
    (h : ng_ReachZ hash s r) (ha : s.flags.additional = true) : s.flags.selected = true := by
  obtain ⟨a0, h⟩ := ng_ReachZ_iff.mp h
  obtain ⟨R, B, K, C, X, W, U, BU, N, TG, hwf⟩ := zk_Inv_shape (zk_sim h)
  exact (ng_phase_D hwf.phase ha).selected

/-! ### 1. ticket-payment solvency and the fee ledger -/

/-- **general form**, arbitrary allocation entries: same statement as `ng_solvent_general` -/
theorem ng_solvent_general_Z (hash : List Nat → List Nat) (s : State) (r : Nat)
    (h : ng_ReachZ hash s r) :
    ∃ L : List Nat, Covers s L ∧
      (¬ AllDone s → s.bal s.payTok 0 = s.price * sumOver s.confirmed L + feeInPay s) ∧
      (AllDone s → s.bal s.payTok 0 = s.claimablePayment + sumOver (refundDue s) L + feeInPay s) := by
  obtain ⟨a0, h⟩ := ng_ReachZ_iff.mp h
  obtain ⟨L, h1, h2, h3⟩ := zk_Inv_ledger (zk_sim h)
  exact ⟨L, h1, h2, fun hd => (h3 hd).1⟩

/-- **(a) fee token separate** -/
theorem ng_solvent_separate_Z (hash : List Nat → List Nat) (s : State) (r : Nat)
    (h : ng_ReachZ hash s r) (hsep : FeeTokenSeparate s) :
    ∃ L : List Nat, Covers s L ∧ (¬ AllDone s → PayEqPre s L) ∧ (AllDone s → PayEqPost s L) := by
  obtain ⟨L, h1, h2, h3⟩ := ng_solvent_general_Z hash s r h
  have hz : feeInPay s = 0 := by
    have hn : ¬ FeeInPayToken s := hsep.1
    unfold feeInPay; rw [if_neg hn]
  rw [hz] at h2 h3
  exact ⟨L, h1, fun hd => h2 hd, fun hd => h3 hd⟩

/-- **(a) the fee ledger** -/
theorem ng_fee_ledger_Z (hash : List Nat → List Nat) (s : State) (r : Nat)
    (h : ng_ReachZ hash s r) (hsep : FeeTokenSeparate s) : feeBal s = feeHeld s := by
  obtain ⟨a0, h⟩ := ng_ReachZ_iff.mp h
  obtain ⟨R, B, K, C, X, W, U, BU, N, TG, hwf⟩ := zk_Inv_shape (zk_sim h)
  exact hwf.side.feeEq hsep.1 hsep.2

/-- **(b) fee token = ticket-payment token**: the combined ledger -/
theorem ng_solvent_same_Z (hash : List Nat → List Nat) (s : State) (r : Nat)
    (h : ng_ReachZ hash s r) (hsame : FeeInPayToken s) :
    ∃ L : List Nat, Covers s L ∧ (¬ AllDone s → CombinedPre s L) ∧ (AllDone s → CombinedPost s L) := by
  obtain ⟨L, h1, h2, h3⟩ := ng_solvent_general_Z hash s r h
  have hz : feeInPay s = feeHeld s := by unfold feeInPay; rw [if_pos hsame]
  rw [hz] at h2 h3
  refine ⟨L, h1, fun hd => ?_, fun hd => ?_⟩
  · have hna : s.flags.additional = false := by
      cases hq : s.flags.additional with
      | false => rfl
      | true => exact absurd ⟨additional_implies_selected_Z hash s r h hq, hq⟩ hd
    have := h2 hd
    unfold feeHeld at this
    rw [hna] at this
    exact this
  · have := h3 hd
    unfold feeHeld at this
    rw [hd.2] at this
    unfold CombinedPost
    simp only [if_true] at this
    omega

/-- after completion: the winners still held add up to `nrWinning`; nobody holds more winning than
    confirmed tickets; every range — empty or not — has exactly `confirmed` tickets, and the
    holders of NON-EMPTY ranges are in the covering list -/
theorem ng_three_counts_Z (hash : List Nat → List Nat) (s : State) (r : Nat)
    (h : ng_ReachZ hash s r) (hd : AllDone s) :
    ∃ L : List Nat, Covers s L ∧
      s.bal s.payTok 0 = s.claimablePayment + sumOver (refundDue s) L + feeInPay s ∧
      sumOver (winCountOf s) L = s.nrWinning ∧
      (∀ a, winCountOf s a ≤ s.confirmed a) ∧
      (∀ a rg, s.range a = some rg → rangeLen rg = s.confirmed a ∧ (rg.first ≤ rg.last → a ∈ L)) := by
  obtain ⟨a0, h⟩ := ng_ReachZ_iff.mp h
  obtain ⟨L, h1, _, h3⟩ := zk_Inv_ledger (zk_sim h)
  obtain ⟨k1, k2, k3, k4⟩ := h3 hd
  exact ⟨L, h1, k1, k2, k3, k4⟩

/-- after completion the payment-token holdings cover the owner's proceeds, the ticket refund of
    ANY holder of a range (empty or not), and all NFT fees held in the same slot -/
theorem ng_claim_refund_covered_Z (hash : List Nat → List Nat) (s : State) (r : Nat)
    (h : ng_ReachZ hash s r) (hd : AllDone s) (a : Nat) (rg : Range) (hr : s.range a = some rg) :
    s.claimablePayment + s.price * (s.confirmed a - winCountOf s a) + feeInPay s
      ≤ s.bal s.payTok 0 := by
  obtain ⟨L, _, hpost, _, _, hrg⟩ := ng_three_counts_Z hash s r h hd
  obtain ⟨k1, k2⟩ := hrg a rg hr
  by_cases hne : rg.first ≤ rg.last
  · have hle := rb_le_sumOver (refundDue s) L a (k2 hne)
    have hdue : refundDue s a = s.price * (s.confirmed a - winCountOf s a) := by
      simp only [refundDue, hr]
    omega
  · have hc : s.confirmed a = 0 := by rw [← k1]; unfold rangeLen; omega
    rw [hc]
    simp only [Nat.zero_sub, Nat.mul_zero, Nat.add_zero]
    omega

/-! ### 2. the completed additional step (conditional on the call having completed, as in
  LP/Props/C14reachG.lean: the v1 leftover loop may spin) -/

/-- **final ticket winners** (same statement as `ng_final_winners_partial`) from every
    `ng_ReachZA` state: the reserve tickets of the ghost guarantees are re-drawn as leftovers,
    nothing of the reserve is lost -/
theorem ng_final_winners_Z (hash : List Nat → List Nat) (a0 : InitArgs) (s : State) (r : Nat)
    (h : ng_ReachZA hash a0 s r) (e : Env) (s' : State) (o : Out) (hr : r ≤ e.round) (hok : EnvOK e)
    (hs : step hash s e .secondary = .ok (s', o)) (hret : o.ret = [0]) :
    AllDone s' ∧
    countTrue s'.status s'.lastTicketId = s'.nrWinning ∧
    s'.nrWinning = min a0.nrWinning s'.lastTicketId ∧
    s'.claimablePayment = s'.price * s'.nrWinning ∧
    (∀ t, s'.status t = true → 1 ≤ t ∧ t ≤ s'.lastTicketId) ∧
    (∀ t, s.status t = true → s'.status t = true) := by
  obtain ⟨z, z', hz, hsim, _, hsim', _, hstep⟩ := zk_Inv_secondary (zk_sim h) hr hok hs
  obtain ⟨h1, h2, _, _, h5, h6, h7, h8, h9, _⟩ := ng_secondary_completion hz hr hstep hret
  obtain ⟨R, B, K, C, U, rfl⟩ := hsim.shape'
  obtain ⟨R', B', K', C', U', rfl⟩ := hsim'.shape'
  exact ⟨⟨h1, h2⟩, h5, h6, h7, h8, h9⟩

/-- **guarantees honoured** (same statement as `ng_guarantee_honoured`): for a ghost record
    `{0,0,0,1}` the bound is `min 1 0 = 0` -/
theorem ng_guarantee_honoured_Z (hash : List Nat → List Nat) (a0 : InitArgs) (s : State) (r : Nat)
    (h : ng_ReachZA hash a0 s r) (e : Env) (s' : State) (o : Out) (hr : r ≤ e.round) (hok : EnvOK e)
    (hs : step hash s e .secondary = .ok (s', o)) (hret : o.ret = [0]) :
    (∀ u st, s'.uts u = some st →
      min (calcV1 st (s'.confirmed u) s'.minConfirmed).1 (s'.confirmed u) ≤ winCountOf s' u) ∧
    (∀ t, s'.status t = true → 1 ≤ t ∧ t ≤ s'.lastTicketId) := by
  obtain ⟨z, z', hz, hsim, _, hsim', hu', hstep⟩ := zk_Inv_secondary (zk_sim h) hr hok hs
  obtain ⟨_, _, _, _, _, _, _, h8, _, h10, _⟩ := ng_secondary_completion hz hr hstep hret
  have hwc : ∀ a, winCountOf s' a = winCountOf z' a := fun a => winCountOf_eq hsim' a
  obtain ⟨R', B', K', C', U', rfl⟩ := hsim'.shape'
  refine ⟨fun u st hu => ?_, h8⟩
  rw [hwc u]
  exact h10 u st (by rw [← hu]; exact congrFun hu' u)

/-- **the NFT draw at completion** (same statement as `ng_draw_completion`) -/
theorem ng_draw_completion_Z (hash : List Nat → List Nat) (a0 : InitArgs) (s : State) (r : Nat)
    (h : ng_ReachZA hash a0 s r) (e : Env) (s' : State) (o : Out) (hr : r ≤ e.round) (hok : EnvOK e)
    (hs : step hash s e .secondary = .ok (s', o)) (hret : o.ret = [0]) :
    s'.nftWinners.length = min s.availNfts (s.payers.length + s.nftWinners.length) ∧
    s'.claimableNft = s.nftCost.amount * s'.nftWinners.length ∧
    NftOk s' ∧ (∀ a, (a ∈ s'.payers ∨ a ∈ s'.nftWinners) ↔ (a ∈ s.payers ∨ a ∈ s.nftWinners)) ∧
    s.nftWinners <+: s'.nftWinners ∧ AllDone s' := by
  obtain ⟨z, z', hz, hsim, _, hsim', _, hstep⟩ := zk_Inv_secondary (zk_sim h) hr hok hs
  obtain ⟨h1, h2, _, _, _, _, _, _, _, _, h11, h12, h13, h14, h15⟩ :=
    ng_secondary_completion hz hr hstep hret
  obtain ⟨R, B, K, C, U, rfl⟩ := hsim.shape'
  obtain ⟨R', B', K', C', U', rfl⟩ := hsim'.shape'
  exact ⟨h11, h12, ⟨h13.nodupP, h13.nodupW, h13.disj⟩, h14, h15, ⟨h1, h2⟩⟩

/-- an accepted `secondary` call returns `[0]` exactly when it completes the additional step -/
theorem ng_secondary_ret_Z (hash : List Nat → List Nat) (a0 : InitArgs) (s : State) (r : Nat)
    (h : ng_ReachZA hash a0 s r) (e : Env) (s' : State) (o : Out) (hr : r ≤ e.round) (hok : EnvOK e)
    (hs : step hash s e .secondary = .ok (s', o)) :
    (o.ret = [0] ∧ s'.flags.additional = true) ∨ (o.ret = [1] ∧ s'.flags.additional = false) := by
  obtain ⟨z, z', hz, hsim, _, hsim', _, hstep⟩ := zk_Inv_secondary (zk_sim h) hr hok hs
  have := ng_secondary_interrupted hz hr hstep
  obtain ⟨R', B', K', C', U', rfl⟩ := hsim'.shape'
  exact this

/-- during the additional step the number of winning flags is between the stored winners and
    `min T0 lastTicketId`, and every flag lies in `1..lastTicketId` -/
theorem ng_winners_bound_Z (hash : List Nat → List Nat) (a0 : InitArgs) (s : State) (r : Nat)
    (h : ng_ReachZA hash a0 s r) (hsel : s.flags.selected = true) (hna : s.flags.additional = false) :
    s.nrWinning ≤ countTrue s.status s.lastTicketId ∧
    countTrue s.status s.lastTicketId ≤ min a0.nrWinning s.lastTicketId ∧
    (∀ t, s.status t = true → 1 ≤ t ∧ t ≤ s.lastTicketId) := by
  obtain ⟨z, hz, hsim, _⟩ := zk_Inv_selected (zk_sim h) hsel
  have hfl : z.flags = s.flags := hsim.fields.2.1
  have := ng_winners_bound hz (by rw [hfl]; exact hsel) (by rw [hfl]; exact hna)
  obtain ⟨R, B, K, C, U, rfl⟩ := hsim.shape'
  exact this

/-- the two NFT lists in every `ng_ReachZ` state (the two clauses of `ng_nft_lists` on the
    `claimed` flags are not transferred: an empty-range address may have "claimed") -/
theorem ng_nft_lists_Z (hash : List Nat → List Nat) (s : State) (r : Nat)
    (h : ng_ReachZ hash s r) :
    NftOk s ∧ s.nftWinners.length ≤ s.availNfts ∧
    (∀ a, a ∈ s.payers ∨ a ∈ s.nftWinners → 0 < s.confirmed a) ∧
    (s.flags.selected = false → s.nftWinners = []) ∧
    (s.flags.additional = false → (∀ rg, s.op ≠ .additional (.nft rg)) → s.nftWinners = []) := by
  obtain ⟨a0, h⟩ := ng_ReachZ_iff.mp h
  obtain ⟨R, B, K, C, X, W, U, BU, N, TG, hwf⟩ := zk_Inv_shape (zk_sim h)
  have hs := hwf.side
  exact ⟨⟨hs.nodupP, hs.nodupW, hs.disj⟩, hs.winLe, hs.conf, hs.noWin, hwf.noWinE⟩

/-- until the guaranteed-ticket sub-step of `secondary` is complete nobody is drawn; hence a
    `secondary` call that starts the draw and completes it in the same call leaves exactly
    `min availNfts (number of fee payers)` winners, all of them fee payers (same statement as
    `ng_draw_from_start`) -/
theorem ng_draw_from_start_Z (hash : List Nat → List Nat) (a0 : InitArgs) (s : State) (r : Nat)
    (h : ng_ReachZA hash a0 s r) (hop : ∀ rg, s.op ≠ .additional (.nft rg)) (e : Env) (s' : State)
    (o : Out) (hr : r ≤ e.round) (hok : EnvOK e)
    (hs : step hash s e .secondary = .ok (s', o)) (hret : o.ret = [0]) :
    s.nftWinners = [] ∧
    s'.nftWinners.length = min s.availNfts s.payers.length ∧
    (∀ a, (a ∈ s'.payers ∨ a ∈ s'.nftWinners) ↔ a ∈ s.payers) ∧
    s'.payers.length + s'.nftWinners.length = s.payers.length := by
  have hna := (LP.Props.C06.additional_gate hash s e .secondary _ (Or.inr (Or.inr rfl)) hs).2.2
  obtain ⟨hok0, _, _, _, hnw⟩ := ng_nft_lists_Z hash s r (ng_ReachZ_iff.mpr ⟨a0, h⟩)
  have hw0 : s.nftWinners = [] := hnw hna hop
  obtain ⟨h1, _, h3, h4, _, _⟩ := ng_draw_completion_Z hash a0 s r h e s' o hr hok hs hret
  have hlen := ng_len_of_union (P := s.payers) (W := s.nftWinners) hok0.nodupP hok0.nodupW hok0.disj
    h3.nodupP h3.nodupW h3.disj h4
  rw [hw0] at h1 h4 hlen
  simp only [List.length_nil, Nat.add_zero, List.not_mem_nil, or_false] at h1 h4 hlen
  exact ⟨hw0, h1, h4, hlen⟩

/-- from the start of the filter until the additional step completes the NFT participants cannot
    change: along ANY accepted calls (`ng_LaterZ`: no restriction on allocation entries),
    `payers ∪ nftWinners`, its size, the fee and `availNfts` are constant and already drawn
    participants stay drawn -/
theorem ng_participants_frozen_Z (hash : List Nat → List Nat) (a0 : InitArgs) (s : State) (r : Nat)
    (h : ng_ReachZA hash a0 s r) (hstd : s.flags.started = true) (s2 : State) (r2 : Nat)
    (hl : ng_LaterZ hash s r s2 r2) (hna : s2.flags.additional = false) :
    nf_Frozen s s2 :=
  ((zk_later_frozen h hstd hl).2 hna).1

/-- **the NFT draw end to end** (same statement as `ng_draw_end_to_end`, for `ng_ReachZA` /
    `ng_LaterZ`): `s` is any reachable state after the filter has started and before the base
    lottery is complete.  After ANY accepted calls, the `secondary` call that returns `[0]` leaves
    exactly `min availNfts (number of fee payers)` NFT winners, all distinct, all fee payers; the
    others remain in `payers`; the owner's NFT proceeds are fee × winners -/
theorem ng_draw_end_to_end_Z (hash : List Nat → List Nat) (a0 : InitArgs) (s : State) (r : Nat)
    (h : ng_ReachZA hash a0 s r) (hstd : s.flags.started = true) (hns : s.flags.selected = false)
    (s1 : State) (r1 : Nat) (hl : ng_LaterZ hash s r s1 r1)
    (e : Env) (s2 : State) (o : Out) (hr1 : r1 ≤ e.round) (hok : EnvOK e)
    (hs : step hash s1 e .secondary = .ok (s2, o)) (hret : o.ret = [0]) :
    s2.nftWinners.length = min s.availNfts s.payers.length ∧
    s2.claimableNft = s.nftCost.amount * s2.nftWinners.length ∧
    s2.nftWinners.Nodup ∧ s2.payers.Nodup ∧ (∀ a, a ∈ s2.payers → a ∉ s2.nftWinners) ∧
    (∀ a, (a ∈ s2.payers ∨ a ∈ s2.nftWinners) ↔ a ∈ s.payers) ∧
    s2.payers.length + s2.nftWinners.length = s.payers.length := by
  obtain ⟨hr1', hfz⟩ := zk_later_frozen h hstd hl
  have hw0 : s.nftWinners = [] :=
    (ng_nft_lists_Z hash s r (ng_ReachZ_iff.mpr ⟨a0, h⟩)).2.2.2.1 hns
  have hna1 := (LP.Props.C06.additional_gate hash s1 e .secondary _ (Or.inr (Or.inr rfl)) hs).2.2
  obtain ⟨hF, _⟩ := hfz hna1
  obtain ⟨hok1, _⟩ := ng_nft_lists_Z hash s1 r1 (ng_ReachZ_iff.mpr ⟨a0, hr1'⟩)
  obtain ⟨f1, f2, hok2, hun2, _, _⟩ := ng_draw_completion_Z hash a0 s1 r1 hr1' e s2 o hr1 hok hs hret
  have hlen2 := ng_len_of_union (P := s1.payers) (W := s1.nftWinners) hok1.nodupP hok1.nodupW
    hok1.disj hok2.nodupP hok2.nodupW hok2.disj hun2
  have hlen : s1.payers.length + s1.nftWinners.length = s.payers.length := by
    rw [hF.len, hw0]; simp
  refine ⟨by rw [f1, hF.avail, hlen], by rw [f2, hF.cost], hok2.nodupW, hok2.nodupP, hok2.disj, ?_,
    by rw [hlen2, hlen]⟩
  intro a
  rw [hun2 a, hF.mem a, hw0]
  simp

/-- after completion, once every holder of a NON-EMPTY range has settled, nobody has confirmed
    tickets, hence both NFT lists are empty -/
theorem ng_all_settled_lists_empty_Z (hash : List Nat → List Nat) (s : State) (r : Nat)
    (h : ng_ReachZ hash s r) (hd : AllDone s)
    (hall : ∀ a rg, s.range a = some rg → rg.last < rg.first) :
    (∀ a, s.confirmed a = 0) ∧ s.payers = [] ∧ s.nftWinners = [] := by
  obtain ⟨_, _, hconf, _⟩ := ng_nft_lists_Z hash s r h
  obtain ⟨a0, h0⟩ := ng_ReachZ_iff.mp h
  obtain ⟨z, hz, hsim, _⟩ := zk_Inv_selected (zk_sim h0) hd.1
  have hdz : AllDone z := (allDone_iff hsim).mpr hd
  have hcf : z.confirmed = s.confirmed := hsim.fields.2.2.2.2.1
  have hzc : ∀ a, s.confirmed a = 0 := by
    intro a
    rw [← hcf]
    apply (ng_phase_D hz.phase hdz.2).rngNone a
    show z.range a = none
    rw [hsim.range]
    cases hra : s.range a with
    | none => exact z_eraseR_of_none hra
    | some rg => exact z_eraseR_of_empty hra (by have := hall a rg hra; omega)
  refine ⟨hzc, ?_, ?_⟩
  · cases hp : s.payers with
    | nil => rfl
    | cons a rest =>
      have := hconf a (Or.inl (by rw [hp]; simp))
      rw [hzc a] at this; cases this
  · cases hp : s.nftWinners with
    | nil => rfl
    | cons a rest =>
      have := hconf a (Or.inr (by rw [hp]; simp))
      rw [hzc a] at this; cases this

/-- **nothing is left** (both token configurations; cf. `ng_nothing_left_separate`,
    `ng_nothing_left_same`): after all claims of the holders of non-empty ranges and the owner's
    withdrawal the payment-token slot is empty, and with a separate fee token so is the fee slot -/
theorem ng_nothing_left_Z (hash : List Nat → List Nat) (s : State) (r : Nat)
    (h : ng_ReachZ hash s r) (hd : AllDone s)
    (hall : ∀ a rg, s.range a = some rg → rg.last < rg.first)
    (hcp : s.claimablePayment = 0) (hcn : s.claimableNft = 0) :
    s.bal s.payTok 0 = 0 ∧ (FeeTokenSeparate s → feeBal s = 0) := by
  obtain ⟨hzc, hp, _⟩ := ng_all_settled_lists_empty_Z hash s r h hd hall
  have hheld : feeHeld s = 0 := by
    unfold feeHeld
    rw [hd.2, hcn, hp]; simp
  obtain ⟨L, _, _, h3⟩ := ng_solvent_general_Z hash s r h
  have hfee : feeInPay s = 0 := by
    unfold feeInPay
    split
    · exact hheld
    · rfl
  have hsum : sumOver (refundDue s) L = 0 := by
    apply sumOver_zero
    intro a _
    unfold refundDue
    cases s.range a with
    | none => rfl
    | some rg => simp [hzc a]
  refine ⟨by rw [h3 hd, hcp, hsum, hfee], fun hsep => ?_⟩
  rw [ng_fee_ledger_Z hash s r h hsep]
  exact hheld

/-! ### 3. the launchpad-token side and the reserve -/

/-- **`LpCover` from the deposit on** (same statement as `ng_lp_cover`): until the
    guaranteed-ticket sub-step is complete the launchpad tokens cover the whole reserve, ghost
    guarantees included -/
theorem ng_lp_cover_Z (hash : List Nat → List Nat) (s : State) (r : Nat)
    (h : ng_ReachZ hash s r) (hd : s.deposited = true) (hnl : ¬ FeeInLpToken s) :
    LP.Props.C02.LpCover s ∧
    (s.flags.additional = false → (∀ rg, s.op ≠ .additional (.nft rg)) →
      s.perTicket * (s.nrWinning + s.totalGuaranteed) ≤ s.bal (.esdt s.lpTok) 0) := by
  obtain ⟨a0, h⟩ := ng_ReachZ_iff.mp h
  have hlp := zk_Inv_lp (zk_sim h) hd hnl
  constructor
  · unfold LP.Props.C02.LpCover
    refine Nat.le_trans (Nat.mul_le_mul_left _ ?_) hlp
    unfold ng_owed v1_owed
    split <;> omega
  · intro hna hop
    rw [ng_owed_of_not hop] at hlp
    unfold v1_owed at hlp
    rw [hna] at hlp
    simpa using hlp

/-- **reserve conservation** (same statement as `ng_reserve`): `nrWinning + totalGuaranteed` is the
    configured number of winners until the filter completes — ghost guarantees included — and at
    most that afterwards -/
theorem ng_reserve_Z (hash : List Nat → List Nat) (a0 : InitArgs) (s : State) (r : Nat)
    (h : ng_ReachZA hash a0 s r) :
    (s.flags.filtered = false → s.nrWinning + s.totalGuaranteed = a0.nrWinning) ∧
    (s.flags.additional = false → (∀ rg, s.op ≠ .additional (.nft rg)) →
      s.nrWinning + s.totalGuaranteed ≤ a0.nrWinning) ∧
    (s.flags.additional = false → s.nrWinning ≤ a0.nrWinning) := by
  obtain ⟨h1, h2⟩ := zk_Inv_reserve (zk_sim h)
  refine ⟨h1, fun hna hop => ?_, fun hna => ?_⟩
  · have := h2 hna
    rw [ng_owed_of_not hop] at this
    unfold v1_owed at this
    rw [hna] at this
    simpa using this
  · have := h2 hna
    refine Nat.le_trans ?_ this
    unfold ng_owed v1_owed
    split <;> omega

/-- until the first `secondary` call is accepted the whitelist is exactly the set of holders of a
    positive guarantee — a ghost `{0,0,0,1}` IS whitelisted -/
theorem ng_whitelisted_iff_Z (hash : List Nat → List Nat) (s : State) (r : Nat)
    (h : ng_ReachZ hash s r) (hna : s.flags.additional = false)
    (hop : s.flags.selected = true → s.op = .none) (u : Nat) :
    u ∈ s.whitelist ↔ ∃ st, s.uts u = some st ∧ st.c + st.d > 0 := by
  obtain ⟨a0, h⟩ := ng_ReachZ_iff.mp h
  exact zk_Inv_whitelist (zk_sim h) hna hop u

/-- **the owner can withdraw only the surplus** (same statement as `ng_owner_surplus_reach`) -/
theorem ng_owner_surplus_Z (hash : List Nat → List Nat) (s : State) (r : Nat)
    (h : ng_ReachZ hash s r) (hnl : ¬ FeeInLpToken s) (e : Env) (s' : State) (o : Out)
    (hr : r ≤ e.round) (hok : EnvOK e)
    (hs : step hash s e .claimPayment = .ok (s', o)) :
    s'.bal (.esdt s'.lpTok) 0 = s'.perTicket * s'.nrWinning ∧ s'.nrWinning = s.nrWinning ∧
    s'.claimablePayment = 0 ∧ s'.claimableNft = 0 := by
  obtain ⟨a0, h⟩ := ng_ReachZ_iff.mp h
  obtain ⟨z, z', hz, hsim, _, hsim', _, hstep⟩ := zk_Inv_claimPayment (zk_sim h) hr hok hs
  obtain ⟨R, B, K, C, U, rfl⟩ := hsim.shape'
  obtain ⟨R', B', K', C', U', rfl⟩ := hsim'.shape'
  have := ng_owner_surplus hz hnl hstep
  exact this

/-- **nothing is left at the end**: all steps complete, every holder of a NON-EMPTY range has
    settled (stale empty ranges may remain: they hold nothing), then the owner's accepted
    `claimPayment` leaves no launchpad token -/
theorem ng_lp_zero_at_end_Z (hash : List Nat → List Nat) (s : State) (r : Nat)
    (h : ng_ReachZ hash s r) (hnl : ¬ FeeInLpToken s) (hd : AllDone s)
    (hall : ∀ a rg, s.range a = some rg → rg.last < rg.first)
    (e : Env) (s' : State) (o : Out) (hr : r ≤ e.round) (hok : EnvOK e)
    (hs : step hash s e .claimPayment = .ok (s', o)) :
    s.nrWinning = 0 ∧ s'.bal (.esdt s'.lpTok) 0 = 0 := by
  obtain ⟨k1, k2, _⟩ := ng_owner_surplus_Z hash s r h hnl e s' o hr hok hs
  obtain ⟨a0, h⟩ := ng_ReachZ_iff.mp h
  obtain ⟨z, hz, hsim, _⟩ := zk_Inv_selected (zk_sim h) hd.1
  have hallz : ∀ a, z.range a = none := by
    intro a
    rw [hsim.range]
    cases hra : s.range a with
    | none => exact z_eraseR_of_none hra
    | some rg => exact z_eraseR_of_empty hra (by have := hall a rg hra; omega)
  have hdz : AllDone z := (allDone_iff hsim).mpr hd
  have hz0 := ng_all_settled_nrWinning hz hdz hallz
  obtain ⟨R, B, K, C, U, rfl⟩ := hsim.shape'
  have hz0' : s.nrWinning = 0 := hz0
  exact ⟨hz0', by rw [k1, k2, hz0']; simp⟩

/-! ### 4. what an address with an empty range (ghost or not) can do -/

/-- in an `ng_ReachZ` state its accepted claim pays nothing and moves no balance: only the
    caller's `claimed` flag, its stale range and the batch slot at the range's first id change;
    the "not confirmed" SFT (category 3) is handed out -/
theorem empty_range_claim_Z (hash : List Nat → List Nat) (s : State)
    (r : Nat) (h : ng_ReachZ hash s r) (e : Env) (s' : State) (o : Out) (rg : Range)
    (hr : r ≤ e.round) (hok : EnvOK e)
    (hrg : s.range e.caller = some rg) (he : rg.last < rg.first)
    (hs : step hash s e .claim = .ok (s', o)) :
    s' = zc_w s (upd s.range e.caller none) (upd s.batch rg.first none) s.blacklist
          (upd s.claimed e.caller true) s.uts ∧ s'.bal = s.bal ∧ s'.nrWinning = s.nrWinning ∧
    o.xfers = [] ∧ o.sfts = [(e.caller, 3)] ∧ o.locks = [] := by
  obtain ⟨a0, h⟩ := ng_ReachZ_iff.mp h
  have hsel : s.flags.selected = true := by
    have hvs : s.variant = .nftGuar := by
      obtain ⟨R, B, K, C, X, W, U, BU, N, TG, hwf⟩ := zk_Inv_shape (zk_sim h)
      exact hwf.var
    rcases LP.Props.C06.claim_gate hash s e _ hs with h1 | ⟨h1, _⟩
    · exact (v1_stage_claim h1).1
    · rw [(ng_flags hvs).1] at h1; cases h1
  obtain ⟨z, hz, hsim, hu⟩ := zk_Inv_selected (zk_sim h) hsel
  obtain ⟨z', _, _, _, hcase⟩ := zk_PB_claim hz hsim hu hr hok hs
  rcases hcase with hstep | ⟨_, rg', hrg', _, hs', ho1, ho2, ho3⟩
  · -- the erased state has no range for the caller: its claim is rejected
    exfalso
    have hzn : z.range e.caller = none := by
      rw [hsim.range]; exact z_eraseR_of_empty hrg (by omega)
    have hn : z.variant.hasNft = true := (ng_flags hz.var).2.1
    obtain ⟨rz, hacc, _⟩ := claim_nft_effect hash z e z' o hn hstep
    have := hacc.2.2.2.2.1
    rw [hzn] at this; cases this
  · rw [hrg] at hrg'
    injection hrg' with hrg'
    subst hrg'
    exact ⟨hs', by rw [hs']; rfl, by rw [hs']; rfl, ho1, ho2, ho3⟩

/-- **claims never starve**, arbitrary allocation entries: in the claim stage, a claim without
    call value by ANY address that holds a range — empty or not, ghost or not — and has not
    claimed is ACCEPTED, provided the SFT collection is set up, the launchpad tokens were
    deposited, the fee is not kept in the launchpad-token slot and — only for a fee payer that was
    not drawn (category 2) — the contract still holds his fee in the fee-token slot after his
    ticket settlement -/
theorem claim_never_starves_Z (hash : List Nat → List Nat) (s : State) (r : Nat)
    (h : ng_ReachZ hash s r) (e : Env) (rg : Range)
    (he1 : e.egld = 0) (he2 : e.esdts = []) (hst : s.stage e = .claim)
    (hcl : s.claimed e.caller = false) (hrg : s.range e.caller = some rg)
    (hsft : s.sftToken = true) (hdep : s.deposited = true) (hnl : ¬ FeeInLpToken s)
    (hfee : nftCategory s e.caller = 2 →
      s.nftCost.amount ≤ (balAfterClaim s e.caller) s.nftCost.tok s.nftCost.nonce) :
    ∃ x, step hash s e .claim = .ok x := by
  obtain ⟨hsel, hadd, _⟩ := v1_stage_claim hst
  have hd : AllDone s := ⟨hsel, hadd⟩
  obtain ⟨L, _, _, hsum, hle, hrgL⟩ := ng_three_counts_Z hash s r h hd
  have hcov := ng_claim_refund_covered_Z hash s r h hd e.caller rg hrg
  have hlp : LP.Props.C02.LpCover s := (ng_lp_cover_Z hash s r h hdep hnl).1
  obtain ⟨a0, h0⟩ := ng_ReachZ_iff.mp h
  obtain ⟨R, B, K, C, X, W, U, BU, N, TG, hwf⟩ := zk_Inv_shape (zk_sim h0)
  have hvs : s.variant = .nftGuar := hwf.var
  have htok : s.payTok ≠ .esdt s.lpTok := hwf.tokNe
  obtain ⟨f1, f2, _, _, f5, _⟩ := ng_flags hvs
  have hwc : winCountOf s e.caller = countWinning s.status rg.first (rangeLen rg) := by
    simp only [winCountOf, hrg]
  have hwn : winCountOf s e.caller ≤ s.nrWinning := by
    by_cases hne : rg.first ≤ rg.last
    · have := rb_le_sumOver (winCountOf s) L e.caller ((hrgL e.caller rg hrg).2 hne)
      omega
    · have hlen : rangeLen rg = 0 := by unfold rangeLen; omega
      rw [hwc, hlen]; exact Nat.zero_le _
  have hle' := hle e.caller
  rw [hwc] at hwn hle' hcov
  have hne' : ¬ (Token.esdt s.lpTok = s.payTok) := fun hh => htok hh.symm
  refine ⟨((claimNftResult (sendTokensResult (claimMid (txc s e) e rg) e.caller
    (countWinning s.status rg.first (rangeLen rg))) e).s,
    (claimNftResult (sendTokensResult (claimMid (txc s e) e rg) e.caller
    (countWinning s.status rg.first (rangeLen rg))) e).o), ?_⟩
  rw [step_claim_ok_iff]
  refine ⟨he1, he2, claimNftResult (sendTokensResult (claimMid (txc s e) e rg) e.caller
    (countWinning s.status rg.first (rangeLen rg))) e, ?_, rfl, rfl⟩
  rw [exec_claim_nonvested hash _ e (by exact f1), claimBase_ok_iff]
  have hl2 : (claimMid (txc s e) e rg).s.variant.hasLock = false := by rw [claimMid_state]; exact f5
  have hcov' : s.price * (s.confirmed e.caller - countWinning s.status rg.first (rangeLen rg))
      ≤ s.bal s.payTok 0 := by omega
  refine ⟨rg, ⟨hst, hcl, hrg, hwn, hle', hcov'⟩, sendTokensResult (claimMid (txc s e) e rg) e.caller
    (countWinning s.status rg.first (rangeLen rg)), ?_, ?_⟩
  · rw [sendLaunchpadTokens_nolock_ok_iff _ e _ _ _ hl2]
    refine ⟨?_, rfl⟩
    rw [claimMid_state]
    show countWinning s.status rg.first (rangeLen rg) * s.perTicket ≤ (s.bal.sub s.payTok 0
      (s.price * (s.confirmed e.caller - countWinning s.status rg.first (rangeLen rg)))) (.esdt s.lpTok) 0
    have : (s.bal.sub s.payTok 0 (s.price * (s.confirmed e.caller -
        countWinning s.status rg.first (rangeLen rg)))) (.esdt s.lpTok) 0 = s.bal (.esdt s.lpTok) 0 := by
      simp [Bal.sub, hne']
    rw [this]
    have h1 : s.perTicket * s.nrWinning ≤ s.bal (.esdt s.lpTok) 0 := hlp
    calc countWinning s.status rg.first (rangeLen rg) * s.perTicket
        ≤ s.nrWinning * s.perTicket := Nat.mul_le_mul_right _ hwn
      _ = s.perTicket * s.nrWinning := Nat.mul_comm _ _
      _ ≤ _ := h1
  · have hs2 : (sendTokensResult (claimMid (txc s e) e rg) e.caller
        (countWinning s.status rg.first (rangeLen rg))).s
        = { settledState s e.caller rg with bal := balAfterClaim s e.caller } := by
      rw [sendTokensResult_state, claimMid_state]
      have hw : winCount s e.caller = countWinning s.status rg.first (rangeLen rg) :=
        winCount_of_range hrg
      simp only [balAfterClaim, hw, txc]
      rfl
    have hn2 : (sendTokensResult (claimMid (txc s e) e rg) e.caller
        (countWinning s.status rg.first (rangeLen rg))).s.variant.hasNft = true := by
      rw [hs2]; exact f2
    rw [if_pos hn2, claimNft_ok_iff]
    refine ⟨by rw [hs2]; exact hsft, ?_, rfl⟩
    intro hc2
    have hcat : nftCategory (sendTokensResult (claimMid (txc s e) e rg) e.caller
        (countWinning s.status rg.first (rangeLen rg))).s e.caller = nftCategory s e.caller :=
      nftCategory_congr e.caller (by rw [hs2]; rfl) (by rw [hs2]; rfl)
    rw [hcat] at hc2
    have := hfee hc2
    rw [hs2]
    exact this

/-! ### non-vacuity: the launch with a GHOST guarantee of LP/Props/C14zeroG.lean (`m1 … m12`:
  allocation `[(5, 0, 0, true), (7, 2, 1, false), (8, 1, 0, false), (9, 0, 2, false)]`, `T0 = 3`),
  to which none of the earlier theorems applied, plus the ghost's claim `m13` -/

def m13 : State := stOf (step id m12 { caller := 5, round := 15 } .claim) m12

theorem m10_reachZ : ng_ReachZA id gArgs m10 11 :=
  callOkZ { caller := 9, round := 11 } .filter m6_reachZ (by decide) (Or.inl rfl) rfl

theorem m11_reachZ : ng_ReachZA id gArgs m11 12 :=
  callOkZ { caller := 9, round := 12 } .select m10_reachZ (by decide) (Or.inl rfl) rfl

theorem m13_reachZ : ng_ReachZA id gArgs m13 15 :=
  callOkZ { caller := 5, round := 15 } .claim m12_reachZ (by decide) (Or.inl rfl) (by decide +kernel)

/-- the ghost in `m6` (before the filter): empty range, whitelisted, record `{0,0,0,1}`, one
    reserve ticket moved; `m6` is reachable only with the unrestricted relation's entry -/
example : m6.range 5 = some ⟨1, 0⟩ ∧ m6.whitelist = [5, 7, 8] ∧
    m6.uts 5 = some { a := 0, b := 0, c := 0, d := 1 } ∧ m6.nrWinning = 0 ∧ m6.totalGuaranteed = 3 ∧
    m6.flags.started = false := by
  refine ⟨rfl, rfl, rfl, rfl, rfl, rfl⟩

/-- the simulation before the filter applied to `m6`: a well-formed shadow, the C12 invariant and
    the reserve `0 + 3 = 3` -/
example : (∃ U BU N TG, ng_WF 3 (zv_sh m6 U BU N TG) 6) ∧ GuarInvX m6 ∧
    m6.nrWinning + m6.totalGuaranteed = 3 :=
  simulation_before_filter id gArgs m6 6 m6_reachZ rfl

/-- the simulation after the filter applied to `m10` (the ghost is still whitelisted) -/
example : m10.whitelist = [5, 7, 8] ∧ ∃ z, ng_WF 3 z 11 ∧ ZSim m10 z :=
  ⟨rfl, simulation_after_filter id gArgs m10 11 m10_reachZ rfl⟩

/-- the whitelist theorem sees the ghost -/
example : 5 ∈ m6.whitelist :=
  (ng_whitelisted_iff_Z id m6 6 (ng_ReachZ_iff.mpr ⟨_, m6_reachZ⟩) rfl (fun h => by cases h) 5).mpr
    ⟨_, rfl, by decide⟩

/-- the combined ledger (fee token = payment token) after completion -/
example : ∃ L : List Nat, Covers m12 L ∧ CombinedPost m12 L :=
  let ⟨L, k1, _, k3⟩ := ng_solvent_same_Z id m12 13 (ng_ReachZ_iff.mpr ⟨_, m12_reachZ⟩) ⟨rfl, rfl⟩
  ⟨L, k1, k3 ⟨rfl, rfl⟩⟩

/-- the completing `secondary` call `m11 → m12`: three winners `= min 3 5` although `nrWinning`
    was `0` after the filter (the ghost's reserve ticket is re-drawn), every guarantee honoured -/
example : ∃ s' o, step id m11 { caller := 9, round := 13 } .secondary = .ok (s', o) ∧
    o.ret = [0] ∧ s'.nrWinning = min gArgs.nrWinning s'.lastTicketId ∧ s'.nrWinning = 3 ∧
    (∀ u st, s'.uts u = some st →
      min (calcV1 st (s'.confirmed u) s'.minConfirmed).1 (s'.confirmed u) ≤ winCountOf s' u) := by
  refine ⟨_, _, rfl, rfl, ?_, rfl, ?_⟩
  · exact (ng_final_winners_Z id gArgs m11 12 m11_reachZ
      { caller := 9, round := 13 } _ _ (by decide) (Or.inl rfl) rfl rfl).2.2.1
  · exact (ng_guarantee_honoured_Z id gArgs m11 12 m11_reachZ
      { caller := 9, round := 13 } _ _ (by decide) (Or.inl rfl) rfl rfl).1

/-- the ghost's claim is accepted (`claim_never_starves_Z`) … -/
example : ∃ x, step id m12 { caller := 5, round := 15 } .claim = .ok x :=
  claim_never_starves_Z id m12 13 (ng_ReachZ_iff.mpr ⟨_, m12_reachZ⟩) { caller := 5, round := 15 }
    ⟨1, 0⟩ rfl rfl (by decide +kernel) (by decide +kernel) (by decide +kernel) (by decide +kernel)
    (by decide +kernel) (by decide +kernel) (by decide +kernel)

/-- … and changes nothing but its flag, its stale range and a batch slot (`empty_range_claim_Z`) -/
example : m13 = zc_w m12 (upd m12.range 5 none) (upd m12.batch 1 none) m12.blacklist
    (upd m12.claimed 5 true) m12.uts :=
  (empty_range_claim_Z id m12 13 (ng_ReachZ_iff.mpr ⟨_, m12_reachZ⟩) { caller := 5, round := 15 }
    m13 _ ⟨1, 0⟩ (by decide) (Or.inl rfl) rfl (by decide)
    (step_stOf (by decide +kernel) m12).choose_spec).1

/-- `ng_draw_end_to_end_Z` applied to the history with the ghost: from `m10` (filter complete)
    through `select` to the completing `secondary` call; nobody paid the NFT fee in this history,
    so nobody is drawn -/
example : m12.nftWinners.length = min m10.availNfts m10.payers.length ∧
    m12.payers.length + m12.nftWinners.length = m10.payers.length := by
  have hl : ng_LaterZ id m10 11 m11 12 :=
    .call m10 11 { caller := 9, round := 12 } .select m11 _ .refl (by decide) (Or.inl rfl)
      (step_stOf (by decide +kernel) m10).choose_spec
  obtain ⟨o, ho⟩ := step_stOf (x := step id m11 { caller := 9, round := 13 } .secondary)
    (by decide +kernel) m11
  have ho' : step id m11 { caller := 9, round := 13 } .secondary = .ok (m12, o) := ho
  have hret : o.ret = [0] := by
    rcases ng_secondary_ret_Z id gArgs m11 12 m11_reachZ _ m12 o (by decide) (Or.inl rfl) ho' with
      ⟨h1, _⟩ | ⟨_, h2⟩
    · exact h1
    · have : m12.flags.additional = true := rfl
      rw [this] at h2; cases h2
  obtain ⟨k1, _, _, _, _, _, k7⟩ := ng_draw_end_to_end_Z id gArgs m10 11 m10_reachZ rfl rfl m11 12 hl
    { caller := 9, round := 13 } m12 o (by decide) (Or.inl rfl) ho' hret
  exact ⟨k1, k7⟩

/-- the ghost blacklisted before the filter (`blacklist [5]` at round 8): its reserve ticket goes
    back to `nrWinning`, `1 + 2 = 3`; the simulation invariant and the reserve theorem apply to the
    resulting state -/
def mb : State := stOf (step id m6 { caller := 1, round := 8 } (.blacklist [5])) m6

theorem mb_reachZ : ng_ReachZA id gArgs mb 8 :=
  callOkZ { caller := 1, round := 8 } (.blacklist [5]) m6_reachZ (by decide) (Or.inl rfl) rfl

example : mb.blacklist 5 = true ∧ mb.whitelist = [8, 7] ∧ mb.nrWinning = 1 ∧ mb.totalGuaranteed = 2 ∧
    mb.range 5 = some ⟨1, 0⟩ := by
  refine ⟨rfl, rfl, rfl, rfl, rfl⟩

example : mb.nrWinning + mb.totalGuaranteed = gArgs.nrWinning :=
  (ng_reserve_Z id gArgs mb 8 mb_reachZ).1 rfl

end LP.Props.C14zeroGfull

#print axioms LP.Props.C14zeroGfull.simulation
#print axioms LP.Props.C14zeroGfull.simulation_before_filter
#print axioms LP.Props.C14zeroGfull.simulation_after_filter
#print axioms LP.Props.C14zeroGfull.reach_is_reachZ
#print axioms LP.Props.C14zeroGfull.additional_implies_selected_Z
#print axioms LP.Props.C14zeroGfull.ng_solvent_general_Z
#print axioms LP.Props.C14zeroGfull.ng_solvent_separate_Z
#print axioms LP.Props.C14zeroGfull.ng_fee_ledger_Z
#print axioms LP.Props.C14zeroGfull.ng_solvent_same_Z
#print axioms LP.Props.C14zeroGfull.ng_three_counts_Z
#print axioms LP.Props.C14zeroGfull.ng_claim_refund_covered_Z
#print axioms LP.Props.C14zeroGfull.ng_all_settled_lists_empty_Z
#print axioms LP.Props.C14zeroGfull.ng_nothing_left_Z
#print axioms LP.Props.C14zeroGfull.ng_final_winners_Z
#print axioms LP.Props.C14zeroGfull.ng_guarantee_honoured_Z
#print axioms LP.Props.C14zeroGfull.ng_draw_completion_Z
#print axioms LP.Props.C14zeroGfull.ng_secondary_ret_Z
#print axioms LP.Props.C14zeroGfull.ng_winners_bound_Z
#print axioms LP.Props.C14zeroGfull.ng_nft_lists_Z
#print axioms LP.Props.C14zeroGfull.ng_draw_from_start_Z
#print axioms LP.Props.C14zeroGfull.ng_participants_frozen_Z
#print axioms LP.Props.C14zeroGfull.ng_draw_end_to_end_Z
#print axioms LP.Props.C14zeroGfull.ng_lp_cover_Z
#print axioms LP.Props.C14zeroGfull.ng_reserve_Z
#print axioms LP.Props.C14zeroGfull.ng_whitelisted_iff_Z
#print axioms LP.Props.C14zeroGfull.ng_owner_surplus_Z
#print axioms LP.Props.C14zeroGfull.ng_lp_zero_at_end_Z
#print axioms LP.Props.C14zeroGfull.empty_range_claim_Z
#print axioms LP.Props.C14zeroGfull.claim_never_starves_Z
#print axioms LP.Props.C14zeroGfull.m10_reachZ
#print axioms LP.Props.C14zeroGfull.m11_reachZ
#print axioms LP.Props.C14zeroGfull.m13_reachZ
#print axioms LP.Props.C14zeroGfull.mb_reachZ
