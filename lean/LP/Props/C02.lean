import LP.Props.C01
/-
  C02 — Launchpad-token solvency: the deposit covers every winner; the owner gets only surplus.
-/
namespace LP.Props.C02
open LP LP.Props.C01

/-- number of tickets that can ever win, as the deposit endpoint computes it -/
def maxWinners (s : State) : Nat := s.nrWinning + reservedForDeposit s

/-- **the single deposit**: accepted iff none was made before, the caller is the owner, and the
    call value is exactly one fungible transfer of `perTicket × maxWinners` launchpad tokens -/
theorem deposit_accepted_iff (hash : List Nat → List Nat) (s : State) (e : Env) :
    (∃ r, step hash s e .deposit = .ok r) ↔
      e.caller = s.owner ∧ s.deposited = false ∧
      singleFungible e = .ok (.esdt s.lpTok, s.perTicket * maxWinners s) := by
  unfold step maxWinners
  simp only [endpointMeta, Bool.not_true, Bool.false_and, Bool.false_eq_true, ↓reduceIte, Bool.true_and,
    bne_iff_ne, ne_eq, decide_not, Bool.not_eq_eq_eq_not, Bool.not_true, decide_eq_false_iff_not, exec]
  by_cases ho : e.caller = s.owner
  · simp only [ho, not_true_eq_false, ↓reduceIte, true_and]
    constructor
    · rintro ⟨r, h⟩
      cases hd : depositLaunchpadTokens (creditPayments s e) e ((creditPayments s e).nrWinning + reservedForDeposit (creditPayments s e)) with
      | error err => simp [hd, bind, Except.bind] at h
      | ok s1 =>
        unfold depositLaunchpadTokens at hd
        simp only [bind_ok_iff, pure_ok_iff, req_ok_iff, exists_const, Prod.exists, Bool.not_eq_true',
          beq_iff_eq, creditPayments_deposited, creditPayments_perTicket] at hd
        obtain ⟨hnd, tok, amount, hpay, htok, hamt, _⟩ := hd
        refine ⟨hnd, ?_⟩
        rw [hpay]
        have : (creditPayments s e).lpTok = s.lpTok := rfl
        have h2 : (creditPayments s e).nrWinning = s.nrWinning := rfl
        have h3 : reservedForDeposit (creditPayments s e) = reservedForDeposit s := rfl
        simp [htok, hamt, this, h2, h3]
    · rintro ⟨hnd, hpay⟩
      have : depositLaunchpadTokens (creditPayments s e) e ((creditPayments s e).nrWinning + reservedForDeposit (creditPayments s e)) =
          .ok { creditPayments s e with deposited := true, totalDeposited := s.perTicket * (s.nrWinning + reservedForDeposit s) } := by
        unfold depositLaunchpadTokens
        have h1 : (creditPayments s e).lpTok = s.lpTok := rfl
        have h2 : (creditPayments s e).nrWinning = s.nrWinning := rfl
        have h3 : reservedForDeposit (creditPayments s e) = reservedForDeposit s := rfl
        simp [hpay, hnd, req, bind, Except.bind, pure, Except.pure, h1, h2, h3]
      simp [this, bind, Except.bind, pure, Except.pure]
  · simp [ho]

/-- effect of the accepted deposit: flag set, amount recorded, holdings grow by the call value -/
theorem deposit_effect (hash : List Nat → List Nat) (s s' : State) (e : Env) (o : Out)
    (h : step hash s e .deposit = .ok (s', o)) :
    s' = { creditPayments s e with deposited := true, totalDeposited := s.perTicket * maxWinners s } ∧
    o.xfers = [] ∧ o.events = [] := by
  obtain ⟨m, t, _, _, _, hx, hs, ho⟩ := step_ok_inv h
  simp only [exec, bind_ok_iff, pure_ok_iff] at hx
  obtain ⟨s1, hd, ht⟩ := hx
  unfold depositLaunchpadTokens at hd
  simp only [bind_ok_iff, pure_ok_iff, req_ok_iff, exists_const, Prod.exists, Bool.not_eq_true',
    beq_iff_eq] at hd
  obtain ⟨_, tok, amount, _, _, hamt, hs1⟩ := hd
  subst ht hs1
  refine ⟨?_, by simp [ho, tx0, Tx.setS], by simp [ho, tx0, Tx.setS]⟩
  simp only [hs, Tx.setS, tx0, hamt, maxWinners]
  rfl

/-- a second deposit is rejected -/
theorem second_deposit_rejected (hash : List Nat → List Nat) (s : State) (e : Env) (h : s.deposited = true) :
    ∃ err, step hash s e .deposit = .error err := by
  cases hx : step hash s e .deposit with
  | error err => exact ⟨err, rfl⟩
  | ok r =>
    have := ((deposit_accepted_iff hash s e).mp ⟨r, hx⟩).2.1
    simp [h] at this

/-- coverage invariant of the common withdrawal path: the launchpad tokens held cover the
    winners that have not been paid yet (`nrWinning` is decremented by every settlement) -/
def LpCover (s : State) : Prop := s.perTicket * s.nrWinning ≤ s.bal (.esdt s.lpTok) 0

/-- **the owner can withdraw only the surplus** (common path): after `claim_ticket_payment` the
    contract still holds exactly `perTicket × nrWinning` launchpad tokens — never a winner's
    share — and the owner received `balance − perTicket × nrWinning`. -/
theorem owner_gets_only_surplus (t t' : Tx) (e : Env)
    (hne : t.s.payTok ≠ .esdt t.s.lpTok) (h : claimPaymentCommon t e = .ok t') :
    LpCover t.s ∧
    t'.s.bal (.esdt t.s.lpTok) 0 = t.s.perTicket * t.s.nrWinning ∧
    t'.s.nrWinning = t.s.nrWinning ∧ t'.s.perTicket = t.s.perTicket ∧ t'.s.lpTok = t.s.lpTok := by
  have step1 : ∃ t1 : Tx,
      (if t.s.claimablePayment > 0 then
        (t.setS { t.s with claimablePayment := 0 }).send e.caller ⟨t.s.payTok, 0, t.s.claimablePayment⟩
       else pure t) = .ok t1 ∧
      ∃ extra, bsub (t1.s.bal (.esdt t1.s.lpTok) 0) (t1.s.perTicket * t1.s.nrWinning) "tickets.rs:66 balance - needed" = .ok extra ∧
        (if extra > 0 then t1.send e.caller ⟨.esdt t1.s.lpTok, 0, extra⟩ else pure t1) = .ok t' := by
    unfold claimPaymentCommon at h
    by_cases hpos : t.s.claimablePayment > 0
    · simp only [hpos, ↓reduceIte, bind_ok_iff, pure_ok_iff, requireStage, req_ok_iff, exists_const] at h ⊢
      obtain ⟨_, t1, ht1, extra, hextra, hfin⟩ := h
      exact ⟨t1, ht1, extra, hextra, hfin⟩
    · simp only [hpos, ↓reduceIte, bind_ok_iff, pure_ok_iff, requireStage, req_ok_iff, exists_const] at h ⊢
      obtain ⟨_, t1, ht1, extra, hextra, hfin⟩ := h
      exact ⟨t1, ht1, extra, hextra, hfin⟩
  obtain ⟨t1, ht1, extra, hextra, hfin⟩ := step1
  have k : t1.s.bal (.esdt t.s.lpTok) 0 = t.s.bal (.esdt t.s.lpTok) 0 ∧ t1.s.lpTok = t.s.lpTok ∧
      t1.s.perTicket = t.s.perTicket ∧ t1.s.nrWinning = t.s.nrWinning := by
    split at ht1
    · obtain ⟨_, hs1, _⟩ := send_bal _ _ _ _ ht1
      simp only [Tx.setS] at hs1
      refine ⟨?_, by simp [hs1], by simp [hs1], by simp [hs1]⟩
      simp only [hs1]
      apply sub_other
      intro hh; exact hne hh.1.symm
    · simp [pure, Except.pure] at ht1; subst ht1; exact ⟨rfl, rfl, rfl, rfl⟩
  obtain ⟨k1, k2, k3, k4⟩ := k
  unfold bsub at hextra
  split at hextra
  · rename_i hle
    simp at hextra
    rw [k2, k3, k4, k1] at hle
    refine ⟨hle, ?_⟩
    split at hfin
    · obtain ⟨_, hs2, _⟩ := send_bal _ _ _ _ hfin
      simp only [hs2, k2, k3, k4]
      refine ⟨?_, trivial, trivial, trivial⟩
      rw [sub_same, k1, ← hextra, k2, k3, k4, k1]
      omega
    · rename_i hz
      simp [pure, Except.pure] at hfin
      subst hfin
      refine ⟨?_, k4, k3, k2⟩
      rw [k1]
      rw [k2, k3, k4, k1] at hextra
      omega
  · simp at hextra

/-- paying a winner `n × perTicket` while his `n` tickets leave the outstanding count keeps the
    coverage (arithmetic core of every settlement on the common path) -/
theorem cover_after_payout (per nrW bal n : Nat) (hn : n ≤ nrW) (hc : per * nrW ≤ bal) :
    n * per ≤ bal ∧ per * (nrW - n) ≤ bal - n * per := by
  have h1 : per * nrW = per * (nrW - n) + n * per := by
    rw [Nat.mul_comm n per, ← Nat.mul_add]; congr 1; omega
  constructor <;> omega

/-- once all winners are paid (`nrWinning = 0`) and the owner has withdrawn, nothing is left -/
theorem final_zero (t t' : Tx) (e : Env) (hne : t.s.payTok ≠ .esdt t.s.lpTok)
    (h : claimPaymentCommon t e = .ok t') (hz : t.s.nrWinning = 0) :
    t'.s.bal (.esdt t.s.lpTok) 0 = 0 := by
  have := (owner_gets_only_surplus t t' e hne h).2.1
  simpa [hz] using this

/-- non-vacuity: the deposit of 300 = 100 × (1 + 2) is accepted on a guaranteed-ticket state -/
example : ∃ s : State, ∃ e : Env, ∃ r, step id s e .deposit = .ok r ∧ maxWinners s = 3 := by
  refine ⟨{ variant := .guarV2, owner := 1, lpTok := 1, perTicket := 100, payTok := .egld, price := 10,
            nrWinning := 1, totalGuaranteed := 2, cfg := ⟨5, 10, 15⟩, flags := {}, support := 1 },
          { caller := 1, round := 0, esdts := [⟨.esdt 1, 0, 300⟩] }, _, rfl, rfl⟩


/-
  STATUS OF THE FULL STATEMENT: `Reachable v s → LpCover s` (and the vesting analogue for crates
  4/5) is not yet assembled as one inductive invariant; proved here: the deposit is exactly
  perTicket × (base winners + reserved) (= perTicket × configured winners by C12), the owner's
  withdrawal leaves exactly the outstanding winners' tokens, settlements keep the coverage
  (`cover_after_payout` with C09), and the final zero.  The monitor `m_C02` checks the coverage
  after every transaction of every explored history.
-/

end LP.Props.C02

#print axioms LP.Props.C02.deposit_accepted_iff
#print axioms LP.Props.C02.deposit_effect
#print axioms LP.Props.C02.second_deposit_rejected
#print axioms LP.Props.C02.owner_gets_only_surplus
#print axioms LP.Props.C02.cover_after_payout
#print axioms LP.Props.C02.final_zero
