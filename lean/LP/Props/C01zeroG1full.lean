import LP.Proofs.ZeroAllocG1FullC
import LP.Props.C01zeroG1
/-
  C01 / C02 / C03 / C11 / C12 / C13 headline theorems of `Variant.guarV1`
  (launchpad-guaranteed-tickets) with NO restriction at all on the allocation entries.

  `g1_ReachFull hash s r` (LP/Proofs/ZeroAllocG1g.lean) / `g1_ReachFullA hash a0 s r`
  (LP/Proofs/ZeroAllocG1FullB.lean) are `g1_Reach` / `g1_ReachA` WITHOUT the premise `v1_CallOK c`:
  an `addTicketsV1` entry may be `(a, 0, 0, m)` for either value of the migration flag `m`.
  `EnvOK` (EGLD or ESDT, not both) is kept.  LP/Props/C01zeroG1.lean covers `m = false` by an
  erasure simulation into the original development and PROVES that `m = true` cannot be handled
  that way (`migrated_zero_not_simulable`).  This file handles both.

  What the model does with `(a, 0, 0, true)` (`minConfirmed > 0` is enforced at deployment):
    * `a` gets the EMPTY range `[last+1, last]`, a zero-size batch, the record
      `uts a = {a := 0, b := 0, c := 0, d := 1}`, ENTERS THE WHITELIST, and one ticket of the
      reserve moves (`nrWinning − 1`, `totalGuaranteed + 1`): a GHOST GUARANTEE;
    * `a` can never confirm; `blacklist [a]` parks the record and gives the reserve ticket back,
      `unblacklist [a]` restores both;
    * the filter never visits `a`; `distribute` pops `a` from the whitelist, `calcV1` qualifies the
      ghost, the top-up over the empty range marks nothing and the whole guarantee becomes LEFTOVER
      (`zg_processGuaranteed`), re-drawn among the real tickets: nothing of the reserve is lost;
    * in the claim phase the first `claim` of `a` sets its flag and pays nothing, every later one
      changes nothing.

  METHOD (port of LP/Props/C01zeroV1.lean; LP/Proofs/ZeroAllocG1FullA.lean, …B, …C): the invariant
  `zh_Inv T0 s r` holds in every `g1_ReachFullA` state (`simulation`):
    * before the first `filter` call (`zh_PA`): the SHADOW `zv_sh s U BU N TG` — `s` with the empty
      ranges / zero-size batches erased and the guarantee bookkeeping replaced by an EMPTY one —
      satisfies the invariant `g1_WF` of the original development and takes REAL steps of it; the
      reserve part is `GuarInvX s` (C12) on the REAL state plus `nrWinning + totalGuaranteed = T0`;
    * from the first `filter` call on: `s` is `ZGSim`-related (empty ranges / zero-size batches
      erased, guarantee-free records of empty-range addresses possibly erased, every other field —
      whitelist, reserve, vesting records, schedule, balances — equal) to a state `z` satisfying
      `g1_WF`; `z` takes the same step as `s`, except that a claim by an empty-range address is
      matched by NO step.
  With ghost guarantees `z` is in general NOT a `g1_Reach` state, but it satisfies the inductive
  invariant `g1_WF`, from which every headline theorem of LP/Props/C01reachG1.lean is derived; they
  are transferred below to EVERY `g1_ReachFull` state.

  PARTIAL exactly as in the original development: the final-winner theorems are conditional on
  the `distribute` call having completed (termination of the v1 leftover loop is not a theorem);
  "claims never starve" has no original for guarV1 (the coverage inequalities it rests on are
  transferred).  `claim_releases_exactly_guarV1_full` carries the hypothesis `EnvOK e` (as every
  call of the reachability relation does); the original needs none.
-/
namespace LP.Props.C01zeroG1full
open LP LP.FY LP.Props.C01reach LP.Props.C01reachG1 LP.Props.C01zeroG1

/-! ### 0. the simulation invariant -/

/-- **SIMULATION INVARIANT** for every state reachable with ARBITRARY allocation entries -/
theorem simulation (hash : List Nat → List Nat) (a0 : InitArgs)
    (s : State) (r : Nat) (h : g1_ReachFullA hash a0 s r) : zh_Inv a0.nrWinning s r :=
  zh_sim h

/-- before the first `filter` call: the shadow (no empty range, no zero-size batch, no guarantee)
    is a well-formed state of the original development; the C12 reserve invariant holds on the
    real state and the reserve is conserved -/
theorem simulation_before_filter (hash : List Nat → List Nat) (a0 : InitArgs) (s : State) (r : Nat)
    (h : g1_ReachFullA hash a0 s r) (hns : s.flags.started = false) :
    (∃ U BU N TG, g1_WF a0.nrWinning (zv_sh s U BU N TG) r) ∧ GuarInvX s ∧
    s.nrWinning + s.totalGuaranteed = a0.nrWinning := by
  rcases zh_sim h with h1 | ⟨h1, _⟩
  · obtain ⟨U, BU, N, TG, hwf, _⟩ := h1.sh
    exact ⟨⟨U, BU, N, TG, hwf⟩, h1.gx, h1.sum⟩
  · rw [hns] at h1; cases h1

/-- from the first `filter` call on: `ZGSim`-related to a well-formed state -/
theorem simulation_after_filter (hash : List Nat → List Nat) (a0 : InitArgs) (s : State) (r : Nat)
    (h : g1_ReachFullA hash a0 s r) (hst : s.flags.started = true) :
    ∃ z, g1_WF a0.nrWinning z r ∧ ZGSim s z :=
  zh_Inv_started (zh_sim h) hst

/-- the states of `C01zeroG1` (zero-size entries without the migration flag), hence the original
    reachable states, are among the new ones -/
theorem reachZ_is_reachFull (hash : List Nat → List Nat) (s : State) (r : Nat)
    (h : g1_ReachZ hash s r) : g1_ReachFull hash s r := h.toFull

theorem reach_is_reachFull (hash : List Nat → List Nat) (s : State) (r : Nat)
    (h : g1_Reach hash s r) : g1_ReachFull hash s r := h.toZ.toFull

/-! ### 1. ticket-payment solvency -/

/-- **C01 for launchpad-guaranteed-tickets, ANY allocation entries** (same statement as
    `C01_solvent_guarV1`) -/
theorem C01_solvent_guarV1_full (hash : List Nat → List Nat) (s : State) (r : Nat)
    (h : g1_ReachFull hash s r) :
    ∃ L : List Nat, Covers s L ∧ (¬ AllDone s → PayEqPre s L) ∧ (AllDone s → PayEqPost s L) := by
  obtain ⟨a0, h⟩ := g1_ReachFull_iff.mp h
  obtain ⟨L, h1, h2, h3⟩ := zh_Inv_ledger (zh_sim h)
  exact ⟨L, h1, h2, fun hd => (h3 hd).1⟩

/-- after completion: the winners still held add up to `nrWinning`; nobody holds more winning than
    confirmed tickets; every range — empty or not — has exactly `confirmed` tickets, and the
    holders of NON-EMPTY ranges are in the covering list -/
theorem three_counts_guarV1_full (hash : List Nat → List Nat) (s : State) (r : Nat)
    (h : g1_ReachFull hash s r) (hd : AllDone s) :
    ∃ L : List Nat, Covers s L ∧ PayEqPost s L ∧ sumOver (winCountOf s) L = s.nrWinning ∧
      (∀ a, winCountOf s a ≤ s.confirmed a) ∧
      (∀ a rg, s.range a = some rg → rangeLen rg = s.confirmed a ∧ (rg.first ≤ rg.last → a ∈ L)) := by
  obtain ⟨a0, h⟩ := g1_ReachFull_iff.mp h
  obtain ⟨L, h1, _, h3⟩ := zh_Inv_ledger (zh_sim h)
  obtain ⟨k1, k2, k3, k4⟩ := h3 hd
  exact ⟨L, h1, k1, k2, k3, k4⟩

/-- the owner's recorded proceeds are covered -/
theorem owner_withdrawal_covered_guarV1_full (hash : List Nat → List Nat) (s : State) (r : Nat)
    (h : g1_ReachFull hash s r) (hd : AllDone s) : s.claimablePayment ≤ s.bal s.payTok 0 := by
  obtain ⟨L, _, hpost, _⟩ := three_counts_guarV1_full hash s r h hd
  unfold PayEqPost at hpost
  omega

/-- the refund of ANY address holding a range (empty or not) is covered, together with the owner's
    proceeds -/
theorem claim_refund_covered_guarV1_full (hash : List Nat → List Nat) (s : State) (r : Nat)
    (h : g1_ReachFull hash s r) (hd : AllDone s) (a : Nat) (rg : Range) (hr : s.range a = some rg) :
    s.claimablePayment + s.price * (s.confirmed a - winCountOf s a) ≤ s.bal s.payTok 0 := by
  obtain ⟨L, _, hpost, _, _, hrg⟩ := three_counts_guarV1_full hash s r h hd
  by_cases hne : rg.first ≤ rg.last
  · have haL := (hrg a rg hr).2 hne
    have hle := rb_le_sumOver (refundDue s) L a haL
    have hdue : refundDue s a = s.price * (s.confirmed a - winCountOf s a) := by
      simp only [refundDue, hr]
    unfold PayEqPost at hpost
    omega
  · have hc : s.confirmed a = 0 := by
      have := (hrg a rg hr).1
      unfold rangeLen at this; omega
    rw [hc]
    unfold PayEqPost at hpost
    simp only [Nat.zero_sub, Nat.mul_zero, Nat.add_zero]
    omega

/-! ### 2. reserve, final winners, guarantees -/

/-- **reserve conservation**: `nrWinning + totalGuaranteed` is the configured number of winners
    until the filter completes (ghost guarantees included), and at most that afterwards -/
theorem reserve_guarV1_full (hash : List Nat → List Nat) (a0 : InitArgs)
    (s : State) (r : Nat) (h : g1_ReachFullA hash a0 s r) :
    (s.flags.filtered = false → s.nrWinning + s.totalGuaranteed = a0.nrWinning) ∧
    (s.flags.additional = false → s.nrWinning + s.totalGuaranteed ≤ a0.nrWinning) :=
  zh_Inv_reserve (zh_sim h)

/-- the C12 reserve invariant on the REAL state until the filter starts (it never needed the
    restriction): `totalGuaranteed` is the sum of the guarantees of the whitelisted addresses —
    ghosts included —, a positive guarantee ⇔ whitelisted, blacklisted users hold a range -/
theorem reserve_invariant_guarV1_full (hash : List Nat → List Nat) (a0 : InitArgs)
    (s : State) (r : Nat) (h : g1_ReachFullA hash a0 s r) (hns : s.flags.started = false) :
    GuarInvX s :=
  (simulation_before_filter hash a0 s r h hns).2.1

/-- **final winner count, PARTIAL exactly as `final_winners_guarV1_partial`** (conditional on the
    `distribute` call having completed): both flags set, the number of winning flags = `nrWinning`
    = `min (configured winners) (confirmed tickets)` — the ghost guarantees are re-drawn as
    leftovers, nothing of the reserve is lost —, proceeds = `price × nrWinning`, flags inside
    `1..lastTicketId`, no flag lost -/
theorem final_winners_guarV1_full_partial (hash : List Nat → List Nat)
    (a0 : InitArgs) (s : State) (r : Nat) (h : g1_ReachFullA hash a0 s r) (e : Env) (s' : State)
    (o : Out) (hr : r ≤ e.round) (hok : EnvOK e)
    (hs : step hash s e .distribute = .ok (s', o)) (hret : o.ret = [0]) :
    AllDone s' ∧
    countTrue s'.status s'.lastTicketId = s'.nrWinning ∧
    s'.nrWinning = min a0.nrWinning s'.lastTicketId ∧
    s'.claimablePayment = s'.price * s'.nrWinning ∧
    (∀ t, s'.status t = true → 1 ≤ t ∧ t ≤ s'.lastTicketId) ∧
    (∀ t, s.status t = true → s'.status t = true) := by
  obtain ⟨z, z', hz, hsim, _, hsim', hstep⟩ := zh_Inv_distribute (zh_sim h) hr hok hs
  obtain ⟨h1, h2, _, _, h5, h6, h7, h8, h9, _⟩ := g1_distribute_completion hz hstep hret
  obtain ⟨w, rfl⟩ := hsim.shape'
  obtain ⟨w', rfl⟩ := hsim'.shape'
  exact ⟨⟨h1, h2⟩, h5, h6, h7, h8, h9⟩

/-- **guarantees honoured**: when the distribution completes, every holder `u` of a guarantee
    record `st` owns at least `min (qualified guarantee) (confirmed tickets)` winning tickets (for
    a ghost: `min 1 0 = 0`) -/
theorem guarantee_honoured_guarV1_full (hash : List Nat → List Nat)
    (a0 : InitArgs) (s : State) (r : Nat) (h : g1_ReachFullA hash a0 s r) (e : Env) (s' : State)
    (o : Out) (hr : r ≤ e.round) (hok : EnvOK e)
    (hs : step hash s e .distribute = .ok (s', o)) (hret : o.ret = [0]) :
    (∀ u st, s'.uts u = some st →
      min (calcV1 st (s'.confirmed u) s'.minConfirmed).1 (s'.confirmed u) ≤ winCountOf s' u) ∧
    (∀ t, s'.status t = true → 1 ≤ t ∧ t ≤ s'.lastTicketId) := by
  obtain ⟨z, z', hz, hsim, _, hsim', hstep⟩ := zh_Inv_distribute (zh_sim h) hr hok hs
  obtain ⟨_, _, _, _, _, _, _, h2, _, h1⟩ := g1_distribute_completion hz hstep hret
  have hwc : ∀ a, winCountOf s' a = winCountOf z' a := fun a => hsim'.winCountOf_eq a
  have hu := hsim'.uts
  obtain ⟨w', rfl⟩ := hsim'.shape'
  refine ⟨fun u st hst => ?_, h2⟩
  rcases hu u with h0 | ⟨_, st', h0, hc, hd⟩
  · rw [hwc u]
    exact h1 u st (by rw [← hst]; exact h0)
  · rw [hst] at h0
    injection h0 with h0
    subst h0
    rw [zg_calcV1_zero st _ _ hc hd]
    simp

/-- during the distribution the number of winning flags is between the lottery winners and
    `min T0 lastTicketId` -/
theorem winners_bound_guarV1_full (hash : List Nat → List Nat) (a0 : InitArgs)
    (s : State) (r : Nat) (h : g1_ReachFullA hash a0 s r) (hsel : s.flags.selected = true)
    (hna : s.flags.additional = false) :
    s.nrWinning ≤ countTrue s.status s.lastTicketId ∧
    countTrue s.status s.lastTicketId ≤ min a0.nrWinning s.lastTicketId ∧
    (∀ t, s.status t = true → 1 ≤ t ∧ t ≤ s.lastTicketId) := by
  obtain ⟨z, hz, hsim⟩ := zh_Inv_selected (zh_sim h) hsel
  have hfl : z.flags = s.flags := hsim.fields.2.1
  have := g1_winners_bound hz (by rw [hfl]; exact hsel) (by rw [hfl]; exact hna)
  obtain ⟨w, rfl⟩ := hsim.shape'
  exact this

/-! ### 3. launchpad tokens and the vesting ledger -/

/-- before the distribution completes nobody has settled or claimed, and a deposit made so far is
    intact and covers `perTicket × (base winners + reserve)` (same statement as
    `lp_before_distribution_guarV1`) -/
theorem lp_before_distribution_guarV1_full (hash : List Nat → List Nat) (s : State) (r : Nat)
    (h : g1_ReachFull hash s r) (hd : s.flags.additional = false) :
    (∀ a, s.userTotal a = 0 ∧ s.userClaimed a = 0 ∧ s.claimed a = false) ∧
    (s.deposited = true → s.bal (.esdt s.lpTok) 0 = s.totalDeposited ∧
      s.perTicket * (s.nrWinning + s.totalGuaranteed) ≤ s.totalDeposited) ∧
    (s.deposited = false → s.bal (.esdt s.lpTok) 0 = 0 ∧ ∀ a, s.confirmed a = 0) := by
  obtain ⟨a0, h⟩ := g1_ReachFull_iff.mp h
  exact zh_Inv_lp_before (zh_sim h) hd

/-- **`LpCover` in every state**: after the distribution the launchpad tokens held cover every
    outstanding winner; before, a deposit covers the base winners and the whole reserve -/
theorem lp_cover_guarV1_full (hash : List Nat → List Nat) (s : State) (r : Nat)
    (h : g1_ReachFull hash s r) :
    (s.flags.additional = true → LP.Props.C02.LpCover s) ∧
    (s.flags.additional = false → s.deposited = true →
      s.perTicket * (s.nrWinning + s.totalGuaranteed) ≤ s.bal (.esdt s.lpTok) 0) := by
  obtain ⟨a0, h⟩ := g1_ReachFull_iff.mp h
  exact zh_Inv_lp_cover (zh_sim h)

/-- "not yet settled ⇒ no vesting record", and nobody is booked more than his entitlement (same
    statement as `unsettled_no_record_guarV1`) -/
theorem unsettled_no_record_guarV1_full (hash : List Nat → List Nat) (s : State) (r : Nat)
    (h : g1_ReachFull hash s r) :
    (∀ a, s.claimed a = false → s.userTotal a = 0 ∧ s.userClaimed a = 0) ∧
    (∀ a, s.userClaimed a ≤ s.userTotal a) := by
  obtain ⟨a0, h⟩ := g1_ReachFull_iff.mp h
  exact zh_Inv_norec (zh_sim h)

/-- **launchpad-token ledger** after the distribution (same statement as `lp_ledger_guarV1`) -/
theorem lp_ledger_guarV1_full (hash : List Nat → List Nat) (s : State) (r : Nat)
    (h : g1_ReachFull hash s r) (hd : AllDone s) :
    ∃ L : List Nat, L.Nodup ∧ (∀ a, a ∉ L → s.userTotal a = 0 ∧ s.userClaimed a = 0) ∧
      ((s.bal (.esdt s.lpTok) 0 + sumOver s.userClaimed L = s.totalDeposited ∧
        ∃ W, s.claimablePayment = s.price * W ∧
          W * s.perTicket = s.perTicket * s.nrWinning + sumOver s.userTotal L ∧
          W * s.perTicket ≤ s.totalDeposited) ∨
       (s.totalDeposited = 0 ∧ s.claimablePayment = 0 ∧
        s.bal (.esdt s.lpTok) 0 + sumOver s.userClaimed L
          = s.perTicket * s.nrWinning + sumOver s.userTotal L)) := by
  obtain ⟨a0, h⟩ := g1_ReachFull_iff.mp h
  obtain ⟨z, hz, hsim, hdz⟩ := zh_Inv_done (zh_sim h) hd
  have := (hz.vs.lp.post hdz.2).led
  obtain ⟨w, rfl⟩ := hsim.shape'
  exact this

/-- **the launchpad-token balance in closed form** (same statement as `lp_exact_guarV1`) -/
theorem lp_exact_guarV1_full (hash : List Nat → List Nat) (s : State) (r : Nat)
    (h : g1_ReachFull hash s r) (hd : AllDone s) :
    ∃ L : List Nat, L.Nodup ∧ (∀ a, a ∉ L → s.userTotal a = 0 ∧ s.userClaimed a = 0) ∧
      s.bal (.esdt s.lpTok) 0 = ownSurplus s + s.perTicket * s.nrWinning
        + sumOver (fun a => s.userTotal a - s.userClaimed a) L := by
  obtain ⟨a0, h⟩ := g1_ReachFull_iff.mp h
  obtain ⟨z, hz, hsim, hdz⟩ := zh_Inv_done (zh_sim h) hd
  have := g1_lp_exact hz hdz
  obtain ⟨w, rfl⟩ := hsim.shape'
  exact this

/-- **every vested claim is covered** (same statement as `vested_claim_covered_guarV1`) -/
theorem vested_claim_covered_guarV1_full (hash : List Nat → List Nat) (s : State) (r : Nat)
    (h : g1_ReachFull hash s r) (hd : AllDone s) (a : Nat) :
    ownSurplus s + s.perTicket * s.nrWinning + (s.userTotal a - s.userClaimed a)
      ≤ s.bal (.esdt s.lpTok) 0 := by
  obtain ⟨a0, h⟩ := g1_ReachFull_iff.mp h
  obtain ⟨z, hz, hsim, hdz⟩ := zh_Inv_done (zh_sim h) hd
  obtain ⟨L, haL, _, _, heq⟩ := g1_lp_exact_with hz hdz a
  have := rb_le_sumOver (fun x => z.userTotal x - z.userClaimed x) L a haL
  have this' : z.userTotal a - z.userClaimed a ≤ sumOver (fun x => z.userTotal x - z.userClaimed x) L := this
  obtain ⟨w, rfl⟩ := hsim.shape'
  have heq' : s.bal (.esdt s.lpTok) 0 = ownSurplus s + s.perTicket * s.nrWinning
      + sumOver (fun x => s.userTotal x - s.userClaimed x) L := heq
  have this'' : s.userTotal a - s.userClaimed a ≤ sumOver (fun x => s.userTotal x - s.userClaimed x) L := this'
  omega

/-- the launchpad tokens of the winning tickets of ANY address are there -/
theorem unsettled_winner_covered_guarV1_full (hash : List Nat → List Nat) (s : State) (r : Nat)
    (h : g1_ReachFull hash s r) (hd : AllDone s) (a : Nat) :
    s.perTicket * winCountOf s a ≤ s.bal (.esdt s.lpTok) 0 ∧ winCountOf s a ≤ s.nrWinning := by
  have h1 := vested_claim_covered_guarV1_full hash s r h hd a
  obtain ⟨L, hcov, _, hwin, hle, hrg⟩ := three_counts_guarV1_full hash s r h hd
  have hw : winCountOf s a ≤ s.nrWinning := by
    by_cases hz : winCountOf s a = 0
    · omega
    · have hc : s.confirmed a ≠ 0 := by have := hle a; omega
      have := rb_le_sumOver (winCountOf s) L a (hcov.supp a hc)
      omega
  have h2 : s.perTicket * winCountOf s a ≤ s.perTicket * s.nrWinning := Nat.mul_le_mul_left _ hw
  exact ⟨by omega, hw⟩

/-- **exactness of the booked amounts** (same statement as `released_exact_guarV1`): for every
    participant `userClaimed` is `0` or EXACTLY the schedule's released amount at some round
    `r' ≤ r`; a stored schedule is valid; the released percentage is at most 100 % -/
theorem released_exact_guarV1_full (hash : List Nat → List Nat) (s : State) (r : Nat)
    (h : g1_ReachFull hash s r) :
    (∀ a, claimedExactly1 s a r) ∧ (∀ sc, s.sched1 = some sc → validSched1 sc) ∧
    (∀ now, pct1 now s.sched1 ≤ 10000) := by
  obtain ⟨a0, h⟩ := g1_ReachFull_iff.mp h
  exact zh_Inv_exact (zh_sim h)

/-- **one vested claim, first or repeat, from any state reachable with arbitrary allocation
    entries** (same statement as `claim_releases_exactly_guarV1`, plus `EnvOK e`): afterwards the
    caller's cumulative received amount is EXACTLY the schedule's released part of his entitlement
    at the round of the call, never exceeds the entitlement, equals it once the schedule has fully
    released; the contract pays exactly the increment; nobody else's record is touched; the
    entitlement is unchanged on a repeat claim and is `winning tickets × perTicket` on the first
    (for an empty-range address: `0`). -/
theorem claim_releases_exactly_guarV1_full (hash : List Nat → List Nat) (s : State) (r : Nat)
    (h : g1_ReachFull hash s r) (e : Env) (s' : State) (o : Out) (hr : r ≤ e.round) (hok : EnvOK e)
    (hs : step hash s e .claim = .ok (s', o)) :
    s'.sched1 = s.sched1 ∧
    s'.userClaimed e.caller = entitled (s'.userTotal e.caller) (pct1 e.round s.sched1) ∧
    s.userClaimed e.caller ≤ s'.userClaimed e.caller ∧
    s'.userClaimed e.caller ≤ s'.userTotal e.caller ∧
    (∀ sc, s.sched1 = some sc →
      (sc.start + sc.times * sc.period ≤ e.round ∨ (sc.initial = 10000 ∧ sc.start ≤ e.round)) →
      s'.userClaimed e.caller = s'.userTotal e.caller) ∧
    s'.bal (.esdt s.lpTok) 0 + (s'.userClaimed e.caller - s.userClaimed e.caller)
      = s.bal (.esdt s.lpTok) 0 ∧
    (∀ a, a ≠ e.caller → s'.userClaimed a = s.userClaimed a ∧ s'.userTotal a = s.userTotal a) ∧
    (s.claimed e.caller = true → s'.userTotal e.caller = s.userTotal e.caller) ∧
    (s.claimed e.caller = false →
      s'.userTotal e.caller = winCountOf s e.caller * s.perTicket ∧ s.userClaimed e.caller = 0) := by
  obtain ⟨a0, h⟩ := g1_ReachFull_iff.mp h
  have hinv := zh_sim h
  have hle0 := (zh_Inv_norec hinv).2 e.caller
  obtain ⟨z, z', hz, hsim, hz', hsim', hcase⟩ := zh_Inv_claim hinv hr hok hs
  rcases hcase with ⟨hstep, hcc⟩ | ⟨_, hut0, hcase⟩
  · obtain ⟨j1, _, _, _, j5, j6, j7, j8, _, j10, j11⟩ := g1_claim_effect hz hr hstep
    have hwc := hsim.winCountOf_eq e.caller
    have hsch := hz.vs.sch
    obtain ⟨w, rfl⟩ := hsim.shape'
    obtain ⟨w', rfl⟩ := hsim'.shape'
    have j1' : s'.sched1 = s.sched1 := j1
    have j5' : s'.userClaimed e.caller = entitled (s'.userTotal e.caller) (pct1 e.round s.sched1) := j5
    have j6' : s.userClaimed e.caller ≤ s'.userClaimed e.caller := j6
    have j7' : s'.bal (.esdt s.lpTok) 0 + (s'.userClaimed e.caller - s.userClaimed e.caller)
        = s.bal (.esdt s.lpTok) 0 := j7
    have hsch' : ∀ x, s.sched1 = some x → validSched1 x := hsch
    have hcc' : w.C e.caller = s.claimed e.caller := hcc
    refine ⟨j1', j5', j6', ?_, ?_, j7', fun a ha => ⟨(j8 a ha).1, (j8 a ha).2.1⟩, ?_, ?_⟩
    · rw [j5']; exact entitled_le _ (g1_pct1_le hsch' _)
    · intro sc hsc hfull
      rw [j5', hsc]
      show entitled _ (unlockedPct1 e.round sc) = _
      rw [unlockedPct1_full sc (hsch' sc hsc) hfull]
      exact entitled_full _
    · intro hq
      exact j10 (hcc'.trans hq)
    · intro hq
      obtain ⟨k1, k2, _⟩ := j11 (hcc'.trans hq)
      have k1' : s'.userTotal e.caller = winCountOf (zg_w s w) e.caller * s.perTicket := k1
      rw [← hwc] at k1'
      exact ⟨k1', k2⟩
  · have hc0 : s.userClaimed e.caller = 0 := by omega
    have hent : ∀ p, entitled 0 p = 0 := fun p => by simp [entitled]
    rcases hcase with ⟨hs', hcl⟩ | ⟨rg, hrg, hlt, hcl, hs'⟩
    · subst hs'
      refine ⟨rfl, ?_, Nat.le_refl _, ?_, ?_, ?_, fun a _ => ⟨rfl, rfl⟩, fun _ => rfl, fun hq => ?_⟩
      · rw [hc0, hut0, hent]
      · rw [hc0, hut0]; exact Nat.le_refl _
      · intro _ _ _; rw [hc0, hut0]
      · rw [Nat.sub_self, Nat.add_zero]
      · rw [hcl] at hq; cases hq
    · subst hs'
      have hwin0 : winCountOf s e.caller = 0 := by
        have hlen : rangeLen rg = 0 := by unfold rangeLen; omega
        unfold winCountOf
        rw [hrg]
        simp only [hlen, countWinning]
      refine ⟨rfl, ?_, Nat.le_refl _, ?_, ?_, ?_, fun a _ => ⟨rfl, rfl⟩, fun _ => rfl, fun _ => ⟨?_, hc0⟩⟩
      · show s.userClaimed e.caller = entitled (s.userTotal e.caller) _
        rw [hc0, hut0, hent]
      · show s.userClaimed e.caller ≤ s.userTotal e.caller
        rw [hc0, hut0]; exact Nat.le_refl _
      · intro _ _ _
        show s.userClaimed e.caller = s.userTotal e.caller
        rw [hc0, hut0]
      · show s.bal (.esdt s.lpTok) 0 + (s.userClaimed e.caller - s.userClaimed e.caller) = _
        rw [Nat.sub_self, Nat.add_zero]
      · show s.userTotal e.caller = _
        rw [hut0, hwin0, Nat.zero_mul]

/-! ### 4. what an address with an empty range (ghost or not) can do at claim time -/

/-- its FIRST claim pays nothing, moves no balance and records no entitlement: only the caller's
    `claimed` flag, its stale range and the batch slot at the range's first id change -/
theorem empty_range_claim_guarV1_full (hash : List Nat → List Nat) (s : State)
    (r : Nat) (h : g1_ReachFull hash s r) (e : Env) (s' : State) (o : Out) (rg : Range)
    (hr : r ≤ e.round) (hok : EnvOK e) (hcl : s.claimed e.caller = false)
    (hrg : s.range e.caller = some rg) (he : rg.last < rg.first)
    (hs : step hash s e .claim = .ok (s', o)) :
    s' = zg_w s ⟨upd s.range e.caller none, upd s.batch rg.first none, s.blacklist,
                 upd s.claimed e.caller true, s.uts⟩ ∧
    s'.bal = s.bal ∧ s'.nrWinning = s.nrWinning ∧ s'.userTotal = s.userTotal ∧
    s'.userClaimed = s.userClaimed := by
  obtain ⟨a0, h⟩ := g1_ReachFull_iff.mp h
  obtain ⟨z, z', hz, hsim, _, _, hcase⟩ := zh_Inv_claim (zh_sim h) hr hok hs
  have key : s' = zg_w s ⟨upd s.range e.caller none, upd s.batch rg.first none, s.blacklist,
      upd s.claimed e.caller true, s.uts⟩ := by
    rcases hcase with ⟨hstep, _⟩ | ⟨_, _, ⟨_, hc⟩ | ⟨rg', hrg', _, _, hs'⟩⟩
    · exfalso
      have hzn : z.range e.caller = none := by
        rw [hsim.range]; exact z_eraseR_of_empty hrg (by omega)
      have hzc : z.claimed e.caller = false := by
        cases hk : z.claimed e.caller with
        | false => rfl
        | true => rw [hsim.cl _ hk] at hcl; cases hcl
      have h0 := (LP.Props.C10.no_range_cannot_claim hash z e (z', o) hzn hstep).2
      rw [hzc] at h0; cases h0
    · rw [hcl] at hc; cases hc
    · rw [hrg] at hrg'
      injection hrg' with hrg'
      subst hrg'
      exact hs'
  exact ⟨key, by rw [key]; rfl, by rw [key]; rfl, by rw [key]; rfl, by rw [key]; rfl⟩

/-! ### non-vacuity: a launch with a GHOST guarantee, to the very end

  `m1` (LP/Props/C01zeroG1.lean) = deployment `wArgs` (`T0 = 2`, `perTicket = 20`, `price = 10`)
  followed by `addTicketsV1 [(6, 0, 0, true), (7, 2, 0, false)]`: 6 is a ghost (empty range,
  whitelisted, one reserve ticket), 7 holds two tickets and a staking guarantee.  The history goes
  on: schedule, deposit, 7 confirms both tickets, filter, lottery (`nrWinning = 0`: the whole
  reserve is guaranteed), distribution (7's guarantee is honoured, the ghost's guarantee is
  re-drawn: both tickets win), two claims by the ghost (nothing happens). -/

theorem g1F_callOk {hash : List Nat → List Nat} {a0 : InitArgs} {s : State} {r : Nat}
    (e : Env) (c : Call)
    (h : g1_ReachFullA hash a0 s r) (hr : r ≤ e.round) (hok : EnvOK e)
    (hs : isOk (step hash s e c) = true) :
    g1_ReachFullA hash a0 (stOf (step hash s e c) s) e.round := by
  cases hx : step hash s e c with
  | error err => rw [hx] at hs; cases hs
  | ok q =>
    obtain ⟨s', o⟩ := q
    exact .call s r e c s' o h hr hok hx

/-- the output of an accepted call -/
def outOf (x : Res (State × Out)) : Out :=
  match x with
  | .ok (_, o) => o
  | .error _ => {}

theorem step_ok_of_isOk {x : Res (State × Out)} (d : State) (h : isOk x = true) :
    x = .ok (stOf x d, outOf x) := by
  cases x with
  | error err => cases h
  | ok q => rfl

def n2 : State := stOf (step id m1 { caller := 1, round := 1 } (.setSchedule1 16 2500 3 2500 10)) m1
def n3 : State := stOf (step id n2 { caller := 1, round := 2, esdts := [⟨.esdt 1, 0, 40⟩] } .deposit) n2
def n4 : State := stOf (step id n3 { caller := 7, round := 5, egld := 20 } (.confirm 2)) n3
def n5 : State := stOf (step id n4 { caller := 9, round := 10 } .filter) n4
def n6 : State := stOf (step id n5 { caller := 9, round := 11 } .select) n5
def n7 : State := stOf (step id n6 { caller := 9, round := 12 } .distribute) n6
def n8 : State := stOf (step id n7 { caller := 6, round := 16 } .claim) n7
def n9 : State := stOf (step id n8 { caller := 6, round := 17 } .claim) n8

theorem m1_reachFullA : g1_ReachFullA id wArgs m1 1 :=
  g1F_callOk { caller := 1, round := 1 } (.addTicketsV1 [(6, 0, 0, true), (7, 2, 0, false)])
    w0_reach.toFullA (by decide) (Or.inl rfl) (by decide)

theorem n2_reachFullA : g1_ReachFullA id wArgs n2 1 :=
  g1F_callOk { caller := 1, round := 1 } (.setSchedule1 16 2500 3 2500 10) m1_reachFullA
    (by decide) (Or.inl rfl) (by decide)

theorem n3_reachFullA : g1_ReachFullA id wArgs n3 2 :=
  g1F_callOk { caller := 1, round := 2, esdts := [⟨.esdt 1, 0, 40⟩] } .deposit n2_reachFullA
    (by decide) (Or.inl rfl) (by decide)

theorem n4_reachFullA : g1_ReachFullA id wArgs n4 5 :=
  g1F_callOk { caller := 7, round := 5, egld := 20 } (.confirm 2) n3_reachFullA
    (by decide) (Or.inr rfl) (by decide)

theorem n5_reachFullA : g1_ReachFullA id wArgs n5 10 :=
  g1F_callOk { caller := 9, round := 10 } .filter n4_reachFullA (by decide) (Or.inl rfl) (by decide)

theorem n6_reachFullA : g1_ReachFullA id wArgs n6 11 :=
  g1F_callOk { caller := 9, round := 11 } .select n5_reachFullA (by decide) (Or.inl rfl) (by decide)

theorem n7_reachFullA : g1_ReachFullA id wArgs n7 12 :=
  g1F_callOk { caller := 9, round := 12 } .distribute n6_reachFullA (by decide) (Or.inl rfl) (by decide)

theorem n8_reachFullA : g1_ReachFullA id wArgs n8 16 :=
  g1F_callOk { caller := 6, round := 16 } .claim n7_reachFullA (by decide) (Or.inl rfl) (by decide)

theorem n9_reachFullA : g1_ReachFullA id wArgs n9 17 :=
  g1F_callOk { caller := 6, round := 17 } .claim n8_reachFullA (by decide) (Or.inl rfl) (by decide)

/-- the ghost: empty range, whitelisted, one reserve ticket moved -/
example : m1.range 6 = some ⟨1, 0⟩ ∧ m1.whitelist = [6, 7] ∧ m1.totalGuaranteed = 2 ∧
    m1.nrWinning = 0 ∧ m1.uts 6 = some { a := 0, b := 0, c := 0, d := 1 } := by
  refine ⟨rfl, rfl, rfl, rfl, rfl⟩

/-- it survives the filter (the whole reserve is guaranteed: the lottery draws `0` winners) -/
example : n5.flags.filtered = true ∧ n5.range 6 = some ⟨1, 0⟩ ∧ n5.whitelist = [6, 7] ∧
    n5.nrWinning = 0 ∧ n5.lastTicketId = 2 := by
  refine ⟨by decide, by decide, by decide, by decide, by decide⟩

/-- `distribute` pops it, its guarantee is re-drawn: both confirmed tickets win -/
example : AllDone n7 ∧ n7.whitelist = [] ∧ n7.nrWinning = 2 ∧ n7.claimablePayment = 20 ∧
    winCountOf n7 7 = 2 ∧ n7.range 6 = some ⟨1, 0⟩ ∧ n7.claimed 6 = false := by
  refine ⟨⟨by decide, by decide⟩, by decide, by decide, by decide, by decide, by decide, by decide⟩

/-- its claims pay nothing -/
example : n8.claimed 6 = true ∧ n8.range 6 = none ∧ n8.userTotal 6 = 0 ∧
    n8.bal (.esdt 1) 0 = n7.bal (.esdt 1) 0 ∧ n8.bal .egld 0 = n7.bal .egld 0 ∧
    n9.bal (.esdt 1) 0 = n8.bal (.esdt 1) 0 ∧ n9.claimed 6 = true := by
  refine ⟨by decide, by decide, by decide, by decide, by decide, by decide, by decide⟩

/-- `m1` … `n9` are NOT states of the original development, and (before the filter) not even
    erasure-related to one (`m1_not_simulable` of C01zeroG1) -/
example (hash : List Nat → List Nat) (r : Nat) : ¬ g1_Reach hash m1 r :=
  empty_range_not_reach hash m1 r 6 ⟨1, 0⟩ rfl (by decide)

/-- the theorems applied to the concrete history -/
example : (∃ U BU N TG, g1_WF wArgs.nrWinning (zv_sh m1 U BU N TG) 1) ∧ GuarInvX m1 ∧
    m1.nrWinning + m1.totalGuaranteed = 2 :=
  simulation_before_filter id wArgs m1 1 m1_reachFullA rfl

example : ∃ z, g1_WF wArgs.nrWinning z 12 ∧ ZGSim n7 z :=
  simulation_after_filter id wArgs n7 12 n7_reachFullA (by decide)

example : ∃ L : List Nat, Covers n9 L ∧ PayEqPost n9 L := by
  have hr : g1_ReachFull id n9 17 := g1_ReachFull_iff.mpr ⟨wArgs, n9_reachFullA⟩
  obtain ⟨L, h1, _, h3⟩ := C01_solvent_guarV1_full id n9 17 hr
  exact ⟨L, h1, h3 ⟨by decide, by decide⟩⟩

example : n7.nrWinning = min wArgs.nrWinning n7.lastTicketId := by
  have hs : step id n6 { caller := 9, round := 12 } .distribute
      = .ok (n7, outOf (step id n6 { caller := 9, round := 12 } .distribute)) :=
    step_ok_of_isOk n6 (by decide)
  have hret : (outOf (step id n6 { caller := 9, round := 12 } .distribute)).ret = [0] := by decide
  exact (final_winners_guarV1_full_partial id wArgs n6 11 n6_reachFullA { caller := 9, round := 12 } n7 _
    (by decide) (Or.inl rfl) hs hret).2.2.1

example : n7.perTicket * n7.nrWinning ≤ n7.bal (.esdt n7.lpTok) 0 := by
  have hr : g1_ReachFull id n7 12 := g1_ReachFull_iff.mpr ⟨wArgs, n7_reachFullA⟩
  have := vested_claim_covered_guarV1_full id n7 12 hr ⟨by decide, by decide⟩ 7
  omega

example : n8.bal = n7.bal ∧ n8.userTotal = n7.userTotal := by
  have hr : g1_ReachFull id n7 12 := g1_ReachFull_iff.mpr ⟨wArgs, n7_reachFullA⟩
  have hs : step id n7 { caller := 6, round := 16 } .claim
      = .ok (n8, outOf (step id n7 { caller := 6, round := 16 } .claim)) :=
    step_ok_of_isOk n7 (by decide)
  have h := empty_range_claim_guarV1_full id n7 12 hr { caller := 6, round := 16 } n8 _ ⟨1, 0⟩
    (by decide) (Or.inl rfl) (by decide) (by decide) (by decide) hs
  exact ⟨h.2.1, h.2.2.2.1⟩

example : n8.userClaimed 6 = entitled (n8.userTotal 6) (pct1 16 n7.sched1) ∧
    n8.userTotal 6 = winCountOf n7 6 * n7.perTicket := by
  have hr : g1_ReachFull id n7 12 := g1_ReachFull_iff.mpr ⟨wArgs, n7_reachFullA⟩
  have hs : step id n7 { caller := 6, round := 16 } .claim
      = .ok (n8, outOf (step id n7 { caller := 6, round := 16 } .claim)) :=
    step_ok_of_isOk n7 (by decide)
  have h := claim_releases_exactly_guarV1_full id n7 12 hr { caller := 6, round := 16 } n8 _
    (by decide) (Or.inl rfl) hs
  exact ⟨h.2.1, (h.2.2.2.2.2.2.2.2 (by decide)).1⟩

/-- a second history: the ghost is blacklisted (the reserve ticket comes back) and un-blacklisted
    (it is reserved again) before the filter; the reserve is conserved throughout -/
def p2 : State := stOf (step id m1 { caller := 1, round := 2 } (.blacklist [6])) m1
def p3 : State := stOf (step id p2 { caller := 1, round := 3 } (.unblacklist [6])) p2

theorem p2_reachFullA : g1_ReachFullA id wArgs p2 2 :=
  g1F_callOk { caller := 1, round := 2 } (.blacklist [6]) m1_reachFullA (by decide) (Or.inl rfl) (by decide)

theorem p3_reachFullA : g1_ReachFullA id wArgs p3 3 :=
  g1F_callOk { caller := 1, round := 3 } (.unblacklist [6]) p2_reachFullA (by decide) (Or.inl rfl) (by decide)

example : p2.blacklist 6 = true ∧ p2.whitelist = [7] ∧ p2.totalGuaranteed = 1 ∧ p2.nrWinning = 1 ∧
    p3.blacklist 6 = false ∧ p3.whitelist = [7, 6] ∧ p3.totalGuaranteed = 2 ∧ p3.nrWinning = 0 := by
  refine ⟨by decide, by decide, by decide, by decide, by decide, by decide, by decide, by decide⟩

example : p2.nrWinning + p2.totalGuaranteed = wArgs.nrWinning ∧ GuarInvX p3 :=
  ⟨(reserve_guarV1_full id wArgs p2 2 p2_reachFullA).1 (by decide),
   reserve_invariant_guarV1_full id wArgs p3 3 p3_reachFullA (by decide)⟩

end LP.Props.C01zeroG1full

#print axioms LP.Props.C01zeroG1full.simulation
#print axioms LP.Props.C01zeroG1full.simulation_before_filter
#print axioms LP.Props.C01zeroG1full.simulation_after_filter
#print axioms LP.Props.C01zeroG1full.reachZ_is_reachFull
#print axioms LP.Props.C01zeroG1full.reach_is_reachFull
#print axioms LP.Props.C01zeroG1full.C01_solvent_guarV1_full
#print axioms LP.Props.C01zeroG1full.three_counts_guarV1_full
#print axioms LP.Props.C01zeroG1full.owner_withdrawal_covered_guarV1_full
#print axioms LP.Props.C01zeroG1full.claim_refund_covered_guarV1_full
#print axioms LP.Props.C01zeroG1full.reserve_guarV1_full
#print axioms LP.Props.C01zeroG1full.reserve_invariant_guarV1_full
#print axioms LP.Props.C01zeroG1full.final_winners_guarV1_full_partial
#print axioms LP.Props.C01zeroG1full.guarantee_honoured_guarV1_full
#print axioms LP.Props.C01zeroG1full.winners_bound_guarV1_full
#print axioms LP.Props.C01zeroG1full.lp_before_distribution_guarV1_full
#print axioms LP.Props.C01zeroG1full.lp_cover_guarV1_full
#print axioms LP.Props.C01zeroG1full.unsettled_no_record_guarV1_full
#print axioms LP.Props.C01zeroG1full.lp_ledger_guarV1_full
#print axioms LP.Props.C01zeroG1full.lp_exact_guarV1_full
#print axioms LP.Props.C01zeroG1full.vested_claim_covered_guarV1_full
#print axioms LP.Props.C01zeroG1full.unsettled_winner_covered_guarV1_full
#print axioms LP.Props.C01zeroG1full.released_exact_guarV1_full
#print axioms LP.Props.C01zeroG1full.claim_releases_exactly_guarV1_full
#print axioms LP.Props.C01zeroG1full.empty_range_claim_guarV1_full
#print axioms LP.Props.C01zeroG1full.g1F_callOk
#print axioms LP.Props.C01zeroG1full.step_ok_of_isOk
#print axioms LP.Props.C01zeroG1full.m1_reachFullA
#print axioms LP.Props.C01zeroG1full.n2_reachFullA
#print axioms LP.Props.C01zeroG1full.n3_reachFullA
#print axioms LP.Props.C01zeroG1full.n4_reachFullA
#print axioms LP.Props.C01zeroG1full.n5_reachFullA
#print axioms LP.Props.C01zeroG1full.n6_reachFullA
#print axioms LP.Props.C01zeroG1full.n7_reachFullA
#print axioms LP.Props.C01zeroG1full.n8_reachFullA
#print axioms LP.Props.C01zeroG1full.n9_reachFullA
#print axioms LP.Props.C01zeroG1full.p2_reachFullA
#print axioms LP.Props.C01zeroG1full.p3_reachFullA
