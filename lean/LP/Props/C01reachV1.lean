import LP.Proofs.ReachV1Frame
/-
  C01 / C02 / C03 / C11 (reachable-state form) for the v1 guaranteed-ticket launchpads on the
  COMMON claim path: `Variant.migration` (launchpad-migration-guaranteed-tickets) and
  `Variant.lockedGuar` (launchpad-locked-tokens-and-guaranteed-tickets; `v1_Fam v`).

  `v1_Reach hash v s r` (LP/Proofs/ReachV1Base.lean): `s` is reachable by the launchpad `v` from
  some deployment by accepted transactions with non-decreasing rounds, `r` = round of the latest
  transaction (or a later round, constructor `wait`).  Every transaction carries EGLD or ESDT but
  not both (`EnvOK`), and

      *** THE ONE RESTRICTION ON HISTORIES (`v1_CallOK`) ***
      every entry of an `addTicketsV1` call allocates at least one ticket: `1 ≤ staking + energy`.
      A zero-size entry `(a, 0, 0, false)` creates the empty range `[f, f-1]` and a batch slot that
      the next allocation overwrites; such histories are excluded here exactly as zero-size
      `addTickets` entries are excluded in the plain development (LP/Props/C01reach.lean).

  Nothing else is restricted.  In particular `filter`, `select` and `distribute` may be
  interrupted by ANY iteration budget, any number of times, in either loop of `distribute`;
  draws may be scripted.

  1  `C01_solvent_v1` / `C01_solvent_migration` / `C01_solvent_lockedGuar`, corollaries
     `three_counts_v1`, `claim_refund_covered_v1`, `all_settled_nothing_left_v1`
  2  (the restriction above)
  3  `final_winners_v1_partial`, `winners_bound_v1`, `interrupted_distribute_keeps_pre`,
     `proceeds_until_withdrawal_v1`, `proceeds_are_price_times_winners_v1`
  4  `guarantee_honoured_v1`, `whitelisted_iff_v1`
  5  `lp_cover_v1`, `reserve_v1`, `deposit_is_perTicket_times_T0`, `owner_surplus_v1`,
     `lp_zero_at_end_v1`
  Non-vacuity: `ex11_reach` (interrupted filter, three `distribute` calls), `ex14_reach`.
-/
namespace LP.Props.C01reachV1
open LP LP.FY

/-! ### 1. ticket-payment solvency -/

/-- **C01 for the v1 guaranteed-ticket launchpads on the common claim path**: in every reachable
    state — including the middle of interrupted `filter` / `select` / `distribute` calls — the
    contract holds, in the ticket-payment token, exactly the full payment of every confirmed
    ticket until ALL selection steps (lottery and distribution) are complete, and afterwards
    exactly the owner's not-yet-withdrawn proceeds plus `price × (confirmed − winning)` for every
    participant who has not settled. -/
theorem C01_solvent_v1 (hash : List Nat → List Nat) (v : Variant) (hv : v1_Fam v) (s : State)
    (r : Nat) (h : v1_Reach hash v s r) :
    ∃ L : List Nat, Covers s L ∧ (¬ AllDone s → PayEqPre s L) ∧ (AllDone s → PayEqPost s L) := by
  obtain ⟨a0, h⟩ := v1_Reach_iff.mp h
  obtain ⟨L, h1, h2, h3⟩ := v1_WF_ledger (v1_reach_WF hv h)
  exact ⟨L, h1, h2, fun hd => (h3 hd).1⟩

/-- **C01, launchpad-migration-guaranteed-tickets** -/
theorem C01_solvent_migration (hash : List Nat → List Nat) (s : State) (r : Nat)
    (h : v1_Reach hash .migration s r) :
    ∃ L : List Nat, Covers s L ∧ (¬ AllDone s → PayEqPre s L) ∧ (AllDone s → PayEqPost s L) :=
  C01_solvent_v1 hash .migration (Or.inl rfl) s r h

/-- **C01, launchpad-locked-tokens-and-guaranteed-tickets** -/
theorem C01_solvent_lockedGuar (hash : List Nat → List Nat) (s : State) (r : Nat)
    (h : v1_Reach hash .lockedGuar s r) :
    ∃ L : List Nat, Covers s L ∧ (¬ AllDone s → PayEqPre s L) ∧ (AllDone s → PayEqPost s L) :=
  C01_solvent_v1 hash .lockedGuar (Or.inr rfl) s r h

/-- after completion: the winning tickets still held by the participants add up to `nrWinning`;
    nobody holds more winning than confirmed tickets; a range has exactly `confirmed` tickets -/
theorem three_counts_v1 (hash : List Nat → List Nat) (v : Variant) (hv : v1_Fam v) (s : State)
    (r : Nat) (h : v1_Reach hash v s r) (hd : AllDone s) :
    ∃ L : List Nat, Covers s L ∧ PayEqPost s L ∧ sumOver (winCountOf s) L = s.nrWinning ∧
      (∀ a, winCountOf s a ≤ s.confirmed a) ∧
      (∀ a rg, s.range a = some rg → a ∈ L ∧ rangeLen rg = s.confirmed a) := by
  obtain ⟨a0, h⟩ := v1_Reach_iff.mp h
  obtain ⟨L, h1, _, h3⟩ := v1_WF_ledger (v1_reach_WF hv h)
  obtain ⟨hpost, hwin, hle, hrg⟩ := h3 hd
  refine ⟨L, h1, hpost, hwin, hle, fun a rg hr => ?_⟩
  obtain ⟨k1, k2, k3⟩ := hrg a rg hr
  exact ⟨k1, by unfold rangeLen; omega⟩

/-- a participant's refund and the owner's proceeds are covered, whatever happened before -/
theorem claim_refund_covered_v1 (hash : List Nat → List Nat) (v : Variant) (hv : v1_Fam v)
    (s : State) (r : Nat) (h : v1_Reach hash v s r) (hd : AllDone s) (a : Nat) (rg : Range)
    (hr : s.range a = some rg) :
    s.claimablePayment + s.price * (s.confirmed a - winCountOf s a) ≤ s.bal s.payTok 0 := by
  obtain ⟨a0, h⟩ := v1_Reach_iff.mp h
  obtain ⟨L, _, _, h3⟩ := v1_WF_ledger (v1_reach_WF hv h)
  obtain ⟨hpost, _, _, hrg⟩ := h3 hd
  have haL := (hrg a rg hr).1
  have hle := rb_le_sumOver (refundDue s) L a haL
  have hdue : refundDue s a = s.price * (s.confirmed a - winCountOf s a) := by
    simp only [refundDue, hr]
  unfold PayEqPost at hpost
  omega

/-- once every participant has settled and the owner has withdrawn, no payment token is left -/
theorem all_settled_nothing_left_v1 (hash : List Nat → List Nat) (v : Variant) (hv : v1_Fam v)
    (s : State) (r : Nat) (h : v1_Reach hash v s r) (hd : AllDone s)
    (hall : ∀ a, s.range a = none) (hcp : s.claimablePayment = 0) : s.bal s.payTok 0 = 0 := by
  obtain ⟨L, _, _, h3⟩ := C01_solvent_v1 hash v hv s r h
  exact all_settled_zero s L (h3 hd) (fun a _ => hall a) hcp

/-! ### 3. the final number of winners

  NOT A THEOREM: "every `distribute` call sequence completes".  The v1 leftover loop re-draws
  without consuming a position when it hits an already winning ticket, so for adversarial draw
  streams it spins until the fuel/gas runs out (`C03_leftover_v1_may_spin`, LP/Props/C03final.lean);
  such a call is rejected and leaves no trace.  Hence the statement is conditional on the call
  having completed — which is exactly what an accepted call with `ret = [0]` is. -/

/-- **final winner count (v1), PARTIAL in the sense above**: the accepted `distribute` call that
    returns `[0]`, from any reachable state of a launchpad deployed with `a0.nrWinning` winners
    (whatever interruptions happened before): both completion flags are set, the number of
    winning flags equals the stored `nrWinning`, which is
    `min (configured winners) (confirmed tickets)` — the v1 leftover loop stops only when the
    reserve is used up or all tickets win —, the owner's proceeds are `price × nrWinning`, every
    flag lies in `1..lastTicketId`, and no winner of the lottery / an earlier call lost its flag -/
theorem final_winners_v1_partial (hash : List Nat → List Nat) (v : Variant) (hv : v1_Fam v)
    (a0 : InitArgs) (s : State) (r : Nat) (h : v1_ReachA hash v a0 s r) (e : Env) (s' : State)
    (o : Out) (hs : step hash s e .distribute = .ok (s', o)) (hret : o.ret = [0]) :
    AllDone s' ∧
    countTrue s'.status s'.lastTicketId = s'.nrWinning ∧
    s'.nrWinning ≤ min a0.nrWinning s'.lastTicketId ∧
    s'.nrWinning = min a0.nrWinning s'.lastTicketId ∧
    s'.claimablePayment = s'.price * s'.nrWinning ∧
    (∀ t, s'.status t = true → 1 ≤ t ∧ t ≤ s'.lastTicketId) ∧
    (∀ t, s.status t = true → s'.status t = true) := by
  obtain ⟨h1, h2, _, _, h5, h6, h7, h8, h9, _⟩ :=
    v1_distribute_completion (v1_reach_WF hv h) hs hret
  exact ⟨⟨h1, h2⟩, h5, by omega, h6, h7, h8, h9⟩

/-- during the distribution (lottery complete, distribution not — whatever interruptions): the
    number of winning flags is between the lottery winners and `min T0 lastTicketId`, and every
    flag lies in `1..lastTicketId` -/
theorem winners_bound_v1 (hash : List Nat → List Nat) (v : Variant) (hv : v1_Fam v) (a0 : InitArgs)
    (s : State) (r : Nat) (h : v1_ReachA hash v a0 s r) (hsel : s.flags.selected = true)
    (hna : s.flags.additional = false) :
    s.nrWinning ≤ countTrue s.status s.lastTicketId ∧
    countTrue s.status s.lastTicketId ≤ min a0.nrWinning s.lastTicketId ∧
    (∀ t, s.status t = true → 1 ≤ t ∧ t ≤ s.lastTicketId) :=
  v1_winners_bound (v1_reach_WF hv h) hsel hna

/-- after completion the recorded proceeds and the price are frozen until the owner withdraws:
    an accepted call leaves `claimablePayment` unchanged unless it is `claimPayment`, which sets
    it to zero -/
theorem proceeds_until_withdrawal_v1 (hash : List Nat → List Nat) (v : Variant) (hv : v1_Fam v)
    (s : State) (r : Nat) (h : v1_Reach hash v s r) (hd : AllDone s) (e : Env) (c : Call)
    (s' : State) (o : Out) (hr : r ≤ e.round) (hs : step hash s e c = .ok (s', o)) :
    s'.price = s.price ∧ AllDone s' ∧
    (s'.claimablePayment = s.claimablePayment ∨ (c = .claimPayment ∧ s'.claimablePayment = 0)) := by
  obtain ⟨a0, h⟩ := v1_Reach_iff.mp h
  obtain ⟨h1, h2, h3⟩ := v1_proceeds_frame (v1_reach_WF hv h) hr hd hs
  exact ⟨h1, by unfold AllDone; rw [h2]; exact hd, h3⟩

/-- `Later hash s r s2 r2`: `s2` (at round `r2`) is reached from `s` (at round `r`) by accepted
    calls none of which is the owner's withdrawal `claimPayment`, and by the passing of time -/
inductive Later (hash : List Nat → List Nat) (s : State) (r : Nat) : State → Nat → Prop
  | refl : Later hash s r s r
  | call (s1 : State) (r1 : Nat) (e : Env) (c : Call) (s2 : State) (o : Out) :
      Later hash s r s1 r1 → r1 ≤ e.round → EnvOK e → v1_CallOK c → c ≠ .claimPayment →
      step hash s1 e c = .ok (s2, o) → Later hash s r s2 e.round
  | wait (s1 : State) (r1 r2 : Nat) : Later hash s r s1 r1 → r1 ≤ r2 → Later hash s r s1 r2

/-- **until the owner has withdrawn, `claimablePayment = price × (winners at completion)`**: `s'`
    is the state in which the distribution completed (`ret = [0]`), whatever participants claim
    afterwards -/
theorem proceeds_are_price_times_winners_v1 (hash : List Nat → List Nat) (v : Variant)
    (hv : v1_Fam v) (a0 : InitArgs) (s : State) (r : Nat) (h : v1_ReachA hash v a0 s r) (e : Env)
    (s' : State) (o : Out) (hr : r ≤ e.round) (hok : EnvOK e)
    (hs : step hash s e .distribute = .ok (s', o)) (hret : o.ret = [0])
    (s2 : State) (r2 : Nat) (hl : Later hash s' e.round s2 r2) :
    v1_Reach hash v s2 r2 ∧ AllDone s2 ∧
    s2.claimablePayment = s2.price * countTrue s'.status s'.lastTicketId ∧
    countTrue s'.status s'.lastTicketId = min a0.nrWinning s'.lastTicketId := by
  obtain ⟨hd, h1, _, h2, h3, _, _⟩ := final_winners_v1_partial hash v hv a0 s r h e s' o hs hret
  have hreach' : v1_Reach hash v s' e.round :=
    v1_Reach_iff.mpr ⟨a0, .call s r e .distribute s' o h hr hok trivial hs⟩
  have key : v1_Reach hash v s2 r2 ∧ AllDone s2 ∧ s2.price = s'.price ∧
      s2.claimablePayment = s'.claimablePayment := by
    induction hl with
    | refl => exact ⟨hreach', hd, rfl, rfl⟩
    | call s1 r1 e1 c s2 o1 _ k1 k2 k3 k4 k5 ih =>
      obtain ⟨i1, i2, i3, i4⟩ := ih
      obtain ⟨j1, j2, j3⟩ := proceeds_until_withdrawal_v1 hash v hv s1 r1 i1 i2 e1 c s2 o1 k1 k5
      refine ⟨.call s1 r1 e1 c s2 o1 i1 k1 k2 k3 k5, j2, j1.trans i3, ?_⟩
      rcases j3 with j3 | ⟨j3, _⟩
      · exact j3.trans i4
      · exact absurd j3 k4
    | wait s1 r1 r2 _ k1 ih =>
      obtain ⟨i1, i2, i3, i4⟩ := ih
      exact ⟨.wait s1 r1 r2 i1 k1, i2, i3, i4⟩
  obtain ⟨k1, k2, k3, k4⟩ := key
  exact ⟨k1, k2, by rw [k4, k3, h3, h1], by rw [h1, h2]⟩

/-- an accepted `distribute` call that does not return `[0]` is an interruption: it moves no
    token and the state stays reachable with the ledger equation of the selection phase
    (this is `C01_solvent_v1` applied to the successor; spelled out for the record) -/
theorem interrupted_distribute_keeps_pre (hash : List Nat → List Nat) (v : Variant) (hv : v1_Fam v)
    (s : State) (r : Nat) (h : v1_Reach hash v s r) (e : Env) (s' : State) (o : Out)
    (hr : r ≤ e.round) (hok : EnvOK e)
    (hs : step hash s e .distribute = .ok (s', o)) (hnd : ¬ AllDone s') :
    ∃ L : List Nat, Covers s' L ∧ PayEqPre s' L := by
  have h' : v1_Reach hash v s' e.round := .call s r e .distribute s' o h hr hok trivial hs
  obtain ⟨L, h1, h2, _⟩ := C01_solvent_v1 hash v hv s' e.round h'
  exact ⟨L, h1, h2 hnd⟩

/-! ### 4. the guarantees are honoured -/

/-- until the first `distribute` call is accepted (`additional = false`, and `op = none` once the
    lottery is complete) the whitelist is exactly the set of holders of a positive guarantee -/
theorem whitelisted_iff_v1 (hash : List Nat → List Nat) (v : Variant) (hv : v1_Fam v) (s : State)
    (r : Nat) (h : v1_Reach hash v s r) (hna : s.flags.additional = false)
    (hop : s.flags.selected = true → s.op = .none) (u : Nat) :
    u ∈ s.whitelist ↔ ∃ st, s.uts u = some st ∧ st.c + st.d > 0 := by
  obtain ⟨a0, h⟩ := v1_Reach_iff.mp h
  exact v1_whitelist_intact (v1_reach_WF hv h) hna hop u

/-- **guarantees honoured (v1)**: when the distribution completes, every holder `u` of a
    guarantee record `st` (in particular every user whitelisted when the distribution started:
    by `whitelisted_iff_v1` those are exactly the holders of a record with `c + d > 0`, and
    `distribute` writes neither `uts` nor `confirmed`) owns at least
    `min (qualified guarantee) (confirmed tickets)` winning tickets, where the qualified
    guarantee is `(calcV1 st confirmed minConfirmed).1`; and no flag lies outside
    `1..lastTicketId` (the repaired top-up marks only inside the holder's range) -/
theorem guarantee_honoured_v1 (hash : List Nat → List Nat) (v : Variant) (hv : v1_Fam v)
    (a0 : InitArgs) (s : State) (r : Nat) (h : v1_ReachA hash v a0 s r) (e : Env) (s' : State)
    (o : Out) (hs : step hash s e .distribute = .ok (s', o)) (hret : o.ret = [0]) :
    (∀ u st, s'.uts u = some st →
      min (calcV1 st (s'.confirmed u) s'.minConfirmed).1 (s'.confirmed u) ≤ winCountOf s' u) ∧
    (∀ t, s'.status t = true → 1 ≤ t ∧ t ≤ s'.lastTicketId) := by
  obtain ⟨_, _, _, _, _, _, _, h8, _, h10⟩ :=
    v1_distribute_completion (v1_reach_WF hv h) hs hret
  exact ⟨h10, h8⟩

/-! ### 5. the launchpad-token side -/

/-- **`LpCover` is an invariant from the deposit on**: the launchpad tokens held cover every
    outstanding winner; until the distribution is complete they even cover the whole reserve -/
theorem lp_cover_v1 (hash : List Nat → List Nat) (v : Variant) (hv : v1_Fam v) (s : State)
    (r : Nat) (h : v1_Reach hash v s r) (hd : s.deposited = true) :
    LP.Props.C02.LpCover s ∧
    (s.flags.additional = false →
      s.perTicket * (s.nrWinning + s.totalGuaranteed) ≤ s.bal (.esdt s.lpTok) 0) := by
  obtain ⟨a0, h⟩ := v1_Reach_iff.mp h
  have hlp := (v1_reach_WF hv h).lp hd
  unfold v1_owed at hlp
  constructor
  · unfold LP.Props.C02.LpCover
    exact Nat.le_trans (Nat.mul_le_mul_left _ (Nat.le_add_right _ _)) hlp
  · intro hna
    rw [hna] at hlp
    simpa using hlp

/-- the reserve until the filter completes, and the bound afterwards -/
theorem reserve_v1 (hash : List Nat → List Nat) (v : Variant) (hv : v1_Fam v) (a0 : InitArgs)
    (s : State) (r : Nat) (h : v1_ReachA hash v a0 s r) :
    (s.flags.filtered = false → s.nrWinning + s.totalGuaranteed = a0.nrWinning) ∧
    (s.flags.additional = false → s.nrWinning + s.totalGuaranteed ≤ a0.nrWinning) :=
  ⟨v1_reserve_before_filter (v1_reach_WF hv h), v1_owed_le (v1_reach_WF hv h)⟩

/-- **the deposit**: an accepted deposit made before the filter has completed (the only moment a
    launch with confirmations can make it: `confirm` requires the deposit) is exactly
    `perTicket × (nrWinning + totalGuaranteed) = perTicket × T0` launchpad tokens -/
theorem deposit_is_perTicket_times_T0 (hash : List Nat → List Nat) (v : Variant) (hv : v1_Fam v)
    (a0 : InitArgs) (s : State) (r : Nat) (h : v1_ReachA hash v a0 s r) (e : Env) (s' : State)
    (o : Out) (hf : s.flags.filtered = false) (hs : step hash s e .deposit = .ok (s', o)) :
    s'.totalDeposited = s.perTicket * a0.nrWinning ∧ s'.deposited = true ∧
    singleFungible e = .ok (.esdt s.lpTok, s.perTicket * a0.nrWinning) := by
  have hwf := v1_reach_WF hv h
  have hres := v1_reserve_before_filter hwf hf
  have hmax : LP.Props.C02.maxWinners s = a0.nrWinning := by
    unfold LP.Props.C02.maxWinners reservedForDeposit
    rw [(v1_fam_flags hwf.var).2.2.2.2.1]
    exact hres
  obtain ⟨hs', _, _⟩ := LP.Props.C02.deposit_effect hash s s' e o hs
  have hacc := ((LP.Props.C02.deposit_accepted_iff hash s e).mp ⟨_, hs⟩).2.2
  rw [hmax] at hacc
  refine ⟨?_, ?_, hacc⟩
  · rw [hs', hmax]
  · rw [hs']

/-- **the owner can withdraw only the surplus**: after an accepted `claimPayment` the contract
    holds exactly the outstanding winners' launchpad tokens -/
theorem owner_surplus_v1 (hash : List Nat → List Nat) (v : Variant) (hv : v1_Fam v) (s : State)
    (r : Nat) (h : v1_Reach hash v s r) (e : Env) (s' : State) (o : Out)
    (hs : step hash s e .claimPayment = .ok (s', o)) :
    s'.bal (.esdt s'.lpTok) 0 = s'.perTicket * s'.nrWinning ∧ s'.nrWinning = s.nrWinning ∧
    s'.claimablePayment = 0 := by
  obtain ⟨a0, h⟩ := v1_Reach_iff.mp h
  have hwf := v1_reach_WF hv h
  obtain ⟨t, hx, rfl⟩ := rb_step_np (by intro m hm; simp [endpointMeta] at hm; rw [← hm]) hs
  obtain ⟨hv1, hv2, _⟩ := v1_fam_flags hwf.var
  simp only [exec, rbTx_s, hv1, Bool.false_eq_true, if_false, bind_ok_iff] at hx
  obtain ⟨t1, h1, hfin⟩ := hx
  obtain ⟨_, B, cp, hs1, _⟩ := rb_claimPaymentCommon_frame h1
  simp only [rbTx_s] at hs1
  have hvar : t1.s.variant = s.variant := by rw [hs1]
  rw [hvar, hv2] at hfin
  simp only [Bool.false_eq_true, if_false, pure_ok_iff] at hfin
  subst hfin
  obtain ⟨_, hsur, k1, k2, k3⟩ := LP.Props.C02.owner_gets_only_surplus (rbTx s e) t1 e hwf.tokNe h1
  simp only [rbTx_s] at hsur k1 k2 k3
  obtain ⟨hst, _⟩ := rb_claimPaymentCommon_frame h1
  obtain ⟨_, hadd, _, _⟩ := v1_stage_claim hst
  have hD := v1_phase_D hwf.phase hadd
  obtain ⟨L, _, _, hpost, _⟩ := hD.led
  have hpost0 : PayEqPost (rbTx s e).s L := (rb_PayPost_iff s L).mpr hpost
  obtain ⟨_, hz, _, _⟩ :=
    LP.Props.C01.claimPaymentCommon_keeps_post (rbTx s e) t1 e L hwf.tokNe h1 hpost0
  exact ⟨by rw [k3, k2, k1]; exact hsur, k1, hz⟩

/-- **nothing is left at the end**: once every participant has settled, no winner is
    outstanding, and the owner's withdrawal leaves no launchpad token in the contract -/
theorem lp_zero_at_end_v1 (hash : List Nat → List Nat) (v : Variant) (hv : v1_Fam v) (s : State)
    (r : Nat) (h : v1_Reach hash v s r) (hd : AllDone s) (hall : ∀ a, s.range a = none)
    (e : Env) (s' : State) (o : Out) (hs : step hash s e .claimPayment = .ok (s', o)) :
    s.nrWinning = 0 ∧ s'.bal (.esdt s'.lpTok) 0 = 0 := by
  obtain ⟨a0, h0⟩ := v1_Reach_iff.mp h
  have hz := v1_all_settled_nrWinning (v1_reach_WF hv h0) hd hall
  obtain ⟨k1, k2, _⟩ := owner_surplus_v1 hash v hv s r h e s' o hs
  exact ⟨hz, by rw [k1, k2, hz]; simp⟩

/-! ### non-vacuity: a concrete history through the whole lifecycle

  Three participants (7: staking guarantee; 8: staking + migration guarantee, one ticket
  confirmed only; 9: no guarantee), `T0 = 4`, an interrupted `filter`, and THREE `distribute`
  calls: interrupted in the top-up loop, interrupted in the leftover loop, completed. -/

def exArgs : InitArgs :=
  { lpTok := 1, perTicket := 5, payTok := .egld, price := 10, nrWinning := 4, conf := 5, sel := 10, claim := 15 }

def stOf (x : Res (State × Out)) (d : State) : State :=
  match x with
  | .ok (s, _) => s
  | .error _ => d

def isOk {α : Type} (x : Res α) : Bool :=
  match x with
  | .ok _ => true
  | .error _ => false

theorem callOk {hash : List Nat → List Nat} {v : Variant} {a0 : InitArgs} {s : State} {r : Nat}
    (e : Env) (c : Call)
    (h : v1_ReachA hash v a0 s r) (hr : r ≤ e.round) (hok : EnvOK e) (hc : v1_CallOK c)
    (hs : isOk (step hash s e c) = true) :
    v1_ReachA hash v a0 (stOf (step hash s e c) s) e.round := by
  cases hx : step hash s e c with
  | error err => rw [hx] at hs; cases hs
  | ok q =>
    obtain ⟨s', o⟩ := q
    exact .call s r e c s' o h hr hok hc hx

def ex0 : State := match init .migration exArgs { caller := 1, round := 0 } with
  | .ok s => s
  | .error _ => default

def exAlloc : List (Nat × Nat × Nat × Bool) := [(7, 2, 1, false), (8, 1, 0, true), (9, 0, 2, false)]

def ex1 : State := stOf (step id ex0 { caller := 1, round := 1 } (.addTicketsV1 exAlloc)) ex0
def ex2 : State := stOf (step id ex1 { caller := 1, round := 2, esdts := [⟨.esdt 1, 0, 20⟩] } .deposit) ex1
def ex3 : State := stOf (step id ex2 { caller := 7, round := 5, egld := 20 } (.confirm 2)) ex2
def ex4 : State := stOf (step id ex3 { caller := 8, round := 6, egld := 10 } (.confirm 1)) ex3
def ex5 : State := stOf (step id ex4 { caller := 9, round := 6, egld := 20 } (.confirm 2)) ex4
def ex6 : State := stOf (step id ex5 { caller := 9, round := 10, budget := some 0 } .filter) ex5
def ex7 : State := stOf (step id ex6 { caller := 9, round := 11 } .filter) ex6
def ex8 : State := stOf (step id ex7 { caller := 9, round := 12 } .select) ex7
def ex9 : State := stOf (step id ex8 { caller := 9, round := 13, budget := some 0 } .distribute) ex8
def ex10 : State := stOf (step id ex9 { caller := 9, round := 13, budget := some 1 } .distribute) ex9
def ex11 : State := stOf (step id ex10 { caller := 9, round := 14 } .distribute) ex10

theorem ex0_reach : v1_ReachA id .migration exArgs ex0 0 :=
  v1_ReachA.init { caller := 1, round := 0 } ex0 rfl

theorem ex5_reach : v1_ReachA id .migration exArgs ex5 6 :=
  callOk { caller := 9, round := 6, egld := 20 } (.confirm 2)
    (callOk { caller := 8, round := 6, egld := 10 } (.confirm 1)
      (callOk { caller := 7, round := 5, egld := 20 } (.confirm 2)
        (callOk { caller := 1, round := 2, esdts := [⟨.esdt 1, 0, 20⟩] } .deposit
          (callOk { caller := 1, round := 1 } (.addTicketsV1 exAlloc)
            ex0_reach (by decide) (Or.inl rfl)
            (by show ∀ q ∈ exAlloc, 1 ≤ q.2.1 + q.2.2.1; decide) rfl)
          (by decide) (Or.inl rfl) trivial rfl)
        (by decide) (Or.inr rfl) trivial rfl)
      (by decide) (Or.inr rfl) trivial rfl)
    (by decide) (Or.inr rfl) trivial rfl

theorem ex8_reach : v1_ReachA id .migration exArgs ex8 12 :=
  callOk { caller := 9, round := 12 } .select
    (callOk { caller := 9, round := 11 } .filter
      (callOk { caller := 9, round := 10, budget := some 0 } .filter ex5_reach
        (by decide) (Or.inl rfl) trivial rfl)
      (by decide) (Or.inl rfl) trivial rfl)
    (by decide) (Or.inl rfl) trivial rfl

theorem ex10_reach : v1_ReachA id .migration exArgs ex10 13 :=
  callOk { caller := 9, round := 13, budget := some 1 } .distribute
    (callOk { caller := 9, round := 13, budget := some 0 } .distribute ex8_reach
      (by decide) (Or.inl rfl) trivial rfl)
    (by decide) (Or.inl rfl) trivial rfl

/-- the hypotheses of the theorems are satisfiable: three `distribute` calls, interrupted in the
    first loop, interrupted in the second loop, completed -/
theorem ex11_reach : v1_ReachA id .migration exArgs ex11 14 :=
  callOk { caller := 9, round := 14 } .distribute ex10_reach (by decide) (Or.inl rfl) trivial rfl

/-- `final_winners_v1_partial` and `guarantee_honoured_v1` on the concrete history: the third
    `distribute` call is accepted with `ret = [0]`; 4 = min 4 5 tickets win; holder 8 (qualified
    guarantee 2, one confirmed ticket) wins with his only ticket, holder 7 with both -/
example : ∃ s' o, step id ex10 { caller := 9, round := 14 } .distribute = .ok (s', o) ∧
    o.ret = [0] ∧ s'.nrWinning = min exArgs.nrWinning s'.lastTicketId ∧ s'.nrWinning = 4 ∧
    winCountOf s' 7 = 2 ∧ winCountOf s' 8 = 1 ∧ winCountOf s' 9 = 1 := by
  refine ⟨_, _, rfl, rfl, ?_, rfl, rfl, rfl, rfl⟩
  exact (final_winners_v1_partial id .migration (Or.inl rfl) exArgs ex10 13 ex10_reach
    { caller := 9, round := 14 } _ _ rfl rfl).2.2.2.1

example : ex1.nrWinning = 1 ∧ ex1.totalGuaranteed = 3 ∧ ex1.whitelist = [7, 8] ∧
    ex6.op = .filter 4 1 ∧ ex8.nrWinning = 1 ∧ ex8.claimablePayment = 10 ∧
    ex9.whitelist = [8] ∧ ex10.whitelist = [] ∧ ¬ AllDone ex10 ∧
    AllDone ex11 ∧ ex11.nrWinning = 4 ∧ ex11.lastTicketId = 5 ∧ ex11.claimablePayment = 40 ∧
    ex11.bal .egld 0 = 50 ∧ ex11.bal (.esdt 1) 0 = 20 := by
  refine ⟨rfl, rfl, rfl, rfl, rfl, rfl, rfl, rfl, ?_, ⟨rfl, rfl⟩, rfl, rfl, rfl, rfl, rfl⟩
  intro h; cases h.2

/-- the main theorem applied to the concrete history, in the middle of the distribution and after it -/
example : (∃ L : List Nat, Covers ex10 L ∧ PayEqPre ex10 L) ∧
    (∃ L : List Nat, Covers ex11 L ∧ PayEqPost ex11 L) := by
  obtain ⟨L, h1, h2, _⟩ := C01_solvent_migration id ex10 13 (v1_Reach_iff.mpr ⟨_, ex10_reach⟩)
  obtain ⟨L', k1, _, k3⟩ := C01_solvent_migration id ex11 14 (v1_Reach_iff.mpr ⟨_, ex11_reach⟩)
  exact ⟨⟨L, h1, h2 (fun h => by cases h.2)⟩, ⟨L', k1, k3 ⟨rfl, rfl⟩⟩⟩

/-- the locked variant of the family is not vacuous either -/
example : ∃ s, v1_Reach id .lockedGuar s 0 ∧ s.lockPct = 5000 :=
  ⟨_, v1_Reach.init { exArgs with lockPct := 5000, unlockEpoch := 10, lockAddr := 99 }
    { caller := 1, round := 0, isContract := fun a => a == 99 } _ rfl, rfl⟩

/-- ... continued: participant 7 settles, the owner withdraws (proceeds and launchpad-token
    surplus), participant 8 settles; what is left is exactly participant 9's refund and winning
    ticket (a third settlement is not evaluated here only because kernel evaluation of the nested
    flag maps gets slow; `lp_zero_at_end_v1` / `all_settled_nothing_left_v1` cover the end) -/
def ex12 : State := stOf (step id ex11 { caller := 7, round := 15 } .claim) ex11
def ex13 : State := stOf (step id ex12 { caller := 1, round := 16 } .claimPayment) ex12
def ex14 : State := stOf (step id ex13 { caller := 8, round := 17 } .claim) ex13

theorem ex13_reach : v1_ReachA id .migration exArgs ex13 16 :=
  callOk { caller := 1, round := 16 } .claimPayment
    (callOk { caller := 7, round := 15 } .claim ex11_reach
      (by decide) (Or.inl rfl) trivial rfl)
    (by decide) (Or.inl rfl) trivial rfl

theorem ex14_reach : v1_ReachA id .migration exArgs ex14 17 :=
  callOk { caller := 8, round := 17 } .claim ex13_reach (by decide) (Or.inl rfl) trivial rfl

example : ex12.bal .egld 0 = 50 ∧ ex12.bal (.esdt 1) 0 = 10 ∧ ex12.nrWinning = 2 ∧
    ex13.bal .egld 0 = 10 ∧ ex13.bal (.esdt 1) 0 = 10 ∧ ex13.claimablePayment = 0 ∧
    ex14.bal .egld 0 = 10 ∧ ex14.bal (.esdt 1) 0 = 5 ∧ ex14.nrWinning = 1 ∧ ex14.range 7 = none := by
  refine ⟨rfl, rfl, rfl, rfl, rfl, rfl, rfl, rfl, rfl, rfl⟩

end LP.Props.C01reachV1

#print axioms LP.Props.C01reachV1.C01_solvent_v1
#print axioms LP.Props.C01reachV1.C01_solvent_migration
#print axioms LP.Props.C01reachV1.C01_solvent_lockedGuar
#print axioms LP.Props.C01reachV1.three_counts_v1
#print axioms LP.Props.C01reachV1.claim_refund_covered_v1
#print axioms LP.Props.C01reachV1.all_settled_nothing_left_v1
#print axioms LP.Props.C01reachV1.final_winners_v1_partial
#print axioms LP.Props.C01reachV1.interrupted_distribute_keeps_pre
#print axioms LP.Props.C01reachV1.winners_bound_v1
#print axioms LP.Props.C01reachV1.proceeds_until_withdrawal_v1
#print axioms LP.Props.C01reachV1.proceeds_are_price_times_winners_v1
#print axioms LP.Props.C01reachV1.guarantee_honoured_v1
#print axioms LP.Props.C01reachV1.whitelisted_iff_v1
#print axioms LP.Props.C01reachV1.lp_cover_v1
#print axioms LP.Props.C01reachV1.reserve_v1
#print axioms LP.Props.C01reachV1.deposit_is_perTicket_times_T0
#print axioms LP.Props.C01reachV1.owner_surplus_v1
#print axioms LP.Props.C01reachV1.lp_zero_at_end_v1
#print axioms LP.Props.C01reachV1.ex11_reach
#print axioms LP.Props.C01reachV1.ex14_reach

#print axioms LP.Props.C01reachV1.callOk
#print axioms LP.Props.C01reachV1.ex0_reach
#print axioms LP.Props.C01reachV1.ex5_reach
#print axioms LP.Props.C01reachV1.ex8_reach
#print axioms LP.Props.C01reachV1.ex10_reach
#print axioms LP.Props.C01reachV1.ex13_reach
