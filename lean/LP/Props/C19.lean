import LP.Proofs.StepLemmas
/-
  C19 — Pause freezes confirmations and selection steps without side effects.
-/
namespace LP.Props.C19
open LP

/-- while paused, confirmations, filtering and base selection are rejected in every variant -/
theorem paused_rejects (hash : List Nat → List Nat) (s : State) (e : Env) (c : Call)
    (hp : s.paused = true) (hc : (∃ n, c = .confirm n) ∨ c = .filter ∨ c = .select) :
    ∃ err, step hash s e c = .error err := by
  cases h : step hash s e c with
  | error err => exact ⟨err, rfl⟩
  | ok r =>
    obtain ⟨s', o⟩ := r
    obtain ⟨m, t, _, _, _, hx, _, _⟩ := step_ok_inv h
    rcases hc with ⟨n, rfl⟩ | rfl | rfl
    · simp [exec, confirmTickets, bind_ok_iff, tx0, hp] at hx
    · simp [exec, filterTickets, bind_ok_iff, tx0, hp] at hx
    · simp [exec, selectWinners, bind_ok_iff, tx0, hp] at hx

/-- in v2 also the distribution step and claims are rejected while paused -/
theorem paused_rejects_v2 (hash : List Nat → List Nat) (s : State) (e : Env) (c : Call)
    (hv : s.variant = .guarV2) (hp : s.paused = true) (hc : c = .distribute ∨ c = .claim) :
    ∃ err, step hash s e c = .error err := by
  cases h : step hash s e c with
  | error err => exact ⟨err, rfl⟩
  | ok r =>
    obtain ⟨s', o⟩ := r
    obtain ⟨m, t, _, _, _, hx, _, _⟩ := step_ok_inv h
    rcases hc with rfl | rfl
    · simp [exec, distribute, bind_ok_iff, tx0, hp, hv, Variant.isV2] at hx
    · simp [exec, claimVested, bind_ok_iff, tx0, hp, hv, Variant.isV2, Variant.vested] at hx

/-- `pause` / `unpause` change nothing but the flag (they are not payable, so no value moves) -/
theorem pause_effect (hash : List Nat → List Nat) (s : State) (e : Env) (s' : State) (o : Out)
    (h : step hash s e .pause = .ok (s', o)) : s' = { s with paused := true } ∧ o.xfers = [] := by
  obtain ⟨m, t, hm, hpay, _, hx, hs, ho⟩ := step_ok_inv h
  simp [endpointMeta] at hm
  subst hm
  simp at hpay
  simp [exec, pure, Except.pure] at hx
  subst hx
  simp [hs, ho, tx0, Tx.setS, Tx.emit, creditPayments_nopay s e hpay.1 hpay.2]

theorem unpause_effect (hash : List Nat → List Nat) (s : State) (e : Env) (s' : State) (o : Out)
    (h : step hash s e .unpause = .ok (s', o)) : s' = { s with paused := false } ∧ o.xfers = [] := by
  obtain ⟨m, t, hm, hpay, _, hx, hs, ho⟩ := step_ok_inv h
  simp [endpointMeta] at hm
  subst hm
  simp at hpay
  simp [exec, pure, Except.pure] at hx
  subst hx
  simp [hs, ho, tx0, Tx.setS, Tx.emit, creditPayments_nopay s e hpay.1 hpay.2]

/-- **after unpause the state is exactly the state before the pause**: a pause, any number of
    rejected calls, then an unpause, from a non-paused state `s`, end in `s` itself — every field,
    including a saved interrupted operation (`s.op`), ticket maps and balances.  Hence every later
    call behaves exactly as if the pause had never happened. -/
theorem pause_roundtrip (hash : List Nat → List Nat) (s : State) (e1 e2 : Env)
    (mid : List (Env × Call)) (s1 s2 : State) (o1 o2 : Out)
    (hnp : s.paused = false)
    (h1 : step hash s e1 .pause = .ok (s1, o1))
    (hmid : ∀ ec ∈ mid, ∃ err, step hash s1 ec.1 ec.2 = .error err)
    (h2 : step hash s1 e2 .unpause = .ok (s2, o2)) :
    run hash s ((e1, Call.pause) :: mid ++ [(e2, Call.unpause)]) = s := by
  have hs1 := (pause_effect hash s e1 s1 o1 h1).1
  have hs2 := (unpause_effect hash s1 e2 s2 o2 h2).1
  have hrun : ∀ (l : List (Env × Call)), (∀ ec ∈ l, ∃ err, step hash s1 ec.1 ec.2 = .error err) →
      run hash s1 (l ++ [(e2, Call.unpause)]) = s2 := by
    intro l
    induction l with
    | nil => intro _; simp [run, h2]
    | cons x xs ih =>
      intro hall
      obtain ⟨err, herr⟩ := hall x (by simp)
      have : run hash s1 (x :: xs ++ [(e2, Call.unpause)]) = run hash s1 (xs ++ [(e2, Call.unpause)]) := by
        obtain ⟨xe, xc⟩ := x
        simp [run, herr]
      rw [this]
      exact ih (fun ec hec => hall ec (by simp [hec]))
  have : run hash s ((e1, Call.pause) :: mid ++ [(e2, Call.unpause)]) = run hash s1 (mid ++ [(e2, Call.unpause)]) := by
    simp [run, h1]
  rw [this, hrun mid hmid, hs2, hs1]
  cases s
  simp_all

/-- non-vacuity: pausing a deployed contract and confirming is rejected -/
example : ∃ s : State, s.paused = true ∧ ∃ err, step id s { caller := 7, round := 6, egld := 20 } (.confirm 2) = .error err := by
  refine ⟨{ variant := .base, owner := 1, lpTok := 1, perTicket := 1, payTok := .egld, price := 10,
            nrWinning := 1, cfg := ⟨5, 10, 15⟩, flags := {}, support := 1, deposited := true, paused := true }, rfl, _, rfl⟩

end LP.Props.C19

#print axioms LP.Props.C19.paused_rejects
#print axioms LP.Props.C19.paused_rejects_v2
#print axioms LP.Props.C19.pause_effect
#print axioms LP.Props.C19.unpause_effect
#print axioms LP.Props.C19.pause_roundtrip
