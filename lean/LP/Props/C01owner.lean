import LP.Proofs.OwnerReceipts
import LP.Props.C01receipts
import LP.Props.C03proceeds
import LP.Props.C13reachV2
import LP.Props.C01reachG1
/-
  C01 "owner: price × winners", C02 "the owner can withdraw only the surplus", C13 "floor formula
  for totals" — what `LP/Props/C01receipts.lean` (section 4) left partial.
  Helpers: LP/Proofs/OwnerReceipts.lean (prefix `ow_`).

  Vocabulary
    `cr_paid tok a xfers`       amount of the fungible token `tok` (nonce 0) the transfers send to `a`
    `ow_isWithdrawal x`         the log entry `x` is an accepted `claimPayment`
    `ow_withdrawn tok a log`    Σ over the `claimPayment` entries of the log of `cr_paid tok a`
    `ow_nftPart s tok`          `claimableNft` if the variant has the NFT draw and the NFT fee is
                                charged in the fungible token `tok`, else 0
    `ow_surplus s`              vested variants: `totalDeposited − (claimablePayment / price) × perTicket`;
                                the six others: `bal lpTok − perTicket × nrWinning`
    `ow_due s tok`              `(tok = payTok ? claimablePayment) + (tok = lpTok ? ow_surplus s)
                                 + ow_nftPart s tok`

  1  `claimPayment_exact` (any covered state), `claimPayment_exact_every_variant` (`match v with`).
  2  `owner_withdrawals_from_done` (from completion, any fungible token: the first accepted
     withdrawal pays `ow_due`, every later one 0), `owner_proceeds_total` (from the completing call:
     `price × W`, `W = min T0 lastTicketId`, exactly once), `owner_total_with_own_tickets`
     (owner's total = withdrawals + `Σ cr_owedPay`).
  3  `owner_surplus_total` (launchpad token, all eight; exact value, later withdrawals 0),
     `owner_surplus_vested_from_completion` (guarV1/guarV2: `totalDeposited − perTicket × W`).
  4  `vested_total_guarV2`, `vested_total_guarV1` (cumulative receipts = floor formula).

  LEFT PARTIAL
  * the side condition `deposited = true` in section 3: without a deposit the owner can still call
    `deposit` after completion (no stage check in `deposit_launchpad_tokens`; then nobody confirmed,
    `W = 0`), which credits the contract and would be withdrawn by a later `claimPayment`; the
    payment-token statements need no such condition.
  * six non-vested contracts: the bound `surplus ≤ totalDeposited − perTicket × W` in terms of the
    RECORDED deposit is not proved uniformly here (it needs "balance = recorded deposit until the
    first claim", available per family only: `LP.PL.lp_ledger_plain`, `C02_cover_every_variant`);
    what is proved for all eight is the exact value `bal − perTicket × nrWinning` as evaluated at
    completion (frozen until the withdrawal) and `≤` it.  For guarV1/guarV2 the recorded-deposit
    form is proved exactly.
  * `owner_total_with_own_tickets` gives the owner's participant part as `Σ cr_owedPay` (the terms
    are explicit by definition, `payment_per_transaction`); the closed form "0 or `cr_due`" of
    `payment_after_completion` is not re-proved for `a = owner`.
  * `vested_total_*` take the winner's settlement as the FIRST transaction of the history (so that
    "winning tickets at settlement" is `winCountOf s a` of the starting state); transactions before
    his settlement give him nothing (`vested_after_completion` with `userClaimed = 0`), but the
    concatenation is not stated as one theorem.  guarV1 needs a stored schedule (`sched1 = some sc`).
-/
namespace LP.Props.C01owner
open LP LP.FY LP.Props.C09 LP.Props.C17 LP.Props.AllVariants LP.Props.C01receipts

/-! ## 1. one accepted `claimPayment`, exactly -/

/-- **an accepted `claimPayment` in a reachable state of any of the eight contracts, exactly.**
    The caller is the owner, all selection steps are complete, the stage is Claim.  The owner
    receives
      * in the payment token: `claimablePayment`, plus `claimableNft` when the variant has the NFT
        draw and the NFT fee is charged in the payment token (`ow_nftPart s s.payTok`);
      * in the launchpad token: the surplus `ow_surplus s` — `bal − perTicket × nrWinning` (six
        contracts with the common withdrawal), `totalDeposited − (claimablePayment / price) ×
        perTicket` (guarV1, guarV2), nothing else;
      * in any other fungible token `tok`: `ow_nftPart s tok` (the NFT proceeds, if charged in `tok`);
    nobody else receives anything.  Afterwards `claimablePayment = 0`, `claimableNft = 0` (NFT
    variants), the surplus is 0, `nrWinning` is unchanged; the common withdrawal leaves exactly
    `perTicket × nrWinning` launchpad tokens, the vested one clears `totalDeposited`. -/
theorem claimPayment_exact (hash : List Nat → List Nat) (s : State) (r : Nat)
    (h : Covered hash s r) (e : Env) (s' : State) (o : Out)
    (hs : step hash s e .claimPayment = .ok (s', o)) :
    e.caller = s.owner ∧ AllDone s ∧ s.stage e = .claim ∧
    cr_paid s.payTok s.owner o.xfers = s.claimablePayment + ow_nftPart s s.payTok ∧
    cr_paid (.esdt s.lpTok) s.owner o.xfers = ow_surplus s ∧
    (∀ tok, cr_paid tok s.owner o.xfers = ow_due s tok) ∧
    (∀ tok a, a ≠ s.owner → cr_paid tok a o.xfers = 0) ∧
    (s.variant.hasNft = false → ∀ tok, ow_nftPart s tok = 0) ∧
    (s.variant.vested = false → ow_surplus s = s.bal (.esdt s.lpTok) 0 - s.perTicket * s.nrWinning) ∧
    (s.variant.vested = true →
      ow_surplus s = s.totalDeposited - s.claimablePayment / s.price * s.perTicket) ∧
    s'.claimablePayment = 0 ∧ (s.variant.hasNft = true → s'.claimableNft = 0) ∧
    ow_surplus s' = 0 ∧ (∀ tok, ow_due s' tok = 0) ∧ s'.nrWinning = s.nrWinning ∧
    (s.variant.vested = true → s'.totalDeposited = 0) ∧
    (s.variant.vested = false → s.perTicket * s.nrWinning ≤ s.bal (.esdt s.lpTok) 0 ∧
      s'.bal (.esdt s.lpTok) 0 = s.perTicket * s.nrWinning) := by
  have hS := cr_static_covered h
  obtain ⟨k1, k2, k3, k4, k5, _, k7, k8, k9, k10⟩ := ow_claimPayment_exact hS.tokNe hS.feeNe hs
  have hd : AllDone s := ⟨(claim_stage_selected k2).1, (claim_stage_selected k2).2.1⟩
  have hlp : cr_paid (.esdt s.lpTok) s.owner o.xfers = ow_surplus s := by
    have : cr_paid (.esdt s.lpTok) s.owner o.xfers = ow_due s (.esdt s.lpTok) := k3 _
    rw [this, ow_due_lp hS]
  have hpay : cr_paid s.payTok s.owner o.xfers = s.claimablePayment + ow_nftPart s s.payTok := by
    have : cr_paid s.payTok s.owner o.xfers = ow_due s s.payTok := k3 _
    rw [this, ow_due_other hS.tokNe]; simp
  refine ⟨k1, hd, k2, hpay, hlp, k3, fun tok a ha => (owner_only_from_withdrawals hash s e s' o hs tok a ha).2,
    fun hn tok => by simp [ow_nftPart, hn], fun hv => by simp [ow_surplus, hv],
    fun hv => by simp [ow_surplus, hv], k4, k5, k7, ow_due_zero_after hS hs, k8, k9,
    fun hv => ⟨(k10 hv).2.1, (k10 hv).2.2⟩⟩

/-- the variant stored in a reachable state of contract `v` is `v` -/
theorem variant_of_reachOf (hash : List Nat → List Nat) (v : Variant) (s : State) (r : Nat)
    (h : ReachOf hash v s r) : s.variant = v := by
  cases v <;> simp only [ReachOf] at h
  · exact rc_variant_reach h
  · exact rc_variant_reach h
  · exact rc_variant_reach h
  · exact variant_g1 h
  · exact rc_variant_reach h
  · exact rc_variant_v1 h
  · exact rc_variant_v1 h
  · exact rc_variant_ng h

/-- the same per variant (`ReachOf hash v`), with the two amounts written out -/
theorem claimPayment_exact_every_variant (hash : List Nat → List Nat) (v : Variant) (s : State)
    (r : Nat) (h : ReachOf hash v s r) (e : Env) (s' : State) (o : Out)
    (hs : step hash s e .claimPayment = .ok (s', o)) :
    s.variant = v ∧ e.caller = s.owner ∧ AllDone s ∧
    s'.claimablePayment = 0 ∧ (v.hasNft = true → s'.claimableNft = 0) ∧
    (match v with
     | .guarV1 | .guarV2 =>
        cr_paid s.payTok s.owner o.xfers = s.claimablePayment ∧
        cr_paid (.esdt s.lpTok) s.owner o.xfers
          = s.totalDeposited - s.claimablePayment / s.price * s.perTicket ∧
        s'.totalDeposited = 0
     | .nft | .nftGuar =>
        cr_paid s.payTok s.owner o.xfers = s.claimablePayment +
          (if s.nftCost.tok = s.payTok ∧ s.nftCost.nonce = 0 then s.claimableNft else 0) ∧
        cr_paid (.esdt s.lpTok) s.owner o.xfers
          = s.bal (.esdt s.lpTok) 0 - s.perTicket * s.nrWinning ∧
        s'.bal (.esdt s.lpTok) 0 = s.perTicket * s.nrWinning
     | _ =>
        cr_paid s.payTok s.owner o.xfers = s.claimablePayment ∧
        cr_paid (.esdt s.lpTok) s.owner o.xfers
          = s.bal (.esdt s.lpTok) 0 - s.perTicket * s.nrWinning ∧
        s'.bal (.esdt s.lpTok) 0 = s.perTicket * s.nrWinning) := by
  have hc := covered_of_reachOf hash v s r h
  have hvar : s.variant = v := variant_of_reachOf hash v s r h
  obtain ⟨k1, k2, _, k4, k5, _, _, k8, k9, k10, k11, k12, _, _, _, k16, k17⟩ :=
    claimPayment_exact hash s r hc e s' o hs
  refine ⟨hvar, k1, k2, k11, by rw [← hvar]; exact k12, ?_⟩
  have plain : s.variant.hasNft = false → s.variant.vested = false →
      cr_paid s.payTok s.owner o.xfers = s.claimablePayment ∧
      cr_paid (.esdt s.lpTok) s.owner o.xfers = s.bal (.esdt s.lpTok) 0 - s.perTicket * s.nrWinning ∧
      s'.bal (.esdt s.lpTok) 0 = s.perTicket * s.nrWinning := fun hn hv =>
    ⟨by rw [k4, k8 hn, Nat.add_zero], by rw [k5, k9 hv], (k17 hv).2⟩
  have vest : s.variant.hasNft = false → s.variant.vested = true →
      cr_paid s.payTok s.owner o.xfers = s.claimablePayment ∧
      cr_paid (.esdt s.lpTok) s.owner o.xfers
        = s.totalDeposited - s.claimablePayment / s.price * s.perTicket ∧
      s'.totalDeposited = 0 := fun hn hv =>
    ⟨by rw [k4, k8 hn, Nat.add_zero], by rw [k5, k10 hv], k16 hv⟩
  have nftc : s.variant.hasNft = true → s.variant.vested = false →
      cr_paid s.payTok s.owner o.xfers = s.claimablePayment +
        (if s.nftCost.tok = s.payTok ∧ s.nftCost.nonce = 0 then s.claimableNft else 0) ∧
      cr_paid (.esdt s.lpTok) s.owner o.xfers = s.bal (.esdt s.lpTok) 0 - s.perTicket * s.nrWinning ∧
      s'.bal (.esdt s.lpTok) 0 = s.perTicket * s.nrWinning := fun hn hv =>
    ⟨by rw [k4]; simp [ow_nftPart, hn], by rw [k5, k9 hv], (k17 hv).2⟩
  cases v <;> simp only [] <;> first
    | exact plain (by rw [hvar]; rfl) (by rw [hvar]; rfl)
    | exact vest (by rw [hvar]; rfl) (by rw [hvar]; rfl)
    | exact nftc (by rw [hvar]; rfl) (by rw [hvar]; rfl)

/-! ## 2. histories: the first withdrawal pays everything, every later one nothing -/

/-- **from any reachable state in which all selection steps are complete**, along any admissible
    history (any calls by anybody, `HistOK`, non-decreasing rounds, rejected transactions allowed),
    in any fungible token `tok` (for the launchpad token: once the deposit has been made): what the
    owner receives from ALL `claimPayment` calls together is 0 if none is accepted and otherwise
    `ow_due s tok` AS EVALUATED IN THE STARTING STATE, paid in full by the FIRST accepted
    `claimPayment`; every later accepted `claimPayment` transfers nothing in `tok`. -/
theorem owner_withdrawals_from_done (hash : List Nat → List Nat) (s : State) (r : Nat)
    (h : Covered hash s r) (hd : AllDone s) (tok : Token)
    (hdep : tok = .esdt s.lpTok → s.deposited = true) (hist : Hist) (hr : RoundsFrom r hist)
    (hok : ∀ x ∈ hist, HistOK x.1 x.2) :
    ow_withdrawn tok s.owner (lk_runLog hash s hist) =
      (match (lk_runLog hash s hist).find? ow_isWithdrawal with
       | some _ => ow_due s tok
       | none => 0) ∧
    (∀ x ∈ ((lk_runLog hash s hist).filter ow_isWithdrawal).tail,
      cr_paid tok s.owner x.2.2.2.xfers = 0) := by
  let I : State → Nat → Prop := fun s1 r1 =>
    be_Covered hash s1 r1 ∧ AllDone s1 ∧ ow_due s1 tok = ow_due s tok ∧
    (tok = .esdt s1.lpTok → s1.deposited = true)
  have hIwait : ∀ s1 r1 r', I s1 r1 → r1 ≤ r' → I s1 r' := fun s1 r1 r' hI hle =>
    ⟨(be_family_all hash).wait hI.1 hle, hI.2⟩
  have hIstep : ∀ s1 r1 e c s2 o, I s1 r1 → r1 ≤ e.round → be_HistOK e c → c ≠ .claimPayment →
      step hash s1 e c = .ok (s2, o) → I s2 e.round := by
    intro s1 r1 e c s2 o hI hle hk hc hs
    obtain ⟨hcov, hd1, hdue, hdp⟩ := hI
    obtain ⟨hf, hv, hsel⟩ := ow_covered_sel hcov hd1.1
    have hg := step_flags_gain4 hs
    refine ⟨(be_family_all hash).call hcov hle hk hs, ⟨hg.2.2.1 hd1.1, hg.2.2.2 hd1.2⟩, ?_, ?_⟩
    · rw [ow_due_kept hd1 hf hv (Nat.le_trans hsel hle) (cr_static_covered hcov) tok hdp hs hc]
      exact hdue
    · rw [pl_step_lpTok hs]; exact fun hh => deposited_mono hs (hdp hh)
  have hIcov : ∀ s1 r1, I s1 r1 → be_Covered hash s1 r1 ∧ (tok = .esdt s1.lpTok → s1.deposited = true) :=
    fun s1 r1 hI => ⟨hI.1, hI.2.2.2⟩
  obtain ⟨j1, j2, j3⟩ := ow_first_withdrawal hash tok I hIwait hIstep hIcov hist s r
    ⟨h, hd, rfl, hdep⟩ hr hok
  refine ⟨?_, j3⟩
  cases hfind : (lk_runLog hash s hist).find? ow_isWithdrawal with
  | none => rw [hfind] at j1; exact j1
  | some x =>
    rw [hfind] at j1
    obtain ⟨r', hx⟩ := j2 x hfind
    rw [j1]; exact hx.2.2.1

/-- `be_HistOK` implies the per-variant side condition `HistOKOf v` -/
theorem histOKOf_of_histOK (v : Variant) {e : Env} {c : Call} (h : HistOK e c) : HistOKOf v e c := by
  refine ⟨h.1, ?_⟩
  cases v <;> simp only [CallOKOf] <;> first | exact h.2.1 | exact h.2.2

/-- **C01 owner: price × winners, exactly once** — all eight contracts.  `s'` is the state left by
    the accepted call that completes the selection of winning tickets (`completionCall v`,
    `Completed v s' o`, as in `C03_every_variant`), `W` the number of winning flags at that moment,
    `p` ANY admissible later history (`claimPayment` calls included, accepted or rejected).  Over
    `p` the owner's payment-token receipts from `claimPayment` calls are: nothing if no
    `claimPayment` is accepted, and otherwise exactly `price × W` — with
    `W = min (winners configured at deployment) lastTicketId` — plus (NFT variants only, if the NFT
    fee is charged in the payment token) the recorded NFT proceeds `claimableNft` of the state the
    FIRST accepted `claimPayment` runs in; all of it is paid by that first withdrawal, whose
    pre-state still records `claimablePayment = price × W`; every later accepted `claimPayment`
    pays 0 in the payment token. -/
theorem owner_proceeds_total (hash : List Nat → List Nat) (v : Variant) (a0 : InitArgs) (s : State)
    (r : Nat) (h : ReachOfA hash v a0 s r) (e : Env) (s' : State) (o : Out) (hr : r ≤ e.round)
    (hok : HistOKOf v e (completionCall v))
    (hs : step hash s e (completionCall v) = .ok (s', o)) (hc : Completed v s' o)
    (p : Hist) (hrp : RoundsFrom e.round p) (hp : ∀ x ∈ p, HistOK x.1 x.2) :
    let W := countTrue s'.status s'.lastTicketId
    W = min a0.nrWinning s'.lastTicketId ∧ 0 < s'.price ∧
    ow_withdrawn s'.payTok s'.owner (lk_runLog hash s' p) =
      (match (lk_runLog hash s' p).find? ow_isWithdrawal with
       | some x => s'.price * W + ow_nftPart x.1 s'.payTok
       | none => 0) ∧
    (∀ x, (lk_runLog hash s' p).find? ow_isWithdrawal = some x →
      x.1.claimablePayment = s'.price * W ∧ x.1.price = s'.price ∧ x.1.payTok = s'.payTok ∧
      AllDone x.1) ∧
    (v.hasNft = false →
      ow_withdrawn s'.payTok s'.owner (lk_runLog hash s' p) =
        (match (lk_runLog hash s' p).find? ow_isWithdrawal with
         | some _ => s'.price * W
         | none => 0)) ∧
    (∀ x ∈ ((lk_runLog hash s' p).filter ow_isWithdrawal).tail,
      cr_paid s'.payTok s'.owner x.2.2.2.xfers = 0) := by
  intro W
  obtain ⟨k1, _, _, k4, k5, _, k7, k8, _⟩ := C03_every_variant hash v a0 s r h e s' o hr hs hc
  have h' : ReachOfA hash v a0 s' e.round := h.call e _ s' o hr hok.1 hok.2 hs
  let I : State → Nat → Prop := fun s1 r1 =>
    ReachOfA hash v a0 s1 r1 ∧ s1.flags.selected = true ∧ (v ≠ .nft → AllDone s1) ∧
    s1.price = s'.price ∧ s1.claimablePayment = s'.price * W ∧ s1.payTok = s'.payTok
  have hIwait : ∀ s1 r1 r', I s1 r1 → r1 ≤ r' → I s1 r' := fun s1 r1 r' hI hle =>
    ⟨hI.1.wait hle, hI.2⟩
  have hIstep : ∀ s1 r1 e1 c s2 o1, I s1 r1 → r1 ≤ e1.round → be_HistOK e1 c → c ≠ .claimPayment →
      step hash s1 e1 c = .ok (s2, o1) → I s2 e1.round := by
    intro s1 r1 e1 c s2 o1 hI hle hk hcc hst
    obtain ⟨hre, hsl, hdn, hpr, hcp, hpt⟩ := hI
    obtain ⟨q1, q2, q3, q4⟩ :=
      LP.Props.C03proceeds.proceeds_step hash v a0 s1 r1 hre hsl hdn e1 c s2 o1 hle hst
    have hko := histOKOf_of_histOK v hk
    have hcov := gp_covered_of_reachOfA hre
    obtain ⟨hf, hv, hsel⟩ := ow_covered_sel hcov hsl
    have hpay : s2.payTok = s1.payTok := by
      by_cases hq : ∃ tok pp, c = .setTicketPrice tok pp
      · obtain ⟨tok, pp, rfl⟩ := hq
        exact absurd (LP.Props.C06.terms_only_in_addTickets hash s1 e1 _ _ (Or.inl ⟨tok, pp, rfl⟩) hst)
          (be_stage_late hv (Nat.le_trans hsel hle)).1
      · exact (price_frame hst (fun tok pp hh => hq ⟨tok, pp, hh⟩)).2
    refine ⟨hre.call e1 c s2 o1 hle hko.1 hko.2 hst, q2, q3, by rw [q1]; exact hpr, ?_,
      by rw [hpay]; exact hpt⟩
    rcases q4 with q4 | ⟨q4, _⟩
    · rw [q4]; exact hcp
    · exact absurd q4 hcc
  have hIcov : ∀ s1 r1, I s1 r1 →
      be_Covered hash s1 r1 ∧ (s'.payTok = .esdt s1.lpTok → s1.deposited = true) := by
    intro s1 r1 hI
    have hcov := gp_covered_of_reachOfA hI.1
    refine ⟨hcov, fun hh => ?_⟩
    have := (cr_static_covered hcov).tokNe
    rw [hI.2.2.2.2.2] at this
    exact absurd hh this
  obtain ⟨j1, j2, j3⟩ := ow_first_withdrawal hash s'.payTok I hIwait hIstep hIcov p s' e.round
    ⟨h', k7, k8, rfl, k4, rfl⟩ hrp hp
  have hval : ∀ x, (lk_runLog hash s' p).find? ow_isWithdrawal = some x →
      x.1.claimablePayment = s'.price * W ∧ x.1.price = s'.price ∧ x.1.payTok = s'.payTok ∧
      AllDone x.1 ∧ ow_due x.1 s'.payTok = s'.price * W + ow_nftPart x.1 s'.payTok := by
    intro x hx
    obtain ⟨r', hI⟩ := j2 x hx
    have hmem := List.mem_of_find?_eq_some hx
    have hw := List.find?_some hx
    have hst : x.1.stage x.2.1 = .claim := by
      obtain ⟨_, _, s2, _, _, hstep⟩ := lk_runLog_mem hash p s' x hmem
      obtain ⟨s1, e1, c1, o1⟩ := x
      have hc1 : c1 = .claimPayment := (ow_isWithdrawal_iff s1 e1 c1 o1).mp hw
      subst hc1
      exact LP.Props.C06.claimPayment_gate hash s1 e1 _ hstep
    have hd : AllDone x.1 := ⟨(claim_stage_selected hst).1, (claim_stage_selected hst).2.1⟩
    have hS := cr_static_covered (gp_covered_of_reachOfA hI.1)
    have hne : s'.payTok ≠ .esdt x.1.lpTok := by rw [← hI.2.2.2.2.2]; exact hS.tokNe
    refine ⟨hI.2.2.2.2.1, hI.2.2.2.1, hI.2.2.2.2.2, hd, ?_⟩
    rw [ow_due_other hne, hI.2.2.2.2.2, hI.2.2.2.2.1]; simp
  refine ⟨k1, k5, ?_, fun x hx => ⟨(hval x hx).1, (hval x hx).2.1, (hval x hx).2.2.1, (hval x hx).2.2.2.1⟩,
    ?_, j3⟩
  · cases hfind : (lk_runLog hash s' p).find? ow_isWithdrawal with
    | none => rw [hfind] at j1; exact j1
    | some x => rw [hfind] at j1; rw [j1]; exact (hval x hfind).2.2.2.2
  · intro hn
    cases hfind : (lk_runLog hash s' p).find? ow_isWithdrawal with
    | none => rw [hfind] at j1; exact j1
    | some x =>
      rw [hfind] at j1
      obtain ⟨r', hI⟩ := j2 x hfind
      have hvar : x.1.variant.hasNft = false := by
        rw [variant_of_reachOf hash v x.1 r' hI.1.toReachOf]; exact hn
      rw [j1]
      show ow_due x.1 s'.payTok = s'.price * W
      rw [(hval x hfind).2.2.2.2]
      simp [ow_nftPart, hvar]

/-- **the owner's total in the payment token, own tickets included** (all eight contracts, ANY
    history from a reachable state whose ticket selection is complete): everything the owner
    receives in the payment token is what his `claimPayment` calls sent (`ow_withdrawn`, see
    `owner_proceeds_total` / `owner_withdrawals_from_done`) PLUS what he is owed as a participant,
    `Σ cr_owedPay` (his own settlement: `price × (confirmed − winning)` (+ NFT fee); the explicit
    values are those of `payment_per_transaction`) — the two parts add up, nothing else reaches him.
    The first equation needs no reachability at all. -/
theorem owner_total_with_own_tickets (hash : List Nat → List Nat) (s : State) (r : Nat)
    (h : Covered hash s r) (hsel : s.flags.selected = true) (hist : Hist) (hr : RoundsFrom r hist)
    (hok : ∀ x ∈ hist, HistOK x.1 x.2) (a : Nat) :
    cr_totalPay a (lk_runLog hash s hist)
      = ow_withdrawnPay a (lk_runLog hash s hist) + cr_totalOwed a (lk_runLog hash s hist) ∧
    cr_total s.payTok a (lk_runLog hash s hist)
      = ow_withdrawn s.payTok a (lk_runLog hash s hist) + cr_totalOwed a (lk_runLog hash s hist) ∧
    (a ≠ s.owner → ow_withdrawn s.payTok a (lk_runLog hash s hist) = 0) := by
  have h1 := ow_totalPay_split hash a hist s (cr_static_covered h).tokNe
  obtain ⟨h2, h3⟩ := ow_withdrawnPay_eq hash a hist s r h hsel hr hok
  refine ⟨h1, by rw [← h3, ← h2]; exact h1, fun ha => ?_⟩
  have h4 := payment_total hash s r h hist a ha
  rw [h1, h2] at h4
  omega

/-! ## 3. the launchpad token: the owner can withdraw only the surplus, once -/

/-- **C02, the owner's launchpad tokens over any history** — all eight contracts.  From a reachable
    state with all selection steps complete and the deposit made, along any admissible history: the
    launchpad tokens the owner receives from ALL his `claimPayment` calls together are 0 if none is
    accepted and otherwise exactly the surplus `ow_surplus s` AS EVALUATED IN THE STARTING STATE
    (claims of participants in between do not change it: they take out exactly what they reduce
    `nrWinning` by), paid by the FIRST accepted withdrawal; every later withdrawal transfers NO
    launchpad token (the common withdrawal recomputes `balance − perTicket × nrWinning`, which is 0
    from then on; the vested one finds `totalDeposited = 0`).
    Six contracts with the common withdrawal: `ow_surplus s = bal − perTicket × nrWinning`;
    guarV1 / guarV2: `ow_surplus s = totalDeposited − (claimablePayment / price) × perTicket`, which
    is `totalDeposited − perTicket × W` while the proceeds `price × W` are still recorded. -/
theorem owner_surplus_total (hash : List Nat → List Nat) (s : State) (r : Nat)
    (h : Covered hash s r) (hd : AllDone s) (hdep : s.deposited = true) (hist : Hist)
    (hr : RoundsFrom r hist) (hok : ∀ x ∈ hist, HistOK x.1 x.2) :
    ow_withdrawn (.esdt s.lpTok) s.owner (lk_runLog hash s hist) =
      (match (lk_runLog hash s hist).find? ow_isWithdrawal with
       | some _ => ow_surplus s
       | none => 0) ∧
    (∀ x ∈ ((lk_runLog hash s hist).filter ow_isWithdrawal).tail,
      cr_paid (.esdt s.lpTok) s.owner x.2.2.2.xfers = 0) ∧
    ow_withdrawn (.esdt s.lpTok) s.owner (lk_runLog hash s hist) ≤ ow_surplus s ∧
    (s.variant.vested = false →
      ow_surplus s = s.bal (.esdt s.lpTok) 0 - s.perTicket * s.nrWinning) ∧
    (s.variant.vested = true →
      ow_surplus s = s.totalDeposited - s.claimablePayment / s.price * s.perTicket ∧
      ow_surplus s ≤ s.totalDeposited ∧
      ∀ W, 0 < s.price → s.claimablePayment = s.price * W →
        ow_surplus s = s.totalDeposited - s.perTicket * W) := by
  obtain ⟨j1, j2⟩ := owner_withdrawals_from_done hash s r h hd (.esdt s.lpTok) (fun _ => hdep)
    hist hr hok
  rw [ow_due_lp (cr_static_covered h)] at j1
  refine ⟨j1, j2, ?_, fun hv => by simp [ow_surplus, hv], fun hv => ?_⟩
  · rw [j1]; split
    · exact Nat.le_refl _
    · exact Nat.zero_le _
  · have e1 : ow_surplus s = s.totalDeposited - s.claimablePayment / s.price * s.perTicket := by
      simp [ow_surplus, hv]
    refine ⟨e1, by rw [e1]; exact Nat.sub_le _ _, fun W hpos hcp => ?_⟩
    rw [e1, hcp, Nat.mul_div_cancel_left _ hpos, Nat.mul_comm]

/-- **the vested contracts from the completing call** (guarV1, guarV2; `distribute` completes the
    selection): over any admissible later history the owner's launchpad-token receipts from
    `claimPayment` are 0 (no accepted withdrawal) or EXACTLY
    `totalDeposited − perTicket × W`, `W = min (winners configured at deployment) lastTicketId`,
    with `totalDeposited` the recorded deposit at completion; later withdrawals pay nothing. -/
theorem owner_surplus_vested_from_completion (hash : List Nat → List Nat) (v : Variant)
    (hv : v = .guarV1 ∨ v = .guarV2) (a0 : InitArgs) (s : State) (r : Nat)
    (h : ReachOfA hash v a0 s r) (e : Env) (s' : State) (o : Out) (hr : r ≤ e.round)
    (hok : HistOKOf v e (completionCall v))
    (hs : step hash s e (completionCall v) = .ok (s', o)) (hc : Completed v s' o)
    (hdep : s'.deposited = true)
    (p : Hist) (hrp : RoundsFrom e.round p) (hp : ∀ x ∈ p, HistOK x.1 x.2) :
    let W := countTrue s'.status s'.lastTicketId
    W = min a0.nrWinning s'.lastTicketId ∧
    ow_withdrawn (.esdt s'.lpTok) s'.owner (lk_runLog hash s' p) =
      (match (lk_runLog hash s' p).find? ow_isWithdrawal with
       | some _ => s'.totalDeposited - s'.perTicket * W
       | none => 0) ∧
    (∀ x ∈ ((lk_runLog hash s' p).filter ow_isWithdrawal).tail,
      cr_paid (.esdt s'.lpTok) s'.owner x.2.2.2.xfers = 0) := by
  intro W
  obtain ⟨k1, _, _, k4, k5, _, _, k8, _⟩ := C03_every_variant hash v a0 s r h e s' o hr hs hc
  have h' : ReachOfA hash v a0 s' e.round := h.call e _ s' o hr hok.1 hok.2 hs
  have hd : AllDone s' := k8 (by rcases hv with rfl | rfl <;> nofun)
  have hvest : s'.variant.vested = true := by
    rw [variant_of_reachOf hash v s' e.round h'.toReachOf]
    rcases hv with rfl | rfl <;> rfl
  obtain ⟨j1, j2, _, _, j5⟩ := owner_surplus_total hash s' e.round (gp_covered_of_reachOfA h') hd
    hdep p hrp hp
  rw [(j5 hvest).2.2 W k5 k4] at j1
  exact ⟨k1, j1, j2⟩

/-! ## 4. C13: the vested totals are the floor formula -/

open LP.VV LP.Props.C01reachG1 in
/-- **guarV2: a winner's cumulative launchpad tokens are the floor formula.**  `s` is a reachable
    state (all selection steps complete) in which `a` has not settled; the first transaction is his
    accepted settlement at `e0`, followed by ANY admissible history `mid` (further claims of `a` at
    any rounds, claims of others, the owner's withdrawal, rejected calls …) and a last accepted
    claim of `a` at `e`.  With `E = winning tickets at settlement × perTicket` (read in `s`, the
    state his settlement runs in) and the schedule in force in `s`, everything `a` has received in
    launchpad tokens — summed over ALL accepted transactions of the history — is
    `E × unlockedPct2 (round of his last accepted claim) / 10000`, rounded down ONCE (not per
    claim): after the settlement alone with `e0.round`, after the whole history with `e.round`. -/
theorem vested_total_guarV2 (hash : List Nat → List Nat) (s : State) (r : Nat)
    (h : Reach hash .guarV2 s r) (hd : AllDone s) (a : Nat) (ha : a ≠ s.owner)
    (hcl : s.claimed a = false)
    (e0 : Env) (he0 : e0.caller = a) (hr0 : r ≤ e0.round) (hok0 : EnvOK e0) (s1 : State) (o1 : Out)
    (hs0 : step hash s e0 .claim = .ok (s1, o1))
    (mid : Hist) (e : Env) (he : e.caller = a) (hokE : EnvOK e)
    (hr : RoundsFrom e0.round (mid ++ [(e, .claim)])) (hok : ∀ x ∈ mid, HistOK x.1 x.2)
    (s2 : State) (o2 : Out) (hs2 : step hash (run hash s1 mid) e .claim = .ok (s2, o2)) :
    totalReceived s.lpTok a (lk_runLog hash s [(e0, .claim)])
      = entitled (winCountOf s a * s.perTicket) (unlockedPct2 e0.round (sched2Of s)) ∧
    totalReceived s.lpTok a (lk_runLog hash s ((e0, .claim) :: (mid ++ [(e, .claim)])))
      = entitled (winCountOf s a * s.perTicket) (unlockedPct2 e.round (sched2Of s)) ∧
    entitled (winCountOf s a * s.perTicket) (unlockedPct2 e.round (sched2Of s))
      = winCountOf s a * s.perTicket * unlockedPct2 e.round (sched2Of s) / 10000 := by
  subst he0
  have hcov : Covered hash s r := .guarV2 h
  have hvest : s.variant.vested = true := by rw [rc_variant_reach h]; rfl
  have huc0 : s.userClaimed e0.caller = 0 := ((released_exact_guarV2 hash s r h).2.2.2.2.1 _ hcl).2
  obtain ⟨c1, c2, _, _, _, _, _, _, _, _, c11⟩ :=
    claim_releases_exactly_guarV2 hash s r h e0 s1 o1 hr0 hs0
  have hut : s1.userTotal e0.caller = winCountOf s e0.caller * s.perTicket := (c11 hcl).1
  have hk0 : HistOK e0 .claim := ⟨hok0, trivial, trivial⟩
  refine ⟨?_, ?_, rfl⟩
  · have h1 := (vested_after_completion hash s r hcov hd hvest [(e0, .claim)] ⟨hr0, trivial⟩
      (by intro x hx; simp only [List.mem_singleton] at hx; subst hx; exact hk0) _ ha).1
    have hrun : run hash s [(e0, .claim)] = s1 := by rw [lk_run_cons_ok hs0]; rfl
    rw [h1, hrun, huc0, Nat.sub_zero, c2, hut]
  · have hokH : ∀ x ∈ (e0, Call.claim) :: (mid ++ [(e, Call.claim)]), HistOK x.1 x.2 := by
      intro x hx
      rcases List.mem_cons.mp hx with rfl | hx
      · exact hk0
      · rcases List.mem_append.mp hx with hx | hx
        · exact hok x hx
        · simp only [List.mem_singleton] at hx; subst hx; exact ⟨hokE, trivial, trivial⟩
    have h1 := (vested_after_completion hash s r hcov hd hvest
      ((e0, Call.claim) :: (mid ++ [(e, Call.claim)])) ⟨hr0, hr⟩ hokH _ ha).1
    have hrun : run hash s ((e0, .claim) :: (mid ++ [(e, .claim)])) = s2 := by
      rw [lk_run_cons_ok hs0, lk_run_append, lk_run_cons_ok hs2]; rfl
    have hreach1 : Reach hash .guarV2 s1 e0.round := .call s r e0 .claim s1 o1 h hr0 hok0 trivial hs0
    have hcl1 : s1.claimed e.caller = true := by
      rw [he]; exact claim_sets_claimed hash s e0 s1 o1 hs0
    obtain ⟨_, _, k3, _⟩ := vesting_path_independent_run_guarV2 hash s1 e0.round hreach1 e hcl1 mid hr
      (fun x hx => ⟨(hok x hx).1, (hok x hx).2.1⟩) s2 o2 hs2
    rw [he] at k3
    rw [h1, hrun, huc0, Nat.sub_zero, k3, hut, vv_sched2Of_congr c1]

open LP.VV LP.Props.C01reachG1 in
/-- **guarV1: the same**, for a stored schedule `sc` (without a stored schedule nothing is released:
    `pct1 _ none = 0`): the cumulative launchpad tokens of a winner are
    `E × unlockedPct1 (round of his last accepted claim) sc / 10000`,
    `E = winning tickets at settlement × perTicket`. -/
theorem vested_total_guarV1 (hash : List Nat → List Nat) (s : State) (r : Nat)
    (h : g1_Reach hash s r) (hd : AllDone s) (sc : Sched1) (hsc : s.sched1 = some sc)
    (a : Nat) (ha : a ≠ s.owner) (hcl : s.claimed a = false)
    (e0 : Env) (he0 : e0.caller = a) (hr0 : r ≤ e0.round) (hok0 : EnvOK e0) (s1 : State) (o1 : Out)
    (hs0 : step hash s e0 .claim = .ok (s1, o1))
    (mid : Hist) (e : Env) (he : e.caller = a) (hokE : EnvOK e)
    (hr : RoundsFrom e0.round (mid ++ [(e, .claim)])) (hok : ∀ x ∈ mid, HistOK x.1 x.2)
    (s2 : State) (o2 : Out) (hs2 : step hash (run hash s1 mid) e .claim = .ok (s2, o2)) :
    totalReceived s.lpTok a (lk_runLog hash s [(e0, .claim)])
      = entitled (winCountOf s a * s.perTicket) (unlockedPct1 e0.round sc) ∧
    totalReceived s.lpTok a (lk_runLog hash s ((e0, .claim) :: (mid ++ [(e, .claim)])))
      = entitled (winCountOf s a * s.perTicket) (unlockedPct1 e.round sc) ∧
    entitled (winCountOf s a * s.perTicket) (unlockedPct1 e.round sc)
      = winCountOf s a * s.perTicket * unlockedPct1 e.round sc / 10000 := by
  subst he0
  have hcov : Covered hash s r := .guarV1 h
  have hvest : s.variant.vested = true := by rw [variant_g1 h]; rfl
  have huc0 : s.userClaimed e0.caller = 0 := ((unsettled_no_record_guarV1 hash s r h).1 _ hcl).2
  obtain ⟨c1, c2, _, _, _, _, _, _, c9⟩ :=
    claim_releases_exactly_guarV1 hash s r h e0 s1 o1 hr0 hs0
  have hut : s1.userTotal e0.caller = winCountOf s e0.caller * s.perTicket := (c9 hcl).1
  have hk0 : HistOK e0 .claim := ⟨hok0, trivial, trivial⟩
  have hp1 : ∀ now, pct1 now s.sched1 = unlockedPct1 now sc := fun now => by rw [hsc]; rfl
  refine ⟨?_, ?_, rfl⟩
  · have h1 := (vested_after_completion hash s r hcov hd hvest [(e0, .claim)] ⟨hr0, trivial⟩
      (by intro x hx; simp only [List.mem_singleton] at hx; subst hx; exact hk0) _ ha).1
    have hrun : run hash s [(e0, .claim)] = s1 := by rw [lk_run_cons_ok hs0]; rfl
    rw [h1, hrun, huc0, Nat.sub_zero, c2, hut, hp1]
  · have hokH : ∀ x ∈ (e0, Call.claim) :: (mid ++ [(e, Call.claim)]), HistOK x.1 x.2 := by
      intro x hx
      rcases List.mem_cons.mp hx with rfl | hx
      · exact hk0
      · rcases List.mem_append.mp hx with hx | hx
        · exact hok x hx
        · simp only [List.mem_singleton] at hx; subst hx; exact ⟨hokE, trivial, trivial⟩
    have h1 := (vested_after_completion hash s r hcov hd hvest
      ((e0, Call.claim) :: (mid ++ [(e, Call.claim)])) ⟨hr0, hr⟩ hokH _ ha).1
    have hrun : run hash s ((e0, .claim) :: (mid ++ [(e, .claim)])) = s2 := by
      rw [lk_run_cons_ok hs0, lk_run_append, lk_run_cons_ok hs2]; rfl
    have hreach1 : g1_Reach hash s1 e0.round := .call s r e0 .claim s1 o1 h hr0 hok0 trivial hs0
    have hcl1 : s1.claimed e.caller = true := by
      rw [he]; exact claim_sets_claimed hash s e0 s1 o1 hs0
    have hg := step_flags_gain4 hs0
    obtain ⟨_, hv1, hsel1⟩ := ow_covered_sel (hash := hash) (.guarV1 hreach1) (hg.2.2.1 hd.1)
    have hconf1 : s1.cfg.conf ≤ e0.round := by
      simp only [validPeriods, Bool.and_eq_true, decide_eq_true_eq] at hv1
      omega
    obtain ⟨r1, hr1, hl⟩ := ow_g1_later_run hash s1 e0.round mid s1 e0.round e .claim .refl hr
      (fun x hx => ⟨(hok x hx).1, (hok x hx).2.2⟩)
    obtain ⟨_, _, k3, _⟩ := vesting_path_independent_guarV1 hash s1 e0.round hreach1 sc hconf1
      (by rw [c1]; exact hsc) e hcl1 _ r1 hl s2 o2 hr1 hs2
    rw [he] at k3
    rw [h1, hrun, huc0, Nat.sub_zero, k3, hut]

/-! ## non-vacuity -/

section examples
open LP.Props.C16reach LP.VV

/-- (a) the locked guaranteed-ticket launchpad `g7` of LP/Props/C16reach.lean (round 12, all steps
    done, deposit made, 2 winning tickets at price 10) and its history `gHist` (7 claims, 8 claims,
    the owner withdraws, 7 claims again — rejected): the hypotheses of `owner_withdrawals_from_done`
    / `owner_surplus_total` hold, a withdrawal is accepted, and the owner receives from it
    `claimablePayment = 10 × 2 = 20` EGLD and the surplus (0 here: everything deposited was won) -/
example : Covered id g7 12 ∧ AllDone g7 ∧ g7.deposited = true ∧ g7.owner = 1 ∧
    g7.claimablePayment = 20 ∧ ow_surplus g7 = 0 ∧ ow_due g7 g7.payTok = 20 ∧
    (lk_runLog id g7 gHist).find? ow_isWithdrawal ≠ none ∧
    ow_withdrawn g7.payTok g7.owner (lk_runLog id g7 gHist) = 20 ∧
    ow_withdrawn (.esdt g7.lpTok) g7.owner (lk_runLog id g7 gHist) = 0 := by
  refine ⟨g7_covered, ⟨rfl, rfl⟩, rfl, rfl, by decide +kernel, by decide +kernel, by decide +kernel,
    by decide +kernel, by decide +kernel, by decide +kernel⟩

/-- `owner_withdrawals_from_done` applied to it -/
example : ow_withdrawn g7.payTok g7.owner (lk_runLog id g7 gHist) =
    (match (lk_runLog id g7 gHist).find? ow_isWithdrawal with
     | some _ => ow_due g7 g7.payTok
     | none => 0) :=
  (owner_withdrawals_from_done id g7 12 g7_covered ⟨rfl, rfl⟩ g7.payTok (fun _ => rfl) gHist
    gHist_ok.1 gHist_ok.2).1

/-- (b) `claimPayment_exact` on the guarV2 example of LP/Props/C13reachV2.lean: the withdrawal
    `x9 → x10` (round 17) from the reachable state `x9`; the owner receives the recorded proceeds
    `20 = 10 × 2` and the surplus `40 − (20 / 10) × 20 = 0` -/
example : Covered id x9 16 ∧
    (∃ o, step id x9 { caller := 1, round := 17 } .claimPayment = .ok (x10, o)) ∧
    x9.claimablePayment = 20 ∧ x9.totalDeposited = 40 ∧ ow_surplus x9 = 0 := by
  refine ⟨.guarV2 x9_reach, ?_, by decide +kernel, by decide +kernel, by decide +kernel⟩
  exact LP.PL.stOf_step (x := step id x9 { caller := 1, round := 17 } .claimPayment) rfl x9

/-- (c) `vested_total_guarV2` on the same example: participant 7 (2 winning tickets × 20 tokens,
    schedule 25 % at round 16, 25 % at 26, 50 % at 50) settles in `x8` at round 16, the owner
    withdraws at 17, 7 claims again at 26: in total 7 has received `40 × 5000 / 10000 = 20` -/
example :
    totalReceived x8.lpTok 7 (lk_runLog id x8
      (({ caller := 7, round := 16 }, .claim) ::
        ([({ caller := 1, round := 17 }, Call.claimPayment)] ++ [({ caller := 7, round := 26 }, .claim)])))
      = entitled (winCountOf x8 7 * x8.perTicket) (unlockedPct2 26 (sched2Of x8)) ∧
    entitled (winCountOf x8 7 * x8.perTicket) (unlockedPct2 26 (sched2Of x8)) = 20 := by
  obtain ⟨o1, h1⟩ := LP.PL.stOf_step (x := step id x8 { caller := 7, round := 16 } .claim) rfl x8
  have h1' : step id x8 { caller := 7, round := 16 } .claim = .ok (x9, o1) := h1
  obtain ⟨o2, h2⟩ := LP.PL.stOf_step (x := step id x9 { caller := 1, round := 17 } .claimPayment) rfl x9
  have h2' : step id x9 { caller := 1, round := 17 } .claimPayment = .ok (x10, o2) := h2
  obtain ⟨o3, h3⟩ := LP.PL.stOf_step (x := step id x10 { caller := 7, round := 26 } .claim) rfl x10
  have hrun : run id x9 [({ caller := 1, round := 17 }, Call.claimPayment)] = x10 := by
    rw [lk_run_cons_ok h2']; rfl
  have h3' : step id (run id x9 [({ caller := 1, round := 17 }, Call.claimPayment)])
      { caller := 7, round := 26 } .claim = .ok (x11, o3) := by rw [hrun]; exact h3
  refine ⟨(vested_total_guarV2 id x8 12 x8_reach ⟨rfl, rfl⟩ 7 (by decide +kernel) (by decide +kernel)
    { caller := 7, round := 16 } rfl (by decide) (Or.inl rfl) x9 o1 h1'
    [({ caller := 1, round := 17 }, Call.claimPayment)] { caller := 7, round := 26 } rfl (Or.inl rfl)
    ⟨by decide, by decide, trivial⟩
    (by intro x hx; simp only [List.mem_singleton] at hx; subst hx; exact ⟨Or.inl rfl, trivial, trivial⟩)
    x11 o3 h3').2.1, by decide +kernel⟩

end examples

end LP.Props.C01owner

#print axioms LP.Props.C01owner.claimPayment_exact
#print axioms LP.Props.C01owner.variant_of_reachOf
#print axioms LP.Props.C01owner.claimPayment_exact_every_variant
#print axioms LP.Props.C01owner.histOKOf_of_histOK
#print axioms LP.Props.C01owner.owner_withdrawals_from_done
#print axioms LP.Props.C01owner.owner_proceeds_total
#print axioms LP.Props.C01owner.owner_total_with_own_tickets
#print axioms LP.Props.C01owner.owner_surplus_total
#print axioms LP.Props.C01owner.owner_surplus_vested_from_completion
#print axioms LP.Props.C01owner.vested_total_guarV2
#print axioms LP.Props.C01owner.vested_total_guarV1
