import LP.Proofs.ZeroAlloc3
import LP.Props.C18reach
/-
  C01 (and C02/C03/C09 headline theorems) for the PLAIN family WITHOUT the restriction `CallOK`.

  `ReachZ hash v s r` (LP/Proofs/ZeroAlloc3.lean) is `Reach hash v s r` without the premise
  `CallOK c`: `addTickets l` may contain entries `(a, 0)`.  The real contract accepts them:
  `a` gets the EMPTY range `[last+1, last]` and a zero-size batch at `last+1` which the next
  allocation overwrites (or which dangles above `lastTicketId`).

  What the model does with such an address (all proved below / in LP/Proofs/ZeroAlloc2.lean):
    * its allocation view and every `confirm` (even `confirm 0`) PANIC (`z_ticketsFor_empty`,
      `empty_range_cannot_confirm`): it never confirms anything;
    * `blacklist [a]` is ACCEPTED and sets its flag (nothing to refund);
    * the filter never visits it; it keeps the stale empty range for ever — also when
      blacklisted (so "a blacklisted address has no record after the filter", C10reach, does NOT
      extend to zero-size entries; harmless);
    * in the claim phase it may `claim` exactly once; nothing is paid, no balance moves, but the
      batch slot at the stale first id — by then possibly ANOTHER participant's batch — is wiped
      (`empty_range_claim`); batches are not read any more at that point.

  Method: SIMULATION (`simulation`, from `z_sim`): every `ReachZ` state `s` is `ZSim`-related to a
  `Reach` state `z` of the original development: `z` is `s` with the empty ranges removed, the
  zero-size batches removed (until the filter has completed; afterwards `batch` is dead storage),
  `blacklist`/`claimed` below those of `s`, every other field equal.  `addTickets l` is matched by
  `addTickets (l without zero entries)`, `blacklist l` by `blacklist (l without empty-range
  addresses)`, a claim by an empty-range address by NO step, every other call by itself.

  Headline theorems for EVERY `ReachZ` state of `base` / `locked`:
    (1) `C01_solvent_Z`              — same statement as `C01_solvent`
    (2) `three_counts_Z`, `three_counts_at_completion_Z`
    (3) `lp_cover_Z`, `lp_zero_at_end_Z` (only empty ranges may remain)
    (4) `claim_refund_covered_Z`, `owner_withdrawal_covered_Z`, `winner_covered_Z`,
        `claim_never_starves_Z`  — every claim in the claim stage by a holder of a range
        (empty or not) that has not claimed is ACCEPTED
-/
namespace LP.Props.C01zero
open LP LP.FY LP.Props.C01reach LP.Props.C09 LP.PL
open LP.Props.C02 (LpCover)

/-- **SIMULATION**: a state reachable with zero-size allocation entries is, up to the erasure of
    empty ranges / zero-size batches, a reachable state of the original development -/
theorem simulation (hash : List Nat → List Nat) (v : Variant) (hv : Plain v) (s : State) (r : Nat)
    (h : ReachZ hash v s r) : ∃ z, Reach hash v z r ∧ ZSim s z :=
  z_sim_reach hv h

/-- the original reachable states are among the new ones -/
theorem reach_is_reachZ (hash : List Nat → List Nat) (v : Variant) (s : State) (r : Nat)
    (h : Reach hash v s r) : ReachZ hash v s r := h.toZ

/-! ### (1) C01 -/

/-- **C01 for every plain launchpad, zero-size entries allowed**: holdings = owed, in every
    `ReachZ` state (same statement as `C01_solvent`; `L` covers every address with confirmed
    tickets; addresses with an empty range have none and are owed nothing) -/
theorem C01_solvent_Z (hash : List Nat → List Nat) (v : Variant) (hv : Plain v) (s : State) (r : Nat)
    (h : ReachZ hash v s r) :
    ∃ L : List Nat, Covers s L ∧ (¬ AllDone s → PayEqPre s L) ∧ (AllDone s → PayEqPost s L) := by
  obtain ⟨a0, h⟩ := ReachZ_iff.mp h
  obtain ⟨z, hz, hsim, _⟩ := z_sim hv h
  obtain ⟨L, h1, h2, h3⟩ := C01_solvent hash v hv z r (Reach_iff.mpr ⟨a0, hz⟩)
  have hrd : AllDone z → ∀ a, refundDue s a = refundDue z a := fun hd a =>
    hsim.refundDue_eq (z_done_rngNone hv hz hd.1) a
  obtain ⟨R, B, K, C, rfl⟩ := hsim.shape'
  refine ⟨L, ⟨h1.nodup, h1.supp⟩, h2, fun hd => ?_⟩
  have := h3 hd
  unfold PayEqPost at this ⊢
  rw [sumOver_congr (fun a _ => hrd hd a)]
  exact this

/-! ### (3a) three counts -/

/-- after completion, in every `ReachZ` state: the winners still held add up to `nrWinning`;
    nobody holds more winning than confirmed tickets; every range — empty or not — has exactly
    `confirmed` tickets, and the holders of NON-EMPTY ranges are in the covering list -/
theorem three_counts_Z (hash : List Nat → List Nat) (v : Variant) (hv : Plain v) (s : State) (r : Nat)
    (h : ReachZ hash v s r) (hd : AllDone s) :
    ∃ L : List Nat, Covers s L ∧ PayEqPost s L ∧ sumOver (winCountOf s) L = s.nrWinning ∧
      (∀ a, winCountOf s a ≤ s.confirmed a) ∧
      (∀ a rg, s.range a = some rg → rangeLen rg = s.confirmed a ∧ (rg.first ≤ rg.last → a ∈ L)) := by
  obtain ⟨a0, h⟩ := ReachZ_iff.mp h
  obtain ⟨z, hz, hsim, _⟩ := z_sim hv h
  have hfl : z.flags = s.flags := hsim.fields.2.1
  have hdz : AllDone z := by unfold AllDone; rw [hfl]; exact hd
  obtain ⟨L, h1, h2, h3, h4, h5⟩ := three_counts hash v hv z r (Reach_iff.mpr ⟨a0, hz⟩) hdz
  have hnone := z_done_rngNone hv hz hdz.1
  have hrd : ∀ a, refundDue s a = refundDue z a := fun a => hsim.refundDue_eq hnone a
  have hwc : ∀ a, winCountOf s a = winCountOf z a := fun a => hsim.winCountOf_eq a
  have hrange := hsim.range
  obtain ⟨R, B, K, C, rfl⟩ := hsim.shape'
  refine ⟨L, ⟨h1.nodup, h1.supp⟩, ?_, ?_, ?_, ?_⟩
  · unfold PayEqPost at h2 ⊢
    rw [sumOver_congr (fun a _ => hrd a)]
    exact h2
  · rw [sumOver_congr (fun a _ => hwc a)]; exact h3
  · intro a; rw [hwc a]; exact h4 a
  · intro a rg hr
    by_cases hne : rg.first ≤ rg.last
    · have hzr : (z_w s R B K C).range a = some rg := by rw [hrange]; exact z_eraseR_of_ne hr hne
      obtain ⟨k1, k2⟩ := h5 a rg hzr
      exact ⟨k2, fun _ => k1⟩
    · have hzr : (z_w s R B K C).range a = none := by rw [hrange]; exact z_eraseR_of_empty hr hne
      have hc : s.confirmed a = 0 := hnone a hzr
      refine ⟨?_, fun hh => absurd hh hne⟩
      rw [hc]; unfold rangeLen; omega

/-- at the completion of `selectWinners`, from any `ReachZA` state (deployment arguments `a0`):
    flags = `nrWinning` = min (configured winners) (confirmed tickets); proceeds =
    `price × nrWinning` -/
theorem three_counts_at_completion_Z (hash : List Nat → List Nat) (v : Variant) (hv : Plain v)
    (a0 : InitArgs) (s : State) (r : Nat) (h : ReachZA hash v a0 s r) (e : Env) (s' : State) (o : Out)
    (hr : r ≤ e.round) (hok : EnvOK e)
    (hs : step hash s e .select = .ok (s', o)) (hsel : s'.flags.selected = true) :
    countTrue s'.status s'.lastTicketId = s'.nrWinning ∧
    s'.nrWinning = min a0.nrWinning s'.lastTicketId ∧
    s'.claimablePayment = s'.price * s'.nrWinning ∧
    (∀ t, s'.status t = true → 1 ≤ t ∧ t ≤ s'.lastTicketId) ∧ AllDone s' := by
  obtain ⟨z, hz, hsim, hd⟩ := z_sim hv h
  obtain ⟨z', _, hsim', _, hstep⟩ := z_sim_indep hv (c := .select) rfl hz hsim hd hr hok hs
  have hfl : z'.flags = s'.flags := hsim'.fields.2.1
  have := three_counts_at_completion hash v hv a0 z r hz e z' o hstep (by rw [hfl]; exact hsel)
  obtain ⟨R, B, K, C, rfl⟩ := hsim'.shape'
  exact this

/-! ### (3b) launchpad tokens -/

/-- from the deposit on the launchpad tokens held cover everything still owed to winners -/
theorem lp_cover_Z (hash : List Nat → List Nat) (v : Variant) (hv : Plain v) (s : State) (r : Nat)
    (h : ReachZ hash v s r) (hd : s.deposited = true) : LpCover s := by
  obtain ⟨z, hz, hsim⟩ := z_sim_reach hv h
  have hdz : z.deposited = true := by
    have := congrArg State.deposited hsim.rest
    rw [this]; exact hd
  have := lp_cover_plain hash v hv z r hz hdz
  obtain ⟨R, B, K, C, rfl⟩ := hsim.shape'
  exact this

/-- **nothing is left at the end**: all steps complete, every participant with a NON-EMPTY range
    has settled (stale empty ranges may remain: they hold nothing), then the owner's accepted
    `claimPayment` leaves no launchpad token -/
theorem lp_zero_at_end_Z (hash : List Nat → List Nat) (v : Variant) (hv : Plain v) (s : State)
    (r : Nat) (h : ReachZ hash v s r) (hd : AllDone s)
    (hall : ∀ a rg, s.range a = some rg → rg.last < rg.first)
    (e : Env) (s' : State) (o : Out) (hr : r ≤ e.round) (hok : EnvOK e)
    (hs : step hash s e .claimPayment = .ok (s', o)) :
    s.nrWinning = 0 ∧ s'.bal (.esdt s'.lpTok) 0 = 0 := by
  obtain ⟨a0, h⟩ := ReachZ_iff.mp h
  obtain ⟨z, hz, hsim, hdd⟩ := z_sim hv h
  obtain ⟨z', _, hsim', _, hstep⟩ := z_sim_indep hv (c := .claimPayment) rfl hz hsim hdd hr hok hs
  have hfl : z.flags = s.flags := hsim.fields.2.1
  have hallz : ∀ a, z.range a = none := by
    intro a
    rw [hsim.range]
    cases hra : s.range a with
    | none => exact z_eraseR_of_none hra
    | some rg => exact z_eraseR_of_empty hra (by have := hall a rg hra; omega)
  have := lp_zero_at_end_plain hash v hv z r (Reach_iff.mpr ⟨a0, hz⟩)
    (by unfold AllDone; rw [hfl]; exact hd) hallz e z' o hstep
  obtain ⟨R, B, K, C, rfl⟩ := hsim.shape'
  obtain ⟨R', B', K', C', rfl⟩ := hsim'.shape'
  exact this

/-! ### (4) claims never starve -/

/-- the owner's recorded proceeds are always covered -/
theorem owner_withdrawal_covered_Z (hash : List Nat → List Nat) (v : Variant) (hv : Plain v)
    (s : State) (r : Nat) (h : ReachZ hash v s r) (hd : AllDone s) :
    s.claimablePayment ≤ s.bal s.payTok 0 := by
  obtain ⟨z, hz, hsim⟩ := z_sim_reach hv h
  have hfl : z.flags = s.flags := hsim.fields.2.1
  have := owner_withdrawal_covered hash v hv z r hz (by unfold AllDone; rw [hfl]; exact hd)
  obtain ⟨R, B, K, C, rfl⟩ := hsim.shape'
  exact this

/-- the refund of ANY address holding a range (empty or not) is covered, together with the
    owner's proceeds -/
theorem claim_refund_covered_Z (hash : List Nat → List Nat) (v : Variant) (hv : Plain v) (s : State)
    (r : Nat) (h : ReachZ hash v s r) (hd : AllDone s) (a : Nat) (rg : Range)
    (hr : s.range a = some rg) :
    s.claimablePayment + s.price * (s.confirmed a - winCountOf s a) ≤ s.bal s.payTok 0 := by
  have hown := owner_withdrawal_covered_Z hash v hv s r h hd
  obtain ⟨a0, h⟩ := ReachZ_iff.mp h
  obtain ⟨z, hz, hsim, _⟩ := z_sim hv h
  have hfl : z.flags = s.flags := hsim.fields.2.1
  have hdz : AllDone z := by unfold AllDone; rw [hfl]; exact hd
  have hwc := hsim.winCountOf_eq a
  by_cases hne : rg.first ≤ rg.last
  · have hzr : z.range a = some rg := by rw [hsim.range]; exact z_eraseR_of_ne hr hne
    have := claim_refund_covered hash v hv z r (Reach_iff.mpr ⟨a0, hz⟩) hdz a rg hzr
    rw [← hwc] at this
    obtain ⟨R, B, K, C, rfl⟩ := hsim.shape'
    exact this
  · have hzr : z.range a = none := by rw [hsim.range]; exact z_eraseR_of_empty hr hne
    have hc : z.confirmed a = 0 := z_done_rngNone hv hz hdz.1 a hzr
    have hc' : s.confirmed a = 0 := by rw [← hsim.fields.2.2.2.2.1]; exact hc
    rw [hc']
    simpa using hown

/-- the launchpad tokens of ANY address are covered -/
theorem winner_covered_Z (hash : List Nat → List Nat) (v : Variant) (hv : Plain v) (s : State)
    (r : Nat) (h : ReachZ hash v s r) (hd : AllDone s) (a : Nat) :
    s.perTicket * winCountOf s a ≤ s.bal (.esdt s.lpTok) 0 ∧ winCountOf s a ≤ s.nrWinning := by
  obtain ⟨z, hz, hsim⟩ := z_sim_reach hv h
  have hfl : z.flags = s.flags := hsim.fields.2.1
  have := winner_covered_plain hash v hv z r hz (by unfold AllDone; rw [hfl]; exact hd) a
  rw [← hsim.winCountOf_eq a] at this
  obtain ⟨R, B, K, C, rfl⟩ := hsim.shape'
  exact this

/-- **claims never starve**: in every `ReachZ` state, in the claim stage, a claim (without call
    value) by any address that holds a range — empty or not — and has not claimed yet is
    ACCEPTED -/
theorem claim_never_starves_Z (hash : List Nat → List Nat) (v : Variant) (hv : Plain v) (s : State)
    (r : Nat) (h : ReachZ hash v s r) (e : Env) (rg : Range)
    (he1 : e.egld = 0) (he2 : e.esdts = []) (hst : s.stage e = .claim)
    (hcl : s.claimed e.caller = false) (hrg : s.range e.caller = some rg) :
    ∃ x, step hash s e .claim = .ok x := by
  obtain ⟨z, hz, hsim⟩ := z_sim_reach hv h
  obtain ⟨T0, hLp⟩ := pl_reach hv hz
  have hBz : pl_Base z := hLp.base
  have hBs : pl_Base s := by
    have h' := hsim.rest
    rw [h'] at hBz
    exact ⟨hBz.var, hBz.tokNe, hBz.perPos, hBz.pct⟩
  obtain ⟨a0, hz0⟩ := Reach_iff.mp hz
  have hadd : s.flags.additional = true := by rw [← hsim.fields.2.1]; exact (reach_WF hv hz0).add
  have hd : AllDone s := ⟨(claim_stage_selected hst).1, hadd⟩
  obtain ⟨L, _, _, _, hle, _⟩ := three_counts_Z hash v hv s r h hd
  have hcov := claim_refund_covered_Z hash v hv s r h hd e.caller rg hrg
  obtain ⟨hw1, hw2⟩ := winner_covered_Z hash v hv s r h hd e.caller
  have hwc : winCount s e.caller = winCountOf s e.caller := rfl
  have hne' : ¬ (Token.esdt s.lpTok = s.payTok) := fun hh => hBs.tokNe hh.symm
  have hacc : ClaimAccepts s e rg := by
    refine ⟨he1, he2, hst, hcl, hrg, ?_, ?_, ?_, ?_⟩
    · rw [hwc]; exact hw2
    · rw [hwc]; exact hle e.caller
    · rw [hwc]; omega
    · rw [hwc]
      have : (s.bal.sub s.payTok 0 (s.price * (s.confirmed e.caller - winCountOf s e.caller)))
          (.esdt s.lpTok) 0 = s.bal (.esdt s.lpTok) 0 := by simp [Bal.sub, hne']
      rw [this, Nat.mul_comm]; exact hw1
  obtain ⟨f1, f2, _⟩ := z_plain_flags hBs.var
  rcases hBs.var with hb | hl
  · -- base
    have hl0 : s.variant.hasLock = false := by rw [hb]; rfl
    refine ⟨({ settledState s e.caller rg with bal := balAfterClaim s e.caller },
      { xfers := refundXfers s e.caller ++ tokenXfers s e.caller,
        events := (if s.confirmed e.caller - winCount s e.caller = 0 then []
                    else [LP.refundEvent s e (s.confirmed e.caller - winCount s e.caller)]) }), ?_⟩
    rw [claim_base_iff hash s e _ _ f1 hl0 f2]
    exact ⟨rg, hacc, rfl, rfl, rfl, rfl, rfl, rfl, rfl⟩
  · -- locked
    have hl1 : s.variant.hasLock = true := by rw [hl]; rfl
    exact (claim_lock_accepted_iff hash s e f1 hl1 hBs.pct).mpr ⟨rg, hacc⟩

/-! ### what an address with an empty range can do -/

/-- it cannot confirm (not even zero tickets): the allocation view panics -/
theorem empty_range_cannot_confirm (hash : List Nat → List Nat) (s : State) (e : Env) (n : Nat)
    (rg : Range) (hr : s.range e.caller = some rg) (he : rg.last < rg.first) :
    ∀ x, step hash s e (.confirm n) ≠ .ok x := by
  rintro ⟨s', o⟩ hs
  obtain ⟨total, hacc, _⟩ := LP.Props.C07.confirm_effect hash s e n s' o hs
  obtain ⟨err, herr⟩ := z_ticketsFor_empty hr he
  have := hacc.2.2.2.2.2.1
  rw [herr] at this; cases this

/-- in a `ReachZ` state its claim pays nothing and moves no balance: only the caller's `claimed`
    flag, its stale range and the batch slot at the range's first id change -/
theorem empty_range_claim (hash : List Nat → List Nat) (v : Variant) (hv : Plain v) (s : State)
    (r : Nat) (h : ReachZ hash v s r) (e : Env) (s' : State) (o : Out) (rg : Range)
    (hr : r ≤ e.round) (hok : EnvOK e)
    (hrg : s.range e.caller = some rg) (he : rg.last < rg.first)
    (hs : step hash s e .claim = .ok (s', o)) :
    s' = z_w s (upd s.range e.caller none) (upd s.batch rg.first none) s.blacklist
          (upd s.claimed e.caller true) ∧ s'.bal = s.bal ∧ s'.nrWinning = s.nrWinning ∧
    s'.confirmed = s.confirmed := by
  obtain ⟨a0, h⟩ := ReachZ_iff.mp h
  obtain ⟨z, hz, hsim, _⟩ := z_sim hv h
  obtain ⟨z', _, _, _, hcase⟩ := z_sim_claim hv hz hsim hr hok hs
  have key : s' = z_w s (upd s.range e.caller none) (upd s.batch rg.first none) s.blacklist
      (upd s.claimed e.caller true) := by
    rcases hcase with hstep | ⟨_, rg', hrg', _, hs'⟩
    · -- the erased state has no range for the caller: its claim is rejected
      exfalso
      have hzn : z.range e.caller = none := by
        rw [hsim.range]; exact z_eraseR_of_empty hrg (by omega)
      have hBz : pl_Base z := (pl_reachA hv hz).base
      obtain ⟨rz, hacc, _⟩ := pl_claim_state hBz hstep
      have := hacc.2.2.2.2.1
      rw [hzn] at this; cases this
    · rw [hrg] at hrg'
      injection hrg' with hrg'
      subst hrg'
      exact hs'
  exact ⟨key, by rw [key]; rfl, by rw [key]; rfl, by rw [key]; rfl⟩

/-! ### non-vacuity -/

theorem ReachZ.callOk {hash : List Nat → List Nat} {v : Variant} {s : State} {r : Nat} (e : Env)
    (c : Call) (h : ReachZ hash v s r) (hr : r ≤ e.round) (hok : EnvOK e)
    (hs : isOk (step hash s e c) = true) : ReachZ hash v (stOf (step hash s e c) s) e.round := by
  cases hx : step hash s e c with
  | error err => rw [hx] at hs; cases hs
  | ok q =>
    obtain ⟨s', o⟩ := q
    exact .call s r e c s' o h hr hok hx

/-- a launch with zero-size entries: 7 and 9 get empty ranges, 8 gets two tickets -/
def q1 : State := stOf (step id ex0 { caller := 1, round := 1 } (.addTickets [(7, 0), (8, 2)])) ex0
def q1b : State := stOf (step id q1 { caller := 1, round := 1 } (.addTickets [(9, 0)])) q1
def q2 : State := stOf (step id q1b { caller := 1, round := 2, esdts := [⟨.esdt 1, 0, 5⟩] } .deposit) q1b
def q3 : State := stOf (step id q2 { caller := 8, round := 6, egld := 20 } (.confirm 2)) q2
def q3b : State := stOf (step id q3 { caller := 1, round := 6 } (.blacklist [7])) q3
def q4 : State := stOf (step id q3b { caller := 9, round := 10 } .filter) q3b
def q5 : State := stOf (step id q4 { caller := 9, round := 11 } .select) q4
def q6 : State := stOf (step id q5 { caller := 7, round := 15 } .claim) q5

/-- a launch whose only entry has size zero, to the very end -/
def p1 : State := stOf (step id ex0 { caller := 1, round := 1 } (.addTickets [(7, 0)])) ex0
def p2 : State := stOf (step id p1 { caller := 1, round := 2, esdts := [⟨.esdt 1, 0, 5⟩] } .deposit) p1
def p3 : State := stOf (step id p2 { caller := 9, round := 10 } .filter) p2
def p4 : State := stOf (step id p3 { caller := 9, round := 11 } .select) p3
def p5 : State := stOf (step id p4 { caller := 1, round := 16 } .claimPayment) p4

theorem q1_reachZ : ReachZ id .base q1 1 :=
  ReachZ.callOk { caller := 1, round := 1 } (.addTickets [(7, 0), (8, 2)]) ex0_reach.toZ
    (by decide) (Or.inl rfl) rfl

/-- the zero-size entry created an empty range and its batch slot was overwritten -/
example : q1.range 7 = some ⟨1, 0⟩ ∧ q1.range 8 = some ⟨1, 2⟩ ∧ q1.batch 1 = some ⟨8, 2⟩ ∧
    q1.lastTicketId = 2 ∧ q1b.range 9 = some ⟨3, 2⟩ ∧ q1b.batch 3 = some ⟨9, 0⟩ ∧
    q1b.lastTicketId = 2 := by
  refine ⟨rfl, rfl, rfl, rfl, rfl, rfl, rfl⟩

/-- **`q1` is a `ReachZ` state that is NOT a `Reach` state** (of any deployment, at any round):
    reachable states of the original development have no empty range -/
theorem q1_not_reach (hash : List Nat → List Nat) (r : Nat) : ¬ Reach hash .base q1 r := by
  intro h
  have := LP.Props.C18reach.ranges_bounded hash q1 r (.plain (Or.inl rfl) h) 7 ⟨1, 0⟩ rfl
  exact absurd this.2.1 (by decide)

theorem q5_reachZ : ReachZ id .base q5 11 :=
  ReachZ.callOk { caller := 9, round := 11 } .select
    (ReachZ.callOk { caller := 9, round := 10 } .filter
      (ReachZ.callOk { caller := 1, round := 6 } (.blacklist [7])
        (ReachZ.callOk { caller := 8, round := 6, egld := 20 } (.confirm 2)
          (ReachZ.callOk { caller := 1, round := 2, esdts := [⟨.esdt 1, 0, 5⟩] } .deposit
            (ReachZ.callOk { caller := 1, round := 1 } (.addTickets [(9, 0)]) q1_reachZ
              (by decide) (Or.inl rfl) rfl)
            (by decide) (Or.inl rfl) rfl)
          (by decide) (Or.inr rfl) rfl)
        (by decide) (Or.inl rfl) rfl)
      (by decide) (Or.inl rfl) rfl)
    (by decide) (Or.inl rfl) rfl

theorem q6_reachZ : ReachZ id .base q6 15 :=
  ReachZ.callOk { caller := 7, round := 15 } .claim q5_reachZ (by decide) (Or.inl rfl) rfl

theorem p4_reachZ : ReachZ id .base p4 11 :=
  ReachZ.callOk { caller := 9, round := 11 } .select
    (ReachZ.callOk { caller := 9, round := 10 } .filter
      (ReachZ.callOk { caller := 1, round := 2, esdts := [⟨.esdt 1, 0, 5⟩] } .deposit
        (ReachZ.callOk { caller := 1, round := 1 } (.addTickets [(7, 0)]) ex0_reach.toZ
          (by decide) (Or.inl rfl) rfl)
        (by decide) (Or.inl rfl) rfl)
      (by decide) (Or.inl rfl) rfl)
    (by decide) (Or.inl rfl) rfl

/-- the stale empty ranges survive the filter (also the blacklisted one) -/
example : q4.flags.filtered = true ∧ q4.blacklist 7 = true ∧ q4.range 7 = some ⟨1, 0⟩ ∧
    q4.range 9 = some ⟨3, 2⟩ ∧ q4.batch 1 = some ⟨8, 2⟩ := by
  refine ⟨rfl, rfl, rfl, rfl, rfl⟩

example : AllDone q5 ∧ q5.nrWinning = 1 ∧ q5.claimablePayment = 10 := ⟨⟨rfl, rfl⟩, rfl, rfl⟩

/-- the claim of 7 wipes the batch slot of 8 and pays nothing -/
example : q6.range 7 = none ∧ q6.claimed 7 = true ∧ q6.batch 1 = none ∧
    q6.bal .egld 0 = q5.bal .egld 0 ∧ q6.bal (.esdt 1) 0 = q5.bal (.esdt 1) 0 ∧
    q6.range 9 = some ⟨3, 2⟩ := by
  refine ⟨rfl, rfl, rfl, rfl, rfl, rfl⟩

/-- a stale empty range does not block the end: in `p4` only the empty range of 7 remains; the
    owner's withdrawal leaves nothing (`lp_zero_at_end_Z` applied, and evaluated) -/
example : p4.range 7 = some ⟨1, 0⟩ ∧ p4.nrWinning = 0 ∧ p5.bal (.esdt 1) 0 = 0 ∧ p5.bal .egld 0 = 0 := by
  refine ⟨rfl, rfl, rfl, rfl⟩

example : p4.nrWinning = 0 ∧ p5.bal (.esdt p5.lpTok) 0 = 0 := by
  refine lp_zero_at_end_Z id .base (Or.inl rfl) p4 11 p4_reachZ ⟨rfl, rfl⟩ ?_
    { caller := 1, round := 16 } p5 _ (by decide) (Or.inl rfl) (stOf_step rfl p4).choose_spec
  intro a rg h
  by_cases ha : a = 7
  · subst ha
    have : p4.range 7 = some ⟨1, 0⟩ := rfl
    rw [this] at h
    injection h with h
    subst h
    decide
  · have : p4.range a = none := by
      show (if a = 7 then _ else _) = none
      rw [if_neg ha]; rfl
    rw [this] at h; cases h

/-- the theorems applied to the concrete history -/
example : ∃ L : List Nat, Covers q5 L ∧ PayEqPost q5 L :=
  let ⟨L, h1, _, h3⟩ := C01_solvent_Z id .base (Or.inl rfl) q5 11 q5_reachZ
  ⟨L, h1, h3 ⟨rfl, rfl⟩⟩

example : ∃ x, step id q5 { caller := 7, round := 15 } .claim = .ok x :=
  claim_never_starves_Z id .base (Or.inl rfl) q5 11 q5_reachZ { caller := 7, round := 15 } ⟨1, 0⟩
    rfl rfl rfl rfl rfl

example : ∃ x, step id q5 { caller := 9, round := 15 } .claim = .ok x :=
  claim_never_starves_Z id .base (Or.inl rfl) q5 11 q5_reachZ { caller := 9, round := 15 } ⟨3, 2⟩
    rfl rfl rfl rfl rfl

example : ∀ x, step id q2 { caller := 7, round := 5 } (.confirm 0) ≠ .ok x :=
  empty_range_cannot_confirm id q2 { caller := 7, round := 5 } 0 ⟨1, 0⟩ rfl (by decide)

end LP.Props.C01zero

#print axioms LP.Props.C01zero.simulation
#print axioms LP.Props.C01zero.reach_is_reachZ
#print axioms LP.Props.C01zero.C01_solvent_Z
#print axioms LP.Props.C01zero.three_counts_Z
#print axioms LP.Props.C01zero.three_counts_at_completion_Z
#print axioms LP.Props.C01zero.lp_cover_Z
#print axioms LP.Props.C01zero.lp_zero_at_end_Z
#print axioms LP.Props.C01zero.owner_withdrawal_covered_Z
#print axioms LP.Props.C01zero.claim_refund_covered_Z
#print axioms LP.Props.C01zero.winner_covered_Z
#print axioms LP.Props.C01zero.claim_never_starves_Z
#print axioms LP.Props.C01zero.empty_range_cannot_confirm
#print axioms LP.Props.C01zero.empty_range_claim
#print axioms LP.Props.C01zero.ReachZ.callOk
#print axioms LP.Props.C01zero.q1_reachZ
#print axioms LP.Props.C01zero.q1_not_reach
#print axioms LP.Props.C01zero.q5_reachZ
#print axioms LP.Props.C01zero.q6_reachZ
#print axioms LP.Props.C01zero.p4_reachZ
