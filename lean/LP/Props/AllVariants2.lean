import LP.Proofs.AllVariants2Aux
/-
  LP.Props.AllVariants2 — C02, C03, C11, C12 with the quantifier of the properties: "in every
  launchpad variant and at every reachable state" (the way `LP/Props/AllVariants.lean` states C01).

  `ReachOfA hash v a0 s r` (LP/Proofs/AllVariants2Aux.lean) is `ReachOf hash v s r` of
  `LP/Props/AllVariants.lean` with the deployment arguments `a0` exposed
  (`ReachOf_iff : ReachOf hash v s r ↔ ∃ a0, ReachOfA hash v a0 s r`), so that "the winners
  configured at deployment" is the term `a0.nrWinning`.  It selects, per variant, the reachable-state
  relation of the development that covers it (`ReachA` for base / locked / nft / guarV2, `v1_ReachA`
  for migration / lockedGuar, `g1_ReachA` for guarV1, `ng_ReachA` for nftGuar): `s` is reachable from
  a deployment with arguments `a0` by accepted transactions with non-decreasing rounds.
  Restrictions on histories (the same in every family): a transaction carries EGLD or ESDT
  transfers, not both (`EnvOK`); allocation entries have at least one ticket (`CallOKOf v`, i.e.
  `CallOK` / `v1_CallOK`).  `every_history_reachable`: every `run` over such a history is reachable.

  Main theorems (each ONE statement for all eight contracts, assembled from the per-family theorems)
    C02  `C02_cover_every_variant`, `C02_deposit_every_variant`, `C02_zero_at_end_every_variant`
    C03  `C03_every_variant`                 (form: AT THE CALL THAT COMPLETES the ticket selection —
                                              this is the form every family theorem has; after
                                              claims the flags of settled participants are cleared)
    C11  `C11_every_guaranteed_variant`      (same form), `C11_guarV2_every_state`
    C12  `C12_every_guaranteed_variant`
  Where the families state things differently the common predicate is spelled out in the statement
  and the content a common form would lose is kept as a per-family conjunct (`match v with`).
-/
namespace LP.Props.AllVariants
open LP LP.FY
open LP.Props.C02 (LpCover maxWinners)
open LP.Props.C17 (Hist RoundsFrom)

/-! ### reachability -/

/-- every `run` over an admissible history (non-decreasing rounds, `EnvOK`, `CallOKOf v`; rejected
    transactions leave no trace) from a deployment of variant `v` is a reachable state of `v`, with
    the deployment arguments of that deployment -/
theorem every_history_reachable (hash : List Nat → List Nat) (v : Variant) (a : InitArgs) (e0 : Env)
    (s0 : State) (hi : init v a e0 = .ok s0) (p : Hist) (hr : RoundsFrom e0.round p)
    (hp : ∀ x ∈ p, HistOKOf v x.1 x.2) :
    ∃ r', e0.round ≤ r' ∧ ReachOfA hash v a (run hash s0 p) r' :=
  reachOfA_run p s0 e0.round (initA_reachable hash v a e0 s0 hi) hr hp

/-! ### C02 -/

/-- **C02 for every variant, coverage**: at every reachable state of each of the eight contracts,
    from the deposit on (`T0 = a0.nrWinning` the winners configured at deployment;
    `reserveOf v s = nrWinning + totalGuaranteed` for the five contracts with guaranteed tickets,
    `nrWinning` for the other three):
    * the payment token is not the launchpad token;
    * the launchpad-token balance covers `perTicket × nrWinning`, the tokens of all outstanding
      winners (`LpCover`);
    * until the filter completes `reserveOf v s = T0` and the balance covers `perTicket × T0`;
    * until all selection steps are complete the balance covers `perTicket × reserveOf v s`
      (for launchpad-nft-and-guaranteed-tickets: until the guaranteed-ticket sub-step of
      `secondary` is complete, i.e. no NFT-draw cursor is saved);
    * after completion (`AllDone`): with `Lw` a duplicate-free list of everybody who may still hold
      a range, `Σ_{Lw} winCountOf = nrWinning`, and
        - the six contracts without vesting: balance ≥ `perTicket × Σ_{Lw} winCountOf`;
        - the two contracts with vesting (`guarV1`, `guarV2`) — an EQUALITY:
          balance = owner's not yet withdrawn surplus + `perTicket × Σ_{Lw} winCountOf`
                    + Σ_{Lv} (userTotal − userClaimed)   (the unvested remainders of the settled;
          `Lv` lists every vesting record; nobody is booked more than his entitlement);
    * per family, what the common form loses: plain launchpads — the ledger is an equality
      `balance = perTicket × k + perTicket × nrWinning` with `k` the tickets of the owner's not yet
      withdrawn surplus (`k = 0` until the filter completes, `nrWinning + k ≤ T0`); vested
      launchpads — until the distribution completes the balance is exactly the recorded deposit
      and nobody has a vesting record. -/
theorem C02_cover_every_variant (hash : List Nat → List Nat) (v : Variant) (a0 : InitArgs)
    (s : State) (r : Nat) (h : ReachOfA hash v a0 s r) (hd : s.deposited = true) :
    s.payTok ≠ .esdt s.lpTok ∧
    s.perTicket * s.nrWinning ≤ s.bal (.esdt s.lpTok) 0 ∧
    (s.flags.filtered = false →
      reserveOf v s = a0.nrWinning ∧ s.perTicket * a0.nrWinning ≤ s.bal (.esdt s.lpTok) 0) ∧
    (s.flags.additional = false → (v = .nftGuar → ∀ rg, s.op ≠ .additional (.nft rg)) →
      s.perTicket * reserveOf v s ≤ s.bal (.esdt s.lpTok) 0) ∧
    (AllDone s →
      ∃ Lw : List Nat, Covers s Lw ∧ (∀ a rg, s.range a = some rg → a ∈ Lw) ∧
        sumOver (winCountOf s) Lw = s.nrWinning ∧
        (v.vested = false → s.perTicket * sumOver (winCountOf s) Lw ≤ s.bal (.esdt s.lpTok) 0) ∧
        (v.vested = true → ∃ Lv : List Nat, Lv.Nodup ∧
          (∀ a, a ∉ Lv → s.userTotal a = 0 ∧ s.userClaimed a = 0) ∧
          (∀ a, s.userClaimed a ≤ s.userTotal a) ∧
          s.bal (.esdt s.lpTok) 0 = ownSurplus s + s.perTicket * sumOver (winCountOf s) Lw
            + sumOver (fun a => s.userTotal a - s.userClaimed a) Lv)) ∧
    (match v with
     | .base | .locked =>
        ∃ k, s.bal (.esdt s.lpTok) 0 = s.perTicket * k + s.perTicket * s.nrWinning ∧
          s.nrWinning + k ≤ a0.nrWinning ∧ (s.flags.filtered = false → k = 0)
     | .guarV1 | .guarV2 =>
        s.flags.additional = false → s.bal (.esdt s.lpTok) 0 = s.totalDeposited ∧
          ∀ a, s.userTotal a = 0 ∧ s.userClaimed a = 0 ∧ s.claimed a = false
     | _ => True) := by
  have key : CoverSpec v a0.nrWinning s := by
    cases v <;> simp only [ReachOfA] at h
    · exact cover_plain hash .base (Or.inl rfl) a0 s r h hd
    · exact cover_plain hash .locked (Or.inr rfl) a0 s r h hd
    · exact cover_nft hash a0 s r h hd
    · exact cover_guarV1 hash a0 s r h hd
    · exact cover_guarV2 hash a0 s r h hd
    · exact cover_v1 hash .migration (Or.inl rfl) a0 s r h hd
    · exact cover_v1 hash .lockedGuar (Or.inr rfl) a0 s r h hd
    · exact cover_nftGuar hash a0 s r h hd
  obtain ⟨k1, k2, k3, k4, k5⟩ := key
  refine ⟨k1, k2, k3, k4, k5, ?_⟩
  cases v <;> simp only [ReachOfA] at h <;> try trivial
  · exact (LP.PL.lp_ledger_plain hash .base (Or.inl rfl) a0 s r h).2.2.2.2.2 hd
  · exact (LP.PL.lp_ledger_plain hash .locked (Or.inr rfl) a0 s r h).2.2.2.2.2 hd
  · intro hna
    obtain ⟨f1, f2, _⟩ := LP.Props.C01reachG1.lp_before_distribution_guarV1 hash s r
      (g1_Reach_iff.mpr ⟨a0, h⟩) hna
    exact ⟨(f2 hd).1, f1⟩
  · intro hna
    obtain ⟨f1, f2, _⟩ := LP.Props.C01reachV2.lp_before_distribution_guarV2 hash s r
      (Reach_iff.mpr ⟨a0, h⟩) hna
    exact ⟨(f2 hd).1, f1⟩

/-- the same along every admissible history from a deployment (`CoverSpec` is the conjunction of
    the first five conjuncts of `C02_cover_every_variant`) -/
theorem C02_cover_every_history (hash : List Nat → List Nat) (v : Variant) (a : InitArgs) (e0 : Env)
    (s0 : State) (hi : init v a e0 = .ok s0) (p : Hist) (hr : RoundsFrom e0.round p)
    (hp : ∀ x ∈ p, HistOKOf v x.1 x.2) (hd : (run hash s0 p).deposited = true) :
    CoverSpec v a.nrWinning (run hash s0 p) := by
  obtain ⟨r', _, h⟩ := every_history_reachable hash v a e0 s0 hi p hr hp
  obtain ⟨k1, k2, k3, k4, k5, _⟩ := C02_cover_every_variant hash v a _ r' h hd
  exact ⟨k1, k2, k3, k4, k5⟩

/-- **C02 for every variant, the deposit**: an accepted `deposit` in a reachable state of any of
    the eight contracts is made by the owner, is the first one, and carries exactly one fungible
    transfer of `perTicket × reserveOf v s` launchpad tokens — which, until the filter completes
    (the only moment a launch with confirmations can make it: `confirm` requires the deposit), is
    `perTicket × (winners configured at deployment)`; the amount is recorded, nothing is sent out;
    and `deposit` is accepted at most once: after ANY further history (any calls, accepted or not)
    a second deposit is rejected. -/
theorem C02_deposit_every_variant (hash : List Nat → List Nat) (v : Variant) (a0 : InitArgs)
    (s : State) (r : Nat) (h : ReachOfA hash v a0 s r) (e : Env) (s' : State) (o : Out)
    (hs : step hash s e .deposit = .ok (s', o)) :
    e.caller = s.owner ∧ s.deposited = false ∧
    singleFungible e = .ok (.esdt s.lpTok, s.perTicket * reserveOf v s) ∧
    (s.flags.filtered = false → reserveOf v s = a0.nrWinning ∧
      singleFungible e = .ok (.esdt s.lpTok, s.perTicket * a0.nrWinning) ∧
      s'.totalDeposited = s.perTicket * a0.nrWinning) ∧
    s'.deposited = true ∧ s'.totalDeposited = s.perTicket * reserveOf v s ∧
    s'.perTicket = s.perTicket ∧ s'.nrWinning = s.nrWinning ∧ s'.lpTok = s.lpTok ∧ o.xfers = [] ∧
    ∀ (p : List (Env × Call)) (e' : Env),
      ∃ err, step hash (run hash s' p) e' .deposit = .error err := by
  obtain ⟨k1, k2, k3, k4, k5, k6, k7, k8, k9, k10⟩ :=
    deposit_of_maxWinners hash (maxWinners_eq_reserveOf h) hs
  refine ⟨k1, k2, k3, fun hf => ?_, k4, k5, k6, k7, k8, k9, k10⟩
  have hres := reserve_before_filter h hf
  exact ⟨hres, by rw [← hres]; exact k3, by rw [← hres]; exact k5⟩

/-- **C02 for every variant, nothing is left at the end**: all selection steps complete and every
    participant settled (no range left), in a reachable state of any of the eight contracts: no
    winner is outstanding (`nrWinning = 0`), and
    * the six contracts without vesting: the owner's accepted `claimPayment` leaves NO launchpad
      token in the contract;
    * the two contracts with vesting: the balance is zero once everybody has received his whole
      entitlement and the owner has withdrawn (`totalDeposited` cleared); and the owner's accepted
      `claimPayment` (transaction of an admissible history) clears both records and leaves exactly
      the unvested remainders `Σ (userTotal − userClaimed)`. -/
theorem C02_zero_at_end_every_variant (hash : List Nat → List Nat) (v : Variant) (a0 : InitArgs)
    (s : State) (r : Nat) (h : ReachOfA hash v a0 s r) (hd : AllDone s)
    (hall : ∀ a, s.range a = none) :
    s.nrWinning = 0 ∧
    (v.vested = false → ∀ e s' o, step hash s e .claimPayment = .ok (s', o) →
      s'.nrWinning = 0 ∧ s'.bal (.esdt s'.lpTok) 0 = 0) ∧
    (v.vested = true →
      ((∀ a, s.userClaimed a = s.userTotal a) → s.totalDeposited = 0 →
        s.bal (.esdt s.lpTok) 0 = 0) ∧
      (∀ e s' o, r ≤ e.round → EnvOK e → step hash s e .claimPayment = .ok (s', o) →
        s'.totalDeposited = 0 ∧ s'.claimablePayment = 0 ∧ s'.nrWinning = 0 ∧
        ∃ L : List Nat, L.Nodup ∧ (∀ a, a ∉ L → s'.userTotal a = 0 ∧ s'.userClaimed a = 0) ∧
          s'.bal (.esdt s'.lpTok) 0 = sumOver (fun a => s'.userTotal a - s'.userClaimed a) L)) := by
  have key : ZeroAtEndSpec hash v s r := by
    cases v <;> simp only [ReachOfA] at h
    · exact zero_plain hash .base (Or.inl rfl) a0 s r h hd hall
    · exact zero_plain hash .locked (Or.inr rfl) a0 s r h hd hall
    · exact zero_nft hash a0 s r h hd hall
    · exact zero_guarV1 hash a0 s r h hd hall
    · exact zero_guarV2 hash a0 s r h hd hall
    · exact zero_v1 hash .migration (Or.inl rfl) a0 s r h hd hall
    · exact zero_v1 hash .lockedGuar (Or.inr rfl) a0 s r h hd hall
    · exact zero_nftGuar hash a0 s r h hd hall
  exact key

/-! ### C03 -/

/-- **C03 for every variant** (form: at the call that completes the selection of winning tickets;
    this is the form of every family theorem — the flags of a settled participant are cleared by his
    claim, so "flags = min …" is a statement about the moment of completion; `nrWinning` and
    `claimablePayment` keep the count until the first claim / the owner's withdrawal:
    `three_counts…`, `proceeds_until_withdrawal…` of the family files).

    `completionCall v` is `select` (base, locked, nft), `distribute` (guarV2, migration, lockedGuar,
    guarV1) or `secondary` (nftGuar); `Completed v s' o` says the accepted call completed the step:
    the completion flag is set (`selected` resp. v2 `additional`), or — the four contracts with the
    v1 distribution loop — the call returned `[0]` (for those contracts "every call sequence
    completes" is NOT a theorem: `C03_leftover_v1_may_spin`; an accepted call returning `[0]` is
    exactly a completed one).

    From any reachable state `s` of a contract deployed with `a0.nrWinning` winners, in the state
    `s'` left by that call: the number of winning flags is `min (winners configured at deployment)
    lastTicketId`; every winning ticket id lies in `1..lastTicketId`; the reported `nrWinning` is the
    number of flags; the owner's proceeds are `price ×` that number, `price > 0`, hence
    `claimablePayment / price` is that number; the lottery flag is set; in every contract but the
    launchpad with NFT draw (whose NFT draw `selectNft` — which touches no ticket — is still to
    come) all selection steps are complete; the four v1-allocation contracts also keep every earlier
    winner. -/
theorem C03_every_variant (hash : List Nat → List Nat) (v : Variant) (a0 : InitArgs)
    (s : State) (r : Nat) (h : ReachOfA hash v a0 s r) (e : Env) (s' : State) (o : Out)
    (hr : r ≤ e.round) (hs : step hash s e (completionCall v) = .ok (s', o))
    (hc : Completed v s' o) :
    countTrue s'.status s'.lastTicketId = min a0.nrWinning s'.lastTicketId ∧
    (∀ t, s'.status t = true → 1 ≤ t ∧ t ≤ s'.lastTicketId) ∧
    s'.nrWinning = countTrue s'.status s'.lastTicketId ∧
    s'.claimablePayment = s'.price * countTrue s'.status s'.lastTicketId ∧
    0 < s'.price ∧ s'.claimablePayment / s'.price = countTrue s'.status s'.lastTicketId ∧
    s'.flags.selected = true ∧
    (v ≠ .nft → AllDone s') ∧
    (v.v1Alloc = true → ∀ t, s.status t = true → s'.status t = true) := by
  obtain ⟨⟨k1, k2, k3, k4, k5, k6, k7⟩, k8, k9⟩ := final_every h e s' o hr hs hc
  exact ⟨k1, k2, k3, k4, k5, k6, k7, k8, k9⟩

/-! ### C11 -/

/-- **C11 for every variant with guaranteed tickets** (guarV1, guarV2, migration, lockedGuar,
    nftGuar; same form as `C03_every_variant`: at the call that completes the distribution): in the
    state `s'` left by that call every holder `u` of a guarantee record `st` — for v2: who still
    holds a ticket range — owns at least `guaranteeOf v s' u st` winning tickets:
      v2   `(calcV2 st.infos confirmed).1 = min confirmed (guarantees whose threshold is met)`,
      v1   `min (qualified guarantee (calcV1 st confirmed minConfirmed).1) confirmed`;
    and no winning flag lies outside `1..lastTicketId`.  (`distribute` / `secondary` write neither
    `uts` nor `confirmed`, so these are the records and confirmations at the start of the
    distribution.) -/
theorem C11_every_guaranteed_variant (hash : List Nat → List Nat) (v : Variant)
    (hg : v.hasGuaranteed = true) (a0 : InitArgs)
    (s : State) (r : Nat) (h : ReachOfA hash v a0 s r) (e : Env) (s' : State) (o : Out)
    (hr : r ≤ e.round) (hs : step hash s e (completionCall v) = .ok (s', o))
    (hc : Completed v s' o) :
    (∀ u st, s'.uts u = some st → (v = .guarV2 → ∃ rg, s'.range u = some rg) →
      guaranteeOf v s' u st ≤ winCountOf s' u) ∧
    (∀ t, s'.status t = true → 1 ≤ t ∧ t ≤ s'.lastTicketId) ∧
    (∀ u st, guaranteeOf .guarV2 s' u st
      = min (s'.confirmed u) (metG st.infos (s'.confirmed u))) := by
  obtain ⟨k1, k2⟩ := honoured_every hg h e s' o hr hs hc
  exact ⟨k1, k2, fun u st => calcV2_fst _ _⟩

/-- **C11, v2, every later state**: for the v2 contract the guarantee is part of the invariant — in
    EVERY reachable state in which all selection steps are complete (whatever claims and
    withdrawals happened since) every holder of a guarantee record who has not settled yet holds
    at least his guaranteed number of winning tickets -/
theorem C11_guarV2_every_state (hash : List Nat → List Nat) (a0 : InitArgs) (s : State) (r : Nat)
    (h : ReachOfA hash .guarV2 a0 s r) (hd : AllDone s) :
    (∀ u st rg, s.uts u = some st → s.range u = some rg →
      guaranteeOf .guarV2 s u st ≤ winCountOf s u) ∧
    (∀ t, s.status t = true → 1 ≤ t ∧ t ≤ s.lastTicketId) := by
  obtain ⟨k1, k2⟩ := LP.Props.C01reachV2.guarantee_honoured_guarV2 hash s r
    (Reach_iff.mpr ⟨a0, h⟩) hd
  exact ⟨fun u st rg hu hrg => (k1 u st rg hu hrg).1, k2⟩

/-! ### C12 -/

/-- **C12 for every variant with guaranteed tickets**: at every reachable state of the five
    contracts, until the filter completes, `nrWinning + totalGuaranteed` is the winners count
    configured at deployment (every allocation / blacklist / un-blacklist moves tickets between the
    two without changing the sum); until all selection steps are complete the sum never exceeds it
    (for nftGuar: until the guaranteed-ticket sub-step is complete), nor does `nrWinning` alone -/
theorem C12_every_guaranteed_variant (hash : List Nat → List Nat) (v : Variant)
    (hg : v.hasGuaranteed = true) (a0 : InitArgs) (s : State) (r : Nat)
    (h : ReachOfA hash v a0 s r) :
    (s.flags.filtered = false → s.nrWinning + s.totalGuaranteed = a0.nrWinning) ∧
    (s.flags.additional = false → (v = .nftGuar → ∀ rg, s.op ≠ .additional (.nft rg)) →
      s.nrWinning + s.totalGuaranteed ≤ a0.nrWinning) ∧
    (s.flags.additional = false → s.nrWinning ≤ a0.nrWinning) :=
  reserve_every hg h

/-- C12 in the notation of C02, all eight contracts: until the filter completes the number of
    tickets the deposit is computed from is the winners count configured at deployment -/
theorem C12_reserveOf_every_variant (hash : List Nat → List Nat) (v : Variant) (a0 : InitArgs)
    (s : State) (r : Nat) (h : ReachOfA hash v a0 s r) (hf : s.flags.filtered = false) :
    reserveOf v s = a0.nrWinning ∧ maxWinners s = a0.nrWinning := by
  have h1 := reserve_before_filter h hf
  exact ⟨h1, by rw [maxWinners_eq_reserveOf h]; exact h1⟩

/-! ### C03, the counts after completion (partial: five of the eight contracts)

  FULL STATEMENT WANTED (all eight variants): once all selection steps are complete, every accepted
  call keeps the price and the completion flags, and leaves `claimablePayment` unchanged unless it is
  the owner's `claimPayment`, which sets it to zero — so that, with `C03_every_variant`, until the
  owner withdraws `claimablePayment / price` is the number of winning flags at completion.
  (For `nrWinning`: `C02_cover_every_variant` already gives, for all eight, that after completion
  `nrWinning` is the sum of the winning tickets of the participants who have not settled.)

  PROVED for base, locked, migration, lockedGuar, guarV1, where the family developments contain the
  frame theorem (`proceeds_until_withdrawal…`).  MISSING for guarV2, nft, nftGuar: the family
  developments have no "proceeds frame" lemma (an endpoint-by-endpoint case analysis like
  `rb_proceeds_frame`, LP/Proofs/ReachFrame.lean, over their own invariants `WF2`, `nf_WF`,
  `ng_WF`); nothing else is needed. -/

theorem C03_proceeds_until_withdrawal_partial (hash : List Nat → List Nat) (v : Variant)
    (hv : v = .base ∨ v = .locked ∨ v = .migration ∨ v = .lockedGuar ∨ v = .guarV1)
    (a0 : InitArgs) (s : State) (r : Nat) (h : ReachOfA hash v a0 s r) (hd : AllDone s)
    (e : Env) (c : Call) (s' : State) (o : Out) (hr : r ≤ e.round)
    (hs : step hash s e c = .ok (s', o)) :
    s'.price = s.price ∧ AllDone s' ∧
    (s'.claimablePayment = s.claimablePayment ∨ (c = .claimPayment ∧ s'.claimablePayment = 0)) := by
  rcases hv with rfl | rfl | rfl | rfl | rfl <;> simp only [ReachOfA] at h
  · exact LP.Props.C01reach.proceeds_until_withdrawal hash .base (Or.inl rfl) s r
      (Reach_iff.mpr ⟨a0, h⟩) hd e c s' o hr hs
  · exact LP.Props.C01reach.proceeds_until_withdrawal hash .locked (Or.inr rfl) s r
      (Reach_iff.mpr ⟨a0, h⟩) hd e c s' o hr hs
  · exact LP.Props.C01reachV1.proceeds_until_withdrawal_v1 hash .migration (Or.inl rfl) s r
      (v1_Reach_iff.mpr ⟨a0, h⟩) hd e c s' o hr hs
  · exact LP.Props.C01reachV1.proceeds_until_withdrawal_v1 hash .lockedGuar (Or.inr rfl) s r
      (v1_Reach_iff.mpr ⟨a0, h⟩) hd e c s' o hr hs
  · exact LP.Props.C01reachG1.proceeds_until_withdrawal_guarV1 hash s r
      (g1_Reach_iff.mpr ⟨a0, h⟩) hd e c s' o hr hs

/-! ### non-vacuity: the concrete reachable states of the family files satisfy the hypotheses -/

section NonVacuity
open LP.PL LP.Props.C01reach

def lgArgs : InitArgs :=
  { LP.Props.C01reachV1.exArgs with lockPct := 5000, unlockEpoch := 10, lockAddr := 99 }

def lgDeploy : Env := { caller := 1, round := 0, isContract := fun a => a == 99 }

def lg0 : State := match init .lockedGuar lgArgs lgDeploy with
  | .ok s => s
  | .error _ => default

/-- reachable states of all eight contracts with the hypotheses of `C02_cover_every_variant`
    (deposit made; before the filter / during the distribution / after completion / after claims
    and the owner's withdrawal) -/
example :
    (ReachOfA id .locked lkArgs l3 5 ∧ l3.deposited = true ∧ l3.flags.filtered = false) ∧
    (ReachOfA id .locked lkArgs l7 16 ∧ l7.deposited = true ∧ AllDone l7) ∧
    (ReachOfA id .migration LP.Props.C01reachV1.exArgs LP.Props.C01reachV1.ex10 13 ∧
      LP.Props.C01reachV1.ex10.deposited = true ∧
      LP.Props.C01reachV1.ex10.flags.additional = false) ∧
    (ReachOfA id .migration LP.Props.C01reachV1.exArgs LP.Props.C01reachV1.ex14 17 ∧
      LP.Props.C01reachV1.ex14.deposited = true ∧ AllDone LP.Props.C01reachV1.ex14) ∧
    (ReachOfA id .guarV1 LP.Props.C01reachG1.wArgs LP.Props.C01reachG1.w12 50 ∧
      LP.Props.C01reachG1.w12.deposited = true ∧ AllDone LP.Props.C01reachG1.w12) ∧
    (ReachOfA id .nftGuar LP.Props.C14reachG.gArgs LP.Props.C14reachG.g18 17 ∧
      LP.Props.C14reachG.g18.deposited = true ∧ AllDone LP.Props.C14reachG.g18) ∧
    (∃ a0, ReachOfA id .guarV2 a0 LP.VV.x14 50 ∧ LP.VV.x14.deposited = true ∧ AllDone LP.VV.x14) ∧
    (∃ a0, ReachOfA id .nft a0 LP.Props.C14reach.n12 14 ∧ LP.Props.C14reach.n12.deposited = true ∧
      AllDone LP.Props.C14reach.n12) ∧
    (∃ a0, ReachOfA id .base a0 ex7 12 ∧ ex7.deposited = true ∧ AllDone ex7) ∧
    (ReachOfA id .lockedGuar lgArgs lg0 0 ∧ lg0.lockPct = 5000) :=
  ⟨⟨l3_reachA, rfl, rfl⟩, ⟨l7_reachA, (by decide +kernel), ⟨(by decide +kernel), (by decide +kernel)⟩⟩,
    ⟨LP.Props.C01reachV1.ex10_reach, (by decide +kernel), (by decide +kernel)⟩,
    ⟨LP.Props.C01reachV1.ex14_reach, (by decide +kernel), ⟨(by decide +kernel), (by decide +kernel)⟩⟩,
    ⟨LP.Props.C01reachG1.w12_reach, (by decide +kernel), ⟨(by decide +kernel), (by decide +kernel)⟩⟩,
    ⟨LP.Props.C14reachG.g18_reach, (by decide +kernel), ⟨(by decide +kernel), (by decide +kernel)⟩⟩,
    by
      obtain ⟨a0, h⟩ := Reach_iff.mp LP.VV.x14_reach
      exact ⟨a0, h, (by decide +kernel), ⟨(by decide +kernel), (by decide +kernel)⟩⟩,
    by
      obtain ⟨a0, h⟩ := Reach_iff.mp LP.Props.C14reach.n12_reach
      exact ⟨a0, h, (by decide +kernel), ⟨(by decide +kernel), (by decide +kernel)⟩⟩,
    by
      obtain ⟨a0, h⟩ := Reach_iff.mp ex7_reach
      exact ⟨a0, h, (by decide +kernel), ⟨(by decide +kernel), (by decide +kernel)⟩⟩,
    ⟨initA_reachable id .lockedGuar lgArgs lgDeploy lg0 rfl, rfl⟩⟩

/-- `C02_cover_every_variant` on the locked launchpad before the filter: the whole deposit
    `1000 × 3` is there and `reserveOf = T0 = 3` -/
example : reserveOf .locked l3 = lkArgs.nrWinning ∧
    l3.perTicket * lkArgs.nrWinning ≤ l3.bal (.esdt l3.lpTok) 0 ∧ l3.bal (.esdt 1) 0 = 3000 := by
  obtain ⟨_, _, k3, _⟩ := C02_cover_every_variant id .locked lkArgs l3 5 l3_reachA rfl
  exact ⟨(k3 rfl).1, (k3 rfl).2, rfl⟩

/-- … on the migration launchpad in the middle of an interrupted distribution: the reserve is
    still covered -/
example : LP.Props.C01reachV1.ex10.perTicket * reserveOf .migration LP.Props.C01reachV1.ex10
    ≤ LP.Props.C01reachV1.ex10.bal (.esdt LP.Props.C01reachV1.ex10.lpTok) 0 := by
  obtain ⟨_, _, _, k4, _⟩ := C02_cover_every_variant id .migration _ _ 13
    LP.Props.C01reachV1.ex10_reach (by decide +kernel)
  exact k4 (by decide +kernel) (fun hh => by cases hh)

/-- … on the vested launchpad after three claims of the winner and the owner's withdrawal: the
    closed form of the balance -/
example : ∃ Lw Lv : List Nat, Covers LP.Props.C01reachG1.w12 Lw ∧ Lv.Nodup ∧
    LP.Props.C01reachG1.w12.bal (.esdt LP.Props.C01reachG1.w12.lpTok) 0
      = ownSurplus LP.Props.C01reachG1.w12
        + LP.Props.C01reachG1.w12.perTicket * sumOver (winCountOf LP.Props.C01reachG1.w12) Lw
        + sumOver (fun a => LP.Props.C01reachG1.w12.userTotal a
            - LP.Props.C01reachG1.w12.userClaimed a) Lv := by
  obtain ⟨_, _, _, _, k5, _⟩ := C02_cover_every_variant id .guarV1 _ _ 50
    LP.Props.C01reachG1.w12_reach (by decide +kernel)
  obtain ⟨Lw, h1, _, _, _, h5⟩ := k5 ⟨(by decide +kernel), (by decide +kernel)⟩
  obtain ⟨Lv, g1, _, _, g4⟩ := h5 rfl
  exact ⟨Lw, Lv, h1, g1, g4⟩

theorem l1_reachA : ReachA id .locked lkArgs l1 1 :=
  callOkA { caller := 1, round := 1 } (.addTickets [(7, 2), (8, 1)])
    l0_reachA (by decide) (Or.inl rfl) (by show ∀ p ∈ [(7, 2), (8, 1)], 1 ≤ p.2; decide) rfl

/-- `C02_deposit_every_variant` on the deposit `l1 → l2` of the locked launchpad: exactly
    `1000 × 3` launchpad tokens; a second deposit right away is rejected -/
example : ∃ o, step id l1 { caller := 1, round := 2, esdts := [⟨.esdt 1, 0, 3000⟩] } .deposit = .ok (l2, o) ∧
    singleFungible { caller := 1, round := 2, esdts := [⟨.esdt 1, 0, 3000⟩] }
      = .ok (.esdt l1.lpTok, l1.perTicket * lkArgs.nrWinning) ∧
    l2.totalDeposited = l1.perTicket * lkArgs.nrWinning ∧
    ∃ err, step id l2 { caller := 1, round := 3, esdts := [⟨.esdt 1, 0, 3000⟩] } .deposit = .error err := by
  obtain ⟨o, ho⟩ := stOf_step
    (x := step id l1 { caller := 1, round := 2, esdts := [⟨.esdt 1, 0, 3000⟩] } .deposit) rfl l1
  have ho' : step id l1 { caller := 1, round := 2, esdts := [⟨.esdt 1, 0, 3000⟩] } .deposit
      = .ok (l2, o) := ho
  obtain ⟨_, _, _, k4, _, _, _, _, _, _, k11⟩ :=
    C02_deposit_every_variant id .locked lkArgs l1 1 l1_reachA _ l2 o ho'
  obtain ⟨_, m2, m3⟩ := k4 rfl
  exact ⟨o, ho', m2, m3, k11 [] _⟩

/-- `C02_zero_at_end_every_variant` on the base launchpad nobody took part in (`z3`: all selection
    steps complete, no range at all): the owner's withdrawal `z3 → z4` leaves nothing -/
example : AllDone z3 ∧ (∀ a, z3.range a = none) ∧ z3.nrWinning = 0 ∧
    z4.bal (.esdt z4.lpTok) 0 = 0 := by
  obtain ⟨a0, h⟩ := Reach_iff.mp z3_reach
  obtain ⟨o, ho⟩ := stOf_step (x := step id z3 { caller := 1, round := 15 } .claimPayment) rfl z3
  have ho' : step id z3 { caller := 1, round := 15 } .claimPayment = .ok (z4, o) := ho
  obtain ⟨k1, k2, _⟩ := C02_zero_at_end_every_variant id .base a0 z3 11 h ⟨rfl, rfl⟩ (fun _ => rfl)
  exact ⟨⟨rfl, rfl⟩, fun _ => rfl, k1, (k2 rfl _ z4 o ho').2⟩

/-- … its premises also hold in the launchpad with NFT draw after both participants have settled -/
example : ∃ a0, ReachOfA id .nft a0 LP.Props.C14reach.n15 17 ∧ AllDone LP.Props.C14reach.n15 ∧
    ∀ a, LP.Props.C14reach.n15.range a = none := by
  obtain ⟨a0, h⟩ := Reach_iff.mp LP.Props.C14reach.n15_reach
  exact ⟨a0, h, ⟨by decide +kernel, by decide +kernel⟩, LP.FL.fl_n15_ranges⟩

/-- `C03_every_variant` and `C11_every_guaranteed_variant` on the migration launchpad: the third
    `distribute` call (after two interrupted ones) is accepted with `ret = [0]`;
    4 = min 4 5 tickets win, the proceeds are `10 × 4` -/
example : ∃ s' o, step id LP.Props.C01reachV1.ex10 { caller := 9, round := 14 } (completionCall .migration)
      = .ok (s', o) ∧ Completed .migration s' o ∧
    countTrue s'.status s'.lastTicketId = min LP.Props.C01reachV1.exArgs.nrWinning s'.lastTicketId ∧
    s'.claimablePayment / s'.price = countTrue s'.status s'.lastTicketId ∧ s'.nrWinning = 4 ∧
    (∀ u st, s'.uts u = some st → guaranteeOf .migration s' u st ≤ winCountOf s' u) := by
  refine ⟨_, _, rfl, rfl, ?_, ?_, rfl, ?_⟩
  · exact (C03_every_variant id .migration _ _ 13 LP.Props.C01reachV1.ex10_reach
      { caller := 9, round := 14 } _ _ (by decide) rfl rfl).1
  · exact (C03_every_variant id .migration _ _ 13 LP.Props.C01reachV1.ex10_reach
      { caller := 9, round := 14 } _ _ (by decide) rfl rfl).2.2.2.2.2.1
  · intro u st hu
    exact (C11_every_guaranteed_variant id .migration rfl _ _ 13 LP.Props.C01reachV1.ex10_reach
      { caller := 9, round := 14 } _ _ (by decide) rfl rfl).1 u st hu (fun hh => by cases hh)

/-- … on launchpad-nft-and-guaranteed-tickets: the fourth `secondary` call completes;
    3 = min 3 5 tickets win -/
example : ∃ s' o, step id LP.Props.C14reachG.g14 { caller := 9, round := 14 } (completionCall .nftGuar)
      = .ok (s', o) ∧ Completed .nftGuar s' o ∧
    countTrue s'.status s'.lastTicketId = min LP.Props.C14reachG.gArgs.nrWinning s'.lastTicketId ∧
    s'.nrWinning = 3 ∧ AllDone s' := by
  refine ⟨_, _, rfl, rfl, ?_, rfl, ?_⟩
  · exact (C03_every_variant id .nftGuar _ _ 14 LP.Props.C14reachG.g14_reach
      { caller := 9, round := 14 } _ _ (by decide) rfl rfl).1
  · exact (C03_every_variant id .nftGuar _ _ 14 LP.Props.C14reachG.g14_reach
      { caller := 9, round := 14 } _ _ (by decide) rfl rfl).2.2.2.2.2.2.2.1 (by decide)

/-- … on the locked launchpad (`select` completes in one call): 2 = min 3 2 tickets win -/
example : ∃ o, step id l4 { caller := 9, round := 11 } (completionCall .locked) = .ok (l5, o) ∧
    Completed .locked l5 o ∧
    countTrue l5.status l5.lastTicketId = min lkArgs.nrWinning l5.lastTicketId ∧ l5.nrWinning = 2 := by
  have l4_reachA : ReachA id .locked lkArgs l4 10 :=
    callOkA { caller := 9, round := 10 } .filter l3_reachA (by decide) (Or.inl rfl) trivial rfl
  obtain ⟨o, ho⟩ := stOf_step (x := step id l4 { caller := 9, round := 11 } .select) rfl l4
  have ho' : step id l4 { caller := 9, round := 11 } (completionCall .locked) = .ok (l5, o) := ho
  exact ⟨o, ho', rfl,
    (C03_every_variant id .locked lkArgs l4 10 l4_reachA _ l5 o (by decide) ho' rfl).1, rfl⟩

/-- `C12_every_guaranteed_variant` on the migration launchpad before the filter:
    `1 + 3 = 4 = T0` -/
example : LP.Props.C01reachV1.ex5.nrWinning + LP.Props.C01reachV1.ex5.totalGuaranteed
      = LP.Props.C01reachV1.exArgs.nrWinning ∧
    LP.Props.C01reachV1.ex5.nrWinning = 1 ∧ LP.Props.C01reachV1.ex5.totalGuaranteed = 3 :=
  ⟨(C12_every_guaranteed_variant id .migration rfl _ _ 6 LP.Props.C01reachV1.ex5_reach).1 rfl,
    rfl, rfl⟩

/-- `every_history_reachable` on a one-transaction history (with `run`) -/
example : ∃ r', ReachOfA id .locked lkArgs
    (run id l0 [({ caller := 1, round := 1 }, .addTickets [(7, 2), (8, 1)])]) r' := by
  obtain ⟨r', _, h⟩ := every_history_reachable id .locked lkArgs lkDeploy l0 rfl
    [({ caller := 1, round := 1 }, .addTickets [(7, 2), (8, 1)])] ⟨by decide, trivial⟩
    (by
      intro x hx
      simp only [List.mem_cons, List.not_mem_nil, or_false] at hx
      subst hx
      exact ⟨Or.inl rfl, by show ∀ p ∈ [(7, 2), (8, 1)], 1 ≤ p.2; decide⟩)
  exact ⟨r', h⟩

end NonVacuity

end LP.Props.AllVariants

#print axioms LP.Props.AllVariants.every_history_reachable
#print axioms LP.Props.AllVariants.C02_cover_every_variant
#print axioms LP.Props.AllVariants.C02_cover_every_history
#print axioms LP.Props.AllVariants.C02_deposit_every_variant
#print axioms LP.Props.AllVariants.C02_zero_at_end_every_variant
#print axioms LP.Props.AllVariants.C03_every_variant
#print axioms LP.Props.AllVariants.C11_every_guaranteed_variant
#print axioms LP.Props.AllVariants.C11_guarV2_every_state
#print axioms LP.Props.AllVariants.C12_every_guaranteed_variant
#print axioms LP.Props.AllVariants.C12_reserveOf_every_variant
#print axioms LP.Props.AllVariants.C03_proceeds_until_withdrawal_partial
#print axioms LP.Props.AllVariants.l1_reachA
