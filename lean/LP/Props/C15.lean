import LP.Step
/-
  C15 — Privileged endpoints reject everyone but their intended callers.
  Decision logic stated outright on `step`; a rejected call carries no state, and the history
  fold `run` keeps the previous state (atomicity by construction).
-/
namespace LP.Props.C15
open LP

/-- the owner-only endpoints of the property's list -/
def ownerOnlyCall : Call → Bool
  | .addTickets _ | .addTicketsV1 _ | .addTicketsV2 _ | .deposit
  | .setTicketPrice _ _ | .setPerTicket _ | .setConfStart _ | .setSelStart _ | .setClaimStart _
  | .setSupport _ | .pause | .unpause | .claimPayment
  | .setSchedule1 .. | .setSchedule2 _ | .setNftCost _ => true
  | _ => false

/-- every owner-only endpoint carries the `#[only_owner]` annotation in every variant that has it -/
theorem ownerOnly_table (v : Variant) (c : Call) (m : Meta)
    (hc : ownerOnlyCall c = true) (hm : endpointMeta v c = some m) : m.ownerOnly = true := by
  cases c <;> simp [ownerOnlyCall] at hc <;> simp [endpointMeta] at hm <;>
    first
      | (subst hm; rfl)
      | (obtain ⟨_, rfl⟩ := hm; rfl)

/-- allocation, deposit, every setter, support change, pause/unpause, withdrawal and schedule
    changes are rejected for every caller other than the owner, in every variant, every phase,
    whatever the payment and arguments -/
theorem owner_only_rejected (hash : List Nat → List Nat) (s : State) (e : Env) (c : Call)
    (hc : ownerOnlyCall c = true) (hne : e.caller ≠ s.owner) :
    ∃ err, step hash s e c = .error err := by
  unfold step
  cases hm : endpointMeta s.variant c with
  | none => exact ⟨_, rfl⟩
  | some m =>
    have ho := ownerOnly_table s.variant c m hc hm
    simp only []
    split
    · exact ⟨_, rfl⟩
    · simp [ho, hne]

/-- blacklist management and SFT set-up: owner or support address only -/
def extendedCall : Call → Bool
  | .blacklist _ | .refundUsers _ | .unblacklist _ | .issueSft | .createSfts | .setTransferRole _ => true
  | _ => false

theorem extended_rejected (hash : List Nat → List Nat) (s : State) (e : Env) (c : Call)
    (hc : extendedCall c = true) (h1 : e.caller ≠ s.owner) (h2 : e.caller ≠ s.support) :
    ∃ err, step hash s e c = .error err := by
  unfold step
  cases hm : endpointMeta s.variant c with
  | none => exact ⟨_, rfl⟩
  | some m =>
    simp only []
    split
    · exact ⟨_, rfl⟩
    · split
      · exact ⟨_, rfl⟩
      · have hs : (creditPayments s e).owner = s.owner := rfl
        have hs2 : (creditPayments s e).support = s.support := rfl
        cases c <;> simp [extendedCall] at hc <;>
          simp [exec, addUsersToBlacklist, removeUsersFromBlacklist, extendedPermissions, req,
                hs, hs2, h1, h2, bind, Except.bind]

/-- base winner selection: the owner or a non-contract account -/
theorem select_rejected_for_contracts (hash : List Nat → List Nat) (s : State) (e : Env)
    (h1 : e.caller ≠ s.owner) (h2 : e.callerIsContract = true) :
    ∃ err, step hash s e .select = .error err := by
  unfold step
  simp only [endpointMeta]
  split
  · exact ⟨_, rfl⟩
  · have hs : (creditPayments s e).owner = s.owner := rfl
    simp only [exec, selectWinners, Bool.false_and, Bool.false_eq_true, ↓reduceIte]
    by_cases hp : (creditPayments s e).paused = true
    · simp [req, hp, bind, Except.bind]
    · by_cases hst : ((creditPayments s e).stage e == Stage.winnerSelection) = true
      · simp [req, requireStage, ownerOrUser, hp, hst, hs, h1, h2, bind, Except.bind]
      · simp [req, requireStage, hp, hst, bind, Except.bind]

/-- v2's distribution step: the owner or a non-contract account -/
theorem distribute_v2_rejected_for_contracts (hash : List Nat → List Nat) (s : State) (e : Env)
    (hv : s.variant = .guarV2) (h1 : e.caller ≠ s.owner) (h2 : e.callerIsContract = true) :
    ∃ err, step hash s e .distribute = .error err := by
  unfold step
  have hm : endpointMeta s.variant .distribute = some ⟨false, false⟩ := by
    simp [endpointMeta, hv, Variant.hasGuaranteed, Variant.isV2, Variant.v1Alloc]
  rw [hm]
  simp only []
  split
  · exact ⟨_, rfl⟩
  · have hs : (creditPayments s e).owner = s.owner := rfl
    have hv' : (creditPayments s e).variant = .guarV2 := hv
    simp only [exec, distribute, hv', Variant.isV2, Bool.false_and, Bool.false_eq_true, ↓reduceIte]
    by_cases hp : (creditPayments s e).paused = true
    · simp [req, hp, bind, Except.bind]
    · by_cases hst : ((creditPayments s e).stage e == Stage.winnerSelection) = true
      · simp [req, requireStage, ownerOrUser, hp, hst, hs, h1, h2, bind, Except.bind]
      · simp [req, requireStage, hp, hst, bind, Except.bind]

/-- filtering, confirming and claiming are open: no caller-identity check is involved —
    their annotations say neither owner-only nor (for filter/claim) payable -/
theorem open_endpoints (v : Variant) :
    endpointMeta v .filter = some ⟨false, false⟩ ∧
    endpointMeta v .claim = some ⟨false, false⟩ ∧
    (∀ n, endpointMeta v (.confirm n) = some ⟨false, true⟩) := by
  simp [endpointMeta]

/-- a rejected call changes neither state nor balances: `run` keeps the previous state -/
theorem rejected_is_noop (hash : List Nat → List Nat) (s : State) (e : Env) (c : Call)
    (rest : List (Env × Call)) (err : Err) (h : step hash s e c = .error err) :
    run hash s ((e, c) :: rest) = run hash s rest := by
  simp [run, h]

/-- non-vacuity: a stranger calling `pause` on a deployed base launchpad is rejected, the owner is not -/
example : ∃ s : State, s.owner = 1 ∧
    (∃ err, step id s { caller := 30, round := 0 } .pause = .error err) ∧
    (∃ r, step id s { caller := 1, round := 0 } .pause = .ok r) := by
  refine ⟨{ variant := .base, owner := 1, lpTok := 1, perTicket := 1, payTok := .egld, price := 1,
            nrWinning := 1, cfg := ⟨5, 10, 15⟩, flags := {}, support := 1 }, rfl, ?_, ?_⟩
  · exact ⟨_, rfl⟩
  · exact ⟨_, rfl⟩

end LP.Props.C15

#print axioms LP.Props.C15.owner_only_rejected
#print axioms LP.Props.C15.extended_rejected
#print axioms LP.Props.C15.select_rejected_for_contracts
#print axioms LP.Props.C15.distribute_v2_rejected_for_contracts
#print axioms LP.Props.C15.open_endpoints
#print axioms LP.Props.C15.rejected_is_noop

#print axioms LP.Props.C15.ownerOnly_table
