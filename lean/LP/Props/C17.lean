import LP.Proofs.Frame
import LP.Props.C06gates
import LP.Props.C06stage
/-
  C17 — Sale terms are frozen once participants can commit funds.

  1. `terms_frozen_after_confirmation_starts` : outside the AddTickets stage no accepted call changes
     the sale terms (price, payment token, tokens per ticket, NFT fee, …) or the v2 schedule;
     `sched1_frozen` for the v1 schedule.
  2. `perTicket_frozen_after_deposit`, `deposited_never_reset`.
  3. `zero_never_accepted` (+ `init_ok_inv`, `PosTerms`, `init_posTerms`, `step_posTerms`, `run_posTerms`).
  4. `refund_uses_current_price`.
  5. histories: `terms_frozen_along_history`, `terms_frozen_in_history`.
-/
namespace LP.Props.C17
open LP

/-! ### 1. frozen after confirmation starts -/

/-- the stage is past AddTickets exactly when the confirmation start round has been reached -/
theorem stage_ne_addTickets_iff (s : State) (e : Env) : s.stage e ≠ .addTickets ↔ s.cfg.conf ≤ e.round := by
  unfold State.stage stageOf
  constructor
  · intro h
    by_cases h1 : e.round < s.cfg.conf
    · simp [h1] at h
    · omega
  · intro h
    have h1 : ¬ e.round < s.cfg.conf := by omega
    simp only [h1, if_false]
    repeat' split
    all_goals simp

/-- **C17.1** once the stage (seen by the call) is not AddTickets, no accepted call changes the
    sale terms or the v2 unlock schedule -/
theorem terms_frozen_after_confirmation_starts_all {hash : List Nat → List Nat} {s s' : State} {e : Env}
    {c : Call} {o : Out} (h : step hash s e c = .ok (s', o)) (hst : s.stage e ≠ .addTickets) :
    s'.terms = s.terms ∧ s'.sched2 = s.sched2 := by
  have key : ((∃ a b, c = .setTicketPrice a b) ∨ (∃ a, c = .setPerTicket a) ∨ (∃ a, c = .setNftCost a) ∨
      (∃ l, c = .setSchedule2 l)) → False :=
    fun hc => hst (C06.terms_only_in_addTickets hash s e c (s', o) hc h)
  exact ⟨terms_frame h (fun a b hc => key (Or.inl ⟨a, b, hc⟩)) (fun a hc => key (Or.inr (Or.inl ⟨a, hc⟩)))
      (fun a hc => key (Or.inr (Or.inr (Or.inl ⟨a, hc⟩)))),
    sched2_frame h (fun l hc => key (Or.inr (Or.inr (Or.inr ⟨l, hc⟩))))⟩

/-- **C17.1**, in components: price, payment token, NFT fee and the v2 schedule (and the tokens
    per ticket) are unchanged by any accepted call outside the AddTickets stage -/
theorem terms_frozen_after_confirmation_starts {hash : List Nat → List Nat} {s s' : State} {e : Env}
    {c : Call} {o : Out} (h : step hash s e c = .ok (s', o)) (hst : s.stage e ≠ .addTickets) :
    s'.price = s.price ∧ s'.payTok = s.payTok ∧ s'.nftCost = s.nftCost ∧ s'.sched2 = s.sched2 ∧
    s'.perTicket = s.perTicket := by
  obtain ⟨ht, h2⟩ := terms_frozen_after_confirmation_starts_all h hst
  exact ⟨terms_price ht, terms_payTok ht, terms_nftCost ht, h2, terms_perTicket ht⟩

/-- the v1 schedule: once set, it is frozen from the confirmation start round on -/
theorem sched1_frozen {hash : List Nat → List Nat} {s s' : State} {e : Env}
    {c : Call} {o : Out} (h : step hash s e c = .ok (s', o)) (hst : s.stage e ≠ .addTickets)
    (hset : s.sched1 ≠ none) : s'.sched1 = s.sched1 := by
  refine sched1_frame h (fun a b c' d f hc => ?_)
  subst hc
  rcases C06.schedule1_gate hash s e a b c' d f (s', o) h with h1 | h1
  · have := (stage_ne_addTickets_iff s e).1 hst
    omega
  · exact hset h1

/-! ### 2. tokens per ticket frozen after the deposit -/

/-- **C17.2** after the launchpad tokens are deposited the amount per winning ticket cannot change -/
theorem perTicket_frozen_after_deposit {hash : List Nat → List Nat} {s s' : State} {e : Env}
    {c : Call} {o : Out} (h : step hash s e c = .ok (s', o)) (hd : s.deposited = true) :
    s'.perTicket = s.perTicket := by
  refine perTicket_frame h (fun a hc => ?_)
  subst hc
  have := (setPerTicket_terms h).2.2.2.1
  rw [hd] at this
  cases this

/-- **C17.2** `deposited` never goes back to false -/
theorem deposited_never_reset {hash : List Nat → List Nat} {s s' : State} {e : Env}
    {c : Call} {o : Out} (h : step hash s e c = .ok (s', o)) (hd : s.deposited = true) :
    s'.deposited = true := deposited_mono h hd

/-! ### 3. zero is never accepted -/

/-- inversion of an accepted deployment -/
theorem init_ok_inv {v : Variant} {a : InitArgs} {e : Env} {s : State} (h : init v a e = .ok s) :
    0 < a.price ∧ 0 < a.perTicket ∧ 0 < a.nrWinning ∧
    s.price = a.price ∧ s.perTicket = a.perTicket ∧ s.payTok = a.payTok ∧ s.nrWinning = a.nrWinning := by
  unfold init at h
  cases v <;>
    simp only [Variant.hasNft, Variant.v1Alloc, Variant.hasLock, bind_ok_iff, req_ok_iff, pure_ok_iff, pure_bind,
      exists_const, if_true, if_false, Bool.false_eq_true, beq_self_eq_true, reduceCtorEq, decide_eq_true_eq,
      bne_iff_ne, ne_eq, not_false_eq_true, beq_iff_eq, bne_self_eq_false] at h
  all_goals
    lp_peel h
    subst h
    exact ⟨by omega, by omega, by omega, rfl, rfl, rfl, rfl⟩

/-- **C17.3** a zero price, a zero amount per ticket, a zero number of winning tickets are rejected
    at deployment; a zero price, a zero amount per ticket, a zero NFT fee are rejected by the setters -/
theorem zero_never_accepted (hash : List Nat → List Nat) :
    (∀ v a e, (a.price = 0 ∨ a.perTicket = 0 ∨ a.nrWinning = 0) → ∃ err, init v a e = .error err) ∧
    (∀ s e tok, ∃ err, step hash s e (.setTicketPrice tok 0) = .error err) ∧
    (∀ s e, ∃ err, step hash s e (.setPerTicket 0) = .error err) ∧
    (∀ s e p, p.amount = 0 → ∃ err, step hash s e (.setNftCost p) = .error err) := by
  refine ⟨fun v a e hz => ?_, fun s e tok => ?_, fun s e => ?_, fun s e p hp => ?_⟩
  · cases h : init v a e with
    | error err => exact ⟨err, rfl⟩
    | ok s =>
      obtain ⟨h1, h2, h3, _⟩ := init_ok_inv h
      omega
  · cases h : step hash s e (.setTicketPrice tok 0) with
    | error err => exact ⟨err, rfl⟩
    | ok r =>
      obtain ⟨s', o⟩ := r
      have := (setTicketPrice_terms h).2.2.2.1
      omega
  · cases h : step hash s e (.setPerTicket 0) with
    | error err => exact ⟨err, rfl⟩
    | ok r =>
      obtain ⟨s', o⟩ := r
      have := (setPerTicket_terms h).2.2.2.2
      omega
  · cases h : step hash s e (.setNftCost p) with
    | error err => exact ⟨err, rfl⟩
    | ok r =>
      obtain ⟨s', o⟩ := r
      have := (setNftCost_terms h).2.2.2
      omega

/-- the invariant: price and tokens per ticket are positive -/
def PosTerms (s : State) : Prop := 0 < s.price ∧ 0 < s.perTicket

theorem init_posTerms {v : Variant} {a : InitArgs} {e : Env} {s : State} (h : init v a e = .ok s) :
    PosTerms s := by
  obtain ⟨h1, h2, _, h4, h5, _⟩ := init_ok_inv h
  exact ⟨by omega, by omega⟩

theorem step_posTerms {hash : List Nat → List Nat} {s s' : State} {e : Env} {c : Call} {o : Out}
    (h : step hash s e c = .ok (s', o)) (hp : PosTerms s) : PosTerms s' := by
  constructor
  · by_cases hc : ∃ tok a, c = .setTicketPrice tok a
    · obtain ⟨tok, a, rfl⟩ := hc
      obtain ⟨_, h1, _, h3, _⟩ := setTicketPrice_terms h
      rw [h1]; exact h3
    · rw [(price_frame h (fun tok a hh => hc ⟨tok, a, hh⟩)).1]; exact hp.1
  · by_cases hc : ∃ a, c = .setPerTicket a
    · obtain ⟨a, rfl⟩ := hc
      obtain ⟨_, h1, _, _, h3⟩ := setPerTicket_terms h
      rw [h1]; exact h3
    · rw [perTicket_frame h (fun a hh => hc ⟨a, hh⟩)]; exact hp.2

/-- the invariant holds in every state of every history -/
theorem run_posTerms (hash : List Nat → List Nat) : ∀ (l : List (Env × Call)) (s : State),
    PosTerms s → PosTerms (run hash s l)
  | [], _, hp => hp
  | (e, c) :: rest, s, hp => by
    unfold run
    cases h : step hash s e c with
    | error err => exact run_posTerms hash rest s hp
    | ok r =>
      obtain ⟨s', o⟩ := r
      exact run_posTerms hash rest s' (step_posTerms h hp)

/-! ### 4. refunds use the current price -/

/-- **C17.4** a refund of `n > 0` tickets sends and reports `price * n` of the current payment
    token; a refund of 0 tickets does nothing -/
theorem refund_uses_current_price {t t' : Tx} {e : Env} {a n : Nat} (h : t.refund e a n = .ok t') :
    (n > 0 →
      t'.o.xfers = t.o.xfers ++ [(a, ⟨t.s.payTok, 0, t.s.price * n⟩)] ∧
      t'.o.events = t.o.events ++ [⟨"refundTicketPayment", topics e,
        [e.caller, e.round, e.epoch, n, t.s.payTok.code, 0, t.s.price * n]⟩]) ∧
    (n = 0 → t' = t) := by
  constructor
  · intro hn
    obtain ⟨_, h1, h2, _⟩ := Tx.refund_pos h hn
    exact ⟨h1, h2⟩
  · rintro rfl
    exact Tx.refund_zero h

/-! ### 5. histories -/

abbrev Hist := List (Env × Call)

/-- the rounds of the history are non-decreasing and all `≥ r` -/
def RoundsFrom : Nat → Hist → Prop
  | _, [] => True
  | r, (e, _) :: rest => r ≤ e.round ∧ RoundsFrom e.round rest

theorem RoundsFrom.mono {r r' : Nat} (hr : r' ≤ r) : ∀ {h : Hist}, RoundsFrom r h → RoundsFrom r' h
  | [], _ => trivial
  | (_, _) :: _, ⟨h1, h2⟩ => ⟨Nat.le_trans hr h1, h2⟩

theorem RoundsFrom.append_left {r : Nat} : ∀ {p q : Hist}, RoundsFrom r (p ++ q) → RoundsFrom r p
  | [], _, _ => trivial
  | (_, _) :: _, _, ⟨h1, h2⟩ => ⟨h1, RoundsFrom.append_left h2⟩

theorem RoundsFrom.append_right {r : Nat} : ∀ {p q : Hist}, RoundsFrom r (p ++ q) → RoundsFrom r q
  | [], _, h => h
  | (_, _) :: _, _, ⟨h1, h2⟩ => RoundsFrom.mono h1 (RoundsFrom.append_right h2)

theorem run_append (hash : List Nat → List Nat) : ∀ (p q : Hist) (s : State),
    run hash s (p ++ q) = run hash (run hash s p) q
  | [], _, _ => rfl
  | (e, c) :: rest, q, s => by
    simp only [List.cons_append, run]
    cases step hash s e c with
    | error err => exact run_append hash rest q s
    | ok r => exact run_append hash rest q r.1

/-- **C17.5, core**: if the confirmation start round has been reached (`conf ≤ r`) and all later
    transactions happen at rounds `≥ r` in non-decreasing order, then the final state has the same
    sale terms, the same v2 schedule and the same confirmation start round — hence the stage never
    returns to AddTickets -/
theorem terms_frozen_along_history (hash : List Nat → List Nat) : ∀ (h : Hist) (s : State) (r : Nat),
    s.cfg.conf ≤ r → RoundsFrom r h →
    (run hash s h).terms = s.terms ∧ (run hash s h).sched2 = s.sched2 ∧
    (run hash s h).cfg.conf = s.cfg.conf
  | [], _, _, _, _ => ⟨rfl, rfl, rfl⟩
  | (e, c) :: rest, s, r, hr, ⟨h1, h2⟩ => by
    unfold run
    cases h : step hash s e c with
    | error err => exact terms_frozen_along_history hash rest s e.round (by omega) h2
    | ok p =>
      obtain ⟨s', o⟩ := p
      have hst : s.stage e ≠ .addTickets := (stage_ne_addTickets_iff s e).2 (by omega)
      obtain ⟨ht, hs2⟩ := terms_frozen_after_confirmation_starts_all h hst
      have hconf : s'.cfg.conf = s.cfg.conf := conf_frozen_once_reached h (by omega)
      obtain ⟨i1, i2, i3⟩ := terms_frozen_along_history hash rest s' e.round (by omega) h2
      exact ⟨i1.trans ht, i2.trans hs2, i3.trans hconf⟩

/-- **C17.5** over a history with non-decreasing rounds: if some transaction `(e, c)` of the history
    finds the contract past the AddTickets stage, then *every later state* of the history (after
    `(e, c)` and any number `q` of further transactions) has the same sale terms — in particular the
    same price and payment token — and the same v2 schedule as the state that transaction started
    from, and every later transaction again sees a stage other than AddTickets. -/
theorem terms_frozen_in_history (hash : List Nat → List Nat) (s : State) (r0 : Nat)
    (p q rest : Hist) (e : Env) (c : Call)
    (hr : RoundsFrom r0 (p ++ (e, c) :: (q ++ rest)))
    (hst : (run hash s p).stage e ≠ .addTickets) :
    let s1 := run hash s p
    let s2 := run hash s (p ++ (e, c) :: q)
    s2.terms = s1.terms ∧ s2.price = s1.price ∧ s2.payTok = s1.payTok ∧ s2.sched2 = s1.sched2 ∧
    (∀ e' c' rest', rest = (e', c') :: rest' → s2.stage e' ≠ .addTickets) := by
  intro s1 s2
  have hr1 : RoundsFrom r0 ((e, c) :: (q ++ rest)) := RoundsFrom.append_right hr
  have hconf : s1.cfg.conf ≤ e.round := (stage_ne_addTickets_iff s1 e).1 hst
  have hr2 : RoundsFrom e.round ((e, c) :: q) :=
    ⟨Nat.le_refl _, RoundsFrom.append_left hr1.2⟩
  have hs2 : s2 = run hash s1 ((e, c) :: q) := run_append hash p ((e, c) :: q) s
  obtain ⟨i1, i2, i3⟩ := terms_frozen_along_history hash ((e, c) :: q) s1 e.round hconf hr2
  rw [← hs2] at i1 i2 i3
  refine ⟨i1, terms_price i1, terms_payTok i1, i2, ?_⟩
  rintro e' c' rest' rfl
  rw [stage_ne_addTickets_iff, i3]
  -- e'.round ≥ e.round: rounds are non-decreasing along `(e, c) :: q ++ (e', c') :: rest'`
  have h3 : RoundsFrom e.round (q ++ (e', c') :: rest') := hr1.2
  have h4 : RoundsFrom e.round ((e', c') :: rest') := RoundsFrom.append_right h3
  exact Nat.le_trans hconf h4.1

/-! ### non-vacuity -/

/-- a state past AddTickets and an accepted call on it (hypotheses of C17.1 are satisfiable) -/
example : ∃ s' o, step (fun x => x) { frameDemoState with deposited := true } { caller := 1, round := 6 } (.setSupport 7) = .ok (s', o) ∧
    ({ frameDemoState with deposited := true } : State).stage { caller := 1, round := 6 } ≠ .addTickets ∧
    ({ frameDemoState with deposited := true } : State).deposited = true :=
  ⟨_, _, rfl, by decide, rfl⟩

/-- a price change is still possible before the confirmation start (so the hypothesis matters) -/
example : ∃ s' o, step (fun x => x) frameDemoState { caller := 1, round := 2 } (.setTicketPrice .egld 11) = .ok (s', o) ∧
    s'.price ≠ frameDemoState.price := ⟨_, _, rfl, by decide⟩

/-- the invariant is satisfiable -/
example : PosTerms frameDemoState := ⟨by decide, by decide⟩

/-- a history with non-decreasing rounds -/
example : RoundsFrom 0 [(({ caller := 1, round := 2 } : Env), Call.pause), ({ caller := 1, round := 6 }, Call.unpause)] := by
  simp [RoundsFrom]

/-- a refund of 2 tickets at price 10 -/
example : ∃ t', (⟨{ frameDemoState with bal := fun _ _ => 100 }, {}, {}⟩ : Tx).refund { caller := 1, round := 6 } 9 2 = .ok t' ∧
    t'.o.xfers = [(9, ⟨.egld, 0, 20⟩)] := ⟨_, rfl, rfl⟩

end LP.Props.C17

#print axioms LP.Props.C17.terms_frozen_after_confirmation_starts_all
#print axioms LP.Props.C17.terms_frozen_after_confirmation_starts
#print axioms LP.Props.C17.sched1_frozen
#print axioms LP.Props.C17.perTicket_frozen_after_deposit
#print axioms LP.Props.C17.deposited_never_reset
#print axioms LP.Props.C17.init_ok_inv
#print axioms LP.Props.C17.zero_never_accepted
#print axioms LP.Props.C17.init_posTerms
#print axioms LP.Props.C17.step_posTerms
#print axioms LP.Props.C17.run_posTerms
#print axioms LP.Props.C17.refund_uses_current_price
#print axioms LP.Props.C17.terms_frozen_along_history
#print axioms LP.Props.C17.terms_frozen_in_history
#print axioms LP.terms_frame
#print axioms LP.static_frame
#print axioms LP.setTicketPrice_terms
#print axioms LP.setPerTicket_terms
#print axioms LP.setNftCost_terms
#print axioms LP.sched1_frame
#print axioms LP.sched2_frame

#print axioms LP.Props.C17.stage_ne_addTickets_iff
#print axioms LP.Props.C17.RoundsFrom.mono
#print axioms LP.Props.C17.RoundsFrom.append_left
#print axioms LP.Props.C17.RoundsFrom.append_right
#print axioms LP.Props.C17.run_append
