import LP.Proofs.CBFrame
import LP.Props.C10
/-
  C10 (completion) — `blacklisted ⇒ nothing confirmed` for EVERY endpoint, and the frames of the two
  maps involved.

  * `blacklist_frame`   only `blacklist`, `refundUsers`, `unblacklist` change `State.blacklist`
                        (`blacklist_after_*` give the new map);
  * `confirmed_frame`   only `confirm`, `blacklist`, `refundUsers`, `claim` change `State.confirmed`
                        (`confirmed_after_*` give the new map);
  * `cb_after`          both maps after any accepted call, in one formula (`cbAfter`);
  * `blacklisted_confirmed_zero_all`  `BlZero` is preserved by every accepted `step`
                        (extends `C10.blacklisted_confirmed_zero`, which needed `covered c`);
  * `init_blZero`, `run_blZero`, `reachable_blZero`  hence it holds in every state reachable
                        from a deployment.
-/
namespace LP.Props.C10frame
open LP LP.Events

/-! ### both maps after an accepted call -/

/-- **exact effect on `confirmed` and `blacklist`** of every accepted call (all 31 endpoints):
    `cbAfter s e c` is
    `confirm n`              ↦ caller's `confirmed` + n,
    `blacklist l`/`refundUsers l` ↦ listed users: `confirmed := 0`, `blacklist := true`,
    `unblacklist l`          ↦ listed users: `blacklist := false`,
    `claim`                  ↦ caller's `confirmed := 0` (nothing on a repeated vesting claim),
    anything else            ↦ both maps unchanged -/
theorem cb_after (hash : List Nat → List Nat) (s s' : State) (e : Env) (c : Call) (o : Out)
    (h : step hash s e c = .ok (s', o)) :
    s'.confirmed = (cbAfter s e c).confirmed ∧ s'.blacklist = (cbAfter s e c).blacklist := by
  have := step_cb h
  exact ⟨congrArg CB.confirmed this, congrArg CB.blacklist this⟩

/-! ### `blacklist` -/

/-- **frame**: only `blacklist`, `refundUsers`, `unblacklist` change the blacklist -/
theorem blacklist_frame (hash : List Nat → List Nat) (s s' : State) (e : Env) (c : Call) (o : Out)
    (h : step hash s e c = .ok (s', o))
    (h1 : ∀ l, c ≠ .blacklist l) (h2 : ∀ l, c ≠ .refundUsers l) (h3 : ∀ l, c ≠ .unblacklist l) :
    s'.blacklist = s.blacklist := by
  rw [(cb_after hash s s' e c o h).2]
  cases c <;> first | rfl | exact absurd rfl (h1 _) | exact absurd rfl (h2 _) | exact absurd rfl (h3 _)

theorem blacklist_after_blacklist (hash : List Nat → List Nat) (s s' : State) (e : Env) (l : List Nat) (o : Out)
    (h : step hash s e (.blacklist l) = .ok (s', o)) :
    s'.blacklist = fun a => if a ∈ l then true else s.blacklist a :=
  (cb_after hash s s' e _ o h).2

theorem blacklist_after_refundUsers (hash : List Nat → List Nat) (s s' : State) (e : Env) (l : List Nat) (o : Out)
    (h : step hash s e (.refundUsers l) = .ok (s', o)) :
    s'.blacklist = fun a => if a ∈ l then true else s.blacklist a :=
  (cb_after hash s s' e _ o h).2

theorem blacklist_after_unblacklist (hash : List Nat → List Nat) (s s' : State) (e : Env) (l : List Nat) (o : Out)
    (h : step hash s e (.unblacklist l) = .ok (s', o)) :
    s'.blacklist = fun a => if a ∈ l then false else s.blacklist a :=
  (cb_after hash s s' e _ o h).2

/-! ### `confirmed` -/

/-- **frame**: only `confirm`, `blacklist`, `refundUsers`, `claim` change the confirmations -/
theorem confirmed_frame (hash : List Nat → List Nat) (s s' : State) (e : Env) (c : Call) (o : Out)
    (h : step hash s e c = .ok (s', o))
    (h1 : ∀ n, c ≠ .confirm n) (h2 : ∀ l, c ≠ .blacklist l) (h3 : ∀ l, c ≠ .refundUsers l)
    (h4 : c ≠ .claim) : s'.confirmed = s.confirmed := by
  rw [(cb_after hash s s' e c o h).1]
  cases c <;>
    first | rfl | exact absurd rfl (h1 _) | exact absurd rfl (h2 _) | exact absurd rfl (h3 _) | exact absurd rfl h4

theorem confirmed_after_confirm (hash : List Nat → List Nat) (s s' : State) (e : Env) (n : Nat) (o : Out)
    (h : step hash s e (.confirm n) = .ok (s', o)) :
    s'.confirmed = upd s.confirmed e.caller (s.confirmed e.caller + n) :=
  (cb_after hash s s' e _ o h).1

theorem confirmed_after_blacklist (hash : List Nat → List Nat) (s s' : State) (e : Env) (l : List Nat) (o : Out)
    (h : step hash s e (.blacklist l) = .ok (s', o)) :
    s'.confirmed = fun a => if a ∈ l then 0 else s.confirmed a :=
  (cb_after hash s s' e _ o h).1

theorem confirmed_after_refundUsers (hash : List Nat → List Nat) (s s' : State) (e : Env) (l : List Nat) (o : Out)
    (h : step hash s e (.refundUsers l) = .ok (s', o)) :
    s'.confirmed = fun a => if a ∈ l then 0 else s.confirmed a :=
  (cb_after hash s s' e _ o h).1

/-- a claim only zeroes the caller's confirmations (a repeated claim of a vesting variant, which
    only releases vested tokens, changes nothing) -/
theorem confirmed_after_claim (hash : List Nat → List Nat) (s s' : State) (e : Env) (o : Out)
    (h : step hash s e .claim = .ok (s', o)) :
    s'.confirmed = if s.variant.vested && s.claimed e.caller then s.confirmed
                   else upd s.confirmed e.caller 0 :=
  (cb_after hash s s' e _ o h).1

/-! ### the invariant -/

/-- **C10.3 for every endpoint**: `blacklisted ⇒ confirmed = 0` is preserved by every accepted call
    of every variant -/
theorem blacklisted_confirmed_zero_all (hash : List Nat → List Nat) (s : State) (e : Env) (c : Call)
    (s' : State) (o : Out) (hz : BlZero s) (h : step hash s e c = .ok (s', o)) : BlZero s' := by
  obtain ⟨hc, hb⟩ := cb_after hash s s' e c o h
  intro u hu
  rw [hc]; rw [hb] at hu
  cases c
  case confirm n =>
    have hnb : s.blacklist e.caller = false := by
      cases hbl : s.blacklist e.caller with
      | false => rfl
      | true =>
        obtain ⟨err, herr⟩ := C10.blacklisted_cannot_confirm hash s e n hbl
        rw [herr] at h; cases h
    have hu' : s.blacklist u = true := hu
    have hne : u ≠ e.caller := by rintro rfl; rw [hnb] at hu'; cases hu'
    show upd s.confirmed e.caller _ u = 0
    rw [upd_other _ _ _ _ hne]
    exact hz u hu'
  case blacklist l =>
    simp only [cbAfter] at hu ⊢
    by_cases hm : u ∈ l
    · simp [hm]
    · simp only [hm, if_false] at hu ⊢; exact hz u hu
  case refundUsers l =>
    simp only [cbAfter] at hu ⊢
    by_cases hm : u ∈ l
    · simp [hm]
    · simp only [hm, if_false] at hu ⊢; exact hz u hu
  case unblacklist l =>
    simp only [cbAfter] at hu ⊢
    by_cases hm : u ∈ l
    · simp [hm] at hu
    · simp only [hm, if_false] at hu; exact hz u hu
  case claim =>
    simp only [cbAfter] at hu ⊢
    split
    · exact hz u hu
    · by_cases hne : u = e.caller
      · rw [hne, upd_same]
      · rw [upd_other _ _ _ _ hne]; exact hz u hu
  all_goals exact hz u hu

/-- a freshly deployed contract satisfies the invariant (nobody is blacklisted) -/
theorem init_blZero (v : Variant) (a : InitArgs) (e : Env) (s : State) (h : init v a e = .ok s) :
    BlZero s := by
  intro u hu
  have := congrArg CB.blacklist (init_cb h)
  rw [show s.blacklist = fun _ => false from this] at hu
  cases hu

/-- the invariant holds along every history -/
theorem run_blZero (hash : List Nat → List Nat) (s : State) (h : List (Env × Call)) (hz : BlZero s) :
    BlZero (run hash s h) :=
  run_induct hash BlZero (fun s e c s' o hp hst => blacklisted_confirmed_zero_all hash s e c s' o hp hst) h s hz

/-- **in every state reachable from a deployment a blacklisted user has nothing confirmed** -/
theorem reachable_blZero (hash : List Nat → List Nat) (v : Variant) (a : InitArgs) (e : Env) (s : State)
    (hi : init v a e = .ok s) (h : List (Env × Call)) : BlZero (run hash s h) :=
  run_blZero hash s h (init_blZero v a e s hi)

/-! ### non-vacuity -/

/-- the frames and the invariant apply to a call outside `C10.covered`: the owner deposits the
    launchpad tokens while user 8 is blacklisted -/
example : C10.covered .deposit = false ∧
    ∃ s' o, step (fun x => x) { C10.exS with deposited := false, blacklist := fun a => a == 8 }
      { caller := 1, round := 2, esdts := [⟨.esdt 1, 0, 1⟩] } .deposit = .ok (s', o) ∧
      s'.blacklist 8 = true ∧ s'.confirmed 7 = 2 :=
  ⟨rfl, _, _, rfl, rfl, rfl⟩

example : BlZero { C10.exS with blacklist := fun a => a == 8 } := by
  intro u hu
  have : u = 8 := by simpa [C10.exS] using hu
  subst this; rfl

end LP.Props.C10frame

#print axioms LP.Props.C10frame.cb_after
#print axioms LP.Props.C10frame.blacklist_frame
#print axioms LP.Props.C10frame.blacklist_after_blacklist
#print axioms LP.Props.C10frame.blacklist_after_refundUsers
#print axioms LP.Props.C10frame.blacklist_after_unblacklist
#print axioms LP.Props.C10frame.confirmed_frame
#print axioms LP.Props.C10frame.confirmed_after_confirm
#print axioms LP.Props.C10frame.confirmed_after_blacklist
#print axioms LP.Props.C10frame.confirmed_after_refundUsers
#print axioms LP.Props.C10frame.confirmed_after_claim
#print axioms LP.Props.C10frame.blacklisted_confirmed_zero_all
#print axioms LP.Props.C10frame.init_blZero
#print axioms LP.Props.C10frame.run_blZero
#print axioms LP.Props.C10frame.reachable_blZero
