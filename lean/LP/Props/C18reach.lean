import LP.Proofs.AllocReach
import LP.Props.C02reach
import LP.Props.C13reachV2
import LP.Props.C01reachV1
import LP.Props.C01reachG1
import LP.Props.C14reachG
/-
  C18 / C07 at the level of REACHABLE STATES, for all eight launchpads
  (`Covered hash s r` = `be_Covered`: `s` is reachable by base, locked, nft, guarV1, guarV2,
  migration, lockedGuar or nftGuar from some deployment by accepted transactions satisfying
  `HistOK` — EGLD or ESDT but not both; allocation entries of `addTickets`/`addTicketsV1` have at
  least one ticket —, latest transaction at a round `≤ r`).

  1. `ranges_partition`, `ranges_partition_filtered`   the allocation records partition the ticket
     space `1..lastTicketId` (bounds, non-empty, pairwise disjoint, every id owned by exactly one
     address, sizes add up to `lastTicketId`) — before the filter starts and after it completed;
     `ranges_bounded` (bounds in EVERY reachable state), `ranges_after_filter` (disjoint, exact
     size in every state after the filter, also while winners claim).
  2. `allocation_exact`, `allocation_total`, `duplicate_in_call_rejected`,
     `allocated_again_rejected`, `range_kept`, `allocated_once`   an accepted allocation gives each
     listed address exactly `[total before its entry + 1, … + n]`, only if it had no record; the
     record is kept exactly until the selection period begins; a second allocation is rejected in
     every later state.
  3. `confirmed_within_allocation`   `confirmed ≤ size` until the filter completes, `= size`
     afterwards; blacklisted ⇒ 0.
  4. `views_exact`   the per-address views (`ticketsFor`, `confirmed`) report these numbers and
     the ticket-count view never fails.
-/
namespace LP.Props.C18reach
open LP LP.Events LP.Props.C17

/-- the reachable states of the eight launchpads -/
abbrev Covered := be_Covered
/-- side conditions on a transaction of a history -/
abbrev HistOK := be_HistOK
/-- later states of a history of transactions satisfying `HistOK` -/
abbrev Later := be_Later HistOK

/-- number of tickets of the record of `a` (`last - first + 1`; `0` without a record) -/
abbrev size (s : State) (a : Nat) : Nat := ar_size s.range a

/-- the (address, size) pairs an allocation call creates: `addTickets l` ↦ `l`,
    `addTicketsV1 l` ↦ (address, staking + energy), `addTicketsV2 l` ↦ the non-zero entries -/
abbrev allocList := ar_allocList

/-- **the allocation records partition the ticket space `1 .. lastTicketId`** -/
structure Partition (s : State) : Prop where
  /-- every record lies in `1..lastTicketId` and is not empty -/
  bounds : ∀ a rg, s.range a = some rg → 1 ≤ rg.first ∧ rg.first ≤ rg.last ∧ rg.last ≤ s.lastTicketId
  /-- the records of different addresses are disjoint -/
  disjoint : ∀ a b ra rb, a ≠ b → s.range a = some ra → s.range b = some rb →
    ra.last < rb.first ∨ rb.last < ra.first
  /-- every ticket id belongs to the record of exactly one address -/
  cover : ∀ t, 1 ≤ t → t ≤ s.lastTicketId → ∃ a rg, s.range a = some rg ∧ rg.first ≤ t ∧ t ≤ rg.last ∧
    ∀ b rb, s.range b = some rb → rb.first ≤ t → t ≤ rb.last → b = a
  /-- the sizes add up to the total, over the (duplicate-free) list of record holders -/
  total : ∃ H : List Nat, H.Nodup ∧ (∀ a, a ∈ H ↔ (s.range a).isSome = true) ∧
    sumOver (size s) H = s.lastTicketId

theorem partition_of_part {s : State} {L : List (Nat × Nat)} (h : ar_Part s.core L) : Partition s :=
  ⟨fun _ _ hr => h.bounds hr, fun _ _ _ _ hne hra hrb => h.disj hne hra hrb,
    fun _ h1 h2 => h.cover h1 h2, ⟨L.map Prod.fst, h.sum⟩⟩

/-! ## 1. the records partition the ticket space -/

/-- **C18 reach, 1 (before the filter).** In every reachable state of each of the eight launchpads
    in which the filter has not started (`filtered = false`, no saved operation): the records
    partition `1..lastTicketId`, and nobody has confirmed more than the size of his record. -/
theorem ranges_partition (hash : List Nat → List Nat) (s : State) (r : Nat) (h : Covered hash s r)
    (hf : s.flags.filtered = false) (hop : s.op = .none) :
    Partition s ∧ ∀ a, s.confirmed a ≤ size s a := by
  obtain ⟨L, hp, hle⟩ := (ar_tix_covered h).pre hf hop
  exact ⟨partition_of_part hp, fun a => (ar_confLe_of_part hp hle a).1⟩

/-- **C18 reach, 1 (after the filter).** In every reachable state in which the filter has completed
    and the base lottery has not: the (compacted) records partition the (shrunk) ticket space
    `1..lastTicketId`, every record has exactly as many tickets as its holder confirmed, and an
    address without a record has nothing confirmed. -/
theorem ranges_partition_filtered (hash : List Nat → List Nat) (s : State) (r : Nat)
    (h : Covered hash s r) (hf : s.flags.filtered = true) (hsel : s.flags.selected = false) :
    Partition s ∧ ∀ a, s.confirmed a = size s a := by
  obtain ⟨L, hp, heq⟩ := (ar_tix_covered h).post hf hsel
  exact ⟨partition_of_part hp, fun a => (ar_confEq_of_part hp heq a).1⟩

/-- **1 (after the filter, guaranteed-ticket launchpads without NFT draw).** For guarV2, migration,
    lockedGuar and guarV1 the partition of `ranges_partition_filtered` also holds after the base
    lottery, until the distribution step has completed (`additional = false`; no claim is possible
    before). -/
theorem ranges_partition_until_distributed (hash : List Nat → List Nat) (s : State) (r : Nat)
    (h : Reach hash .guarV2 s r ∨ (∃ v, v1_Fam v ∧ v1_Reach hash v s r) ∨ g1_Reach hash s r)
    (hf : s.flags.filtered = true) (ha : s.flags.additional = false) :
    Partition s ∧ ∀ a, s.confirmed a = size s a := by
  obtain ⟨L, hp, heq⟩ := ar_part_dist h hf ha
  exact ⟨partition_of_part hp, fun a => (ar_confEq_of_part hp heq a).1⟩

/-- **1, every state after the filter** (also while winners claim, which deletes records): records
    are non-empty, pairwise disjoint and of exactly the confirmed size. -/
theorem ranges_after_filter (hash : List Nat → List Nat) (s : State) (r : Nat)
    (h : Covered hash s r) (hf : s.flags.filtered = true) :
    (∀ a rg, s.range a = some rg → rg.first ≤ rg.last ∧ rg.last + 1 = rg.first + s.confirmed a) ∧
    (∀ a, s.range a = none → s.confirmed a = 0) ∧
    (∀ a b ra rb, a ≠ b → s.range a = some ra → s.range b = some rb →
      ra.last < rb.first ∨ rb.last < ra.first) := by
  have ht := ar_tix_covered h
  refine ⟨fun a rg hr => ?_, fun a hr => ?_, ht.disjF hf⟩
  · obtain ⟨h1, h2⟩ := ht.confEq hf a
    have h3 := h2 rg hr
    have h1' : s.confirmed a = ar_size s.range a := h1
    rw [ar_size_some hr] at h1'
    unfold rangeLen at h1'
    exact ⟨h3, by omega⟩
  · have h1 : s.confirmed a = ar_size s.range a := (ht.confEq hf a).1
    rw [h1, ar_size_none hr]

/-- **1, bounds in EVERY reachable state** (before, during and after the filter, during the lottery
    and the additional selection steps, while winners claim): every record is non-empty and lies
    inside `1..lastTicketId`. -/
theorem ranges_bounded (hash : List Nat → List Nat) (s : State) (r : Nat) (h : Covered hash s r)
    (a : Nat) (rg : Range) (hr : s.range a = some rg) :
    1 ≤ rg.first ∧ rg.first ≤ rg.last ∧ rg.last ≤ s.lastTicketId := by
  have hb := ar_bnd_covered h a rg hr
  have ht := ar_tix_covered h
  refine ⟨hb.1, ?_, hb.2⟩
  cases hf : s.flags.filtered with
  | false => exact (ht.confLe hf a).2 rg hr
  | true => exact (ht.confEq hf a).2 rg hr

/-! ## 2. allocated once, exactly -/

/-- **C18 reach, 2 (exact range).** An accepted allocation call (any of the three endpoints, any
    state): the address of the entry `(a, n)` that follows the prefix `P` of the call's list had no
    record and receives exactly `[lastTicketId + Σ P + 1, lastTicketId + Σ P + n]` — `n` fresh
    consecutive ids right after the tickets allocated before its entry. -/
theorem allocation_exact (hash : List Nat → List Nat) (s : State) (e : Env) (c : Call) (s' : State)
    (o : Out) (L P S : List (Nat × Nat)) (a n : Nat) (hok : HistOK e c) (hL : allocList c = some L)
    (h : step hash s e c = .ok (s', o)) (hsplit : L = P ++ (a, n) :: S) :
    s.range a = none ∧
    s'.range a = some ⟨s.lastTicketId + ticketTotal P + 1, s.lastTicketId + ticketTotal P + n⟩ ∧
    size s' a = n :=
  ar_step_alloc_exact hL (ar_alloc_pos hok hL) h hsplit

/-- **2 (totals, frame).** An accepted allocation call happens in the add-tickets stage, lists no
    address twice, lists only addresses without a record, increases the total number of tickets by
    exactly the sum of the allocated sizes and leaves every other address's record unchanged. -/
theorem allocation_total (hash : List Nat → List Nat) (s : State) (e : Env) (c : Call) (s' : State)
    (o : Out) (L : List (Nat × Nat)) (hL : allocList c = some L) (h : step hash s e c = .ok (s', o)) :
    s.stage e = .addTickets ∧ (L.map Prod.fst).Nodup ∧ (∀ a ∈ L.map Prod.fst, s.range a = none) ∧
    s'.lastTicketId = s.lastTicketId + ticketTotal L ∧
    (∀ a, a ∉ L.map Prod.fst → s'.range a = s.range a) := by
  obtain ⟨h1, h2, h3, h4, _, h6⟩ := ar_step_alloc hL h
  exact ⟨h1, h2, h3, h4, h6⟩

/-- **2 (duplicate inside one call).** -/
theorem duplicate_in_call_rejected (hash : List Nat → List Nat) (s : State) (e : Env) (c : Call)
    (L : List (Nat × Nat)) (hL : allocList c = some L) (hdup : ¬ (L.map Prod.fst).Nodup) :
    ∃ err, step hash s e c = .error err := by
  cases hx : step hash s e c with
  | error err => exact ⟨err, rfl⟩
  | ok q => exact absurd (ar_step_alloc (s' := q.1) (o := q.2) hL hx).2.1 hdup

/-- **2 (second allocation, same state).** -/
theorem allocated_again_rejected (hash : List Nat → List Nat) (s : State) (e : Env) (c : Call)
    (L : List (Nat × Nat)) (a : Nat) (hL : allocList c = some L) (ha : a ∈ L.map Prod.fst)
    (hr : s.range a ≠ none) : ∃ err, step hash s e c = .error err := by
  cases hx : step hash s e c with
  | error err => exact ⟨err, rfl⟩
  | ok q => exact absurd ((ar_step_alloc (s' := q.1) (o := q.2) hL hx).2.2.1 a ha) hr

/-- **2 (the record is kept).** From a reachable state in which `a` holds the record `rg`: in
    every later state of any history (accepted transactions satisfying `HistOK`, rounds
    non-decreasing, waiting allowed) that has not yet reached the start of the selection period
    (`r' < cfg.sel`; the filter — the only operation that rewrites records before claims — is
    gated on that period), `a` holds exactly `rg`. -/
theorem range_kept (hash : List Nat → List Nat) (s : State) (r : Nat) (h : Covered hash s r)
    (s' : State) (r' : Nat) (hl : Later hash s r s' r') (hearly : r' < s'.cfg.sel)
    (a : Nat) (rg : Range) (hr : s.range a = some rg) : s'.range a = some rg :=
  ar_later_keeps h hl hearly a rg hr

/-- **2 (allocated at most once, across calls).** From a reachable state in which `a` holds a
    record: in EVERY later state, every allocation call that lists `a` (with a positive count for
    v2) is rejected. -/
theorem allocated_once (hash : List Nat → List Nat) (s : State) (r : Nat) (h : Covered hash s r)
    (a : Nat) (rg : Range) (hr : s.range a = some rg)
    (s' : State) (r' : Nat) (hl : Later hash s r s' r') (e : Env) (hre : r' ≤ e.round) (c : Call)
    (L : List (Nat × Nat)) (hL : allocList c = some L) (ha : a ∈ L.map Prod.fst) :
    ∃ err, step hash s' e c = .error err := by
  cases hx : step hash s' e c with
  | error err => exact ⟨err, rfl⟩
  | ok q =>
    exfalso
    obtain ⟨hst, _, hnone, _⟩ := ar_step_alloc (s' := q.1) (o := q.2) hL hx
    have hc' := (be_family_all hash).later h hl
    have hv := ((be_family_all hash).good hc').valid
    obtain ⟨h1, _⟩ := (validPeriods_iff _).mp hv
    have h2 := rb_stage_addTickets hst
    have := ar_later_keeps h hl (by omega) a rg hr
    rw [hnone a ha] at this; cases this

/-! ## 3. confirmed tickets stay within the allocation -/

/-- **C07 reach.** In every reachable state of each of the eight launchpads: until the filter
    completes (also while it is interrupted) `confirmed a ≤ size of a's record` (`0` without a
    record); once it has completed `confirmed a = size of a's record`; a blacklisted address has
    nothing confirmed. -/
theorem confirmed_within_allocation (hash : List Nat → List Nat) (s : State) (r : Nat)
    (h : Covered hash s r) (a : Nat) :
    (s.flags.filtered = false → s.confirmed a ≤ size s a) ∧
    (s.flags.filtered = true → s.confirmed a = size s a) ∧
    (s.blacklist a = true → s.confirmed a = 0) :=
  ⟨fun hf => ((ar_tix_covered h).confLe hf a).1, fun hf => ((ar_tix_covered h).confEq hf a).1,
    fun hb => ((be_family_all hash).good h).blz a hb⟩

/-! ## 4. the views -/

/-- **views.** In every reachable state the ticket-count view of every address succeeds (no record
    is empty, so the checked subtraction `last - first` does not underflow) and reports the size of
    the record; the confirmed-tickets view is bounded by / equal to it as in 3. -/
theorem views_exact (hash : List Nat → List Nat) (s : State) (r : Nat) (h : Covered hash s r) (a : Nat) :
    ticketsFor s a = .ok (size s a) ∧
    (s.flags.filtered = false → ∀ n, ticketsFor s a = .ok n → s.confirmed a ≤ n) ∧
    (s.flags.filtered = true → ticketsFor s a = .ok (s.confirmed a)) := by
  have ht := ar_tix_covered h
  have hne : ∀ rg, s.range a = some rg → rg.first ≤ rg.last := by
    intro rg hr
    cases hf : s.flags.filtered with
    | false => exact (ht.confLe hf a).2 rg hr
    | true => exact (ht.confEq hf a).2 rg hr
  have h1 : ticketsFor s a = .ok (size s a) := by
    unfold ticketsFor
    cases hr : s.range a with
    | none => simp [size, ar_size, hr]
    | some rg =>
      have := hne rg hr
      simp only [csub, this, ↓reduceIte, bind, Except.bind, pure, Except.pure, size, ar_size, hr, rangeLen]
      congr 1; omega
  refine ⟨h1, fun hf n hn => ?_, fun hf => ?_⟩
  · rw [h1] at hn; injection hn with hn; subst hn; exact (ht.confLe hf a).1
  · rw [h1]; congr 1; exact ((ht.confEq hf a).1).symm

/-! ## `run` forms -/

/-- **1 and 3, `run` form, all eight variants.** From any deployment, after any history `p` (rounds
    non-decreasing, transactions satisfying `HistOK`, rejected transactions allowed). -/
theorem allocation_run (hash : List Nat → List Nat) (v : Variant) (a0 : InitArgs) (e0 : Env)
    (s0 : State) (hi : init v a0 e0 = .ok s0) (p : Hist) (hr : RoundsFrom e0.round p)
    (hp : ∀ x ∈ p, HistOK x.1 x.2) :
    let s := run hash s0 p
    (s.flags.filtered = false → s.op = .none → Partition s) ∧
    (s.flags.filtered = true → s.flags.selected = false → Partition s) ∧
    (∀ a, (s.flags.filtered = false → s.confirmed a ≤ size s a) ∧
      (s.flags.filtered = true → s.confirmed a = size s a) ∧
      (s.blacklist a = true → s.confirmed a = 0) ∧ ticketsFor s a = .ok (size s a)) := by
  obtain ⟨r', hc, _⟩ := be_covered_run (be_covered_init (hash := hash) hi) p hr hp
  refine ⟨fun hf hop => (ranges_partition hash _ r' hc hf hop).1,
    fun hf hs => (ranges_partition_filtered hash _ r' hc hf hs).1, fun a => ?_⟩
  obtain ⟨h1, h2, h3⟩ := confirmed_within_allocation hash _ r' hc a
  exact ⟨h1, h2, h3, (views_exact hash _ r' hc a).1⟩

/-! ## non-vacuity -/

section examples
open LP.Props.C01reach LP.PL

/-- `ex2` (base launchpad: 7 ↦ 2 tickets, 8 ↦ 1 ticket, deposit made) is reachable and the filter
    has not started: the hypotheses of `ranges_partition` hold, and the records are `[1,2]`, `[3,3]` -/
theorem ex2_covered : Covered id ex2 2 := .plain (Or.inl rfl) ex2_reach

example : ex2.flags.filtered = false ∧ ex2.op = .none ∧ ex2.range 7 = some ⟨1, 2⟩ ∧
    ex2.range 8 = some ⟨3, 3⟩ ∧ ex2.lastTicketId = 3 ∧ Partition ex2 :=
  ⟨rfl, rfl, rfl, rfl, rfl, (ranges_partition id ex2 2 ex2_covered rfl rfl).1⟩

/-- the allocation `ex0 → ex1` is an accepted allocation call; `allocation_exact` gives 8 the
    record `[0 + 2 + 1, 0 + 2 + 1]` -/
example : ex1.range 8 = some ⟨3, 3⟩ := by
  obtain ⟨o, ho⟩ := stOf_step (x := step id ex0 { caller := 1, round := 1 } (.addTickets [(7, 2), (8, 1)])) rfl ex0
  have ho' : step id ex0 { caller := 1, round := 1 } (.addTickets [(7, 2), (8, 1)]) = .ok (ex1, o) := ho
  have hok : HistOK { caller := 1, round := 1 } (.addTickets [(7, 2), (8, 1)]) :=
    ⟨Or.inl rfl, by show ∀ p ∈ [(7, 2), (8, 1)], 1 ≤ p.2; decide, trivial⟩
  exact (allocation_exact id ex0 _ _ ex1 o [(7, 2), (8, 1)] [(7, 2)] [] 8 1 hok rfl ho' rfl).2.1

/-- allocating 7 again in `ex2`, and a call listing 9 twice, are rejected -/
example : isOk (step id ex2 { caller := 1, round := 3 } (.addTickets [(7, 1)])) = false ∧
    isOk (step id ex2 { caller := 1, round := 3 } (.addTickets [(9, 1), (9, 2)])) = false :=
  ⟨rfl, rfl⟩

/-- the locked launchpad `l3` (7 confirmed 2 of 2, 8 confirmed 0 of 1) and `l4` (filter complete,
    lottery not: 8's record is gone, 7 holds `[1,2]`, total 2) are reachable -/
theorem l3_covered : Covered id l3 5 := .plain (Or.inr rfl) (Reach_iff.mpr ⟨_, l3_reachA⟩)

theorem l4_reachA : ReachA id .locked lkArgs l4 10 :=
  callOkA { caller := 9, round := 10 } .filter l3_reachA (by decide) (Or.inl rfl) trivial rfl

theorem l4_covered : Covered id l4 10 := .plain (Or.inr rfl) (Reach_iff.mpr ⟨_, l4_reachA⟩)

example : l3.confirmed 7 = 2 ∧ size l3 7 = 2 ∧ l3.confirmed 8 = 0 ∧ size l3 8 = 1 ∧
    l4.flags.filtered = true ∧ l4.flags.selected = false ∧ l4.range 7 = some ⟨1, 2⟩ ∧
    l4.range 8 = none ∧ l4.lastTicketId = 2 ∧ Partition l4 ∧ ticketsFor l4 7 = .ok 2 :=
  ⟨rfl, rfl, rfl, rfl, rfl, rfl, rfl, rfl, rfl, (ranges_partition_filtered id l4 10 l4_covered rfl rfl).1,
    rfl⟩

/-- `l5` (lottery complete) and `l6` (participant 7 has claimed) are reachable: `ranges_bounded`
    and `ranges_after_filter` apply; in `l5` participant 7 still holds `[1,2]` -/
theorem l5_covered : Covered id l5 11 := .plain (Or.inr rfl) (Reach_iff.mpr ⟨_, l5_reachA⟩)
theorem l6_covered : Covered id l6 15 := .plain (Or.inr rfl) (Reach_iff.mpr ⟨_, l6_reachA⟩)

example : l5.flags.selected = true ∧ l5.range 7 = some ⟨1, 2⟩ ∧ l5.lastTicketId = 2 ∧
    l6.range 7 = none ∧ l6.lastTicketId = 2 :=
  ⟨rfl, rfl, rfl, rfl, rfl⟩

/-- `range_kept` from `ex1` to `ex2` (round 2 < selection start) -/
example : ex2.range 7 = ex1.range 7 := rfl

end examples

/-! #### the other families: guarV2 (`x5`), migration (`ex5`), guarV1 (`w5`), nftGuar (`g8` before
   the filter, `g9` interrupted filter, `g10` filter complete) -/

section more
open LP.VV in
example : Covered id x5 6 ∧ x5.flags.filtered = false ∧ x5.op = .none ∧
    x5.range 7 = some ⟨1, 3⟩ ∧ x5.range 8 = some ⟨4, 4⟩ ∧ x5.lastTicketId = 4 ∧ x5.confirmed 7 = 2 :=
  ⟨.guarV2 x5_reach, rfl, rfl, rfl, rfl, rfl, rfl⟩

open LP.Props.C01reachV1 in
example : Covered id ex5 6 ∧ ex5.flags.filtered = false ∧ ex5.op = .none ∧
    ex5.range 7 = some ⟨1, 3⟩ ∧ ex5.range 8 = some ⟨4, 4⟩ ∧ ex5.range 9 = some ⟨5, 6⟩ ∧
    ex5.lastTicketId = 6 :=
  ⟨.v1 (Or.inl rfl) (v1_Reach_iff.mpr ⟨_, ex5_reach⟩), rfl, rfl, rfl, rfl, rfl, rfl⟩

open LP.Props.C01reachG1 in
example : Covered id w5 6 ∧ w5.flags.filtered = false ∧ w5.op = .none ∧
    w5.range 7 = some ⟨1, 2⟩ ∧ w5.range 8 = some ⟨3, 4⟩ ∧ w5.lastTicketId = 4 :=
  ⟨.guarV1 (g1_Reach_iff.mpr ⟨_, w5_reach⟩), rfl, rfl, rfl, rfl, rfl⟩

open LP.Props.C14reachG in
example : Covered id g8 8 ∧ g8.flags.filtered = false ∧ g8.op = .none ∧ g8.lastTicketId = 6 ∧
    Covered id g10 11 ∧ g10.flags.filtered = true ∧ g10.flags.selected = false ∧
    g10.range 7 = some ⟨1, 2⟩ ∧ g10.range 8 = some ⟨3, 3⟩ ∧ g10.range 9 = some ⟨4, 5⟩ ∧
    g10.lastTicketId = 5 :=
  ⟨.nftGuar (ng_Reach_iff.mpr ⟨_, g8_reach⟩), rfl, rfl, rfl,
    .nftGuar (ng_Reach_iff.mpr ⟨_, g10_reach⟩), rfl, rfl, rfl, rfl, rfl, rfl⟩

/-- the interrupted filter `g9` (7's record already compacted to `[1,2]`, 8 and 9 untouched):
    `confirmed_within_allocation` and `ranges_bounded` apply to it -/
example : LP.Props.C14reachG.g9.op = .filter 4 1 ∧ LP.Props.C14reachG.g9.flags.filtered = false ∧
    LP.Props.C14reachG.g9.range 7 = some ⟨1, 2⟩ ∧ LP.Props.C14reachG.g9.range 8 = some ⟨4, 4⟩ ∧
    LP.Props.C14reachG.g9.lastTicketId = 6 :=
  ⟨rfl, rfl, rfl, rfl, rfl⟩

/-- migration, `ex8`: base lottery complete, distribution not — the hypotheses of
    `ranges_partition_until_distributed` hold -/
example : LP.Props.C01reachV1.ex8.flags.filtered = true ∧ LP.Props.C01reachV1.ex8.flags.selected = true ∧
    LP.Props.C01reachV1.ex8.flags.additional = false ∧ Partition LP.Props.C01reachV1.ex8 :=
  ⟨rfl, rfl, rfl, (ranges_partition_until_distributed id _ 12
    (Or.inr (Or.inl ⟨_, Or.inl rfl, v1_Reach_iff.mpr ⟨_, LP.Props.C01reachV1.ex8_reach⟩⟩)) rfl rfl).1⟩

end more

end LP.Props.C18reach

#print axioms LP.Props.C18reach.ranges_partition
#print axioms LP.Props.C18reach.ranges_partition_filtered
#print axioms LP.Props.C18reach.ranges_partition_until_distributed
#print axioms LP.Props.C18reach.ranges_after_filter
#print axioms LP.Props.C18reach.ranges_bounded
#print axioms LP.Props.C18reach.allocation_exact
#print axioms LP.Props.C18reach.allocation_total
#print axioms LP.Props.C18reach.duplicate_in_call_rejected
#print axioms LP.Props.C18reach.allocated_again_rejected
#print axioms LP.Props.C18reach.range_kept
#print axioms LP.Props.C18reach.allocated_once
#print axioms LP.Props.C18reach.confirmed_within_allocation
#print axioms LP.Props.C18reach.views_exact
#print axioms LP.Props.C18reach.allocation_run
