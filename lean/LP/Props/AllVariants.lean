import LP.Props.C01reach
import LP.Props.C01reachV2
import LP.Props.C01reachV1
import LP.Props.C01reachG1
import LP.Props.C14reach
import LP.Props.C14reachG
/-
  LP.Props.AllVariants — C01 with the quantifier of the property: "in every launchpad variant and at
  every reachable state".

  Each variant family has its own reachable-state development (its own invariant and, for the v1
  allocation endpoint, its own restriction on allocation entries).  `ReachOf` selects, per variant, the
  inductive relation of that family; `C01_every_variant` is then one statement for all eight
  contracts.  The ledger is stated in the general form: the NFT fees that sit in the payment-token slot
  (`nftFeesInPayToken`, zero for the six contracts without an NFT module and whenever the fee uses
  another token) are the "NFT fees accounted for in C14" of the property text.

  Restrictions on histories (the same in every family): a transaction carries EGLD or ESDT transfers,
  not both (`EnvOK`); allocation entries have at least one ticket (`CallOK` / `v1_CallOK`).
-/
namespace LP.Props.AllVariants
open LP LP.Props.C14reach

/-- the reachability relation of the development that covers variant `v` -/
def ReachOf (hash : List Nat → List Nat) (v : Variant) (s : State) (r : Nat) : Prop :=
  match v with
  | .base => Reach hash .base s r
  | .locked => Reach hash .locked s r
  | .nft => Reach hash .nft s r
  | .guarV2 => Reach hash .guarV2 s r
  | .migration => v1_Reach hash .migration s r
  | .lockedGuar => v1_Reach hash .lockedGuar s r
  | .guarV1 => g1_Reach hash s r
  | .nftGuar => ng_Reach hash s r

/-- NFT fees held in the ticket-payment slot (only the two NFT contracts can hold any) -/
def nftFeesInPayToken (v : Variant) (s : State) : Nat :=
  match v with
  | .nft | .nftGuar => feeInPay s
  | _ => 0

/-- **C01 for every variant**: at every reachable state of each of the eight contracts the
    payment-token holdings are exactly what is still owed — before all selection steps are complete
    the full payment of every confirmed ticket, afterwards the owner's not-yet-withdrawn proceeds
    plus the refund due to every participant who has not settled — plus the NFT fees of C14 where
    they use the same token. -/
theorem C01_every_variant (hash : List Nat → List Nat) (v : Variant) (s : State) (r : Nat)
    (h : ReachOf hash v s r) :
    ∃ L : List Nat, Covers s L ∧
      (¬ AllDone s → s.bal s.payTok 0 = s.price * sumOver s.confirmed L + nftFeesInPayToken v s) ∧
      (AllDone s →
        s.bal s.payTok 0 = s.claimablePayment + sumOver (refundDue s) L + nftFeesInPayToken v s) := by
  cases v with
  | base =>
    obtain ⟨L, h1, h2, h3⟩ := LP.Props.C01reach.C01_solvent hash .base (Or.inl rfl) s r h
    exact ⟨L, h1, fun hd => by simpa [nftFeesInPayToken, PayEqPre] using h2 hd,
      fun hd => by simpa [nftFeesInPayToken, PayEqPost] using h3 hd⟩
  | locked =>
    obtain ⟨L, h1, h2, h3⟩ := LP.Props.C01reach.C01_solvent hash .locked (Or.inr rfl) s r h
    exact ⟨L, h1, fun hd => by simpa [nftFeesInPayToken, PayEqPre] using h2 hd,
      fun hd => by simpa [nftFeesInPayToken, PayEqPost] using h3 hd⟩
  | nft => exact C14_solvent_general hash s r h
  | guarV2 =>
    obtain ⟨L, h1, h2, h3⟩ := LP.Props.C01reachV2.C01_solvent_guarV2 hash s r h
    exact ⟨L, h1, fun hd => by simpa [nftFeesInPayToken, PayEqPre] using h2 hd,
      fun hd => by simpa [nftFeesInPayToken, PayEqPost] using h3 hd⟩
  | migration =>
    obtain ⟨L, h1, h2, h3⟩ := LP.Props.C01reachV1.C01_solvent_v1 hash .migration (Or.inl rfl) s r h
    exact ⟨L, h1, fun hd => by simpa [nftFeesInPayToken, PayEqPre] using h2 hd,
      fun hd => by simpa [nftFeesInPayToken, PayEqPost] using h3 hd⟩
  | lockedGuar =>
    obtain ⟨L, h1, h2, h3⟩ := LP.Props.C01reachV1.C01_solvent_v1 hash .lockedGuar (Or.inr rfl) s r h
    exact ⟨L, h1, fun hd => by simpa [nftFeesInPayToken, PayEqPre] using h2 hd,
      fun hd => by simpa [nftFeesInPayToken, PayEqPost] using h3 hd⟩
  | guarV1 =>
    obtain ⟨L, h1, h2, h3⟩ := LP.Props.C01reachG1.C01_solvent_guarV1 hash s r h
    exact ⟨L, h1, fun hd => by simpa [nftFeesInPayToken, PayEqPre] using h2 hd,
      fun hd => by simpa [nftFeesInPayToken, PayEqPost] using h3 hd⟩
  | nftGuar => exact LP.Props.C14reachG.ng_solvent_general hash s r h

/-- deployment is a reachable state of every variant (the relation is not empty) -/
theorem init_reachable (hash : List Nat → List Nat) (v : Variant) (a : InitArgs) (e : Env) (s : State)
    (h : init v a e = .ok s) : ReachOf hash v s e.round := by
  cases v <;> simp only [ReachOf]
  · exact Reach.init a e s h
  · exact Reach.init a e s h
  · exact Reach.init a e s h
  · exact g1_Reach.init a e s h
  · exact Reach.init a e s h
  · exact v1_Reach.init a e s h
  · exact v1_Reach.init a e s h
  · exact ng_Reach.init a e s h

end LP.Props.AllVariants

#print axioms LP.Props.AllVariants.C01_every_variant
#print axioms LP.Props.AllVariants.init_reachable
