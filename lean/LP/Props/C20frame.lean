import LP.Proofs.EventsFrame
import LP.Props.C20
/-
  C20 (completion) — which endpoints emit, and the topics of everything that is emitted.

  `C20.emitting` lists eleven endpoints (confirm, setTicketPrice, filter, select, distribute, v2
  addTickets, blacklist, refundUsers, unblacklist, setSchedule2, claim); `pause` / `unpause` emit one
  topic-less event each.  Here:
  * `no_events_of_not_emitting`  the remaining eighteen endpoints (addTickets, addTicketsV1, deposit,
    setPerTicket, setConfStart, setSelStart, setClaimStart, setSupport, claimPayment, setSchedule1,
    confirmNft, selectNft, secondary, setNftCost, issueSft, createSfts, setTransferRole, sftSetup)
    emit nothing — in the model none of them does, so nothing had to be reported;
  * `pause_events`, `unpause_events`  the two pause events, exactly;
  * `all_events_indexed`  for every accepted call of every variant, every emitted event other than
    the two pause events carries the topics `[caller, round, epoch]` of the transaction.
-/
namespace LP.Props.C20frame
open LP LP.Events LP.Props.C20

/-- the three classes partition the endpoints -/
theorem silent_iff (c : Call) :
    silent c = true ↔ (emitting c = false ∧ c ≠ .pause ∧ c ≠ .unpause) := by
  cases c <;> simp [silent, emitting]

/-- **completeness of `emitting`**: an accepted call of any endpoint outside `emitting`, other than
    `pause`/`unpause`, emits no event -/
theorem no_events_of_not_emitting (hash : List Nat → List Nat) (s s' : State) (e : Env) (c : Call) (o : Out)
    (h : step hash s e c = .ok (s', o)) (hc : emitting c = false) (h1 : c ≠ .pause) (h2 : c ≠ .unpause) :
    o.events = [] := by
  obtain ⟨m, t, _, _, _, hx, _, rfl⟩ := step_ok_inv h
  exact exec_no_events ((silent_iff c).mpr ⟨hc, h1, h2⟩) hx

/-- `pause` emits exactly the topic-less `pauseContract` event -/
theorem pause_events (hash : List Nat → List Nat) (s s' : State) (e : Env) (o : Out)
    (h : step hash s e .pause = .ok (s', o)) : o.events = [⟨"pauseContract", [], []⟩] := by
  obtain ⟨m, t, _, _, _, hx, _, rfl⟩ := step_ok_inv h
  simp only [exec, pure_ok_iff] at hx
  subst hx; rfl

/-- `unpause` emits exactly the topic-less `unpauseContract` event -/
theorem unpause_events (hash : List Nat → List Nat) (s s' : State) (e : Env) (o : Out)
    (h : step hash s e .unpause = .ok (s', o)) : o.events = [⟨"unpauseContract", [], []⟩] := by
  obtain ⟨m, t, _, _, _, hx, _, rfl⟩ := step_ok_inv h
  simp only [exec, pure_ok_iff] at hx
  subst hx; rfl

/-- every event of an accepted call other than `pause`/`unpause` is indexed by
    `[caller, round, epoch]` -/
theorem events_indexed (hash : List Nat → List Nat) (s s' : State) (e : Env) (c : Call) (o : Out)
    (h : step hash s e c = .ok (s', o)) (h1 : c ≠ .pause) (h2 : c ≠ .unpause) :
    ∀ ev ∈ o.events, ev.topics = [e.caller, e.round, e.epoch] := by
  cases hc : emitting c with
  | true => exact topics_of_emitted hash s e c s' o hc h
  | false =>
    intro ev hev
    rw [no_events_of_not_emitting hash s s' e c o h hc h1 h2] at hev
    cases hev

/-- **all events are indexed**: for every accepted call (every endpoint, every variant), every
    emitted event is one of the two topic-less pause events or has topics
    `[e.caller, e.round, e.epoch]` -/
theorem all_events_indexed (hash : List Nat → List Nat) (s s' : State) (e : Env) (c : Call) (o : Out)
    (h : step hash s e c = .ok (s', o)) :
    ∀ ev ∈ o.events,
      (c = .pause ∧ ev = ⟨"pauseContract", [], []⟩) ∨ (c = .unpause ∧ ev = ⟨"unpauseContract", [], []⟩) ∨
      ev.topics = [e.caller, e.round, e.epoch] := by
  intro ev hev
  by_cases h1 : c = .pause
  · subst h1
    rw [pause_events hash s s' e o h] at hev
    exact Or.inl ⟨rfl, by simpa using hev⟩
  · by_cases h2 : c = .unpause
    · subst h2
      rw [unpause_events hash s s' e o h] at hev
      exact Or.inr (Or.inl ⟨rfl, by simpa using hev⟩)
    · exact Or.inr (Or.inr (events_indexed hash s s' e c o h h1 h2 ev hev))

/-! ### non-vacuity -/

/-- an accepted silent call (the owner deposits the launchpad tokens) and an accepted emitting call -/
example : ∃ s' o, step (fun x => x)
      { variant := .base, owner := 1, lpTok := 1, perTicket := 1, payTok := .egld, price := 10,
        nrWinning := 1, cfg := ⟨5, 10, 15⟩, flags := {}, support := 2 }
      { caller := 1, round := 2, esdts := [⟨.esdt 1, 0, 1⟩] } .deposit = .ok (s', o) ∧
      emitting .deposit = false ∧ o.events = [] :=
  ⟨_, _, rfl, rfl, rfl⟩

end LP.Props.C20frame

#print axioms LP.Props.C20frame.silent_iff
#print axioms LP.Props.C20frame.no_events_of_not_emitting
#print axioms LP.Props.C20frame.pause_events
#print axioms LP.Props.C20frame.unpause_events
#print axioms LP.Props.C20frame.events_indexed
#print axioms LP.Props.C20frame.all_events_indexed
