import LP.Proofs.ZeroAllocV1B
import LP.Props.C18reach
/-
  C01 (and the C02/C03/C11/C12 headline theorems) for the v1 guaranteed family on the common
  claim path (`Variant.migration`, `Variant.lockedGuar`; `v1_Fam v`) WITHOUT the restriction
  `v1_CallOK`.

  `v1_ReachZ hash v s r` / `v1_ReachZA hash v a0 s r` (LP/Proofs/ZeroAllocV1B.lean) are
  `v1_Reach` / `v1_ReachA` without the premise `v1_CallOK c`: an `addTicketsV1` entry may be
  `(a, 0, 0, m)`.  `EnvOK` is kept.

  What the model does with a zero-size entry `(a, 0, 0, m)` (`minConfirmed > 0` is enforced at
  deployment, so `staking = 0` never qualifies for the staking guarantee):
    * `a` gets the EMPTY range `[last+1, last]`, a zero-size batch at `last+1` (overwritten by the
      next allocation or dangling above `lastTicketId`) and the record
      `uts a = {a := 0, b := 0, c := 0, d := if m then 1 else 0}`;
    * with `m = true` (migration guarantee) `a` also ENTERS THE WHITELIST and one ticket of the
      reserve moves, `nrWinning - 1`, `totalGuaranteed + 1` — a GHOST GUARANTEE.  No state of the
      original development looks like that before the filter (there a live record belongs to the
      holder of a non-empty range), so `ZSim` alone cannot work in that phase;
    * `a` can never confirm (the allocation view panics, `LP.Props.C01zero.empty_range_cannot_confirm`);
      `blacklist [a]` is accepted, parks the record in `blUts` and gives the reserve ticket back;
      `unblacklist [a]` (migration) restores both;
    * the filter never visits `a`; the stale empty range survives;
    * `distribute` pops `a` from the whitelist; `calcV1` QUALIFIES the ghost (`0 ≥ energy = 0`,
      `0 ≥ staking + energy = 0`), the top-up over the empty range marks nothing and the whole
      guarantee becomes LEFTOVER (`zv_processGuaranteed`: exactly as for a holder whose range was
      removed by the filter), re-drawn among the real tickets;
    * in the claim phase `a` may `claim` once; nothing is paid (`zv_claim_stutter`).

  METHOD (LP/Proofs/ZeroAllocV1.lean, ZeroAllocV1A.lean, ZeroAllocV1B.lean): the invariant
  `zv_Inv T0 s r` holds in every `v1_ReachZA` state (`simulation`):
    * before the first `filter` call (`zv_PA`): a SHADOW `zv_sh s U BU N TG` — `s` with the empty
      ranges / zero-size batches erased and the guarantee bookkeeping replaced by an EMPTY one —
      satisfies the invariant `v1_WF` of the original development and takes REAL steps of it
      (`addTicketsV1 (zv_lst l)`: zero-size entries dropped, guarantees stripped; `blacklist` /
      `unblacklist` restricted to holders of non-empty ranges; every other call unchanged); the
      reserve part is `GuarInvX s` (C12) on the REAL state plus `nrWinning + totalGuaranteed = T0`;
    * from the first `filter` call on: `s` is `ZSim`-related (the relation of the plain
      development: empty ranges / zero-size batches erased, every other field — in particular the
      whole guarantee bookkeeping — equal) to a state `z` satisfying `v1_WF`; `z` takes the same
      step as `s` (`filter`, `select`, `distribute`, `claim`, `claimPayment`, setters), except that a
      claim by an empty-range address is matched by NO step.
  With ghost guarantees `z` is in general NOT a `v1_Reach` state (whitelisted address without any
  allocation history), but it satisfies the inductive invariant `v1_WF`, from which every headline
  theorem of LP/Props/C01reachV1.lean is derived; they are transferred below.
-/
namespace LP.Props.C01zeroV1
open LP LP.FY LP.Props.C01reachV1

/-- **SIMULATION INVARIANT** for every state reachable with zero-size entries -/
theorem simulation (hash : List Nat → List Nat) (v : Variant) (hv : v1_Fam v) (a0 : InitArgs)
    (s : State) (r : Nat) (h : v1_ReachZA hash v a0 s r) : zv_Inv a0.nrWinning s r :=
  zv_sim hv h

/-- before the first `filter` call: the shadow (no empty range, no zero-size batch, no guarantee)
    is a well-formed state of the original development; the C12 reserve invariant holds on the
    real state and the reserve is conserved -/
theorem simulation_before_filter (hash : List Nat → List Nat) (v : Variant) (hv : v1_Fam v)
    (a0 : InitArgs) (s : State) (r : Nat) (h : v1_ReachZA hash v a0 s r)
    (hns : s.flags.started = false) :
    (∃ U BU N TG, v1_WF a0.nrWinning (zv_sh s U BU N TG) r) ∧ GuarInvX s ∧
    s.nrWinning + s.totalGuaranteed = a0.nrWinning := by
  rcases zv_sim hv h with h1 | ⟨h1, _⟩
  · obtain ⟨U, BU, N, TG, hwf, _⟩ := h1.sh
    exact ⟨⟨U, BU, N, TG, hwf⟩, h1.gx, h1.sum⟩
  · rw [hns] at h1; cases h1

/-- from the first `filter` call on: `ZSim`-related to a well-formed state -/
theorem simulation_after_filter (hash : List Nat → List Nat) (v : Variant) (hv : v1_Fam v)
    (a0 : InitArgs) (s : State) (r : Nat) (h : v1_ReachZA hash v a0 s r)
    (hst : s.flags.started = true) : ∃ z, v1_WF a0.nrWinning z r ∧ ZSim s z := by
  rcases zv_sim hv h with h1 | ⟨_, z, hz, hsim⟩
  · rw [h1.ns] at hst; cases hst
  · exact ⟨z, hz, hsim⟩

/-- the original reachable states are among the new ones -/
theorem reach_is_reachZ (hash : List Nat → List Nat) (v : Variant) (s : State) (r : Nat)
    (h : v1_Reach hash v s r) : v1_ReachZ hash v s r := h.toZ

/-! ### 1. C01 -/

/-- **C01 for migration / lockedGuar, zero-size entries allowed**: same statement as
    `C01_solvent_v1` -/
theorem C01_solvent_ZV1 (hash : List Nat → List Nat) (v : Variant) (hv : v1_Fam v) (s : State)
    (r : Nat) (h : v1_ReachZ hash v s r) :
    ∃ L : List Nat, Covers s L ∧ (¬ AllDone s → PayEqPre s L) ∧ (AllDone s → PayEqPost s L) := by
  obtain ⟨a0, h⟩ := v1_ReachZ_iff.mp h
  obtain ⟨L, h1, h2, h3⟩ := zv_Inv_ledger (zv_sim hv h)
  exact ⟨L, h1, h2, fun hd => (h3 hd).1⟩

theorem C01_solvent_migration_Z (hash : List Nat → List Nat) (s : State) (r : Nat)
    (h : v1_ReachZ hash .migration s r) :
    ∃ L : List Nat, Covers s L ∧ (¬ AllDone s → PayEqPre s L) ∧ (AllDone s → PayEqPost s L) :=
  C01_solvent_ZV1 hash .migration (Or.inl rfl) s r h

theorem C01_solvent_lockedGuar_Z (hash : List Nat → List Nat) (s : State) (r : Nat)
    (h : v1_ReachZ hash .lockedGuar s r) :
    ∃ L : List Nat, Covers s L ∧ (¬ AllDone s → PayEqPre s L) ∧ (AllDone s → PayEqPost s L) :=
  C01_solvent_ZV1 hash .lockedGuar (Or.inr rfl) s r h

/-! ### 2. three counts -/

/-- after completion: the winners still held add up to `nrWinning`; nobody holds more winning than
    confirmed tickets; every range — empty or not — has exactly `confirmed` tickets, and the
    holders of NON-EMPTY ranges are in the covering list -/
theorem three_counts_ZV1 (hash : List Nat → List Nat) (v : Variant) (hv : v1_Fam v) (s : State)
    (r : Nat) (h : v1_ReachZ hash v s r) (hd : AllDone s) :
    ∃ L : List Nat, Covers s L ∧ PayEqPost s L ∧ sumOver (winCountOf s) L = s.nrWinning ∧
      (∀ a, winCountOf s a ≤ s.confirmed a) ∧
      (∀ a rg, s.range a = some rg → rangeLen rg = s.confirmed a ∧ (rg.first ≤ rg.last → a ∈ L)) := by
  obtain ⟨a0, h⟩ := v1_ReachZ_iff.mp h
  obtain ⟨L, h1, _, h3⟩ := zv_Inv_ledger (zv_sim hv h)
  obtain ⟨k1, k2, k3, k4⟩ := h3 hd
  exact ⟨L, h1, k1, k2, k3, k4⟩

/-! ### 3. final winners, guarantees honoured -/

/-- **final winner count and guarantees (v1), zero-size entries allowed**: the accepted
    `distribute` call that returns `[0]`, from ANY `v1_ReachZA` state (PARTIAL in the same sense as
    `final_winners_v1_partial`: conditional on the call having completed): both flags set, the
    number of winning flags = `nrWinning` = `min (configured winners) (confirmed tickets)` (the
    ghost guarantees are re-drawn as leftovers: nothing of the reserve is lost), proceeds =
    `price × nrWinning`, flags inside `1..lastTicketId`, no flag lost, and every holder of a
    guarantee record owns at least `min (qualified guarantee) (confirmed)` winning tickets (for a
    ghost: `min 1 0 = 0`) -/
theorem final_winners_ZV1_partial (hash : List Nat → List Nat) (v : Variant) (hv : v1_Fam v)
    (a0 : InitArgs) (s : State) (r : Nat) (h : v1_ReachZA hash v a0 s r) (e : Env) (s' : State)
    (o : Out) (hr : r ≤ e.round) (hok : EnvOK e)
    (hs : step hash s e .distribute = .ok (s', o)) (hret : o.ret = [0]) :
    AllDone s' ∧
    countTrue s'.status s'.lastTicketId = s'.nrWinning ∧
    s'.nrWinning = min a0.nrWinning s'.lastTicketId ∧
    s'.claimablePayment = s'.price * s'.nrWinning ∧
    (∀ t, s'.status t = true → 1 ≤ t ∧ t ≤ s'.lastTicketId) ∧
    (∀ t, s.status t = true → s'.status t = true) ∧
    (∀ u st, s'.uts u = some st →
      min (calcV1 st (s'.confirmed u) s'.minConfirmed).1 (s'.confirmed u) ≤ winCountOf s' u) := by
  obtain ⟨z, z', hz, hsim, hsim', hstep⟩ := zv_Inv_distribute (zv_sim hv h) hr hok hs
  obtain ⟨h1, h2, _, _, h5, h6, h7, h8, h9, h10⟩ := v1_distribute_completion hz hstep hret
  have hwc : ∀ a, winCountOf s' a = winCountOf z' a := fun a => hsim'.winCountOf_eq a
  obtain ⟨R, B, K, C, rfl⟩ := hsim.shape'
  obtain ⟨R', B', K', C', rfl⟩ := hsim'.shape'
  refine ⟨⟨h1, h2⟩, h5, h6, h7, h8, h9, fun u st hu => ?_⟩
  rw [hwc u]
  exact h10 u st hu

/-- during the distribution the number of winning flags is between the lottery winners and
    `min T0 lastTicketId` -/
theorem winners_bound_ZV1 (hash : List Nat → List Nat) (v : Variant) (hv : v1_Fam v) (a0 : InitArgs)
    (s : State) (r : Nat) (h : v1_ReachZA hash v a0 s r) (hsel : s.flags.selected = true)
    (hna : s.flags.additional = false) :
    s.nrWinning ≤ countTrue s.status s.lastTicketId ∧
    countTrue s.status s.lastTicketId ≤ min a0.nrWinning s.lastTicketId ∧
    (∀ t, s.status t = true → 1 ≤ t ∧ t ≤ s.lastTicketId) := by
  obtain ⟨z, hz, hsim⟩ := zv_Inv_selected (zv_sim hv h) hsel
  have hfl : z.flags = s.flags := hsim.fields.2.1
  have := v1_winners_bound hz (by rw [hfl]; exact hsel) (by rw [hfl]; exact hna)
  obtain ⟨R, B, K, C, rfl⟩ := hsim.shape'
  exact this

/-! ### 4. the reserve and the launchpad tokens -/

/-- **reserve conservation**: `nrWinning + totalGuaranteed` is the configured number of winners
    until the filter completes (ghost guarantees included), and at most that afterwards -/
theorem reserve_ZV1 (hash : List Nat → List Nat) (v : Variant) (hv : v1_Fam v) (a0 : InitArgs)
    (s : State) (r : Nat) (h : v1_ReachZA hash v a0 s r) :
    (s.flags.filtered = false → s.nrWinning + s.totalGuaranteed = a0.nrWinning) ∧
    (s.flags.additional = false → s.nrWinning + s.totalGuaranteed ≤ a0.nrWinning) :=
  zv_Inv_reserve (zv_sim hv h)

/-- **`LpCover` from the deposit on**; until the distribution is complete the launchpad tokens
    cover the whole reserve -/
theorem lp_cover_ZV1 (hash : List Nat → List Nat) (v : Variant) (hv : v1_Fam v) (s : State)
    (r : Nat) (h : v1_ReachZ hash v s r) (hd : s.deposited = true) :
    LP.Props.C02.LpCover s ∧
    (s.flags.additional = false →
      s.perTicket * (s.nrWinning + s.totalGuaranteed) ≤ s.bal (.esdt s.lpTok) 0) := by
  obtain ⟨a0, h⟩ := v1_ReachZ_iff.mp h
  have hlp := zv_Inv_lp (zv_sim hv h) hd
  unfold v1_owed at hlp
  constructor
  · unfold LP.Props.C02.LpCover
    exact Nat.le_trans (Nat.mul_le_mul_left _ (Nat.le_add_right _ _)) hlp
  · intro hna
    rw [hna] at hlp
    simpa using hlp

/-! ### 5. claims never starve -/

/-- the owner's recorded proceeds are covered -/
theorem owner_withdrawal_covered_ZV1 (hash : List Nat → List Nat) (v : Variant) (hv : v1_Fam v)
    (s : State) (r : Nat) (h : v1_ReachZ hash v s r) (hd : AllDone s) :
    s.claimablePayment ≤ s.bal s.payTok 0 := by
  obtain ⟨L, _, hpost, _⟩ := three_counts_ZV1 hash v hv s r h hd
  unfold PayEqPost at hpost
  omega

/-- the refund of ANY address holding a range (empty or not) is covered, together with the
    owner's proceeds -/
theorem claim_refund_covered_ZV1 (hash : List Nat → List Nat) (v : Variant) (hv : v1_Fam v)
    (s : State) (r : Nat) (h : v1_ReachZ hash v s r) (hd : AllDone s) (a : Nat) (rg : Range)
    (hr : s.range a = some rg) :
    s.claimablePayment + s.price * (s.confirmed a - winCountOf s a) ≤ s.bal s.payTok 0 := by
  obtain ⟨L, _, hpost, _, _, hrg⟩ := three_counts_ZV1 hash v hv s r h hd
  obtain ⟨hlen, hin⟩ := hrg a rg hr
  unfold PayEqPost at hpost
  by_cases hne : rg.first ≤ rg.last
  · have hle := rb_le_sumOver (refundDue s) L a (hin hne)
    have hdue : refundDue s a = s.price * (s.confirmed a - winCountOf s a) := by
      simp only [refundDue, hr]
    omega
  · have hc : s.confirmed a = 0 := by rw [← hlen]; unfold rangeLen; omega
    rw [hc]
    simp only [Nat.zero_sub, Nat.mul_zero, Nat.add_zero]
    omega

/-- the launchpad tokens of ANY address are covered once the deposit has been made -/
theorem winner_covered_ZV1 (hash : List Nat → List Nat) (v : Variant) (hv : v1_Fam v) (s : State)
    (r : Nat) (h : v1_ReachZ hash v s r) (hd : AllDone s) (hdep : s.deposited = true) (a : Nat) :
    s.perTicket * winCountOf s a ≤ s.bal (.esdt s.lpTok) 0 ∧ winCountOf s a ≤ s.nrWinning := by
  obtain ⟨L, hcov, _, hwin, hle, hrg⟩ := three_counts_ZV1 hash v hv s r h hd
  have hwn : winCountOf s a ≤ s.nrWinning := by
    by_cases hc : s.confirmed a = 0
    · have := hle a; omega
    · rw [← hwin]
      exact rb_le_sumOver (winCountOf s) L a (hcov.supp a hc)
  refine ⟨?_, hwn⟩
  have hc := (lp_cover_ZV1 hash v hv s r h hdep).1
  unfold LP.Props.C02.LpCover at hc
  exact Nat.le_trans (Nat.mul_le_mul_left _ hwn) hc

/-
  FULL STATEMENT (not proved): `claim_never_starves_ZV1` without the hypothesis `hdep`.
  What is missing: the invariant `v1_WF` of the original development does not record
  "no deposit ⇒ nothing confirmed" (the plain invariant does, `noConf`); without it the coverage
  `perTicket × winCount ≤ balance` of a winner cannot be derived for a launch whose deposit was
  never made (such a launch has no confirmed ticket, hence no winner, but this is not part of
  `v1_WF`).  The original v1 development has no claims-never-starve theorem either.
-/
/-- **claims never starve** (after the deposit): in every `v1_ReachZ` state, in the claim stage, a
    claim (without call value) by any address that holds a range — empty or not — and has not
    claimed yet is ACCEPTED -/
theorem claim_never_starves_ZV1_partial (hash : List Nat → List Nat) (v : Variant) (hv : v1_Fam v)
    (s : State) (r : Nat) (h : v1_ReachZ hash v s r) (hdep : s.deposited = true) (e : Env) (rg : Range)
    (he1 : e.egld = 0) (he2 : e.esdts = []) (hst : s.stage e = .claim)
    (hcl : s.claimed e.caller = false) (hrg : s.range e.caller = some rg) :
    ∃ x, step hash s e .claim = .ok x := by
  obtain ⟨hsel, hadd, _, _⟩ := v1_stage_claim hst
  have hd : AllDone s := ⟨hsel, hadd⟩
  obtain ⟨a0, h0⟩ := v1_ReachZ_iff.mp h
  obtain ⟨z, hz, hsim⟩ := zv_Inv_selected (zv_sim hv h0) hsel
  have hfam : v1_Fam s.variant := zv_fam_of_sim hz hsim
  have htok : s.payTok ≠ .esdt s.lpTok := by have := hz.tokNe; rw [hsim.rest] at this; exact this
  have hpct : s.lockPct ≤ 10000 := by have := hz.static.2; rw [hsim.rest] at this; exact this
  obtain ⟨L, _, _, _, hle, _⟩ := three_counts_ZV1 hash v hv s r h hd
  have hcov := claim_refund_covered_ZV1 hash v hv s r h hd e.caller rg hrg
  obtain ⟨hw1, hw2⟩ := winner_covered_ZV1 hash v hv s r h hd hdep e.caller
  have hwc : LP.winCount s e.caller = winCountOf s e.caller := rfl
  have hne' : ¬ (Token.esdt s.lpTok = s.payTok) := fun hh => htok hh.symm
  have hacc : LP.Props.C09.ClaimAccepts s e rg := by
    refine ⟨he1, he2, hst, hcl, hrg, ?_, ?_, ?_, ?_⟩
    · rw [hwc]; exact hw2
    · rw [hwc]; exact hle e.caller
    · rw [hwc]; omega
    · rw [hwc]
      have : (s.bal.sub s.payTok 0 (s.price * (s.confirmed e.caller - winCountOf s e.caller)))
          (.esdt s.lpTok) 0 = s.bal (.esdt s.lpTok) 0 := by simp [Bal.sub, hne']
      rw [this, Nat.mul_comm]; exact hw1
  obtain ⟨f1, f2, _⟩ := v1_fam_flags hfam
  rcases hfam with hb | hl
  · have hl0 : s.variant.hasLock = false := by rw [hb]; rfl
    refine ⟨({ LP.settledState s e.caller rg with bal := LP.Props.C09.balAfterClaim s e.caller },
      { xfers := LP.Props.C09.refundXfers s e.caller ++ LP.Props.C09.tokenXfers s e.caller,
        events := (if s.confirmed e.caller - LP.winCount s e.caller = 0 then []
                    else [LP.refundEvent s e (s.confirmed e.caller - LP.winCount s e.caller)]) }), ?_⟩
    rw [LP.Props.C09.claim_base_iff hash s e _ _ f1 hl0 f2]
    exact ⟨rg, hacc, rfl, rfl, rfl, rfl, rfl, rfl, rfl⟩
  · have hl1 : s.variant.hasLock = true := by rw [hl]; rfl
    exact (LP.Props.C09.claim_lock_accepted_iff hash s e f1 hl1 hpct).mpr ⟨rg, hacc⟩

/-! ### non-vacuity: a launch with a GHOST guarantee, to the very end -/

theorem ReachZA.callOk {hash : List Nat → List Nat} {v : Variant} {a0 : InitArgs} {s : State} {r : Nat}
    (e : Env) (c : Call) (h : v1_ReachZA hash v a0 s r) (hr : r ≤ e.round) (hok : EnvOK e)
    (hs : isOk (step hash s e c) = true) :
    v1_ReachZA hash v a0 (stOf (step hash s e c) s) e.round := by
  cases hx : step hash s e c with
  | error err => rw [hx] at hs; cases hs
  | ok q =>
    obtain ⟨s', o⟩ := q
    exact .call s r e c s' o h hr hok hx

/-- 7: zero-size entry WITH migration guarantee (ghost); 8: three tickets, staking guarantee;
    9: zero-size entry without guarantee -/
def gAlloc : List (Nat × Nat × Nat × Bool) := [(7, 0, 0, true), (8, 2, 1, false), (9, 0, 0, false)]

def g1 : State := stOf (step id ex0 { caller := 1, round := 1 } (.addTicketsV1 gAlloc)) ex0
def g2 : State := stOf (step id g1 { caller := 1, round := 2, esdts := [⟨.esdt 1, 0, 20⟩] } .deposit) g1
def g3 : State := stOf (step id g2 { caller := 8, round := 5, egld := 30 } (.confirm 3)) g2
def g3b : State := stOf (step id g3 { caller := 1, round := 6 } (.blacklist [9])) g3
def g4 : State := stOf (step id g3b { caller := 9, round := 10 } .filter) g3b
def g5 : State := stOf (step id g4 { caller := 9, round := 11 } .select) g4
def g6 : State := stOf (step id g5 { caller := 9, round := 12 } .distribute) g5
def g7 : State := stOf (step id g6 { caller := 7, round := 15 } .claim) g6

theorem g1_reachZ : v1_ReachZA id .migration exArgs g1 1 :=
  ReachZA.callOk { caller := 1, round := 1 } (.addTicketsV1 gAlloc) ex0_reach.toZ
    (by decide) (Or.inl rfl) rfl

/-- the ghost: empty range, whitelisted, one reserve ticket moved -/
example : g1.range 7 = some ⟨1, 0⟩ ∧ g1.range 8 = some ⟨1, 3⟩ ∧ g1.range 9 = some ⟨4, 3⟩ ∧
    g1.lastTicketId = 3 ∧ g1.whitelist = [7, 8] ∧ g1.nrWinning = 2 ∧ g1.totalGuaranteed = 2 ∧
    g1.uts 7 = some { a := 0, b := 0, c := 0, d := 1 } ∧ g1.uts 9 = some {} := by
  refine ⟨rfl, rfl, rfl, rfl, rfl, rfl, rfl, rfl, rfl⟩

/-- **`g1` is a `v1_ReachZ` state that is NOT a `v1_Reach` state** (of any deployment, at any
    round): reachable states of the original development have no empty range -/
theorem g1_not_reach (hash : List Nat → List Nat) (r : Nat) : ¬ v1_Reach hash .migration g1 r := by
  intro h
  have := LP.Props.C18reach.ranges_bounded hash g1 r (.v1 (Or.inl rfl) h) 7 ⟨1, 0⟩ rfl
  exact absurd this.2.1 (by decide)

theorem g6_reachZ : v1_ReachZA id .migration exArgs g6 12 :=
  ReachZA.callOk { caller := 9, round := 12 } .distribute
    (ReachZA.callOk { caller := 9, round := 11 } .select
      (ReachZA.callOk { caller := 9, round := 10 } .filter
        (ReachZA.callOk { caller := 1, round := 6 } (.blacklist [9])
          (ReachZA.callOk { caller := 8, round := 5, egld := 30 } (.confirm 3)
            (ReachZA.callOk { caller := 1, round := 2, esdts := [⟨.esdt 1, 0, 20⟩] } .deposit g1_reachZ
              (by decide) (Or.inl rfl) rfl)
            (by decide) (Or.inr rfl) rfl)
          (by decide) (Or.inl rfl) rfl)
        (by decide) (Or.inl rfl) rfl)
      (by decide) (Or.inl rfl) rfl)
    (by decide) (Or.inl rfl) rfl

theorem g7_reachZ : v1_ReachZA id .migration exArgs g7 15 :=
  ReachZA.callOk { caller := 7, round := 15 } .claim g6_reachZ (by decide) (Or.inl rfl) rfl

/-- the ghost survives the filter, is popped by `distribute`, its guarantee is re-drawn: all
    `min 4 3 = 3` confirmed tickets win; its claim pays nothing -/
example : g4.range 7 = some ⟨1, 0⟩ ∧ g4.whitelist = [7, 8] ∧ g4.nrWinning = 2 ∧
    g3b.blacklist 9 = true ∧ g4.range 9 = some ⟨4, 3⟩ ∧
    AllDone g6 ∧ g6.whitelist = [] ∧ g6.nrWinning = 3 ∧ g6.claimablePayment = 30 ∧
    g7.range 7 = none ∧ g7.claimed 7 = true ∧ g7.bal .egld 0 = g6.bal .egld 0 ∧
    g7.bal (.esdt 1) 0 = g6.bal (.esdt 1) 0 := by
  refine ⟨rfl, rfl, rfl, rfl, rfl, ⟨rfl, rfl⟩, rfl, rfl, rfl, rfl, rfl, rfl, rfl⟩

/-- the theorems applied to the concrete history -/
example : ∃ L : List Nat, Covers g6 L ∧ PayEqPost g6 L :=
  let ⟨L, h1, _, h3⟩ := C01_solvent_migration_Z id g6 12 (v1_ReachZ_iff.mpr ⟨_, g6_reachZ⟩)
  ⟨L, h1, h3 ⟨rfl, rfl⟩⟩

example : g6.nrWinning = min exArgs.nrWinning g6.lastTicketId :=
  (final_winners_ZV1_partial id .migration (Or.inl rfl) exArgs g5 11
    (ReachZA.callOk { caller := 9, round := 11 } .select
      (ReachZA.callOk { caller := 9, round := 10 } .filter
        (ReachZA.callOk { caller := 1, round := 6 } (.blacklist [9])
          (ReachZA.callOk { caller := 8, round := 5, egld := 30 } (.confirm 3)
            (ReachZA.callOk { caller := 1, round := 2, esdts := [⟨.esdt 1, 0, 20⟩] } .deposit g1_reachZ
              (by decide) (Or.inl rfl) rfl)
            (by decide) (Or.inr rfl) rfl)
          (by decide) (Or.inl rfl) rfl)
        (by decide) (Or.inl rfl) rfl)
      (by decide) (Or.inl rfl) rfl)
    { caller := 9, round := 12 } g6 _ (by decide) (Or.inl rfl) rfl rfl).2.2.1

example : ∃ x, step id g6 { caller := 7, round := 15 } .claim = .ok x :=
  claim_never_starves_ZV1_partial id .migration (Or.inl rfl) g6 12 (v1_ReachZ_iff.mpr ⟨_, g6_reachZ⟩)
    rfl { caller := 7, round := 15 } ⟨1, 0⟩ rfl rfl rfl rfl rfl

end LP.Props.C01zeroV1

#print axioms LP.Props.C01zeroV1.simulation
#print axioms LP.Props.C01zeroV1.simulation_before_filter
#print axioms LP.Props.C01zeroV1.simulation_after_filter
#print axioms LP.Props.C01zeroV1.reach_is_reachZ
#print axioms LP.Props.C01zeroV1.C01_solvent_ZV1
#print axioms LP.Props.C01zeroV1.C01_solvent_migration_Z
#print axioms LP.Props.C01zeroV1.C01_solvent_lockedGuar_Z
#print axioms LP.Props.C01zeroV1.three_counts_ZV1
#print axioms LP.Props.C01zeroV1.final_winners_ZV1_partial
#print axioms LP.Props.C01zeroV1.winners_bound_ZV1
#print axioms LP.Props.C01zeroV1.reserve_ZV1
#print axioms LP.Props.C01zeroV1.lp_cover_ZV1
#print axioms LP.Props.C01zeroV1.owner_withdrawal_covered_ZV1
#print axioms LP.Props.C01zeroV1.claim_refund_covered_ZV1
#print axioms LP.Props.C01zeroV1.winner_covered_ZV1
#print axioms LP.Props.C01zeroV1.claim_never_starves_ZV1_partial
#print axioms LP.Props.C01zeroV1.ReachZA.callOk
#print axioms LP.Props.C01zeroV1.g1_reachZ
#print axioms LP.Props.C01zeroV1.g1_not_reach
#print axioms LP.Props.C01zeroV1.g6_reachZ
#print axioms LP.Props.C01zeroV1.g7_reachZ
