import LP.Proofs.Resume
import LP.Proofs.ResumeFrame
/-
  C04 (endpoint part) — interrupted operations resume to the same result, for the resumable
  endpoints other than `filterTickets` (which is in C08): `selectWinners`, `selectNft`,
  `distribute`, `secondary`; and the frame between the calls of an interrupted operation.

  Vocabulary (defined in `LP/Proofs/Resume.lean`, `LP/Proofs/ResumeFrame.lean`):
  * `callTx s e b`        : the transaction record of a fresh call on storage `s` in environment
                            `e` (its seeds and script) with iteration budget `b`, empty output;
  * `firstRng seeds`      : the generator `Random::default()` makes from the first seed;
  * `DCtx`                : the two components of a transaction record that `Tx.draw` touches
                            (hook script, draw log); the loops are analysed on *cores*
                            (`SelCore`, `NCore`, `LCore`) = loop state with a `DCtx` instead of
                            the transaction record (`selectBody_lift`, `nftBody_lift`,
                            `leftoverBody_lift` + `runWhile_map` transport the runs);
  * `selCoreAt s e` / `nftCoreAt s e` / `guarOpOf (callTx s e b)` : the loop state / cursor a
                            call in environment `e` starts from: reloaded from `s.op` when an
                            operation is saved (then `e.seeds` is irrelevant), fresh from
                            `firstRng e.seeds` when `s.op = .none`;
  * `selectCalls`, `nftCalls`, `distCalls hash cs s` : successive accepted calls, call `i` in
                            its own environment `eᵢ` with budget `bᵢ`; result = final storage and
                            the concatenation of the calls' draw logs;
  * `SelectPre`, `NftPre`, `DistPre s e` : the gates of the endpoint pass in environment `e`;
  * `NftReady s`          : `payers` has no duplicates and is disjoint from `nftWinners`;
  * `State.cursor`, `Call.resumes` : the saved cursor + everything the loops work on; the
                            endpoint that continues a given saved operation.
-/
namespace LP.Props.C04select
open LP

variable (hash : List Nat → List Nat)

/-! ## 1. `selectWinners` -/

/-- (a) an interrupted call stores `op := .select rng pos` with the two updated maps, returns
    `[1]`, emits no event, makes no transfer, and changes nothing else. -/
theorem select_interrupted (t : Tx) (e : Env) (y y' : SelCore) (b : Option Nat)
    (hp : SelectPre t.s e) (hy : selCoreOf t = some y)
    (hrun : runWhile (selCoreBody hash t.s.nrWinning t.s.lastTicketId) (t.s.nrWinning + 2)
              t.c.budget y = .ok (y', b, .interrupted)) :
    ∃ t', selectWinners hash t e = .ok t' ∧
      t'.s = { t.s with status := y'.status, posToId := y'.posToId,
                        op := .select y'.rng y'.pos } ∧
      t'.o.ret = [1] ∧ t'.o.events = t.o.events ∧ t'.o.xfers = t.o.xfers ∧
      t'.o.locks = t.o.locks ∧ t'.o.sfts = t.o.sfts ∧ t'.o.draws = y'.d.log :=
  selectWinners_interrupted hash t e y y' b hp hy hrun

/-- (a) in the vocabulary of the model (`SelSt`, `selectBody`): the loop started from the state
    `x` the endpoint loads is interrupted in `x'` ⇒ the call is accepted, stores
    `op := .select x'.rng x'.pos` with the updated `status` / `posToId`, returns `[1]`, emits
    no event, makes no transfer, changes nothing else. -/
theorem select_interrupted_model (t : Tx) (e : Env) (x x' : SelSt) (b : Option Nat)
    (hp : SelectPre t.s e) (hx : selStOf t = some x)
    (hrun : runWhile (selectBody hash t.s.nrWinning t.s.lastTicketId) (t.s.nrWinning + 2)
              t.c.budget x = .ok (x', b, .interrupted)) :
    ∃ t', selectWinners hash t e = .ok t' ∧
      t'.s = { t.s with status := x'.status, posToId := x'.posToId,
                        op := .select x'.rng x'.pos } ∧
      t'.o.ret = [1] ∧ t'.o.events = t.o.events ∧ t'.o.xfers = t.o.xfers ∧
      t'.o.draws = x'.tx.o.draws :=
  selectWinners_interrupted_model hash t e x x' b hp hx hrun

/-- the endpoint as a function of the core loop (all four outcomes) -/
theorem select_eq (t : Tx) (e : Env) (y : SelCore) (hp : SelectPre t.s e)
    (hy : selCoreOf t = some y) :
    selectWinners hash t e =
      selectOutcome t e (runWhile (selCoreBody hash t.s.nrWinning t.s.lastTicketId)
        (t.s.nrWinning + 2) t.c.budget y) :=
  selectWinners_eq hash t e y hp hy

/-- (b) seeds: an accepted resumed call leaves the seeds of its transaction untouched
    (`Tx.freshRng` is not called); a call that starts the operation pops exactly one. -/
theorem select_seeds (t t' : Tx) (e : Env) (h : selectWinners hash t e = .ok t') :
    t'.c.seeds = (match t.s.op with | .none => t.c.seeds.tail | _ => t.c.seeds) :=
  selectWinners_seeds hash t t' e h

/-- (b) a resumed call is independent of its environment's seeds (and of caller, round, epoch
    as long as the gates pass in both): same acceptance, same storage, return value, draws. -/
theorem select_resumed_env_irrelevant (s : State) (r : Rng) (p : Nat)
    (hop : s.op = .select r p) (e e' : Env) (b : Option Nat) (hscr : e.script = e'.script)
    (hp : SelectPre s e) (hp' : SelectPre s e') :
    (selectWinners hash (callTx s e b) e).map (fun t => (t.s, t.o.ret, t.o.draws)) =
    (selectWinners hash (callTx s e' b) e').map (fun t => (t.s, t.o.ret, t.o.draws)) :=
  selectWinners_resumed_env_irrelevant hash s r p hop e e' b hscr hp hp'

/-- (c) chunked = single, from whatever cursor the storage holds: the WHOLE final storage and
    the concatenated draw log equal those of one unbudgeted call starting from the same loop
    state. -/
theorem selectCalls_eq_single (e0 : Env) (b0 : Option Nat) (rest : List (Env × Option Nat))
    (s s' : State) (ds : List Nat) (e1 : Env) (t1 : Tx)
    (hscr0 : e0.script = []) (hrest : ∀ c ∈ rest, c.1.script = [])
    (hc : selectCalls hash ((e0, b0) :: rest) s = .ok (s', ds))
    (hsel : s'.flags.selected = true) (hsame : selCoreAt s e1 = selCoreAt s e0)
    (h1 : selectWinners hash (callTx s e1 none) e1 = .ok t1) :
    s' = t1.s ∧ ds = t1.o.draws :=
  LP.selectCalls_eq_single hash e0 b0 rest s s' ds e1 t1 hscr0 hrest hc hsel hsame h1

/-- (c) the form of the property text: a schedule (typically one that STARTS the operation) — arbitrary budgets,
    arbitrary later seeds / callers / rounds, all accepted, no scripted draws — and completes it
    ends in exactly the storage of ONE call with `budget = none` carrying the FIRST call's first
    seed (any caller / round / later seeds that pass the gates), with the same draws. -/
theorem selectCalls_eq_single_fresh (e0 : Env) (b0 : Option Nat)
    (rest : List (Env × Option Nat)) (s s' : State) (ds : List Nat) (e1 : Env) (t1 : Tx)
    (hscr0 : e0.script = []) (hrest : ∀ c ∈ rest, c.1.script = [])
    (hscr1 : e1.script = [])
    (hc : selectCalls hash ((e0, b0) :: rest) s = .ok (s', ds))
    (hsel : s'.flags.selected = true) (hseed : e1.seeds.head? = e0.seeds.head?)
    (h1 : selectWinners hash (callTx s e1 none) e1 = .ok t1) :
    s' = t1.s ∧ ds = t1.o.draws := by
  refine LP.selectCalls_eq_single hash e0 b0 rest s s' ds e1 t1 hscr0 hrest hc hsel ?_ h1
  apply selCoreAt_eq_of_first
  · intro _
    unfold firstRng
    cases h0 : e0.seeds <;> cases h1 : e1.seeds <;> simp_all
  · rw [hscr0, hscr1]

/-- (c) that single call is accepted (and completes the step) as soon as its gates pass. -/
theorem select_single_accepted (s : State) (e : Env) (hop : s.op = .none) (hp : SelectPre s e) :
    ∃ t yf, selectWinners hash (callTx s e none) e = .ok t ∧ t.s = selectDone s yf ∧
      t.o.ret = [0] ∧ t.s.flags.selected = true ∧ t.s.op = .none :=
  selectWinners_single_accepted hash s e hop hp

/-- schedule independence: two accepted completing schedules whose first calls carry the same
    first seed end in the same storage with the same draws. -/
theorem selectCalls_deterministic (e0 e0' : Env) (b0 b0' : Option Nat)
    (rest rest' : List (Env × Option Nat)) (s s1 s2 : State) (ds1 ds2 : List Nat)
    (hscr0 : e0.script = []) (hrest : ∀ c ∈ rest, c.1.script = [])
    (hscr0' : e0'.script = []) (hrest' : ∀ c ∈ rest', c.1.script = [])
    (hc : selectCalls hash ((e0, b0) :: rest) s = .ok (s1, ds1))
    (hc' : selectCalls hash ((e0', b0') :: rest') s = .ok (s2, ds2))
    (hsel : s1.flags.selected = true) (hsel' : s2.flags.selected = true)
    (hseed : s.op = .none → firstRng e0'.seeds = firstRng e0.seeds) :
    s1 = s2 ∧ ds1 = ds2 :=
  LP.selectCalls_deterministic hash e0 e0' b0 b0' rest rest' s s1 s2 ds1 ds2 hscr0 hrest hscr0'
    hrest' hc hc' hsel hsel' hseed

/-- (d) liveness: all calls pass the gates (not paused, winner-selection stage, caller allowed,
    filtered, not selected), no scripted draws, `nrWinning + 1 ≤` number of calls ⇒ the schedule
    completes (each call makes ≥ 1 iteration); `cs2` = the calls after completion. -/
theorem selectCalls_completes (cs : List (Env × Option Nat)) (s : State) (hop : s.op = .none)
    (hpre : ∀ c ∈ cs, SelectPre s c.1) (hscr : ∀ c ∈ cs, c.1.script = [])
    (hlen : s.nrWinning + 1 ≤ cs.length) :
    ∃ cs1 cs2 s' ds, cs = cs1 ++ cs2 ∧ selectCalls hash cs1 s = .ok (s', ds) ∧
      s'.flags.selected = true :=
  LP.selectCalls_completes hash cs s hop hpre hscr hlen

/-- `step` dispatches `.select` to `selectWinners` on `callTx s e e.budget`. -/
theorem step_select (s : State) (e : Env) (h1 : e.egld = 0) (h2 : e.esdts = []) :
    step hash s e .select =
      match selectWinners hash (callTx s e e.budget) e with
      | .error err => .error err
      | .ok t => .ok (t.s, t.o) :=
  LP.step_select hash s e h1 h2

/-! ## 2. the NFT draw (`selectNft`) -/

/-- an interrupted call saves the generator in `op := .additional (.nft rng)` and the updated
    `payers` / `nftWinners`; returns `[1]`; emits nothing; changes nothing else. -/
theorem nft_interrupted (t : Tx) (e : Env) (r : Rng) (y : NCore) (b : Option Nat)
    (hp : NftPre t.s e) (hr : nftRngOf t = some r)
    (hrun : runWhile (nftCoreBody hash t.s.availNfts) (t.s.payers.length + 2) t.c.budget
              (nftCoreOf t r) = .ok (y, b, .interrupted)) :
    ∃ t', selectNft hash t e = .ok t' ∧
      t'.s = { t.s with payers := y.payers, nftWinners := y.winners,
                        op := .additional (.nft y.rng) } ∧
      t'.o.ret = [1] ∧ t'.o.events = t.o.events ∧ t'.o.xfers = t.o.xfers ∧
      t'.o.draws = y.d.log :=
  selectNft_interrupted hash t e r y b hp hr hrun

theorem nft_seeds (t t' : Tx) (e : Env) (h : selectNft hash t e = .ok t') :
    t'.c.seeds = (match t.s.op with | .none => t.c.seeds.tail | _ => t.c.seeds) :=
  selectNft_seeds hash t t' e h

/-- a resumed call ignores the new environment's seeds (and caller, round, epoch). -/
theorem nft_resumed_env_irrelevant (s : State) (r : Rng) (hop : s.op = .additional (.nft r))
    (e e' : Env) (b : Option Nat) (hscr : e.script = e'.script) (hp : NftPre s e)
    (hp' : NftPre s e') :
    (selectNft hash (callTx s e b) e).map (fun t => (t.s, t.o.ret, t.o.draws, t.o.events)) =
    (selectNft hash (callTx s e' b) e').map (fun t => (t.s, t.o.ret, t.o.draws, t.o.events)) :=
  selectNft_resumed_env_irrelevant hash s r hop e e' b hscr hp hp'

/-- chunked = single (whole storage, draws).  `NftReady` is what makes reloading the two
    counters from the list lengths on resumption harmless. -/
theorem nftCalls_eq_single (e0 : Env) (b0 : Option Nat) (rest : List (Env × Option Nat))
    (s s' : State) (ds : List Nat) (e1 : Env) (t1 : Tx) (hrdy : NftReady s)
    (hscr0 : e0.script = []) (hrest : ∀ c ∈ rest, c.1.script = [])
    (hc : nftCalls hash ((e0, b0) :: rest) s = .ok (s', ds))
    (hsel : s'.flags.additional = true) (hsame : nftCoreAt s e1 = nftCoreAt s e0)
    (h1 : selectNft hash (callTx s e1 none) e1 = .ok t1) :
    s' = t1.s ∧ ds = t1.o.draws :=
  LP.nftCalls_eq_single hash e0 b0 rest s s' ds e1 t1 hrdy hscr0 hrest hc hsel hsame h1

/-- `hsame` holds when the single call carries the first call's first seed -/
theorem nftCoreAt_same (s : State) (e0 e1 : Env)
    (hseed : s.op = .none → firstRng e1.seeds = firstRng e0.seeds)
    (hscr : e1.script = e0.script) : nftCoreAt s e1 = nftCoreAt s e0 :=
  nftCoreAt_eq_of_first s e0 e1 hseed hscr

/-- liveness: completes within `min availNfts |payers| + 1` calls. -/
theorem nftCalls_completes (cs : List (Env × Option Nat)) (s : State) (hop : s.op = .none)
    (hrdy : NftReady s) (hpre : ∀ c ∈ cs, NftPre s c.1) (hscr : ∀ c ∈ cs, c.1.script = [])
    (hw : s.nftWinners.length ≤ s.availNfts)
    (hlen : min s.availNfts s.payers.length + 1 ≤ cs.length) :
    ∃ cs1 cs2 s' ds, cs = cs1 ++ cs2 ∧ nftCalls hash cs1 s = .ok (s', ds) ∧
      s'.flags.additional = true :=
  LP.nftCalls_completes hash cs s hop hrdy hpre hscr hw hlen

/-! ## 3. `distribute` -/

/-- an accepted call that does not complete the step saves `.additional (.guar g')`, returns
    `[1]`, emits nothing, and writes only `whitelist`, `status`, `posToId` and the cursor. -/
theorem dist_interrupted_saves (t t' : Tx) (e : Env) (h : distribute hash t e = .ok t')
    (hnd : t'.s.flags.additional = false) :
    ∃ g', t'.s.op = .additional (.guar g') ∧ t'.o.ret = [1] ∧ t'.o.events = t.o.events ∧
      { t'.s with whitelist := t.s.whitelist, status := t.s.status, posToId := t.s.posToId,
                  op := t.s.op } = t.s :=
  distribute_interrupted_saves hash t t' e h hnd

/-- the endpoint in terms of its two loops: the three ways a call is accepted, with the exact
    storage written in each (`distSaved1` = interrupted in the first loop: stored shorter
    whitelist + counters in the `GuarOp`; `distSaved2` = interrupted in the leftover loop;
    `distDone`). -/
theorem dist_ok_cases (t t' : Tx) (e : Env) (h : distribute hash t e = .ok t') :
    DistPre t.s e ∧ ∃ g x b1, guarOpOf t = some g ∧ t'.c.seeds = (selTxOf t).c.seeds ∧
      ((runWhile (guarBody t.s) (t.s.whitelist.length + 2) t.c.budget (guarX t.s g)
          = .ok (x, b1, .interrupted) ∧ t'.s = distSaved1 t.s g x ∧ t'.o.ret = [1] ∧
          t'.o.draws = t.o.draws ∧ t'.o.events = t.o.events) ∨
       (runWhile (guarBody t.s) (t.s.whitelist.length + 2) t.c.budget (guarX t.s g)
          = .ok (x, b1, .completed) ∧ ∃ z b2,
          ((runWhile (leftCoreBody hash t.s.variant.isV2 t.s.nrWinning t.s.lastTicketId)
              (leftFuel t.s) b1 (leftZ (guarS1 t.s x) (guarG1 g x) t.dctx)
              = .ok (z, b2, .interrupted) ∧ t'.s = distSaved2 t.s x z ∧ t'.o.ret = [1] ∧
              t'.o.draws = z.d.log ∧ t'.o.events = t.o.events) ∨
           (runWhile (leftCoreBody hash t.s.variant.isV2 t.s.nrWinning t.s.lastTicketId)
              (leftFuel t.s) b1 (leftZ (guarS1 t.s x) (guarG1 g x) t.dctx)
              = .ok (z, b2, .completed) ∧ t'.s = distDone t.s x z ∧ t'.o.ret = [0] ∧
              t'.o.draws = z.d.log)))) :=
  distribute_ok_cases hash t t' e h

/-- on resume, when the first loop had already completed (stored whitelist empty) it stops at
    once and touches nothing. -/
theorem dist_first_loop_skipped (s : State) (x : GSt) (fuel : Nat) (b : Option Nat)
    (h : x.usersLeft = 0) : runWhile (guarBody s) (fuel + 1) b x = .ok (x, b, .completed) :=
  guarRun_nil s x fuel b h

/-- when the first loop completes, the stored whitelist is empty. -/
theorem dist_first_loop_done_nil (s : State) (fuel : Nat) (b b' : Option Nat) (g : GuarOp)
    (x' : GSt) (h : runWhile (guarBody s) fuel b (guarX s g) = .ok (x', b', .completed)) :
    x'.usersLeft = 0 ∧ x'.whitelist = [] :=
  guarRun_completed_nil s fuel b b' (guarX s g) x' h rfl

theorem dist_seeds (t t' : Tx) (e : Env) (h : distribute hash t e = .ok t') :
    t'.c.seeds = (match t.s.op with | .none => t.c.seeds.tail | _ => t.c.seeds) :=
  distribute_seeds hash t t' e h

/-- seeds of later calls are ignored. -/
theorem dist_resumed_env_irrelevant (s : State) (g : GuarOp)
    (hop : s.op = .additional (.guar g)) (e e' : Env) (b : Option Nat)
    (hscr : e.script = e'.script) (hp : DistPre s e) (hp' : DistPre s e') :
    (distribute hash (callTx s e b) e).map (fun t => (t.s, t.o.ret, t.o.draws)) =
    (distribute hash (callTx s e' b) e').map (fun t => (t.s, t.o.ret, t.o.draws)) :=
  distribute_resumed_env_irrelevant hash s g hop e e' b hscr hp hp'

/-- loop level: a completing schedule = ONE unbudgeted run of the first loop (`guarBody`, with
    the whitelist part of the loop state) followed by ONE unbudgeted run of the leftover loop
    from the state the first left. -/
theorem distCalls_run (rest : List (Env × Option Nat)) (e0 : Env) (b0 : Option Nat)
    (s s' : State) (ds : List Nat) (g : GuarOp)
    (hg : guarOpOf (callTx s e0 b0) = some g) (hscr0 : e0.script = [])
    (hrest : ∀ c ∈ rest, c.1.script = [])
    (hc : distCalls hash ((e0, b0) :: rest) s = .ok (s', ds))
    (hsel : s'.flags.additional = true) :
    ∃ xf zf f1 f2,
      runWhile (guarBody s) f1 none (guarX s g) = .ok (xf, none, .completed) ∧
      runWhile (leftCoreBody hash s.variant.isV2 s.nrWinning s.lastTicketId) f2 none
        (leftZ (guarS1 s xf) (guarG1 g xf) ⟨[], []⟩) = .ok (zf, none, .completed) ∧
      s' = distDone s xf zf ∧ zf.d.log = ds :=
  LP.distCalls_run hash rest e0 b0 s s' ds g hg hscr0 hrest hc hsel

/-- chunked = single (whole storage, draws). -/
theorem distCalls_eq_single (e0 : Env) (b0 : Option Nat) (rest : List (Env × Option Nat))
    (s s' : State) (ds : List Nat) (e1 : Env) (t1 : Tx)
    (hscr0 : e0.script = []) (hrest : ∀ c ∈ rest, c.1.script = []) (hscr1 : e1.script = [])
    (hc : distCalls hash ((e0, b0) :: rest) s = .ok (s', ds))
    (hsel : s'.flags.additional = true)
    (hsame : guarOpOf (callTx s e1 none) = guarOpOf (callTx s e0 b0))
    (h1 : distribute hash (callTx s e1 none) e1 = .ok t1) :
    s' = t1.s ∧ ds = t1.o.draws :=
  LP.distCalls_eq_single hash e0 b0 rest s s' ds e1 t1 hscr0 hrest hscr1 hc hsel hsame h1

/-- `hsame` holds when the single call carries the first call's first seed -/
theorem guarOpOf_same (s : State) (e0 e1 : Env) (b0 : Option Nat)
    (hseed : s.op = .none → firstRng e1.seeds = firstRng e0.seeds) :
    guarOpOf (callTx s e1 none) = guarOpOf (callTx s e0 b0) := by
  unfold guarOpOf
  rcases hop : s.op with _ | _ | _ | (g | r)
  · simp only [callTx, hop, Tx.freshRng_fst, hseed hop]
  all_goals simp only [callTx, hop]

/-- liveness of the first loop: every accepted call empties or strictly shortens the stored
    whitelist, and the loop itself never fails / never exhausts its fuel. -/
theorem dist_whitelist_progress (t t' : Tx) (e : Env) (h : distribute hash t e = .ok t') :
    t'.s.whitelist = [] ∨ t'.s.whitelist.length < t.s.whitelist.length :=
  distribute_whitelist_progress hash t t' e h

theorem dist_first_loop_completes (cs : List (Env × Option Nat)) (s s' : State) (ds : List Nat)
    (h : distCalls hash cs s = .ok (s', ds)) (hlen : s.whitelist.length + 1 ≤ cs.length) :
    s'.whitelist = [] := by
  rcases distCalls_first_loop_completes hash cs s s' ds h with h1 | ⟨_, h1⟩
  · omega
  · exact h1

theorem dist_first_loop_total (s : State) (g : GuarOp) (b : Option Nat) :
    ∃ x b' st, runWhile (guarBody s) (s.whitelist.length + 2) b (guarX s g) = .ok (x, b', st) ∧
      st ≠ .outOfFuel :=
  guarRun_total s g b

/-! ## 4. `secondary` -/

/-- seed accounting: one seed when the call starts the operation, one more — the NFT
    generator — exactly in the call in which the guaranteed sub-step completes, none after. -/
theorem secondary_seeds (t t' : Tx) (e : Env) (h : secondary hash t e = .ok t') :
    match t.s.op with
    | .none =>
      (t'.s.op.isGuar = true ∧ t'.c.seeds = t.c.seeds.tail) ∨
      (t'.s.op.isGuar = false ∧ t'.c.seeds = t.c.seeds.tail.tail)
    | .additional (.guar _) =>
      (t'.s.op.isGuar = true ∧ t'.c.seeds = t.c.seeds) ∨
      (t'.s.op.isGuar = false ∧ t'.c.seeds = t.c.seeds.tail)
    | .additional (.nft _) => t'.s.op.isGuar = false ∧ t'.c.seeds = t.c.seeds
    | _ => False :=
  LP.secondary_seeds hash t t' e h

theorem secondary_nft_phase_no_seed (t t' : Tx) (e : Env) (r : Rng)
    (hop : t.s.op = .additional (.nft r)) (h : secondary hash t e = .ok t') :
    t'.c.seeds = t.c.seeds ∧ t'.s.op.isGuar = false :=
  LP.secondary_nft_phase_no_seed hash t t' e r hop h

theorem secondary_guar_phase_no_seed (t t' : Tx) (e : Env) (g : GuarOp)
    (hop : t.s.op = .additional (.guar g)) (h : secondary hash t e = .ok t')
    (hstill : t'.s.op.isGuar = true) : t'.c.seeds = t.c.seeds :=
  LP.secondary_guar_phase_no_seed hash t t' e g hop h hstill

/-- the NFT generator is the fresh one made in the call in which the guaranteed sub-step
    completes, from the first seed that call has not used yet. -/
theorem secondary_nft_rng (t : Tx) (e : Env) (g g1 : GuarOp) (t1 : Tx) (hp : NftPre t.s e)
    (hg : guarOpOf t = some g)
    (hsub : guaranteedSubstep hash (selTxOf t) g = .ok (t1, g1, .completed)) :
    secondary hash t e =
      (nftSubstep hash (t1.setS (creditAdditional t1.s g1.additional)).freshRng.2
        (firstRng (selTxOf t).c.seeds) >>= secNftFinish) :=
  LP.secondary_nft_rng hash t e g g1 t1 hp hg hsub

/-! ## 5. frame between the calls of an interrupted operation -/

/-- while `op ≠ .none`, a transaction accepted in the winner-selection stage either is the
    endpoint that resumes exactly the saved operation, or leaves `op`, `status`, `posToId`,
    `whitelist`, `payers`, `nftWinners`, `range`, `batch`, `confirmed`, `lastTicketId`,
    `nrWinning` unchanged. -/
theorem cursor_frame {s s' : State} {e : Env} {c : Call} {o : Out}
    (h : step hash s e c = .ok (s', o)) (hop : s.op ≠ .none)
    (hst : s.stage e = .winnerSelection) :
    c.resumes s.op = true ∨ s'.cursor = s.cursor :=
  LP.cursor_frame h hop hst

/-- a non-resuming accepted transaction leaves the completion flags alone as well (a
    mismatching selection endpoint is rejected) -/
theorem flags_frame_saved {s s' : State} {e : Env} {c : Call} {o : Out}
    (h : step hash s e c = .ok (s', o)) (hop : s.op ≠ .none) (hres : c.resumes s.op = false) :
    s'.flags = s.flags :=
  LP.flags_frame_saved h hop hres

/-- the frame along a whole history (`run`: rejected transactions leave no trace): any sequence
    of transactions — any callers, any rounds from the selection round on — none of which is
    the endpoint resuming the saved operation leaves the cursor, everything the loops work on
    and the completion flags untouched. -/
theorem cursor_frame_run (txs : List (Env × Call)) (s : State) (hop : s.op ≠ .none)
    (hfl : (s.flags.selected && s.flags.additional) = false) (hconf : s.cfg.conf ≤ s.cfg.sel)
    (hround : ∀ p ∈ txs, s.cfg.sel ≤ p.1.round) (hres : ∀ p ∈ txs, p.2.resumes s.op = false) :
    (run hash s txs).cursor = s.cursor ∧ (run hash s txs).flags = s.flags :=
  LP.cursor_frame_run hash txs s hop hfl hconf hround hres

/-- while an operation is saved the contract IS in the winner-selection stage as soon as the
    selection round is reached: a saved cursor means the two completion flags are not both set
    (filter / select cursors: `selected = false`; additional-step cursors: `additional = false`),
    and then `stageOf` cannot leave the stage. -/
theorem stage_of_incomplete (s : State) (e : Env) (hconf : s.cfg.conf ≤ s.cfg.sel)
    (hsel : s.cfg.sel ≤ e.round) (hfl : (s.flags.selected && s.flags.additional) = false) :
    s.stage e = .winnerSelection := by
  unfold State.stage stageOf
  rw [if_neg (by omega), if_neg (by omega), hfl]
  rfl

/-! ### the bridge between the model's loop bodies and the cores used above -/

/-- a run of the model's `selectBody` on a loop state whose transaction record is `t0` with
    draw context `y.d` is the run of the core body, lifted back -/
theorem selectBody_run_core (nr last fuel : Nat) (b : Option Nat) (t0 : Tx) (y : SelCore) :
    runWhile (selectBody hash nr last) fuel b (SelCore.lift t0 y) =
      (runWhile (selCoreBody hash nr last) fuel b y).map
        (fun r => (SelCore.lift t0 r.1, r.2.1, r.2.2)) :=
  runWhile_map (SelCore.lift t0) _ _ (selectBody_lift hash nr last t0) fuel b y

theorem nftBody_run_core (total fuel : Nat) (b : Option Nat) (t0 : Tx) (y : NCore) :
    runWhile (nftBody hash total) fuel b (NCore.lift t0 y) =
      (runWhile (nftCoreBody hash total) fuel b y).map
        (fun r => (NCore.lift t0 r.1, r.2.1, r.2.2)) :=
  runWhile_map (NCore.lift t0) _ _ (nftBody_lift hash total t0) fuel b y

theorem leftoverBody_run_core (v2 : Bool) (nrOrig last fuel : Nat) (b : Option Nat) (t0 : Tx)
    (z : LCore) :
    runWhile (leftoverBody hash v2 nrOrig last) fuel b (LCore.lift t0 z) =
      (runWhile (leftCoreBody hash v2 nrOrig last) fuel b z).map
        (fun r => (LCore.lift t0 r.1, r.2.1, r.2.2)) :=
  runWhile_map (LCore.lift t0) _ _ (leftoverBody_lift hash v2 nrOrig last t0) fuel b z

/-- the loop state the endpoint starts from, as the model's `SelSt`: fresh generator from the
    call's first seed and position 1 when `op = .none`, the saved `(rng, pos)` when
    `op = .select rng pos` -/
theorem selStOf_cases (t : Tx) :
    selStOf t =
      match t.s.op with
      | .none => some ⟨t.s.status, t.s.posToId, firstRng t.c.seeds, 1, t.freshRng.2⟩
      | .select r p => some ⟨t.s.status, t.s.posToId, r, p, t⟩
      | _ => none := by
  unfold selStOf selCoreOf selTxOf
  rcases hop : t.s.op with _ | _ | _ | _
  · show some (SelCore.lift t.freshRng.2 ⟨t.s.status, t.s.posToId, t.freshRng.1, 1, t.dctx⟩) = _
    rw [← Tx.freshRng_dctx t, Tx.freshRng_fst]
    rfl
  · rfl
  · rfl
  · rfl

/-! ## concrete instances (the hypotheses are satisfiable) -/

def exHash (l : List Nat) : List Nat := l.map (fun x => (x * 7 + 3) % 256)
def exSeed (k : Nat) : List Nat := (List.range 32).map (fun i => (i * 37 + k) % 256)
def exEnv (caller round : Nat) (seeds : List (List Nat)) : Env :=
  { caller := caller, round := round, seeds := seeds }

/-- filtered, 6 tickets, 3 winners to draw -/
def exSel : State :=
  { variant := .base, owner := 1, lpTok := 7, perTicket := 100, payTok := .egld, price := 10,
    nrWinning := 3, cfg := ⟨10, 20, 30⟩,
    flags := { started := true, filtered := true, additional := true }, support := 1,
    lastTicketId := 6 }

example : SelectPre exSel (exEnv 5 20 [exSeed 1]) := ⟨rfl, rfl, rfl, rfl, rfl⟩
example : SelectPre exSel (exEnv 9 29 []) := ⟨rfl, rfl, rfl, rfl, rfl⟩

def selView (s : State) : List Bool × List Nat × Bool × Bool × Nat :=
  ((List.range 7).map s.status, (List.range 7).map s.posToId, s.flags.selected,
   decide (s.op = .none), s.claimablePayment)

/-- three calls by different callers in different rounds with different seeds, budgets 0, 0,
    unlimited … -/
example :
    (match selectCalls exHash [(exEnv 5 20 [exSeed 1], some 0), (exEnv 6 22 [exSeed 2], some 0),
        (exEnv 7 25 [exSeed 3], none)] exSel with
     | .ok (s, ds) => some (selView s, ds)
     | .error _ => none) =
    (match selectWinners exHash (callTx exSel (exEnv 9 21 [exSeed 1, exSeed 9]) none)
        (exEnv 9 21 [exSeed 1, exSeed 9]) with
     | .ok t => some (selView t.s, t.o.draws)
     | .error _ => none) := by rfl

/-- … and the common value is a completed selection of 3 tickets -/
example :
    (match selectWinners exHash (callTx exSel (exEnv 9 21 [exSeed 1]) none) (exEnv 9 21 [exSeed 1]) with
     | .ok t => some (t.s.flags.selected, t.o.ret, t.o.draws.length,
                      ((List.range 7).map t.s.status).count true)
     | .error _ => none) = some (true, [0], 3, 3) := by rfl

/-- an interrupted call: cursor saved, `[1]` returned -/
example :
    (match selectWinners exHash (callTx exSel (exEnv 5 20 [exSeed 1]) (some 0)) (exEnv 5 20 [exSeed 1]) with
     | .ok t => some (t.o.ret, (match t.s.op with | .select _ p => p | _ => 0), t.s.flags.selected,
                      t.c.seeds.length)
     | .error _ => none) = some ([1], 2, false, 0) := by rfl

/-- NFT draw: 4 fee payers, 2 NFTs -/
def exNft : State :=
  { variant := .nft, owner := 1, lpTok := 7, perTicket := 100, payTok := .egld, price := 10,
    nrWinning := 3, cfg := ⟨10, 20, 30⟩,
    flags := { started := true, filtered := true, selected := true }, support := 1,
    lastTicketId := 6, availNfts := 2, payers := [11, 12, 13, 14], nftCost := ⟨.egld, 0, 5⟩ }

example : NftPre exNft (exEnv 5 20 [exSeed 1]) := ⟨rfl, rfl, rfl⟩
example : NftReady exNft := ⟨by decide, by decide⟩

def nftView (s : State) : List Nat × List Nat × Bool × Bool × Nat :=
  (s.payers, s.nftWinners, s.flags.additional, decide (s.op = .none), s.claimableNft)

example :
    (match nftCalls exHash [(exEnv 5 20 [exSeed 4], some 0), (exEnv 6 22 [exSeed 2], some 0),
        (exEnv 7 25 [], some 3)] exNft with
     | .ok (s, ds) => some (nftView s, ds)
     | .error _ => none) =
    (match selectNft exHash (callTx exNft (exEnv 9 21 [exSeed 4]) none) (exEnv 9 21 [exSeed 4]) with
     | .ok t => some (nftView t.s, t.o.draws)
     | .error _ => none) := by rfl

example :
    (match selectNft exHash (callTx exNft (exEnv 9 21 [exSeed 4]) none) (exEnv 9 21 [exSeed 4]) with
     | .ok t => some (t.s.nftWinners.length, t.s.payers.length, t.s.flags.additional, t.s.claimableNft)
     | .error _ => none) = some (2, 2, true, 10) := by rfl

/-- distribution step (v2): two whitelisted users with one guaranteed ticket each, user 21 holds
    tickets 1-2, user 22 tickets 3-4; ticket 3 already wins -/
def exDist : State :=
  { variant := .guarV2, owner := 1, lpTok := 7, perTicket := 100, payTok := .egld, price := 10,
    nrWinning := 2, cfg := ⟨10, 20, 30⟩,
    flags := { started := true, filtered := true, selected := true }, support := 1,
    lastTicketId := 6, whitelist := [21, 22], totalGuaranteed := 3,
    uts := fun a => if a = 21 then some { a := 2, infos := [(1, 1), (1, 5)] }
                    else if a = 22 then some { a := 2, infos := [(1, 1)] } else none,
    confirmed := fun a => if a = 21 then 2 else if a = 22 then 2 else 0,
    range := fun a => if a = 21 then some ⟨1, 2⟩ else if a = 22 then some ⟨3, 4⟩ else none,
    status := fun i => i = 3 || i = 5 }

example : DistPre exDist (exEnv 5 20 [exSeed 1]) := ⟨fun _ => rfl, rfl, fun _ => rfl, rfl, rfl⟩

def distView (s : State) : List Nat × List Bool × List Nat × Bool × Bool × Nat × Nat :=
  (s.whitelist, (List.range 8).map s.status, (List.range 8).map s.posToId, s.flags.additional,
   decide (s.op = .none), s.nrWinning, s.claimablePayment)

/-- four calls (budgets 0, 0, 0, unlimited; different callers, rounds, seeds): two interrupted
    in the first loop, one in the leftover loop … -/
example :
    (match distCalls exHash [(exEnv 5 20 [exSeed 1], some 0), (exEnv 6 22 [exSeed 2], some 0),
        (exEnv 7 23 [exSeed 3], some 0), (exEnv 8 25 [], none)] exDist with
     | .ok (s, ds) => some (distView s, ds)
     | .error _ => none) =
    some (([], [false, true, false, true, true, true, true, false], [0, 0, 0, 0, 5, 4, 6, 0],
           true, true, 5, 30), [19286896, 2512051972, 693007256]) := by rfl

/-- … give the storage and the draws of the single call with the first call's seed -/
example :
    (match distribute exHash (callTx exDist (exEnv 9 21 [exSeed 1]) none) (exEnv 9 21 [exSeed 1]) with
     | .ok t => some (distView t.s, t.o.draws, t.o.ret)
     | .error _ => none) =
    some (([], [false, true, false, true, true, true, true, false], [0, 0, 0, 0, 5, 4, 6, 0],
           true, true, 5, 30), [19286896, 2512051972, 693007256], [0]) := by rfl

/-- after the first three calls the whitelist is empty and a `.guar` cursor is saved -/
example :
    (match distCalls exHash [(exEnv 5 20 [exSeed 1], some 0), (exEnv 6 22 [exSeed 2], some 0),
        (exEnv 7 23 [exSeed 3], some 0)] exDist with
     | .ok (s, _) => some (s.whitelist, s.op.isGuar, s.flags.additional)
     | .error _ => none) = some ([], true, false) := by rfl

/-- `secondary` (crate 8): guaranteed step then NFT draw -/
def exSec : State :=
  { variant := .nftGuar, owner := 1, lpTok := 7, perTicket := 100, payTok := .egld, price := 10,
    nrWinning := 2, cfg := ⟨10, 20, 30⟩,
    flags := { started := true, filtered := true, selected := true }, support := 1,
    lastTicketId := 6, whitelist := [21, 22], totalGuaranteed := 2, minConfirmed := 1,
    uts := fun a => if a = 21 then some { a := 2, b := 0, c := 1, d := 0 }
                    else if a = 22 then some { a := 2, b := 0, c := 1, d := 0 } else none,
    confirmed := fun a => if a = 21 then 2 else 0,
    range := fun a => if a = 21 then some ⟨1, 2⟩ else if a = 22 then some ⟨3, 4⟩ else none,
    status := fun i => i = 3 || i = 5,
    availNfts := 1, payers := [21, 23], nftCost := ⟨.egld, 0, 5⟩ }

/-- one unlimited call offered three seeds: one for the guaranteed cursor, one for the NFT
    generator (the guaranteed sub-step completes in this call), the third stays unused -/
example :
    (match secondary exHash (callTx exSec (exEnv 9 21 [exSeed 1, exSeed 2, exSeed 3]) none)
        (exEnv 9 21 []) with
     | .ok t => some (t.s.whitelist, t.s.flags.additional, t.s.nftWinners.length, t.c.seeds.length,
                      t.o.ret)
     | .error _ => none) = some ([], true, 1, 1, [0]) := by rfl

/-- an interrupted first call takes only the guaranteed cursor's seed -/
example :
    (match secondary exHash (callTx exSec (exEnv 9 21 [exSeed 1, exSeed 2, exSeed 3]) (some 0))
        (exEnv 9 21 []) with
     | .ok t => some (t.s.whitelist, t.s.op.isGuar, t.c.seeds.length, t.o.ret)
     | .error _ => none) = some ([22], true, 2, [1]) := by rfl

/-- the frame: a saved `.select` cursor, `pause` is accepted and leaves the cursor alone;
    `filter` is not the matching endpoint and is rejected -/
def exSaved : State := { exSel with op := .select ⟨exSeed 1, 4⟩ 2 }

example : exSaved.op ≠ .none := by decide
example : exSaved.stage (exEnv 1 20 []) = .winnerSelection := rfl
example : (match step exHash exSaved (exEnv 1 20 []) .pause with
           | .ok (s', _) => some (decide (s'.op = exSaved.op), s'.paused)
           | .error _ => none) = some (true, true) := by rfl
example : (match step exHash exSaved (exEnv 1 20 []) .filter with
           | .ok _ => true
           | .error _ => false) = false := by rfl
/-- hypotheses of `cursor_frame_run` on the instance: pause, a foreign filter attempt, a
    setter, unpause — the cursor survives -/
example : (exSaved.flags.selected && exSaved.flags.additional) = false := rfl
example : ∀ p ∈ [(exEnv 1 20 [], Call.pause), (exEnv 8 21 [], Call.filter),
      (exEnv 1 22 [], Call.setSupport 4), (exEnv 1 23 [], Call.unpause)],
    Call.resumes p.2 exSaved.op = false := by decide
example : (match (run exHash exSaved [(exEnv 1 20 [], Call.pause), (exEnv 8 21 [], Call.filter),
      (exEnv 1 22 [], Call.setSupport 4), (exEnv 1 23 [], Call.unpause)]) with
    | s' => (decide (s'.op = exSaved.op), s'.paused, s'.support)) = (true, false, 4) := by rfl
example : Call.resumes .select exSaved.op = true := rfl

end LP.Props.C04select

#print axioms LP.Props.C04select.select_interrupted
#print axioms LP.Props.C04select.select_eq
#print axioms LP.Props.C04select.select_seeds
#print axioms LP.Props.C04select.select_resumed_env_irrelevant
#print axioms LP.Props.C04select.selectCalls_eq_single
#print axioms LP.Props.C04select.selectCalls_eq_single_fresh
#print axioms LP.Props.C04select.select_single_accepted
#print axioms LP.Props.C04select.selectCalls_deterministic
#print axioms LP.Props.C04select.selectCalls_completes
#print axioms LP.Props.C04select.step_select
#print axioms LP.Props.C04select.nft_interrupted
#print axioms LP.Props.C04select.nft_seeds
#print axioms LP.Props.C04select.nft_resumed_env_irrelevant
#print axioms LP.Props.C04select.nftCalls_eq_single
#print axioms LP.Props.C04select.nftCoreAt_same
#print axioms LP.Props.C04select.nftCalls_completes
#print axioms LP.Props.C04select.dist_interrupted_saves
#print axioms LP.Props.C04select.dist_ok_cases
#print axioms LP.Props.C04select.dist_first_loop_skipped
#print axioms LP.Props.C04select.dist_first_loop_done_nil
#print axioms LP.Props.C04select.dist_seeds
#print axioms LP.Props.C04select.dist_resumed_env_irrelevant
#print axioms LP.Props.C04select.distCalls_run
#print axioms LP.Props.C04select.distCalls_eq_single
#print axioms LP.Props.C04select.guarOpOf_same
#print axioms LP.Props.C04select.dist_whitelist_progress
#print axioms LP.Props.C04select.dist_first_loop_completes
#print axioms LP.Props.C04select.dist_first_loop_total
#print axioms LP.Props.C04select.secondary_seeds
#print axioms LP.Props.C04select.secondary_nft_phase_no_seed
#print axioms LP.Props.C04select.secondary_guar_phase_no_seed
#print axioms LP.Props.C04select.secondary_nft_rng
#print axioms LP.Props.C04select.cursor_frame
#print axioms LP.Props.C04select.stage_of_incomplete
#print axioms LP.Props.C04select.selectBody_run_core
#print axioms LP.Props.C04select.nftBody_run_core
#print axioms LP.Props.C04select.leftoverBody_run_core
#print axioms LP.Props.C04select.selStOf_cases
#print axioms LP.Props.C04select.flags_frame_saved
#print axioms LP.Props.C04select.cursor_frame_run
#print axioms LP.Props.C04select.select_interrupted_model
