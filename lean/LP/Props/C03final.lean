import LP.Proofs.Leftover2
import LP.Proofs.Distribute
/-
  C03 (final count) / C12 ("one random draw each") — the leftover re-draw loop of the
  distribution step (`leftoverBody`, second loop of `guaranteedSubstep`).

  Notation: `last` = lastTicketId, `nrOrig` = nrWinning when the distribution starts (number of
  lottery winners), `x : LSt` the loop state; `LInv last nrOrig x` (LP/Proofs/Leftover2.lean):
    * positions `nrOrig + offset .. last` hold pairwise distinct ticket ids of `1..last`;
    * every id of `1..last` that is NOT at one of these positions is winning;
    * every winning flag is inside `1..last`;
    * `countTrue status last = nrOrig + additional`;
    * `1 ≤ nrOrig + offset ≤ last + 1`.
-/
namespace LP
open LP.FY

/-! ### 1. the invariant: holds initially, kept by every iteration (both versions) -/

/-- After the base lottery (`R`: `posToId` represents the shuffled array `arr`, exactly
    `arr.take nrOrig` is flagged) and the top-up (arbitrary extra flags inside `1..last`,
    counted by `additional`), the loop starts (offset 1) in a state satisfying the invariant. -/
theorem C03_leftover_inv_init {last nrOrig additional : Nat} {st0 status : Nat → Bool}
    {posToId : Nat → Nat} {arr : List Nat} (hR : R last (nrOrig + 1) st0 posToId arr)
    (hsup : ∀ t, st0 t = true → status t = true)
    (hin : ∀ t, status t = true → 1 ≤ t ∧ t ≤ last)
    (hc : countTrue status last = nrOrig + additional) (rng : Rng) (leftover : Nat) (tx : Tx) :
    LInv last nrOrig ⟨status, posToId, rng, leftover, 1, additional, tx⟩ :=
  LInv_init hR hsup hin hc rng leftover tx

/-- One iteration, any version, any draw: it never fails, keeps the invariant, consumes a raw
    draw exactly when it is not a stop/skip, and an `ok` iteration marks exactly one
    previously non-winning id of `1..last` (so the count grows by one together with
    `additional`), while stop/skip/redraw iterations leave the flags alone. -/
theorem C03_leftover_step (hash : List Nat → List Nat) (v2 : Bool) (nrOrig last : Nat) (x : LSt)
    (h : LInv last nrOrig x) :
    ∃ x', leftoverBody hash v2 nrOrig last x =
        .ok (x', decide (lKind hash nrOrig last x ≠ .stop)) ∧
      LInv last nrOrig x' ∧
      countTrue x'.status last = countTrue x.status last + (lKind hash nrOrig last x).hands ∧
      x'.tx.o.draws.length = x.tx.o.draws.length + (lKind hash nrOrig last x).draws ∧
      x'.additional = x.additional + (lKind hash nrOrig last x).hands ∧
      (lKind hash nrOrig last x ≠ .ok → x'.status = x.status) ∧
      (lKind hash nrOrig last x = .ok →
        x'.leftover + 1 = x.leftover ∧ x'.offset = x.offset + 1 ∧
        x'.tx.o.draws = x.tx.o.draws ++ [(x.tx.draw hash x.rng).1] ∧
        ∃ t, 1 ≤ t ∧ t ≤ last ∧ x.status t = false ∧ x'.status = upd x.status t true) ∧
      (lKind hash nrOrig last x ≠ .stop →
        nrOrig + x.offset ≤ last ∧
        ((v2 = true ∨ lKind hash nrOrig last x ≠ .redraw) → x'.offset = x.offset + 1)) := by
  obtain ⟨x', hb, hinv, hd, ha, h1, h2, h3, h4⟩ := leftoverBody_spec hash v2 nrOrig last x h
  refine ⟨x', hb, hinv, by rw [hinv.count, h.count, ha]; omega, hd, ha, ?_, ?_, ?_⟩
  · intro hk
    cases hkind : lKind hash nrOrig last x with
    | stop => rw [(h1 hkind).2]
    | skip => rw [(h2 hkind).2.2.2]
    | redraw => exact (h3 hkind).2.2.2.1
    | ok => exact absurd hkind hk
  · intro hk
    obtain ⟨_, _, a, b, c, d⟩ := h4 hk
    exact ⟨a, b, c, d⟩
  · intro hk
    obtain ⟨y, hy, _, _, _, hc, _, _, _, _, ho, _⟩ := leftoverBody_cont hash v2 nrOrig last x h hk
    rw [decide_eq_true hk, hy] at hb
    injection hb with hb
    simp only [Prod.mk.injEq, and_true] at hb
    subst hb
    exact ⟨hc, ho⟩

/-! ### 2./3. v2: termination within the model's fuel, and the final count -/

/-- The v2 loop "cannot be left stuck": from any state satisfying the invariant, for any draws
    (scripted or from the rng), the run with the fuel `last + 2` used by `guaranteedSubstep`
    completes — no error, no fuel exhaustion — and at completion
    `additional' = min (additional + leftover) (last - nrOrig)`: every reserved ticket is handed
    to a not-yet-winning ticket unless all tickets already win. -/
theorem C03_leftover_v2_terminates (hash : List Nat → List Nat) (nrOrig last : Nat) (x : LSt)
    (h : LInv last nrOrig x) :
    ∃ x', runWhile (leftoverBody hash true nrOrig last) (last + 2) none x
        = .ok (x', none, .completed) ∧
      LInv last nrOrig x' ∧ x'.leftover = 0 ∧
      x'.additional = min (x.additional + x.leftover) (last - nrOrig) ∧
      countTrue x'.status last = nrOrig + x'.additional ∧
      (∀ t, x.status t = true → x'.status t = true) ∧
      (∀ t, x'.status t = true → 1 ≤ t ∧ t ≤ last) :=
  leftover_v2_terminates hash nrOrig last x h

/-- sharper iteration bound: `last + 1 - (nrOrig + offset)` continuing iterations at most,
    i.e. `last - nrOrig + 1` iterations (including the final stop) from `offset = 1` -/
theorem C03_leftover_v2_iterations (hash : List Nat → List Nat) (nrOrig last n : Nat) (x : LSt)
    (h : LInv last nrOrig x) (hn : last + 1 - (nrOrig + x.offset) < n) :
    ∃ x', runWhile (leftoverBody hash true nrOrig last) n none x = .ok (x', none, .completed) := by
  obtain ⟨x', hr, _⟩ := leftover_v2_run hash nrOrig last n x h hn
  exact ⟨x', hr⟩

/-- **Headline.**  With `leftover + additional = totalGuaranteed` when the second loop starts
    (`C11_guarLoop_total`) and `nrOrig + totalGuaranteed = T` (reserve conservation, C12),
    the number of winning tickets when the v2 distribution completes is `min T last`. -/
theorem final_winners_v2 (hash : List Nat → List Nat) (nrOrig last totalG T : Nat) (x : LSt)
    (h : LInv last nrOrig x) (hg : x.leftover + x.additional = totalG)
    (hT : nrOrig + totalG = T) :
    ∃ x', runWhile (leftoverBody hash true nrOrig last) (last + 2) none x
        = .ok (x', none, .completed) ∧
      countTrue x'.status last = min (nrOrig + totalG) last ∧
      countTrue x'.status last = min T last ∧
      x'.additional = min totalG (last - nrOrig) ∧
      (∀ t, x'.status t = true → 1 ≤ t ∧ t ≤ last) := by
  obtain ⟨x', hr, _, _, ha, hc, _, hin⟩ := leftover_v2_terminates hash nrOrig last x h
  have hle := h.le_last
  have e : countTrue x'.status last = min (nrOrig + totalG) last := by
    rw [hc, ha]; omega
  exact ⟨x', hr, e, by rw [e, hT], by rw [ha]; congr 1; omega, hin⟩

/-- the same from the post-lottery / post-top-up state -/
theorem final_winners_v2_from_lottery (hash : List Nat → List Nat)
    {last nrOrig additional leftover totalG : Nat} {st0 status : Nat → Bool}
    {posToId : Nat → Nat} {arr : List Nat} (hR : R last (nrOrig + 1) st0 posToId arr)
    (hsup : ∀ t, st0 t = true → status t = true)
    (hin : ∀ t, status t = true → 1 ≤ t ∧ t ≤ last)
    (hc : countTrue status last = nrOrig + additional)
    (hg : leftover + additional = totalG) (rng : Rng) (tx : Tx) :
    ∃ x', runWhile (leftoverBody hash true nrOrig last) (last + 2) none
        ⟨status, posToId, rng, leftover, 1, additional, tx⟩ = .ok (x', none, .completed) ∧
      countTrue x'.status last = min (nrOrig + totalG) last ∧
      (∀ t, status t = true → x'.status t = true) := by
  have h := LInv_init hR hsup hin hc rng leftover tx
  obtain ⟨x', hr, _, _, ha, hc', hm, _⟩ := leftover_v2_terminates hash nrOrig last _ h
  have hle := h.le_last
  refine ⟨x', hr, ?_, hm⟩
  rw [hc', ha]
  show nrOrig + min (additional + leftover) (last - nrOrig) = _
  have hle' : nrOrig + additional ≤ last := hle
  omega

/-! ### 4. draws: one raw draw per non-skip iteration, one per ticket handed out -/

/-- Along the completed v2 run: the draw log grows by `D` = number of non-stop, non-skip
    iterations (`redraw` or `ok`), `additional` by `H` = number of `ok` iterations,
    `offset` by `S + D` (`S` = skips); `D = H + (#redraw)`, so `H ≤ D`, and
    `D ≤ last + 1 - (nrOrig + offset)` (at most one draw per unconsumed position). -/
theorem C12_leftover_v2_draws (hash : List Nat → List Nat) (nrOrig last : Nat) (x : LSt)
    (h : LInv last nrOrig x) :
    ∃ x', runWhile (leftoverBody hash true nrOrig last) (last + 2) none x
        = .ok (x', none, .completed) ∧
      x'.tx.o.draws.length = x.tx.o.draws.length
        + lCount hash true nrOrig last LKind.draws (last + 2) x ∧
      x'.additional = x.additional + lCount hash true nrOrig last LKind.hands (last + 2) x ∧
      x'.offset = x.offset + lCount hash true nrOrig last LKind.skips (last + 2) x
        + lCount hash true nrOrig last LKind.draws (last + 2) x ∧
      lCount hash true nrOrig last LKind.draws (last + 2) x =
        lCount hash true nrOrig last LKind.hands (last + 2) x
        + lCount hash true nrOrig last LKind.redraws (last + 2) x ∧
      lCount hash true nrOrig last LKind.draws (last + 2) x ≤ last + 1 - (nrOrig + x.offset) := by
  obtain ⟨x', hr, hinv, _, _, _, hd, ha, ho⟩ :=
    leftover_v2_run hash nrOrig last (last + 2) x h (by omega)
  refine ⟨x', hr, hd, ha, ho, ?_, ?_⟩
  · rw [← lCount_add]
    congr 1
    funext k
    exact k.draws_eq
  · have := hinv.pinv.bound
    omega

/-! ### 6. interrupted and chunked execution (v2) -/

/-- whatever the budget of the call, the second loop of `guaranteedSubstep` never reports
    `outOfFuel` and never fails: it completes with THE final state, or is interrupted in a state
    satisfying the invariant from which the unbudgeted run reaches the same final state -/
theorem C03_leftover_v2_call (hash : List Nat → List Nat) (nrOrig last : Nat) (x : LSt)
    (h : LInv last nrOrig x) (b : Option Nat) :
    ∃ xf, runWhile (leftoverBody hash true nrOrig last) (last + 2) none x
        = .ok (xf, none, .completed) ∧
      ((∃ b', runWhile (leftoverBody hash true nrOrig last) (last + 2) b x
          = .ok (xf, b', .completed)) ∨
       (∃ x1 b', runWhile (leftoverBody hash true nrOrig last) (last + 2) b x
          = .ok (x1, b', .interrupted) ∧ LInv last nrOrig x1 ∧
          runWhile (leftoverBody hash true nrOrig last) (last + 2) none x1
            = .ok (xf, none, .completed))) :=
  leftover_v2_call hash nrOrig last x h b

theorem C03_leftover_v2_chunked (hash : List Nat → List Nat) (nrOrig last : Nat) (x : LSt)
    (h : LInv last nrOrig x) :
    ∃ xf, runWhile (leftoverBody hash true nrOrig last) (last + 2) none x
        = .ok (xf, none, .completed) ∧
      (∀ ks, last + 2 ≤ budgetIters ks →
        runCalls (leftoverBody hash true nrOrig last) (last + 2) ks x = .ok (xf, true)) ∧
      (∀ ks, last + 2 ≤ ks.length →
        runCalls (leftoverBody hash true nrOrig last) (last + 2) ks x = .ok (xf, true)) ∧
      (∀ ks, runCalls (leftoverBody hash true nrOrig last) (last + 2) ks x = .ok (xf, true) ∨
        ∃ s', runCalls (leftoverBody hash true nrOrig last) (last + 2) ks x = .ok (s', false)) ∧
      (∀ fuel ks sf, runCalls (leftoverBody hash true nrOrig last) fuel ks x = .ok (sf, true) →
        sf = xf) :=
  leftover_v2_chunked hash nrOrig last x h

/-! ### 5. v1 (`v2 = false`): safety as above (`C03_leftover_step` covers both versions);
    termination only PARTIAL -/

/-
  NOT A THEOREM (v1):  ∀ x, LInv last nrOrig x → ∃ n x', runWhile (leftoverBody hash false nrOrig last)
      n none x = .ok (x', none, .completed)   with n independent of the draws.
  It is false for adversarial draw streams, see `C03_leftover_v1_may_spin`.  What holds:
-/

/-- PARTIAL termination (stated for both versions): the run completes as soon as the fuel
    exceeds the unconsumed positions plus the number of "NewlySelectedAlreadyWinning" outcomes
    met; every other continuing iteration makes progress.  Final facts as for v2. -/
theorem C03_leftover_run_partial (hash : List Nat → List Nat) (v2 : Bool) (nrOrig last n : Nat)
    (x : LSt) (h : LInv last nrOrig x)
    (hn : last + 1 - (nrOrig + x.offset) + lCount hash v2 nrOrig last LKind.redraws n x < n) :
    ∃ x', runWhile (leftoverBody hash v2 nrOrig last) n none x = .ok (x', none, .completed) ∧
      LInv last nrOrig x' ∧ x'.leftover = 0 ∧
      x'.additional = min (x.additional + x.leftover) (last - nrOrig) ∧
      countTrue x'.status last = nrOrig + x'.additional ∧
      (∀ t, x.status t = true → x'.status t = true) ∧
      x'.tx.o.draws.length = x.tx.o.draws.length + lCount hash v2 nrOrig last LKind.draws n x ∧
      x'.additional = x.additional + lCount hash v2 nrOrig last LKind.hands n x := by
  obtain ⟨x', hr, hinv, hl, ha, hm, hd, hh⟩ := leftover_run_partial hash v2 nrOrig last n x h hn
  exact ⟨x', hr, hinv, hl, ha, hinv.count, hm, hd, hh⟩

/-- no dead state: some raw value (`0`) lets the next iteration stop or make progress -/
theorem C03_leftover_no_dead_state_partial (hash : List Nat → List Nat) (v2 : Bool)
    (nrOrig last : Nat) (x : LSt) (h : LInv last nrOrig x) :
    ∃ raw, ∀ rest, ∃ x' b,
      leftoverBody hash v2 nrOrig last (x.withScript (raw :: rest)) = .ok (x', b) ∧
      LInv last nrOrig x' ∧
      ((b = false ∧ (lFull nrOrig last x ∨ x.leftover = 0)) ∨
       (b = true ∧ x'.offset = x.offset + 1)) :=
  leftover_no_dead_state hash v2 nrOrig last x h

/-- unconditional v1 termination is false: for every fuel there are draws exhausting it -/
theorem C03_leftover_v1_may_spin (hash : List Nat → List Nat) (n : Nat) :
    LInv 3 1 (spinState n) ∧
    ∃ x', runWhile (leftoverBody hash false 1 3) n none (spinState n)
      = .ok (x', none, .outOfFuel) :=
  leftover_v1_may_spin hash n

/-! ### 7. both loops together: `guaranteedSubstep` and the endpoint (v2) -/

/-- the hypothesis `R` of the theorems below is what a successful uninterrupted `selectWinners`
    call leaves behind (the Fisher–Yates refinement of C03base/C05) -/
theorem C03_selectWinners_R (hash : List Nat → List Nat) (t : Tx) (e : Env) (t' : Tx)
    (hop : t.s.op = .none) (hb : t.c.budget = none) (hscr : t.c.script = [])
    (hst : t.s.status = fun _ => false) (hpi : t.s.posToId = fun _ => 0)
    (hle : t.s.nrWinning ≤ t.s.lastTicketId)
    (hok : selectWinners hash t e = .ok t') :
    R t'.s.lastTicketId (t'.s.nrWinning + 1) t'.s.status t'.s.posToId
      (tbRun t.s.lastTicketId (draws hash t.freshRng.1 t.s.nrWinning)) :=
  selectWinners_R hash t e t' hop hb hscr hst hpi hle hok

/-- **End to end (v2).**  Right after the base lottery (`R`; `nrWinning ≤ lastTicketId`), with a
    fresh operation, all whitelisted users' ranges inside `1..lastTicketId`, the reserve
    invariant `GuarInv` (C12) and no gas interruption, `guaranteedSubstep` completes and leaves
    exactly `min (nrWinning + totalGuaranteed) lastTicketId` winning tickets. -/
theorem C03_guaranteedSubstep_v2_final (hash : List Nat → List Nat) (t : Tx) (rng : Rng)
    (arr : List Nat) (hv : t.s.variant.isV2 = true) (hb : t.c.budget = none)
    (hle : t.s.nrWinning ≤ t.s.lastTicketId)
    (hR : R t.s.lastTicketId (t.s.nrWinning + 1) t.s.status t.s.posToId arr)
    (hranges : ∀ u ∈ t.s.whitelist, ∀ r, t.s.range u = some r → RangeIn t.s.lastTicketId r)
    (hG : GuarInv t.s.variant.isV2 t.s) :
    ∃ t' g', guaranteedSubstep hash t { rng := rng } = .ok (t', g', .completed) ∧
      countTrue t'.s.status t.s.lastTicketId =
        min (t.s.nrWinning + t.s.totalGuaranteed) t.s.lastTicketId ∧
      g'.additional = min t.s.totalGuaranteed (t.s.lastTicketId - t.s.nrWinning) ∧
      g'.leftover = 0 ∧
      FlagsIn t.s.lastTicketId t'.s.status ∧
      (∀ id, t.s.status id = true → t'.s.status id = true) ∧
      t'.s = { t.s with whitelist := t'.s.whitelist, status := t'.s.status,
                        posToId := t'.s.posToId, op := .none } :=
  guaranteedSubstep_v2_final hash t rng arr hv hb hle hR hranges hG

/-- the endpoint: stored `nrWinning` = number of winning flags = `min T lastTicketId` -/
theorem C03_distribute_v2_final (hash : List Nat → List Nat) (t t' : Tx) (e : Env)
    (arr : List Nat)
    (hv : t.s.variant.isV2 = true) (hb : t.c.budget = none) (hop : t.s.op = .none)
    (hle : t.s.nrWinning ≤ t.s.lastTicketId)
    (hR : R t.s.lastTicketId (t.s.nrWinning + 1) t.s.status t.s.posToId arr)
    (hranges : ∀ u ∈ t.s.whitelist, ∀ r, t.s.range u = some r → RangeIn t.s.lastTicketId r)
    (hG : GuarInv t.s.variant.isV2 t.s)
    (h : distribute hash t e = .ok t') :
    t'.s.nrWinning = min (t.s.nrWinning + t.s.totalGuaranteed) t.s.lastTicketId ∧
    countTrue t'.s.status t.s.lastTicketId = t'.s.nrWinning ∧
    FlagsIn t.s.lastTicketId t'.s.status ∧
    (∀ id, t.s.status id = true → t'.s.status id = true) ∧
    t'.s.flags.additional = true ∧ t'.s.op = .none ∧ t'.o.ret = [0] :=
  distribute_v2_final hash t t' e arr hv hb hop hle hR hranges hG h

/-- the endpoint is not rejected when its guards hold -/
theorem C03_distribute_v2_succeeds (hash : List Nat → List Nat) (t : Tx) (e : Env)
    (arr : List Nat)
    (hv : t.s.variant.isV2 = true) (hb : t.c.budget = none) (hop : t.s.op = .none)
    (hle : t.s.nrWinning ≤ t.s.lastTicketId)
    (hR : R t.s.lastTicketId (t.s.nrWinning + 1) t.s.status t.s.posToId arr)
    (hranges : ∀ u ∈ t.s.whitelist, ∀ r, t.s.range u = some r → RangeIn t.s.lastTicketId r)
    (hG : GuarInv t.s.variant.isV2 t.s)
    (hp : t.s.paused = false)
    (hst : requireStage t.s e .winnerSelection "Not in winner selection period" = .ok ())
    (hou : ownerOrUser t.s e = .ok ())
    (hsel : t.s.flags.selected = true) (hadd : t.s.flags.additional = false) :
    ∃ t', distribute hash t e = .ok t' :=
  distribute_v2_succeeds hash t e arr hv hb hop hle hR hranges hG hp hst hou hsel hadd

/-! ### examples: the hypotheses are satisfiable -/

/-- `sEx` = `sLive` (user 7 holds tickets 1..3 and a guarantee of 2, not confirmed) with no
    lottery winner: both reserved tickets go to the re-draw, 2 of the 3 tickets win -/
example : ∃ t' g', guaranteedSubstep id ⟨sEx, {}, {}⟩ { rng := default } = .ok (t', g', .completed) ∧
    countTrue t'.s.status 3 = 2 ∧ g'.additional = 2 := by
  obtain ⟨t', g', h, h1, h2, _⟩ := guaranteedSubstep_v2_final id ⟨sEx, {}, {}⟩ default
    (List.range' 1 3) rfl rfl (by decide) (R_init 3)
    (by
      intro u hu r hr
      have : u = 7 := by simpa [sEx, sLive] using hu
      subst this
      have : r = ⟨1, 3⟩ := by
        have : sEx.range 7 = some ⟨1, 3⟩ := rfl
        rw [this] at hr; injection hr with hr; exact hr.symm
      subst this
      exact ⟨by decide, by decide⟩)
    sLive_inv
  exact ⟨t', g', h, h1, h2⟩


/-- 3 tickets, no lottery winner (`nrOrig = 0`, identity placement), top-up marked ticket 2 -/
example : LInv 3 0 ⟨fun t => t == 2, fun _ => 0, default, 1, 1, 1, default⟩ :=
  LInv_init (st0 := fun _ => false) (R_init 3) (by simp)
    (by intro t ht; simp only [beq_iff_eq] at ht; omega) (by decide) _ _ _

/-- 3 tickets, ticket 1 won the lottery, ticket 3 topped up, one reserved ticket left -/
example : LInv 3 1 (spinState 0) := spinState_LInv 0

/-- the headline on that instance: 1 + 2 reserved tickets, 3 tickets: all 3 win -/
example : ∃ x', runWhile (leftoverBody id true 1 3) (3 + 2) none (spinState 0)
      = .ok (x', none, .completed) ∧ countTrue x'.status 3 = min 3 3 := by
  obtain ⟨x', h1, _, h2, _⟩ := final_winners_v2 id 1 3 2 3 (spinState 0) (spinState_LInv 0) rfl rfl
  exact ⟨x', h1, h2⟩

end LP

#print axioms LP.C03_leftover_inv_init
#print axioms LP.C03_leftover_step
#print axioms LP.C03_leftover_v2_terminates
#print axioms LP.C03_leftover_v2_iterations
#print axioms LP.final_winners_v2
#print axioms LP.final_winners_v2_from_lottery
#print axioms LP.C12_leftover_v2_draws
#print axioms LP.C03_leftover_v2_call
#print axioms LP.C03_leftover_v2_chunked
#print axioms LP.C03_leftover_run_partial
#print axioms LP.C03_leftover_no_dead_state_partial
#print axioms LP.C03_leftover_v1_may_spin
#print axioms LP.C03_selectWinners_R
#print axioms LP.C03_guaranteedSubstep_v2_final
#print axioms LP.C03_distribute_v2_final
#print axioms LP.C03_distribute_v2_succeeds
