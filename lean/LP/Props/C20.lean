import LP.Proofs.Events
import LP.Props.C13
import LP.Props.C07
/-
  C20 — emitted events carry exactly the quantities that changed.

  1  rejected calls emit nothing                         (`observedEvents_*`)
  2  refunds: one event + one transfer per refunded user (`refund_exact`, `blacklistMany_exact`, …)
  3  `setTicketPrice`                                    (`setTicketPrice_exact`)
  4  `filterTickets` / `selectWinners` / `distribute`    (`filter_event`, `select_event`, `distribute_event`)
  5  v2 `addTickets`                                     (`addTicketsV2_event`, `addV2Many_accumulators`)
  6  blacklist / unblacklist / refundUsers / schedule / vesting claim
  7  topics of every event of the emitting endpoints     (`topics_*`)

  Event payloads are the numeric fields of `Ev.data`; helper definitions (`refundEv`, `blEvent`,
  `blXfer`, `filterDoneEv`, …) are in `LP/Proofs/Events.lean`.
-/
namespace LP.Props.C20
open LP LP.Events

/-! ## step inversion for endpoints that take no payment -/

/-- the initial record of a call without call value -/
def txOf (s : State) (e : Env) : Tx := ⟨s, ⟨e.budget, e.seeds, e.script⟩, {}⟩

theorem step_nopay_inv {hash : List Nat → List Nat} {s : State} {e : Env} {c : Call} {s' : State} {o : Out}
    (hnp : ∀ m, endpointMeta s.variant c = some m → m.payable = false)
    (h : step hash s e c = .ok (s', o)) :
    ∃ t, exec hash (txOf s e) e c = .ok t ∧ s' = t.s ∧ o = t.o := by
  obtain ⟨m, t, hm, hpay, _, hx, hs, ho⟩ := step_ok_inv h
  have hp := hnp m hm
  rcases hpay with hpay | ⟨h1, h2⟩
  · rw [hp] at hpay; cases hpay
  · refine ⟨t, ?_, hs, ho⟩
    unfold tx0 at hx
    rw [creditPayments_nopay s e h1 h2] at hx
    exact hx

/-! ## 1. rejected calls emit nothing -/

/-- the events an observer sees for a call -/
def observedEvents (hash : List Nat → List Nat) (s : State) (e : Env) (c : Call) : List Ev :=
  match step hash s e c with
  | .ok (_, o) => o.events
  | .error _ => []

/-- a rejected call emits nothing -/
theorem observedEvents_rejected (hash : List Nat → List Nat) (s : State) (e : Env) (c : Call) (err : Err)
    (h : step hash s e c = .error err) : observedEvents hash s e c = [] := by
  simp [observedEvents, h]

/-- the only way to observe an event is an accepted step -/
theorem observedEvents_mem (hash : List Nat → List Nat) (s : State) (e : Env) (c : Call) (ev : Ev)
    (h : ev ∈ observedEvents hash s e c) :
    ∃ s' o, step hash s e c = .ok (s', o) ∧ ev ∈ o.events := by
  unfold observedEvents at h
  cases hst : step hash s e c with
  | error err => simp [hst] at h
  | ok r => obtain ⟨s', o⟩ := r; simp only [hst] at h; exact ⟨s', o, rfl, h⟩

/-! ## 2. refunds -/

/-- `refund_ticket_payment`: for `n > 0` exactly one `refundTicketPayment` event with payload
    `[caller, round, epoch, n, payTok.code, 0, price * n]` and exactly one transfer of `price * n`
    of the payment token to the refunded address; for `n = 0` nothing at all. -/
theorem refund_exact {t t' : Tx} {e : Env} {addr n : Nat} (h : t.refund e addr n = .ok t') :
    (n = 0 → t' = t) ∧
    (0 < n →
      t'.o.events = t.o.events ++
        [⟨"refundTicketPayment", [e.caller, e.round, e.epoch],
          [e.caller, e.round, e.epoch, n, t.s.payTok.code, 0, t.s.price * n]⟩] ∧
      t'.o.xfers = t.o.xfers ++ [(addr, ⟨t.s.payTok, 0, t.s.price * n⟩)] ∧
      t.s.price * n ≤ t.s.bal t.s.payTok 0 ∧
      t'.s = { t.s with bal := t.s.bal.sub t.s.payTok 0 (t.s.price * n) }) := by
  constructor
  · rintro rfl
    rw [refund_zero] at h
    injection h with h; exact h.symm
  · intro hn
    obtain ⟨hle, rfl⟩ := (refund_pos_ok_iff t e addr n hn t').mp h
    exact ⟨rfl, rfl, hle, rfl⟩

/-- a refund that the contract cannot pay fails (the whole transaction reverts) -/
theorem refund_insufficient {t : Tx} {e : Env} {addr n : Nat} (hn : 0 < n)
    (hlt : t.s.bal t.s.payTok 0 < t.s.price * n) : ∃ err, t.refund e addr n = .error err := by
  cases h : t.refund e addr n with
  | error err => exact ⟨err, rfl⟩
  | ok t' =>
    obtain ⟨hle, _⟩ := (refund_pos_ok_iff t e addr n hn t').mp h
    omega

/-- **blacklisting loop, exact**: accepted iff the list has no duplicates, every listed user is
    not blacklisted and has an allocation record, and the total refund is covered; then one refund
    event and one transfer per listed user with `confirmed > 0`, in list order, each with that
    user's confirmed count against the *initial* confirmations (`blEvent`, `blXfer`), and the
    resulting storage is `blState`. -/
theorem blacklistMany_exact (e : Env) (l : List Nat) (t t' : Tx) :
    blacklistMany e l t = .ok t' ↔
      l.Nodup ∧ (∀ u ∈ l, t.s.blacklist u = false ∧ (t.s.range u).isSome = true) ∧
      t.s.price * blConfSum t.s l ≤ t.s.bal t.s.payTok 0 ∧
      t' = { s := blState t.s l, c := t.c,
             o := { t.o with events := t.o.events ++ l.filterMap (blEvent t.s e),
                             xfers := t.o.xfers ++ l.filterMap (blXfer t.s) } } :=
  blacklistMany_ok_iff e l t t'

/-- what `blEvent` / `blXfer` are: the refund event / transfer of a user with `confirmed > 0` -/
theorem blEvent_eq (s : State) (e : Env) (u : Nat) :
    blEvent s e u = if s.confirmed u > 0 then
      some ⟨"refundTicketPayment", [e.caller, e.round, e.epoch],
        [e.caller, e.round, e.epoch, s.confirmed u, s.payTok.code, 0, s.price * s.confirmed u]⟩
      else none := rfl

theorem blXfer_eq (s : State) (u : Nat) :
    blXfer s u = if s.confirmed u > 0 then some (u, ⟨s.payTok, 0, s.price * s.confirmed u⟩) else none := rfl

/-- duplicates in the list are rejected -/
theorem blacklistMany_duplicates_rejected (e : Env) (l : List Nat) (t : Tx) (hd : ¬ l.Nodup) :
    ∃ err, blacklistMany e l t = .error err := by
  cases h : blacklistMany e l t with
  | error err => exact ⟨err, rfl⟩
  | ok t' => exact absurd ((blacklistMany_ok_iff e l t t').mp h).1 hd

/-! ## 3. setTicketPrice -/

theorem setTicketPrice_exact (hash : List Nat → List Nat) (s : State) (e : Env) (tok : Token) (a : Nat)
    (s' : State) (o : Out) (h : step hash s e (.setTicketPrice tok a) = .ok (s', o)) :
    o.events = [⟨"setTicketPrice", [e.caller, e.round, e.epoch],
                 [e.caller, e.round, e.epoch, tok.code, 0, a]⟩] ∧
    s'.payTok = tok ∧ s'.price = a ∧ s' = { s with payTok := tok, price := a } ∧
    o.xfers = [] ∧ s.stage e = .addTickets ∧ 0 < a := by
  obtain ⟨t, hx, rfl, rfl⟩ := step_nopay_inv (by intro m hm; simp [endpointMeta] at hm; rw [← hm]) h
  obtain ⟨hst, _, _, ha, rfl⟩ := (exec_setTicketPrice_ok_iff hash _ _ e tok a).mp hx
  exact ⟨rfl, rfl, rfl, rfl, rfl, hst, ha⟩

/-! ## 4. the selection steps -/

/-- `filterTickets`: a completed call (`ret = [0]`) emits exactly one `filterTicketsCompleted`
    event carrying the new `lastTicketId`; an interrupted call (`ret = [1]`) emits nothing -/
theorem filter_event (hash : List Nat → List Nat) (s : State) (e : Env) (s' : State) (o : Out)
    (h : step hash s e .filter = .ok (s', o)) :
    (o.ret = [0] ∨ o.ret = [1]) ∧
    (o.ret = [0] → o.events = [⟨"filterTicketsCompleted", [e.caller, e.round, e.epoch],
                                 [e.caller, e.round, e.epoch, s'.lastTicketId]⟩] ∧
                   s'.flags.filtered = true) ∧
    (o.ret = [1] → o.events = [] ∧ s'.flags.filtered = false ∧ s'.lastTicketId = s.lastTicketId) ∧
    o.xfers = [] := by
  obtain ⟨t, hx, rfl, rfl⟩ := step_nopay_inv (by intro m hm; simp [endpointMeta] at hm; rw [← hm]) h
  simp only [exec] at hx
  obtain ⟨hxf, _, _, _, hcase⟩ := filterTickets_out hx
  rcases hcase with ⟨hr, hev, hf, _⟩ | ⟨hr, hev, hf, hl, _⟩
  · refine ⟨Or.inl hr, fun _ => ⟨by simpa [txOf, filterDoneEv] using hev, hf⟩, ?_, by simpa [txOf] using hxf⟩
    intro h1; rw [hr] at h1; simp at h1
  · refine ⟨Or.inr hr, ?_, fun _ => ⟨by simpa [txOf] using hev, hf, hl⟩, by simpa [txOf] using hxf⟩
    intro h0; rw [hr] at h0; simp at h0

/-- `selectWinners`: a completed call emits exactly one `selectWinnersCompleted` event carrying
    `nrWinning`, and books `claimablePayment = price * nrWinning`; an interrupted call emits nothing -/
theorem select_event (hash : List Nat → List Nat) (s : State) (e : Env) (s' : State) (o : Out)
    (h : step hash s e .select = .ok (s', o)) :
    (o.ret = [0] ∨ o.ret = [1]) ∧
    (o.ret = [0] → o.events = [⟨"selectWinnersCompleted", [e.caller, e.round, e.epoch],
                                 [e.caller, e.round, e.epoch, s.nrWinning]⟩] ∧
                   s'.claimablePayment = s.price * s.nrWinning ∧ s'.flags.selected = true) ∧
    (o.ret = [1] → o.events = [] ∧ s'.claimablePayment = s.claimablePayment ∧ s'.flags = s.flags) ∧
    s'.nrWinning = s.nrWinning ∧ s'.price = s.price ∧ o.xfers = [] := by
  obtain ⟨t, hx, rfl, rfl⟩ := step_nopay_inv (by intro m hm; simp [endpointMeta] at hm; rw [← hm]) h
  simp only [exec] at hx
  obtain ⟨hxf, _, _, hp, hn, hcase⟩ := selectWinners_out hx
  rcases hcase with ⟨hr, hev, hc, hf, _⟩ | ⟨hr, hev, hf, hc, _⟩
  · refine ⟨Or.inl hr, fun _ => ⟨by simpa [txOf, selectDoneEv] using hev, hc, hf⟩, ?_, hn, hp,
      by simpa [txOf] using hxf⟩
    intro h1; rw [hr] at h1; simp at h1
  · refine ⟨Or.inr hr, ?_, fun _ => ⟨by simpa [txOf] using hev, hc, hf⟩, hn, hp, by simpa [txOf] using hxf⟩
    intro h0; rw [hr] at h0; simp at h0

/-- `distributeGuaranteedTickets`: a completed call credits `add` additional winning tickets
    (`nrWinning' = nrWinning + add`, `claimablePayment' = claimablePayment + price * add`) and, in
    v2, emits exactly one `distributeGuaranteedTicketsCompleted` event carrying `add` (the other
    variants have no such event); an interrupted call emits nothing and credits nothing -/
theorem distribute_event (hash : List Nat → List Nat) (s : State) (e : Env) (s' : State) (o : Out)
    (h : step hash s e .distribute = .ok (s', o)) :
    (o.ret = [0] ∨ o.ret = [1]) ∧
    (o.ret = [0] → ∃ add, s'.nrWinning = s.nrWinning + add ∧
        s'.claimablePayment = s.claimablePayment + s.price * add ∧ s'.flags.additional = true ∧
        o.events = if s.variant.isV2 then
          [⟨"distributeGuaranteedTicketsCompleted", [e.caller, e.round, e.epoch],
            [e.caller, e.round, e.epoch, add]⟩] else []) ∧
    (o.ret = [1] → o.events = [] ∧ s'.nrWinning = s.nrWinning ∧
        s'.claimablePayment = s.claimablePayment ∧ s'.flags = s.flags) ∧
    s'.price = s.price ∧ o.xfers = [] := by
  obtain ⟨t, hx, rfl, rfl⟩ := step_nopay_inv (by
    intro m hm; simp only [endpointMeta] at hm; split at hm
    · injection hm with hm; rw [← hm]
    · cases hm) h
  simp only [exec] at hx
  obtain ⟨hxf, _, _, hp, hcase⟩ := distribute_out hx
  rcases hcase with ⟨hr, hf, _, add, hn, hc, hev⟩ | ⟨hr, hev, hf, hn, hc, _⟩
  · refine ⟨Or.inl hr, fun _ => ⟨add, hn, hc, hf, ?_⟩, ?_, hp, by simpa [txOf] using hxf⟩
    · rw [hev]; exact List.nil_append _
    · intro h1; rw [hr] at h1; simp at h1
  · refine ⟨Or.inr hr, ?_, fun _ => ⟨by simpa [txOf] using hev, hn, hc, hf⟩, hp, by simpa [txOf] using hxf⟩
    intro h0; rw [hr] at h0; simp at h0

/-! ## 5. v2 `addTickets` -/

/-- the accumulators of the v2 allocation loop are exact: users = entries with a non-zero
    allowance, tickets = growth of `lastTicketId`, guaranteed = growth of the guaranteed total
    (= reduction of the open winning tickets) -/
theorem addV2Many_accumulators (e : Env) (l : List (Nat × Nat × List (Nat × Nat)))
    (s : State) (tw tg uc ta ga : Nat) (s' : State) (tw' tg' uc' ta' ga' : Nat)
    (h : addV2Many e l (s, tw, tg, uc, ta, ga) = .ok (s', tw', tg', uc', ta', ga')) :
    ta' - ta = s'.lastTicketId - s.lastTicketId ∧ ga' - ga = tg' - tg ∧ ga' - ga = tw - tw' ∧
    uc' - uc = (l.filter (fun p => p.2.1 ≠ 0)).length ∧
    s.lastTicketId ≤ s'.lastTicketId ∧ tg ≤ tg' ∧ tw' ≤ tw := by
  obtain ⟨h1, h2, h3, h4, h5, h6⟩ := addV2Many_acc e l s tw tg uc ta ga s' tw' tg' uc' ta' ga' h
  unfold v2Users at h4
  refine ⟨by omega, by omega, by omega, by omega, by omega, by omega, by omega⟩

/-- v2 `addTickets`: exactly one `addTickets` event with (users, tickets added, guaranteed added),
    where tickets added = `lastTicketId' - lastTicketId` and guaranteed added =
    `totalGuaranteed' - totalGuaranteed` -/
theorem addTicketsV2_event (hash : List Nat → List Nat) (s : State) (e : Env)
    (l : List (Nat × Nat × List (Nat × Nat))) (s' : State) (o : Out)
    (h : step hash s e (.addTicketsV2 l) = .ok (s', o)) :
    o.events = [⟨"addTickets", [e.caller, e.round, e.epoch],
      [e.caller, e.round, e.epoch, (l.filter (fun p => p.2.1 ≠ 0)).length,
        s'.lastTicketId - s.lastTicketId, s'.totalGuaranteed - s.totalGuaranteed]⟩] ∧
    s.lastTicketId ≤ s'.lastTicketId ∧ s.totalGuaranteed ≤ s'.totalGuaranteed ∧
    s'.nrWinning + (s'.totalGuaranteed - s.totalGuaranteed) = s.nrWinning ∧ o.xfers = [] := by
  obtain ⟨t, hx, rfl, rfl⟩ := step_nopay_inv (by
    intro m hm; simp only [endpointMeta] at hm; split at hm
    · injection hm with hm; rw [← hm]
    · cases hm) h
  simp only [exec] at hx
  obtain ⟨hev, h1, h2, h3, hxf, _⟩ := addTicketsV2_out hx
  exact ⟨by simpa [txOf, addTicketsEv, v2Users] using hev, h1, h2, h3, by simpa [txOf] using hxf⟩

/-! ## 6. blacklist, refundUsers, unblacklist, schedule, vesting claim -/

/-- `addUsersToBlacklist` (all variants): the refund events of the listed users with
    `confirmed > 0` in list order, then — v2 only — `addUsersToBlacklist` with payload
    `[caller, round, epoch, l.length] ++ l`; the transfers are the refunds, followed (NFT variants
    only) by NFT-fee refunds -/
theorem blacklist_events (hash : List Nat → List Nat) (s : State) (e : Env) (l : List Nat)
    (s' : State) (o : Out) (h : step hash s e (.blacklist l) = .ok (s', o)) :
    o.events = l.filterMap (blEvent s e) ++
      (if s.variant.isV2 then
        [⟨"addUsersToBlacklist", [e.caller, e.round, e.epoch],
          [e.caller, e.round, e.epoch, l.length] ++ l⟩] else []) ∧
    (∃ xf, o.xfers = l.filterMap (blXfer s) ++ xf ∧ (s.variant.hasNft = false → xf = [])) ∧
    l.Nodup := by
  obtain ⟨t, hx, rfl, rfl⟩ := step_nopay_inv (by intro m hm; simp [endpointMeta] at hm; rw [← hm]) h
  obtain ⟨hadd, hev, ⟨xf, hxf, hnft⟩, _⟩ := exec_blacklist_out hx
  obtain ⟨_, _, hnd, _⟩ := (addUsersToBlacklist_ok_iff _ _ _ _).mp hadd
  refine ⟨?_, ⟨xf, ?_, hnft⟩, hnd⟩
  · rw [hev]; exact congrArg (· ++ _) (List.nil_append _)
  · rw [hxf]; exact congrArg (· ++ _) (List.nil_append _)

/-- v2 `refundUsers`: only the refund events (no `addUsersToBlacklist` event) -/
theorem refundUsers_events (hash : List Nat → List Nat) (s : State) (e : Env) (l : List Nat)
    (s' : State) (o : Out) (h : step hash s e (.refundUsers l) = .ok (s', o)) :
    o.events = l.filterMap (blEvent s e) ∧ o.xfers = l.filterMap (blXfer s) ∧ l.Nodup := by
  obtain ⟨t, hx, rfl, rfl⟩ := step_nopay_inv (by
    intro m hm; simp only [endpointMeta] at hm; split at hm
    · injection hm with hm; rw [← hm]
    · cases hm) h
  obtain ⟨hadd, ho, _, _⟩ := exec_refundUsers_out hx
  obtain ⟨_, _, hnd, _⟩ := (addUsersToBlacklist_ok_iff _ _ _ _).mp hadd
  rw [ho]
  exact ⟨by simp [blTx, txOf], by simp [blTx, txOf], hnd⟩

/-- `removeUsersFromBlacklist`: v2 emits `removeGuaranteedUsersFromBlacklist` with payload
    `[caller, round, epoch, l.length] ++ l`; the other variants emit nothing; no transfers -/
theorem unblacklist_events (hash : List Nat → List Nat) (s : State) (e : Env) (l : List Nat)
    (s' : State) (o : Out) (h : step hash s e (.unblacklist l) = .ok (s', o)) :
    o.events = (if s.variant.isV2 then
        [⟨"removeGuaranteedUsersFromBlacklist", [e.caller, e.round, e.epoch],
          [e.caller, e.round, e.epoch, l.length] ++ l⟩] else []) ∧
    o.xfers = [] := by
  obtain ⟨t, hx, rfl, rfl⟩ := step_nopay_inv (by
    intro m hm; simp only [endpointMeta] at hm; split at hm
    · injection hm with hm; rw [← hm]
    · cases hm) h
  obtain ⟨_, _, _, ho, _⟩ := exec_unblacklist_out hx
  rw [ho]
  exact ⟨List.nil_append _, rfl⟩

/-- v2 `setUnlockSchedule` (re-export of `C13.setSchedule2_accepted_iff`): one
    `setUnlockSchedule` event with the milestones flattened behind their count -/
theorem setSchedule2_accepted_iff (t t' : Tx) (e : Env) (ms : List (Nat × Nat)) :
    setSchedule2 t e ms = .ok t' ↔
      t.s.stage e = .addTickets ∧ ms.length ≤ 60 ∧ validSchedule2 e.round ms = true ∧
      t' = (t.setS { t.s with sched2 := some ms }).emit ⟨"setUnlockSchedule", topics e,
        [e.caller, e.round, e.epoch, ms.length] ++ flattenPairs ms⟩ :=
  LP.setSchedule2_accepted_iff t t' e ms

theorem setSchedule2_event (hash : List Nat → List Nat) (s : State) (e : Env) (ms : List (Nat × Nat))
    (s' : State) (o : Out) (h : step hash s e (.setSchedule2 ms) = .ok (s', o)) :
    o.events = [⟨"setUnlockSchedule", [e.caller, e.round, e.epoch],
      [e.caller, e.round, e.epoch, ms.length] ++ flattenPairs ms⟩] ∧
    s' = { s with sched2 := some ms } ∧ o.xfers = [] := by
  obtain ⟨t, hx, rfl, rfl⟩ := step_nopay_inv (by
    intro m hm; simp only [endpointMeta] at hm; split at hm
    · injection hm with hm; rw [← hm]
    · cases hm) h
  simp only [exec] at hx
  obtain ⟨_, _, _, rfl⟩ := (LP.setSchedule2_accepted_iff _ _ e ms).mp hx
  exact ⟨rfl, rfl, rfl⟩

/-- the vesting claim of an already settled participant (crates 4 and 5): with `c` the claimable
    amount, `c > 0` gives exactly one transfer of `c` launchpad tokens to the caller and — in v2 —
    exactly one `claimLaunchpadTokens` event `[caller, round, epoch, lpTok+1, 0, c]`; `c = 0`
    gives neither -/
theorem claimVested_settled_events {t t' : Tx} {e : Env} (hcl : t.s.claimed e.caller = true)
    (h : claimVested t e = .ok t') :
    ∃ c, (if t.s.variant.isV2 then claimable2 t.s e e.caller else claimable1 t.s e e.caller) = .ok c ∧
      t'.o.events = t.o.events ++ (if c > 0 ∧ t.s.variant.isV2 = true then
        [⟨"claimLaunchpadTokens", [e.caller, e.round, e.epoch],
          [e.caller, e.round, e.epoch, t.s.lpTok + 1, 0, c]⟩] else []) ∧
      t'.o.xfers = t.o.xfers ++ (if c > 0 then [(e.caller, (⟨.esdt t.s.lpTok, 0, c⟩ : Pay))] else []) :=
  claimVested_claimed hcl h

/-- the first vesting claim: settlement, one refund event/transfer for the `rf` losing confirmed
    tickets (if any), then the release as above, computed on the settled state -/
theorem claimVested_first_events {t t' : Tx} {e : Env} (hcl : t.s.claimed e.caller = false)
    (h : claimVested t e = .ok t') :
    ∃ s1 redeem rf t1 c, settle t.s e = .ok (s1, redeem, rf) ∧
      (t.setS s1).refund e e.caller rf = .ok t1 ∧
      (if t.s.variant.isV2 then claimable2 else claimable1)
        (if redeem > 0 then
          { t1.s with userTotal := upd t1.s.userTotal e.caller (redeem * t1.s.perTicket) } else t1.s)
        e e.caller = .ok c ∧
      t'.o.events = t.o.events ++ (if rf > 0 then [refundEv t.s e rf] else []) ++
        (if c > 0 ∧ t.s.variant.isV2 = true then [claimEv t.s e c] else []) ∧
      t'.o.xfers = t.o.xfers ++ (if rf > 0 then [(e.caller, refundPay t.s rf)] else []) ++
        (if c > 0 then [(e.caller, (⟨.esdt t.s.lpTok, 0, c⟩ : Pay))] else []) :=
  claimVested_first hcl h

/-- v2, step level: a settled participant's `claim` emits one `claimLaunchpadTokens` event and one
    transfer iff something is claimable -/
theorem claim_v2_settled_event (hash : List Nat → List Nat) (s : State) (e : Env) (s' : State) (o : Out)
    (hv : s.variant = .guarV2) (hcl : s.claimed e.caller = true)
    (h : step hash s e .claim = .ok (s', o)) :
    ∃ c, claimable2 s e e.caller = .ok c ∧
      (0 < c → o.events = [⟨"claimLaunchpadTokens", [e.caller, e.round, e.epoch],
                            [e.caller, e.round, e.epoch, s.lpTok + 1, 0, c]⟩] ∧
               o.xfers = [(e.caller, ⟨.esdt s.lpTok, 0, c⟩)]) ∧
      (c = 0 → o.events = [] ∧ o.xfers = []) := by
  obtain ⟨t, hx, rfl, rfl⟩ := step_nopay_inv (by intro m hm; simp [endpointMeta] at hm; rw [← hm]) h
  have hvest : (txOf s e).s.variant.vested = true := by simp [txOf, hv, Variant.vested]
  simp only [exec, hvest, ↓reduceIte] at hx
  obtain ⟨c, hc, hev, hxf⟩ := claimVested_claimed (t := txOf s e) hcl hx
  have hv2 : (txOf s e).s.variant.isV2 = true := by simp [txOf, hv, Variant.isV2]
  simp only [hv2, ↓reduceIte, and_true] at hc hev
  refine ⟨c, hc, ?_, ?_⟩
  · intro hpos
    simp only [hpos, ↓reduceIte] at hev hxf
    exact ⟨by simpa [txOf, claimEv] using hev, by simpa [txOf] using hxf⟩
  · rintro rfl
    simp only [Nat.lt_irrefl, ↓reduceIte, List.append_nil] at hev hxf
    exact ⟨by simpa [txOf] using hev, by simpa [txOf] using hxf⟩

/-- the plain (non-vesting) claim: the only event is the refund of the `rf` losing confirmed
    tickets, `rf` being the third component of the settlement -/
theorem claim_plain_events (hash : List Nat → List Nat) (s : State) (e : Env) (s' : State) (o : Out)
    (hv : s.variant.vested = false) (h : step hash s e .claim = .ok (s', o)) :
    ∃ s1 redeem rf, settle s e = .ok (s1, redeem, rf) ∧
      o.events = if rf > 0 then
        [⟨"refundTicketPayment", [e.caller, e.round, e.epoch],
          [e.caller, e.round, e.epoch, rf, s.payTok.code, 0, s.price * rf]⟩] else [] := by
  obtain ⟨t, hx, rfl, rfl⟩ := step_nopay_inv (by intro m hm; simp [endpointMeta] at hm; rw [← hm]) h
  obtain ⟨s1, redeem, rf, hset, hev⟩ := exec_claim_plain_events (t := txOf s e) hv hx
  refine ⟨s1, redeem, rf, hset, ?_⟩
  rw [hev]
  exact List.nil_append _

/-! ## 7. topics -/

theorem mem_filterMap_blEvent_topics {s : State} {e : Env} {l : List Nat} {ev : Ev}
    (h : ev ∈ l.filterMap (blEvent s e)) : ev.topics = [e.caller, e.round, e.epoch] := by
  obtain ⟨u, _, hu⟩ := List.mem_filterMap.mp h
  unfold blEvent at hu
  split at hu
  · injection hu with hu; subst hu; rfl
  · cases hu

/-- the framework's pause events are the only ones without topics -/
theorem pause_events (hash : List Nat → List Nat) (s : State) (e : Env) (s' : State) (o : Out) :
    (step hash s e .pause = .ok (s', o) → o.events = [⟨"pauseContract", [], []⟩]) ∧
    (step hash s e .unpause = .ok (s', o) → o.events = [⟨"unpauseContract", [], []⟩]) := by
  constructor
  · intro h
    obtain ⟨t, hx, rfl, rfl⟩ := step_nopay_inv (by intro m hm; simp [endpointMeta] at hm; rw [← hm]) h
    simp only [exec, pure_ok_iff] at hx; subst hx; rfl
  · intro h
    obtain ⟨t, hx, rfl, rfl⟩ := step_nopay_inv (by intro m hm; simp [endpointMeta] at hm; rw [← hm]) h
    simp only [exec, pure_ok_iff] at hx; subst hx; rfl

/-- the calls that emit contract events -/
def emitting : Call → Bool
  | .confirm _ | .setTicketPrice _ _ | .filter | .select | .distribute | .addTicketsV2 _
  | .blacklist _ | .refundUsers _ | .unblacklist _ | .setSchedule2 _ | .claim => true
  | _ => false

/-- **topics**: every event emitted by any of the emitting endpoints has topics
    `[caller, round, epoch]` of the emitting transaction -/
theorem topics_of_emitted (hash : List Nat → List Nat) (s : State) (e : Env) (c : Call)
    (s' : State) (o : Out) (hc : emitting c = true) (h : step hash s e c = .ok (s', o)) :
    ∀ ev ∈ o.events, ev.topics = [e.caller, e.round, e.epoch] := by
  intro ev hev
  cases c <;> simp only [emitting, Bool.false_eq_true] at hc
  case confirm n =>
    obtain ⟨total, _, _, _, _, _, hE⟩ := C07.confirm_effect hash s e n s' o h
    rw [hE] at hev
    simp only [List.mem_singleton] at hev
    subst hev; rfl
  case setTicketPrice tok a =>
    obtain ⟨hE, _⟩ := setTicketPrice_exact hash s e tok a s' o h
    rw [hE] at hev; simp only [List.mem_singleton] at hev; subst hev; rfl
  case filter =>
    obtain ⟨hr, h0, h1, _⟩ := filter_event hash s e s' o h
    rcases hr with hr | hr
    · rw [(h0 hr).1] at hev; simp only [List.mem_singleton] at hev; subst hev; rfl
    · rw [(h1 hr).1] at hev; cases hev
  case select =>
    obtain ⟨hr, h0, h1, _⟩ := select_event hash s e s' o h
    rcases hr with hr | hr
    · rw [(h0 hr).1] at hev; simp only [List.mem_singleton] at hev; subst hev; rfl
    · rw [(h1 hr).1] at hev; cases hev
  case distribute =>
    obtain ⟨hr, h0, h1, _⟩ := distribute_event hash s e s' o h
    rcases hr with hr | hr
    · obtain ⟨add, _, _, _, hE⟩ := h0 hr
      rw [hE] at hev
      split at hev
      · simp only [List.mem_singleton] at hev; subst hev; rfl
      · cases hev
    · rw [(h1 hr).1] at hev; cases hev
  case addTicketsV2 l =>
    obtain ⟨hE, _⟩ := addTicketsV2_event hash s e l s' o h
    rw [hE] at hev; simp only [List.mem_singleton] at hev; subst hev; rfl
  case blacklist l =>
    obtain ⟨hE, _⟩ := blacklist_events hash s e l s' o h
    rw [hE] at hev
    rcases List.mem_append.mp hev with hev | hev
    · exact mem_filterMap_blEvent_topics hev
    · split at hev
      · simp only [List.mem_singleton] at hev; subst hev; rfl
      · cases hev
  case refundUsers l =>
    obtain ⟨hE, _⟩ := refundUsers_events hash s e l s' o h
    rw [hE] at hev
    exact mem_filterMap_blEvent_topics hev
  case unblacklist l =>
    obtain ⟨hE, _⟩ := unblacklist_events hash s e l s' o h
    rw [hE] at hev
    split at hev
    · simp only [List.mem_singleton] at hev; subst hev; rfl
    · cases hev
  case setSchedule2 ms =>
    obtain ⟨hE, _⟩ := setSchedule2_event hash s e ms s' o h
    rw [hE] at hev; simp only [List.mem_singleton] at hev; subst hev; rfl
  case claim =>
    cases hv : s.variant.vested with
    | false =>
      obtain ⟨s1, redeem, rf, _, hE⟩ := claim_plain_events hash s e s' o hv h
      rw [hE] at hev
      split at hev
      · simp only [List.mem_singleton] at hev; subst hev; rfl
      · cases hev
    | true =>
      obtain ⟨t, hx, rfl, rfl⟩ := step_nopay_inv (by intro m hm; simp [endpointMeta] at hm; rw [← hm]) h
      have hvest : (txOf s e).s.variant.vested = true := hv
      simp only [exec, hvest, ↓reduceIte] at hx
      cases hcl : s.claimed e.caller with
      | true =>
        obtain ⟨c, _, hE, _⟩ := claimVested_claimed (t := txOf s e) hcl hx
        rw [hE] at hev
        rcases List.mem_append.mp hev with hev | hev
        · cases hev
        · split at hev
          · simp only [List.mem_singleton] at hev; subst hev; rfl
          · cases hev
      | false =>
        obtain ⟨s1, redeem, rf, t1, c, _, _, _, hE, _⟩ := claimVested_first (t := txOf s e) hcl hx
        rw [hE] at hev
        rcases List.mem_append.mp hev with hev | hev
        · rcases List.mem_append.mp hev with hev | hev
          · cases hev
          · split at hev
            · simp only [List.mem_singleton] at hev; subst hev; rfl
            · cases hev
        · split at hev
          · simp only [List.mem_singleton] at hev; subst hev; rfl
          · cases hev

/-! ## non-vacuity -/

/-- a v2 contract in the confirmation window: user 7 has confirmed 2 of 3 tickets at price 10,
    user 8 has an allocation and nothing confirmed -/
def exS : State :=
  { variant := .guarV2, owner := 1, lpTok := 1, perTicket := 1, payTok := .egld, price := 10,
    nrWinning := 1, cfg := ⟨5, 10, 15⟩, flags := {}, support := 2, deposited := true,
    range := fun a => if a = 7 then some ⟨1, 3⟩ else if a = 8 then some ⟨4, 4⟩ else none,
    confirmed := fun a => if a = 7 then 2 else 0,
    bal := fun t _ => if t = .egld then 20 else 0 }

def exE : Env := { caller := 2, round := 6, epoch := 3 }

/-- blacklisting [8, 7]: one refund event (user 7 only), then the v2 `addUsersToBlacklist` event;
    one transfer of 20 -/
example : ∃ s' o, step (fun x => x) exS exE (.blacklist [8, 7]) = .ok (s', o) ∧
    o.events = [⟨"refundTicketPayment", [2, 6, 3], [2, 6, 3, 2, 0, 0, 20]⟩,
                ⟨"addUsersToBlacklist", [2, 6, 3], [2, 6, 3, 2, 8, 7]⟩] ∧
    o.xfers = [(7, ⟨.egld, 0, 20⟩)] := by
  refine ⟨_, _, rfl, ?_⟩
  decide

/-- a duplicate in the list is rejected -/
example : ∃ err, step (fun x => x) exS exE (.blacklist [7, 7]) = .error err := ⟨_, rfl⟩

/-- an accepted price change before the confirmation window -/
example : ∃ s' o, step (fun x => x) exS { caller := 1, round := 2 } (.setTicketPrice (.esdt 5) 7) = .ok (s', o) ∧
    o.events = [⟨"setTicketPrice", [1, 2, 0], [1, 2, 0, 6, 0, 7]⟩] ∧ s'.price = 7 := by
  refine ⟨_, _, rfl, ?_⟩
  decide

/-- a completed filter on an empty allocation emits `filterTicketsCompleted` with 0 -/
example : ∃ s' o, step (fun x => x) { exS with range := fun _ => none, confirmed := fun _ => 0 }
      { caller := 9, round := 11 } .filter = .ok (s', o) ∧
    o.ret = [0] ∧ o.events = [⟨"filterTicketsCompleted", [9, 11, 0], [9, 11, 0, 0]⟩] := by
  refine ⟨_, _, rfl, ?_⟩
  decide

example : emitting (.blacklist [1]) = true ∧ emitting .deposit = false := by decide

end LP.Props.C20

#print axioms LP.Props.C20.observedEvents_rejected
#print axioms LP.Props.C20.observedEvents_mem
#print axioms LP.Props.C20.refund_exact
#print axioms LP.Props.C20.refund_insufficient
#print axioms LP.Props.C20.blacklistMany_exact
#print axioms LP.Props.C20.blacklistMany_duplicates_rejected
#print axioms LP.Props.C20.setTicketPrice_exact
#print axioms LP.Props.C20.filter_event
#print axioms LP.Props.C20.select_event
#print axioms LP.Props.C20.distribute_event
#print axioms LP.Props.C20.addV2Many_accumulators
#print axioms LP.Props.C20.addTicketsV2_event
#print axioms LP.Props.C20.blacklist_events
#print axioms LP.Props.C20.refundUsers_events
#print axioms LP.Props.C20.unblacklist_events
#print axioms LP.Props.C20.setSchedule2_accepted_iff
#print axioms LP.Props.C20.setSchedule2_event
#print axioms LP.Props.C20.claimVested_settled_events
#print axioms LP.Props.C20.claimVested_first_events
#print axioms LP.Props.C20.claim_v2_settled_event
#print axioms LP.Props.C20.claim_plain_events
#print axioms LP.Props.C20.pause_events
#print axioms LP.Props.C20.topics_of_emitted

#print axioms LP.Props.C20.step_nopay_inv
#print axioms LP.Props.C20.blEvent_eq
#print axioms LP.Props.C20.blXfer_eq
#print axioms LP.Props.C20.mem_filterMap_blEvent_topics
