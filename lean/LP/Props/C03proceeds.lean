import LP.Proofs.Gaps
import LP.Props.AllVariants2
import LP.Props.C18reach
/-
  LP.Props.C03proceeds — the gaps the previous round left partial (helpers: LP/Proofs/Gaps.lean).

  PART 1 (C03, "the owner's proceeds divided by the price is the winners count until the owner
  withdraws"), all EIGHT contracts, reachable states `ReachOfA hash v a0 s r`
  (LP/Proofs/AllVariants2Aux.lean):
    `C03_proceeds_until_withdrawal_every_variant`   after completion (`AllDone s`) every accepted
         call keeps `price` and `AllDone`, and keeps `claimablePayment` unless it is
         `claimPayment`, which sets it to 0 (`C03_proceeds_until_withdrawal_partial` of
         LP/Props/AllVariants2.lean had five variants; guarV2, nft, nftGuar are new);
    `C03_proceeds_nft_until_draw`                   launchpad-with-nft between the completed base
         lottery and the completed NFT draw: NO accepted call changes price or proceeds;
    `C03_proceeds_constant_run`                     along any admissible history without a
         `claimPayment` call, from the completed ticket selection on;
    `C03_proceeds_over_price_until_withdrawal`      from the call that completes the ticket
         selection (`C03_every_variant`), along any such history:
         `claimablePayment / price = number of winning flags at completion
                                   = min (winners configured at deployment) lastTicketId`.

  PART 2 (C18 / C08, ticket-space partition after the filter), all eight contracts, covered states
  (`Covered hash s r = be_Covered`, LP/Props/C18reach.lean):
    `ticket_space_frozen_after_filter`   an accepted call other than `claim`, once the filter has
         completed, changes neither `range`, `batch`, `lastTicketId` nor `confirmed`
         (`select`, `selectNft`, `secondary`, `distribute` included);
    `partition_kept`                     a step that keeps the ticket space keeps `Partition`;
    `ticket_space_frozen_until_claims`   … along any history, until somebody claims;
    `ranges_partition_until_claims`      in EVERY covered state with `filtered = true` in which
         nobody has claimed: `Partition s ∧ ∀ a, confirmed a = size s a`;
    `ranges_partition_until_completion`  in particular while some selection step is incomplete
         (nft: `selected ∧ ¬additional`; nftGuar: until `additional`; extends
         `ranges_partition_filtered` / `ranges_partition_until_distributed` of C18reach);
    `nobody_claims_before_completion`, `ranges_partition_until_claims_run`.

  PART 3 (flag-based `range_kept`): in a covered state the `started` flag is clear exactly when
  `filtered = false ∧ op = .none` (`filter_not_started_iff`); a participant's record is unchanged
  in every later state in which the filter has not started
  (`range_kept_until_filter_starts`, `range_kept_while_unfiltered`).  The side condition `op = .none`
  cannot be dropped: an interrupted filter has already rewritten the processed records
  (`interrupted_filter_rewrites`: g8 → g9 of the nftGuar example, `filtered = false` in both).
-/
namespace LP.Props.C03proceeds
open LP LP.FY LP.Props.AllVariants LP.Props.C18reach
open LP.Props.C17 (Hist RoundsFrom)

/-! ## PART 1 — C03: the proceeds until the owner withdraws -/

/-- **C03, every variant, one accepted call after completion.**  From a reachable state of any of
    the eight contracts in which all selection steps are complete, every accepted call keeps the
    ticket price and the completion flags, and leaves the owner's recorded proceeds
    `claimablePayment` unchanged unless it is the owner's `claimPayment`, which sets them to 0. -/
theorem C03_proceeds_until_withdrawal_every_variant (hash : List Nat → List Nat) (v : Variant)
    (a0 : InitArgs) (s : State) (r : Nat) (h : ReachOfA hash v a0 s r) (hd : AllDone s)
    (e : Env) (c : Call) (s' : State) (o : Out) (hr : r ≤ e.round)
    (hs : step hash s e c = .ok (s', o)) :
    s'.price = s.price ∧ AllDone s' ∧
    (s'.claimablePayment = s.claimablePayment ∨ (c = .claimPayment ∧ s'.claimablePayment = 0)) := by
  cases v with
  | base =>
    exact C03_proceeds_until_withdrawal_partial hash .base (Or.inl rfl) a0 s r h hd e c s' o hr hs
  | locked =>
    exact C03_proceeds_until_withdrawal_partial hash .locked (Or.inr (Or.inl rfl)) a0 s r h hd e c
      s' o hr hs
  | migration =>
    exact C03_proceeds_until_withdrawal_partial hash .migration (Or.inr (Or.inr (Or.inl rfl))) a0 s r
      h hd e c s' o hr hs
  | lockedGuar =>
    exact C03_proceeds_until_withdrawal_partial hash .lockedGuar
      (Or.inr (Or.inr (Or.inr (Or.inl rfl)))) a0 s r h hd e c s' o hr hs
  | guarV1 =>
    exact C03_proceeds_until_withdrawal_partial hash .guarV1
      (Or.inr (Or.inr (Or.inr (Or.inr rfl)))) a0 s r h hd e c s' o hr hs
  | guarV2 =>
    simp only [ReachOfA] at h
    exact gp_v2_proceeds_frame (reach_WF2 h) hr hd hs
  | nft =>
    simp only [ReachOfA] at h
    exact gp_nf_proceeds_frame (nf_reach_WF h) hr hd hs
  | nftGuar =>
    simp only [ReachOfA] at h
    exact gp_ng_proceeds_frame (ng_reach_WF h) hr hd hs

/-- **launchpad-with-nft, between the base lottery and the NFT draw**: `select` has completed,
    `selectNft` has not — no accepted call (the draw calls included; no claim or withdrawal is
    possible yet) changes the price or the recorded proceeds. -/
theorem C03_proceeds_nft_until_draw (hash : List Nat → List Nat) (a0 : InitArgs) (s : State) (r : Nat)
    (h : ReachOfA hash .nft a0 s r) (hsel : s.flags.selected = true)
    (hna : s.flags.additional = false) (e : Env) (c : Call) (s' : State) (o : Out)
    (hr : r ≤ e.round) (hs : step hash s e c = .ok (s', o)) :
    s'.price = s.price ∧ s'.flags.selected = true ∧ s'.claimablePayment = s.claimablePayment := by
  simp only [ReachOfA] at h
  exact gp_nf_proceeds_mid (nf_reach_WF h) hr hsel hna hs

/-- the two cases together: from a reachable state in which the selection of winning TICKETS is
    complete (`selected`, and `AllDone` unless the variant is `nft`, whose NFT draw may be pending) -/
theorem proceeds_step (hash : List Nat → List Nat) (v : Variant) (a0 : InitArgs) (s : State) (r : Nat)
    (h : ReachOfA hash v a0 s r) (hsel : s.flags.selected = true) (hdone : v ≠ .nft → AllDone s)
    (e : Env) (c : Call) (s' : State) (o : Out) (hr : r ≤ e.round)
    (hs : step hash s e c = .ok (s', o)) :
    s'.price = s.price ∧ s'.flags.selected = true ∧ (v ≠ .nft → AllDone s') ∧
    (s'.claimablePayment = s.claimablePayment ∨ (c = .claimPayment ∧ s'.claimablePayment = 0)) := by
  cases hadd : s.flags.additional with
  | true =>
    obtain ⟨k1, k2, k3⟩ :=
      C03_proceeds_until_withdrawal_every_variant hash v a0 s r h ⟨hsel, hadd⟩ e c s' o hr hs
    exact ⟨k1, k2.1, fun _ => k2, k3⟩
  | false =>
    by_cases hv : v = .nft
    · subst hv
      obtain ⟨k1, k2, k3⟩ := C03_proceeds_nft_until_draw hash a0 s r h hsel hadd e c s' o hr hs
      exact ⟨k1, k2, fun hq => absurd rfl hq, Or.inl k3⟩
    · have := (hdone hv).2
      rw [hadd] at this; cases this

/-- **C03, along histories.**  From a reachable state in which the selection of winning tickets is
    complete, along ANY admissible history (non-decreasing rounds, `HistOKOf v`; rejected
    transactions leave no trace) that contains no `claimPayment` call — whatever participants claim,
    whatever else the owner does —: the price and the recorded proceeds are those of the start. -/
theorem C03_proceeds_constant_run (hash : List Nat → List Nat) (v : Variant) (a0 : InitArgs) :
    ∀ (p : Hist) (s : State) (r : Nat), ReachOfA hash v a0 s r → s.flags.selected = true →
      (v ≠ .nft → AllDone s) → RoundsFrom r p → (∀ x ∈ p, HistOKOf v x.1 x.2) →
      (∀ x ∈ p, x.2 ≠ .claimPayment) →
      (run hash s p).price = s.price ∧ (run hash s p).flags.selected = true ∧
      (v ≠ .nft → AllDone (run hash s p)) ∧
      (run hash s p).claimablePayment = s.claimablePayment
  | [], s, r, _, hsel, hdone, _, _, _ => ⟨rfl, hsel, hdone, rfl⟩
  | (e, c) :: rest, s, r, h, hsel, hdone, hr, hp, hnw => by
    obtain ⟨h1, h2⟩ := hr
    have hx := hp (e, c) (List.mem_cons_self ..)
    have hrest : ∀ x ∈ rest, HistOKOf v x.1 x.2 := fun x hx => hp x (List.mem_cons_of_mem _ hx)
    have hnw' : ∀ x ∈ rest, x.2 ≠ .claimPayment := fun x hx => hnw x (List.mem_cons_of_mem _ hx)
    cases hst : step hash s e c with
    | error err =>
      rw [run_cons_err hst]
      exact C03_proceeds_constant_run hash v a0 rest s e.round (h.wait h1) hsel hdone h2 hrest hnw'
    | ok q =>
      obtain ⟨s', o⟩ := q
      rw [run_cons_ok hst]
      obtain ⟨k1, k2, k3, k4⟩ := proceeds_step hash v a0 s r h hsel hdone e c s' o h1 hst
      have k4' : s'.claimablePayment = s.claimablePayment := by
        rcases k4 with k4 | ⟨k4, _⟩
        · exact k4
        · exact absurd k4 (hnw (e, c) (List.mem_cons_self ..))
      obtain ⟨j1, j2, j3, j4⟩ := C03_proceeds_constant_run hash v a0 rest s' e.round
        (h.call e c s' o h1 hx.1 hx.2 hst) k2 k3 h2 hrest hnw'
      exact ⟨j1.trans k1, j2, j3, j4.trans k4'⟩

/-- **C03: the owner's proceeds divided by the price is the winners count until the owner
    withdraws** — all eight contracts.  `s'` is the state left by the accepted call that completes
    the selection of winning tickets (`completionCall v`, `Completed v s' o`, as in
    `C03_every_variant`); `p` is any admissible later history without a `claimPayment` call.  In
    the state `run hash s' p`: the price is unchanged and positive, the recorded proceeds are
    `price ×` the number of winning flags at completion, hence `claimablePayment / price` IS that
    number, which is `min (winners configured at deployment) lastTicketId`. -/
theorem C03_proceeds_over_price_until_withdrawal (hash : List Nat → List Nat) (v : Variant)
    (a0 : InitArgs) (s : State) (r : Nat) (h : ReachOfA hash v a0 s r) (e : Env) (s' : State)
    (o : Out) (hr : r ≤ e.round) (hok : HistOKOf v e (completionCall v))
    (hs : step hash s e (completionCall v) = .ok (s', o)) (hc : Completed v s' o)
    (p : Hist) (hrp : RoundsFrom e.round p) (hp : ∀ x ∈ p, HistOKOf v x.1 x.2)
    (hnw : ∀ x ∈ p, x.2 ≠ .claimPayment) :
    let W := countTrue s'.status s'.lastTicketId
    W = min a0.nrWinning s'.lastTicketId ∧
    (run hash s' p).price = s'.price ∧ 0 < (run hash s' p).price ∧
    (run hash s' p).claimablePayment = (run hash s' p).price * W ∧
    (run hash s' p).claimablePayment / (run hash s' p).price = W := by
  intro W
  obtain ⟨k1, _, _, k4, k5, _, k7, k8, _⟩ := C03_every_variant hash v a0 s r h e s' o hr hs hc
  have h' : ReachOfA hash v a0 s' e.round := h.call e _ s' o hr hok.1 hok.2 hs
  obtain ⟨j1, _, _, j4⟩ := C03_proceeds_constant_run hash v a0 p s' e.round h' k7 k8 hrp hp hnw
  have hpos : 0 < (run hash s' p).price := by rw [j1]; exact k5
  have hcp : (run hash s' p).claimablePayment = (run hash s' p).price * W := by
    rw [j4, j1]; exact k4
  exact ⟨k1, j1, hpos, hcp, by rw [hcp]; exact Nat.mul_div_cancel_left _ hpos⟩

/-! ## PART 2 — C18: the partition of the ticket space from the completed filter to the first claim -/

/-- **the ticket space is frozen once the filter has completed** (one call): in a covered state
    with `filtered = true`, an accepted call other than `claim` changes neither the records
    (`range`, `batch`), nor the total `lastTicketId`, nor `confirmed` — `select`, `selectNft`,
    `secondary`, `distribute`, `claimPayment` and the owner's endpoints do not touch them; the
    allocation, confirmation and blacklist endpoints are closed; the filter cannot run again. -/
theorem ticket_space_frozen_after_filter (hash : List Nat → List Nat) (s : State) (r : Nat)
    (h : Covered hash s r) (hf : s.flags.filtered = true) (e : Env) (c : Call) (s' : State) (o : Out)
    (hr : r ≤ e.round) (hs : step hash s e c = .ok (s', o)) (hc : c ≠ .claim) :
    s'.range = s.range ∧ s'.batch = s.batch ∧ s'.lastTicketId = s.lastTicketId ∧
    s'.confirmed = s.confirmed := by
  obtain ⟨h1, h2⟩ := gp_step_tk_after_filter h hr hs hf hc
  exact ⟨tk_range h1, tk_batch h1, tk_last h1, h2⟩

/-- **`Partition` is preserved by any step that keeps the ticket space** -/
theorem partition_kept (s s' : State) (hr : s'.range = s.range)
    (hl : s'.lastTicketId = s.lastTicketId) (h : Partition s) : Partition s' := by
  obtain ⟨h1, h2, h3, h4⟩ := h
  refine ⟨?_, ?_, ?_, ?_⟩
  · rw [hr, hl]; exact h1
  · rw [hr]; exact h2
  · rw [hr, hl]; exact h3
  · rw [hl]
    show ∃ H : List Nat, H.Nodup ∧ (∀ a, a ∈ H ↔ (s'.range a).isSome = true) ∧
      sumOver (ar_size s'.range) H = s.lastTicketId
    rw [hr]; exact h4

/-- **… along histories**: from a covered state with `filtered = true`, in every later state of any
    history (accepted transactions satisfying `HistOK`, non-decreasing rounds, waiting allowed) in
    which nobody has claimed: nobody had claimed at the start either, the filter is still complete,
    and records, total and confirmations are exactly those of the start. -/
theorem ticket_space_frozen_until_claims (hash : List Nat → List Nat) (s : State) (r : Nat)
    (h : Covered hash s r) (hf : s.flags.filtered = true) (s' : State) (r' : Nat)
    (hl : Later hash s r s' r') (hcl : ∀ a, s'.claimed a = false) :
    (∀ a, s.claimed a = false) ∧ s'.flags.filtered = true ∧ s'.range = s.range ∧
    s'.batch = s.batch ∧ s'.lastTicketId = s.lastTicketId ∧ s'.confirmed = s.confirmed := by
  obtain ⟨h1, h2, h3, h4⟩ := gp_later_tk h hf hl hcl
  exact ⟨h1, h2, tk_range h3, tk_batch h3, tk_last h3, h4⟩

/-- **C18 reach, the partition until the first claim — all eight contracts.**  In EVERY covered
    state in which the filter has completed and nobody has claimed yet (whatever selection steps
    have run since: base lottery, NFT draw, distribution / secondary step, complete or interrupted):
    the records partition the ticket space `1..lastTicketId`, and everybody holds exactly as many
    tickets as confirmed. -/
theorem ranges_partition_until_claims (hash : List Nat → List Nat) (s : State) (r : Nat)
    (h : Covered hash s r) (hf : s.flags.filtered = true) (hcl : ∀ a, s.claimed a = false) :
    Partition s ∧ ∀ a, s.confirmed a = size s a := by
  obtain ⟨L, hp, heq⟩ := gp_part_covered h hf hcl
  exact ⟨partition_of_part hp, fun a => (ar_confEq_of_part hp heq a).1⟩

/-- in a covered state nobody has claimed before all selection steps are complete -/
theorem nobody_claims_before_completion (hash : List Nat → List Nat) (s : State) (r : Nat)
    (h : Covered hash s r) (hnd : ¬ AllDone s) (a : Nat) : s.claimed a = false := by
  apply gp_unclaimed_covered h
  cases h1 : s.flags.selected with
  | false => exact Or.inl rfl
  | true =>
    cases h2 : s.flags.additional with
    | false => exact Or.inr rfl
    | true => exact absurd ⟨h1, h2⟩ hnd

/-- **… until all selection steps are complete.**  For all eight contracts, from the completed
    filter until the LAST selection step completes — in particular launchpad-with-nft between the
    completed base lottery and the completed NFT draw (`selected ∧ ¬additional`) and
    launchpad-nft-and-guaranteed-tickets until `secondary` completes — the partition holds.
    (Extends `ranges_partition_filtered` and `ranges_partition_until_distributed` of
    LP/Props/C18reach.lean.) -/
theorem ranges_partition_until_completion (hash : List Nat → List Nat) (s : State) (r : Nat)
    (h : Covered hash s r) (hf : s.flags.filtered = true) (hnd : ¬ AllDone s) :
    Partition s ∧ ∀ a, s.confirmed a = size s a :=
  ranges_partition_until_claims hash s r h hf (nobody_claims_before_completion hash s r h hnd)

/-- `run` form, all eight variants: from any deployment, after any admissible history -/
theorem ranges_partition_until_claims_run (hash : List Nat → List Nat) (v : Variant) (a0 : InitArgs)
    (e0 : Env) (s0 : State) (hi : init v a0 e0 = .ok s0) (p : Hist) (hr : RoundsFrom e0.round p)
    (hp : ∀ x ∈ p, HistOK x.1 x.2) :
    let s := run hash s0 p
    s.flags.filtered = true → (∀ a, s.claimed a = false) →
      Partition s ∧ ∀ a, s.confirmed a = size s a := by
  intro s hf hcl
  obtain ⟨r', hc, _⟩ := be_covered_run (be_covered_init (hash := hash) hi) p hr hp
  exact ranges_partition_until_claims hash _ r' hc hf hcl

/-! ## PART 3 — records are kept exactly until the filter starts (flag form of `range_kept`) -/

/-- in a covered state the `started` flag is clear exactly when the filter has neither completed
    nor been interrupted -/
theorem filter_not_started_iff (hash : List Nat → List Nat) (s : State) (r : Nat)
    (h : Covered hash s r) :
    s.flags.started = false ↔ (s.flags.filtered = false ∧ s.op = .none) :=
  gp_started_iff h

/-- **`range_kept`, flag form.**  From a covered state in which `a` holds the record `rg`: in every
    later state of any history (accepted transactions satisfying `HistOK`, non-decreasing rounds,
    waiting allowed) in which the filter has not started (`started = false`), `a` holds exactly
    `rg` — and the filter had not started at any earlier point of the history. -/
theorem range_kept_until_filter_starts (hash : List Nat → List Nat) (s : State) (r : Nat)
    (h : Covered hash s r) (s' : State) (r' : Nat) (hl : Later hash s r s' r')
    (hns : s'.flags.started = false) (a : Nat) (rg : Range) (hr : s.range a = some rg) :
    s'.range a = some rg ∧ s.flags.started = false :=
  ⟨(gp_later_keeps h hl hns).2 a rg hr, (gp_later_keeps h hl hns).1⟩

/-- the same with the two storage items a reader of the contract sees: no completion flag, no saved
    operation.  (`filtered = false` alone is NOT enough: `interrupted_filter_rewrites`.) -/
theorem range_kept_while_unfiltered (hash : List Nat → List Nat) (s : State) (r : Nat)
    (h : Covered hash s r) (s' : State) (r' : Nat) (hl : Later hash s r s' r')
    (hf : s'.flags.filtered = false) (hop : s'.op = .none) (a : Nat) (rg : Range)
    (hr : s.range a = some rg) :
    s'.range a = some rg ∧ s.flags.filtered = false ∧ s.op = .none := by
  have hc' : Covered hash s' r' := (be_family_all hash).later h hl
  have hns : s'.flags.started = false := (gp_started_iff hc').mpr ⟨hf, hop⟩
  obtain ⟨k1, k2⟩ := range_kept_until_filter_starts hash s r h s' r' hl hns a rg hr
  exact ⟨k1, (gp_started_iff h).mp k2⟩

/-! ## non-vacuity -/

section examples
open LP.Props.C14reach LP.Props.C14reachG LP.Props.C01reach LP.PL

/-- launchpad-with-nft: `n10` (base lottery complete, NFT draw not started) and `n11` (NFT draw
    interrupted) are reachable -/
theorem gp_n10_reach : Reach id .nft n10 12 :=
  Reach.callOk { caller := 9, round := 12 } .select n9_reach (by decide) (Or.inl rfl) trivial rfl

theorem gp_n11_reach : Reach id .nft n11 13 :=
  Reach.callOk { caller := 9, round := 13, budget := some 0 } .selectNft gp_n10_reach
    (by decide) (Or.inl rfl) trivial rfl

/-- `ranges_partition_until_completion` on launchpad-with-nft with `selected ∧ ¬additional`, the
    draw interrupted: 7 holds `[1,2]`, 8 holds `[3,3]`, total 3 -/
example : Covered id n11 13 ∧ n11.flags.filtered = true ∧ n11.flags.selected = true ∧
    n11.flags.additional = false ∧ n11.op ≠ .none ∧ n11.range 7 = some ⟨1, 2⟩ ∧
    n11.range 8 = some ⟨3, 3⟩ ∧ n11.lastTicketId = 3 ∧ Partition n11 ∧
    (∀ a, n11.confirmed a = size n11 a) := by
  have hc : Covered id n11 13 := .nft gp_n11_reach
  have hnd : ¬ AllDone n11 := fun hh => by have := hh.2; revert this; decide
  obtain ⟨k1, k2⟩ := ranges_partition_until_completion id n11 13 hc rfl hnd
  exact ⟨hc, rfl, rfl, rfl, by decide, rfl, rfl, rfl, k1, k2⟩

/-- … on launchpad-nft-and-guaranteed-tickets in the middle of `secondary` (`g14`: three
    interrupted calls) and after its completion, before any claim (`g15`) -/
example : Covered id g14 14 ∧ g14.flags.filtered = true ∧ g14.flags.selected = true ∧
    g14.flags.additional = false ∧ Partition g14 ∧
    Covered id g15 14 ∧ AllDone g15 ∧ (∀ a, g15.claimed a = false) ∧ Partition g15 ∧
    g15.range 9 = some ⟨4, 5⟩ ∧ g15.lastTicketId = 5 := by
  have hc : Covered id g14 14 := .nftGuar (ng_Reach_iff.mpr ⟨_, g14_reach⟩)
  have hc' : Covered id g15 14 := .nftGuar (ng_Reach_iff.mpr ⟨_, g15_reach⟩)
  have hnd : ¬ AllDone g14 := fun hh => by have := hh.2; revert this; decide +kernel
  have hcl : ∀ a, g15.claimed a = false := fun a => by
    obtain ⟨o, ho⟩ := LP.Props.C14reach.step_stOf
      (x := step id g14 { caller := 9, round := 14 } .secondary) rfl g14
    have ho' : step id g14 { caller := 9, round := 14 } .secondary = .ok (g15, o) := ho
    rcases step_claimed_cases ho' with ⟨_, h1⟩ | ⟨h1, _⟩
    · rw [h1]; exact nobody_claims_before_completion id g14 14 hc hnd a
    · cases h1
  exact ⟨hc, by decide +kernel, by decide +kernel, by decide +kernel,
    (ranges_partition_until_completion id g14 14 hc (by decide +kernel) hnd).1,
    hc', ⟨by decide +kernel, by decide +kernel⟩, hcl,
    (ranges_partition_until_claims id g15 14 hc' (by decide +kernel) hcl).1,
    by decide +kernel, by decide +kernel⟩

/-- the condition `op = .none` of `range_kept_while_unfiltered` cannot be dropped: the interrupted
    `filter` call `g8 → g9` (budget 0) leaves `filtered = false` but has already compacted the record
    of participant 7 from `[1,3]` to `[1,2]` -/
theorem interrupted_filter_rewrites :
    Covered id g8 8 ∧ g8.flags.filtered = false ∧ g8.op = .none ∧ g8.flags.started = false ∧
    g8.range 7 = some ⟨1, 3⟩ ∧
    (∃ o, step id g8 { caller := 9, round := 10, budget := some 0 } .filter = .ok (g9, o)) ∧
    g9.flags.filtered = false ∧ g9.op = .filter 4 1 ∧ g9.flags.started = true ∧
    g9.range 7 = some ⟨1, 2⟩ := by
  refine ⟨.nftGuar (ng_Reach_iff.mpr ⟨_, g8_reach⟩), rfl, rfl, rfl, rfl, ?_, rfl, rfl, rfl, rfl⟩
  exact LP.Props.C14reach.step_stOf
    (x := step id g8 { caller := 9, round := 10, budget := some 0 } .filter) rfl g8

/-- `range_kept_until_filter_starts` from `ex1` (allocation made) to `ex2` (deposit made): the
    filter has not started in `ex2`, the record of 7 is kept -/
example : ex2.flags.started = false ∧ ex2.range 7 = some ⟨1, 2⟩ := by
  have h1 : Reach id .base ex1 1 :=
    Reach.callOk { caller := 1, round := 1 } (.addTickets [(7, 2), (8, 1)]) ex0_reach
      (by decide) (Or.inl rfl) (by show ∀ p ∈ [(7, 2), (8, 1)], 1 ≤ p.2; decide) rfl
  obtain ⟨o, ho⟩ := LP.Props.C14reach.step_stOf
    (x := step id ex1 { caller := 1, round := 2, esdts := [⟨.esdt 1, 0, 5⟩] } .deposit) rfl ex1
  have hl : LP.Props.C18reach.Later id ex1 1 ex2 2 :=
    .call ex1 1 { caller := 1, round := 2, esdts := [⟨.esdt 1, 0, 5⟩] } .deposit ex2 o .refl
      (by decide) ⟨Or.inl rfl, trivial, trivial⟩ ho
  exact ⟨rfl, (range_kept_until_filter_starts id ex1 1 (.plain (Or.inl rfl) h1) ex2 2 hl rfl 7
    ⟨1, 2⟩ rfl).1⟩

/-- `C03_proceeds_until_withdrawal_every_variant` on the three new variants: the states `x14`
    (guarV2), `n12` (nft), `g15` (nftGuar) are reachable with all selection steps complete; in
    `n12 → n13` (a claim) the proceeds stay 10, in `n13 → n14` (the owner's withdrawal) they drop
    to 0 -/
example : (∃ a0, ReachOfA id .guarV2 a0 LP.VV.x14 50 ∧ AllDone LP.VV.x14) ∧
    (∃ a0, ReachOfA id .nft a0 n12 14 ∧ AllDone n12) ∧
    (ReachOfA id .nftGuar gArgs g15 14 ∧ AllDone g15) ∧
    n12.claimablePayment = 10 ∧ n13.claimablePayment = 10 ∧ n14.claimablePayment = 0 := by
  refine ⟨?_, ?_, ⟨g15_reach, by decide +kernel, by decide +kernel⟩, by decide +kernel,
    by decide +kernel, by decide +kernel⟩
  · obtain ⟨a0, h⟩ := Reach_iff.mp LP.VV.x14_reach
    exact ⟨a0, h, by decide +kernel, by decide +kernel⟩
  · obtain ⟨a0, h⟩ := Reach_iff.mp n12_reach
    exact ⟨a0, h, by decide +kernel, by decide +kernel⟩

/-- the history after the completing `select` of the launchpad-with-nft example: an interrupted and
    a completing draw call, then the claim of participant 7 -/
def nftTail : Hist :=
  [({ caller := 9, round := 13, budget := some 0 }, .selectNft),
   ({ caller := 9, round := 14 }, .selectNft), ({ caller := 7, round := 15 }, .claim)]

/-- `C03_proceeds_over_price_until_withdrawal` on launchpad-with-nft: `select` completes in
    `n9 → n10`; after the two draw calls and the claim of participant 7 the quotient
    `claimablePayment / price` is still the number of winning flags at completion, `10 / 10 = 1` -/
example : (run id n10 nftTail).claimablePayment / (run id n10 nftTail).price
      = countTrue n10.status n10.lastTicketId ∧
    countTrue n10.status n10.lastTicketId = 1 ∧ (run id n10 nftTail).claimablePayment = 10 ∧
    (run id n10 nftTail).claimed 7 = true := by
  obtain ⟨a0, h9⟩ := Reach_iff.mp n9_reach
  have h9 : ReachOfA id .nft a0 n9 11 := h9
  obtain ⟨o, ho⟩ := LP.Props.C14reach.step_stOf
    (x := step id n9 { caller := 9, round := 12 } .select) rfl n9
  have ho' : step id n9 { caller := 9, round := 12 } (completionCall .nft) = .ok (n10, o) := ho
  have key := C03_proceeds_over_price_until_withdrawal id .nft a0 n9 11 h9
    { caller := 9, round := 12 } n10 o (by decide) ⟨Or.inl rfl, trivial⟩ ho' rfl nftTail
    ⟨by decide, by decide, by decide, trivial⟩
    (by
      intro x hx
      simp only [nftTail, List.mem_cons, List.not_mem_nil, or_false] at hx
      rcases hx with rfl | rfl | rfl <;> exact ⟨Or.inl rfl, trivial⟩)
    (by
      intro x hx
      simp only [nftTail, List.mem_cons, List.not_mem_nil, or_false] at hx
      rcases hx with rfl | rfl | rfl <;> nofun)
  exact ⟨key.2.2.2.2, by decide +kernel, by decide +kernel, by decide +kernel⟩

end examples

end LP.Props.C03proceeds

#print axioms LP.Props.C03proceeds.C03_proceeds_until_withdrawal_every_variant
#print axioms LP.Props.C03proceeds.C03_proceeds_nft_until_draw
#print axioms LP.Props.C03proceeds.proceeds_step
#print axioms LP.Props.C03proceeds.C03_proceeds_constant_run
#print axioms LP.Props.C03proceeds.C03_proceeds_over_price_until_withdrawal
#print axioms LP.Props.C03proceeds.ticket_space_frozen_after_filter
#print axioms LP.Props.C03proceeds.partition_kept
#print axioms LP.Props.C03proceeds.ticket_space_frozen_until_claims
#print axioms LP.Props.C03proceeds.ranges_partition_until_claims
#print axioms LP.Props.C03proceeds.nobody_claims_before_completion
#print axioms LP.Props.C03proceeds.ranges_partition_until_completion
#print axioms LP.Props.C03proceeds.ranges_partition_until_claims_run
#print axioms LP.Props.C03proceeds.filter_not_started_iff
#print axioms LP.Props.C03proceeds.range_kept_until_filter_starts
#print axioms LP.Props.C03proceeds.range_kept_while_unfiltered
#print axioms LP.Props.C03proceeds.gp_n10_reach
#print axioms LP.Props.C03proceeds.gp_n11_reach
#print axioms LP.Props.C03proceeds.interrupted_filter_rewrites
