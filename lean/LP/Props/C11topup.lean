import LP.Proofs.TopUp
import LP.Proofs.GuarLoop
/-
  C11 — honouring the guarantees (distribution step, part 1).
-/
namespace LP

/-! ### B1. `topUp` -/

theorem C11_topUp (status st' : Nat → Bool) (cur len remaining marked rem : Nat)
    (h : topUp status cur len remaining = (st', marked, rem)) :
    marked + rem = remaining ∧
    (∀ t, (t < cur ∨ cur + len ≤ t) → st' t = status t) ∧
    (∀ t, status t = true → st' t = true) ∧
    countWinning st' cur len = countWinning status cur len + marked ∧
    marked = min remaining (len - countWinning status cur len) ∧
    (remaining ≤ len - countWinning status cur len → rem = 0) := by
  have e1 : st' = (topUp status cur len remaining).1 := by rw [h]
  have e2 : marked = (topUp status cur len remaining).2.1 := by rw [h]
  have e3 : rem = (topUp status cur len remaining).2.2 := by rw [h]
  subst e1 e2 e3
  exact ⟨topUp_sum _ _ _ _, fun t ht => topUp_outside _ _ _ _ t ht,
    fun t ht => topUp_mono _ _ _ _ t ht, topUp_count _ _ _ _, topUp_marked _ _ _ _,
    topUp_enough _ _ _ _⟩

example : (topUp (fun t => t == 2) 1 3 5).2 = (2, 3) ∧
    (topUp (fun t => t == 2) 1 3 5).1 1 = true ∧ (topUp (fun t => t == 2) 1 3 5).1 4 = false :=
  ⟨rfl, rfl, rfl⟩

/-! ### B2. `calcV2`, `calcV1` -/

theorem C11_calcV2 (infos : List (Nat × Nat)) (conf g l : Nat) (h : calcV2 infos conf = (g, l)) :
    g + l = sumG infos ∧ g ≤ conf ∧
    g = min conf (sumG (infos.filter (fun i => decide (conf ≥ i.2)))) := by
  have e1 : g = (calcV2 infos conf).1 := by rw [h]
  have e2 : l = (calcV2 infos conf).2 := by rw [h]
  subst e1 e2
  exact ⟨calcV2_sum _ _, calcV2_le_conf _ _, calcV2_fst _ _⟩

theorem C11_calcV1 (st : UTS) (conf minc g l : Nat) (h : calcV1 st conf minc = (g, l)) :
    g + l = st.c + st.d := by
  have e1 : g = (calcV1 st conf minc).1 := by rw [h]
  have e2 : l = (calcV1 st conf minc).2 := by rw [h]
  subst e1 e2
  exact calcV1_sum _ _ _

example : calcV2 [(2, 2), (3, 5), (1, 1)] 2 = (2, 4) := by decide

/-! ### B3. `processGuaranteed` -/

theorem C11_processGuaranteed (status st' : Nat → Bool) (r : Range) (g lo add : Nat)
    (hg : g ≤ rangeLen r) (h : processGuaranteed status (some r) g = (st', lo, add)) :
    lo + add = g ∧
    countWinning st' r.first (rangeLen r) ≥ g ∧
    (∀ t, (t < r.first ∨ r.first + rangeLen r ≤ t) → st' t = status t) ∧
    (∀ t, status t = true → st' t = true) ∧
    countWinning st' r.first (rangeLen r) = countWinning status r.first (rangeLen r) + add := by
  have e1 : st' = (processGuaranteed status (some r) g).1 := by rw [h]
  have e2 : lo = (processGuaranteed status (some r) g).2.1 := by rw [h]
  have e3 : add = (processGuaranteed status (some r) g).2.2 := by rw [h]
  subst e1 e2 e3
  obtain ⟨h1, h2, _, h4, h5, h6⟩ := processGuaranteed_some_general status r g
  refine ⟨h1, ?_, h5, h6, h2⟩
  have : min g (rangeLen r) = g := Nat.min_eq_left hg
  omega

/-- general case, without `g ≤ rangeLen r` -/
theorem C11_processGuaranteed_general (status st' : Nat → Bool) (r : Range) (g lo add : Nat)
    (h : processGuaranteed status (some r) g = (st', lo, add)) :
    lo + add = g ∧
    countWinning st' r.first (rangeLen r) ≥ min g (rangeLen r) ∧
    (∀ t, (t < r.first ∨ r.first + rangeLen r ≤ t) → st' t = status t) ∧
    (∀ t, status t = true → st' t = true) ∧
    countWinning st' r.first (rangeLen r) = countWinning status r.first (rangeLen r) + add ∧
    add = min (g - countWinning status r.first (rangeLen r))
              (rangeLen r - countWinning status r.first (rangeLen r)) := by
  have e1 : st' = (processGuaranteed status (some r) g).1 := by rw [h]
  have e2 : lo = (processGuaranteed status (some r) g).2.1 := by rw [h]
  have e3 : add = (processGuaranteed status (some r) g).2.2 := by rw [h]
  subst e1 e2 e3
  obtain ⟨h1, h2, h3, h4, h5, h6⟩ := processGuaranteed_some_general status r g
  exact ⟨h1, h4, h5, h6, h2, h3⟩

theorem C11_processGuaranteed_none (status : Nat → Bool) (g : Nat) :
    processGuaranteed status none g = (status, g, 0) := rfl

example : ∃ st', processGuaranteed (fun t => t == 5) (some ⟨4, 6⟩) 2 = (st', 1, 1) ∧
    st' 4 = true ∧ st' 5 = true ∧ st' 6 = false := ⟨_, rfl, rfl, rfl, rfl⟩

/-! ### B4. one iteration and the whole first loop -/

theorem C11_guarBody (s : State) (x : GSt) (u : Nat) (rest : List Nat)
    (hwl : x.whitelist = u :: rest) (hul : x.usersLeft ≠ 0) :
    ∃ x', guarBody s x = .ok (x', true) ∧
      x'.whitelist = (swapRemove x.whitelist u).1 ∧
      x'.whitelist.length + 1 = x.whitelist.length ∧
      x'.usersLeft = x.usersLeft - 1 ∧
      x'.leftover + x'.additional =
        x.leftover + x.additional + gOf s.variant.isV2 ((s.uts u).getD {}) ∧
      (∀ t, (∀ r, s.range u = some r → t < r.first ∨ r.first + rangeLen r ≤ t) →
        x'.status t = x.status t) ∧
      (∀ t, x.status t = true → x'.status t = true) :=
  guarBody_step s x u rest hwl hul

/-- the first loop of `guaranteedSubstep`, never interrupted (`budget = none`), started as the
    endpoint starts it: it completes, and `leftover + additional` has grown by
    `Σ_{u ∈ whitelist} gOf (uts u)` -/
theorem C11_guarLoop (s : State) (lo add : Nat) :
    ∃ x', runWhile (guarBody s) (s.whitelist.length + 2) none
        ⟨s.whitelist, s.whitelist.length, s.status, lo, add⟩ = .ok (x', none, .completed) ∧
      x'.whitelist = [] ∧
      x'.leftover + x'.additional =
        lo + add + (s.whitelist.map (fun u => gOf s.variant.isV2 ((s.uts u).getD {}))).sum ∧
      (∀ t, (∀ u ∈ s.whitelist, ∀ r, s.range u = some r →
          t < r.first ∨ r.first + rangeLen r ≤ t) → x'.status t = s.status t) ∧
      (∀ t, s.status t = true → x'.status t = true) :=
  guarLoop_total s s.whitelist.length ⟨s.whitelist, s.whitelist.length, s.status, lo, add⟩
    (s.whitelist.length + 2) rfl rfl (by omega)

/-- with the reserve invariant of C12 the sum is `totalGuaranteed`: every reserved ticket is
    either used for a guarantee (`additional`) or handed to the leftover re-draw -/
theorem C11_guarLoop_total (s : State) (h : GuarInv s.variant.isV2 s) :
    ∃ x', runWhile (guarBody s) (s.whitelist.length + 2) none
        ⟨s.whitelist, s.whitelist.length, s.status, 0, 0⟩ = .ok (x', none, .completed) ∧
      x'.leftover + x'.additional = s.totalGuaranteed := by
  obtain ⟨x', h1, _, h3, _⟩ := C11_guarLoop s 0 0
  refine ⟨x', h1, ?_⟩
  rw [h3, h.total]; simp [gSum]

end LP

#print axioms LP.C11_topUp
#print axioms LP.C11_calcV2
#print axioms LP.C11_calcV1
#print axioms LP.C11_processGuaranteed
#print axioms LP.C11_processGuaranteed_general
#print axioms LP.C11_processGuaranteed_none
#print axioms LP.C11_guarBody
#print axioms LP.C11_guarLoop
#print axioms LP.C11_guarLoop_total
