import LP.Proofs.EventLedger
import LP.Props.C06once
/-
  C20 (history level) — "the event log determines the observable state".

  All statements are along `run` / `runLog` from the deployment `init v a e0` of a variant, for ANY
  history `p` (rejected transactions allowed, no side condition on rounds; `EnvOK` only for the
  balance).  `l = runLog hash s0 p` is the log of accepted transactions (each entry = environment,
  call, output with its events), `el_events l` the flat event list.

  1. confirmations
     `confirmed_replayed`        the indexer `el_replay` (confirm events add their ticket count to the
                                 caller, a blacklisting zeroes the listed users, a first claim zeroes the
                                 caller) reproduces `confirmed` and `claimed` exactly — all variants.
     `blacklist_refunds_carry_all`  the refund events of a blacklisting are exactly, in list order, one
                                 per listed user with a non-zero ledger entry, carrying ALL of that
                                 user's confirmed tickets and `price ×` that many.
     `confirmed_sum`             sum form for an address that has not settled:
                                 confirmed a + Σ (refunds of a's blacklistings) = Σ tickets of a's
                                 `confirmTickets` events.
     `payment_balance`           variants without NFT, before any claim / owner withdrawal:
                                 bal tok + Σ refund amounts(tok) = Σ confirm payments(tok) for every
                                 token other than the launchpad token (in particular the payment token).
     NOTE (model fact, not a defect of the proof): the refund event of a blacklisting carries the
     CALLER (owner/support) in its topics and payload, not the refunded address.  The refunded
     addresses are the call argument `l` (v2 `addUsersToBlacklist` repeats it in its own event; the
     other variants and v2 `refundUsers` do not), or the recipients of the matching transfers.  The
     indexer `el_index` therefore reads the list from the call of the entry.
  2. `topics_along_log`          every event carries (caller, round, epoch) of its transaction, the two
                                 pause events excepted.
  3. `completion_events`         at most one `filterTicketsCompleted`, one `selectWinnersCompleted`, one
                                 `distributeGuaranteedTicketsCompleted`; in this order; payloads =
                                 `lastTicketId` / `nrWinning` (/ the increment of `nrWinning`) of the
                                 state right after; an interrupted call (`ret = [1]`) emits nothing.
  4. `v2_claims_sum`             guarV2: Σ amounts of a's `claimLaunchpadTokens` events = `userClaimed a`.
     `last_price_event`          all variants: the last `setTicketPrice` event (if any) carries the
                                 current price and payment token; with none, they are the deployment's.
-/
namespace LP.Props.C20ledger
open LP LP.Events LP.Props.C17 LP.Props.C06

/-- the ledger of a fresh deployment -/
def ledger0 : el_Ledger := (fun _ => 0, fun _ => false)

theorem init_ledger {v : Variant} {a : InitArgs} {e0 : Env} {s0 : State} (hinit : init v a e0 = .ok s0) :
    el_ledgerOf s0 = ledger0 ∧ s0.variant = v := by
  obtain ⟨h1, _, h3⟩ := init_fresh hinit
  have h2 := init_cb hinit
  refine ⟨Prod.ext (congrArg CB.confirmed h2) h3, h1⟩

/-! ## 1. confirmations -/

/-- **1a. the indexer is exact** (all eight variants, any history): replaying the log — every
    `confirmTickets` event adds its ticket count to its caller, a blacklisting zeroes the listed users,
    a first claim zeroes the caller — gives exactly `confirmed` and `claimed` of the final state -/
theorem confirmed_replayed (hash : List Nat → List Nat) {v : Variant} {a : InitArgs} {e0 : Env} {s0 : State}
    (hinit : init v a e0 = .ok s0) (p : Hist) :
    el_replay v ledger0 (runLog hash s0 p) = ((run hash s0 p).confirmed, (run hash s0 p).claimed) := by
  obtain ⟨h1, h2⟩ := init_ledger hinit
  have := el_replay_chain (runLog_chain hash p s0)
  rw [h1, h2] at this
  exact this

/-- **1b. a blacklisting refund carries all confirmed tickets**: cut the log at a `blacklist bl` /
    `refundUsers bl` entry `x`; with `L` the indexer's ledger and `s1` the state before `x`, the
    `refundTicketPayment` events of `x` are exactly, in the order of `bl`, one per listed user `u` with
    `L u > 0`, carrying `L u` tickets (all of them), the payment token and `price × L u`; their
    tickets add up to the listed users' ledger entries -/
theorem blacklist_refunds_carry_all (hash : List Nat → List Nat) {v : Variant} {a : InitArgs} {e0 : Env}
    {s0 : State} (hinit : init v a e0 = .ok s0) (p : Hist) (l1 l2 : List Entry) (x : Entry) (bl : List Nat)
    (hl : runLog hash s0 p = l1 ++ x :: l2) (hx : x.2.1 = .blacklist bl ∨ x.2.1 = .refundUsers bl) :
    let L := (el_replay v ledger0 l1).1
    let s1 := run hash s0 (l1.map Entry.tx)
    x.2.2.events.filter (fun ev => ev.name == "refundTicketPayment")
      = bl.filterMap (fun u => if L u > 0 then
          some ⟨"refundTicketPayment", [x.1.caller, x.1.round, x.1.epoch],
            [x.1.caller, x.1.round, x.1.epoch, L u, s1.payTok.code, 0, s1.price * L u]⟩ else none) ∧
    el_sum el_refundTix x.2.2.events = (bl.map L).sum ∧
    (∀ u ∈ bl, (el_replay v ledger0 (l1 ++ [x])).1 u = 0) := by
  intro L s1
  have hc := runLog_chain hash p s0
  rw [hl] at hc
  obtain ⟨t1, t2, c1, hst, _⟩ := hc.split
  obtain ⟨i1, i2⟩ := init_ledger hinit
  have hs1 : s1 = t1 := c1.replay.2
  have hL : el_replay v ledger0 l1 = el_ledgerOf t1 := by
    have := el_replay_chain c1
    rw [i1, i2] at this; exact this
  have hL1 : L = t1.confirmed := congrArg Prod.fst hL
  obtain ⟨k1, ⟨tail, hev, htail⟩, _⟩ := el_blacklist_out hx hst
  refine ⟨?_, ?_, ?_⟩
  · rw [k1, hL1, hs1]; rfl
  · rw [hev, el_sum_append, (el_bl_refund_sums t1 x.1 0 bl).1,
      el_sum_zero (fun ev hh => el_refundTix_other (htail ev hh).1), hL1]
    rfl
  · intro u hu
    rw [el_replay_append, hL]
    have hv1 : t1.variant = v := (el_chain_variant c1).trans i2
    have := el_index_step hst
    rw [hv1] at this
    show (el_index v (el_ledgerOf t1) x).1 u = 0
    rw [show x = (x.1, x.2.1, x.2.2) from rfl, this]
    have hcb : t2.confirmed = (cbAfter t1 x.1 x.2.1).confirmed := congrArg CB.confirmed (step_cb hst)
    show t2.confirmed u = 0
    rw [hcb]
    rcases hx with hx | hx <;> (rw [hx]; simp [cbAfter, hu])

/-- **1c. sum form** (all variants, any history): for an address `a` that has not settled in the final
    state, `confirmed a` + the tickets refunded to `a` by blacklistings (each refund being `a`'s whole
    ledger entry at that moment, see 1b) = Σ tickets of the `confirmTickets` events with caller `a` -/
theorem confirmed_sum (hash : List Nat → List Nat) {v : Variant} {a : InitArgs} {e0 : Env} {s0 : State}
    (hinit : init v a e0 = .ok s0) (p : Hist) (u : Nat) (hcl : (run hash s0 p).claimed u = false) :
    (run hash s0 p).confirmed u + el_blRefunded v u ledger0 (runLog hash s0 p)
      = el_sum (el_confirmTix u) (el_events (runLog hash s0 p)) := by
  obtain ⟨h1, h2⟩ := init_ledger hinit
  have := el_confirmed_sum (runLog_chain hash p s0) hcl
  rw [h1, h2] at this
  have h0 : s0.confirmed u = 0 := by
    have := congrArg (fun L : el_Ledger => L.1 u) h1
    exact this
  rw [h0, Nat.zero_add] at this
  exact this

/-- no claim and no owner withdrawal is in the log while the base selection has not completed -/
theorem no_claim_before_selection (hash : List Nat → List Nat) {v : Variant} {a : InitArgs} {e0 : Env}
    {s0 : State} (hinit : init v a e0 = .ok s0) (p : Hist) (hsel : (run hash s0 p).flags.selected = false) :
    ∀ x ∈ runLog hash s0 p, x.isClaim = false := by
  intro x hx
  cases hq : x.isClaim with
  | false => rfl
  | true =>
    obtain ⟨j, hj⟩ := List.mem_iff_getElem?.1 hx
    obtain ⟨_, h2, _, _, _, _, h7⟩ := completed_once_from_init hash hinit p
    obtain ⟨_, ⟨i, y, _, hi, hy⟩, _⟩ := h7 j x hj hq
    have : (runLog hash s0 p).any Entry.doneSelect = true :=
      List.any_eq_true.2 ⟨y, List.mem_of_getElem? hi, hy⟩
    rw [← h2, hsel] at this
    cases this

/-- **1d. payment balance** (the six variants without NFTs; call values well-formed: EGLD or ESDT,
    not both; log without claim / owner withdrawal — e.g. any time before the base selection completes,
    `no_claim_before_selection`): for every token other than the launchpad token, in particular the
    payment token, the contract's balance + Σ amounts of the refund events in that token = Σ payments
    of the confirm events in that token -/
theorem payment_balance (hash : List Nat → List Nat) {v : Variant} {a : InitArgs} {e0 : Env} {s0 : State}
    (hinit : init v a e0 = .ok s0) (hv : v.hasNft = false) (p : Hist) (hok : ∀ y ∈ p, EnvOK y.1)
    (hcl : ∀ x ∈ runLog hash s0 p, x.isClaim = false) (tok : Token) (ht : tok ≠ .esdt a.lpTok) :
    (run hash s0 p).bal tok 0 + el_sum (el_refundAmt tok.code) (el_events (runLog hash s0 p))
      = el_sum (el_confirmPay tok.code) (el_events (runLog hash s0 p)) := by
  obtain ⟨_, h2⟩ := init_ledger hinit
  obtain ⟨b0, _, _, _, hlp⟩ := el_init_ledger hinit
  have hok' : ∀ x ∈ runLog hash s0 p, EnvOK x.1 := by
    intro x hx
    have hm : Entry.tx x ∈ (runLog hash s0 p).map Entry.tx := List.mem_map_of_mem hx
    exact hok _ ((runLog_sublist hash p s0).subset hm)
  have := el_chain_bal (runLog_chain hash p s0) hok' (by rw [h2]; exact hv) hcl (tok := tok)
    (by rw [hlp]; exact ht)
  rw [b0] at this
  simpa using this

/-! ## 2. topics -/

/-- **2. topics along the log** (all variants, any start state): every event of every logged
    transaction carries `[caller, round, epoch]` of that transaction; the only exceptions are the two
    topic-less pause events, emitted by `pause` / `unpause` -/
theorem topics_along_log (hash : List Nat → List Nat) (s : State) (p : Hist) :
    ∀ x ∈ runLog hash s p, ∀ ev ∈ x.2.2.events,
      (x.2.1 = .pause ∧ ev = ⟨"pauseContract", [], []⟩) ∨
      (x.2.1 = .unpause ∧ ev = ⟨"unpauseContract", [], []⟩) ∨
      ev.topics = [x.1.caller, x.1.round, x.1.epoch] :=
  el_topics_chain (runLog_chain hash p s)

/-- every event name identifies its endpoint: the events of a logged transaction carry only the names
    listed for its endpoint (`el_namesOf`) -/
theorem names_along_log (hash : List Nat → List Nat) (s : State) (p : Hist) :
    ∀ x ∈ runLog hash s p, ∀ ev ∈ x.2.2.events, ev.name ∈ el_namesOf x.2.1 := by
  intro x hx ev hev
  obtain ⟨_, _, s1, s2, _, _, hst, _⟩ := el_chain_mem (runLog_chain hash p s) hx
  exact el_names hst ev hev

/-! ## 3. completion events -/

/-- an entry with a `filterTicketsCompleted` event is a completed filter, etc. -/
theorem done_of_event {hash : List Nat → List Nat} {s1 s2 : State} {x : Entry}
    (hst : step hash s1 x.1 x.2.1 = .ok (s2, x.2.2)) :
    ((∃ ev ∈ x.2.2.events, ev.name = "filterTicketsCompleted") → x.doneFilter = true) ∧
    ((∃ ev ∈ x.2.2.events, ev.name = "selectWinnersCompleted") → x.doneSelect = true) ∧
    ((∃ ev ∈ x.2.2.events, ev.name = "distributeGuaranteedTicketsCompleted") →
      s1.variant.isV2 = true ∧ x.doneAdditional = true) := by
  refine ⟨?_, ?_, ?_⟩
  · intro h
    have hp := el_has_name_count h
    rw [(el_filter_entry hst).1] at hp
    split at hp
    · assumption
    · omega
  · intro h
    have hp := el_has_name_count h
    rw [(el_select_entry hst).1] at hp
    split at hp
    · assumption
    · omega
  · intro h
    have hp := el_has_name_count h
    rw [(el_distribute_entry hst).1] at hp
    split at hp
    · assumption
    · omega

/-- **3. completion events** (all variants; any start state `s` with `selected → filtered`, in
    particular every deployment): in the event log of any history
    * there is at most one `filterTicketsCompleted`, at most one `selectWinnersCompleted`, at most one
      `distributeGuaranteedTicketsCompleted` event;
    * the transaction emitting `filterTicketsCompleted` comes before the one emitting
      `selectWinnersCompleted`, which comes before the one emitting
      `distributeGuaranteedTicketsCompleted`;
    * cut the log at an entry `x`, `s2` being the state right after it: a `filterTicketsCompleted` event
      is the only event of `x` and carries `s2.lastTicketId`; a `selectWinnersCompleted` event is the
      only one and carries `s2.nrWinning`; a `distributeGuaranteedTicketsCompleted` event is the only
      one and carries `s2.nrWinning − s1.nrWinning`;
    * an interrupted selection call (`ret = [1]`) emits no event at all. -/
theorem completion_events (hash : List Nat → List Nat) (s : State) (p : Hist) :
    let l := runLog hash s p
    el_nameCount "filterTicketsCompleted" (el_events l) ≤ 1 ∧
    el_nameCount "selectWinnersCompleted" (el_events l) ≤ 1 ∧
    el_nameCount "distributeGuaranteedTicketsCompleted" (el_events l) ≤ 1 ∧
    (∀ (i j : Nat) (x y : Entry), l[i]? = some x → l[j]? = some y →
      (∃ ev ∈ x.2.2.events, ev.name = "filterTicketsCompleted") →
      (∃ ev ∈ y.2.2.events, ev.name = "selectWinnersCompleted") → i < j) ∧
    (∀ (i j : Nat) (x y : Entry), l[i]? = some x → l[j]? = some y →
      (∃ ev ∈ x.2.2.events, ev.name = "selectWinnersCompleted") →
      (∃ ev ∈ y.2.2.events, ev.name = "distributeGuaranteedTicketsCompleted") → i < j) ∧
    (∀ (l1 l2 : List Entry) (x : Entry), l = l1 ++ x :: l2 →
      let s1 := run hash s (l1.map Entry.tx)
      let s2 := run hash s ((l1 ++ [x]).map Entry.tx)
      ((∃ ev ∈ x.2.2.events, ev.name = "filterTicketsCompleted") →
        x.2.2.events = [⟨"filterTicketsCompleted", [x.1.caller, x.1.round, x.1.epoch],
          [x.1.caller, x.1.round, x.1.epoch, s2.lastTicketId]⟩]) ∧
      ((∃ ev ∈ x.2.2.events, ev.name = "selectWinnersCompleted") →
        x.2.2.events = [⟨"selectWinnersCompleted", [x.1.caller, x.1.round, x.1.epoch],
          [x.1.caller, x.1.round, x.1.epoch, s2.nrWinning]⟩]) ∧
      ((∃ ev ∈ x.2.2.events, ev.name = "distributeGuaranteedTicketsCompleted") →
        ∃ add, s2.nrWinning = s1.nrWinning + add ∧
          x.2.2.events = [⟨"distributeGuaranteedTicketsCompleted", [x.1.caller, x.1.round, x.1.epoch],
            [x.1.caller, x.1.round, x.1.epoch, add]⟩])) ∧
    (∀ x ∈ l, x.2.1.isSelection = true → x.2.2.ret = [1] → x.2.2.events = []) := by
  intro l
  have hc : LogChain hash s l (run hash s p) := runLog_chain hash p s
  obtain ⟨k1, k2, k3, k4, k5, _⟩ := completed_once hash s p
  have hdone : ∀ {i : Nat} {x : Entry}, l[i]? = some x → ∃ s1 s2, step hash s1 x.1 x.2.1 = .ok (s2, x.2.2) := by
    intro i x hi
    obtain ⟨_, _, s1, s2, _, _, hst, _⟩ := el_chain_mem hc (List.mem_of_getElem? hi)
    exact ⟨s1, s2, hst⟩
  refine ⟨?_, ?_, ?_, ?_, ?_, ?_, ?_⟩
  · rw [el_count_filter hc]; exact k1
  · rw [el_count_select hc]; exact k2
  · exact Nat.le_trans (el_count_distribute hc) k3
  · intro i j x y hi hj hx hy
    obtain ⟨_, _, h1⟩ := hdone hi
    obtain ⟨_, _, h2⟩ := hdone hj
    exact k4 i j x y hi hj ((done_of_event h1).1 hx) ((done_of_event h2).2.1 hy)
  · intro i j x y hi hj hx hy
    obtain ⟨_, _, h1⟩ := hdone hi
    obtain ⟨_, _, h2⟩ := hdone hj
    exact k5 i j x y hi hj ((done_of_event h1).2.1 hx) ((done_of_event h2).2.2 hy).2
  · intro l1 l2 x hl s1 s2
    have hc' := hc
    rw [hl] at hc'
    obtain ⟨t1, t2, c1, hst, _⟩ := hc'.split
    have e1 : s1 = t1 := c1.replay.2
    have c2 : LogChain hash s (l1 ++ [x]) t2 := el_chain_append c1 (.cons hst (.nil t2))
    have e2 : s2 = t2 := c2.replay.2
    have hd := done_of_event hst
    refine ⟨?_, ?_, ?_⟩
    · intro h
      rw [e2]
      exact (el_filter_entry hst).2 (hd.1 h)
    · intro h
      rw [e2]
      exact (el_select_entry hst).2 (hd.2.1 h)
    · intro h
      rw [e1, e2]
      exact (el_distribute_entry hst).2 (hd.2.2 h).1 (hd.2.2 h).2
  · intro x hx hsel hr
    obtain ⟨_, _, s1, s2, _, _, hst, _⟩ := el_chain_mem hc hx
    exact el_interrupted_silent hst hsel hr

/-- from a deployment the filter event also precedes the distribution event (`selected → filtered`
    holds at deployment) -/
theorem filter_before_distribution (hash : List Nat → List Nat) {v : Variant} {a : InitArgs} {e0 : Env}
    {s0 : State} (hinit : init v a e0 = .ok s0) (p : Hist) (i j : Nat) (x y : Entry)
    (hi : (runLog hash s0 p)[i]? = some x) (hj : (runLog hash s0 p)[j]? = some y)
    (hx : ∃ ev ∈ x.2.2.events, ev.name = "filterTicketsCompleted")
    (hy : ∃ ev ∈ y.2.2.events, ev.name = "distributeGuaranteedTicketsCompleted") : i < j := by
  have hc := runLog_chain hash p s0
  obtain ⟨_, _, _, _, _, _, h1, _⟩ := el_chain_mem hc (List.mem_of_getElem? hi)
  obtain ⟨_, _, _, _, _, _, h2, _⟩ := el_chain_mem hc (List.mem_of_getElem? hj)
  exact (completed_once hash s0 p).2.2.2.2.2 (init_phaseOK hinit).sel_fil i j x y hi hj
    ((done_of_event h1).1 hx) ((done_of_event h2).2.2 hy).2

/-! ## 4. v2 claims, price changes -/

/-- **4a. v2 claim payouts** (guarV2, any history): for every address, the launchpad-token amounts of
    its `claimLaunchpadTokens` events add up to `userClaimed` of the final state -/
theorem v2_claims_sum (hash : List Nat → List Nat) {a : InitArgs} {e0 : Env} {s0 : State}
    (hinit : init .guarV2 a e0 = .ok s0) (p : Hist) (u : Nat) :
    (run hash s0 p).userClaimed u = el_sum (el_claimAmt u) (el_events (runLog hash s0 p)) := by
  obtain ⟨_, h2⟩ := init_ledger hinit
  obtain ⟨_, u0, _⟩ := el_init_ledger hinit
  have := el_chain_userClaimed (runLog_chain hash p s0) h2 u
  rw [u0] at this
  simpa using this

/-- **4b. the last price change** (all variants, any history): price and payment token of the final
    state are what the last `setTicketPrice` event of the log carries; with no such event they are the
    deployment's -/
theorem last_price_event (hash : List Nat → List Nat) {v : Variant} {a : InitArgs} {e0 : Env} {s0 : State}
    (hinit : init v a e0 = .ok s0) (p : Hist) :
    let s := run hash s0 p
    let evs := el_events (runLog hash s0 p)
    (s.price, s.payTok.code) = el_priceAfter (a.price, a.payTok.code) evs ∧
    (∀ ev, el_lastSet evs = some ev → s.price = el_fld ev 5 ∧ s.payTok.code = el_fld ev 3) ∧
    (el_lastSet evs = none → s.price = a.price ∧ s.payTok = a.payTok) := by
  intro s evs
  obtain ⟨_, _, hp, ht, _⟩ := el_init_ledger hinit
  have h := el_chain_price (runLog_chain hash p s0)
  rw [hp, ht] at h
  refine ⟨h, ?_, ?_⟩
  · intro ev hev
    have h' := h
    unfold el_priceAfter at h'
    rw [hev] at h'
    exact ⟨congrArg Prod.fst h', congrArg Prod.snd h'⟩
  · intro hnone
    have h' := h
    unfold el_priceAfter at h'
    rw [hnone] at h'
    exact ⟨congrArg Prod.fst h', el_code_inj (congrArg Prod.snd h')⟩

/-! ## non-vacuity (hash = `id`) -/

def bArgs : InitArgs :=
  { lpTok := 1, perTicket := 5, payTok := .egld, price := 10, nrWinning := 1, conf := 5, sel := 10, claim := 15 }
def bEnv : Env := { caller := 1, round := 0 }

/-- base launchpad: the owner changes the price to 12, 7 confirms 2 tickets, 8 confirms 1, 8 is
    blacklisted (refund of 12), the filter is interrupted once, then filter, select, 7 claims -/
def b0 : State := match init .base bArgs bEnv with | .ok s => s | .error _ => default
def bHist : Hist :=
  [ ({ caller := 1, round := 1 }, .addTickets [(7, 2), (8, 1)]),
    ({ caller := 1, round := 2, esdts := [⟨.esdt 1, 0, 5⟩] }, .deposit),
    ({ caller := 1, round := 3 }, .setTicketPrice .egld 12),
    ({ caller := 7, round := 5, egld := 24 }, .confirm 2),
    ({ caller := 8, round := 6, egld := 12 }, .confirm 1),
    ({ caller := 1, round := 7 }, .blacklist [8]),
    ({ caller := 9, round := 10, budget := some 0 }, .filter),
    ({ caller := 9, round := 11 }, .filter),
    ({ caller := 9, round := 12 }, .select),
    ({ caller := 7, round := 15 }, .claim) ]

theorem b0_init : init .base bArgs bEnv = .ok b0 := rfl

/-- the event log of the history, and the quantities of the theorems on it -/
example : (el_events (runLog id b0 bHist)).map (fun ev => ev.name) =
      ["setTicketPrice", "confirmTickets", "confirmTickets", "refundTicketPayment",
       "filterTicketsCompleted", "selectWinnersCompleted", "refundTicketPayment"] ∧
    (runLog id b0 (bHist.take 6)).length = 6 ∧
    (run id b0 (bHist.take 6)).confirmed 7 = 2 ∧ (run id b0 (bHist.take 6)).confirmed 8 = 0 ∧
    el_sum (el_confirmTix 7) (el_events (runLog id b0 (bHist.take 6))) = 2 ∧
    el_sum (el_confirmTix 8) (el_events (runLog id b0 (bHist.take 6))) = 1 ∧
    el_blRefunded .base 8 ledger0 (runLog id b0 (bHist.take 6)) = 1 ∧
    (run id b0 (bHist.take 6)).bal .egld 0 = 24 ∧
    el_sum (el_confirmPay 0) (el_events (runLog id b0 (bHist.take 6))) = 36 ∧
    el_sum (el_refundAmt 0) (el_events (runLog id b0 (bHist.take 6))) = 12 ∧
    (run id b0 bHist).price = 12 ∧ (run id b0 bHist).lastTicketId = 2 := by decide +kernel

/-- the hypotheses of `payment_balance` and `confirmed_sum` hold on the first six transactions -/
example : (∀ y ∈ bHist.take 6, EnvOK y.1) ∧ (run id b0 (bHist.take 6)).flags.selected = false ∧
    (run id b0 (bHist.take 6)).claimed 8 = false := by
  refine ⟨?_, by decide +kernel, by decide +kernel⟩
  intro y hy
  simp [bHist] at hy
  rcases hy with rfl | rfl | rfl | rfl | rfl | rfl <;> simp [EnvOK]

example := payment_balance id b0_init rfl (bHist.take 6)
example := confirmed_sum id b0_init (bHist.take 6) 8

def vArgs : InitArgs :=
  { lpTok := 1, perTicket := 5, payTok := .egld, price := 10, nrWinning := 3, conf := 5, sel := 10, claim := 15 }

/-- guarV2: two participants, 7 confirms both tickets, selection, distribution, 7 claims twice -/
def v0 : State := match init .guarV2 vArgs bEnv with | .ok s => s | .error _ => default
def vHist : Hist :=
  [ ({ caller := 1, round := 1 }, .addTicketsV2 [(7, 2, []), (8, 1, [])]),
    ({ caller := 1, round := 2, esdts := [⟨.esdt 1, 0, 15⟩] }, .deposit),
    ({ caller := 7, round := 5, egld := 20 }, .confirm 2),
    ({ caller := 9, round := 10 }, .filter),
    ({ caller := 9, round := 11 }, .select),
    ({ caller := 9, round := 12 }, .distribute),
    ({ caller := 7, round := 15 }, .claim),
    ({ caller := 7, round := 16 }, .claim) ]

theorem v0_init : init .guarV2 vArgs bEnv = .ok v0 := rfl

example : (el_events (runLog id v0 vHist)).map (fun ev => ev.name) =
      ["addTickets", "confirmTickets", "filterTicketsCompleted", "selectWinnersCompleted",
       "distributeGuaranteedTicketsCompleted", "claimLaunchpadTokens"] ∧
    (run id v0 vHist).userClaimed 7 = 10 ∧
    el_sum (el_claimAmt 7) (el_events (runLog id v0 vHist)) = 10 := by decide +kernel

example := v2_claims_sum id v0_init vHist 7

end LP.Props.C20ledger

#print axioms LP.Props.C20ledger.confirmed_replayed
#print axioms LP.Props.C20ledger.blacklist_refunds_carry_all
#print axioms LP.Props.C20ledger.confirmed_sum
#print axioms LP.Props.C20ledger.no_claim_before_selection
#print axioms LP.Props.C20ledger.payment_balance
#print axioms LP.Props.C20ledger.topics_along_log
#print axioms LP.Props.C20ledger.names_along_log
#print axioms LP.Props.C20ledger.done_of_event
#print axioms LP.Props.C20ledger.completion_events
#print axioms LP.Props.C20ledger.filter_before_distribution
#print axioms LP.Props.C20ledger.v2_claims_sum
#print axioms LP.Props.C20ledger.last_price_event
#print axioms LP.Props.C20ledger.init_ledger
#print axioms LP.Props.C20ledger.b0_init
#print axioms LP.Props.C20ledger.v0_init
