import LP.Proofs.NftDraw
import LP.Props.C09
/-
  C14 — the NFT draw picks min(available, payers) distinct payers; fees reconcile.

  * `swapRemove_exact`, `setInsert_exact`          : the unordered set
  * `nftBody_iteration`, `nftBody_stops_iff`       : one iteration of the draw
  * `draw_loop_completed`, `nftSubstep_exact`      : the loop, one call
  * `selectNft_call`, `draw_total`                 : the endpoint, any number of calls
  * `confirmNft_accepted_iff`, `confirmNft_effect`, `confirmNft_twice_rejected`
  * `claim_nft_effect`                             : the NFT part of `claim` (completes C09.3)
  * `claimPayment_nft`                             : the owner collects `claimableNft`
-/
namespace LP.Props.C14
open LP
open LP.Props.C09

/-! ### 1. the unordered set -/

/-- **C14.1, swapRemove** on a duplicate-free list -/
theorem swapRemove_exact (l : List Nat) (a : Nat) (h : l.Nodup) :
    ((swapRemove l a).2 = true ↔ a ∈ l) ∧
    (a ∉ l → swapRemove l a = (l, false)) ∧
    (swapRemove l a).1.Perm (l.erase a) ∧
    (swapRemove l a).1.Nodup ∧
    (a ∈ l → (swapRemove l a).1.length = l.length - 1) ∧
    (∀ x, x ∈ (swapRemove l a).1 ↔ x ∈ l ∧ x ≠ a) :=
  ⟨nd_swapRemove_snd l a, fun hn => swapRemove_not_mem hn, nd_swapRemove_perm l a, nd_swapRemove_nodup a h,
    fun hm => length_swapRemove hm, fun x => g_mem_swapRemove a x h⟩

/-- **C14.1, setInsert**: appends iff new, keeps the list duplicate-free -/
theorem setInsert_exact (l : List Nat) (a : Nat) :
    ((setInsert l a).2 = true ↔ a ∉ l) ∧
    (a ∉ l → setInsert l a = (l ++ [a], true)) ∧
    (a ∈ l → setInsert l a = (l, false)) ∧
    (l.Nodup → (setInsert l a).1.Nodup) ∧
    (∀ x, x ∈ (setInsert l a).1 ↔ x ∈ l ∨ x = a) :=
  ⟨setInsert_snd l a, fun h => setInsert_new h, fun h => setInsert_old h,
    fun h => setInsert_nodup a h, fun x => mem_setInsert l a x⟩

example : swapRemove [5, 7, 9, 11] 7 = ([5, 11, 9], true) ∧ swapRemove [5, 7] 7 = ([5], true) ∧
    swapRemove [5, 7] 8 = ([5, 7], false) ∧ setInsert [5, 7] 9 = ([5, 7, 9], true) ∧
    setInsert [5, 7] 5 = ([5, 7], false) := by decide

/-! ### 2. one iteration -/

/-- **C14.2**: on a consistent loop state the body never errors; a CONTINUE iteration moves
    exactly one element — the one at index `inRange raw 1 (usersLeft+1) - 1`, which is in bounds —
    from `payers` to the end of `winners`, preserves consistency and the union -/
theorem nftBody_iteration (hash : List Nat → List Nat) (total : Nat) (x : NSt) (hx : DrawOk x) :
    (∃ r, nftBody hash total x = .ok r) ∧
    ∀ x', nftBody hash total x = .ok (x', true) →
      DrawOk x' ∧
      ∃ w, w ∈ x.payers ∧
        x.payers[inRange (x.tx.draw hash x.rng).1 1 (x.usersLeft + 1) - 1]? = some w ∧
        x'.payers.Perm (x.payers.erase w) ∧ x'.winners = x.winners ++ [w] ∧
        x'.payers.length + 1 = x.payers.length ∧ x'.winners.length = x.winners.length + 1 ∧
        (∀ a, (a ∈ x'.payers ∨ a ∈ x'.winners) ↔ (a ∈ x.payers ∨ a ∈ x.winners)) :=
  ⟨nftBody_no_error hash total x hx, fun x' h => by
    obtain ⟨h1, w, h2, h3, h4, h5, h6, h7, h8, _⟩ := nftBody_cont_ok hash total x x' hx h
    exact ⟨h1, w, h2, h3, h4, h5, h6, h7, h8⟩⟩

/-- the body says STOP exactly when no payer is left or all NFTs are assigned -/
theorem nftBody_stops_iff (hash : List Nat → List Nat) (total : Nat) (x x' : NSt) (hx : DrawOk x) :
    nftBody hash total x = .ok (x', false) ↔ (x.usersLeft = 0 ∨ x.selected = total) ∧ x' = x :=
  nftBody_stop_iff hash total x x' hx

/-- non-vacuity: a consistent loop state, one iteration and a complete run on it (scripted raw
    draws 0, 0; three payers, two NFTs) -/
def exTx : Tx := ⟨default, { script := [0, 0] }, {}⟩
def exNSt : NSt := ⟨[5, 7, 9], [], 3, 0, ⟨zeroSeed, 0⟩, exTx⟩

example : DrawOk exNSt := ⟨by decide, by decide, by decide, rfl, rfl⟩

example : (match nftBody id 2 exNSt with
    | .ok (x, c) => (x.payers, x.winners, x.usersLeft, x.selected, c)
    | .error _ => ([], [], 0, 0, false)) = ([9, 7], [5], 2, 1, true) := by decide

example : (match runWhile (nftBody id 2) 5 none exNSt with
    | .ok (x, _, st) => (x.payers, x.winners, st)
    | .error _ => ([], [], .outOfFuel)) = ([7], [5, 9], .completed) := by decide

/-! ### 3. the loop -/

/-- **C14.3, loop**: a run of the draw loop that completes (any fuel, any budget), started from
    duplicate-free disjoint lists `P0`, `W0` with `W0.length ≤ total`, ends with exactly
    `min total (P0.length + W0.length)` distinct winners, all from `P0 ∪ W0`, keeping `W0` -/
theorem draw_loop_completed (hash : List Nat → List Nat) (total : Nat) (P0 W0 : List Nat)
    (rng : Rng) (t : Tx) (f : Nat) (b : Option Nat) (x' : NSt) (b' : Option Nat)
    (hP : P0.Nodup) (hW : W0.Nodup) (hd : ∀ a, a ∈ P0 → a ∉ W0) (hle : W0.length ≤ total)
    (h : runWhile (nftBody hash total) f b ⟨P0, W0, P0.length, W0.length, rng, t⟩
          = .ok (x', b', .completed)) :
    x'.winners.length = min total (P0.length + W0.length) ∧
    x'.winners.Nodup ∧ x'.payers.Nodup ∧ (∀ a, a ∈ x'.payers → a ∉ x'.winners) ∧
    (∀ a ∈ x'.winners, a ∈ P0 ∨ a ∈ W0) ∧ W0 <+: x'.winners ∧
    x'.payers.length + x'.winners.length = P0.length + W0.length ∧
    (∀ a, (a ∈ x'.payers ∨ a ∈ x'.winners) ↔ (a ∈ P0 ∨ a ∈ W0)) := by
  have hr0 : DrawRel total P0 W0 t.s ⟨P0, W0, P0.length, W0.length, rng, t⟩ :=
    ⟨⟨hP, hW, hd, rfl, rfl⟩, hle, rfl, fun _ => Iff.rfl, List.prefix_refl _, rfl⟩
  obtain ⟨hr, hlen, hnd, hsub⟩ := draw_completed f b _ x' b' h hr0
  exact ⟨hlen, hnd, hr.ok.nodupP, hr.ok.disj, hsub, hr.pre, hr.sum, hr.union⟩

/-- **C14.3, one call** (`nftSubstep`, used by `selectNft` and by `secondary`): see
    `LP.nftSubstep_spec`; on completion `claimableNft = fee * winners` -/
theorem nftSubstep_exact {hash : List Nat → List Nat} {t t' : Tx} {rng rng' : Rng} {st : LoopStatus}
    (h : nftSubstep hash t rng = .ok (t', rng', st))
    (hok : NftOk t.s) (hle : t.s.nftWinners.length ≤ t.s.availNfts) :
    st ≠ .outOfFuel ∧ NftOk t'.s ∧ t'.s.nftWinners.length ≤ t.s.availNfts ∧
    t'.s.payers.length + t'.s.nftWinners.length = t.s.payers.length + t.s.nftWinners.length ∧
    (∀ a, (a ∈ t'.s.payers ∨ a ∈ t'.s.nftWinners) ↔ (a ∈ t.s.payers ∨ a ∈ t.s.nftWinners)) ∧
    t.s.nftWinners <+: t'.s.nftWinners ∧
    (st = .completed →
      t'.s.nftWinners.length = min t.s.availNfts (t.s.payers.length + t.s.nftWinners.length) ∧
      t'.s.claimableNft = t.s.nftCost.amount * t'.s.nftWinners.length ∧ t'.s.op = .none) := by
  obtain ⟨h1, h2, h3, h4, h5, h6, h7, h8⟩ := nftSubstep_spec h hok hle
  refine ⟨h1, h3, h4, h5, h6, h7, ?_⟩
  intro hc
  subst hc
  refine ⟨h8 rfl, ?_, ?_⟩
  · rw [h2]; rfl
  · rw [h2]; rfl

/-- **C14.3, the endpoint**: one accepted `selectNftWinners` call -/
theorem selectNft_call (hash : List Nat → List Nat) (s : State) (e : Env) (s' : State) (o : Out)
    (h : step hash s e .selectNft = .ok (s', o))
    (hok : NftOk s) (hle : s.nftWinners.length ≤ s.availNfts) :
    s.stage e = .winnerSelection ∧ s.flags.selected = true ∧ s.flags.additional = false ∧
    NftOk s' ∧ s'.nftWinners.length ≤ s'.availNfts ∧
    s'.availNfts = s.availNfts ∧ s'.nftCost = s.nftCost ∧
    s'.payers.length + s'.nftWinners.length = s.payers.length + s.nftWinners.length ∧
    (∀ a, (a ∈ s'.payers ∨ a ∈ s'.nftWinners) ↔ (a ∈ s.payers ∨ a ∈ s.nftWinners)) ∧
    s.nftWinners <+: s'.nftWinners ∧
    (s'.flags.additional = true ↔ o.ret = [0]) ∧
    (s'.flags.additional = true →
      s'.nftWinners.length = min s.availNfts (s.payers.length + s.nftWinners.length) ∧
      s'.claimableNft = s.nftCost.amount * s'.nftWinners.length) ∧
    s'.bal = s.bal := by
  obtain ⟨m, t, hm, hpay, _, hx, rfl, rfl⟩ := step_ok_inv h
  have hmeta : m = ⟨false, false⟩ := by
    simp only [endpointMeta] at hm
    split at hm
    · exact (Option.some.inj hm).symm
    · cases hm
  subst hmeta
  simp only [Bool.false_eq_true, false_or] at hpay
  have hcred : (tx0 s e).s = s := by
    unfold tx0; exact creditPayments_nopay s e hpay.1 hpay.2
  simp only [exec] at hx
  obtain ⟨hst, hsel, hadd, t0, t1, rng, rng', st, h0, hsub, hfin⟩ := g_selectNft_inv hx
  rw [hcred] at hst hsel hadd h0
  have hok0 : NftOk t0.s := by rw [h0]; exact hok
  have hle0 : t0.s.nftWinners.length ≤ t0.s.availNfts := by rw [h0]; exact hle
  obtain ⟨h1, h2, h3, h4, h5, h6, h7, h8⟩ := nftSubstep_spec hsub hok0 hle0
  rw [h0] at h2 h4 h5 h6 h7 h8
  refine ⟨hst, hsel, hadd, ?_⟩
  rcases hfin with ⟨hc, hs', hret⟩ | ⟨hc, hs', hret⟩
  · subst hc
    have e1 : t.s.payers = t1.s.payers := by rw [hs']
    have e2 : t.s.nftWinners = t1.s.nftWinners := by rw [hs']
    have e3 : t.s.availNfts = s.availNfts := by rw [hs', h2]; rfl
    have e4 : t.s.nftCost = s.nftCost := by rw [hs', h2]; rfl
    have e5 : t.s.claimableNft = s.nftCost.amount * t1.s.nftWinners.length := by rw [hs', h2]; rfl
    have e6 : t.s.flags.additional = true := by rw [hs']
    refine ⟨⟨by rw [e1]; exact h3.nodupP, by rw [e2]; exact h3.nodupW,
        by rw [e1, e2]; exact h3.disj⟩, by rw [e2, e3]; exact h4, e3, e4, by rw [e1, e2]; exact h5,
      by rw [e1, e2]; exact h6, by rw [e2]; exact h7, ?_, ?_, ?_⟩
    · simp [e6, hret]
    · intro _
      exact ⟨by rw [e2]; exact h8 rfl, by rw [e5, e2]⟩
    · rw [hs', h2]; rfl
  · have e1 : t.s.payers = t1.s.payers := by rw [hs']
    have e2 : t.s.nftWinners = t1.s.nftWinners := by rw [hs']
    have hds : ∀ P W, (drawState s P W st).availNfts = s.availNfts ∧
        (drawState s P W st).nftCost = s.nftCost ∧
        (drawState s P W st).flags = s.flags ∧ (drawState s P W st).bal = s.bal := by
      intro P W; cases st <;> exact ⟨rfl, rfl, rfl, rfl⟩
    have e3 : t.s.availNfts = s.availNfts := by rw [hs']; show t1.s.availNfts = _; rw [h2]; exact (hds _ _).1
    have e4 : t.s.nftCost = s.nftCost := by rw [hs']; show t1.s.nftCost = _; rw [h2]; exact (hds _ _).2.1
    have e6 : t.s.flags.additional = false := by
      rw [hs']; show t1.s.flags.additional = _; rw [h2, (hds _ _).2.2.1]; exact hadd
    refine ⟨⟨by rw [e1]; exact h3.nodupP, by rw [e2]; exact h3.nodupW,
        by rw [e1, e2]; exact h3.disj⟩, by rw [e2, e3]; exact h4, e3, e4, by rw [e1, e2]; exact h5,
      by rw [e1, e2]; exact h6, by rw [e2]; exact h7, ?_, ?_, ?_⟩
    · simp [e6, hret]
    · intro hcon; rw [e6] at hcon; cases hcon
    · rw [hs']; show t1.s.bal = _; rw [h2]; exact (hds _ _).2.2.2

/-- a sequence of accepted `selectNftWinners` calls (each resuming where the previous stopped) -/
inductive DrawCalls (hash : List Nat → List Nat) : State → State → Prop
  | refl (s : State) : DrawCalls hash s s
  | step {s s1 s' : State} {e : Env} {o : Out} :
      LP.step hash s e .selectNft = .ok (s1, o) → DrawCalls hash s1 s' → DrawCalls hash s s'

theorem draw_total_gen (hash : List Nat → List Nat) (s s' : State) (h : DrawCalls hash s s') :
    NftOk s → s.nftWinners.length ≤ s.availNfts → s.flags.additional = false →
    s'.flags.additional = true →
    s'.nftWinners.length = min s.availNfts (s.payers.length + s.nftWinners.length) ∧
    s'.claimableNft = s.nftCost.amount * s'.nftWinners.length ∧
    NftOk s' ∧ (∀ a ∈ s'.nftWinners, a ∈ s.payers ∨ a ∈ s.nftWinners) ∧
    s.nftWinners <+: s'.nftWinners := by
  induction h with
  | refl s =>
    intro _ _ h1 h2
    rw [h1] at h2; cases h2
  | @step s s1 s' e o hstep hrest ih =>
    intro hok hle hadd hdone
    obtain ⟨_, _, _, hok1, hle1, hav, hcost, hsum, hun, hpre, _, hfin, _⟩ :=
      selectNft_call hash s e s1 o hstep hok hle
    cases hadd1 : s1.flags.additional
    · obtain ⟨a1, a2, a3, a4, a5⟩ := ih hok1 hle1 hadd1 hdone
      refine ⟨by rw [a1, hav, hsum], by rw [a2, hcost], a3, ?_, hpre.trans a5⟩
      intro a ha
      exact (hun a).mp (by rcases a4 a ha with h | h; exact Or.inl h; exact Or.inr h)
    · -- the draw completed with this call; no further call is accepted
      have hs' : s' = s1 := by
        cases hrest with
        | refl => rfl
        | step hstep2 _ =>
          obtain ⟨m, t, _, _, _, hx, _, _⟩ := step_ok_inv hstep2
          simp only [exec] at hx
          have := (g_selectNft_inv hx).2.2.1
          change s1.flags.additional = false at this
          rw [hadd1] at this
          cases this
      subst hs'
      obtain ⟨b1, b2⟩ := hfin hadd1
      refine ⟨b1, b2, hok1, ?_, hpre⟩
      intro a ha
      exact (hun a).mp (Or.inr ha)

/-- **C14.3, the whole draw**: after any number of `selectNftWinners` calls (any budget
    schedule), once the draw is complete (`flags.additional`) the number of winners is
    `min availNfts (#payers at the start of the draw)`, the winners are distinct payers, and
    `claimableNft = fee * winners` -/
theorem draw_total (hash : List Nat → List Nat) (s s' : State) (h : DrawCalls hash s s')
    (hP : s.payers.Nodup) (hW : s.nftWinners = []) (hadd : s.flags.additional = false)
    (hdone : s'.flags.additional = true) :
    s'.nftWinners.length = min s.availNfts s.payers.length ∧
    s'.claimableNft = s.nftCost.amount * s'.nftWinners.length ∧
    s'.nftWinners.Nodup ∧ (∀ a ∈ s'.nftWinners, a ∈ s.payers) := by
  have hok : NftOk s := ⟨hP, by rw [hW]; exact List.nodup_nil, by rw [hW]; simp⟩
  obtain ⟨a1, a2, a3, a4, _⟩ := draw_total_gen hash s s' h hok (by rw [hW]; simp) hadd hdone
  refine ⟨by simpa [hW] using a1, a2, a3.nodupW, ?_⟩
  intro a ha
  rcases a4 a ha with h | h
  · exact h
  · rw [hW] at h; cases h

/-! ### 4. `confirmNft` -/

/-- the conditions under which an NFT-fee confirmation is accepted -/
def ConfirmNftAccepts (s : State) (e : Env) : Prop :=
  s.variant.hasNft = true ∧ s.stage e = .confirm ∧
  (s.sftIssuedFlag = true ∧ s.sftCreated = true ∧ s.sftRole = true) ∧
  0 < s.confirmed e.caller ∧ e.caller ∉ s.payers ∧
  egldOrSingleEsdt e = .ok s.nftCost

theorem step_confirmNft_ok_iff (hash : List Nat → List Nat) (s : State) (e : Env) (s' : State) (o : Out) :
    step hash s e .confirmNft = .ok (s', o) ↔
      s.variant.hasNft = true ∧
      ∃ s1, confirmNft (creditPayments s e) e = .ok s1 ∧ s' = s1 ∧
        o.xfers = [] ∧ o.locks = [] ∧ o.sfts = [] ∧ o.events = [] ∧ o.ret = [] ∧ o.draws = [] := by
  constructor
  · intro h
    obtain ⟨m, t, hm, _, _, hx, rfl, rfl⟩ := step_ok_inv h
    have hn : s.variant.hasNft = true := by
      simp only [endpointMeta] at hm
      split at hm
      · assumption
      · cases hm
    simp only [exec, bind_ok_iff, pure_ok_iff] at hx
    obtain ⟨s1, h1, rfl⟩ := hx
    exact ⟨hn, s1, h1, rfl, rfl, rfl, rfl, rfl, rfl, rfl⟩
  · rintro ⟨hn, s1, h1, rfl, a1, a2, a3, a4, a5, a6⟩
    unfold step
    simp only [endpointMeta, hn, if_true, Bool.not_true, Bool.false_and, Bool.false_eq_true,
      if_false, exec, h1, bind, Except.bind, pure, Except.pure, Tx.setS]
    cases o
    simp_all

/-- **C14.4, acceptance** -/
theorem confirmNft_accepted_iff (hash : List Nat → List Nat) (s : State) (e : Env) :
    (∃ r, step hash s e .confirmNft = .ok r) ↔ ConfirmNftAccepts s e := by
  constructor
  · rintro ⟨⟨s', o⟩, h⟩
    obtain ⟨hn, s1, h1, _⟩ := (step_confirmNft_ok_iff hash s e s' o).mp h
    obtain ⟨a, b, c, d, f, _⟩ := (confirmNft_ok_iff _ e s1).mp h1
    exact ⟨hn, a, b, c, d, f⟩
  · rintro ⟨hn, a, b, c, d, f⟩
    refine ⟨({ creditPayments s e with payers := s.payers ++ [e.caller] }, {}), ?_⟩
    rw [step_confirmNft_ok_iff]
    exact ⟨hn, _, (confirmNft_ok_iff (creditPayments s e) e _).mpr ⟨a, b, c, d, f, rfl⟩, rfl,
      rfl, rfl, rfl, rfl, rfl, rfl⟩

/-- **C14.4, effect**: the caller is appended to `payers`; the holdings grow by the call value
    (exactly one payment equal to `nftCost`); nothing else changes, nothing is sent -/
theorem confirmNft_effect (hash : List Nat → List Nat) (s : State) (e : Env) (s' : State) (o : Out)
    (h : step hash s e .confirmNft = .ok (s', o)) :
    ConfirmNftAccepts s e ∧
    s' = { creditPayments s e with payers := s.payers ++ [e.caller] } ∧
    o.xfers = [] ∧ o.locks = [] ∧ o.sfts = [] ∧ o.events = [] := by
  obtain ⟨hn, s1, h1, rfl, a1, a2, a3, a4, _⟩ := (step_confirmNft_ok_iff hash s e s' o).mp h
  obtain ⟨a, b, c, d, f, g⟩ := (confirmNft_ok_iff _ e s').mp h1
  exact ⟨⟨hn, a, b, c, d, f⟩, g, a1, a2, a3, a4⟩

/-- the call value of an accepted NFT confirmation is exactly the fee: the holdings of the fee
    token grow by exactly `nftCost.amount` (for a well-formed call value: EGLD or ESDT, not both) -/
theorem confirmNft_holdings (s : State) (e : Env) (hacc : ConfirmNftAccepts s e)
    (hwf : e.egld = 0 ∨ e.esdts = []) :
    (creditPayments s e).bal = s.bal.add s.nftCost.tok s.nftCost.nonce s.nftCost.amount := by
  obtain ⟨_, _, _, _, _, hpay⟩ := hacc
  unfold egldOrSingleEsdt at hpay
  unfold creditPayments
  cases hes : e.esdts with
  | nil =>
    simp only [hes, Except.ok.injEq] at hpay
    simp [← hpay]
  | cons p rest =>
    cases rest with
    | nil =>
      simp only [hes, Except.ok.injEq] at hpay
      have he : e.egld = 0 := by
        cases hwf with
        | inl h => exact h
        | inr h => simp [hes] at h
      subst hpay
      simp only [List.foldl_cons, List.foldl_nil, he]
      funext t k
      simp [Bal.add]
    | cons q rest' => simp [hes] at hpay

/-- **C14.4**: paying the NFT fee twice is rejected -/
theorem confirmNft_twice_rejected (hash : List Nat → List Nat) (s : State) (e : Env)
    (h : e.caller ∈ s.payers) : ∃ err, step hash s e .confirmNft = .error err := by
  cases hs : step hash s e .confirmNft with
  | error err => exact ⟨err, rfl⟩
  | ok r => exact absurd h ((confirmNft_accepted_iff hash s e).mp ⟨r, hs⟩).2.2.2.2.1

/-- after an accepted confirmation the caller is in `payers`, so a second one is rejected (in
    any later state in which the caller is still in `payers`) -/
theorem confirmNft_then_member (hash : List Nat → List Nat) (s : State) (e : Env) (s' : State) (o : Out)
    (h : step hash s e .confirmNft = .ok (s', o)) :
    e.caller ∈ s'.payers ∧ (s.payers.Nodup → s'.payers.Nodup) := by
  obtain ⟨hacc, hs', _⟩ := confirmNft_effect hash s e s' o h
  rw [hs']
  refine ⟨by simp, ?_⟩
  intro hnd
  show (s.payers ++ [e.caller]).Nodup
  have := setInsert_nodup e.caller hnd
  rw [setInsert_new hacc.2.2.2.2.1] at this
  exact this

example : ConfirmNftAccepts
    { variant := .nft, owner := 1, lpTok := 1, perTicket := 1, payTok := .egld, price := 10,
      nrWinning := 1, cfg := ⟨5, 10, 15⟩, flags := {}, support := 1,
      sftIssuedFlag := true, sftCreated := true, sftRole := true,
      confirmed := fun a => if a = 7 then 2 else 0, payers := [3, 4],
      nftCost := ⟨.esdt 9, 0, 500⟩ }
    { caller := 7, round := 6, esdts := [⟨.esdt 9, 0, 500⟩] } := by
  refine ⟨rfl, ?_, ⟨rfl, rfl, rfl⟩, ?_, ?_, rfl⟩ <;> decide

/-! ### 5. the NFT part of `claim` -/

theorem hasNft_props {v : Variant} (h : v.hasNft = true) : v.hasLock = false ∧ v.vested = false := by
  cases v <;> simp_all [Variant.hasLock, Variant.hasNft, Variant.vested]

theorem nftCategory_congr {s1 s2 : State} (a : Nat) (h1 : s1.nftWinners = s2.nftWinners)
    (h2 : s1.payers = s2.payers) : nftCategory s1 a = nftCategory s2 a := by
  unfold nftCategory; rw [h1, h2]

/-- **C14.5**: the category of the SFT: 1 iff the caller won the draw, 2 iff the caller paid the
    fee and lost, 3 otherwise -/
theorem nftCategory_exact (s : State) (a : Nat) (h : NftOk s) :
    (nftCategory s a = 1 ↔ a ∈ s.nftWinners) ∧
    (nftCategory s a = 2 ↔ a ∈ s.payers) ∧
    (nftCategory s a = 3 ↔ a ∉ s.nftWinners ∧ a ∉ s.payers) ∧
    (nftCategory s a = 1 ∨ nftCategory s a = 2 ∨ nftCategory s a = 3) := by
  refine ⟨(nftCategory_iff s a h).1, (nftCategory_iff s a h).2.1, (nftCategory_iff s a h).2.2, ?_⟩
  unfold nftCategory
  split
  · exact Or.inl rfl
  · split
    · exact Or.inr (Or.inl rfl)
    · exact Or.inr (Or.inr rfl)

/-- **C14.5 / C09.3 (NFT variants)**: an accepted `claim` of a variant with the NFT hook
    refunds exactly `price * (confirmed - winning)` payment tokens, delivers exactly
    `winning * perTicket` launchpad tokens directly, hands out exactly one SFT `(caller, category)`
    and refunds the NFT fee in full exactly for category 2 (paid, not drawn); winners (category 1)
    and non-participants (category 3) get no fee refund.  The caller is removed from the list it
    was in, so another `claimNft` would be category 3 (and `claim` is once-only by C09). -/
theorem claim_nft_effect (hash : List Nat → List Nat) (s : State) (e : Env) (s' : State) (o : Out)
    (hn : s.variant.hasNft = true)
    (h : step hash s e .claim = .ok (s', o)) :
    ∃ r, ClaimAccepts s e r ∧ s.sftToken = true ∧
      o.xfers = refundXfers s e.caller ++ tokenXfers s e.caller ++
        (if nftCategory s e.caller = 2 then [(e.caller, s.nftCost)] else []) ∧
      o.sfts = [(e.caller, nftCategory s e.caller)] ∧ o.locks = [] ∧
      s'.nftWinners = (swapRemove s.nftWinners e.caller).1 ∧
      s'.payers = (if nftCategory s e.caller = 2 then (swapRemove s.payers e.caller).1
                   else s.payers) ∧
      s'.claimed e.caller = true ∧ s'.claimableNft = s.claimableNft ∧
      (nftCategory s e.caller = 2 →
        s.nftCost.amount ≤ (balAfterClaim s e.caller) s.nftCost.tok s.nftCost.nonce ∧
        s'.bal = (balAfterClaim s e.caller).sub s.nftCost.tok s.nftCost.nonce s.nftCost.amount) ∧
      (nftCategory s e.caller ≠ 2 → s'.bal = balAfterClaim s e.caller) ∧
      (NftOk s → nftCategory s' e.caller = 3 ∧ NftOk s') ∧
      s'.flags = s.flags ∧ s'.nftCost = s.nftCost := by
  obtain ⟨hl, hv⟩ := hasNft_props hn
  rw [step_claim_ok_iff, exec_claim_nonvested hash _ e hv] at h
  have hvar : ∀ r, (claimMid (txc s e) e r).s.variant = s.variant := by
    intro r; rw [claimMid_state]; rfl
  obtain ⟨h1, h2, t, hx, rfl, rfl⟩ := h
  obtain ⟨r, ⟨hst, hcl, hr, hnw, hle, hb⟩, t2, h3, h4⟩ := (claimBase_ok_iff _ e t).mp hx
  rw [txc_s] at hst hcl hr hnw hle hb h3
  have hl' : (claimMid (txc s e) e r).s.variant.hasLock = false := by rw [hvar]; exact hl
  rw [sendLaunchpadTokens_nolock_ok_iff _ e _ _ _ hl'] at h3
  obtain ⟨hb2, ht2⟩ := h3
  have hw : winCount s e.caller = countWinning s.status r.first (rangeLen r) :=
    winCount_of_range hr
  have hst2 : t2.s = { settledState s e.caller r with bal := balAfterClaim s e.caller } := by
    rw [ht2, sendTokensResult_state, claimMid_state]
    simp only [balAfterClaim, hw, txc]
    rfl
  have hn' : t2.s.variant.hasNft = true := by rw [hst2]; exact hn
  simp only [hn', if_true] at h4
  rw [claimNft_ok_iff] at h4
  obtain ⟨hsft, hbal, rfl⟩ := h4
  have hxf2 : t2.o.xfers = refundXfers s e.caller ++ tokenXfers s e.caller := by
    rw [ht2, sendTokensResult_xfers, claimMid_xfers, claimMid_state]
    simp only [refundXfers, tokenXfers, hw, txc, List.nil_append]
    rfl
  have hsf2 : t2.o.sfts = [] := by
    rw [ht2]; unfold sendTokensResult sendResult claimMid refundResult
    split <;> split <;> rfl
  have hlk2 : t2.o.locks = [] := by
    rw [ht2]; unfold sendTokensResult sendResult claimMid refundResult
    split <;> split <;> rfl
  have hcat : nftCategory t2.s e.caller = nftCategory s e.caller :=
    nftCategory_congr e.caller (by rw [hst2]; rfl) (by rw [hst2]; rfl)
  have hW2 : t2.s.nftWinners = s.nftWinners := by rw [hst2]; rfl
  have hP2 : t2.s.payers = s.payers := by rw [hst2]; rfl
  have hC2 : t2.s.nftCost = s.nftCost := by rw [hst2]; rfl
  have hB2 : t2.s.bal = balAfterClaim s e.caller := by rw [hst2]
  obtain ⟨e1, e2, e3, e4, e5, e6, e7, e8, e9⟩ := claimNftResult_effect t2 e
  rw [hcat] at e1 e2 e5 e6
  rw [hxf2, hC2] at e2
  rw [hsf2] at e1
  rw [hlk2] at e3
  rw [hW2] at e4
  rw [hP2] at e5
  rw [hB2, hC2] at e6
  refine ⟨r, ⟨h1, h2, hst, hcl, hr, ?_, ?_, ?_, ?_⟩, ?_, e2, e1, e3, e4, e5, ?_, ?_, ?_, ?_, ?_,
    by rw [(claimNftResult_flags t2 e).1, hst2]; rfl, by rw [e9, hC2]⟩
  · rw [hw]; exact hnw
  · rw [hw]; exact hle
  · rw [hw]; exact hb
  · rw [hw]
    rw [claimMid_state] at hb2
    exact hb2
  · rw [hst2] at hsft; exact hsft
  · rw [e7, hst2]; simp [settledState]
  · rw [e8, hst2]; rfl
  · intro h2c
    rw [hcat, hC2, hB2] at hbal
    refine ⟨hbal h2c, ?_⟩
    rw [e6]; simp [h2c]
  · intro h2c
    rw [e6]; simp [h2c]
  · intro hok
    have hok2 : NftOk t2.s := ⟨by rw [hP2]; exact hok.nodupP, by rw [hW2]; exact hok.nodupW,
      by rw [hP2, hW2]; exact hok.disj⟩
    exact claimNftResult_category t2 e hok2

/-! ### 6. `claimNftPayment` -/

/-- **C14.6**: an accepted `claimTicketPayment` of an NFT variant is called by the owner in the
    claim stage; besides the ticket payment / surplus transfers of the common part (all to the
    owner) it pays the owner exactly `claimableNft` of the fee token (one transfer, none if zero)
    and zeroes `claimableNft`; the participant lists are untouched.  With `draw_total`:
    NFT proceeds = fee × number of drawn participants. -/
theorem claimPayment_nft (hash : List Nat → List Nat) (s : State) (e : Env) (s' : State) (o : Out)
    (hn : s.variant.hasNft = true)
    (h : step hash s e .claimPayment = .ok (s', o)) :
    e.caller = s.owner ∧ s.stage e = .claim ∧
    s'.claimableNft = 0 ∧ s'.nftCost = s.nftCost ∧ s'.payers = s.payers ∧
    s'.nftWinners = s.nftWinners ∧ s'.claimed = s.claimed ∧
    ∃ l : List (Nat × Pay), (∀ x ∈ l, x.1 = s.owner) ∧
      o.xfers = l ++ (if s.claimableNft > 0
        then [(s.owner, { s.nftCost with amount := s.claimableNft })] else []) ∧
      o.sfts = [] ∧ o.locks = [] := by
  obtain ⟨hl, hv⟩ := hasNft_props hn
  obtain ⟨m, t, hm, hpay, hown, hx, rfl, rfl⟩ := step_ok_inv h
  simp only [endpointMeta, Option.some.injEq] at hm
  subst hm
  simp only [Bool.false_eq_true, false_or] at hpay
  have howner := hown rfl
  have hcred : tx0 s e = ⟨s, ⟨e.budget, e.seeds, e.script⟩, {}⟩ := by
    unfold tx0; rw [creditPayments_nopay s e hpay.1 hpay.2]
  rw [hcred] at hx
  have hv0 : (⟨s, ⟨e.budget, e.seeds, e.script⟩, {}⟩ : Tx).s.variant.vested = false := hv
  simp only [exec, hv0, Bool.false_eq_true, if_false, bind_ok_iff] at hx
  obtain ⟨t1, hc, h2⟩ := hx
  obtain ⟨hst, b, cp, hs1, l, hx1, hl1, hsf1, hlk1⟩ := claimPaymentCommon_frame hc
  have hn1 : t1.s.variant.hasNft = true := by rw [hs1]; exact hn
  simp only [hn1, if_true] at h2
  rw [claimNftPayment_ok_iff] at h2
  obtain ⟨_, _, rfl⟩ := h2
  have hcl1 : t1.s.claimableNft = s.claimableNft := by rw [hs1]
  have hco1 : t1.s.nftCost = s.nftCost := by rw [hs1]
  refine ⟨howner, hst, ?_, ?_, ?_, ?_, ?_, l, ?_, ?_, ?_, ?_⟩
  · split
    · rfl
    · rw [hcl1]; rw [hcl1] at *; omega
  · split <;> rw [← hco1]
  · split <;> rw [hs1]
  · split <;> rw [hs1]
  · split <;> rw [hs1]
  · intro x hx; rw [hl1 x hx, howner]
  · rw [hcl1]
    split
    · simp only [hx1, hco1, howner]
      simp
    · simp [hx1]
  · split <;> simp [hsf1]
  · split <;> simp [hlk1]

/-! ### 7. fee reconciliation -/

/-- the contract's balance of the NFT-fee token -/
def feeBal (s : State) : Nat := s.bal s.nftCost.tok s.nftCost.nonce

/-- what the contract owes in fee tokens: before the draw is complete every participant's fee
    (refundable or not yet decided); afterwards the owner's proceeds plus the fees of those who
    were not drawn and have not yet collected their refund -/
def feeHeld (s : State) : Nat :=
  if s.flags.additional then s.claimableNft + s.nftCost.amount * s.payers.length
  else s.nftCost.amount * (s.payers.length + s.nftWinners.length)

/-- `feeBal` and `feeHeld` move by the same (signed) amount -/
def Recon (s s' : State) : Prop := feeBal s' + feeHeld s = feeBal s + feeHeld s'

/-- the fee token is neither the ticket payment token nor the launchpad token -/
def FeeTokenSeparate (s : State) : Prop :=
  ¬ (s.nftCost.tok = s.payTok ∧ s.nftCost.nonce = 0) ∧
  ¬ (s.nftCost.tok = .esdt s.lpTok ∧ s.nftCost.nonce = 0)

/-- **C14.7 (confirmNft)**: the balance and the liability both grow by the fee -/
theorem confirmNft_recon (hash : List Nat → List Nat) (s : State) (e : Env) (s' : State) (o : Out)
    (h : step hash s e .confirmNft = .ok (s', o)) (hadd : s.flags.additional = false)
    (hwf : e.egld = 0 ∨ e.esdts = []) :
    Recon s s' ∧ feeBal s' = feeBal s + s.nftCost.amount ∧
    feeHeld s' = feeHeld s + s.nftCost.amount := by
  obtain ⟨hacc, hs', _⟩ := confirmNft_effect hash s e s' o h
  have hb := confirmNft_holdings s e hacc hwf
  have h1 : feeBal s' = feeBal s + s.nftCost.amount := by
    rw [hs']
    show (creditPayments s e).bal s.nftCost.tok s.nftCost.nonce = _
    rw [hb]; simp [feeBal, Bal.add]
  have h2 : feeHeld s' = feeHeld s + s.nftCost.amount := by
    rw [hs']
    simp only [feeHeld]
    show (if s.flags.additional = true then _ else _) = (if s.flags.additional = true then _ else _) + _
    simp only [hadd, Bool.false_eq_true, if_false]
    show s.nftCost.amount * ((s.payers ++ [e.caller]).length + s.nftWinners.length) = _
    rw [List.length_append, List.length_singleton]
    simp only [Nat.mul_add, Nat.mul_one]
    omega
  exact ⟨by unfold Recon; omega, h1, h2⟩

/-- **C14.7 (draw)**: a draw call moves no fee tokens and leaves the liability unchanged — also
    when it completes the draw: `claimableNft + fee × remaining payers = fee × all participants` -/
theorem selectNft_recon (hash : List Nat → List Nat) (s : State) (e : Env) (s' : State) (o : Out)
    (h : step hash s e .selectNft = .ok (s', o))
    (hok : NftOk s) (hle : s.nftWinners.length ≤ s.availNfts) :
    Recon s s' ∧ feeBal s' = feeBal s ∧ feeHeld s' = feeHeld s := by
  obtain ⟨_, _, hadd, _, _, _, hcost, hsum, _, _, _, hfin, hbal⟩ :=
    selectNft_call hash s e s' o h hok hle
  have h1 : feeBal s' = feeBal s := by unfold feeBal; rw [hbal, hcost]
  have h2 : feeHeld s' = feeHeld s := by
    unfold feeHeld
    rw [hadd, hcost]
    simp only [Bool.false_eq_true, if_false]
    cases hadd' : s'.flags.additional
    · simp only [Bool.false_eq_true, if_false]; rw [hsum]
    · obtain ⟨_, hcl⟩ := hfin hadd'
      simp only [if_true]
      rw [hcl, ← hsum, Nat.mul_add]; omega
  exact ⟨by unfold Recon; omega, h1, h2⟩

/-- **C14.7 (claim)**: the NFT part of a claim pays out exactly what it removes from the
    liability: the full fee for a participant who was not drawn, nothing otherwise -/
theorem claim_nft_recon (hash : List Nat → List Nat) (s : State) (e : Env) (s' : State) (o : Out)
    (hn : s.variant.hasNft = true) (hsep : FeeTokenSeparate s) (hok : NftOk s)
    (h : step hash s e .claim = .ok (s', o)) :
    Recon s s' := by
  obtain ⟨r, hacc, _, _, _, _, hW, hP, _, hcN, hb2, hb3, _, hfl, hcost⟩ :=
    claim_nft_effect hash s e s' o hn h
  have hadd : s.flags.additional = true := (claim_stage_selected hacc.2.2.1).2.1
  have hbase : (balAfterClaim s e.caller) s.nftCost.tok s.nftCost.nonce = feeBal s := by
    unfold balAfterClaim feeBal
    rw [Bal.sub_other_apply _ _ _ _ _ _ hsep.2, Bal.sub_other_apply _ _ _ _ _ _ hsep.1]
  unfold Recon feeHeld feeBal
  rw [hfl, hcost, hcN, hadd]
  simp only [if_true]
  by_cases h2 : nftCategory s e.caller = 2
  · obtain ⟨hle, hbal⟩ := hb2 h2
    have hmem : e.caller ∈ s.payers := ((nftCategory_iff s e.caller hok).2.1).mp h2
    have hlen : s'.payers.length = s.payers.length - 1 := by
      rw [hP]; simp only [h2, if_true]; exact length_swapRemove hmem
    have hpos : 0 < s.payers.length := List.length_pos_of_mem hmem
    rw [hbal, hlen, Bal.sub_self_apply, hbase]
    rw [hbase] at hle
    have hm : s.nftCost.amount * s.payers.length
        = s.nftCost.amount * (s.payers.length - 1) + s.nftCost.amount := by
      rw [← Nat.mul_succ]; congr 1; omega
    unfold feeBal at hle ⊢
    omega
  · rw [hb3 h2, hP]
    simp only [h2, if_false]
    rw [hbase]
    rfl

/-- **C14.7 (owner withdrawal)**: `claimNftPayment` pays the owner exactly `claimableNft` and
    zeroes it -/
theorem claimPayment_recon (hash : List Nat → List Nat) (s : State) (e : Env) (s' : State) (o : Out)
    (hn : s.variant.hasNft = true) (hsep : FeeTokenSeparate s)
    (h : step hash s e .claimPayment = .ok (s', o)) :
    Recon s s' ∧ feeBal s' + s.claimableNft = feeBal s := by
  obtain ⟨hl, hv⟩ := hasNft_props hn
  obtain ⟨m, t, hm, hpay, hown, hx, rfl, rfl⟩ := step_ok_inv h
  simp only [endpointMeta, Option.some.injEq] at hm
  subst hm
  simp only [Bool.false_eq_true, false_or] at hpay
  have hcred : tx0 s e = ⟨s, ⟨e.budget, e.seeds, e.script⟩, {}⟩ := by
    unfold tx0; rw [creditPayments_nopay s e hpay.1 hpay.2]
  rw [hcred] at hx
  have hv0 : (⟨s, ⟨e.budget, e.seeds, e.script⟩, {}⟩ : Tx).s.variant.vested = false := hv
  simp only [exec, hv0, Bool.false_eq_true, if_false, bind_ok_iff] at hx
  obtain ⟨t1, hc, h2⟩ := hx
  obtain ⟨hst, b, cp, hs1, _⟩ := claimPaymentCommon_frame hc
  have hbo := claimPaymentCommon_bal_other hc s.nftCost.tok s.nftCost.nonce hsep.1 hsep.2
  have hadd : s.flags.additional = true := (claim_stage_selected hst).2.1
  have hn1 : t1.s.variant.hasNft = true := by rw [hs1]; exact hn
  simp only [hn1, if_true] at h2
  rw [claimNftPayment_ok_iff] at h2
  obtain ⟨_, hle, rfl⟩ := h2
  have hcl1 : t1.s.claimableNft = s.claimableNft := by rw [hs1]
  have hco1 : t1.s.nftCost = s.nftCost := by rw [hs1]
  have hfl1 : t1.s.flags = s.flags := by rw [hs1]
  have hp1 : t1.s.payers = s.payers := by rw [hs1]
  rw [hco1, hcl1] at hle
  have hbo' : t1.s.bal s.nftCost.tok s.nftCost.nonce = feeBal s := hbo
  rw [hbo'] at hle
  unfold Recon feeHeld
  by_cases hc0 : t1.s.claimableNft > 0
  · simp only [if_pos hc0]
    simp only [hfl1, hadd, if_true, feeBal, hco1, hp1, hcl1]
    rw [Bal.sub_self_apply, hbo']
    unfold feeBal at hle ⊢
    omega
  · simp only [if_neg hc0]
    simp only [hfl1, hadd, if_true, feeBal, hco1, hp1, hcl1]
    have : s.claimableNft = 0 := by rw [hcl1] at hc0; omega
    rw [hbo']
    unfold feeBal
    omega

/-- **C14.7 (blacklist refunds)**: `refundNftMany` (the NFT part of `addUsersToBlacklist`, only
    possible before winner selection, i.e. before the draw) pays back exactly the fee of every
    removed payer — see `LP.refundNftMany_recon` for the statement on the transaction record. -/
theorem refundNftMany_recon' (l : List Nat) (t t' : Tx) (h : refundNftMany l t = .ok t')
    (hadd : t.s.flags.additional = false) : Recon t.s t'.s := by
  obtain ⟨a1, a2, a3, a4, a5, a6, _⟩ := refundNftMany_recon l h
  unfold Recon feeHeld feeBal
  rw [a3, a6, a4, hadd]
  simp only [Bool.false_eq_true, if_false, Nat.mul_add]
  omega

/-- the fee amount is fixed once participants exist: `setNftCost` is accepted only in the
    AddTickets stage (when `confirmNft`, which needs the Confirm stage, has not yet been possible) -/
theorem setNftCost_only_addTickets (hash : List Nat → List Nat) (s : State) (e : Env) (c : Pay)
    (s' : State) (o : Out) (h : step hash s e (.setNftCost c) = .ok (s', o)) :
    s.stage e = .addTickets ∧ e.caller = s.owner := by
  obtain ⟨m, t, hm, _, hown, hx, _, _⟩ := step_ok_inv h
  have hmeta : m = ⟨true, false⟩ := by
    simp only [endpointMeta] at hm
    split at hm
    · exact (Option.some.inj hm).symm
    · cases hm
  subst hmeta
  simp only [exec, bind_ok_iff, req_ok_iff, requireStage, exists_const, beq_iff_eq] at hx
  exact ⟨hx.1, hown rfl⟩

end LP.Props.C14

#print axioms LP.Props.C14.swapRemove_exact
#print axioms LP.Props.C14.setInsert_exact
#print axioms LP.Props.C14.nftBody_iteration
#print axioms LP.Props.C14.nftBody_stops_iff
#print axioms LP.Props.C14.draw_loop_completed
#print axioms LP.Props.C14.nftSubstep_exact
#print axioms LP.Props.C14.selectNft_call
#print axioms LP.Props.C14.draw_total
#print axioms LP.Props.C14.confirmNft_accepted_iff
#print axioms LP.Props.C14.confirmNft_effect
#print axioms LP.Props.C14.confirmNft_holdings
#print axioms LP.Props.C14.confirmNft_twice_rejected
#print axioms LP.Props.C14.nftCategory_exact
#print axioms LP.Props.C14.claim_nft_effect
#print axioms LP.Props.C14.claimPayment_nft
#print axioms LP.Props.C14.confirmNft_recon
#print axioms LP.Props.C14.selectNft_recon
#print axioms LP.Props.C14.claim_nft_recon
#print axioms LP.Props.C14.claimPayment_recon
#print axioms LP.Props.C14.refundNftMany_recon'
#print axioms LP.Props.C14.setNftCost_only_addTickets

#print axioms LP.Props.C14.draw_total_gen
#print axioms LP.Props.C14.step_confirmNft_ok_iff
#print axioms LP.Props.C14.confirmNft_then_member
#print axioms LP.Props.C14.hasNft_props
#print axioms LP.Props.C14.nftCategory_congr
