import LP.Proofs.Once
/-
  C06 (order half) — "filter, then base selection, then the variant's additional step, each exactly
  once and in that order; the contract never returns to an earlier phase; confirmation < selection
  ≤ claim always holds".

  All statements are along `run` (rejected transactions allowed, NO side condition on the
  transactions: neither `EnvOK` nor `CallOK` is needed), from the deployment `init v a e0` of any of
  the eight variants; the "at most once / in this order" part holds from ANY start state.

  1. `flags_order`           selected → filtered, additional → selected (variants with an additional
                             step), additional preset (base, locked), flags never reset.
  2. `completed_once`        any start state: at most one completed filter / select / additional step in
                             the log of a history, in this order.
     `completed_once_from_init`  from deployment: the flags record exactly the completed steps; every
                             completed select is preceded by a completed filter, every completed
                             additional step by a completed select; an accepted claim / claimPayment
                             comes after all of them and nothing completes after it.
  3. `timeline_always`       conf < sel ≤ claim in every state; a reached start round is frozen.
  4. `phase_never_returns`   the whole clause along one history with non-decreasing rounds.

  "Completed" is `o.ret = [0]` (`statusRet .completed = 0`; an interrupted call returns `[1]`).
-/
namespace LP.Props.C06
open LP LP.Props.C17

theorem noAdditionalStep_iff (v : Variant) : v.noAdditionalStep = true ↔ (v = .base ∨ v = .locked) := by
  cases v <;> simp [Variant.noAdditionalStep]

/-! ### 1. the order of the flags -/

/-- **flags never reset** (any start state, any history): each of the four flags, once set, stays set -/
theorem flags_never_reset (hash : List Nat → List Nat) (s : State) (p : Hist) :
    Flags.gain4 s.flags (run hash s p).flags := run_flags_gain4 hash p s

/-- **C06.1** in every state reachable from the deployment of any of the eight variants along any
    history: `selected → filtered`; `additional → selected` for the six variants with an additional
    step; `additional = true` always for base/locked (preset at deployment); and no flag set in that
    state is ever reset by any continuation `q` of the history. -/
theorem flags_order (hash : List Nat → List Nat) {v : Variant} {a : InitArgs} {e0 : Env} {s0 : State}
    (hinit : init v a e0 = .ok s0) (p : Hist) :
    let s := run hash s0 p
    s.variant = v ∧
    (s.flags.selected = true → s.flags.filtered = true) ∧
    (v ≠ .base → v ≠ .locked → s.flags.additional = true → s.flags.selected = true) ∧
    ((v = .base ∨ v = .locked) → s.flags.additional = true) ∧
    (∀ q : Hist, Flags.gain4 s.flags (run hash s0 (p ++ q)).flags) := by
  intro s
  have hp : PhaseOK s := run_phaseOK hash p s0 (init_phaseOK hinit)
  have hv : s.variant = v := (run_variant hash p s0).trans (init_fresh hinit).1
  refine ⟨hv, hp.sel_fil, ?_, ?_, ?_⟩
  · intro h1 h2
    refine hp.add_sel ?_
    rw [hv]
    cases hn : v.noAdditionalStep with
    | false => rfl
    | true => rcases (noAdditionalStep_iff v).1 hn with h | h <;> contradiction
  · intro h
    exact hp.preset (by rw [hv]; exact (noAdditionalStep_iff v).2 h)
  · intro q
    rw [run_append]
    exact run_flags_gain4 hash q s

/-! ### 2. each step completes at most once, in order -/

/-- **the log is faithful**: its entries are exactly the accepted transactions of the history in
    order (a sub-history), each accepted with the recorded output starting from `s`, ending in
    `run hash s p`; replaying only them reproduces log and final state -/
theorem runLog_faithful (hash : List Nat → List Nat) (s : State) (p : Hist) :
    LogChain hash s (runLog hash s p) (run hash s p) ∧
    ((runLog hash s p).map Entry.tx).Sublist p ∧
    runLog hash s ((runLog hash s p).map Entry.tx) = runLog hash s p ∧
    run hash s ((runLog hash s p).map Entry.tx) = run hash s p :=
  ⟨runLog_chain hash p s, runLog_sublist hash p s, (runLog_chain hash p s).replay.1,
    (runLog_chain hash p s).replay.2⟩

/-- **C06.2, any start state**: in the log of any history from any state there is at most one
    completed `filter`, at most one completed `select`, at most one completed additional step
    (`distribute` / `selectNft` / `secondary`); a completed filter comes before a completed select,
    a completed select before a completed additional step — and, if the start state has
    `selected → filtered`, a completed filter before a completed additional step. -/
theorem completed_once (hash : List Nat → List Nat) (s : State) (p : Hist) :
    let l := runLog hash s p
    l.countP Entry.doneFilter ≤ 1 ∧ l.countP Entry.doneSelect ≤ 1 ∧ l.countP Entry.doneAdditional ≤ 1 ∧
    (∀ (i j : Nat) (x y : Entry), l[i]? = some x → l[j]? = some y → x.doneFilter = true → y.doneSelect = true → i < j) ∧
    (∀ (i j : Nat) (x y : Entry), l[i]? = some x → l[j]? = some y → x.doneSelect = true → y.doneAdditional = true → i < j) ∧
    ((s.flags.selected = true → s.flags.filtered = true) →
      ∀ (i j : Nat) (x y : Entry), l[i]? = some x → l[j]? = some y → x.doneFilter = true → y.doneAdditional = true → i < j) := by
  intro l
  have hc : LogChain hash s l (run hash s p) := runLog_chain hash p s
  refine ⟨hc.count_filter, hc.count_select, hc.count_additional, ?_, ?_, ?_⟩
  · intro i j x y hi hj hx hy
    rcases Nat.lt_trichotomy i j with h | h | h
    · exact h
    · subst h
      rw [hi] at hj; cases hj
      have h1 := (doneFilter_call hx).1
      have h2 := (doneSelect_call hy).1
      rw [h1] at h2; cases h2
    · exfalso
      have hsp := getElem?_split hj
      rw [hsp] at hc
      obtain ⟨s1, s2, _, _, h3, _, k, _⟩ := hc.entry
      have := h3.no_doneFilter (k hy).2.2.1 x (mem_drop_of_index hi h)
      rw [hx] at this; cases this
  · intro i j x y hi hj hx hy
    rcases Nat.lt_trichotomy i j with h | h | h
    · exact h
    · subst h
      rw [hi] at hj; cases hj
      have h1 := (doneSelect_call hx).1
      rcases (doneAdditional_call hy).1 with h2 | h2 | h2 <;> (rw [h1] at h2; cases h2)
    · exfalso
      have hsp := getElem?_split hj
      rw [hsp] at hc
      obtain ⟨s1, s2, _, _, h3, _, _, k⟩ := hc.entry
      have := h3.no_doneSelect (k hy).2.2.1 x (mem_drop_of_index hi h)
      rw [hx] at this; cases this
  · intro hord i j x y hi hj hx hy
    rcases Nat.lt_trichotomy i j with h | h | h
    · exact h
    · subst h
      rw [hi] at hj; cases hj
      have h1 := (doneFilter_call hx).1
      rcases (doneAdditional_call hy).1 with h2 | h2 | h2 <;> (rw [h1] at h2; cases h2)
    · exfalso
      have hsp := getElem?_split hj
      rw [hsp] at hc
      obtain ⟨s1, s2, h1, h2, h3, _, _, k⟩ := hc.entry
      -- `selected → filtered` is kept by every accepted transaction
      have hord1 : s1.flags.selected = true → s1.flags.filtered = true :=
        h1.preserves (fun z => z.flags.selected = true → z.flags.filtered = true)
          (fun z e c z' o hz hst hs => by
            have hf := step_flags_exact hst
            rw [hf.selected] at hs
            cases h0 : z.flags.selected with
            | true => exact hf.gain4.2.1 (hz h0)
            | false =>
              rw [h0, Bool.false_or] at hs
              have hcc := (doneSelect_call hs).1
              simp only at hcc
              subst hcc
              exact hf.gain4.2.1 (select_needs hst).1) hord
      have hfil : s2.flags.filtered = true := (step_flags_gain4 h2).2.1 (hord1 (k hy).1)
      have := h3.no_doneFilter hfil x (mem_drop_of_index hi h)
      rw [hx] at this; cases this

/-- **C06.2, from deployment** (any of the eight variants, any history): the flags of the final
    state record exactly which steps have completed; every completed `select` is preceded by a
    completed `filter`, every completed additional step by a completed `select`; base/locked never
    run an additional step; an accepted `claim` / `claimPayment` is preceded by a completed filter,
    a completed select and (where the variant has one) a completed additional step, and no
    selection step completes after it. -/
theorem completed_once_from_init (hash : List Nat → List Nat) {v : Variant} {a : InitArgs} {e0 : Env}
    {s0 : State} (hinit : init v a e0 = .ok s0) (p : Hist) :
    let l := runLog hash s0 p
    let s := run hash s0 p
    s.flags.filtered = l.any Entry.doneFilter ∧
    s.flags.selected = l.any Entry.doneSelect ∧
    s.flags.additional = (v.noAdditionalStep || l.any Entry.doneAdditional) ∧
    (v.noAdditionalStep = true → ∀ x ∈ l, x.2.1.isAdditional = false) ∧
    (∀ (j : Nat) (y : Entry), l[j]? = some y → y.doneSelect = true →
      ∃ (i : Nat) (x : Entry), i < j ∧ l[i]? = some x ∧ x.doneFilter = true) ∧
    (∀ (j : Nat) (y : Entry), l[j]? = some y → y.doneAdditional = true →
      ∃ (i : Nat) (x : Entry), i < j ∧ l[i]? = some x ∧ x.doneSelect = true) ∧
    (∀ (j : Nat) (y : Entry), l[j]? = some y → y.isClaim = true →
      (∃ (i : Nat) (x : Entry), i < j ∧ l[i]? = some x ∧ x.doneFilter = true) ∧
      (∃ (i : Nat) (x : Entry), i < j ∧ l[i]? = some x ∧ x.doneSelect = true) ∧
      (v.noAdditionalStep = false → ∃ (i : Nat) (x : Entry), i < j ∧ l[i]? = some x ∧ x.doneAdditional = true) ∧
      (∀ (k : Nat) (z : Entry), j < k → l[k]? = some z →
        z.doneFilter = false ∧ z.doneSelect = false ∧ z.doneAdditional = false)) := by
  intro l s
  have hc : LogChain hash s0 l s := runLog_chain hash p s0
  obtain ⟨hv0, hf0, _⟩ := init_fresh hinit
  have hp0 : PhaseOK s0 := init_phaseOK hinit
  have f1 : s0.flags.filtered = false := by rw [hf0]
  have f2 : s0.flags.selected = false := by rw [hf0]
  have f3 : s0.flags.additional = v.noAdditionalStep := by rw [hf0]
  -- a flag that is set before position `j` was set by an entry before `j`
  have before : ∀ {j : Nat} {y : Entry} (_ : l[j]? = some y) (q : Entry → Bool) {s1 : State}
      (_ : LogChain hash s0 (l.take j) s1) (_ : (l.take j).any q = true),
      ∃ (i : Nat) (x : Entry), i < j ∧ l[i]? = some x ∧ q x = true := by
    intro j y _ q s1 _ hany
    obtain ⟨x, hx, hq⟩ := any_true_index hany
    obtain ⟨i, hi, hix⟩ := mem_take_index hx
    exact ⟨i, x, hi, hix, hq⟩
  refine ⟨?_, ?_, ?_, ?_, ?_, ?_, ?_⟩
  · rw [hc.flags.1, f1, Bool.false_or]
  · rw [hc.flags.2.1, f2, Bool.false_or]
  · rw [hc.flags.2.2.1, f3]
  · intro hn
    exact hc.no_additional (by rw [f3]; exact hn)
  · intro j y hj hy
    have hsp := getElem?_split hj
    have hc' := hc
    rw [hsp] at hc'
    obtain ⟨s1, s2, h1, _, _, _, k, _⟩ := hc'.entry
    have := (k hy).1
    rw [h1.flags.1, f1, Bool.false_or] at this
    exact before hj _ h1 this
  · intro j y hj hy
    have hsp := getElem?_split hj
    have hc' := hc
    rw [hsp] at hc'
    obtain ⟨s1, s2, h1, _, _, _, _, k⟩ := hc'.entry
    have := (k hy).1
    rw [h1.flags.2.1, f2, Bool.false_or] at this
    exact before hj _ h1 this
  · intro j y hj hy
    have hsp := getElem?_split hj
    have hc' := hc
    rw [hsp] at hc'
    obtain ⟨s1, s2, h1, h2, h3, _, _, _⟩ := hc'.entry
    have hp1 : PhaseOK s1 := h1.phaseOK hp0
    obtain ⟨g1, g2⟩ := claim_needs (isClaim_call hy) hp1.claimed h2
    have g0 := hp1.sel_fil g1
    have hg := step_flags_gain4 h2
    refine ⟨?_, ?_, ?_, ?_⟩
    · rw [h1.flags.1, f1, Bool.false_or] at g0
      exact before hj _ h1 g0
    · rw [h1.flags.2.1, f2, Bool.false_or] at g1
      exact before hj _ h1 g1
    · intro hn
      rw [h1.flags.2.2.1, f3, hn, Bool.false_or] at g2
      exact before hj _ h1 g2
    · intro k z hk hz
      have hm := mem_drop_of_index hz hk
      exact ⟨h3.no_doneFilter (hg.2.1 g0) z hm, h3.no_doneSelect (hg.2.2.1 g1) z hm,
        h3.no_doneAdditional (hg.2.2.2 g2) z hm⟩

/-! ### 3. the timeline -/

/-- **C06.3** from the deployment of any variant, after any history `p`: `conf < sel ≤ claim`; and a
    start round that has been reached is never changed — if `cfg.conf ≤ r` (resp. `sel`, `claim`) in
    the state after `p` and the history continues with any `q` whose rounds are non-decreasing and
    `≥ r`, the value is the same in the state after `p ++ q` (every later state is of this form). -/
theorem timeline_always (hash : List Nat → List Nat) {v : Variant} {a : InitArgs} {e0 : Env} {s0 : State}
    (hinit : init v a e0 = .ok s0) (p q : Hist) (r : Nat) (hq : RoundsFrom r q) :
    let s := run hash s0 p
    let s' := run hash s0 (p ++ q)
    validPeriods s.cfg = true ∧ (s.cfg.conf < s.cfg.sel ∧ s.cfg.sel ≤ s.cfg.claim) ∧
    (s.cfg.conf ≤ r → s'.cfg.conf = s.cfg.conf) ∧
    (s.cfg.sel ≤ r → s'.cfg.sel = s.cfg.sel) ∧
    (s.cfg.claim ≤ r → s'.cfg.claim = s.cfg.claim) := by
  intro s s'
  have hv : validPeriods s.cfg = true := be_validPeriods_run hash s0 p (be_validPeriods_init hinit)
  have hs' : s' = run hash s q := run_append hash p q s0
  refine ⟨hv, (validPeriods_iff _).1 hv, ?_, ?_, ?_⟩
  · intro h; rw [hs']; exact conf_frozen_along hash q s r h hq
  · intro h; rw [hs']; exact sel_frozen_along hash q s r h hq
  · intro h; rw [hs']; exact claim_frozen_along hash q s r h hq

/-- the same from ANY start state (no deployment needed for the freezing half): one accepted or
    rejected transaction at a round that has reached a start round does not change it -/
theorem reached_start_frozen_run (hash : List Nat → List Nat) (s : State) (q : Hist) (r : Nat)
    (hq : RoundsFrom r q) :
    (s.cfg.conf ≤ r → (run hash s q).cfg.conf = s.cfg.conf) ∧
    (s.cfg.sel ≤ r → (run hash s q).cfg.sel = s.cfg.sel) ∧
    (s.cfg.claim ≤ r → (run hash s q).cfg.claim = s.cfg.claim) :=
  ⟨fun h => conf_frozen_along hash q s r h hq, fun h => sel_frozen_along hash q s r h hq,
   fun h => claim_frozen_along hash q s r h hq⟩

/-! ### 4. the whole clause along one history -/

/-- **C06, histories from deployment**: take any history `p ++ (e, c) :: q ++ (e', c') :: rest` with
    non-decreasing rounds from the deployment of any of the eight variants, `s1` the state the earlier
    transaction `(e, c)` meets and `s2` the state the later transaction `(e', c')` meets.  Then
    * the lifecycle stage seen by the later transaction is not earlier than the one seen by the
      earlier transaction (rejected transactions included);
    * no flag is reset and the number of completed selection steps does not decrease;
    * in both states the flags are ordered (`PhaseOK`: selected → filtered, additional → selected /
      preset, nobody settled before all steps completed) and `conf < sel ≤ claim`;
    * a start round reached at `(e, c)` is unchanged at `(e', c')`;
    * in the log of the whole history each selection step completes at most once. -/
theorem phase_never_returns (hash : List Nat → List Nat) {v : Variant} {a : InitArgs} {e0 : Env}
    {s0 : State} (hinit : init v a e0 = .ok s0) (r0 : Nat)
    (p q rest : Hist) (e e' : Env) (c c' : Call)
    (hr : RoundsFrom r0 (p ++ (e, c) :: (q ++ (e', c') :: rest))) :
    let s1 := run hash s0 p
    let s2 := run hash s0 (p ++ (e, c) :: q)
    let l := runLog hash s0 (p ++ (e, c) :: (q ++ (e', c') :: rest))
    (s1.stage e).toNat ≤ (s2.stage e').toNat ∧
    Flags.gain4 s1.flags s2.flags ∧ s1.flags.phase ≤ s2.flags.phase ∧
    PhaseOK s1 ∧ PhaseOK s2 ∧
    validPeriods s1.cfg = true ∧ validPeriods s2.cfg = true ∧
    (s1.cfg.conf ≤ e.round → s2.cfg.conf = s1.cfg.conf) ∧
    (s1.cfg.sel ≤ e.round → s2.cfg.sel = s1.cfg.sel) ∧
    (s1.cfg.claim ≤ e.round → s2.cfg.claim = s1.cfg.claim) ∧
    l.countP Entry.doneFilter ≤ 1 ∧ l.countP Entry.doneSelect ≤ 1 ∧ l.countP Entry.doneAdditional ≤ 1 := by
  intro s1 s2 l
  have hs2 : s2 = run hash s1 ((e, c) :: q) := run_append hash p ((e, c) :: q) s0
  have hg : Flags.gain4 s1.flags s2.flags := by rw [hs2]; exact run_flags_gain4 hash _ s1
  have hp0 := init_phaseOK hinit
  have hv0 := be_validPeriods_init hinit
  have hr1 : RoundsFrom r0 ((e, c) :: (q ++ (e', c') :: rest)) := RoundsFrom.append_right hr
  have hr2 : RoundsFrom e.round ((e, c) :: q) := ⟨Nat.le_refl _, RoundsFrom.append_left hr1.2⟩
  obtain ⟨k1, k2, k3, _⟩ := completed_once hash s0 (p ++ (e, c) :: (q ++ (e', c') :: rest))
  refine ⟨stage_never_decreases_in_history hash s0 r0 p q rest e e' c c' hr, hg, hg.phase_le,
    run_phaseOK hash p s0 hp0, run_phaseOK hash _ s0 hp0,
    be_validPeriods_run hash s0 p hv0, be_validPeriods_run hash s0 _ hv0, ?_, ?_, ?_, k1, k2, k3⟩
  · intro h; rw [hs2]; exact conf_frozen_along hash _ s1 e.round h hr2
  · intro h; rw [hs2]; exact sel_frozen_along hash _ s1 e.round h hr2
  · intro h; rw [hs2]; exact claim_frozen_along hash _ s1 e.round h hr2

/-! ### non-vacuity: three concrete histories from deployment (hash = `id`) -/

def bArgs : InitArgs :=
  { lpTok := 1, perTicket := 5, payTok := .egld, price := 10, nrWinning := 1, conf := 5, sel := 10, claim := 15 }
def bEnv : Env := { caller := 1, round := 0 }

/-- base launchpad: two participants; a too-early filter, a select before the filter, a second
    filter and a second select are REJECTED; the filter is interrupted once (`budget := some 0`) -/
def b0 : State := match init .base bArgs bEnv with | .ok s => s | .error _ => default
def bHist : Hist :=
  [ ({ caller := 1, round := 1 }, .addTickets [(7, 2), (8, 1)]),
    ({ caller := 1, round := 2, esdts := [⟨.esdt 1, 0, 5⟩] }, .deposit),
    ({ caller := 9, round := 3 }, .filter),
    ({ caller := 7, round := 5, egld := 20 }, .confirm 2),
    ({ caller := 8, round := 6, egld := 10 }, .confirm 1),
    ({ caller := 9, round := 10 }, .select),
    ({ caller := 9, round := 10, budget := some 0 }, .filter),
    ({ caller := 9, round := 11 }, .filter),
    ({ caller := 9, round := 11 }, .filter),
    ({ caller := 9, round := 12 }, .select),
    ({ caller := 9, round := 12 }, .select),
    ({ caller := 7, round := 15 }, .claim),
    ({ caller := 1, round := 16 }, .claimPayment) ]

theorem b0_init : init .base bArgs bEnv = .ok b0 := rfl

/-- the log: 9 of the 13 transactions are accepted; outputs `[1]` (interrupted), `[0]` (completed) -/
example : (runLog id b0 bHist).map (fun x => x.2.2.ret) = [[], [], [], [], [1], [0], [0], [], []] ∧
    (runLog id b0 bHist).map Entry.doneFilter = [false, false, false, false, false, true, false, false, false] ∧
    (runLog id b0 bHist).map Entry.doneSelect = [false, false, false, false, false, false, true, false, false] ∧
    (runLog id b0 bHist).map Entry.isClaim = [false, false, false, false, false, false, false, true, true] ∧
    (runLog id b0 bHist).countP Entry.doneAdditional = 0 ∧
    (run id b0 bHist).flags = { started := true, filtered := true, selected := true, additional := true } := by decide +kernel

example : RoundsFrom 0 bHist := by simp [RoundsFrom, bHist]

/-- `completed_once_from_init` on it: the claim at position 7 has the completed filter (5) and the
    completed select (6) before it -/
example : ∃ (i : Nat) (x : Entry), i < 7 ∧ (runLog id b0 bHist)[i]? = some x ∧ x.doneSelect = true := by
  obtain ⟨y, hy⟩ : ∃ y, (runLog id b0 bHist)[7]? = some y :=
    Option.isSome_iff_exists.1 (by decide +kernel)
  have hcl : y.isClaim = true := by
    have : ((runLog id b0 bHist).map Entry.isClaim)[7]? = some true := by decide +kernel
    rw [List.getElem?_map, hy] at this
    simpa using this
  exact ((completed_once_from_init id b0_init bHist).2.2.2.2.2.2 7 y hy hcl).2.1

def nArgs : InitArgs :=
  { lpTok := 1, perTicket := 5, payTok := .egld, price := 10, nrWinning := 1, conf := 5, sel := 10, claim := 15,
    nftCost := ⟨.egld, 0, 3⟩, availNfts := 1 }

/-- launchpad-with-nft: `selectNft` before the base selection and a claim before the additional step
    are REJECTED; `selectNft` is interrupted once, completes once, a third call is rejected -/
def n0 : State := match init .nft nArgs bEnv with | .ok s => s | .error _ => default
def nHist : Hist :=
  [ ({ caller := 1, round := 1 }, .addTickets [(7, 2), (8, 1)]),
    ({ caller := 1, round := 1 }, .sftSetup),
    ({ caller := 1, round := 2, esdts := [⟨.esdt 1, 0, 5⟩] }, .deposit),
    ({ caller := 7, round := 5, egld := 20 }, .confirm 2),
    ({ caller := 7, round := 6, egld := 3 }, .confirmNft),
    ({ caller := 9, round := 10 }, .selectNft),
    ({ caller := 9, round := 10 }, .filter),
    ({ caller := 9, round := 11 }, .select),
    ({ caller := 7, round := 15 }, .claim),
    ({ caller := 9, round := 16, budget := some 0 }, .selectNft),
    ({ caller := 9, round := 16 }, .selectNft),
    ({ caller := 9, round := 16 }, .selectNft),
    ({ caller := 7, round := 17 }, .claim),
    ({ caller := 1, round := 18 }, .claimPayment) ]

theorem n0_init : init .nft nArgs bEnv = .ok n0 := rfl

example : (runLog id n0 nHist).map (fun x => x.2.2.ret) = [[], [], [], [], [], [0], [0], [1], [0], [], []] ∧
    (runLog id n0 nHist).map Entry.doneAdditional =
      [false, false, false, false, false, false, false, false, true, false, false] ∧
    (runLog id n0 nHist).map Entry.isClaim =
      [false, false, false, false, false, false, false, false, false, true, true] ∧
    (run id n0 (nHist.take 8)).flags = { started := true, filtered := true, selected := true, additional := false } ∧
    (run id n0 nHist).flags = { started := true, filtered := true, selected := true, additional := true } := by decide +kernel

def gArgs : InitArgs :=
  { lpTok := 1, perTicket := 5, payTok := .egld, price := 10, nrWinning := 3, conf := 5, sel := 10, claim := 15 }

/-- launchpad-guaranteed-tickets (vesting variant): two wrong deposits are rejected; participant 7
    calls `claim` twice — the second call is the "already settled" path that `PhaseOK.claimed` covers -/
def g0 : State := match init .guarV1 gArgs bEnv with | .ok s => s | .error _ => default
def gHist : Hist :=
  [ ({ caller := 1, round := 1 }, .addTicketsV1 [(7, 2, 0, false), (8, 1, 0, false)]),
    ({ caller := 1, round := 2, esdts := [⟨.esdt 1, 0, 5⟩] }, .deposit),
    ({ caller := 1, round := 2, esdts := [⟨.esdt 1, 0, 10⟩] }, .deposit),
    ({ caller := 1, round := 2, esdts := [⟨.esdt 1, 0, 15⟩] }, .deposit),
    ({ caller := 7, round := 5, egld := 20 }, .confirm 2),
    ({ caller := 9, round := 10 }, .filter),
    ({ caller := 9, round := 11 }, .select),
    ({ caller := 9, round := 12 }, .distribute),
    ({ caller := 7, round := 15 }, .claim),
    ({ caller := 7, round := 15 }, .claim),
    ({ caller := 1, round := 16 }, .claimPayment) ]

theorem g0_init : init .guarV1 gArgs bEnv = .ok g0 := rfl

example : (runLog id g0 gHist).map (fun x => x.2.2.ret) = [[], [], [], [0], [0], [0], [], [], []] ∧
    (runLog id g0 gHist).map Entry.doneAdditional = [false, false, false, false, false, true, false, false, false] ∧
    (runLog id g0 gHist).map Entry.isClaim = [false, false, false, false, false, false, true, true, true] ∧
    (run id g0 gHist).claimed 7 = true ∧
    (run id g0 gHist).flags = { started := true, filtered := true, selected := true, additional := true } := by decide +kernel

/-- `timeline_always` / `phase_never_returns` on the base history: the selection start round 10 is
    reached after the 7th transaction; the stage goes from WinnerSelection (2) at the completed filter
    to Claim (3) at the owner's withdrawal -/
example : RoundsFrom 0 (bHist.take 7 ++ ({ caller := 9, round := 11 }, Call.filter) ::
      ((bHist.drop 8).take 4 ++ ({ caller := 1, round := 16 }, Call.claimPayment) :: [])) ∧
    bHist = bHist.take 7 ++ ({ caller := 9, round := 11 }, Call.filter) ::
      ((bHist.drop 8).take 4 ++ ({ caller := 1, round := 16 }, Call.claimPayment) :: []) ∧
    ((run id b0 (bHist.take 7)).stage { caller := 9, round := 11 }).toNat = 2 ∧
    ((run id b0 (bHist.take 7 ++ ({ caller := 9, round := 11 }, Call.filter) :: (bHist.drop 8).take 4)).stage
      { caller := 1, round := 16 }).toNat = 3 ∧
    (run id b0 (bHist.take 7)).cfg.sel ≤ 11 ∧ (run id b0 (bHist.take 7)).flags.phase = 1 ∧
    (run id b0 bHist).flags.phase = 3 := by
  refine ⟨by simp [RoundsFrom, bHist], by simp [bHist], by decide +kernel, by decide +kernel, by decide +kernel,
    by decide +kernel, by decide +kernel⟩

/-- the hypothesis `selected → filtered` of the last clause of `completed_once` matters: from the
    (unreachable, not `PhaseOK`) state `u0` — the nft history after the base selection with `filtered`
    cleared by hand — the additional step completes FIRST and the filter completes after it -/
def u0 : State := { run id n0 (nHist.take 8) with flags := { started := true, selected := true } }
def uHist : Hist := [ ({ caller := 9, round := 12 }, .selectNft), ({ caller := 9, round := 13 }, .filter) ]

example : (runLog id u0 uHist).map Entry.doneAdditional = [true, false] ∧
    (runLog id u0 uHist).map Entry.doneFilter = [false, true] ∧ ¬ PhaseOK u0 ∧ PhaseOK b0 :=
  ⟨by decide +kernel, by decide +kernel, fun h => Bool.noConfusion (h.sel_fil rfl),
    init_phaseOK b0_init⟩

/-- the main theorems applied to the concrete histories (their hypotheses are satisfiable) -/
example : (run id n0 (nHist.take 8)).flags.additional = true → (run id n0 (nHist.take 8)).flags.selected = true :=
  (flags_order id n0_init (nHist.take 8)).2.2.1 (by decide) (by decide)

/-- `timeline_always`: the selection start round 10 is reached after the first 7 transactions
    (`r = 10`, continuation `q` = the next 6 transactions); conclusion: `cfg.sel` unchanged after them -/
example := (timeline_always id b0_init (bHist.take 7) ((bHist.drop 7).take 6) 10
    (by simp [RoundsFrom, bHist])).2.2.2.1 (by decide +kernel)

example : (run id b0 (bHist.take 7)).cfg.sel = 10 ∧ (run id b0 bHist).cfg.sel = 10 := by decide +kernel

example : ((run id b0 (bHist.take 7)).stage { caller := 9, round := 11 }).toNat ≤
    ((run id b0 (bHist.take 7 ++ ({ caller := 9, round := 11 }, Call.filter) :: (bHist.drop 8).take 4)).stage
      { caller := 1, round := 16 }).toNat :=
  (phase_never_returns id b0_init 0 (bHist.take 7) ((bHist.drop 8).take 4) [] { caller := 9, round := 11 }
    { caller := 1, round := 16 } .filter .claimPayment (by simp [RoundsFrom, bHist])).1

end LP.Props.C06

#print axioms LP.Props.C06.flags_never_reset
#print axioms LP.Props.C06.flags_order
#print axioms LP.Props.C06.runLog_faithful
#print axioms LP.Props.C06.completed_once
#print axioms LP.Props.C06.completed_once_from_init
#print axioms LP.Props.C06.timeline_always
#print axioms LP.Props.C06.reached_start_frozen_run
#print axioms LP.Props.C06.phase_never_returns
#print axioms LP.Props.C06.noAdditionalStep_iff
#print axioms LP.Props.C06.b0_init
#print axioms LP.Props.C06.n0_init
#print axioms LP.Props.C06.g0_init
