import LP.Proofs.ReachFrame
import LP.Proofs.FrameFlags
/-
  C01 (reachable-state form) — ticket-payment solvency of the plain launchpad.

  `Reach hash v s r` (LP/Proofs/ReachBase.lean): `s` is reachable by the launchpad `v` from some
  deployment by accepted transactions with non-decreasing rounds, `r` = round of the latest
  transaction (or a later round, constructor `wait`).  Every transaction carries EGLD or ESDT but
  not both (`EnvOK`), and — THE ONE RESTRICTION ON HISTORIES — every entry of an `addTickets`
  call allocates at least one ticket (`CallOK`; zero-size allocations create an empty range
  `[f, f-1]` and a batch slot that the next allocation overwrites; they are excluded here and
  documented elsewhere as a separate non-defect).

  All theorems hold for `Variant.base` and `Variant.locked` (`Plain v`); the locked variant differs
  only in how launchpad tokens are sent at claim.

  Main theorem   `C01_solvent_base` / `C01_solvent_locked` / `C01_solvent`
  Corollaries    (i)   `claim_refund_covered`, `claim_refund_succeeds`, `owner_withdrawal_covered`
                 (ii)  `all_settled_nothing_left`
                 (iii) `three_counts`, `three_counts_at_completion`, `winners_before_filter`,
                       `proceeds_until_withdrawal`, `proceeds_constant`,
                       `proceeds_are_price_times_winners`
-/
namespace LP.Props.C01reach
open LP LP.FY

/-- **C01 for every plain launchpad**: in every reachable state the contract holds, in the
    ticket-payment token, exactly the full payment of every confirmed ticket until the lottery is
    complete, and afterwards exactly the owner's not-yet-withdrawn proceeds plus
    `price × (confirmed − winning)` for every participant who has not settled. -/
theorem C01_solvent (hash : List Nat → List Nat) (v : Variant) (hv : Plain v) (s : State) (r : Nat)
    (h : Reach hash v s r) :
    ∃ L : List Nat, Covers s L ∧ (¬ AllDone s → PayEqPre s L) ∧ (AllDone s → PayEqPost s L) := by
  obtain ⟨a0, h⟩ := Reach_iff.mp h
  obtain ⟨L, h1, h2, h3⟩ := rb_WF_ledger (reach_WF hv h)
  exact ⟨L, h1, h2, fun hd => (h3 hd).1⟩

/-- **C01, base launchpad** -/
theorem C01_solvent_base (hash : List Nat → List Nat) (s : State) (r : Nat)
    (h : Reach hash .base s r) :
    ∃ L : List Nat, Covers s L ∧ (¬ AllDone s → PayEqPre s L) ∧ (AllDone s → PayEqPost s L) :=
  C01_solvent hash .base (Or.inl rfl) s r h

/-- **C01, launchpad with locked tokens** -/
theorem C01_solvent_locked (hash : List Nat → List Nat) (s : State) (r : Nat)
    (h : Reach hash .locked s r) :
    ∃ L : List Nat, Covers s L ∧ (¬ AllDone s → PayEqPre s L) ∧ (AllDone s → PayEqPost s L) :=
  C01_solvent hash .locked (Or.inr rfl) s r h

/-! ### (i) claims and the owner's withdrawal never fail for lack of payment tokens -/

/-- in every reachable state after completion, whatever claims and withdrawals happened before
    (in any order): the holdings cover the recorded proceeds of the owner plus the refund
    `price × (confirmed − winning)` of any participant who still has a range -/
theorem claim_refund_covered (hash : List Nat → List Nat) (v : Variant) (hv : Plain v) (s : State)
    (r : Nat) (h : Reach hash v s r) (hd : AllDone s) (a : Nat) (rg : Range)
    (hr : s.range a = some rg) :
    s.claimablePayment + s.price * (s.confirmed a - winCountOf s a) ≤ s.bal s.payTok 0 := by
  obtain ⟨a0, h⟩ := Reach_iff.mp h
  obtain ⟨L, _, _, h3⟩ := rb_WF_ledger (reach_WF hv h)
  obtain ⟨hpost, _, _, hrg⟩ := h3 hd
  have haL := (hrg a rg hr).1
  have hle := rb_le_sumOver (refundDue s) L a haL
  have hdue : refundDue s a = s.price * (s.confirmed a - winCountOf s a) := by
    simp only [refundDue, hr]
  unfold PayEqPost at hpost
  omega

/-- the owner's withdrawal never fails for lack of payment tokens -/
theorem owner_withdrawal_covered (hash : List Nat → List Nat) (v : Variant) (hv : Plain v) (s : State)
    (r : Nat) (h : Reach hash v s r) (hd : AllDone s) :
    s.claimablePayment ≤ s.bal s.payTok 0 := by
  obtain ⟨a0, h⟩ := Reach_iff.mp h
  obtain ⟨L, _, _, h3⟩ := rb_WF_ledger (reach_WF hv h)
  obtain ⟨hpost, _⟩ := h3 hd
  unfold PayEqPost at hpost
  omega

/-- the refund transfer of a claim succeeds: on any transaction record whose price, payment token
    and payment-token balance are those of the reachable state (as is the record the `claim`
    endpoint refunds from, `settle` touching none of them), `Tx.refund` of
    `confirmed − winning` tickets is accepted -/
theorem claim_refund_succeeds (hash : List Nat → List Nat) (v : Variant) (hv : Plain v) (s : State)
    (r : Nat) (h : Reach hash v s r) (hd : AllDone s) (e : Env) (rg : Range)
    (hr : s.range e.caller = some rg) (t : Tx) (hp : t.s.price = s.price)
    (htok : t.s.payTok = s.payTok) (hb : t.s.bal s.payTok 0 = s.bal s.payTok 0) :
    ∃ t', t.refund e e.caller (s.confirmed e.caller - winCountOf s e.caller) = .ok t' := by
  have hc := claim_refund_covered hash v hv s r h hd e.caller rg hr
  unfold Tx.refund
  split
  · exact ⟨t, rfl⟩
  · simp only [Tx.send, hp, htok, hb]
    rw [if_neg (by omega)]
    exact ⟨_, rfl⟩

/-! ### (ii) nothing is left at the end -/

/-- once every participant has settled and the owner has withdrawn, the contract holds no
    payment tokens -/
theorem all_settled_nothing_left (hash : List Nat → List Nat) (v : Variant) (hv : Plain v) (s : State)
    (r : Nat) (h : Reach hash v s r) (hd : AllDone s) (hall : ∀ a, s.range a = none)
    (hcp : s.claimablePayment = 0) : s.bal s.payTok 0 = 0 := by
  obtain ⟨L, _, _, h3⟩ := C01_solvent hash v hv s r h
  exact all_settled_zero s L (h3 hd) (fun a _ => hall a) hcp

/-! ### (iii) the three counts -/

/-- after completion, in every reachable state: the winning tickets still held by the
    participants add up to `nrWinning`; nobody holds more winning than confirmed tickets; the
    range of a participant has exactly `confirmed` tickets -/
theorem three_counts (hash : List Nat → List Nat) (v : Variant) (hv : Plain v) (s : State) (r : Nat)
    (h : Reach hash v s r) (hd : AllDone s) :
    ∃ L : List Nat, Covers s L ∧ PayEqPost s L ∧ sumOver (winCountOf s) L = s.nrWinning ∧
      (∀ a, winCountOf s a ≤ s.confirmed a) ∧
      (∀ a rg, s.range a = some rg → a ∈ L ∧ rangeLen rg = s.confirmed a) := by
  obtain ⟨a0, h⟩ := Reach_iff.mp h
  obtain ⟨L, h1, _, h3⟩ := rb_WF_ledger (reach_WF hv h)
  obtain ⟨hpost, hwin, hle, hrg⟩ := h3 hd
  refine ⟨L, h1, hpost, hwin, hle, fun a rg hr => ?_⟩
  obtain ⟨k1, k2, k3⟩ := hrg a rg hr
  exact ⟨k1, by unfold rangeLen; omega⟩

/-- at the completion of `selectWinners` (the call that sets the `selected` flag), from any
    reachable state of a launchpad deployed with `a0.nrWinning` winners: the number of winning
    flags equals `nrWinning`, which is `min (configured winners) (confirmed tickets)`; the
    owner's proceeds are `price × nrWinning`; every flag lies in `1..lastTicketId` -/
theorem three_counts_at_completion (hash : List Nat → List Nat) (v : Variant) (hv : Plain v)
    (a0 : InitArgs) (s : State) (r : Nat) (h : ReachA hash v a0 s r) (e : Env) (s' : State) (o : Out)
    (hs : step hash s e .select = .ok (s', o)) (hsel : s'.flags.selected = true) :
    countTrue s'.status s'.lastTicketId = s'.nrWinning ∧
    s'.nrWinning = min a0.nrWinning s'.lastTicketId ∧
    s'.claimablePayment = s'.price * s'.nrWinning ∧
    (∀ t, s'.status t = true → 1 ≤ t ∧ t ≤ s'.lastTicketId) ∧ AllDone s' := by
  have hwf := reach_WF hv h
  obtain ⟨h1, h2, h3, h4⟩ := rb_select_completion hwf hs hsel
  refine ⟨h1, h2, h3, h4, hsel, ?_⟩
  have := (step_flags_gain hs).2 hwf.add
  exact this

/-- until the configured winners are exhausted by the filter the winners count is the configured
    one: `¬ filtered → nrWinning = a0.nrWinning` -/
theorem winners_before_filter (hash : List Nat → List Nat) (v : Variant) (hv : Plain v)
    (a0 : InitArgs) (s : State) (r : Nat) (h : ReachA hash v a0 s r)
    (hf : s.flags.filtered = false) : s.nrWinning = a0.nrWinning := by
  obtain ⟨L0, hp, _⟩ := rb_phase_notFiltered (reach_WF hv h).phase hf
  exact hp.nrw

/-- after completion the recorded proceeds and the price are frozen until the owner withdraws:
    an accepted call leaves `claimablePayment` unchanged unless it is `claimPayment`, which sets
    it to zero; the price never changes again.  Together with `three_counts_at_completion`:
    until the owner has withdrawn, `claimablePayment = price × (winners at completion)`. -/
theorem proceeds_until_withdrawal (hash : List Nat → List Nat) (v : Variant) (hv : Plain v)
    (s : State) (r : Nat) (h : Reach hash v s r) (hd : AllDone s) (e : Env) (c : Call)
    (s' : State) (o : Out) (hr : r ≤ e.round) (hs : step hash s e c = .ok (s', o)) :
    s'.price = s.price ∧ AllDone s' ∧
    (s'.claimablePayment = s.claimablePayment ∨ (c = .claimPayment ∧ s'.claimablePayment = 0)) := by
  obtain ⟨a0, h⟩ := Reach_iff.mp h
  obtain ⟨h1, h2, h3⟩ := rb_proceeds_frame (reach_WF hv h) hr hd hs
  exact ⟨h1, by unfold AllDone; rw [h2]; exact hd, h3⟩

/-- `Later hash s r s2 r2`: `s2` (at round `r2`) is reached from `s` (at round `r`) by accepted
    calls none of which is the owner's withdrawal `claimPayment`, and by the passing of time -/
inductive Later (hash : List Nat → List Nat) (s : State) (r : Nat) : State → Nat → Prop
  | refl : Later hash s r s r
  | call (s1 : State) (r1 : Nat) (e : Env) (c : Call) (s2 : State) (o : Out) :
      Later hash s r s1 r1 → r1 ≤ e.round → EnvOK e → CallOK c → c ≠ .claimPayment →
      step hash s1 e c = .ok (s2, o) → Later hash s r s2 e.round
  | wait (s1 : State) (r1 r2 : Nat) : Later hash s r s1 r1 → r1 ≤ r2 → Later hash s r s1 r2

/-- as long as the owner has not withdrawn, the recorded proceeds and the price stay what they
    were (whatever participants claim in between) -/
theorem proceeds_constant (hash : List Nat → List Nat) (v : Variant) (hv : Plain v) (s : State)
    (r : Nat) (h : Reach hash v s r) (hd : AllDone s) (s2 : State) (r2 : Nat)
    (hl : Later hash s r s2 r2) :
    Reach hash v s2 r2 ∧ AllDone s2 ∧ s2.price = s.price ∧
    s2.claimablePayment = s.claimablePayment := by
  induction hl with
  | refl => exact ⟨h, hd, rfl, rfl⟩
  | call s1 r1 e c s2 o _ h1 h2 h3 h4 h5 ih =>
    obtain ⟨i1, i2, i3, i4⟩ := ih
    obtain ⟨k1, k2, k3⟩ := proceeds_until_withdrawal hash v hv s1 r1 i1 i2 e c s2 o h1 h5
    refine ⟨.call s1 r1 e c s2 o i1 h1 h2 h3 h5, k2, k1.trans i3, ?_⟩
    rcases k3 with k3 | ⟨k3, _⟩
    · exact k3.trans i4
    · exact absurd k3 h4
  | wait s1 r1 r2 _ h1 ih =>
    obtain ⟨i1, i2, i3, i4⟩ := ih
    exact ⟨.wait s1 r1 r2 i1 h1, i2, i3, i4⟩

/-- **until the owner has withdrawn, `claimablePayment = price × (winners at completion)`**: `s'`
    is the state in which `selectWinners` completed; `countTrue s'.status s'.lastTicketId` is the
    number of winning flags at that moment -/
theorem proceeds_are_price_times_winners (hash : List Nat → List Nat) (v : Variant) (hv : Plain v)
    (a0 : InitArgs) (s : State) (r : Nat) (h : ReachA hash v a0 s r) (e : Env) (s' : State) (o : Out)
    (hr : r ≤ e.round) (hok : EnvOK e)
    (hs : step hash s e .select = .ok (s', o)) (hsel : s'.flags.selected = true)
    (s2 : State) (r2 : Nat) (hl : Later hash s' e.round s2 r2) :
    s2.claimablePayment = s2.price * countTrue s'.status s'.lastTicketId ∧
    countTrue s'.status s'.lastTicketId = min a0.nrWinning s'.lastTicketId := by
  obtain ⟨h1, h2, h3, _, h5⟩ := three_counts_at_completion hash v hv a0 s r h e s' o hs hsel
  have hreach' : Reach hash v s' e.round :=
    Reach_iff.mpr ⟨a0, .call s r e .select s' o h hr hok trivial hs⟩
  obtain ⟨_, _, k3, k4⟩ := proceeds_constant hash v hv s' e.round hreach' h5 s2 r2 hl
  exact ⟨by rw [k4, k3, h3, h1], by rw [h1, h2]⟩

/-! ### non-vacuity: a concrete history through the whole lifecycle -/

def exArgs : InitArgs :=
  { lpTok := 1, perTicket := 5, payTok := .egld, price := 10, nrWinning := 1, conf := 5, sel := 10, claim := 15 }

def stOf (x : Res (State × Out)) (d : State) : State :=
  match x with
  | .ok (s, _) => s
  | .error _ => d

def isOk {α : Type} (x : Res α) : Bool :=
  match x with
  | .ok _ => true
  | .error _ => false

theorem Reach.callOk {hash : List Nat → List Nat} {v : Variant} {s : State} {r : Nat} (e : Env) (c : Call)
    (h : Reach hash v s r) (hr : r ≤ e.round) (hok : EnvOK e) (hc : CallOK c)
    (hs : isOk (step hash s e c) = true) : Reach hash v (stOf (step hash s e c) s) e.round := by
  cases hx : step hash s e c with
  | error err => rw [hx] at hs; cases hs
  | ok q =>
    obtain ⟨s', o⟩ := q
    exact .call s r e c s' o h hr hok hc hx

def ex0 : State := match init .base exArgs { caller := 1, round := 0 } with
  | .ok s => s
  | .error _ => default

def ex1 : State := stOf (step id ex0 { caller := 1, round := 1 } (.addTickets [(7, 2), (8, 1)])) ex0
def ex2 : State := stOf (step id ex1 { caller := 1, round := 2, esdts := [⟨.esdt 1, 0, 5⟩] } .deposit) ex1
def ex3 : State := stOf (step id ex2 { caller := 7, round := 5, egld := 20 } (.confirm 2)) ex2
def ex4 : State := stOf (step id ex3 { caller := 8, round := 6, egld := 10 } (.confirm 1)) ex3
def ex5 : State := stOf (step id ex4 { caller := 9, round := 10, budget := some 0 } .filter) ex4
def ex6 : State := stOf (step id ex5 { caller := 9, round := 11 } .filter) ex5
def ex7 : State := stOf (step id ex6 { caller := 9, round := 12 } .select) ex6

theorem ex0_reach : Reach id .base ex0 0 := Reach.init exArgs { caller := 1, round := 0 } ex0 rfl

/-- the hypotheses of the theorems are satisfiable: a history with two participants, an
    interrupted filter call, and a completed lottery -/
theorem ex7_reach : Reach id .base ex7 12 :=
  Reach.callOk { caller := 9, round := 12 } .select
    (Reach.callOk { caller := 9, round := 11 } .filter
      (Reach.callOk { caller := 9, round := 10, budget := some 0 } .filter
        (Reach.callOk { caller := 8, round := 6, egld := 10 } (.confirm 1)
          (Reach.callOk { caller := 7, round := 5, egld := 20 } (.confirm 2)
            (Reach.callOk { caller := 1, round := 2, esdts := [⟨.esdt 1, 0, 5⟩] } .deposit
              (Reach.callOk { caller := 1, round := 1 } (.addTickets [(7, 2), (8, 1)])
                ex0_reach (by decide) (Or.inl rfl) (by show ∀ p ∈ [(7, 2), (8, 1)], 1 ≤ p.2; decide) rfl)
              (by decide) (Or.inl rfl) trivial rfl)
            (by decide) (Or.inr rfl) trivial rfl)
          (by decide) (Or.inr rfl) trivial rfl)
        (by decide) (Or.inl rfl) trivial rfl)
      (by decide) (Or.inl rfl) trivial rfl)
    (by decide) (Or.inl rfl) trivial rfl

example : AllDone ex7 ∧ ex7.bal .egld 0 = 30 ∧ ex7.claimablePayment = 10 ∧ ex7.nrWinning = 1 ∧
    ex5.op = .filter 3 0 ∧ ex4.bal .egld 0 = 30 := by
  refine ⟨⟨rfl, rfl⟩, rfl, rfl, rfl, rfl, rfl⟩

/-- the main theorem applied to the concrete history -/
example : ∃ L : List Nat, Covers ex7 L ∧ PayEqPost ex7 L := by
  obtain ⟨L, h1, _, h3⟩ := C01_solvent_base id ex7 12 ex7_reach
  exact ⟨L, h1, h3 ⟨rfl, rfl⟩⟩

/-- ... continued to the end: both participants settle, the owner withdraws, nothing is left -/
def ex8 : State := stOf (step id ex7 { caller := 7, round := 15 } .claim) ex7
def ex9 : State := stOf (step id ex8 { caller := 1, round := 16 } .claimPayment) ex8
def ex10 : State := stOf (step id ex9 { caller := 8, round := 17 } .claim) ex9

theorem ex10_reach : Reach id .base ex10 17 :=
  Reach.callOk { caller := 8, round := 17 } .claim
    (Reach.callOk { caller := 1, round := 16 } .claimPayment
      (Reach.callOk { caller := 7, round := 15 } .claim ex7_reach
        (by decide) (Or.inl rfl) trivial rfl)
      (by decide) (Or.inl rfl) trivial rfl)
    (by decide) (Or.inl rfl) trivial rfl

example : ex8.bal .egld 0 + ex9.bal .egld 0 = 30 ∧ ex9.claimablePayment = 0 ∧ ex10.bal .egld 0 = 0 ∧
    ex10.range 7 = none ∧ ex10.range 8 = none := by
  refine ⟨rfl, rfl, rfl, rfl, rfl⟩

end LP.Props.C01reach

#print axioms LP.Props.C01reach.C01_solvent
#print axioms LP.Props.C01reach.C01_solvent_base
#print axioms LP.Props.C01reach.C01_solvent_locked
#print axioms LP.Props.C01reach.claim_refund_covered
#print axioms LP.Props.C01reach.claim_refund_succeeds
#print axioms LP.Props.C01reach.owner_withdrawal_covered
#print axioms LP.Props.C01reach.all_settled_nothing_left
#print axioms LP.Props.C01reach.three_counts
#print axioms LP.Props.C01reach.three_counts_at_completion
#print axioms LP.Props.C01reach.winners_before_filter
#print axioms LP.Props.C01reach.proceeds_until_withdrawal
#print axioms LP.Props.C01reach.proceeds_constant
#print axioms LP.Props.C01reach.proceeds_are_price_times_winners
#print axioms LP.Props.C01reach.ex7_reach
#print axioms LP.Props.C01reach.ex10_reach

#print axioms LP.Props.C01reach.Reach.callOk
#print axioms LP.Props.C01reach.ex0_reach
