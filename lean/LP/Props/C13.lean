import LP.Proofs.Vesting
/-
  LP.Props.C13 — vesting schedules (crates 4 = v1, 5 = v2).

  A1  which v2 schedules are accepted          (`v2_schedule_accepted_iff`, `setSchedule2_accepted_iff`)
  A2  the v2 unlocked percentage                (`unlockedPct2_props`, `unlockedPct2_accepted`, `unlockedPct2_default_props`)
  A3  path independence of repeated claims      (`claims_path_independent`, `claimable2_step`, …)
  A4  v1 schedules                              (`setSchedule1_accepted_iff`, `unlockedPct1_props`, `claimable1_step`, …)
  A5  `schedule_frozen`                         (`schedule_frozen`)

  Percentages are basis points, `MAX_PERCENTAGE = 10000`; `entitled E p = E * p / 10000`.
-/
namespace LP

/-! ## A1 — acceptance of a v2 schedule -/

/-- A1.  `UnlockSchedule::validate`, characterised. -/
theorem v2_schedule_accepted_iff (now : Nat) (ms : List (Nat × Nat)) :
    validSchedule2 now ms = true ↔
      ms ≠ [] ∧
      (∀ m ∈ ms, m.2 ≤ 10000 ∧ now ≤ m.1 ∧ m.1 ≤ now + 26280000) ∧
      ms.Pairwise (fun a b => a.1 ≤ b.1) ∧
      (ms.map (·.2)).sum = 10000 :=
  validSchedule2_iff' now ms

example : validSchedule2 5 [(5, 2500), (5, 0), (100, 7500)] = true := by decide
example : validSchedule2 5 [(100, 2500), (50, 7500)] = false := by decide

/-- A1, endpoint.  `setSchedule2` is accepted exactly in stage AddTickets, for at most 60
    milestones forming a valid schedule; the stored schedule is exactly `ms`, nothing else in
    the state changes and one event is emitted. -/
theorem setSchedule2_accepted_iff (t t' : Tx) (e : Env) (ms : List (Nat × Nat)) :
    setSchedule2 t e ms = .ok t' ↔
      t.s.stage e = .addTickets ∧ ms.length ≤ 60 ∧ validSchedule2 e.round ms = true ∧
      t' = (t.setS { t.s with sched2 := some ms }).emit ⟨"setUnlockSchedule", topics e,
        [e.caller, e.round, e.epoch, ms.length] ++ flattenPairs ms⟩ :=
  setSchedule2_eq_ok t t' e ms

theorem setSchedule2_accepted {t t' : Tx} {e : Env} {ms : List (Nat × Nat)}
    (h : setSchedule2 t e ms = .ok t') :
    t.s.stage e = .addTickets ∧ ms.length ≤ 60 ∧
    (ms ≠ [] ∧ (∀ m ∈ ms, m.2 ≤ 10000 ∧ e.round ≤ m.1 ∧ m.1 ≤ e.round + 26280000) ∧
      ms.Pairwise (fun a b => a.1 ≤ b.1) ∧ (ms.map (·.2)).sum = 10000) ∧
    t'.s.sched2 = some ms ∧ t'.s = { t.s with sched2 := some ms } := by
  obtain ⟨h1, h2, h3, rfl⟩ := (setSchedule2_eq_ok t t' e ms).1 h
  exact ⟨h1, h2, (v2_schedule_accepted_iff _ _).1 h3, rfl, rfl⟩

/-! ## A2 — the v2 unlocked percentage -/

/-- A2.  For a schedule with non-decreasing release rounds: monotone in the round; equal to
    the sum over ALL reached milestones (the early `break` loses nothing); at most the total;
    equal to the total once the last release round is reached.
    (Monotonicity and the upper bound hold for every list, see `unlockedPct2_mono`,
    `unlockedPct2_le_sum`.) -/
theorem unlockedPct2_props (ms : List (Nat × Nat)) (hs : ms.Pairwise (fun a b => a.1 ≤ b.1)) :
    (∀ now now', now ≤ now' → unlockedPct2 now ms ≤ unlockedPct2 now' ms) ∧
    (∀ now, unlockedPct2 now ms = ((ms.filter (fun m => decide (m.1 ≤ now))).map (·.2)).sum) ∧
    (∀ now, unlockedPct2 now ms ≤ (ms.map (·.2)).sum) ∧
    (∀ now (hne : ms ≠ []), (ms.getLast hne).1 ≤ now → unlockedPct2 now ms = (ms.map (·.2)).sum) :=
  ⟨fun _ _ h => unlockedPct2_mono h ms,
   fun now => unlockedPct2_eq_reachedSum now ms hs,
   fun now => unlockedPct2_le_sum now ms,
   fun now hne h => unlockedPct2_after_last now ms hs hne h⟩

/-- A2 for an accepted schedule: never more than 100 %, exactly 100 % from the last release
    round on, and 0 % before the first one. -/
theorem unlockedPct2_accepted {t0 : Nat} {ms : List (Nat × Nat)} (hv : validSchedule2 t0 ms = true) :
    (∀ now, unlockedPct2 now ms ≤ 10000) ∧
    (∀ now, (∀ m ∈ ms, m.1 ≤ now) → unlockedPct2 now ms = 10000) ∧
    (∃ hne : ms ≠ [], ∀ now, (ms.getLast hne).1 ≤ now → unlockedPct2 now ms = 10000) ∧
    (∃ hne : ms ≠ [], ∀ now, now < (ms.head hne).1 → unlockedPct2 now ms = 0) := by
  obtain ⟨hne, _, hs, hsum⟩ := (validSchedule2_iff' t0 ms).1 hv
  refine ⟨fun now => hsum ▸ unlockedPct2_le_sum now ms,
    fun now h => hsum ▸ unlockedPct2_all now ms h,
    ⟨hne, fun now h => hsum ▸ unlockedPct2_after_last now ms hs hne h⟩,
    ⟨hne, fun now h => ?_⟩⟩
  cases ms with
  | nil => exact absurd rfl hne
  | cons m rest => exact unlockedPct2_before_first now m rest h

/-- A2 for the default schedule `[(0, 10000)]` (no schedule stored): everything is unlocked
    at every round; the list is sorted and sums to 100 %. -/
theorem unlockedPct2_default_props :
    (∀ now, unlockedPct2 now defaultSchedule2 = 10000) ∧
    defaultSchedule2.Pairwise (fun a b => a.1 ≤ b.1) ∧
    (defaultSchedule2.map (·.2)).sum = 10000 :=
  ⟨unlockedPct2_default, defaultSchedule2_sorted, defaultSchedule2_sum⟩

example : unlockedPct2 50 [(10, 1000), (50, 4000), (50, 2000), (90, 3000)] = 7000 := by decide

/-- the `break` does lose milestones when the rounds are NOT sorted — which is why
    `validate` insists on the order -/
example : unlockedPct2 50 [(90, 3000), (10, 7000)] = 0 ∧
    (([(90, 3000), (10, 7000)].filter (fun m => decide (m.1 ≤ 50))).map (·.2)).sum = 7000 := by
  decide

/-! ## A3 — path independence -/

/-- A3 (abstract).  A winner with entitlement `E`, a percentage function `pct` that is
    monotone in the round, and ANY non-empty list of claim rounds in non-decreasing order,
    starting from nothing claimed: the cumulative amount received equals
    `E * pct(r_last) / 10000` — it depends on the last claim round only;
    it never decreases along the way; it never exceeds `E` when `pct ≤ 10000`; it is exactly
    `E` when `pct(r_last) = 10000`; the individual pay-outs add up to it. -/
theorem claims_path_independent (E : Nat) (pct : Nat → Nat)
    (hmono : ∀ a b, a ≤ b → pct a ≤ pct b) (rs : List Nat) (hs : rs.Pairwise (· ≤ ·))
    (hne : rs ≠ []) :
    claimFold E pct rs 0 = E * pct (rs.getLast hne) / 10000 ∧
    (claimPayouts E pct rs 0).sum = E * pct (rs.getLast hne) / 10000 ∧
    (∀ r, claimFold E pct rs 0 ≤ claimFold E pct (rs ++ [r]) 0) ∧
    ((∀ r, pct r ≤ 10000) → claimFold E pct rs 0 ≤ E) ∧
    (pct (rs.getLast hne) = 10000 → claimFold E pct rs 0 = E) := by
  have h1 := claimFold_last E pct hmono rs hs hne 0 (Nat.zero_le _)
  have h2 := claimPayouts_sum E pct rs 0
  refine ⟨h1, by change _ = entitled E _; omega, fun r => ?_, fun hp => claimFold_le E pct hp rs 0 (Nat.zero_le _),
    fun hl => by rw [h1, hl]; exact entitled_full E⟩
  rw [claimFold_append]
  exact claimFold_ge E pct [r] _

/-- A3, one step: a claim at a percentage that covers what was already paid lands exactly
    on `E * pct / 10000`, regardless of the history. -/
theorem claimStep_props (E pct claimed : Nat) :
    claimed ≤ claimStep E pct claimed ∧
    (claimed ≤ E * pct / 10000 → claimStep E pct claimed = E * pct / 10000) ∧
    (pct ≤ 10000 → claimed ≤ E → claimStep E pct claimed ≤ E) ∧
    (claimed ≤ E → claimStep E 10000 claimed = E) := by
  refine ⟨claimStep_ge _ _ _, claimStep_eq, claimStep_le, fun h => ?_⟩
  rw [claimStep_eq (by rw [entitled_full]; exact h), entitled_full]

example : claimFold 1001 (fun r => unlockedPct2 r [(10, 3333), (20, 3333), (30, 3334)])
    [5, 10, 12, 25, 25, 31] 0 = 1001 ∧
    claimPayouts 1001 (fun r => unlockedPct2 r [(10, 3333), (20, 3333), (30, 3334)])
    [5, 10, 12, 25, 25, 31] 0 = [0, 333, 0, 334, 0, 334] := by decide

/-- A3, model (v2).  If `claimable2` returns `c` and the amount already claimed is covered by
    the entitlement at some earlier round `r` (the previous claim round), then after the claim
    `userClaimed + c` is exactly the entitlement at the current round. -/
theorem claimable2_step {s : State} {e : Env} {a c r : Nat}
    (h : claimable2 s e a = .ok c) (_hr : r ≤ e.round)
    (hinv : s.userClaimed a ≤
      s.userTotal a * unlockedPct2 r (s.sched2.getD defaultSchedule2) / 10000) :
    s.userClaimed a + c =
      s.userTotal a * unlockedPct2 e.round (s.sched2.getD defaultSchedule2) / 10000 := by
  rw [claimable2_eq] at h
  show _ = entitled2 s a e.round
  split at h
  · rename_i h0
    cases h
    simp only [h0, Nat.zero_mul, Nat.zero_div, Nat.le_zero_eq] at hinv
    simp [hinv, entitled2, entitled, h0]
  · split at h
    · obtain ⟨h1, rfl⟩ := bsub_eq_ok.1 h
      omega
    · cases h

/-- A3, model (v2): under the same invariant the subtraction in `claimable2` never fails.
    The only possible rejection is "Already claimed all tokens". -/
theorem claimable2_no_underflow (s : State) (e : Env) (a : Nat) {r : Nat} (hr : r ≤ e.round)
    (hinv : s.userClaimed a ≤
      s.userTotal a * unlockedPct2 r (s.sched2.getD defaultSchedule2) / 10000) :
    claimable2 s e a = .ok (entitled2 s a e.round - s.userClaimed a) ∨
    (claimable2 s e a = .error (.user "Already claimed all tokens") ∧
      0 < s.userTotal a ∧ s.userTotal a ≤ s.userClaimed a) := by
  have hle : s.userClaimed a ≤ entitled2 s a e.round :=
    Nat.le_trans hinv (entitled2_mono s a hr)
  rw [claimable2_eq]
  by_cases h0 : s.userTotal a = 0
  · left
    have : entitled2 s a e.round = 0 := by simp [entitled2, entitled, h0]
    simp [h0, this]
  · by_cases h1 : s.userClaimed a < s.userTotal a
    · left
      simp [h0, h1, bsub, hle]
    · right
      simp [h0, h1]
      omega

/-- A3, model (v2): when the schedule sums to at most 100 % (every accepted schedule and the
    default one), "Already claimed all tokens" under the invariant means precisely that the
    user holds the whole entitlement. -/
theorem claimable2_rejected_means_paid (s : State) (a : Nat) {r : Nat}
    (hsum : ((s.sched2.getD defaultSchedule2).map (·.2)).sum ≤ 10000)
    (hinv : s.userClaimed a ≤
      s.userTotal a * unlockedPct2 r (s.sched2.getD defaultSchedule2) / 10000)
    (hrej : s.userTotal a ≤ s.userClaimed a) : s.userClaimed a = s.userTotal a := by
  have : entitled (s.userTotal a) (unlockedPct2 r (s.sched2.getD defaultSchedule2)) ≤ s.userTotal a :=
    entitled_le _ (Nat.le_trans (unlockedPct2_le_sum _ _) hsum)
  have h2 : s.userClaimed a ≤ s.userTotal a := Nat.le_trans hinv this
  omega

/-- A3, model (v2), whole endpoint: a repeat claim (the caller has settled before) of the
    vesting variants re-establishes the invariant with equality at the current round and
    leaves entitlement and schedule untouched. -/
theorem claimVested_repeat_v2 {t t' : Tx} {e : Env} {r : Nat}
    (hv : t.s.variant.isV2 = true) (hcl : t.s.claimed e.caller = true)
    (h : claimVested t e = .ok t') (hr : r ≤ e.round)
    (hinv : t.s.userClaimed e.caller ≤ entitled2 t.s e.caller r) :
    t'.s.userClaimed e.caller = entitled2 t.s e.caller e.round ∧
    (∀ now, entitled2 t'.s e.caller now = entitled2 t.s e.caller now) ∧
    t.s.userClaimed e.caller ≤ t'.s.userClaimed e.caller ∧
    (∀ a, a ≠ e.caller → t'.s.userClaimed a = t.s.userClaimed a) := by
  obtain ⟨c, hc, h1, h2, h3, _, h5, _⟩ := claimVested_repeat hcl h
  simp only [claimableV, hv, if_true] at hc
  have := claimable2_step hc hr hinv
  refine ⟨by rw [h1]; exact this, fun now => ?_, by omega, h2⟩
  simp [entitled2, sched2Of, h3, h5]

/-! ## A4 — v1 schedules -/

/-- A4.  `setSchedule1` (v1 `set_unlock_schedule` with checked arithmetic) accepted ↔ … ;
    the stored schedule is exactly the argument tuple and nothing else changes. -/
theorem setSchedule1_accepted_iff (s s' : State) (e : Env) (start initial times pct period : Nat) :
    setSchedule1 s e start initial times pct period = .ok s' ↔
      (e.round < s.cfg.conf ∨ s.sched1 = none) ∧ start ≥ e.round ∧
      (period > 0 ∨ initial = 10000) ∧ initial + times * pct = 10000 ∧
      s' = { s with sched1 := some ⟨start, initial, times, pct, period⟩ } :=
  setSchedule1_eq_ok s s' e start initial times pct period

/-- an accepted v1 schedule satisfies `validSched1` -/
theorem setSchedule1_valid {s s' : State} {e : Env} {start initial times pct period : Nat}
    (h : setSchedule1 s e start initial times pct period = .ok s') :
    ∃ sc, s'.sched1 = some sc ∧ validSched1 sc ∧ e.round ≤ sc.start := by
  obtain ⟨_, h2, h3, h4, rfl⟩ := (setSchedule1_eq_ok ..).1 h
  exact ⟨_, rfl, ⟨h3, h4⟩, h2⟩

example : validSched1 ⟨100, 2500, 3, 2500, 10⟩ ∧ validSched1 ⟨100, 10000, 0, 0, 0⟩ := by
  simp [validSched1]

/-- A4.  For an accepted v1 schedule the unlocked percentage is monotone in the round, at
    most 100 %, 0 before `start`, and 100 % from `start + times * period` on (immediately at
    `start` when `initial = 100 %`). -/
theorem unlockedPct1_props (sc : Sched1) (hv : validSched1 sc) :
    (∀ now now', now ≤ now' → unlockedPct1 now sc ≤ unlockedPct1 now' sc) ∧
    (∀ now, unlockedPct1 now sc ≤ 10000) ∧
    (∀ now, now < sc.start → unlockedPct1 now sc = 0) ∧
    (∀ now, sc.start + sc.times * sc.period ≤ now → unlockedPct1 now sc = 10000) ∧
    (sc.initial = 10000 → ∀ now, sc.start ≤ now → unlockedPct1 now sc = 10000) :=
  ⟨fun _ _ h => unlockedPct1_mono sc h, unlockedPct1_le sc hv,
   fun _ h => unlockedPct1_before sc h,
   fun _ h => unlockedPct1_full sc hv (.inl h),
   fun hi _ h => unlockedPct1_full sc hv (.inr ⟨hi, h⟩)⟩

example : (List.map (fun r => unlockedPct1 r ⟨100, 2500, 3, 2500, 10⟩) [99, 100, 109, 110, 125, 130, 500])
    = [0, 2500, 2500, 5000, 7500, 10000, 10000] := by decide

/-- The invariant the v1 claim needs.  `claimable1` has a special case: with
    `initial = 100 %` it returns the WHOLE total (not `total - claimed`), guarded only by
    `claimed < total`.  So "claimed ≤ entitlement at an earlier round" is not enough; what is
    needed (and what every claim re-establishes) is that the claimed amount is EXACTLY the
    entitlement at some earlier round, or nothing has been claimed yet. -/
def claimedExactly1 (s : State) (a now : Nat) : Prop :=
  s.userClaimed a = 0 ∨ ∃ r, r ≤ now ∧ s.userClaimed a = entitled1 s a r

/-- without that invariant the special case over-pays: total 100, already claimed 50,
    schedule "100 % at round 0" → another 100 are claimable -/
example :
    let s : State := { (default : State) with
      sched1 := some ⟨0, 10000, 0, 0, 0⟩, userTotal := fun _ => 100, userClaimed := fun _ => 50 }
    (claimable1 s { caller := 1, round := 7 } 1).toOption = some 100 := by decide

/-- A4, model (v1).  Path independence for `claimable1`: under `claimedExactly1`, if the call
    returns `c` then `userClaimed + c` is exactly the entitlement at the current round
    (`entitled1 s a now = userTotal a * pct1 now s.sched1 / 10000`, with `pct1 = 0` while no
    schedule is stored). -/
theorem claimable1_step {s : State} {e : Env} {a c : Nat}
    (h : claimable1 s e a = .ok c) (hinv : claimedExactly1 s a e.round) :
    s.userClaimed a + c = entitled1 s a e.round := by
  rw [claimable1_eq] at h
  -- what the invariant gives when the percentage at the witness round is 0 or all-or-nothing
  split at h
  · rename_i h0
    cases h
    have : s.userClaimed a = 0 := by
      rcases hinv with h | ⟨r, _, h⟩
      · exact h
      · simp [h, entitled1, entitled, h0]
    simp [this, entitled1, entitled, h0]
  · split at h
    · rename_i h0 h1
      cases hs : s.sched1 with
      | none =>
        rw [hs] at h
        cases h
        have : s.userClaimed a = 0 := by
          rcases hinv with h | ⟨r, _, h⟩
          · exact h
          · simp [h, entitled1, entitled, hs, pct1]
        simp [this, entitled1, entitled, hs, pct1]
      | some sc =>
        rw [hs] at h
        simp only at h
        split at h
        · rename_i hst
          cases h
          have hz : ∀ r, r ≤ e.round → entitled1 s a r = 0 := by
            intro r hr
            have : unlockedPct1 r sc = 0 := unlockedPct1_before sc (by omega)
            simp [entitled1, entitled, hs, pct1, this]
          have : s.userClaimed a = 0 := by
            rcases hinv with h | ⟨r, hr, h⟩
            · exact h
            · rw [h, hz r hr]
          rw [this, hz _ (Nat.le_refl _)]
        · rename_i hst
          split at h
          · rename_i hi
            cases h
            have hfull : entitled1 s a e.round = s.userTotal a := by
              have : unlockedPct1 e.round sc = 10000 := by
                rw [unlockedPct1_step sc hi, if_neg hst]
              simp only [entitled1, hs, pct1, this]
              exact entitled_full _
            have : s.userClaimed a = 0 := by
              rcases hinv with h | ⟨r, hr, h⟩
              · exact h
              · have hr' : entitled1 s a r = if sc.start > r then 0 else s.userTotal a := by
                  simp only [entitled1, hs, pct1, unlockedPct1_step sc hi]
                  split
                  · exact entitled_zero _
                  · exact entitled_full _
                rw [hr'] at h
                split at h
                · exact h
                · omega
            rw [this, hfull, Nat.zero_add]
          · obtain ⟨_, rfl⟩ := bsub_eq_ok.1 h
            omega
    · cases h

/-- A4, model (v1): every successful claim re-establishes the invariant (for every later
    round), provided total and schedule stay as they are. -/
theorem claimedExactly1_step {s s' : State} {e : Env} {a c : Nat}
    (h : claimable1 s e a = .ok c) (hinv : claimedExactly1 s a e.round)
    (hc : s'.userClaimed a = s.userClaimed a + c) (ht : s'.userTotal a = s.userTotal a)
    (hs : s'.sched1 = s.sched1) {now : Nat} (hn : e.round ≤ now) :
    claimedExactly1 s' a now := by
  right
  refine ⟨e.round, hn, ?_⟩
  rw [hc, claimable1_step h hinv]
  simp [entitled1, ht, hs]

/-- A4, model (v1): under the invariant the subtraction in `claimable1` never fails. -/
theorem claimable1_no_underflow (s : State) (e : Env) (a : Nat)
    (hinv : claimedExactly1 s a e.round) :
    (∃ c, claimable1 s e a = .ok c) ∨
    (claimable1 s e a = .error (.user "Already claimed all tokens") ∧
      0 < s.userTotal a ∧ s.userTotal a ≤ s.userClaimed a) := by
  have hle : s.userClaimed a ≤ entitled1 s a e.round := by
    rcases hinv with h | ⟨r, hr, h⟩
    · omega
    · rw [h]; exact entitled1_mono s a hr
  rw [claimable1_eq]
  by_cases h0 : s.userTotal a = 0
  · left; exact ⟨0, by simp [h0]⟩
  · by_cases h1 : s.userClaimed a < s.userTotal a
    · left
      simp only [h0, h1, if_false, if_true]
      cases s.sched1 with
      | none => exact ⟨_, rfl⟩
      | some sc =>
        simp only
        split
        · exact ⟨_, rfl⟩
        · split
          · exact ⟨_, rfl⟩
          · exact ⟨entitled1 s a e.round - s.userClaimed a, by simp [bsub, hle]⟩
    · right
      simp [h0, h1]
      omega

/-- A4, model (v1), whole endpoint: a repeat claim of crate 4 re-establishes the invariant. -/
theorem claimVested_repeat_v1 {t t' : Tx} {e : Env}
    (hv : t.s.variant.isV2 = false) (hcl : t.s.claimed e.caller = true)
    (h : claimVested t e = .ok t') (hinv : claimedExactly1 t.s e.caller e.round) :
    t'.s.userClaimed e.caller = entitled1 t.s e.caller e.round ∧
    (∀ now, e.round ≤ now → claimedExactly1 t'.s e.caller now) ∧
    t.s.userClaimed e.caller ≤ t'.s.userClaimed e.caller := by
  obtain ⟨c, hc, h1, _, h3, h4, _, _⟩ := claimVested_repeat hcl h
  simp only [claimableV, hv, Bool.false_eq_true, if_false] at hc
  have := claimable1_step hc hinv
  exact ⟨by rw [h1]; exact this,
    fun now hn => claimedExactly1_step hc hinv h1 (by rw [h3]) h4 hn, by omega⟩

/-! ## A3/A4 on the whole endpoint, first claim included -/

/-- v2, any successful claim (first or repeat).  Precondition: either nothing is booked for
    the caller yet, or the caller has settled before and the booked amount is covered by the
    entitlement at an earlier round.  Then after the call the booked amount is EXACTLY the
    entitlement at the current round (computed with the entitlement fixed by the settle part),
    it did not decrease, and the schedule is untouched. -/
theorem claimVested_v2_exact {t t' : Tx} {e : Env}
    (hv : t.s.variant.isV2 = true) (h : claimVested t e = .ok t')
    (hinv : t.s.userClaimed e.caller = 0 ∨
      (t.s.claimed e.caller = true ∧
        ∃ r, r ≤ e.round ∧ t.s.userClaimed e.caller ≤ entitled2 t.s e.caller r)) :
    t'.s.userClaimed e.caller = entitled2 t'.s e.caller e.round ∧
    t.s.userClaimed e.caller ≤ t'.s.userClaimed e.caller ∧
    t'.s.sched2 = t.s.sched2 ∧
    (∀ a, a ≠ e.caller → t'.s.userClaimed a = t.s.userClaimed a) := by
  obtain ⟨t1, c, h1, hc, h2, h3, h4, _, h6, _⟩ := claimVested_inv h
  obtain ⟨f1, _, f3, _, f5, _⟩ := claimSettle_frame h1
  simp only [hv, if_true] at hc
  have hinv1 : ∃ r, r ≤ e.round ∧ t1.s.userClaimed e.caller ≤
      t1.s.userTotal e.caller * unlockedPct2 r (t1.s.sched2.getD defaultSchedule2) / 10000 := by
    rcases hinv with h0 | ⟨hcl, r, hr, hle⟩
    · exact ⟨e.round, Nat.le_refl _, by rw [f1, h0]; exact Nat.zero_le _⟩
    · have := f5 hcl
      subst this
      exact ⟨r, hr, hle⟩
  obtain ⟨r, hr, hle⟩ := hinv1
  have := claimable2_step hc hr hle
  refine ⟨?_, by omega, h6, h3⟩
  rw [h2, ← f1, this]
  simp [entitled2, entitled, sched2Of, h4, h6, f3]

/-- v1, any successful claim (first or repeat), with the exact-amount invariant. -/
theorem claimVested_v1_exact {t t' : Tx} {e : Env}
    (hv : t.s.variant.isV2 = false) (h : claimVested t e = .ok t')
    (hinv : t.s.userClaimed e.caller = 0 ∨
      (t.s.claimed e.caller = true ∧ claimedExactly1 t.s e.caller e.round)) :
    t'.s.userClaimed e.caller = entitled1 t'.s e.caller e.round ∧
    (∀ now, e.round ≤ now → claimedExactly1 t'.s e.caller now) ∧
    t.s.userClaimed e.caller ≤ t'.s.userClaimed e.caller ∧
    t'.s.sched1 = t.s.sched1 ∧
    (∀ a, a ≠ e.caller → t'.s.userClaimed a = t.s.userClaimed a) := by
  obtain ⟨t1, c, h1, hc, h2, h3, h4, h5, _, _⟩ := claimVested_inv h
  obtain ⟨f1, f2, _, _, f5, _⟩ := claimSettle_frame h1
  simp only [hv, Bool.false_eq_true, if_false] at hc
  have hinv1 : claimedExactly1 t1.s e.caller e.round := by
    rcases hinv with h0 | ⟨hcl, hex⟩
    · left; rw [f1, h0]
    · have := f5 hcl
      subst this
      exact hex
  have hstep := claimable1_step hc hinv1
  have heq : t'.s.userClaimed e.caller = entitled1 t'.s e.caller e.round := by
    rw [h2, ← f1, hstep]
    simp [entitled1, h4, h5, f2]
  exact ⟨heq, fun now hn => .inr ⟨e.round, hn, heq⟩, by omega, h5, h3⟩

/-! ## A5 — `schedule_frozen` -/

/-- A5.  In the model the v2 schedule can be set only in stage AddTickets; the v1 schedule
    only before the confirmation start round or while no schedule is stored.  Stated on the
    endpoint table `exec`. -/
theorem schedule_frozen (hash : List Nat → List Nat) (t t' : Tx) (e : Env) :
    (∀ ms, exec hash t e (.setSchedule2 ms) = .ok t' → t.s.stage e = .addTickets) ∧
    (∀ a b c d f, exec hash t e (.setSchedule1 a b c d f) = .ok t' →
      e.round < t.s.cfg.conf ∨ t.s.sched1 = none) := by
  constructor
  · intro ms h
    exact ((setSchedule2_eq_ok t t' e ms).1 h).1
  · intro a b c d f h
    simp only [exec, bind, Except.bind, pure, Except.pure] at h
    split at h
    · cases h
    · rename_i s' hs
      exact ((setSchedule1_eq_ok ..).1 hs).1

/-- A5, contrapositive: outside these windows the calls are rejected. -/
theorem schedule_frozen_rejects (hash : List Nat → List Nat) (t : Tx) (e : Env) :
    (t.s.stage e ≠ .addTickets → ∀ ms, ∃ err, exec hash t e (.setSchedule2 ms) = .error err) ∧
    (t.s.cfg.conf ≤ e.round → t.s.sched1 ≠ none →
      ∀ a b c d f, ∃ err, exec hash t e (.setSchedule1 a b c d f) = .error err) := by
  constructor
  · intro hst ms
    cases h : exec hash t e (.setSchedule2 ms) with
    | error err => exact ⟨err, rfl⟩
    | ok t' => exact absurd ((schedule_frozen hash t t' e).1 ms h) hst
  · intro h1 h2 a b c d f
    cases h : exec hash t e (.setSchedule1 a b c d f) with
    | error err => exact ⟨err, rfl⟩
    | ok t' =>
      rcases (schedule_frozen hash t t' e).2 a b c d f h with h' | h'
      · omega
      · exact absurd h' h2

end LP

#print axioms LP.v2_schedule_accepted_iff
#print axioms LP.setSchedule2_accepted_iff
#print axioms LP.setSchedule2_accepted
#print axioms LP.unlockedPct2_props
#print axioms LP.unlockedPct2_accepted
#print axioms LP.unlockedPct2_default_props
#print axioms LP.claims_path_independent
#print axioms LP.claimStep_props
#print axioms LP.claimable2_step
#print axioms LP.claimable2_no_underflow
#print axioms LP.claimable2_rejected_means_paid
#print axioms LP.claimVested_repeat_v2
#print axioms LP.setSchedule1_accepted_iff
#print axioms LP.setSchedule1_valid
#print axioms LP.unlockedPct1_props
#print axioms LP.claimable1_step
#print axioms LP.claimedExactly1_step
#print axioms LP.claimable1_no_underflow
#print axioms LP.claimVested_repeat_v1
#print axioms LP.claimVested_v2_exact
#print axioms LP.claimVested_v1_exact
#print axioms LP.schedule_frozen
#print axioms LP.schedule_frozen_rejects
