import LP.Proofs.ReserveSeq
import LP.Proofs.ReserveExamples
/-
  C12 — the guaranteed-ticket reserve.

  `GuarInv v2 s` (LP/Proofs/Reserve.lean, structure `GI`):
    * `s.whitelist.Nodup`
    * `s.totalGuaranteed = Σ_{u ∈ whitelist} gOf v2 ((s.uts u).getD {})`
    * `uts u = some st`, `gOf v2 st > 0`  →  `u ∈ whitelist`
    * `u ∈ whitelist`  →  `∃ st, uts u = some st ∧ gOf v2 st > 0`
    * (strengthening 1) `uts u` present → `range u` present
    * (strengthening 2, v1 only) `range u` present, `uts u` absent →
        `blUts u = some st` with `gOf false st > 0`
  The two strengthenings are needed for inductiveness; the counterexamples at the end of the
  file show that each one (and each extra hypothesis of `restoreGuaranteedV2`) is necessary.
-/
namespace LP

/-! ### 1. each hook conserves the reserve and re-establishes the invariant -/

theorem C12_addTicketsV2 (t t' : Tx) (e : Env) (l : List (Nat × Nat × List (Nat × Nat)))
    (h : GuarInv true t.s) (hok : addTicketsV2 t e l = .ok t') :
    t'.s.nrWinning + t'.s.totalGuaranteed = t.s.nrWinning + t.s.totalGuaranteed ∧
    GuarInv true t'.s :=
  (addTicketsV2_reserve t e l h).of_ok hok

theorem C12_clearGuaranteedV2 (s s' : State) (l : List Nat)
    (h : GuarInv true s) (hok : clearGuaranteedV2 s l = .ok s') :
    s'.nrWinning + s'.totalGuaranteed = s.nrWinning + s.totalGuaranteed ∧ GuarInv true s' := by
  obtain ⟨s2, h2, h3⟩ := clearGuaranteedV2_reserve s l h
  rw [h2] at hok; cases hok; exact h3

/-- the restored users are pairwise distinct and have no live record: both are guaranteed by
    `removeUsersFromBlacklist` together with `GuarInvX` (see `C12_history`) -/
theorem C12_restoreGuaranteedV2 (s s' : State) (l : List Nat)
    (h : GuarInv true s) (hnd : l.Nodup) (hno : ∀ u ∈ l, s.uts u = none)
    (hok : restoreGuaranteedV2 s l = .ok s') :
    s'.nrWinning + s'.totalGuaranteed = s.nrWinning + s.totalGuaranteed ∧ GuarInv true s' :=
  (restoreGuaranteedV2_reserve s l h hnd hno).of_ok hok

theorem C12_addTicketsV1 (s s' : State) (e : Env) (l : List (Nat × Nat × Nat × Bool))
    (h : GuarInv false s) (hok : addTicketsV1 s e l = .ok s') :
    s'.nrWinning + s'.totalGuaranteed = s.nrWinning + s.totalGuaranteed ∧ GuarInv false s' :=
  (addTicketsV1_reserve s e l h).of_ok hok

theorem C12_clearGuaranteedV1 (s s' : State) (l : List Nat)
    (h : GuarInv false s) (hok : clearGuaranteedV1 s l = .ok s') :
    s'.nrWinning + s'.totalGuaranteed = s.nrWinning + s.totalGuaranteed ∧ GuarInv false s' := by
  obtain ⟨s2, h2, h3⟩ := clearGuaranteedV1_reserve s l h
  rw [h2] at hok; cases hok; exact h3

theorem C12_restoreGuaranteedV1 (s s' : State) (l : List Nat)
    (h : GuarInv false s) (hok : restoreGuaranteedV1 s l = .ok s') :
    s'.nrWinning + s'.totalGuaranteed = s.nrWinning + s.totalGuaranteed ∧ GuarInv false s' :=
  (restoreGuaranteedV1_reserve s l h).of_ok hok

/-! ### 2. no counter wraps: the hooks fail only with a user error -/

theorem C12_addTicketsV2_no_panic (t : Tx) (e : Env) (l : List (Nat × Nat × List (Nat × Nat)))
    (h : GuarInv true t.s) :
    (∃ t', addTicketsV2 t e l = .ok t') ∨ (∃ m, addTicketsV2 t e l = .error (.user m)) := by
  have := addTicketsV2_reserve t e l h
  cases hr : addTicketsV2 t e l with
  | ok t' => exact Or.inl ⟨t', rfl⟩
  | error err => rw [hr] at this; obtain ⟨m, rfl⟩ := this; exact Or.inr ⟨m, rfl⟩

theorem C12_addTicketsV1_no_panic (s : State) (e : Env) (l : List (Nat × Nat × Nat × Bool))
    (h : GuarInv false s) :
    (∃ s', addTicketsV1 s e l = .ok s') ∨ (∃ m, addTicketsV1 s e l = .error (.user m)) := by
  have := addTicketsV1_reserve s e l h
  cases hr : addTicketsV1 s e l with
  | ok t' => exact Or.inl ⟨t', rfl⟩
  | error err => rw [hr] at this; obtain ⟨m, rfl⟩ := this; exact Or.inr ⟨m, rfl⟩

/-- under the invariant the blacklist hooks never fail at all -/
theorem C12_clearGuaranteedV2_total (s : State) (l : List Nat) (h : GuarInv true s) :
    ∃ s', clearGuaranteedV2 s l = .ok s' := by
  obtain ⟨s2, h2, _⟩ := clearGuaranteedV2_reserve s l h
  exact ⟨s2, h2⟩

theorem C12_clearGuaranteedV1_total (s : State) (l : List Nat) (h : GuarInv false s) :
    ∃ s', clearGuaranteedV1 s l = .ok s' := by
  obtain ⟨s2, h2, _⟩ := clearGuaranteedV1_reserve s l h
  exact ⟨s2, h2⟩

theorem C12_restoreGuaranteedV2_no_panic (s : State) (l : List Nat)
    (h : GuarInv true s) (hnd : l.Nodup) (hno : ∀ u ∈ l, s.uts u = none) :
    (∃ s', restoreGuaranteedV2 s l = .ok s') ∨
    (∃ m, restoreGuaranteedV2 s l = .error (.user m)) := by
  have := restoreGuaranteedV2_reserve s l h hnd hno
  cases hr : restoreGuaranteedV2 s l with
  | ok t' => exact Or.inl ⟨t', rfl⟩
  | error err => rw [hr] at this; obtain ⟨m, rfl⟩ := this; exact Or.inr ⟨m, rfl⟩

theorem C12_restoreGuaranteedV1_no_panic (s : State) (l : List Nat) (h : GuarInv false s) :
    (∃ s', restoreGuaranteedV1 s l = .ok s') ∨
    (∃ m, restoreGuaranteedV1 s l = .error (.user m)) := by
  have := restoreGuaranteedV1_reserve s l h
  cases hr : restoreGuaranteedV1 s l with
  | ok t' => exact Or.inl ⟨t', rfl⟩
  | error err => rw [hr] at this; obtain ⟨m, rfl⟩ := this; exact Or.inr ⟨m, rfl⟩

/-! ### 3. whole histories through the real dispatcher (`step` / `run`) -/

/-- the empty initial state satisfies the (extended) invariant -/
theorem C12_initial (s : State) (hw : s.whitelist = []) (ht : s.totalGuaranteed = 0)
    (hu : s.uts = fun _ => none) (hr : s.range = fun _ => none)
    (hb : s.blacklist = fun _ => false) : GuarInvX s :=
  GuarInvX_initial s hw ht hu hr hb

/-- after any history of `addTickets` (v1/v2), `addUsersToBlacklist`, `refundUserTickets`,
    `removeUsersFromBlacklist` transactions, of any contract variant, accepted or rejected:
    `nrWinning + totalGuaranteed` is what it was, and the invariant holds -/
theorem C12_history (hash : List Nat → List Nat) (cs : List (Env × Call)) (s : State)
    (hcs : ∀ ec ∈ cs, isGuarCall ec.2 = true) (h : GuarInvX s) :
    (run hash s cs).nrWinning + (run hash s cs).totalGuaranteed =
      s.nrWinning + s.totalGuaranteed ∧
    GuarInvX (run hash s cs) ∧ GuarInv s.variant.isV2 (run hash s cs) := by
  have := run_guar_reserve hash cs s hcs h
  exact ⟨this.1, this.2.1, this.2.2 ▸ this.2.1.base⟩

/-- and no transaction of such a history panics (no checked subtraction fails) -/
theorem C12_history_no_panic (hash : List Nat → List Nat) (pre post : List (Env × Call))
    (e : Env) (c : Call) (s : State)
    (hcs : ∀ ec ∈ pre ++ (e, c) :: post, isGuarCall ec.2 = true) (h : GuarInvX s)
    (site : String) :
    step hash (run hash s pre) e c ≠ .error (.panic site) :=
  run_guar_no_panic hash pre post e c s hcs h site

/-! ### examples: hypotheses are satisfiable; the strengthenings are necessary -/

/-- a non-trivial state satisfying the invariant (one whitelisted user, reserve 3 + 2) -/
example : GuarInv true sLive := sLive_inv

/-- the main theorems applied to a concrete accepted history (allocate, blacklist, un-blacklist) -/
example : (run (fun x => x) (sBase .guarV2) hist).nrWinning +
    (run (fun x => x) (sBase .guarV2) hist).totalGuaranteed = 5 :=
  (C12_history (fun x => x) hist (sBase .guarV2) hist_guar sBase_invX).1

example : (run (fun x => x) (sBase .guarV2) hist).totalGuaranteed = 2 := by
  have := hist_run; simp only [Prod.mk.injEq] at this; exact this.2.2.2.2.2.1

/-- counterexample traces (see LP/Proofs/ReserveExamples.lean for the commentary) -/
example : ∃ s', restoreGuaranteedV2 sLive [7] = .ok s' ∧ s'.whitelist = [7] ∧
    s'.totalGuaranteed = 2 ∧ gSum true s'.uts s'.whitelist = 0 := ce_restore_live
example : ∃ s', restoreGuaranteedV2 sBl [7, 7] = .ok s' ∧ s'.whitelist = [7] ∧
    s'.nrWinning = 3 ∧ s'.totalGuaranteed = 2 ∧ gSum true s'.uts s'.whitelist = 0 :=
  ce_restore_twice
example : ∃ s', restoreGuaranteedV1 sV1 [7] = .ok s' ∧ s'.whitelist = [7] ∧
    s'.uts 7 = some {} ∧ s'.totalGuaranteed = 0 := ce_restore_v1_empty

end LP

#print axioms LP.C12_addTicketsV2
#print axioms LP.C12_clearGuaranteedV2
#print axioms LP.C12_restoreGuaranteedV2
#print axioms LP.C12_addTicketsV1
#print axioms LP.C12_clearGuaranteedV1
#print axioms LP.C12_restoreGuaranteedV1
#print axioms LP.C12_addTicketsV2_no_panic
#print axioms LP.C12_addTicketsV1_no_panic
#print axioms LP.C12_clearGuaranteedV2_total
#print axioms LP.C12_clearGuaranteedV1_total
#print axioms LP.C12_restoreGuaranteedV2_no_panic
#print axioms LP.C12_restoreGuaranteedV1_no_panic
#print axioms LP.C12_initial
#print axioms LP.C12_history
#print axioms LP.C12_history_no_panic
