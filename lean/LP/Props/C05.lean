import LP.Proofs.FY
import LP.Proofs.FYCount
import Mathlib.Logic.Function.Iterate
/-
  LP.Props.C05 — fairness structure of the base lottery.
  * `residues_bijective` : valid residue vectors ↔ ordered selections of k distinct tickets
  * `equally_likely`     : exchanging two tickets is an involution on valid residue vectors
                           that maps "t wins" to "t' wins"
  * `draw_words`         : the raw draws are the successive big-endian 4-byte words of a
                           32-byte seed that is re-hashed every 8 draws
-/
namespace LP.FY

/-- `ValidRes n k cs`: `cs.length = k` and the entry of step `q+1` is `< n - q`
    (equivalently `< n - i + 1` for the 1-based step `i = q+1 ≤ n`; for `k > n` there is no valid
    vector, as there is no selection of `k > n` distinct tickets).
    The selection map `cs ↦ tbSel n cs = (textbook run with raws = cs).take k` is a bijection
    from valid residue vectors onto the duplicate-free `k`-lists over `1..n`, and running with
    arbitrary raws `r_i` is the same as running with their residues `r_i % (n - i + 1)`. -/
theorem residues_bijective (n k : Nat) :
    (∀ cs, ValidRes n k cs → IsSel n k (tbSel n cs)) ∧
    (∀ cs cs', ValidRes n k cs → ValidRes n k cs' → tbSel n cs = tbSel n cs' → cs = cs') ∧
    (∀ sel, IsSel n k sel → ∃ cs, ValidRes n k cs ∧ tbSel n cs = sel) ∧
    (∀ raws : List Nat, tbRun n (residues n raws) = tbRun n raws ∧
      tbSel n (residues n raws) = tbSel n raws ∧
      (residues n raws).length = raws.length ∧
      (∀ q, q < raws.length → (residues n raws).getD q 0 = raws.getD q 0 % (n - (q + 1) + 1)) ∧
      (raws.length = k → k ≤ n → ValidRes n k (residues n raws))) := by
  refine ⟨fun cs h => tbSel_isSel h, fun cs cs' h h' e => tbSel_inj h h' e,
    fun sel h => tbSel_surj h, ?_⟩
  intro raws
  refine ⟨tbRun_residues n raws, tbSel_residues n raws, by simp [residues], ?_, ?_⟩
  · intro q hq
    have := getD_resFrom n raws 1 q hq
    rw [Nat.add_comm 1 q] at this
    exact this
  · intro hk hkn
    subst hk
    exact validRes_residues n raws hkn

/-- Fairness (symmetry) of the lottery over residue vectors.  For tickets `t, t'` of `1..n` the
    map `resSwap n k t t'` (exchange the values `t` and `t'` in the selection, transported
    through the bijection `residues_bijective`) is an involution of the set of valid residue
    vectors; it maps the vectors whose selection contains `t` onto those whose selection contains
    `t'` (and vice versa).  Hence, for residues uniformly distributed over the valid vectors,
    all tickets are equally likely to win. -/
theorem equally_likely (n k t t' : Nat) (ht : 1 ≤ t ∧ t ≤ n) (ht' : 1 ≤ t' ∧ t' ≤ n) :
    (∀ sel, IsSel n k sel → IsSel n k (swapVals t t' sel) ∧
        swapVals t t' (swapVals t t' sel) = sel ∧ (t ∈ sel ↔ t' ∈ swapVals t t' sel)) ∧
    (∀ cs, ValidRes n k cs →
        ValidRes n k (resSwap n k t t' cs) ∧
        tbSel n (resSwap n k t t' cs) = swapVals t t' (tbSel n cs) ∧
        resSwap n k t t' (resSwap n k t t' cs) = cs ∧
        (t ∈ tbSel n cs ↔ t' ∈ tbSel n (resSwap n k t t' cs)) ∧
        (t' ∈ tbSel n cs ↔ t ∈ tbSel n (resSwap n k t t' cs))) := by
  constructor
  · intro sel h
    exact ⟨swapVals_isSel ht ht' h, swapVals_invol t t' sel, (swapVals_mem_iff t t' sel).1⟩
  · intro cs h
    exact resSwap_spec ht ht' h

/-- Quantitative form: the number of valid residue vectors whose selection contains `t` is the
    same for all tickets `t` of `1..n` (`allRes n k` enumerates the valid residue vectors without
    repetition; `winCount n k t` counts those whose selection contains `t`). -/
theorem equally_likely_count (n k t t' : Nat) (ht : 1 ≤ t ∧ t ≤ n) (ht' : 1 ≤ t' ∧ t' ≤ n) :
    (∀ cs, cs ∈ allRes n k ↔ ValidRes n k cs) ∧ (allRes n k).Nodup ∧
    winCount n k t = ((allRes n k).filter (fun cs => decide (t ∈ tbSel n cs))).length ∧
    winCount n k t = winCount n k t' :=
  ⟨mem_allRes n k, nodup_allRes n k, rfl,
    Nat.le_antisymm (winCount_le ht ht') (winCount_le ht' ht)⟩

/-- Winning probability: among the `N = (allRes n k).length` valid residue vectors exactly
    `k·N/n` select ticket `t`, i.e. `n · winCount n k t = k · N`: under uniformly distributed
    residues every ticket of `1..n` wins with probability `k/n`. -/
theorem win_probability (n k t : Nat) (ht : 1 ≤ t ∧ t ≤ n) :
    n * winCount n k t = k * (allRes n k).length :=
  winCount_mul ht

/-- The `j`-th raw draw (0-based) of a generator started at `{seed, index := 0}` is the
    big-endian 4-byte word number `j % 8` of the seed after `j / 8` re-hashings; no assumption on
    `hash` (`HASH_LEN = 32`, `USIZE_BYTES = 4`). -/
theorem draw_words (hash : List Nat → List Nat) (seed : List Nat) :
    (∀ j, drawAt hash { seed := seed, index := 0 } j = beWord (hash^[j / 8] seed) (4 * (j % 8))) ∧
    (∀ k, draws hash { seed := seed, index := 0 } k =
      (List.range k).map (fun j => beWord (hash^[j / 8] seed) (4 * (j % 8)))) := by
  have hit : ∀ (m : Nat) (a : List Nat), iter hash m a = hash^[m] a := by
    intro m; induction m with
    | zero => intro a; rfl
    | succ m ih => intro a; exact ih (hash a)
  have h1 : ∀ j, drawAt hash { seed := seed, index := 0 } j = beWord (hash^[j / 8] seed) (4 * (j % 8)) := by
    intro j; rw [drawAt_closed, hit]
  refine ⟨h1, ?_⟩
  intro k
  rw [draws_eq_map]
  exact List.map_congr_left (fun j _ => h1 j)

/-- `drawAt`/`draws` really are the successive outputs of `Rng.next` -/
theorem draws_unfold (hash : List Nat → List Nat) (r : Rng) (k : Nat) :
    draws hash r 0 = [] ∧
    draws hash r (k + 1) = (r.next hash).1 :: draws hash (r.next hash).2 k ∧
    drawAt hash r 0 = (r.next hash).1 ∧
    drawAt hash r (k + 1) = drawAt hash (r.next hash).2 k :=
  ⟨rfl, rfl, rfl, drawAt_succ' hash r k⟩

/-! ### satisfiability of the hypotheses -/

example : ValidRes 5 3 [2, 3, 1] ∧ tbSel 5 [2, 3, 1] = [3, 5, 4] ∧ IsSel 5 3 [3, 5, 4] ∧
    residues 5 [7, 11, 1] = [2, 3, 1] ∧ swapVals 3 1 [3, 5, 4] = [1, 5, 4] := by
  refine ⟨⟨rfl, ?_⟩, by decide, ⟨rfl, by decide, by decide⟩, by decide, by decide⟩
  intro q hq
  match q, hq with
  | 0, _ => decide
  | 1, _ => decide
  | 2, _ => decide

example : 4 * winCount 4 2 1 = 2 * (allRes 4 2).length ∧ winCount 4 2 1 = 6 ∧ winCount 4 2 3 = 6 ∧ (allRes 4 2).length = 12 := by decide

example : draws id { seed := List.range 32, index := 0 } 9 =
    [0x00010203, 0x04050607, 0x08090a0b, 0x0c0d0e0f, 0x10111213, 0x14151617, 0x18191a1b,
     0x1c1d1e1f, 0x00010203] := by decide

end LP.FY

#print axioms LP.FY.residues_bijective
#print axioms LP.FY.equally_likely
#print axioms LP.FY.equally_likely_count
#print axioms LP.FY.win_probability
#print axioms LP.FY.draw_words
#print axioms LP.FY.draws_unfold
