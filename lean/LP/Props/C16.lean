import LP.Proofs.Locked
/-
  LP.Props.C16 — the locked / direct split of launchpad tokens
  (launchpad-locked-tokens, locked_launchpad_token_send.rs:43-79).

  `lockSplit amount pct = amount * pct / 10000` goes to the lock contract (one transfer to
  `lockAddr` + one recorded lock call `(unlockEpoch, dest, locked)`), the rest directly to
  the user.  `init` guarantees `0 < lockPct ≤ 10000` for the variants with a lock.
-/
namespace LP

/-- arithmetic of the split -/
theorem lockSplit_props (amount pct : Nat) (_h0 : 0 < pct) (h1 : pct ≤ 10000) :
    lockSplit amount pct ≤ amount ∧
    lockSplit amount pct + (amount - lockSplit amount pct) = amount ∧
    lockSplit amount 10000 = amount := by
  have := lockSplit_le (amount := amount) h1
  exact ⟨this, by omega, lockSplit_full amount⟩

example : lockSplit 1000 2500 = 250 ∧ lockSplit 3 3333 = 0 ∧ lockSplit 7 10000 = 7 := by decide

/-- Success, general form: when the contract holds at least `amount` launchpad tokens the
    call succeeds and its complete effect is `sendLockedResult`: the state changes only in
    the launchpad-token balance, which decreases by exactly `amount`; the outputs gain the
    lock transfer + lock call (if the locked part is positive) and the direct transfer (if the
    remainder is positive), in this order; locked + direct = amount. -/
theorem sendLocked_success (t : Tx) (e : Env) (dest amount : Nat)
    (hp : t.s.lockPct ≤ 10000)
    (hb : amount ≤ t.s.bal (.esdt t.s.lpTok) 0) :
    ∃ t', t.sendLocked e dest amount = .ok t' ∧
      t' = sendLockedResult t e dest amount ∧
      t'.s = { t.s with bal := t.s.bal.sub (.esdt t.s.lpTok) 0 amount } ∧
      t'.s.bal (.esdt t.s.lpTok) 0 = t.s.bal (.esdt t.s.lpTok) 0 - amount ∧
      (∀ tok n, ¬ (tok = .esdt t.s.lpTok ∧ n = 0) → t'.s.bal tok n = t.s.bal tok n) ∧
      lockedPart t e amount + (amount - lockedPart t e amount) = amount ∧
      t'.c = t.c ∧ t'.o.ret = t.o.ret ∧ t'.o.events = t.o.events ∧ t'.o.sfts = t.o.sfts ∧
      t'.o.draws = t.o.draws := by
  refine ⟨_, sendLocked_ok t e dest amount (fun _ => hp) hb, rfl, rfl, ?_, ?_, ?_, rfl, rfl, rfl,
    rfl, rfl⟩
  · simp [sendLockedResult, Bal.sub]
  · intro tok n h
    simp [sendLockedResult, Bal.sub, h]
  · have := lockedPart_le (t := t) (e := e) (amount := amount) (fun _ => hp)
    omega

/-- Conservation on the outputs: the new lock calls (each carried by a transfer of the same
    amount to the lock contract) and the new direct transfers to `dest` add up to `amount`. -/
theorem sendLocked_conservation (t : Tx) (e : Env) (dest amount : Nat)
    (hp : t.s.lockPct ≤ 10000)
    (hb : amount ≤ t.s.bal (.esdt t.s.lpTok) 0) :
    ∃ (t' : Tx) (newLocks : List (Nat × Nat × Nat)) (newDirect : List Nat),
      t.sendLocked e dest amount = .ok t' ∧
      t'.o.locks = t.o.locks ++ newLocks ∧
      t'.o.xfers = t.o.xfers
        ++ newLocks.map (fun l => (t.s.lockAddr, (⟨.esdt t.s.lpTok, 0, l.2.2⟩ : Pay)))
        ++ newDirect.map (fun d => (dest, (⟨.esdt t.s.lpTok, 0, d⟩ : Pay))) ∧
      (∀ l ∈ newLocks, l.1 = t.s.unlockEpoch ∧ l.2.1 = dest ∧ 0 < l.2.2) ∧
      (∀ d ∈ newDirect, 0 < d) ∧ newLocks.length ≤ 1 ∧ newDirect.length ≤ 1 ∧
      (newLocks.map (·.2.2)).sum + newDirect.sum = amount := by
  have hL := lockedPart_le (t := t) (e := e) (amount := amount) (fun _ => hp)
  have hres := sendLocked_ok t e dest amount (fun _ => hp) hb
  simp only [sendLockedResult] at hres
  generalize lockedPart t e amount = L at hL hres
  refine ⟨_, (if L > 0 then [(t.s.unlockEpoch, dest, L)] else []),
    (if amount - L > 0 then [amount - L] else []), hres, ?_⟩
  by_cases h1 : L > 0 <;> by_cases h2 : amount - L > 0 <;> simp [h1, h2] <;> omega

/-- Locked case: before the unlock epoch and with a positive locked part, the new outputs
    are exactly one lock call `(unlockEpoch, dest, lockSplit …)` (carried by one transfer of
    that amount to the lock contract) plus — if the remainder is positive — one direct
    transfer of `amount - lockSplit …` to `dest`. -/
theorem sendLocked_locked_case (t : Tx) (e : Env) (dest amount : Nat)
    (hp : t.s.lockPct ≤ 10000)
    (hb : amount ≤ t.s.bal (.esdt t.s.lpTok) 0)
    (he : e.epoch < t.s.unlockEpoch) (hl : 0 < lockSplit amount t.s.lockPct) :
    ∃ t', t.sendLocked e dest amount = .ok t' ∧
      t'.o.locks = t.o.locks ++ [(t.s.unlockEpoch, dest, lockSplit amount t.s.lockPct)] ∧
      t'.o.xfers = t.o.xfers
        ++ [(t.s.lockAddr, ⟨.esdt t.s.lpTok, 0, lockSplit amount t.s.lockPct⟩)]
        ++ (if amount - lockSplit amount t.s.lockPct > 0
            then [(dest, ⟨.esdt t.s.lpTok, 0, amount - lockSplit amount t.s.lockPct⟩)] else []) ∧
      t'.s = { t.s with bal := t.s.bal.sub (.esdt t.s.lpTok) 0 amount } := by
  refine ⟨_, sendLocked_ok t e dest amount (fun _ => hp) hb, ?_, ?_, rfl⟩
  · simp [sendLockedResult, lockedPart, he, hl]
  · simp [sendLockedResult, lockedPart, he, hl]

/-- Direct case: at or after the unlock epoch, or when the locked part rounds to zero, the
    only new output is a single direct transfer of `amount` (none for `amount = 0`), and no
    lock call is made. -/
theorem sendLocked_direct_case (t : Tx) (e : Env) (dest amount : Nat)
    (hp : t.s.lockPct ≤ 10000)
    (hb : amount ≤ t.s.bal (.esdt t.s.lpTok) 0)
    (hd : ¬ (e.epoch < t.s.unlockEpoch ∧ 0 < lockSplit amount t.s.lockPct)) :
    ∃ t', t.sendLocked e dest amount = .ok t' ∧
      t'.o.locks = t.o.locks ∧
      t'.o.xfers = t.o.xfers
        ++ (if amount > 0 then [(dest, ⟨.esdt t.s.lpTok, 0, amount⟩)] else []) ∧
      t'.s = { t.s with bal := t.s.bal.sub (.esdt t.s.lpTok) 0 amount } := by
  have hL : lockedPart t e amount = 0 := by
    unfold lockedPart
    split
    · have : ¬ 0 < lockSplit amount t.s.lockPct := fun h => hd ⟨‹_›, h⟩
      omega
    · rfl
  refine ⟨_, sendLocked_ok t e dest amount (fun _ => hp) hb, ?_, ?_, rfl⟩
  · simp [sendLockedResult, hL]
  · simp [sendLockedResult, hL]

/-- Failure: if the contract holds fewer than `amount` launchpad tokens the call fails with
    the VM error; a `Res` error carries no state or output, so there is no partial effect
    (`step` then keeps the old state). -/
theorem sendLocked_failure (t : Tx) (e : Env) (dest amount : Nat)
    (hp : t.s.lockPct ≤ 10000)
    (hb : t.s.bal (.esdt t.s.lpTok) 0 < amount) :
    t.sendLocked e dest amount = .error (.vm "insufficient funds") :=
  sendLocked_err t e dest amount (fun _ => hp) hb

/-- success ↔ sufficient balance -/
theorem sendLocked_ok_iff (t : Tx) (e : Env) (dest amount : Nat) (hp : t.s.lockPct ≤ 10000) :
    (∃ t', t.sendLocked e dest amount = .ok t') ↔ amount ≤ t.s.bal (.esdt t.s.lpTok) 0 := by
  constructor
  · rintro ⟨t', h⟩
    by_cases hb : amount ≤ t.s.bal (.esdt t.s.lpTok) 0
    · exact hb
    · rw [sendLocked_err t e dest amount (fun _ => hp) (by omega)] at h
      cases h
  · intro hb
    exact ⟨_, sendLocked_ok t e dest amount (fun _ => hp) hb⟩

/-- a concrete, non-trivial instance: 25 % of 1000 is locked, 750 go directly -/
def exLockedTx : Tx :=
  ⟨{ (default : State) with
      lpTok := 1, lockPct := 2500, unlockEpoch := 9, lockAddr := 77, bal := fun _ _ => 1000 }, {}, {}⟩
def exLockedEnv : Env := { caller := 5, round := 0, epoch := 3 }

example : exLockedTx.s.lockPct ≤ 10000 ∧
    1000 ≤ exLockedTx.s.bal (.esdt exLockedTx.s.lpTok) 0 ∧
    exLockedEnv.epoch < exLockedTx.s.unlockEpoch ∧ 0 < lockSplit 1000 exLockedTx.s.lockPct := by
  decide

example :
    (exLockedTx.sendLocked exLockedEnv 5 1000).toOption.map (fun t' => (t'.o.locks, t'.o.xfers,
      t'.s.bal (.esdt 1) 0)) =
    some ([(9, 5, 250)], [(77, ⟨.esdt 1, 0, 250⟩), (5, ⟨.esdt 1, 0, 750⟩)], 0) := by
  decide

end LP

#print axioms LP.lockSplit_props
#print axioms LP.sendLocked_success
#print axioms LP.sendLocked_conservation
#print axioms LP.sendLocked_locked_case
#print axioms LP.sendLocked_direct_case
#print axioms LP.sendLocked_failure
#print axioms LP.sendLocked_ok_iff
