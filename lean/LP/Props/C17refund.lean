import LP.Proofs.TermsAtConfirm
import LP.Props.C01receipts
/-
  C17 "every refund and payout is computed with exactly the terms that were visible when the
  participant confirmed" (with C07, C20) — the HISTORY-LEVEL statement, ALL EIGHT contracts.

  Vocabulary
    `lk_runLog hash s0 hist`   the accepted transactions of the history `hist` from `s0`, each as
                               `(pre-state, env, call, outputs)` (LP/Proofs/LockedGuarClaim.lean);
                               "`y` is LATER in the log than `x`" is written
                               `lk_runLog hash s0 hist = l1 ++ x :: (l2 ++ y :: l3)`
    `RoundsFrom r0 hist`       the rounds of the history are non-decreasing (LP/Props/C17.lean)
    `cr_paid tok a xfers`      amount of the fungible token `tok` the transfers send to `a`
    `cr_owedPay s e c a`       what the call `c` in pre-state `s` owes `a` (LP/Proofs/Receipts.lean)
    `tf_confirmPaid tok a log` Σ of the call values (token `tok`) of `a`'s accepted confirmations
    `tf_confirmTickets a log`  Σ of the ticket numbers of `a`'s accepted confirmations
    `tf_isSched1 z`            the log entry `z` is an accepted v1 `setSchedule1`

  1  `terms_at_confirmation`      ANY start state (no `init`, no `be_HistOK` needed), non-decreasing
       rounds: an accepted `confirm n` with pre-state `s_i` finds the confirmation stage, the deposit
       made and is paid EXACTLY `s_i.price × n` of `s_i.payTok`; every LATER accepted transaction has a
       pre-state `s_j` with the same price, payment token, tokens per ticket, NFT fee, all other
       terms, the same v2 schedule and the same confirmation start; the v1 schedule: see there.
  2  `refund_at_confirmation_price`   from `init` of any variant: every later transaction pays `a`
       exactly `cr_owedPay`, which is `(price at his confirmation) × (tickets refunded)` in the token
       he paid in — settling claim, blacklisting, v2 `refundUsers`; the refund EVENT carries the same
       numbers; his launchpad-token entitlement at settlement is
       `(perTicket at his confirmation) × winning tickets`.
  3  `total_paid_equals_total_refundable` (+ `_final`, `_unsettled`)   from `init`: for a participant
       not blacklisted so far, in every pre-filter pre-state `s_k` of the history
       Σ payments of his accepted confirmations = `s_k.price × s_k.confirmed a`, every one of his
       confirmations was paid at that price in that token, and a blacklisting / `refundUsers` at that
       point returns exactly what he paid.
  `be_HistOK` is NOT needed anywhere (no side condition on call values or allocation entries).
-/
namespace LP.Props.C17refund
open LP LP.Props.C17 LP.Props.C09 LP.Props.C07

abbrev Log := List (State × Env × Call × Out)

/-! ## 1. the terms at confirmation are the terms ever after -/

/-- **C17, history level.**  ANY start state `s0` of ANY variant (in particular every `init`), any
    history with non-decreasing rounds, rejected transactions allowed anywhere.  If the log of
    accepted transactions contains an accepted `confirm n` with pre-state `s_i` and LATER any
    accepted transaction with pre-state `s_j`, then

    * the confirmation ran in the confirmation stage, after the deposit, and its call value was
      exactly `s_i.price × n` of the token `s_i.payTok`;
    * `s_j` has the same price, payment token, tokens per ticket and NFT fee — indeed the same
      `terms` record (variant, owner, launchpad token, lock terms, NFT supply …), the same v2 unlock
      schedule `sched2` (stored or not) and the same confirmation start round; the deposit is still
      there and the stage seen by transaction `j` is not AddTickets;
    * the v1 schedule `sched1` (only guarV1 has the setter; the model lets the owner store it ONCE
      after the confirmation start if none is stored — `C17.sched1_frozen`): a schedule stored at
      `s_i` is the one at `s_j`; for every variant other than guarV1 `sched1` is unchanged; it is
      unchanged if no `setSchedule1` was accepted in between; at most ONE `setSchedule1` is
      accepted in the whole rest of the log, and if one was accepted in between then none was
      stored at `s_i`, the variant is guarV1 and `s_j.sched1` is exactly what it set. -/
theorem terms_at_confirmation (hash : List Nat → List Nat) (s0 : State) (r0 : Nat) (hist : Hist)
    (hr : RoundsFrom r0 hist) (l1 l2 l3 : Log)
    (si : State) (ei : Env) (n : Nat) (oi : Out) (sj : State) (ej : Env) (cj : Call) (oj : Out)
    (hlog : lk_runLog hash s0 hist
      = l1 ++ (si, ei, .confirm n, oi) :: (l2 ++ (sj, ej, cj, oj) :: l3)) :
    (si.stage ei = .confirm ∧ si.deposited = true ∧
      egldOrSingleFungible ei = .ok (si.payTok, si.price * n)) ∧
    sj.price = si.price ∧ sj.payTok = si.payTok ∧ sj.perTicket = si.perTicket ∧
    sj.nftCost = si.nftCost ∧ sj.terms = si.terms ∧ sj.sched2 = si.sched2 ∧
    sj.cfg.conf = si.cfg.conf ∧ sj.deposited = true ∧ sj.stage ej ≠ .addTickets ∧
    ei.round ≤ ej.round ∧
    (si.sched1 ≠ none → sj.sched1 = si.sched1) ∧
    (si.variant ≠ .guarV1 → sj.sched1 = si.sched1) ∧
    ((∀ z ∈ l2, tf_isSched1 z = false) → sj.sched1 = si.sched1) ∧
    ((l2 ++ (sj, ej, cj, oj) :: l3).filter tf_isSched1).length ≤ 1 ∧
    (∀ z ∈ l2, tf_isSched1 z = true → si.sched1 = none ∧ si.variant = .guarV1 ∧
      ∃ a b c d f, z.2.2.1 = .setSchedule1 a b c d f ∧ sj.sched1 = some ⟨a, b, c, d, f⟩) := by
  obtain ⟨seg, tail, si', sj', hsi, hsj, hrs, hlogs, hruns, hle, hrt, hlogt⟩ :=
    tf_between hash hist s0 r0 hr l1 si ei (.confirm n) oi l2 sj ej cj oj l3 hlog
  obtain ⟨hconf, _, hst, hdep, _, hpay, _⟩ := tf_confirm_inv hsi
  obtain ⟨ht, hs2, hc⟩ := terms_frozen_along_history hash _ si ei.round hconf hrs
  rw [hruns] at ht hs2 hc
  obtain ⟨a1, a2, _, a4⟩ := tf_sched1_along hash _ si ei.round hconf hrs
  rw [hruns, hlogs] at a1 a4
  rw [hlogs] at a2
  obtain ⟨_, _, b3, _⟩ := tf_sched1_along hash _ si ei.round hconf hrt
  rw [hlogt, List.filter_cons_of_neg (by simp [tf_isSched1])] at b3
  have hdj : sj.deposited = true := by rw [← hruns]; exact tf_run_deposited hash _ si hdep
  have hx : tf_isSched1 (si, ei, Call.confirm n, oi) = false := rfl
  have hall : (∀ z ∈ l2, tf_isSched1 z = false) → sj.sched1 = si.sched1 := fun hz =>
    a1 (fun z hm => by
      rcases List.mem_cons.mp hm with rfl | hm
      · exact hx
      · exact hz z hm)
  have hsome : ∀ z ∈ l2, tf_isSched1 z = true → si.sched1 = none ∧ si.variant = .guarV1 ∧
      ∃ a b c d f, z.2.2.1 = .setSchedule1 a b c d f ∧ sj.sched1 = some ⟨a, b, c, d, f⟩ := by
    intro z hz hzb
    have hzm : z ∈ (si, ei, Call.confirm n, oi) :: l2 := List.mem_cons_of_mem _ hz
    obtain ⟨_, k2, k3, k4⟩ := a4 z hzm hzb
    refine ⟨k3, ?_, k4⟩
    rw [← hlogs] at hzm
    obtain ⟨p1, _, _, _, q2, _⟩ := lk_runLog_mem hash _ si z hzm
    rw [q2, run_variant] at k2
    exact k2
  refine ⟨⟨hst, hdep, hpay⟩, terms_price ht, terms_payTok ht, terms_perTicket ht, terms_nftCost ht,
    ht, hs2, hc, hdj, (stage_ne_addTickets_iff sj ej).2 (by rw [hc]; omega), hle, ?_, ?_, hall, b3,
    hsome⟩
  · intro hne
    exact hall (fun z hz => a2 hne z (List.mem_cons_of_mem _ hz))
  · intro hv
    apply hall
    intro z hz
    cases hb : tf_isSched1 z
    · rfl
    · exact absurd (hsome z hz hb).2.1 hv

/-! ## 2. refunds and entitlements are computed with the terms of the confirmation -/

/-- facts about a freshly deployed contract used below -/
theorem init_facts {v : Variant} {ia : InitArgs} {e0 : Env} {s0 : State}
    (hinit : init v ia e0 = .ok s0) :
    cr_Static s0 ∧ s0.variant = v ∧ s0.confirmed = (fun _ => 0) ∧ PhaseOK s0 :=
  ⟨cr_init_static hinit, rc_init_variant hinit, congrArg CB.confirmed (init_cb hinit),
    init_phaseOK hinit⟩

/-- **C17 + C07 + C20, history level.**  History from `init` of ANY of the eight variants,
    non-decreasing rounds.  `a` confirmed `n` tickets in the accepted transaction `i` (pre-state
    `s_i`), paying exactly `s_i.price × n` of `s_i.payTok`.  For EVERY later accepted transaction `j`
    (pre-state `s_j`, outputs `o_j`; for the owner's own withdrawal `claimPayment` the recipient
    `a` must not be the owner, who there also receives the proceeds):

    (i)  what `o_j` sends to `a` in the token he paid in is exactly `cr_owedPay s_j e_j c_j a`, and
         this is computed with THE PRICE OF HIS CONFIRMATION: his settling claim
         `s_i.price × (confirmed − winning)` (+ the NFT fee of `s_i`, if it is charged in the same
         token and he paid it without being drawn); a blacklisting that lists him
         `s_i.price × confirmed` (+ the NFT fee he had paid); v2 `refundUsers` listing him
         `s_i.price × confirmed`; any other call 0;
    (ii) the `refundTicketPayment` EVENT of that transaction carries the same numbers: ticket count,
         token code of `s_i.payTok`, amount `s_i.price × tickets` (and for a blacklisting /
         `refundUsers` the transfer itself is in the list);
    (iii) his launchpad-token entitlement at settlement: six non-vested variants — lock calls with
         destination `a` + direct transfers to `a` = `s_i.perTicket × winning tickets`; guarV1 /
         guarV2 — the entitlement recorded as `userTotal a` is `winning × s_i.perTicket`. -/
theorem refund_at_confirmation_price (hash : List Nat → List Nat) (v : Variant) (ia : InitArgs)
    (e0 : Env) (s0 : State) (hinit : init v ia e0 = .ok s0) (r0 : Nat) (hist : Hist)
    (hr : RoundsFrom r0 hist) (l1 l2 l3 : Log)
    (si : State) (ei : Env) (n : Nat) (oi : Out) (sj : State) (ej : Env) (cj : Call) (oj : Out)
    (hlog : lk_runLog hash s0 hist
      = l1 ++ (si, ei, .confirm n, oi) :: (l2 ++ (sj, ej, cj, oj) :: l3))
    (a : Nat) (hca : ei.caller = a) (hown : cj = .claimPayment → a ≠ s0.owner) :
    egldOrSingleFungible ei = .ok (si.payTok, si.price * n) ∧
    -- (i)
    cr_paid si.payTok a oj.xfers = cr_owedPay sj ej cj a ∧
    (cr_owedPay sj ej .claim a =
      if ej.caller = a ∧ sj.claimed a = false then
        si.price * (sj.confirmed a - winCountOf sj a) +
          (if v.hasNft = true ∧ nftCategory sj a = 2 then cr_fee si si.payTok else 0)
      else 0) ∧
    (∀ l, cr_owedPay sj ej (.blacklist l) a =
      if a ∈ l then si.price * sj.confirmed a +
        (if v.hasNft = true ∧ a ∈ sj.payers then cr_fee si si.payTok else 0) else 0) ∧
    (∀ l, cr_owedPay sj ej (.refundUsers l) a = if a ∈ l then si.price * sj.confirmed a else 0) ∧
    (cj ≠ .claim → (∀ l, cj ≠ .blacklist l) → (∀ l, cj ≠ .refundUsers l) →
      cr_owedPay sj ej cj a = 0) ∧
    -- (ii)
    (cj = .claim → ej.caller = a → sj.claimed a = false →
      0 < sj.confirmed a - winCountOf sj a →
      (⟨"refundTicketPayment", [a, ej.round, ej.epoch],
        [a, ej.round, ej.epoch, sj.confirmed a - winCountOf sj a, si.payTok.code, 0,
          si.price * (sj.confirmed a - winCountOf sj a)]⟩ : Ev) ∈ oj.events) ∧
    (∀ l, cj = .blacklist l ∨ cj = .refundUsers l → a ∈ l → 0 < sj.confirmed a →
      (⟨"refundTicketPayment", [ej.caller, ej.round, ej.epoch],
        [ej.caller, ej.round, ej.epoch, sj.confirmed a, si.payTok.code, 0,
          si.price * sj.confirmed a]⟩ : Ev) ∈ oj.events ∧
      (a, (⟨si.payTok, 0, si.price * sj.confirmed a⟩ : Pay)) ∈ oj.xfers) ∧
    -- (iii)
    (cj = .claim → ej.caller = a → sj.claimed a = false →
      (v.vested = false → a ≠ s0.owner → (v.hasLock = true → a ≠ s0.lockAddr) →
        received s0.lpTok a oj = si.perTicket * winCountOf sj a) ∧
      (v.vested = true → (cr_post hash (sj, ej, cj, oj)).userTotal a =
        if winCountOf sj a > 0 then winCountOf sj a * si.perTicket else sj.userTotal a)) := by
  obtain ⟨hS0, hv0, _, _⟩ := init_facts hinit
  obtain ⟨⟨_, _, hpay⟩, hprice, htok, hper, hfee, _⟩ :=
    terms_at_confirmation hash s0 r0 hist hr l1 l2 l3 si ei n oi sj ej cj oj hlog
  have hlog' : lk_runLog hash s0 hist
      = (l1 ++ (si, ei, Call.confirm n, oi) :: l2) ++ (sj, ej, cj, oj) :: l3 := by
    rw [hlog]; simp
  obtain ⟨hSj, hvar, hown', hlp, hlock, _, _, _, sj', _, _, _, hsj⟩ :=
    tf_entry_static hash hist s0 _ _ _ hlog'
  have hSj := hSj hS0
  simp only at hvar hown' hlp hlock hsj
  have hvj : sj.variant = v := hvar.trans hv0
  have hcrfee : cr_fee sj sj.payTok = cr_fee si si.payTok := by
    unfold cr_fee; rw [hfee, htok]
  have hpost : cr_post hash (sj, ej, cj, oj) = sj' := by
    unfold cr_post; simp only [hsj]
  refine ⟨hpay, ?_, ?_, ?_, ?_, ?_, ?_, ?_, ?_⟩
  · rw [← htok]
    exact tf_step_pay hSj.tokNe (fun hc => by rw [hown']; exact hown hc) hsj
  · simp only [cr_owedPay, hprice, hcrfee, hvj]
  · intro l; simp only [cr_owedPay, hprice, hcrfee, hvj]
  · intro l; simp only [cr_owedPay, hprice]
  · intro h1 h2 h3
    cases cj <;> first | rfl | exact absurd rfl h1 | exact absurd rfl (h2 _) | exact absurd rfl (h3 _)
  · intro hc hcaller hcl hpos
    subst hc
    subst hcaller
    have := tf_claim_event hsj hcl hpos
    rw [hprice, htok] at this
    exact this
  · intro l hc hal hpos
    rcases hc with rfl | rfl
    · have := tf_bl_event hsj hal hpos
      rw [hprice, htok] at this
      exact this
    · have := tf_ru_event hsj hal hpos
      rw [hprice, htok] at this
      exact this
  · intro hc hcaller hcl
    subst hc
    subst hcaller
    constructor
    · intro hvest hao hal
      have h1 := cr_step_lp hSj (by rw [hown']; exact hao)
        (by rw [hvj, hlock]; exact hal) hsj
      rw [hlp] at h1
      rw [h1]
      simp [cr_owedLp, hvj, hvest, hper]
    · intro hvest
      rw [hpost, tf_vested_userTotal hsj (by rw [hvj]; exact hvest) hcl, hper]

/-! ## 3. what was paid is what is refundable -/

/-- **core of 3, ANY start state in which `a` has nothing confirmed** (every `init`), non-decreasing
    rounds: if no accepted `blacklist` / `refundUsers` of the history lists `a` and he has not
    settled in the final state `s_k = run hash s0 hist`, then
    Σ payments of his accepted confirmations (token `s_k.payTok`) = `s_k.price × s_k.confirmed a`
    and `s_k.confirmed a` = Σ tickets of his accepted confirmations. -/
theorem total_paid_unsettled (hash : List Nat → List Nat) (s0 : State) (r0 : Nat) (hist : Hist)
    (hr : RoundsFrom r0 hist) (a : Nat) (h0 : s0.confirmed a = 0)
    (hnb : ∀ y ∈ lk_runLog hash s0 hist, cr_isBlacklistOf a y = false)
    (hcl : (run hash s0 hist).claimed a = false) :
    tf_confirmPaid (run hash s0 hist).payTok a (lk_runLog hash s0 hist)
      = (run hash s0 hist).price * (run hash s0 hist).confirmed a ∧
    (run hash s0 hist).confirmed a = tf_confirmTickets a (lk_runLog hash s0 hist) := by
  have h1 := tf_paid_eq hash a hist s0 r0 hr
  have h2 := tf_confirmed_eq hash a hist s0 hnb hcl
  rw [h0, Nat.zero_add] at h2
  exact ⟨by rw [h1, h2], h2⟩

/-- a state reached from `init` in which the tickets are not yet filtered: nobody has settled -/
theorem prefilter_unsettled {s : State} (hp : PhaseOK s) (hpre : s.flags.filtered = false) (a : Nat) :
    s.claimed a = false := by
  cases hq : s.claimed a
  · rfl
  · have := hp.sel_fil (hp.claimed a hq).1
    rw [hpre] at this; cases this

/-- **what `a` paid = what is refundable**, history from `init` of ANY of the eight variants,
    non-decreasing rounds.  Let `k` be any accepted transaction of the history whose pre-state `s_k`
    is pre-filter (`filtered = false`), `l1` the log before it, and suppose no accepted
    `blacklist` / `refundUsers` in `l1` lists `a`.  Then

    * Σ of the call values of `a`'s accepted confirmations = `s_k.price × s_k.confirmed a`, and
      `s_k.confirmed a` is the number of tickets he confirmed;
    * EVERY one of his confirmations ran at the price and in the payment token of `s_k` and was
      paid exactly `s_k.price × (its tickets)` in `s_k.payTok` (the price is the same at all of his
      confirmations);
    * consequently, if transaction `k` is a blacklisting (resp. v2 `refundUsers`) that lists `a`,
      it sends him back EXACTLY the total he paid (+ the NFT fee he had paid, NFT variants, if it
      is charged in the same token). -/
theorem total_paid_equals_total_refundable (hash : List Nat → List Nat) (v : Variant)
    (ia : InitArgs) (e0 : Env) (s0 : State) (hinit : init v ia e0 = .ok s0) (r0 : Nat) (hist : Hist)
    (hr : RoundsFrom r0 hist) (l1 l2 : Log) (sk : State) (ek : Env) (ck : Call) (ok : Out)
    (hlog : lk_runLog hash s0 hist = l1 ++ (sk, ek, ck, ok) :: l2) (a : Nat)
    (hnb : ∀ y ∈ l1, cr_isBlacklistOf a y = false) (hpre : sk.flags.filtered = false) :
    tf_confirmPaid sk.payTok a l1 = sk.price * sk.confirmed a ∧
    sk.confirmed a = tf_confirmTickets a l1 ∧
    (∀ y ∈ l1, tf_isConfirmBy a y = true →
      y.1.price = sk.price ∧ y.1.payTok = sk.payTok ∧
      egldOrSingleFungible y.2.1 = .ok (sk.payTok, sk.price * tf_ticketsOf y.2.2.1)) ∧
    (∀ l, ck = .blacklist l → a ∈ l →
      cr_paid sk.payTok a ok.xfers = tf_confirmPaid sk.payTok a l1 +
        (if v.hasNft = true ∧ a ∈ sk.payers then cr_fee sk sk.payTok else 0)) ∧
    (∀ l, ck = .refundUsers l → a ∈ l →
      cr_paid sk.payTok a ok.xfers = tf_confirmPaid sk.payTok a l1) := by
  obtain ⟨hS0, hv0, hc0, hp0⟩ := init_facts hinit
  obtain ⟨hSk, hvar, _, _, _, hpk, h1, h2, sk', hh, hl1, hrun, hsk⟩ :=
    tf_entry_static hash hist s0 _ _ _ hlog
  simp only at hvar hrun hsk
  have hvk : sk.variant = v := hvar.trans hv0
  have hr1 : RoundsFrom r0 h1 := by rw [hh] at hr; exact RoundsFrom.append_left hr
  have hclk : sk.claimed a = false := prefilter_unsettled (hpk hp0) hpre a
  obtain ⟨t1, t2⟩ := total_paid_unsettled hash s0 r0 h1 hr1 a (by rw [hc0])
    (by rw [hl1]; exact hnb) (by rw [hrun]; exact hclk)
  rw [hrun, hl1] at t1 t2
  refine ⟨t1, t2, ?_, ?_, ?_⟩
  · intro y hy hyb
    obtain ⟨la, lb, rfl⟩ := List.append_of_mem hy
    obtain ⟨sy, ey, cy, oy⟩ := y
    cases cy <;> simp only [tf_isConfirmBy, Bool.false_eq_true] at hyb
    rename_i m
    have hlog2 : lk_runLog hash s0 hist
        = la ++ (sy, ey, Call.confirm m, oy) :: (lb ++ (sk, ek, ck, ok) :: l2) := by
      rw [hlog]; simp
    obtain ⟨⟨_, _, hpay⟩, hprice, htok, _⟩ :=
      terms_at_confirmation hash s0 r0 hist hr la lb l2 sy ey m oy sk ek ck ok hlog2
    exact ⟨hprice.symm, htok.symm, by rw [hpay, hprice, htok]; rfl⟩
  · intro l hc hal
    subst hc
    rw [tf_step_pay (hSk hS0).tokNe (fun hc => by cases hc) hsk, t1]
    simp [cr_owedPay, hal, hvk]
  · intro l hc hal
    subst hc
    rw [tf_step_pay (hSk hS0).tokNe (fun hc => by cases hc) hsk, t1]
    simp [cr_owedPay, hal]

/-- the same for the state the whole history leads to (nothing need follow) -/
theorem total_paid_equals_total_refundable_final (hash : List Nat → List Nat) (v : Variant)
    (ia : InitArgs) (e0 : Env) (s0 : State) (hinit : init v ia e0 = .ok s0) (r0 : Nat) (hist : Hist)
    (hr : RoundsFrom r0 hist) (a : Nat)
    (hnb : ∀ y ∈ lk_runLog hash s0 hist, cr_isBlacklistOf a y = false)
    (hpre : (run hash s0 hist).flags.filtered = false) :
    tf_confirmPaid (run hash s0 hist).payTok a (lk_runLog hash s0 hist)
      = (run hash s0 hist).price * (run hash s0 hist).confirmed a ∧
    (run hash s0 hist).confirmed a = tf_confirmTickets a (lk_runLog hash s0 hist) := by
  obtain ⟨_, _, hc0, hp0⟩ := init_facts hinit
  exact total_paid_unsettled hash s0 r0 hist hr a (by rw [hc0]) hnb
    (prefilter_unsettled (run_phaseOK hash hist s0 hp0) hpre a)

/-- position form of `terms_at_confirmation` -/
theorem terms_at_confirmation_at (hash : List Nat → List Nat) (s0 : State) (r0 : Nat) (hist : Hist)
    (hr : RoundsFrom r0 hist) (i j : Nat)
    (si : State) (ei : Env) (n : Nat) (oi : Out) (sj : State) (ej : Env) (cj : Call) (oj : Out)
    (hi : (lk_runLog hash s0 hist)[i]? = some (si, ei, .confirm n, oi))
    (hj : (lk_runLog hash s0 hist)[j]? = some (sj, ej, cj, oj)) (hij : i < j) :
    sj.price = si.price ∧ sj.payTok = si.payTok ∧ sj.perTicket = si.perTicket ∧
    sj.nftCost = si.nftCost ∧ sj.sched2 = si.sched2 ∧ (si.sched1 ≠ none → sj.sched1 = si.sched1) ∧
    (si.variant ≠ .guarV1 → sj.sched1 = si.sched1) := by
  obtain ⟨_, h1, h2, h3, h4, _, h6, _, _, _, _, h7, h8, _⟩ :=
    terms_at_confirmation hash s0 r0 hist hr _ _ _ si ei n oi sj ej cj oj (tf_index_split hi hj hij)
  exact ⟨h1, h2, h3, h4, h6, h7, h8⟩


/-! ## non-vacuity

  (a) a base launchpad: 10 EGLD per ticket at deployment, confirmation from round 5, selection from
  round 10, claims from round 15.  History: the owner allocates 3 + 2 tickets to 7 and 8, CHANGES
  THE PRICE to 20 EGLD at round 2 (accepted: before the confirmation start), deposits; at round 6
  he tries 30 EGLD (REJECTED: the confirmation has started); 7 confirms 1 ticket (20 EGLD), 8
  confirms 2 (40), 7 confirms 2 more (40); the owner blacklists 7 (REFUND 60 = 20 × 3); filter,
  select (one winning ticket), 8 claims (REFUND 20 = 20 × (2 − 1), 100 tokens). -/

def tfArgs : InitArgs :=
  { lpTok := 1, perTicket := 100, payTok := .egld, price := 10, nrWinning := 1, conf := 5, sel := 10,
    claim := 15 }
def tfEnv0 : Env := { caller := 1, round := 0 }

def tfHist : Hist := [
  ({ caller := 1, round := 1 }, .addTickets [(7, 3), (8, 2)]),
  ({ caller := 1, round := 2 }, .setTicketPrice .egld 20),
  ({ caller := 1, round := 3, esdts := [⟨.esdt 1, 0, 100⟩] }, .deposit),
  ({ caller := 1, round := 6 }, .setTicketPrice .egld 30),
  ({ caller := 7, round := 6, egld := 20 }, .confirm 1),
  ({ caller := 8, round := 7, egld := 40 }, .confirm 2),
  ({ caller := 7, round := 7, egld := 40 }, .confirm 2),
  ({ caller := 1, round := 8 }, .blacklist [7]),
  ({ caller := 8, round := 10 }, .filter),
  ({ caller := 8, round := 11 }, .select),
  ({ caller := 8, round := 15 }, .claim)]

def tfS0 : State :=
  match init .base tfArgs tfEnv0 with
  | .ok s => s
  | .error _ => default

theorem tfS0_init : init .base tfArgs tfEnv0 = .ok tfS0 := by
  have h : (match init .base tfArgs tfEnv0 with | .ok _ => true | .error _ => false) = true := by
    decide +kernel
  unfold tfS0
  cases hx : init .base tfArgs tfEnv0 with
  | error err => rw [hx] at h; cases h
  | ok s => rfl

theorem tfHist_rounds : RoundsFrom 0 tfHist := by
  simp [tfHist, RoundsFrom]

abbrev tfLog : Log := lk_runLog id tfS0 tfHist

example : tfLog.length = 10 ∧ tfHist.length = 11 := by decide +kernel

theorem tfLog_3 : ∃ si ei oi, tfLog[3]? = some (si, ei, .confirm 1, oi) ∧ ei.caller = 7 ∧
    si.price = 20 ∧ si.payTok = .egld := by
  obtain ⟨⟨si, ei, ci, oi⟩, hx, hp⟩ := tf_entry_of_check tfLog 3
    (fun x => tf_isConfirmBy 7 x && tf_ticketsOf x.2.2.1 == 1 && x.1.price == 20 &&
      decide (x.1.payTok = .egld)) (by decide +kernel)
  simp only [Bool.and_eq_true, beq_iff_eq, decide_eq_true_eq] at hp
  obtain ⟨⟨⟨h1, h2⟩, h3⟩, h4⟩ := hp
  cases ci <;> simp only [tf_isConfirmBy, tf_ticketsOf, Bool.false_eq_true] at h1 h2
  subst h2
  exact ⟨si, ei, oi, hx, by simpa using h1, h3, h4⟩

theorem tfLog_6 : ∃ sj ej oj, tfLog[6]? = some (sj, ej, .blacklist [7], oj) ∧
    sj.confirmed 7 = 3 ∧ ej.caller = 1 ∧ ej.round = 8 ∧ ej.epoch = 0 ∧ sj.flags.filtered = false := by
  obtain ⟨⟨sj, ej, cj, oj⟩, hx, hp⟩ := tf_entry_of_check tfLog 6
    (fun x => (match x.2.2.1 with | .blacklist l => l == [7] | _ => false) &&
      x.1.confirmed 7 == 3 && x.2.1.caller == 1 && x.2.1.round == 8 && x.2.1.epoch == 0 &&
      !x.1.flags.filtered) (by decide +kernel)
  simp only [Bool.and_eq_true, beq_iff_eq, Bool.not_eq_true'] at hp
  obtain ⟨⟨⟨⟨⟨h1, h2⟩, h3⟩, h4⟩, h5⟩, h6⟩ := hp
  cases cj <;> simp only [Bool.false_eq_true] at h1
  rename_i l
  have hl : l = [7] := by simpa using h1
  subst hl
  exact ⟨sj, ej, oj, hx, h2, h3, h4, h5, h6⟩

theorem tfLog_4 : ∃ si ei oi, tfLog[4]? = some (si, ei, .confirm 2, oi) ∧ ei.caller = 8 ∧
    si.price = 20 ∧ si.payTok = .egld ∧ si.perTicket = 100 := by
  obtain ⟨⟨si, ei, ci, oi⟩, hx, hp⟩ := tf_entry_of_check tfLog 4
    (fun x => tf_isConfirmBy 8 x && tf_ticketsOf x.2.2.1 == 2 && x.1.price == 20 &&
      decide (x.1.payTok = .egld) && x.1.perTicket == 100) (by decide +kernel)
  simp only [Bool.and_eq_true, beq_iff_eq, decide_eq_true_eq] at hp
  obtain ⟨⟨⟨⟨h1, h2⟩, h3⟩, h4⟩, h5⟩ := hp
  cases ci <;> simp only [tf_isConfirmBy, tf_ticketsOf, Bool.false_eq_true] at h1 h2
  subst h2
  exact ⟨si, ei, oi, hx, by simpa using h1, h3, h4, h5⟩

theorem tfLog_9 : ∃ sj ej oj, tfLog[9]? = some (sj, ej, .claim, oj) ∧ ej.caller = 8 ∧
    ej.round = 15 ∧ ej.epoch = 0 ∧ sj.claimed 8 = false ∧ sj.confirmed 8 = 2 ∧ winCountOf sj 8 = 1 := by
  obtain ⟨⟨sj, ej, cj, oj⟩, hx, hp⟩ := tf_entry_of_check tfLog 9
    (fun x => (match x.2.2.1 with | .claim => true | _ => false) && x.2.1.caller == 8 &&
      x.2.1.round == 15 && x.2.1.epoch == 0 && !x.1.claimed 8 && x.1.confirmed 8 == 2 &&
      winCountOf x.1 8 == 1) (by decide +kernel)
  simp only [Bool.and_eq_true, beq_iff_eq, Bool.not_eq_true'] at hp
  obtain ⟨⟨⟨⟨⟨⟨h1, h2⟩, h3⟩, h4⟩, h5⟩, h6⟩, h7⟩ := hp
  cases cj <;> simp only [Bool.false_eq_true] at h1
  exact ⟨sj, ej, oj, hx, h2, h3, h4, h5, h6, h7⟩

/-- the `setTicketPrice` before the confirmation start is accepted (10 → 20 EGLD), the one after it
    (fourth transaction of the history, round 6 ≥ 5) is rejected: it leaves no log entry, and the
    price stays 20 in every later pre-state -/
example : tfLog.length = 10 ∧ tfHist.length = 11 ∧
    tfLog.map (fun x => x.1.price) = [10, 10, 20, 20, 20, 20, 20, 20, 20, 20] ∧
    (match step id (run id tfS0 (tfHist.take 3)) { caller := 1, round := 6 } (.setTicketPrice .egld 30) with
     | .error _ => true | .ok _ => false) = true := by
  refine ⟨by decide +kernel, by decide +kernel, by decide +kernel, by decide +kernel⟩

/-- `refund_at_confirmation_price` applied: participant 7 confirmed 1 ticket at index 3 (price 20 EGLD,
    after the accepted price change), later 2 more; the blacklisting at index 6 pays him
    `20 × 3 = 60` EGLD and emits the event with the same numbers -/
example : ∃ sj ej oj, tfLog[6]? = some (sj, ej, .blacklist [7], oj) ∧
    cr_paid .egld 7 oj.xfers = 20 * 3 ∧
    (⟨"refundTicketPayment", [1, 8, 0], [1, 8, 0, 3, 0, 0, 20 * 3]⟩ : Ev) ∈ oj.events := by
  obtain ⟨si, ei, oi, hi, hc, hp, ht⟩ := tfLog_3
  obtain ⟨sj, ej, oj, hj, hconf, he1, he2, he3, _⟩ := tfLog_6
  obtain ⟨_, h1, _, h2, _, _, _, h3, _⟩ :=
    refund_at_confirmation_price id .base tfArgs tfEnv0 tfS0 tfS0_init 0 tfHist tfHist_rounds _ _ _
      si ei 1 oi sj ej (.blacklist [7]) oj (tf_index_split hi hj (by decide)) 7 hc
      (fun h => by cases h)
  refine ⟨sj, ej, oj, hj, ?_, ?_⟩
  · rw [← ht, h1, h2 [7], hp, hconf]
    simp [Variant.hasNft]
  · have := (h3 [7] (Or.inl rfl) (by simp) (by rw [hconf]; decide)).1
    rw [hp, ht, hconf, he1, he2, he3] at this
    exact this

/-- ... and participant 8 (confirmed 2 tickets at index 4, one of them wins): his settling claim at
    index 9 refunds `20 × (2 − 1)` EGLD with the matching event and delivers `100 × 1` tokens -/
example : ∃ sj ej oj, tfLog[9]? = some (sj, ej, .claim, oj) ∧
    cr_paid .egld 8 oj.xfers = 20 * (2 - 1) ∧
    (⟨"refundTicketPayment", [8, 15, 0], [8, 15, 0, 2 - 1, 0, 0, 20 * (2 - 1)]⟩ : Ev) ∈ oj.events ∧
    received 1 8 oj = 100 * 1 := by
  obtain ⟨si, ei, oi, hi, hc, hp, ht, hper⟩ := tfLog_4
  obtain ⟨sj, ej, oj, hj, he1, he2, he3, hcl, hconf, hwin⟩ := tfLog_9
  obtain ⟨_, h1, h2, _, _, _, h3, _, h4⟩ :=
    refund_at_confirmation_price id .base tfArgs tfEnv0 tfS0 tfS0_init 0 tfHist tfHist_rounds _ _ _
      si ei 2 oi sj ej .claim oj (tf_index_split hi hj (by decide)) 8 hc
      (fun h => by cases h)
  refine ⟨sj, ej, oj, hj, ?_, ?_, ?_⟩
  · rw [← ht, h1, h2, hp, hconf, hwin]
    simp [Variant.hasNft, he1, hcl]
  · have := h3 rfl he1 hcl (by rw [hconf, hwin]; decide)
    rw [hp, ht, hconf, hwin, he2, he3] at this
    exact this
  · have := (h4 rfl he1 hcl).1 rfl (by decide +kernel) (fun h => by cases h)
    rw [hper, hwin] at this
    exact this

/-- `total_paid_equals_total_refundable` applied at the blacklisting (index 6, pre-filter; nobody
    listed 7 before): the two confirmations of 7 paid `20 + 40 = 60 = 20 × 3` EGLD -/
example : ∃ sk ek ok, tfLog[6]? = some (sk, ek, .blacklist [7], ok) ∧
    tf_confirmPaid .egld 7 (tfLog.take 6) = 20 * 3 ∧ sk.confirmed 7 = 3 ∧
    cr_paid .egld 7 ok.xfers = tf_confirmPaid .egld 7 (tfLog.take 6) := by
  obtain ⟨sk, ek, ok, hk, hconf, _, _, _, hpre⟩ := tfLog_6
  have hnb : ∀ y ∈ tfLog.take 6, cr_isBlacklistOf 7 y = false := by
    have : (tfLog.take 6).all (fun y => !cr_isBlacklistOf 7 y) = true := by decide +kernel
    intro y hy
    have := List.all_eq_true.mp this y hy
    simpa using this
  obtain ⟨si, ei, oi, hi, _, hp, ht⟩ := tfLog_3
  obtain ⟨hprice, htok, _⟩ := terms_at_confirmation_at id tfS0 0 tfHist tfHist_rounds 3 6
    si ei 1 oi sk ek _ ok hi hk (by decide)
  obtain ⟨t1, t2, _, t4, _⟩ :=
    total_paid_equals_total_refundable id .base tfArgs tfEnv0 tfS0 tfS0_init 0 tfHist tfHist_rounds
      _ _ sk ek _ ok (getElem?_split hk) 7 hnb hpre
  rw [htok, ht, hprice, hp, hconf] at t1
  refine ⟨sk, ek, ok, hk, t1, hconf, ?_⟩
  have := t4 [7] rfl (by simp)
  rw [htok, ht] at this
  rw [this]
  simp [Variant.hasNft]

/-- evaluated directly -/
example : tf_confirmPaid .egld 7 (tfLog.take 6) = 60 ∧ tf_confirmTickets 7 (tfLog.take 6) = 3 ∧
    tf_confirmPaid .egld 8 tfLog = 40 ∧ tf_confirmTickets 8 tfLog = 2 := by
  refine ⟨by decide +kernel, by decide +kernel, by decide +kernel, by decide +kernel⟩

/-! (b) guarV1: the v1 schedule may still be stored ONCE after the confirmation start if none is
   stored: participant 7 confirms at round 6 without a schedule, the owner stores one at round 7
   (accepted), a second `setSchedule1` at round 8 is rejected, 7 confirms again at round 8 under
   the stored schedule -/

def tfgS0 : State :=
  match init .guarV1 tfArgs tfEnv0 with
  | .ok s => s
  | .error _ => default

def tfgHist : Hist := [
  ({ caller := 1, round := 1 }, .addTicketsV1 [(7, 2, 0, false)]),
  ({ caller := 1, round := 3, esdts := [⟨.esdt 1, 0, 100⟩] }, .deposit),
  ({ caller := 7, round := 6, egld := 10 }, .confirm 1),
  ({ caller := 1, round := 7 }, .setSchedule1 20 10000 0 0 0),
  ({ caller := 1, round := 8 }, .setSchedule1 30 10000 0 0 0),
  ({ caller := 7, round := 8, egld := 10 }, .confirm 1)]

example : (match init .guarV1 tfArgs tfEnv0 with | .ok _ => true | .error _ => false) = true ∧
    tfgHist.length = 6 ∧ (lk_runLog id tfgS0 tfgHist).length = 5 ∧
    (lk_runLog id tfgS0 tfgHist).map tf_isSched1 = [false, false, false, true, false] ∧
    (lk_runLog id tfgS0 tfgHist).map (fun x => x.1.sched1)
      = [none, none, none, none, some ⟨20, 10000, 0, 0, 0⟩] ∧
    (lk_runLog id tfgS0 tfgHist).map (fun x => tf_isConfirmBy 7 x) = [false, false, true, false, true] := by
  refine ⟨by decide +kernel, by decide +kernel, by decide +kernel, by decide +kernel,
    by decide +kernel, by decide +kernel⟩

end LP.Props.C17refund

#print axioms LP.Props.C17refund.terms_at_confirmation
#print axioms LP.Props.C17refund.terms_at_confirmation_at
#print axioms LP.Props.C17refund.init_facts
#print axioms LP.Props.C17refund.refund_at_confirmation_price
#print axioms LP.Props.C17refund.total_paid_unsettled
#print axioms LP.Props.C17refund.prefilter_unsettled
#print axioms LP.Props.C17refund.total_paid_equals_total_refundable
#print axioms LP.Props.C17refund.total_paid_equals_total_refundable_final
#print axioms LP.Props.C17refund.tfS0_init
#print axioms LP.Props.C17refund.tfHist_rounds
#print axioms LP.Props.C17refund.tfLog_3
#print axioms LP.Props.C17refund.tfLog_4
#print axioms LP.Props.C17refund.tfLog_6
#print axioms LP.Props.C17refund.tfLog_9
#print axioms LP.tf_split
#print axioms LP.tf_between
#print axioms LP.tf_confirm_inv
#print axioms LP.tf_sched1_step
#print axioms LP.tf_sched1_along
#print axioms LP.tf_step_pay
#print axioms LP.tf_claim_event
#print axioms LP.tf_bl_event
#print axioms LP.tf_ru_event
#print axioms LP.tf_vested_userTotal
#print axioms LP.tf_paid_eq
#print axioms LP.tf_confirmed_eq
#print axioms LP.tf_entry_static
#print axioms LP.tf_index_split
