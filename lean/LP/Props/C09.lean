import LP.Proofs.Claim
import LP.Proofs.ClaimedFrame
import LP.Props.C16
/-
  C09 — each participant settles exactly once, for exactly what the views reported.

  * `clearRange_exact`      : the claim loop counts exactly the winning flags of the range (= the
                              length of the list the view reports), clears them and nothing else
  * `settle_exact`          : accepted settlement ⇔ claim stage, not yet claimed, has a range, the two
                              checked subtractions succeed; amounts and state change are exact
  * `claim_base_*`          : base / migration variants, transfers list stated exactly
  * `claim_lock_effect`     : lock variants, launchpad tokens as lock + direct, summing exactly
  * `no_range_no_claim`, `vested_repeat_claim`
  * `step_claimed_exact`, `step_claimed_mono`, `run_claimed_mono`, `second_claim_rejected`,
    `claim_once`            : `claimed` is written only by `claim`, never reset; a second claim is
                              rejected in every later state
  (the NFT variants are completed in `LP.Props.C14`: `claim_nft_effect`.)
-/
namespace LP.Props.C09
open LP

/-! ### 1. the claim loop -/

/-- **C09.1**: `clearRange` returns the number of winning flags in `[first, first+len)`, which is
    the length of the list the view computes; the flags and position entries are cleared inside
    the range and untouched outside. -/
theorem clearRange_exact (status : Nat → Bool) (posToId : Nat → Nat) (first len : Nat)
    (st' : Nat → Bool) (p' : Nat → Nat) (c : Nat)
    (h : clearRange status posToId first len = (st', p', c)) :
    c = countWinning status first len ∧
    c = (winningIds status first len).length ∧
    (∀ t, first ≤ t → t < first + len → st' t = false ∧ p' t = 0) ∧
    (∀ t, ¬ (first ≤ t ∧ t < first + len) → st' t = status t ∧ p' t = posToId t) :=
  clearRange_spec status posToId first len st' p' c h

/-- the list the view reports: exactly the ids of the range whose flag is set, and no more than
    the size of the range -/
theorem winningIds_exact (status : Nat → Bool) (first len : Nat) :
    (∀ t, t ∈ winningIds status first len ↔ first ≤ t ∧ t < first + len ∧ status t = true) ∧
    (winningIds status first len).length ≤ len := by
  refine ⟨fun t => mem_winningIds status first len t, ?_⟩
  rw [← countWinning_eq_length]
  exact g_countWinning_le status first len

example :
    (clearRange (fun t => t == 3 || t == 5 || t == 9) (fun t => t + 1) 3 4).2.2 = 2 ∧
    winningIds (fun t => t == 3 || t == 5 || t == 9) 3 4 = [3, 5] ∧
    (clearRange (fun t => t == 3 || t == 5 || t == 9) (fun t => t + 1) 3 4).1 5 = false ∧
    (clearRange (fun t => t == 3 || t == 5 || t == 9) (fun t => t + 1) 3 4).1 9 = true := by decide

/-! ### 2. settlement -/

/-- in the claim stage the base selection (and the additional step) are complete -/
theorem claim_stage_selected {s : State} {e : Env} (h : s.stage e = .claim) :
    s.flags.selected = true ∧ s.flags.additional = true ∧ s.cfg.claim ≤ e.round :=
  stageOf_claim_flags h

/-- **C09.2, acceptance and amounts**: `settle` is accepted exactly when the stage is Claim, the
    caller has not claimed and has a ticket range; `redeem` is the number of ids the view
    `viewWinningIds` reports, `refund` the confirmed tickets that did not win; the two checked
    subtractions succeed iff `redeem ≤ nrWinning` and `redeem ≤ confirmed`.  The new state is
    `settledState`. -/
theorem settle_exact (s : State) (e : Env) (s' : State) (redeem refund : Nat) :
    settle s e = .ok (s', redeem, refund) ↔
      s.stage e = .claim ∧ s.flags.selected = true ∧ s.claimed e.caller = false ∧
      ∃ r, s.range e.caller = some r ∧
        redeem = (viewWinningIds s e.caller).length ∧
        redeem ≤ s.nrWinning ∧ redeem ≤ s.confirmed e.caller ∧
        refund = s.confirmed e.caller - redeem ∧
        s' = settledState s e.caller r := by
  rw [settle_ok_iff]
  constructor
  · rintro ⟨hst, hcl, r, hr, hrd, h⟩
    have hsel := stage_claim_selected hst
    refine ⟨hst, hsel, hcl, r, hr, ?_, h⟩
    rw [← winCount_eq_view s e.caller hsel, hrd]
    simp [winCount, hr]
  · rintro ⟨hst, hsel, hcl, r, hr, hrd, h⟩
    refine ⟨hst, hcl, r, hr, ?_, h⟩
    rw [hrd, ← winCount_eq_view s e.caller hsel]
    simp [winCount, hr]

/-- **C09.2, effect**: what a settlement of range `r` for `a` changes -/
theorem settledState_effect (s : State) (a : Nat) (r : Range) :
    let s' := settledState s a r
    s'.claimed a = true ∧ s'.range a = none ∧ s'.confirmed a = 0 ∧
    s'.nrWinning = s.nrWinning - countWinning s.status r.first (rangeLen r) ∧
    (∀ t, r.first ≤ t → t < r.first + rangeLen r → s'.status t = false ∧ s'.posToId t = 0) ∧
    (∀ t, ¬ (r.first ≤ t ∧ t < r.first + rangeLen r) →
        s'.status t = s.status t ∧ s'.posToId t = s.posToId t) ∧
    (∀ b, b ≠ a → s'.range b = s.range b ∧ s'.confirmed b = s.confirmed b ∧
        s'.claimed b = s.claimed b) ∧
    (∀ f, f ≠ r.first → s'.batch f = s.batch f) ∧ s'.batch r.first = none ∧
    s'.bal = s.bal ∧ s'.flags = s.flags ∧ s'.cfg = s.cfg ∧ s'.variant = s.variant ∧
    s'.price = s.price ∧ s'.perTicket = s.perTicket ∧ s'.payTok = s.payTok ∧
    s'.lpTok = s.lpTok ∧ s'.blacklist = s.blacklist ∧ s'.lastTicketId = s.lastTicketId ∧
    s'.claimablePayment = s.claimablePayment ∧ s'.payers = s.payers ∧
    s'.nftWinners = s.nftWinners ∧ s'.userTotal = s.userTotal ∧ s'.userClaimed = s.userClaimed := by
  intro s'
  have hspec := clearRange_spec s.status s.posToId r.first (rangeLen r) _ _ _ rfl
  refine ⟨by simp [s', settledState], by simp [s', settledState], by simp [s', settledState], rfl,
    hspec.2.2.1, hspec.2.2.2, ?_, ?_, by simp [s', settledState], rfl, rfl, rfl, rfl, rfl, rfl, rfl,
    rfl, rfl, rfl, rfl, rfl, rfl, rfl, rfl⟩
  · intro b hb
    simp [s', settledState, upd, hb]
  · intro f hf
    simp [s', settledState, upd, hf]

/-- the range of ids `[first, first + rangeLen r)` is `[first, last]` -/
theorem rangeLen_mem (r : Range) (t : Nat) :
    (r.first ≤ t ∧ t < r.first + rangeLen r) ↔ (r.first ≤ t ∧ t ≤ r.last) := by
  unfold rangeLen; omega

/-- settlement is once-only at the level of `settle`: after an accepted settlement a second one by
    the same caller is rejected, in any state in which `claimed caller` still holds -/
theorem settle_twice_rejected (s : State) (e : Env) (h : s.claimed e.caller = true) :
    settle s e = .error (.user "Already claimed") ∨ settle s e = .error (.user "Not in claim period") := by
  rw [settle_eq]
  unfold requireStage
  by_cases hst : s.stage e = .claim
  · left
    simp [hst, h, req, bind, Except.bind]
  · right
    simp [hst, req, bind, Except.bind]

/-! ### `step` for the claim endpoint -/

/-- the initial transaction record of a call without call value -/
def txc (s : State) (e : Env) : Tx := ⟨s, ⟨e.budget, e.seeds, e.script⟩, {}⟩

theorem txc_s (s : State) (e : Env) : (txc s e).s = s := rfl
theorem txc_o (s : State) (e : Env) : (txc s e).o = {} := rfl

theorem step_claim_ok_iff (hash : List Nat → List Nat) (s : State) (e : Env) (s' : State) (o : Out) :
    step hash s e .claim = .ok (s', o) ↔
      e.egld = 0 ∧ e.esdts = [] ∧
      ∃ t, exec hash (txc s e) e .claim = .ok t ∧ s' = t.s ∧ o = t.o := by
  constructor
  · intro h
    obtain ⟨m, t, hm, hpay, _, hx, hs, ho⟩ := step_ok_inv h
    simp only [endpointMeta, Option.some.injEq] at hm
    subst hm
    simp only [Bool.false_eq_true, false_or] at hpay
    refine ⟨hpay.1, hpay.2, t, ?_, hs, ho⟩
    unfold tx0 at hx
    rw [creditPayments_nopay s e hpay.1 hpay.2] at hx
    exact hx
  · rintro ⟨h1, h2, t, hx, rfl, rfl⟩
    unfold txc at hx
    unfold step
    simp only [endpointMeta, h1, h2, creditPayments_nopay s e h1 h2, hx]
    simp

/-! ### 3. base / migration variants: exact transfers -/

/-- refund part of the transfers of a claim: `price * (confirmed - winning)` of the payment token,
    one transfer, none if zero -/
def refundXfers (s : State) (a : Nat) : List (Nat × Pay) :=
  if s.confirmed a - winCount s a = 0 then []
  else [(a, ⟨s.payTok, 0, s.price * (s.confirmed a - winCount s a)⟩)]

/-- token part without a lock: `winning * perTicket` launchpad tokens, one transfer, none if zero -/
def tokenXfers (s : State) (a : Nat) : List (Nat × Pay) :=
  if winCount s a = 0 then [] else [(a, ⟨.esdt s.lpTok, 0, winCount s a * s.perTicket⟩)]

/-- the balances after a claim: the refund and the delivered tokens have left -/
def balAfterClaim (s : State) (a : Nat) : Bal :=
  (s.bal.sub s.payTok 0 (s.price * (s.confirmed a - winCount s a))).sub
    (.esdt s.lpTok) 0 (winCount s a * s.perTicket)

/-- the conditions under which a claim by `e.caller` is accepted (variants without vesting and
    NFT hook): no call value, claim stage, not yet claimed, a range exists, the two checked
    subtractions succeed, the contract holds the refund and then the tokens to deliver -/
def ClaimAccepts (s : State) (e : Env) (r : Range) : Prop :=
  e.egld = 0 ∧ e.esdts = [] ∧
  s.stage e = .claim ∧ s.claimed e.caller = false ∧ s.range e.caller = some r ∧
  winCount s e.caller ≤ s.nrWinning ∧ winCount s e.caller ≤ s.confirmed e.caller ∧
  s.price * (s.confirmed e.caller - winCount s e.caller) ≤ s.bal s.payTok 0 ∧
  winCount s e.caller * s.perTicket ≤
    (s.bal.sub s.payTok 0 (s.price * (s.confirmed e.caller - winCount s e.caller))) (.esdt s.lpTok) 0

theorem winCount_of_range {s : State} {a : Nat} {r : Range} (h : s.range a = some r) :
    winCount s a = countWinning s.status r.first (rangeLen r) := by
  simp [winCount, h]

/-- **C09.3 (base, migration), acceptance and complete effect.**  For a variant without vesting,
    lock and NFT hook, `claim` is accepted iff `ClaimAccepts`; then the caller receives exactly
    one transfer of `price * (confirmed - winning)` payment tokens (none if zero) followed by one
    transfer of `winning * perTicket` launchpad tokens (none if zero), where
    `winning = (viewWinningIds s caller).length`; no lock call, no SFT; the state is the settled
    state with exactly these two amounts deducted from the balances. -/
theorem claim_base_iff (hash : List Nat → List Nat) (s : State) (e : Env) (s' : State) (o : Out)
    (hv : s.variant.vested = false) (hl : s.variant.hasLock = false) (hn : s.variant.hasNft = false) :
    step hash s e .claim = .ok (s', o) ↔
      ∃ r, ClaimAccepts s e r ∧
        s' = { settledState s e.caller r with bal := balAfterClaim s e.caller } ∧
        o.xfers = refundXfers s e.caller ++ tokenXfers s e.caller ∧
        o.locks = [] ∧ o.sfts = [] ∧ o.ret = [] ∧ o.draws = [] ∧
        o.events = (if s.confirmed e.caller - winCount s e.caller = 0 then []
                    else [refundEvent s e (s.confirmed e.caller - winCount s e.caller)]) := by
  rw [step_claim_ok_iff, exec_claim_nonvested hash _ e hv]
  have hvar : ∀ r, (claimMid (txc s e) e r).s.variant = s.variant := by
    intro r; rw [claimMid_state]; rfl
  constructor
  · rintro ⟨h1, h2, t, hx, rfl, rfl⟩
    obtain ⟨r, ⟨hst, hcl, hr, hnw, hle, hb⟩, t2, h3, h4⟩ := (claimBase_ok_iff _ e t).mp hx
    rw [txc_s] at hst hcl hr hnw hle hb h3
    have hl' : (claimMid (txc s e) e r).s.variant.hasLock = false := by rw [hvar]; exact hl
    rw [sendLaunchpadTokens_nolock_ok_iff _ e _ _ _ hl'] at h3
    obtain ⟨hb2, rfl⟩ := h3
    have hn' : (sendTokensResult (claimMid (txc s e) e r) e.caller
        (countWinning s.status r.first (rangeLen r))).s.variant.hasNft = false := by
      rw [sendTokensResult_state]
      show (claimMid (txc s e) e r).s.variant.hasNft = false
      rw [hvar]; exact hn
    simp only [hn', Bool.false_eq_true, if_false, pure_ok_iff] at h4
    subst h4
    have hw : winCount s e.caller = countWinning s.status r.first (rangeLen r) :=
      winCount_of_range hr
    refine ⟨r, ⟨h1, h2, hst, hcl, hr, ?_, ?_, ?_, ?_⟩, ?_, ?_, ?_, ?_, ?_, ?_, ?_⟩
    · rw [hw]; exact hnw
    · rw [hw]; exact hle
    · rw [hw]; exact hb
    · rw [hw]
      rw [claimMid_state] at hb2
      exact hb2
    · rw [sendTokensResult_state, claimMid_state]
      simp only [balAfterClaim, hw, txc]
      rfl
    · rw [sendTokensResult_xfers, claimMid_xfers, claimMid_state]
      simp only [refundXfers, tokenXfers, hw, txc, List.nil_append]
      rfl
    · unfold sendTokensResult sendResult claimMid refundResult
      split <;> split <;> rfl
    · unfold sendTokensResult sendResult claimMid refundResult
      split <;> split <;> rfl
    · unfold sendTokensResult sendResult claimMid refundResult
      split <;> split <;> rfl
    · unfold sendTokensResult sendResult claimMid refundResult
      split <;> split <;> rfl
    · rw [hw]
      unfold sendTokensResult sendResult claimMid refundResult
      split <;> split <;> simp_all [txc, Tx.setS, refundEvent, settledState]
  · rintro ⟨r, ⟨h1, h2, hst, hcl, hr, hnw, hle, hb, hb2⟩, hs', hx, hlk, hsf, hret, hdr, hev⟩
    have hw : winCount s e.caller = countWinning s.status r.first (rangeLen r) :=
      winCount_of_range hr
    rw [hw] at hnw hle hb hb2 hev
    have hl' : (claimMid (txc s e) e r).s.variant.hasLock = false := by rw [hvar]; exact hl
    have hn' : (sendTokensResult (claimMid (txc s e) e r) e.caller
        (countWinning s.status r.first (rangeLen r))).s.variant.hasNft = false := by
      rw [sendTokensResult_state]
      show (claimMid (txc s e) e r).s.variant.hasNft = false
      rw [hvar]; exact hn
    refine ⟨h1, h2, sendTokensResult (claimMid (txc s e) e r) e.caller
        (countWinning s.status r.first (rangeLen r)), ?_, ?_, ?_⟩
    · rw [claimBase_ok_iff]
      refine ⟨r, ⟨hst, hcl, hr, hnw, hle, hb⟩, sendTokensResult (claimMid (txc s e) e r) e.caller
        (countWinning s.status r.first (rangeLen r)), ?_, ?_⟩
      · rw [sendLaunchpadTokens_nolock_ok_iff _ e _ _ _ hl']
        refine ⟨?_, rfl⟩
        rw [claimMid_state]
        exact hb2
      · simp only [hn', Bool.false_eq_true, if_false]
        rfl
    · rw [hs', sendTokensResult_state, claimMid_state]
      simp only [balAfterClaim, hw, txc]
      rfl
    · have hxf : (sendTokensResult (claimMid (txc s e) e r) e.caller
          (countWinning s.status r.first (rangeLen r))).o.xfers
          = refundXfers s e.caller ++ tokenXfers s e.caller := by
        rw [sendTokensResult_xfers, claimMid_xfers, claimMid_state]
        simp only [refundXfers, tokenXfers, hw, txc, List.nil_append]
        rfl
      have hev' : (sendTokensResult (claimMid (txc s e) e r) e.caller
          (countWinning s.status r.first (rangeLen r))).o.events = o.events := by
        rw [hev]
        unfold sendTokensResult sendResult claimMid refundResult
        split <;> split <;> simp_all [txc, Tx.setS, refundEvent, settledState]
      have hrest : ∀ t : Tx, t.o.xfers = o.xfers → t.o.events = o.events → t.o.locks = [] →
          t.o.sfts = [] → t.o.ret = [] → t.o.draws = [] → o = t.o := by
        intro t a b c d f g
        cases o
        cases ht : t.o
        simp_all
      apply hrest
      · rw [hxf, hx]
      · exact hev'
      · unfold sendTokensResult sendResult claimMid refundResult
        split <;> split <;> rfl
      · unfold sendTokensResult sendResult claimMid refundResult
        split <;> split <;> rfl
      · unfold sendTokensResult sendResult claimMid refundResult
        split <;> split <;> rfl
      · unfold sendTokensResult sendResult claimMid refundResult
        split <;> split <;> rfl

/-- non-vacuity: a concrete accepted claim (3 confirmed, tickets 4..6, two of them winning) -/
def exState : State :=
  { variant := .base, owner := 1, lpTok := 1, perTicket := 100, payTok := .egld, price := 10,
    nrWinning := 5, cfg := ⟨5, 10, 15⟩, flags := { selected := true, additional := true },
    support := 1, deposited := true,
    range := fun a => if a = 7 then some ⟨4, 6⟩ else none,
    confirmed := fun a => if a = 7 then 3 else 0,
    status := fun t => t == 4 || t == 6 || t == 8,
    bal := fun _ _ => 1000 }
def exEnv : Env := { caller := 7, round := 20 }

example : ClaimAccepts exState exEnv ⟨4, 6⟩ ∧ winCount exState 7 = 2 ∧
    viewWinningIds exState 7 = [4, 6] ∧
    refundXfers exState 7 = [(7, ⟨.egld, 0, 10⟩)] ∧
    tokenXfers exState 7 = [(7, ⟨.esdt 1, 0, 200⟩)] := by
  refine ⟨⟨rfl, rfl, ?_, rfl, rfl, ?_, ?_, ?_, ?_⟩, ?_, ?_, ?_, ?_⟩ <;> decide

/-! ### 3'. lock variants: lock + direct transfers summing to the entitlement -/

theorem hasLock_not_nft {v : Variant} (h : v.hasLock = true) : v.hasNft = false := by
  cases v <;> simp_all [Variant.hasLock, Variant.hasNft]

/-- **C09.3 (locked, locked+guaranteed), acceptance** -/
theorem claim_lock_accepted_iff (hash : List Nat → List Nat) (s : State) (e : Env)
    (hv : s.variant.vested = false) (hl : s.variant.hasLock = true) (hp : s.lockPct ≤ 10000) :
    (∃ x, step hash s e .claim = .ok x) ↔ ∃ r, ClaimAccepts s e r := by
  have hvar : ∀ r, (claimMid (txc s e) e r).s.variant = s.variant := by
    intro r; rw [claimMid_state]; rfl
  have hpct : ∀ r, (claimMid (txc s e) e r).s.lockPct ≤ 10000 := by
    intro r; rw [claimMid_state]; exact hp
  constructor
  · rintro ⟨⟨s', o⟩, h⟩
    rw [step_claim_ok_iff, exec_claim_nonvested hash _ e hv] at h
    obtain ⟨h1, h2, t, hx, -, -⟩ := h
    obtain ⟨r, ⟨hst, hcl, hr, hnw, hle, hb⟩, t2, h3, -⟩ := (claimBase_ok_iff _ e t).mp hx
    rw [txc_s] at hst hcl hr hnw hle hb h3
    have hl' : (claimMid (txc s e) e r).s.variant.hasLock = true := by rw [hvar]; exact hl
    rw [sendLaunchpadTokens_lock_ok_iff _ e _ _ _ hl' (hpct r)] at h3
    have hw := winCount_of_range hr
    refine ⟨r, h1, h2, hst, hcl, hr, ?_, ?_, ?_, ?_⟩
    · rw [hw]; exact hnw
    · rw [hw]; exact hle
    · rw [hw]; exact hb
    · rw [hw]
      have := h3.1
      rw [claimMid_state] at this
      exact this
  · rintro ⟨r, h1, h2, hst, hcl, hr, hnw, hle, hb, hb2⟩
    have hw := winCount_of_range hr
    rw [hw] at hnw hle hb hb2
    have hl' : (claimMid (txc s e) e r).s.variant.hasLock = true := by rw [hvar]; exact hl
    let t2 := sendTokensLockedResult (claimMid (txc s e) e r) e e.caller
        (countWinning s.status r.first (rangeLen r))
    have hn' : t2.s.variant.hasNft = false := by
      show (sendTokensLockedResult _ e _ _).s.variant.hasNft = false
      rw [sendTokensLockedResult_state]
      show (claimMid (txc s e) e r).s.variant.hasNft = false
      rw [hvar]; exact hasLock_not_nft hl
    refine ⟨(t2.s, t2.o), ?_⟩
    rw [step_claim_ok_iff, exec_claim_nonvested hash _ e hv]
    refine ⟨h1, h2, t2, ?_, rfl, rfl⟩
    rw [claimBase_ok_iff]
    refine ⟨r, ⟨hst, hcl, hr, hnw, hle, hb⟩, t2, ?_, ?_⟩
    · rw [txc_s, sendLaunchpadTokens_lock_ok_iff _ e _ _ _ hl' (hpct r)]
      refine ⟨?_, rfl⟩
      rw [claimMid_state]
      exact hb2
    · simp only [hn', Bool.false_eq_true, if_false]
      rfl

/-- **C09.3 (locked, locked+guaranteed), effect.**  An accepted claim refunds exactly
    `price * (confirmed - winning)` payment tokens (one transfer, none if zero) and delivers
    exactly `winning * perTicket` launchpad tokens as at most one lock call — carried by a
    transfer of the same amount to the lock contract — plus at most one direct transfer to the
    caller; the two parts add up to the entitlement (C16). -/
theorem claim_lock_effect (hash : List Nat → List Nat) (s : State) (e : Env) (s' : State) (o : Out)
    (hv : s.variant.vested = false) (hl : s.variant.hasLock = true) (hp : s.lockPct ≤ 10000)
    (h : step hash s e .claim = .ok (s', o)) :
    ∃ (r : Range) (newLocks : List (Nat × Nat × Nat)) (newDirect : List Nat),
      ClaimAccepts s e r ∧
      s' = { settledState s e.caller r with bal := balAfterClaim s e.caller } ∧
      o.locks = newLocks ∧
      o.xfers = refundXfers s e.caller
        ++ newLocks.map (fun l => (s.lockAddr, (⟨.esdt s.lpTok, 0, l.2.2⟩ : Pay)))
        ++ newDirect.map (fun d => (e.caller, (⟨.esdt s.lpTok, 0, d⟩ : Pay))) ∧
      (∀ l ∈ newLocks, l.1 = s.unlockEpoch ∧ l.2.1 = e.caller ∧ 0 < l.2.2) ∧
      (∀ d ∈ newDirect, 0 < d) ∧ newLocks.length ≤ 1 ∧ newDirect.length ≤ 1 ∧
      (newLocks.map (·.2.2)).sum + newDirect.sum = winCount s e.caller * s.perTicket ∧
      o.sfts = [] := by
  obtain ⟨r0, hacc0⟩ := (claim_lock_accepted_iff hash s e hv hl hp).mp ⟨_, h⟩
  have hvar : ∀ r, (claimMid (txc s e) e r).s.variant = s.variant := by
    intro r; rw [claimMid_state]; rfl
  have hpct : ∀ r, (claimMid (txc s e) e r).s.lockPct ≤ 10000 := by
    intro r; rw [claimMid_state]; exact hp
  rw [step_claim_ok_iff, exec_claim_nonvested hash _ e hv] at h
  obtain ⟨h1, h2, t, hx, rfl, rfl⟩ := h
  obtain ⟨r, ⟨hst, hcl, hr, hnw, hle, hb⟩, t2, h3, h4⟩ := (claimBase_ok_iff _ e t).mp hx
  rw [txc_s] at hst hcl hr hnw hle hb h3
  have hr0 : r0 = r := by
    have := hacc0.2.2.2.2.1
    rw [hr] at this
    exact (Option.some.inj this).symm
  subst hr0
  have hw := winCount_of_range hr
  have hl' : (claimMid (txc s e) e r0).s.variant.hasLock = true := by rw [hvar]; exact hl
  have h3' := h3
  rw [sendLaunchpadTokens_lock_ok_iff _ e _ _ _ hl' (hpct r0)] at h3'
  obtain ⟨hb2, ht2⟩ := h3'
  have hn' : t2.s.variant.hasNft = false := by
    rw [ht2, sendTokensLockedResult_state]
    show (claimMid (txc s e) e r0).s.variant.hasNft = false
    rw [hvar]; exact hasLock_not_nft hl
  simp only [hn', Bool.false_eq_true, if_false, pure_ok_iff] at h4
  subst h4
  have hst2 : t2.s = { settledState s e.caller r0 with bal := balAfterClaim s e.caller } := by
    rw [ht2, sendTokensLockedResult_state, claimMid_state]
    simp only [balAfterClaim, hw, txc]
    rfl
  have hmx : (claimMid (txc s e) e r0).o.xfers = refundXfers s e.caller := by
    rw [claimMid_xfers]
    simp only [refundXfers, hw, txc, List.nil_append]
    rfl
  have hml : (claimMid (txc s e) e r0).o.locks = [] := by
    unfold claimMid refundResult; split <;> rfl
  have hms : (claimMid (txc s e) e r0).o.sfts = [] := by
    unfold claimMid refundResult; split <;> rfl
  by_cases hz : countWinning s.status r0.first (rangeLen r0) = 0
  · have : t2 = claimMid (txc s e) e r0 := by
      rw [ht2]; unfold sendTokensLockedResult; rw [if_pos hz]
    refine ⟨r0, [], [], hacc0, hst2, ?_, ?_, ?_, ?_, ?_, ?_, ?_, ?_⟩
    · rw [this, hml]
    · rw [this, hmx]; simp
    · intro l hl; cases hl
    · intro d hd; cases hd
    · exact Nat.zero_le _
    · exact Nat.zero_le _
    · rw [hw, hz]; simp
    · rw [this, hms]
  · have hsl : (claimMid (txc s e) e r0).sendLocked e e.caller
        (countWinning s.status r0.first (rangeLen r0) * (claimMid (txc s e) e r0).s.perTicket)
        = .ok t2 := by
      unfold Tx.sendLaunchpadTokens at h3
      simp only [hz, if_false, hl', if_true] at h3
      exact h3
    obtain ⟨t', nl, nd, hok, hlocks, hxf, hnl, hnd, hl1, hd1, hsum⟩ :=
      sendLocked_conservation (claimMid (txc s e) e r0) e e.caller _ (hpct r0) hb2
    rw [hsl] at hok
    cases hok
    have hsfts : t2.o.sfts = [] := by
      rw [ht2]; unfold sendTokensLockedResult sendLockedResult
      split
      · exact hms
      · exact hms
    have hlp : (claimMid (txc s e) e r0).s.lpTok = s.lpTok := by rw [claimMid_state]; rfl
    have hla : (claimMid (txc s e) e r0).s.lockAddr = s.lockAddr := by rw [claimMid_state]; rfl
    have hpt : (claimMid (txc s e) e r0).s.perTicket = s.perTicket := by rw [claimMid_state]; rfl
    have hue : (claimMid (txc s e) e r0).s.unlockEpoch = s.unlockEpoch := by
      rw [claimMid_state]; rfl
    rw [hlp, hla, hmx] at hxf
    rw [hml] at hlocks
    rw [hpt] at hsum
    refine ⟨r0, nl, nd, hacc0, hst2, ?_, hxf, ?_, hnd, hl1, hd1, ?_, hsfts⟩
    · rw [hlocks]; rfl
    · intro l hl
      have := hnl l hl
      rw [hue] at this
      exact this
    · rw [hsum, hw]

/-! ### 5. no range, no claim; repeat claims of the vesting variants -/

/-- **C09.5**: an address without a ticket range (never allocated, filtered out for not
    confirming, or already settled) cannot claim — for the vesting variants provided it has not
    settled before (a settled user of a vesting variant may call again, see
    `vested_repeat_claim`) -/
theorem no_range_no_claim (hash : List Nat → List Nat) (s : State) (e : Env)
    (hr : s.range e.caller = none)
    (hc : s.variant.vested = false ∨ s.claimed e.caller = false) :
    ∃ err, step hash s e .claim = .error err := by
  cases h : step hash s e .claim with
  | error err => exact ⟨err, rfl⟩
  | ok x =>
    exfalso
    obtain ⟨s', o⟩ := x
    rw [step_claim_ok_iff] at h
    obtain ⟨h1, h2, t, hx, -, -⟩ := h
    cases hv : s.variant.vested
    · rw [exec_claim_nonvested hash _ e hv] at hx
      obtain ⟨r, ⟨_, _, hr', _⟩, _⟩ := (claimBase_ok_iff _ e t).mp hx
      rw [txc_s, hr] at hr'
      cases hr'
    · have hcl : s.claimed e.caller = false := by
        cases hc with
        | inl h => rw [hv] at h; cases h
        | inr h => exact h
      rw [exec_claim_vested hash _ e hv] at hx
      obtain ⟨t1, c, hset, -⟩ := claimVested_inv hx
      unfold claimSettle at hset
      rw [txc_s] at hset
      simp only [hcl, Bool.false_eq_true, if_false, bind_ok_iff, Prod.exists] at hset
      obtain ⟨s1, rd, rf, hs, -⟩ := hset
      obtain ⟨_, _, r, hr', _⟩ := (settle_ok_iff s e s1 rd rf).mp hs
      rw [hr] at hr'
      cases hr'

/-- **C09.5 (vesting variants)**: a claim by a user who has already settled performs no second
    settlement: it only releases the amount `claimableV` that has vested since (C13,
    `claimVested_repeat`, `claimVested_v2_exact` / `claimVested_v1_exact`): one transfer of
    launchpad tokens (none if zero), no refund, `userTotal` and the settlement records unchanged -/
theorem vested_repeat_claim (hash : List Nat → List Nat) (s : State) (e : Env) (s' : State) (o : Out)
    (hv : s.variant.vested = true) (hcl : s.claimed e.caller = true)
    (h : step hash s e .claim = .ok (s', o)) :
    ∃ c, claimableV s e e.caller = .ok c ∧
      o.xfers = (if c > 0 then [(e.caller, ⟨.esdt s.lpTok, 0, c⟩)] else []) ∧
      s'.userClaimed e.caller = s.userClaimed e.caller + c ∧
      (∀ a, a ≠ e.caller → s'.userClaimed a = s.userClaimed a) ∧
      s'.userTotal = s.userTotal := by
  rw [step_claim_ok_iff, exec_claim_vested hash _ e hv] at h
  obtain ⟨h1, h2, t, hx, rfl, rfl⟩ := h
  obtain ⟨c, hc, huc, hoth, hut, _, _, hxf⟩ := claimVested_repeat (t := txc s e) hcl hx
  exact ⟨c, hc, by simpa [txc] using hxf, huc, hoth, hut⟩

/-! ### 4. `claimed` is never reset; a second claim is rejected -/

/-- **C09.4, frame**: an accepted transaction changes `claimed` only if it is `claim`, and then it
    sets exactly the caller's flag (all 31 endpoints of all 8 variants) -/
theorem step_claimed_exact (hash : List Nat → List Nat) (s : State) (e : Env) (c : Call)
    (s' : State) (o : Out) (h : step hash s e c = .ok (s', o)) :
    (c ≠ .claim → s'.claimed = s.claimed) ∧
    (c = .claim → s'.claimed = upd s.claimed e.caller true) := by
  obtain ⟨m, t, _, _, _, hx, rfl, rfl⟩ := step_ok_inv h
  have h0 : (tx0 s e).s.claimed = s.claimed := rfl
  constructor
  · intro hc
    rw [exec_claimed_eq hc hx, h0]
  · intro hc
    subst hc
    rw [exec_claim_claimed hx, h0]

/-- **C09.4**: no accepted transaction resets a `claimed` flag -/
theorem step_claimed_mono (hash : List Nat → List Nat) (s : State) (e : Env) (c : Call)
    (s' : State) (o : Out) (h : step hash s e c = .ok (s', o)) (u : Nat)
    (hu : s.claimed u = true) : s'.claimed u = true := by
  obtain ⟨h1, h2⟩ := step_claimed_exact hash s e c s' o h
  by_cases hc : c = .claim
  · rw [h2 hc, upd_apply]
    split
    · rfl
    · exact hu
  · rw [h1 hc]; exact hu

/-- … nor does any history (rejected transactions leave the state unchanged) -/
theorem run_claimed_mono (hash : List Nat → List Nat) (l : List (Env × Call)) :
    ∀ (s : State) (u : Nat), s.claimed u = true → (run hash s l).claimed u = true := by
  induction l with
  | nil => intro s u hu; exact hu
  | cons x rest ih =>
    intro s u hu
    obtain ⟨e, c⟩ := x
    unfold run
    cases h : step hash s e c with
    | error err => exact ih s u hu
    | ok r =>
      obtain ⟨s', o⟩ := r
      exact ih s' u (step_claimed_mono hash s e c s' o h u hu)

/-- an accepted claim (any variant) marks the caller as claimed -/
theorem claim_sets_claimed (hash : List Nat → List Nat) (s : State) (e : Env) (s' : State) (o : Out)
    (h : step hash s e .claim = .ok (s', o)) : s'.claimed e.caller = true := by
  rw [(step_claimed_exact hash s e .claim s' o h).2 rfl]
  simp [upd]

/-- **C09.4, second claim**: in any state in which `claimed u` holds, a `claim` by `u` is rejected
    (variants without vesting); in the claim stage, without call value, the error is
    "Already claimed" -/
theorem second_claim_rejected (hash : List Nat → List Nat) (s : State) (e : Env)
    (hv : s.variant.vested = false) (hcl : s.claimed e.caller = true) :
    (∃ err, step hash s e .claim = .error err) ∧
    (s.stage e = .claim → e.egld = 0 → e.esdts = [] →
      step hash s e .claim = .error (.user "Already claimed")) := by
  constructor
  · cases h : step hash s e .claim with
    | error err => exact ⟨err, rfl⟩
    | ok x =>
      exfalso
      obtain ⟨s', o⟩ := x
      rw [step_claim_ok_iff, exec_claim_nonvested hash _ e hv] at h
      obtain ⟨_, _, t, hx, -, -⟩ := h
      obtain ⟨r, ⟨_, hc, _⟩, _⟩ := (claimBase_ok_iff _ e t).mp hx
      rw [txc_s, hcl] at hc
      cases hc
  · intro hst h1 h2
    unfold step
    simp only [endpointMeta, h1, h2, creditPayments_nopay s e h1 h2]
    have hx : exec hash ⟨s, ⟨e.budget, e.seeds, e.script⟩, {}⟩ e .claim
        = .error (.user "Already claimed") := by
      rw [exec_claim_nonvested hash _ e hv]
      unfold claimBase
      rw [settle_eq]
      simp [requireStage, hst, hcl, req, bind, Except.bind]
    rw [hx]
    simp

/-- **C09.4, once-only**: after an accepted claim by `u`, whatever transactions follow, any
    further `claim` by `u` is rejected (as long as the contract is a variant without vesting) -/
theorem claim_once (hash : List Nat → List Nat) (s : State) (e : Env) (s' : State) (o : Out)
    (h : step hash s e .claim = .ok (s', o))
    (l : List (Env × Call)) (e2 : Env) (he2 : e2.caller = e.caller)
    (hv : (run hash s' l).variant.vested = false) :
    ∃ err, step hash (run hash s' l) e2 .claim = .error err := by
  have h1 := claim_sets_claimed hash s e s' o h
  have h2 := run_claimed_mono hash l s' e.caller h1
  exact (second_claim_rejected hash (run hash s' l) e2 hv (by rw [he2]; exact h2)).1

end LP.Props.C09

#print axioms LP.Props.C09.clearRange_exact
#print axioms LP.Props.C09.winningIds_exact
#print axioms LP.Props.C09.settle_exact
#print axioms LP.Props.C09.settledState_effect
#print axioms LP.Props.C09.settle_twice_rejected
#print axioms LP.Props.C09.claim_base_iff
#print axioms LP.Props.C09.claim_lock_accepted_iff
#print axioms LP.Props.C09.claim_lock_effect
#print axioms LP.Props.C09.no_range_no_claim
#print axioms LP.Props.C09.vested_repeat_claim
#print axioms LP.Props.C09.step_claimed_exact
#print axioms LP.Props.C09.step_claimed_mono
#print axioms LP.Props.C09.run_claimed_mono
#print axioms LP.Props.C09.second_claim_rejected
#print axioms LP.Props.C09.claim_once

#print axioms LP.Props.C09.claim_stage_selected
#print axioms LP.Props.C09.rangeLen_mem
#print axioms LP.Props.C09.txc_s
#print axioms LP.Props.C09.txc_o
#print axioms LP.Props.C09.step_claim_ok_iff
#print axioms LP.Props.C09.winCount_of_range
#print axioms LP.Props.C09.hasLock_not_nft
#print axioms LP.Props.C09.claim_sets_claimed
