import LP.Proofs.FrameFlags
import LP.Props.C17
/-
  C06 (history half) — along any history of transactions with non-decreasing rounds the lifecycle
  stage never moves backwards.  Uses the frame of `cfg` (LP.Proofs.Frame), "flags only gain"
  (LP.Proofs.FrameFlags) and the stage lemmas of LP.Proofs.Stage.
-/
namespace LP.Props.C06
open LP LP.Props.C17

/-- the stage seen at round `r` in the start state is at most the stage seen by any later
    transaction `(e', c')` of a history with non-decreasing rounds `≥ r` -/
theorem stage_mono_from (hash : List Nat → List Nat) : ∀ (p : Hist) (s : State) (r : Nat) (e' : Env) (c' : Call),
    RoundsFrom r (p ++ [(e', c')]) →
    (stageOf r s.cfg s.flags).toNat ≤ ((run hash s p).stage e').toNat
  | [], s, r, e', c', ⟨h1, _⟩ => stageOf_mono_raw s.cfg h1 (Flags.gain_refl _)
  | (e, c) :: rest, s, r, e', c', ⟨h1, h2⟩ => by
    have h0 : (stageOf r s.cfg s.flags).toNat ≤ (s.stage e).toNat :=
      stageOf_mono_raw s.cfg h1 (Flags.gain_refl _)
    simp only [run]
    cases h : step hash s e c with
    | error err => exact Nat.le_trans h0 (stage_mono_from hash rest s e.round e' c' h2)
    | ok x =>
      obtain ⟨s', o⟩ := x
      have h3 := step_stage_mono h (Nat.le_refl e.round)
      exact Nat.le_trans h0 (Nat.le_trans h3 (stage_mono_from hash rest s' e.round e' c' h2))

/-- **C06, histories**: in a history with non-decreasing rounds, a later transaction never sees an
    earlier stage than an earlier transaction did (rejected transactions included) -/
theorem stage_never_decreases_in_history (hash : List Nat → List Nat) (s : State) (r0 : Nat)
    (p q rest : Hist) (e e' : Env) (c c' : Call)
    (hr : RoundsFrom r0 (p ++ (e, c) :: (q ++ (e', c') :: rest))) :
    ((run hash s p).stage e).toNat ≤ ((run hash s (p ++ (e, c) :: q)).stage e').toNat := by
  have hr1 : RoundsFrom r0 ((e, c) :: (q ++ (e', c') :: rest)) := RoundsFrom.append_right hr
  have hr2 : RoundsFrom e.round (((e, c) :: q) ++ [(e', c')]) := by
    have : RoundsFrom e.round (((e, c) :: q) ++ ([(e', c')] ++ rest)) := ⟨Nat.le_refl _, by simpa using hr1.2⟩
    rw [← List.append_assoc] at this
    exact RoundsFrom.append_left this
  rw [run_append hash p ((e, c) :: q) s]
  exact stage_mono_from hash ((e, c) :: q) (run hash s p) e.round e' c' hr2

/-- corollary: once a transaction has seen a stage other than AddTickets, no later transaction sees
    AddTickets again (the form used by C17.5) -/
theorem addTickets_never_returns (hash : List Nat → List Nat) (s : State) (r0 : Nat)
    (p q rest : Hist) (e e' : Env) (c c' : Call)
    (hr : RoundsFrom r0 (p ++ (e, c) :: (q ++ (e', c') :: rest)))
    (hst : (run hash s p).stage e ≠ .addTickets) :
    (run hash s (p ++ (e, c) :: q)).stage e' ≠ .addTickets := by
  have h := stage_never_decreases_in_history hash s r0 p q rest e e' c c' hr
  intro h2
  rw [h2] at h
  cases h3 : (run hash s p).stage e <;> simp_all [Stage.toNat]

/-- non-vacuity: a three-transaction history with non-decreasing rounds -/
example : RoundsFrom 0 ([] ++ (({ caller := 1, round := 2 } : Env), Call.pause) ::
    ([(({ caller := 1, round := 6 } : Env), Call.unpause)] ++ (({ caller := 1, round := 7 } : Env), Call.filter) :: [])) := by
  simp [RoundsFrom]

end LP.Props.C06

#print axioms LP.Props.C06.stage_mono_from
#print axioms LP.Props.C06.stage_never_decreases_in_history
#print axioms LP.Props.C06.addTickets_never_returns
