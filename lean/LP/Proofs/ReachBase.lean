import LP.Proofs.ReachClaim
/-
  LP.Proofs.ReachBase — reachable states of the plain launchpad (`Variant.base`, and
  `Variant.locked`, which differs only in how launchpad tokens are sent at claim) and the
  inductive invariant `WF` over them:

      init_WF   (LP/Proofs/ReachWF.lean)   deployment establishes `WF`
      call_WF                               every accepted call keeps `WF`
      wait_WF   (LP/Proofs/ReachWF.lean)   the passing of time keeps `WF`
      reach_WF                              hence `WF` holds in every reachable state

  Restriction (explicit in the `call` constructor through `CallOK`): every entry of an
  `addTickets` call allocates at least one ticket.  Zero-size allocations (empty range
  `[f, f-1]`, batch slot overwritten by the next allocation) are excluded; they are documented
  elsewhere as a separate non-defect.
-/
namespace LP
open LP.FY

/-- the endpoints the plain variants do not expose are rejected by the dispatcher -/
theorem rb_exposed {hash : List Nat → List Nat} {s s' : State} {e : Env} {c : Call} {o : Out}
    (hv : Plain s.variant) (hs : step hash s e c = .ok (s', o)) :
    match c with
    | .addTicketsV1 _ | .addTicketsV2 _ | .refundUsers _ | .unblacklist _ | .distribute
    | .setSchedule1 .. | .setSchedule2 _ | .confirmNft | .selectNft | .secondary | .setNftCost _
    | .issueSft | .createSfts | .setTransferRole _ | .sftSetup => False
    | _ => True := by
  obtain ⟨m, t, hm, _⟩ := step_ok_inv hs
  rcases hv with hv | hv <;> rw [hv] at hm <;> cases c <;> first | trivial | (simp [endpointMeta, Variant.v1Alloc, Variant.isV2, Variant.hasUnblacklist, Variant.hasGuaranteed, Variant.hasNft] at hm)

/-- **preservation**: every accepted call of a plain launchpad keeps the invariant -/
theorem call_WF {T0 : Nat} {hash : List Nat → List Nat} {s s' : State} {e : Env} {c : Call} {o : Out}
    {r : Nat} (h : WF T0 s r) (hr : r ≤ e.round) (hok : EnvOK e) (hc : CallOK c)
    (hs : step hash s e c = .ok (s', o)) : WF T0 s' e.round := by
  have hex := rb_exposed h.var hs
  cases c with
  | addTickets l => exact rb_addTickets h hr hc hs
  | deposit => exact rb_deposit h hr hok hs
  | setTicketPrice tok a => exact rb_setTicketPrice h hr hs
  | setPerTicket a => exact rb_setPerTicket h hr hs
  | setConfStart x => exact rb_setConfStart h hr hs
  | setSelStart x => exact rb_setSelStart h hr hs
  | setClaimStart x => exact rb_setClaimStart h hr hs
  | setSupport a => exact rb_setSupport h hr hs
  | pause => exact rb_pause h hr hs
  | unpause => exact rb_unpause h hr hs
  | confirm n => exact rb_confirm h hr hok hs
  | filter => exact rb_filter h hr hs
  | select => exact rb_select h hr hs
  | claim => exact rb_claim h hr hs
  | claimPayment => exact rb_claimPayment h hr hs
  | blacklist l => exact rb_blacklist h hr hs
  | _ => exact absurd hex id

/-! ### reachable states -/

/-- states reachable from a deployment with arguments `a0`, paired with the round of the latest
    transaction (`wait` lets rounds pass without a transaction) -/
inductive ReachA (hash : List Nat → List Nat) (v : Variant) (a0 : InitArgs) : State → Nat → Prop
  | init (e : Env) (s : State) : init v a0 e = .ok s → ReachA hash v a0 s e.round
  | call (s : State) (r : Nat) (e : Env) (c : Call) (s' : State) (o : Out) :
      ReachA hash v a0 s r → r ≤ e.round → EnvOK e → CallOK c →
      step hash s e c = .ok (s', o) → ReachA hash v a0 s' e.round
  | wait (s : State) (r r' : Nat) : ReachA hash v a0 s r → r ≤ r' → ReachA hash v a0 s r'

/-- states reachable by the launchpad `v` from any deployment -/
inductive Reach (hash : List Nat → List Nat) (v : Variant) : State → Nat → Prop
  | init (a : InitArgs) (e : Env) (s : State) : init v a e = .ok s → Reach hash v s e.round
  | call (s : State) (r : Nat) (e : Env) (c : Call) (s' : State) (o : Out) :
      Reach hash v s r → r ≤ e.round → EnvOK e → CallOK c →
      step hash s e c = .ok (s', o) → Reach hash v s' e.round
  | wait (s : State) (r r' : Nat) : Reach hash v s r → r ≤ r' → Reach hash v s r'

theorem Reach_iff {hash : List Nat → List Nat} {v : Variant} {s : State} {r : Nat} :
    Reach hash v s r ↔ ∃ a0, ReachA hash v a0 s r := by
  constructor
  · intro h
    induction h with
    | init a e s h => exact ⟨a, .init e s h⟩
    | call s r e c s' o _ h1 h2 h3 h4 ih =>
      obtain ⟨a0, ih⟩ := ih
      exact ⟨a0, .call s r e c s' o ih h1 h2 h3 h4⟩
    | wait s r r' _ h1 ih =>
      obtain ⟨a0, ih⟩ := ih
      exact ⟨a0, .wait s r r' ih h1⟩
  · rintro ⟨a0, h⟩
    induction h with
    | init e s h => exact .init a0 e s h
    | call s r e c s' o _ h1 h2 h3 h4 ih => exact .call s r e c s' o ih h1 h2 h3 h4
    | wait s r r' _ h1 ih => exact .wait s r r' ih h1

/-- the invariant holds in every reachable state of a plain launchpad -/
theorem reach_WF {hash : List Nat → List Nat} {v : Variant} (hv : Plain v) {a0 : InitArgs}
    {s : State} {r : Nat} (h : ReachA hash v a0 s r) : WF a0.nrWinning s r := by
  induction h with
  | init e s h => exact init_WF hv h
  | call s r e c s' o _ h1 h2 h3 h4 ih => exact call_WF ih h1 h2 h3 h4
  | wait s r r' _ h1 ih => exact wait_WF ih h1

end LP

#print axioms LP.init_WF
#print axioms LP.call_WF
#print axioms LP.wait_WF
#print axioms LP.reach_WF
