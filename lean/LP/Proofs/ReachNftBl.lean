import LP.Proofs.ReachNftEasy
/-
  LP.Proofs.ReachNftBl — preservation of `nf_WF` by `addUsersToBlacklist` of `Variant.nft`:
  the ticket payments of the listed users are refunded and, for those who had paid the NFT fee,
  the fee as well (`refundNftMany`); both ledgers move by exactly the refunded amounts.
-/
namespace LP
open LP.FY LP.Events LP.Props.C14

/-- `refundNftMany` rewrites only `payers` and `bal` -/
theorem nf_refundNftMany_shape : ∀ (l : List Nat) {t t' : Tx}, refundNftMany l t = .ok t' →
    ∃ P B, t'.s = { t.s with payers := P, bal := B }
  | [], t, t', h => by
    simp only [refundNftMany, Except.ok.injEq] at h
    subst h
    exact ⟨_, _, rfl⟩
  | u :: rest, t, t', h => by
    unfold refundNftMany at h
    simp only at h
    split at h
    · split at h
      · cases h
      · rename_i t1 h1
        rw [send_ok_iff] at h1
        obtain ⟨_, rfl⟩ := h1
        obtain ⟨P, B, hs⟩ := nf_refundNftMany_shape rest h
        exact ⟨P, B, by rw [hs]; rfl⟩
    · exact nf_refundNftMany_shape rest h

theorem nf_blacklist {T0 : Nat} {hash : List Nat → List Nat} {s s' : State} {e : Env} {o : Out}
    {r : Nat} {l : List Nat} (h : nf_WF T0 s r) (hr : r ≤ e.round)
    (hs : step hash s e (.blacklist l) = .ok (s', o)) : nf_WF T0 s' e.round := by
  obtain ⟨t, hx, rfl⟩ := rb_step_np (by intro m hm; simp [endpointMeta] at hm; rw [← hm]) hs
  obtain ⟨_, hv3, hv1, hv2, _⟩ := nf_flags h.var
  simp only [exec, bind_ok_iff] at hx
  obtain ⟨t1, h1, hx⟩ := hx
  obtain ⟨_, hstage, hnd, hall, hle, rfl⟩ := (addUsersToBlacklist_ok_iff _ _ _ _).mp h1
  have hvar : (blTx (rbTx s e) e l).s.variant = s.variant := rfl
  simp only [hvar, hv1, hv2, hv3, Bool.false_eq_true, if_false, if_true, pure_bind, bind_ok_iff] at hx
  obtain ⟨t2, h2, hx⟩ := hx
  obtain ⟨P, B, hshape⟩ := nf_refundNftMany_shape l h2
  have hvar2 : t2.s.variant = s.variant := by rw [hshape]; rfl
  simp only [hvar2, hv1, Bool.false_eq_true, if_false, pure_ok_iff] at hx
  subst hx
  simp only [rbTx_s] at hstage hall hle
  have hns : s.flags.started = false := by
    have hstage' : s.stage e = .addTickets ∨ s.stage e = .confirm := hstage
    rcases hstage' with h1 | h1
    · exact nf_notStarted_of_lt h hr (Or.inl (rb_stage_addTickets h1))
    · exact nf_notStarted_of_lt h hr (Or.inr (rb_stage_confirm h1).2)
  obtain ⟨hna, hnsel, L0, hp, ha⟩ := nf_phase_notStarted h.phase hns
  obtain ⟨hna', _, hw0⟩ := nf_early_side h hns
  have hs0 := h.side
  -- the effect of the fee refunds
  have hbs : (blTx (rbTx s e) e l).s = blState s l := rfl
  obtain ⟨a1, a2, _, _, _, _, a7⟩ := refundNftMany_recon l h2
  obtain ⟨_, hPnd, hPmem, _⟩ := refundNftMany_exact l _ _ (by rw [hbs]; exact hs0.nodupP) hnd h2
  rw [hbs] at a1 a2 a7 hPmem
  have hP2 : t2.s.payers = P := by rw [hshape]
  have hB2 : t2.s.bal = B := by rw [hshape]
  rw [hP2] at a1 a2 hPmem hPnd
  rw [hB2] at a1 a7
  have hbsP : (blState s l).payers = s.payers := rfl
  have hbsC : (blState s l).nftCost = s.nftCost := rfl
  have hbsB : (blState s l).bal = s.bal.sub s.payTok 0 (s.price * blConfSum s l) := rfl
  rw [hbsP, hbsC, hbsB] at a1
  rw [hbsP] at a2 hPmem
  rw [hbsC, hbsB] at a7
  -- the listed users are allocated
  have hall' : ∀ u ∈ l, u ∈ L0.map Prod.fst := by
    intro u hu
    apply Classical.byContradiction
    intro hnin
    have h1 : s.range u = none := hp.outR u hnin
    have h2 := (hall u hu).2
    have h2' : (s.range u).isSome = true := h2
    rw [h1] at h2'; cases h2'
  have hle' : s.price * blConfSum s l ≤ s.bal s.payTok 0 := hle
  have hsum := rb_sumOver_blacklist l s.confirmed (L0.map Prod.fst) hp.ok.nodup hnd hall'
  have hpay : (nf_side s).tix = s.price * sumOver s.confirmed (L0.map Prod.fst) := hp.pay
  have hXle : s.price * blConfSum s l ≤ (nf_side s).tix := by
    rw [hpay]; unfold blConfSum; rw [← hsum, Nat.mul_add]; omega
  -- the two liabilities
  have hheld : (nf_side s).held = s.nftCost.amount * s.payers.length := by
    simp [nf_Side.held, nf_side, hna', hw0]
  have hs' : t2.s = { blState s l with payers := P, bal := B } := hshape
  have hheld' : (nf_side { blState s l with payers := P, bal := B }).held
      = s.nftCost.amount * P.length := by
    simp only [nf_Side.held, nf_side]
    have e1 : (blState s l).flags.additional = false := hna'
    have e2 : (blState s l).nftWinners = [] := hw0
    simp [e1, e2, hbsC]
  have hsame : (nf_side { blState s l with payers := P, bal := B }).same ↔ (nf_side s).same := Iff.rfl
  have hisLp : (nf_side { blState s l with payers := P, bal := B }).isLp ↔ (nf_side s).isLp := Iff.rfl
  have hmul : s.nftCost.amount * P.length ≤ s.nftCost.amount * s.payers.length :=
    Nat.mul_le_mul_left _ a2
  have hsubpay : (s.bal.sub s.payTok 0 (s.price * blConfSum s l)) s.payTok 0
      = s.bal s.payTok 0 - s.price * blConfSum s l := by simp [Bal.sub]
  -- the ticket part drops by exactly the ticket refunds; fees stay covered
  have hkey : (nf_side { blState s l with payers := P, bal := B }).tix
        = (nf_side s).tix - s.price * blConfSum s l ∧
      ((nf_side s).same → s.nftCost.amount * P.length ≤ B s.payTok 0) := by
    by_cases hsm : (nf_side s).same
    · have hsm' : s.nftCost.tok = s.payTok ∧ s.nftCost.nonce = 0 := hsm
      have hfl := hs0.feeLe hsm
      rw [hheld] at hfl
      have hfl' : s.nftCost.amount * s.payers.length ≤ s.bal s.payTok 0 := hfl
      rw [hsm'.1, hsm'.2, hsubpay] at a1
      have htx : (nf_side s).tix = s.bal s.payTok 0 - s.nftCost.amount * s.payers.length := by
        unfold nf_Side.tix nf_Side.feeIn; rw [if_pos hsm, hheld]; rfl
      rw [htx] at hXle
      refine ⟨?_, fun _ => by omega⟩
      unfold nf_Side.tix nf_Side.feeIn
      rw [if_pos (hsame.mpr hsm), if_pos hsm, hheld', hheld]
      show B s.payTok 0 - _ = s.bal s.payTok 0 - _ - _
      omega
    · refine ⟨?_, fun hh => absurd hh hsm⟩
      have hsm' : ¬ (s.payTok = s.nftCost.tok ∧ 0 = s.nftCost.nonce) := by
        intro hh; exact hsm ⟨hh.1.symm, hh.2.symm⟩
      unfold nf_Side.tix nf_Side.feeIn
      rw [if_neg (fun hh => hsm (hsame.mp hh)), if_neg hsm]
      show B s.payTok 0 - 0 = s.bal s.payTok 0 - 0 - _
      rw [a7 _ _ hsm', hsubpay]; omega
  obtain ⟨htix, hcover⟩ := hkey
  rw [hs']
  refine ⟨h.var, h.pricePos, h.tokNe, ?_, ?_, ?_, ?_⟩
  · intro hlt a
    show (if a ∈ l then 0 else s.confirmed a) = 0
    split
    · rfl
    · exact h.tlConf (by have : e.round < s.cfg.conf := hlt; omega) a
  · intro hst2
    have := h.tlStarted hst2
    show s.cfg.conf ≤ e.round ∧ s.cfg.sel ≤ e.round
    omega
  · left
    refine ⟨hna, hnsel, Or.inl ⟨L0, ⟨hp.notFiltered, hp.notSelected, hp.nrw, hp.status0, hp.pos0,
      ⟨hp.ok.nodup, hp.ok.pos, ?_⟩, ?_, hp.outR, ?_⟩,
      Or.inl ⟨ha.notStarted, ha.op, ha.chain, ha.last⟩⟩⟩
    · intro p hp1
      show (if p.1 ∈ l then 0 else s.confirmed p.1) ≤ p.2
      split
      · omega
      · exact hp.ok.le p hp1
    · intro a ha1
      show (if a ∈ l then 0 else s.confirmed a) = 0
      split
      · rfl
      · exact hp.outC a ha1
    · show (nf_side { blState s l with payers := P, bal := B }).tix
        = s.price * sumOver (fun a => if a ∈ l then 0 else s.confirmed a) (L0.map Prod.fst)
      rw [htix, hpay]
      unfold blConfSum
      rw [← hsum, Nat.mul_add]
      omega
  · refine ⟨?_, ?_, ?_, hPnd, hs0.nodupW, ?_, hs0.winLe, ?_, hs0.fresh, ?_, hs0.noWin⟩
    rotate_right
    · intro a hcl
      have hcl' : s.claimed a = true := hcl
      have : s.claimed a = false := hs0.fresh hna a
      rw [this] at hcl'; cases hcl'
    · intro t k b1 b2 b3
      show B t k = 0
      have b3' : ¬ (t = s.nftCost.tok ∧ k = s.nftCost.nonce) := b3
      have b1' : ¬ (t = s.payTok ∧ k = 0) := b1
      rw [a7 t k b3']
      simp only [Bal.sub, b1', if_false]
      exact hs0.balOther t k b1 b2 b3
    · intro hsm
      rw [hheld']
      exact hcover (hsame.mp hsm)
    · intro b1 b2
      have b1' : ¬ (nf_side s).same := fun hh => b1 (hsame.mpr hh)
      have b1'' : ¬ (s.nftCost.tok = s.payTok ∧ s.nftCost.nonce = 0) := b1'
      have := hs0.feeEq b1' (fun hh => b2 (hisLp.mpr hh))
      rw [hheld] at this
      have this' : s.bal s.nftCost.tok s.nftCost.nonce = s.nftCost.amount * s.payers.length := this
      rw [hheld']
      show B s.nftCost.tok s.nftCost.nonce = _
      have hsb : (s.bal.sub s.payTok 0 (s.price * blConfSum s l)) s.nftCost.tok s.nftCost.nonce
          = s.bal s.nftCost.tok s.nftCost.nonce := by
        simp only [Bal.sub, b1'', if_false]
      rw [hsb, this'] at a1
      omega
    · intro a _
      show a ∉ s.nftWinners
      rw [hw0]; simp
    · intro a ha1
      show 0 < (if a ∈ l then 0 else s.confirmed a)
      have ha1' : a ∈ P ∨ a ∈ s.nftWinners := ha1
      rcases ha1' with ha1' | ha1'
      · obtain ⟨m1, m2⟩ := (hPmem a).mp ha1'
        rw [if_neg m2]
        exact hs0.conf a (Or.inl m1)
      · rw [hw0] at ha1'; cases ha1'

end LP
