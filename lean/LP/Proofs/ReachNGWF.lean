import LP.Proofs.ReachV1Frame
import LP.Proofs.ReachNftFrame
/-
  LP.Proofs.ReachNGWF — the inductive invariant `ng_WF T0 s r` of `Variant.nftGuar`
  (launchpad-nft-and-guaranteed-tickets), its establishment by `init` and its preservation by the
  passing of time.

  The invariant COMBINES the two earlier developments:

  * the ticket space, the reserve and the ticket-payment ledger are the v1 phases `v1_PhaseC`
    (`LP/Proofs/ReachV1WF.lean`: `Pre`/`PhA`/`PhB` with `v1_GX`/`v1_GW`, `PhC`, `v1_PhE`, `PhD`) —
    but over the projection `nf_core s` of the NFT development (`LP/Proofs/ReachNftWF.lean`), whose
    `payBal` is the TICKET part of the payment-token holdings (`bal payTok 0` minus the NFT fees
    held in the same slot), so that ONE invariant covers every token configuration;
  * one more phase `ng_PhF` between the completion of the guaranteed-ticket sub-step of
    `secondary` (then `creditAdditional` has run: the post-selection facts `PhD` hold up to the
    saved operation) and the completion of the NFT draw: `op = additional (nft rng)`,
    `flags.additional = false`, both ledger equations hold, and the ticket side is already final
    (`nrWinning = min T0 lastTicketId` = number of flags, proceeds = price × winners, every
    guarantee honoured);
  * the fee ledger and the facts on the two NFT lists are `nf_SideInv (nf_side s)` unchanged;
  * `noWinE`: nobody is drawn before the guaranteed-ticket sub-step is complete;
  * the launchpad-token coverage `lp` of the v1 development (`ng_owed`: outstanding winners plus,
    until the guaranteed-ticket sub-step is complete, the reserve), which holds as long as the NFT fee is
    NOT kept in the launchpad-token slot (`ng_LpSep`: the fee slot differs from the launchpad
    slot, or nobody can have paid a fee yet because the confirmation period has not begun).  With
    the fee in the launchpad-token slot `claimPayment` sends the "surplus" — fees included — to
    the owner, so nothing can be claimed there (as in the NFT development).
-/
namespace LP
open LP.FY LP.Props.C14

theorem ng_flags {v : Variant} (hv : v = .nftGuar) :
    v.vested = false ∧ v.hasNft = true ∧ v.isV2 = false ∧ v.v1Alloc = true ∧ v.hasLock = false ∧
    v.hasGuaranteed = true ∧ v.hasUnblacklist = false ∧ v.noAdditionalStep = false := by
  subst hv; exact ⟨rfl, rfl, rfl, rfl, rfl, rfl, rfl, rfl⟩

/-! ### the phases -/

/-- phase F: the guaranteed-ticket sub-step is complete (winners and proceeds credited), the NFT
    draw is not; nothing has moved a token, so both ledger equations hold -/
structure ng_PhF (T0 : Nat) (c : Core) (g : v1_G) : Prop where
  notDone : c.flags.additional = false
  post : PhD { c with op := .none }
  pre : ∃ L : List Nat, L.Nodup ∧ (∀ a, c.confirmed a ≠ 0 → a ∈ L) ∧ PayPre c L
  /-- the ticket side is final: winners, their number, the proceeds, honoured guarantees -/
  nrw : c.nrWinning = min T0 c.lastTicketId
  count : countTrue c.status c.lastTicketId = c.nrWinning
  claimable : c.claimable = c.price * c.nrWinning
  inside : ∀ t, c.status t = true → 1 ≤ t ∧ t ≤ c.lastTicketId
  hon : ∀ u st, g.uts u = some st → v1_Hon c g u st

/-- the phases of the launchpad with guaranteed tickets and NFT draw: those of the v1 guaranteed
    launchpad, or phase F with the draw's generator saved -/
def ng_Phase (T0 : Nat) (c : Core) (g : v1_G) : Prop :=
  v1_PhaseC T0 c g ∨ (ng_PhF T0 c g ∧ ∃ r, c.op = .additional (.nft r))

/-- the launchpad-token ledger is separate from the fee ledger: the fee slot is not the
    launchpad-token slot, or the confirmation period has not begun (nobody has paid a fee) -/
def ng_LpSep (s : State) (r : Nat) : Prop := ¬ (nf_side s).isLp ∨ r < s.cfg.conf

/-- launchpad tokens that may still have to be paid out: as `v1_owed` (outstanding winners plus,
    until the guaranteed-ticket sub-step is complete, the whole reserve); once the sub-step is
    complete (the draw's generator is saved) the reserve has been turned into winners -/
def ng_owed (s : State) : Nat :=
  match s.op with
  | .additional (.nft _) => s.nrWinning
  | _ => v1_owed s

theorem ng_owed_of_not {s : State} (hop : ∀ rg, s.op ≠ .additional (.nft rg)) :
    ng_owed s = v1_owed s := by
  unfold ng_owed
  split
  · rename_i rg h; exact absurd h (hop rg)
  · rfl

theorem ng_owed_nft {s : State} {rg : Rng} (hop : s.op = .additional (.nft rg)) :
    ng_owed s = s.nrWinning := by
  unfold ng_owed; rw [hop]

theorem ng_owed_le (s : State) : ng_owed s ≤ v1_owed s := by
  unfold ng_owed
  split
  · unfold v1_owed; omega
  · exact Nat.le_refl _

theorem ng_owed_congr {s s' : State} (h1 : s'.op = s.op) (h2 : s'.nrWinning = s.nrWinning)
    (h3 : s'.flags = s.flags) (h4 : s'.totalGuaranteed = s.totalGuaranteed) :
    ng_owed s' = ng_owed s := by
  unfold ng_owed v1_owed; rw [h1, h2, h3, h4]

/-- the inductive invariant of `Variant.nftGuar`; `T0` = winners configured at deployment, `r` =
    round of the latest transaction -/
structure ng_WF (T0 : Nat) (s : State) (r : Nat) : Prop where
  var : s.variant = .nftGuar
  pricePos : 0 < s.price
  tokNe : s.payTok ≠ .esdt s.lpTok
  static : 0 < s.minConfirmed
  tlConf : r < s.cfg.conf → ∀ a, s.confirmed a = 0
  tlStarted : s.flags.started = true → s.cfg.conf ≤ r ∧ s.cfg.sel ≤ r
  lp : ng_LpSep s r → s.deposited = true → s.perTicket * ng_owed s ≤ s.bal (.esdt s.lpTok) 0
  noWinE : s.flags.additional = false → (∀ rg, s.op ≠ .additional (.nft rg)) → s.nftWinners = []
  phase : ng_Phase T0 (nf_core s) (v1_gv s)
  side : nf_SideInv (nf_side s)

/-! ### extraction of the phase from the flags -/

theorem ng_phase_notStarted {T0 : Nat} {c : Core} {g : v1_G} (h : ng_Phase T0 c g)
    (hs : c.flags.started = false) :
    c.flags.additional = false ∧ g.tg ≤ T0 ∧ ∃ L0, Pre (T0 - g.tg) c L0 ∧ PhA c L0 ∧ v1_GX c g := by
  rcases h with h | ⟨hF, _⟩
  · exact v1_phase_notStarted h hs
  · have : c.flags.started = true := hF.post.started
    rw [hs] at this; cases this

theorem ng_phase_notFiltered {T0 : Nat} {c : Core} {g : v1_G} (h : ng_Phase T0 c g)
    (hs : c.flags.filtered = false) :
    c.flags.additional = false ∧ g.tg ≤ T0 ∧
      ∃ L0, Pre (T0 - g.tg) c L0 ∧ ((PhA c L0 ∧ v1_GX c g) ∨ (PhB c L0 ∧ v1_GW g)) := by
  rcases h with h | ⟨hF, _⟩
  · exact v1_phase_notFiltered h hs
  · have : c.flags.filtered = true := hF.post.filtered
    rw [hs] at this; cases this

theorem ng_phase_C {T0 : Nat} {c : Core} {g : v1_G} (h : ng_Phase T0 c g)
    (hf : c.flags.filtered = true) (hs : c.flags.selected = false) :
    c.flags.additional = false ∧ g.tg ≤ T0 ∧ PhC (T0 - g.tg) c ∧ v1_GW g := by
  rcases h with h | ⟨hF, _⟩
  · exact v1_phase_C h hf hs
  · have : c.flags.selected = true := hF.post.selected
    rw [hs] at this; cases this

/-- lottery complete, additional step not: the guaranteed-ticket sub-step is in progress (phase E)
    or complete (phase F, the draw's generator saved) -/
theorem ng_phase_sel {T0 : Nat} {c : Core} {g : v1_G} (h : ng_Phase T0 c g)
    (hs : c.flags.selected = true) (ha : c.flags.additional = false) :
    (g.tg ≤ T0 ∧ v1_PhE T0 c g) ∨ (ng_PhF T0 c g ∧ ∃ r, c.op = .additional (.nft r)) := by
  rcases h with h | hF
  · exact Or.inl (v1_phase_E h hs ha)
  · exact Or.inr hF

theorem ng_phase_D {T0 : Nat} {c : Core} {g : v1_G} (h : ng_Phase T0 c g)
    (ha : c.flags.additional = true) : PhD c := by
  rcases h with h | ⟨hF, _⟩
  · exact v1_phase_D h ha
  · rw [hF.notDone] at ha; cases ha

/-- in phase E the saved operation is none or the guaranteed-ticket cursor -/
theorem ng_PhE_op {T0 : Nat} {c : Core} {g : v1_G} (hE : v1_PhE T0 c g) (r : Rng) :
    c.op ≠ .additional (.nft r) := by
  obtain ⟨lo, off, add, hop, _⟩ := hE.dist
  rcases hop with ⟨h0, _⟩ | ⟨rng, h0⟩ <;> (rw [h0]; intro hh; cases hh)

theorem ng_notStarted_of_lt {T0 : Nat} {s : State} {r : Nat} (h : ng_WF T0 s r) {n : Nat}
    (hr : r ≤ n) (hlt : n < s.cfg.conf ∨ n < s.cfg.sel) : s.flags.started = false := by
  cases hs : s.flags.started with
  | false => rfl
  | true => have := h.tlStarted hs; omega

/-- before the filter starts: flags clear, nobody drawn -/
theorem ng_early_side {T0 : Nat} {s : State} {r : Nat} (h : ng_WF T0 s r)
    (hns : s.flags.started = false) :
    s.flags.additional = false ∧ s.flags.selected = false ∧ s.nftWinners = [] := by
  obtain ⟨h1, _, L0, hp, _⟩ := ng_phase_notStarted h.phase hns
  exact ⟨h1, hp.notSelected, h.side.noWin hp.notSelected⟩

/-- in the AddTickets stage nobody has paid a fee -/
theorem ng_no_payers {T0 : Nat} {s : State} {r : Nat} (h : ng_WF T0 s r) {n : Nat} (hr : r ≤ n)
    (hlt : n < s.cfg.conf) : s.payers = [] ∧ s.nftWinners = [] := by
  have hz := h.tlConf (by omega)
  constructor
  · cases hp : s.payers with
    | nil => rfl
    | cons a rest =>
      have := h.side.conf a (Or.inl (by show a ∈ s.payers; rw [hp]; simp))
      have h0 : s.confirmed a = 0 := hz a
      have : 0 < s.confirmed a := this
      omega
  · cases hp : s.nftWinners with
    | nil => rfl
    | cons a rest =>
      have := h.side.conf a (Or.inr (by show a ∈ s.nftWinners; rw [hp]; simp))
      have h0 : s.confirmed a = 0 := hz a
      have : 0 < s.confirmed a := this
      omega

/-- the v1 phases never save the draw's generator -/
theorem ng_op_not_nft {T0 : Nat} {c : Core} {g : v1_G} (h : v1_PhaseC T0 c g) (rg : Rng) :
    c.op ≠ .additional (.nft rg) := by
  rcases h with ⟨_, _, ⟨L0, _, ⟨hA, _⟩ | ⟨hB, _⟩⟩ | ⟨hC, _⟩ | hE⟩ | ⟨_, hD⟩
  · rw [hA.op]; nofun
  · obtain ⟨f, rm, hop, _⟩ := hB.mid
    rw [hop]; nofun
  · rcases hC.sel with ⟨hop, _⟩ | ⟨rng, pos, arr, hop, _⟩ <;> (rw [hop]; nofun)
  · exact ng_PhE_op hE rg
  · rw [hD.op]; nofun

/-- before the base lottery is complete the coverage has the `v1_owed` form -/
theorem ng_lp_of_notSel {T0 : Nat} {s : State} {r : Nat} (h : ng_WF T0 s r)
    (hns : s.flags.selected = false) :
    ng_LpSep s r → s.deposited = true → s.perTicket * v1_owed s ≤ s.bal (.esdt s.lpTok) 0 := by
  intro h1 h2
  have hop : ∀ rg, s.op ≠ .additional (.nft rg) := by
    rcases h.phase with hp | ⟨hF, _⟩
    · exact ng_op_not_nft hp
    · have : s.flags.selected = true := hF.post.selected
      rw [hns] at this; cases this
  rw [← ng_owed_of_not hop]
  exact h.lp h1 h2

/-! ### building the invariant -/

/-- the invariant from its parts, with the side projection given explicitly -/
theorem ng_WF_buildF {T0 : Nat} {s' : State} {r' : Nat} (p : nf_Side) (hside : nf_side s' = p)
    (hinv : nf_SideInv p) (hv : s'.variant = .nftGuar) (hprice : 0 < s'.price)
    (htok : s'.payTok ≠ .esdt s'.lpTok) (hst : 0 < s'.minConfirmed)
    (tl1 : r' < s'.cfg.conf → ∀ a, s'.confirmed a = 0)
    (tl2 : s'.flags.started = true → s'.cfg.conf ≤ r' ∧ s'.cfg.sel ≤ r')
    (hlp : ng_LpSep s' r' → s'.deposited = true →
      s'.perTicket * ng_owed s' ≤ s'.bal (.esdt s'.lpTok) 0)
    (hnw : s'.flags.additional = false → (∀ rg, s'.op ≠ .additional (.nft rg)) → s'.nftWinners = [])
    (hphase : ng_Phase T0 { s'.core with payBal := p.tix } (v1_gv s')) : ng_WF T0 s' r' :=
  ⟨hv, hprice, htok, hst, tl1, tl2, hlp, hnw, by unfold nf_core; rw [hside]; exact hphase,
    by rw [hside]; exact hinv⟩

/-- the same with the coverage given in the (stronger) `v1_owed` form -/
theorem ng_WF_build {T0 : Nat} {s' : State} {r' : Nat} (p : nf_Side) (hside : nf_side s' = p)
    (hinv : nf_SideInv p) (hv : s'.variant = .nftGuar) (hprice : 0 < s'.price)
    (htok : s'.payTok ≠ .esdt s'.lpTok) (hst : 0 < s'.minConfirmed)
    (tl1 : r' < s'.cfg.conf → ∀ a, s'.confirmed a = 0)
    (tl2 : s'.flags.started = true → s'.cfg.conf ≤ r' ∧ s'.cfg.sel ≤ r')
    (hlp : ng_LpSep s' r' → s'.deposited = true →
      s'.perTicket * v1_owed s' ≤ s'.bal (.esdt s'.lpTok) 0)
    (hnw : s'.flags.additional = false → (∀ rg, s'.op ≠ .additional (.nft rg)) → s'.nftWinners = [])
    (hphase : ng_Phase T0 { s'.core with payBal := p.tix } (v1_gv s')) : ng_WF T0 s' r' :=
  ng_WF_buildF p hside hinv hv hprice htok hst tl1 tl2
    (fun h1 h2 => Nat.le_trans (Nat.mul_le_mul_left _ (ng_owed_le s')) (hlp h1 h2)) hnw hphase

/-- transfer along unchanged projections -/
theorem ng_WF_of_proj {T0 : Nat} {s s' : State} {r r' : Nat} (h : ng_WF T0 s r)
    (hcore : s'.core = s.core) (hside : nf_side s' = nf_side s) (hgv : v1_gv s' = v1_gv s)
    (hv : s'.variant = s.variant)
    (htl1 : r' < s'.cfg.conf → ∀ a, s.confirmed a = 0)
    (htl2 : s.flags.started = true → s'.cfg.conf ≤ r' ∧ s'.cfg.sel ≤ r')
    (hlp : ng_LpSep s' r' → s'.deposited = true →
      s'.perTicket * ng_owed s ≤ s'.bal (.esdt s.lpTok) 0) : ng_WF T0 s' r' := by
  have hprice : s'.price = s.price := congrArg Core.price hcore
  have hflags : s'.flags = s.flags := congrArg Core.flags hcore
  have hconf : s'.confirmed = s.confirmed := congrArg Core.confirmed hcore
  have hnrw : s'.nrWinning = s.nrWinning := congrArg Core.nrWinning hcore
  have hop : s'.op = s.op := congrArg Core.op hcore
  have hp : s'.payTok = s.payTok := congrArg nf_Side.payTok hside
  have hl : s'.lpTok = s.lpTok := congrArg nf_Side.lpTok hside
  have hw : s'.nftWinners = s.nftWinners := congrArg nf_Side.winners hside
  have hmc : s'.minConfirmed = s.minConfirmed := congrArg v1_G.minConfirmed hgv
  have htg : s'.totalGuaranteed = s.totalGuaranteed := congrArg v1_G.tg hgv
  have hnc : nf_core s' = nf_core s := by unfold nf_core; rw [hcore, hside]
  refine ⟨by rw [hv]; exact h.var, by rw [hprice]; exact h.pricePos, by rw [hp, hl]; exact h.tokNe,
    by rw [hmc]; exact h.static, ?_, ?_, ?_, ?_, by rw [hnc, hgv]; exact h.phase,
    by rw [hside]; exact h.side⟩
  · intro h1; rw [hconf]; exact htl1 h1
  · intro h1; rw [hflags] at h1; exact htl2 h1
  · intro h1 hd
    have : ng_owed s' = ng_owed s := ng_owed_congr hop hnrw hflags htg
    rw [this, hl]; exact hlp h1 hd
  · rw [hflags, hop, hw]; exact h.noWinE

theorem ng_WF_same_cfg {T0 : Nat} {s s' : State} {r r' : Nat} (h : ng_WF T0 s r)
    (hcore : s'.core = s.core) (hside : nf_side s' = nf_side s) (hgv : v1_gv s' = v1_gv s)
    (hv : s'.variant = s.variant) (hcfg : s'.cfg = s.cfg) (hr : r ≤ r')
    (hdep : s'.deposited = s.deposited) (hpt : s'.perTicket = s.perTicket) : ng_WF T0 s' r' := by
  have hb : s'.bal = s.bal := congrArg nf_Side.bal hside
  apply ng_WF_of_proj h hcore hside hgv hv
  · intro h1; rw [hcfg] at h1; exact h.tlConf (by omega)
  · intro h1; rw [hcfg]; have := h.tlStarted h1; omega
  · intro h1 hd
    rw [hdep] at hd
    rw [hpt, hb]
    apply h.lp ?_ hd
    rcases h1 with h1 | h1
    · left; rw [hside] at h1; exact h1
    · right; rw [hcfg] at h1; omega

/-! ### deployment -/

/-- the freshly deployed launchpad -/
def ng_initState (a : InitArgs) (e : Env) : State :=
  { variant := .nftGuar, owner := e.caller, lpTok := a.lpTok, perTicket := a.perTicket,
    payTok := a.payTok, price := a.price, nrWinning := a.nrWinning,
    cfg := ⟨a.conf, a.sel, a.claim⟩, flags := { additional := false }, support := e.caller,
    minConfirmed := a.minConfirmed, nftCost := a.nftCost, availNfts := a.availNfts }

theorem ng_init_inv {a : InitArgs} {e : Env} {s : State} (h : init .nftGuar a e = .ok s) :
    0 < a.price ∧ 0 < a.nrWinning ∧ a.payTok ≠ .esdt a.lpTok ∧ 0 < a.availNfts ∧
    0 < a.minConfirmed ∧ s = ng_initState a e := by
  unfold init at h
  simp only [Variant.hasNft, Variant.v1Alloc, Variant.hasLock, Variant.noAdditionalStep, bind_ok_iff,
    req_ok_iff, pure_ok_iff, pure_bind,
    exists_const, if_true, if_false, Bool.false_eq_true, decide_eq_true_eq,
    bne_iff_ne, ne_eq, beq_iff_eq, bne_self_eq_false] at h
  lp_peel h
  subst h
  refine ⟨by omega, by omega, by assumption, by omega, by omega, rfl⟩

theorem ng_init_WF {a : InitArgs} {e : Env} {s : State} (h : init .nftGuar a e = .ok s) :
    ng_WF a.nrWinning s e.round := by
  obtain ⟨h1, h2, h3, h4, h5, rfl⟩ := ng_init_inv h
  have hheld : (nf_side (ng_initState a e)).held = 0 := by
    simp [nf_Side.held, nf_side, ng_initState]
  have hfee : (nf_side (ng_initState a e)).feeIn = 0 := by
    unfold nf_Side.feeIn; split
    · exact hheld
    · rfl
  refine ⟨rfl, h1, h3, h5, fun _ _ => rfl, nofun, nofun, fun _ _ => rfl, ?_, ?_⟩
  · left; left
    refine ⟨rfl, Nat.zero_le _, Or.inl ⟨[], ⟨rfl, rfl, rfl, rfl, rfl, ⟨List.nodup_nil, nofun, nofun⟩,
      fun _ _ => rfl, fun _ _ => rfl, ?_⟩, Or.inl ⟨⟨rfl, rfl, trivial, rfl⟩, ?_, nofun⟩⟩⟩
    · show (nf_side (ng_initState a e)).tix = a.price * sumOver (fun _ => 0) []
      unfold nf_Side.tix
      rw [hfee]
      simp [sumOver, nf_side, ng_initState]
    · exact (GuarInvX_initial (ng_initState a e) rfl rfl rfl rfl rfl).base
  · refine ⟨fun _ _ _ _ _ => rfl, fun _ => by rw [hheld]; exact Nat.zero_le _,
      fun _ _ => by rw [hheld]; rfl, List.nodup_nil, List.nodup_nil, nofun, Nat.zero_le _, ?_,
      fun _ _ => rfl, nofun, fun _ => rfl⟩
    intro a ha
    rcases ha with ha | ha <;> cases ha

/-! ### passing of time -/

theorem ng_wait_WF {T0 : Nat} {s : State} {r r' : Nat} (h : ng_WF T0 s r) (hr : r ≤ r') :
    ng_WF T0 s r' :=
  ⟨h.var, h.pricePos, h.tokNe, h.static, fun h1 => h.tlConf (by omega),
    fun h1 => by have := h.tlStarted h1; omega,
    fun h1 hd => h.lp (h1.imp id (fun h2 => by omega)) hd, h.noWinE, h.phase, h.side⟩

end LP
