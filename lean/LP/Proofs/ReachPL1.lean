import LP.Proofs.ReachFrame
import LP.Proofs.NftDraw
import LP.Props.C02
import LP.Props.C07
import LP.Props.C09
import LP.Props.C16
/-
  LP.Proofs.ReachPL1 — the launchpad-token side of the two plain launchpads (`Variant.base`,
  `Variant.locked`), part 1: what ONE accepted call does to the launchpad-token view of the state.

  * `pl_Base s`  : static facts every accepted call keeps (plain variant, payment token ≠ launchpad
                   token, `0 < perTicket`, `lockPct ≤ 10000`)                 — `pl_init_Base`, `pl_step_Base`
  * `pl_view s`  : (perTicket, deposited, filtered, selected, nrWinning, bal lpTok)
  * `pl_Tr K v v'` : (tagged with the kind `K` of endpoint) the seven ways an accepted call moves the view (nothing / selection completes /
                   setPerTicket before the deposit / THE deposit / the filter completes / a winner
                   settles / the owner withdraws)
  * `pl_step_Tr` : EVERY accepted call of a plain launchpad is one of them — no restriction on the
                   call, its arguments, its call value or its round
  * exact forms of the three calls that move launchpad tokens: `pl_deposit_exact`,
    `pl_claim_state`, `pl_cpc_exact`, `pl_claimPayment_exact` (state and outputs)
-/
namespace LP
open LP.FY LP.Events LP.Props.C09

/-! ### static facts -/

/-- static facts of a plain launchpad that every accepted call keeps -/
structure pl_Base (s : State) : Prop where
  var : Plain s.variant
  tokNe : s.payTok ≠ .esdt s.lpTok
  perPos : 0 < s.perTicket
  pct : s.lockPct ≤ 10000

theorem pl_step_variant {hash : List Nat → List Nat} {s s' : State} {e : Env} {c : Call} {o : Out}
    (h : step hash s e c = .ok (s', o)) : s'.variant = s.variant := by
  rcases step_static_cases h with ⟨_, h1⟩ | ⟨_, h1⟩
  · exact terms_variant (static_terms h1)
  · rw [h1]
    cases c <;> rfl

theorem pl_step_lpTok {hash : List Nat → List Nat} {s s' : State} {e : Env} {c : Call} {o : Out}
    (h : step hash s e c = .ok (s', o)) : s'.lpTok = s.lpTok := by
  rcases step_static_cases h with ⟨_, h1⟩ | ⟨_, h1⟩
  · exact terms_lpTok (static_terms h1)
  · rw [h1]
    cases c <;> rfl

theorem pl_step_lockPct {hash : List Nat → List Nat} {s s' : State} {e : Env} {c : Call} {o : Out}
    (h : step hash s e c = .ok (s', o)) : s'.lockPct = s.lockPct := by
  rcases step_static_cases h with ⟨_, h1⟩ | ⟨_, h1⟩
  · exact congrArg Terms.lockPct (static_terms h1)
  · rw [h1]
    cases c <;> rfl

theorem pl_step_lockAddr {hash : List Nat → List Nat} {s s' : State} {e : Env} {c : Call} {o : Out}
    (h : step hash s e c = .ok (s', o)) :
    s'.lockAddr = s.lockAddr ∧ s'.unlockEpoch = s.unlockEpoch := by
  rcases step_static_cases h with ⟨_, h1⟩ | ⟨_, h1⟩
  · exact ⟨congrArg Terms.lockAddr (static_terms h1), congrArg Terms.unlockEpoch (static_terms h1)⟩
  · rw [h1]
    cases c <;> exact ⟨rfl, rfl⟩

/-- every accepted call keeps "payment token ≠ launchpad token" (`setTicketPrice` checks it) -/
theorem pl_step_tokNe {hash : List Nat → List Nat} {s s' : State} {e : Env} {c : Call} {o : Out}
    (h : step hash s e c = .ok (s', o)) (hne : s.payTok ≠ .esdt s.lpTok) :
    s'.payTok ≠ .esdt s'.lpTok := by
  have hl := pl_step_lpTok h
  by_cases hc : ∃ tok a, c = .setTicketPrice tok a
  · obtain ⟨tok, a, rfl⟩ := hc
    obtain ⟨_, h2, _, _, _, h6⟩ := setTicketPrice_terms h
    rw [hl, h2]
    exact h6
  · rw [(price_frame h (fun tok a hp => hc ⟨tok, a, hp⟩)).2, hl]
    exact hne

/-- every accepted call keeps `0 < perTicket` (`setPerTicket` checks it) -/
theorem pl_step_perPos {hash : List Nat → List Nat} {s s' : State} {e : Env} {c : Call} {o : Out}
    (h : step hash s e c = .ok (s', o)) (hp : 0 < s.perTicket) : 0 < s'.perTicket := by
  by_cases hc : ∃ a, c = .setPerTicket a
  · obtain ⟨a, rfl⟩ := hc
    obtain ⟨_, h2, _, _, h5⟩ := setPerTicket_terms h
    rw [h2]; exact h5
  · rw [perTicket_frame h (fun a hp => hc ⟨a, hp⟩)]
    exact hp

theorem pl_step_Base {hash : List Nat → List Nat} {s s' : State} {e : Env} {c : Call} {o : Out}
    (hB : pl_Base s) (h : step hash s e c = .ok (s', o)) : pl_Base s' :=
  ⟨by rw [pl_step_variant h]; exact hB.var, pl_step_tokNe h hB.tokNe, pl_step_perPos h hB.perPos,
    by rw [pl_step_lockPct h]; exact hB.pct⟩

/-- deployment of a plain launchpad, the launchpad-token side -/
theorem pl_init_inv {v : Variant} (hv : Plain v) {a : InitArgs} {e : Env} {s : State}
    (h : init v a e = .ok s) :
    s.variant = v ∧ s.payTok = a.payTok ∧ s.lpTok = a.lpTok ∧ a.payTok ≠ .esdt a.lpTok ∧
    s.perTicket = a.perTicket ∧ 0 < a.perTicket ∧ s.nrWinning = a.nrWinning ∧ s.lockPct ≤ 10000 ∧
    s.deposited = false ∧ s.flags = { additional := true } ∧ s.bal = (fun _ _ => 0) ∧
    s.totalDeposited = 0 := by
  unfold init at h
  rcases hv with rfl | rfl <;>
    simp only [Variant.hasNft, Variant.v1Alloc, Variant.hasLock, Variant.noAdditionalStep, bind_ok_iff,
      req_ok_iff, pure_ok_iff, pure_bind,
      exists_const, if_true, if_false, Bool.false_eq_true, reduceCtorEq, decide_eq_true_eq,
      bne_iff_ne, ne_eq, not_false_eq_true, beq_iff_eq, Bool.and_eq_true] at h
  · lp_peel h
    subst h
    refine ⟨rfl, rfl, rfl, by assumption, rfl, by omega, rfl, by show (0 : Nat) ≤ 10000; omega, rfl, rfl,
      rfl, rfl⟩
  · obtain ⟨h1, h2, h3, h4, h5, h6, ⟨h7, h8⟩, h9, h10, h⟩ := h
    subst h
    refine ⟨rfl, rfl, rfl, h1, rfl, by omega, rfl, h8, rfl, rfl, rfl, rfl⟩

theorem pl_init_Base {v : Variant} (hv : Plain v) {a : InitArgs} {e : Env} {s : State}
    (h : init v a e = .ok s) : pl_Base s := by
  obtain ⟨h1, h2, h3, h4, h5, h6, _, h8, _⟩ := pl_init_inv hv h
  exact ⟨by rw [h1]; exact hv, by rw [h2, h3]; exact h4, by rw [h5]; exact h6, h8⟩

/-! ### the launchpad-token view and its moves -/

/-- the fields the launchpad-token ledger reads -/
structure pl_V where
  per : Nat
  dep : Bool
  fil : Bool
  sel : Bool
  nrw : Nat
  bal : Nat

def pl_view (s : State) : pl_V :=
  ⟨s.perTicket, s.deposited, s.flags.filtered, s.flags.selected, s.nrWinning, s.bal (.esdt s.lpTok) 0⟩

theorem pl_view_eq {s s' : State} (h1 : s'.perTicket = s.perTicket) (h2 : s'.deposited = s.deposited)
    (h3 : s'.flags.filtered = s.flags.filtered) (h4 : s'.flags.selected = s.flags.selected)
    (h5 : s'.nrWinning = s.nrWinning) (h6 : s'.bal (.esdt s'.lpTok) 0 = s.bal (.esdt s.lpTok) 0) :
    pl_view s' = pl_view s := by
  unfold pl_view
  rw [h1, h2, h3, h4, h5, h6]

/-- which endpoint made the move: the filter, the owner's withdrawal, or any other -/
inductive pl_K where
  | other | filt | cp
  deriving DecidableEq

def pl_kind : Call → pl_K
  | .filter => .filt
  | .claimPayment => .cp
  | _ => .other

/-- the moves of the view (tagged with the kind of endpoint that can make them):
    `same` nothing moves; `select` the selection completes (only after the filter);
    `setPer` the owner changes the tokens per ticket (only before the deposit);
    `deposit` THE deposit: exactly `perTicket × nrWinning` launchpad tokens come in;
    `filter` the filter completes: `nrWinning` may only drop;
    `claim` a participant with `w` winning tickets settles: `w × perTicket` launchpad tokens leave
            and `nrWinning` drops by `w`;
    `withdraw` the owner withdraws: exactly `perTicket × nrWinning` stay -/
inductive pl_Tr : pl_K → pl_V → pl_V → Prop
  | same (k : pl_K) (v : pl_V) : pl_Tr k v v
  | select (v : pl_V) : v.fil = true → pl_Tr .other v { v with sel := true }
  | setPer (v : pl_V) (a : Nat) : v.dep = false → 0 < a → pl_Tr .other v { v with per := a }
  | deposit (v : pl_V) : v.dep = false →
      pl_Tr .other v { v with dep := true, bal := v.bal + v.per * v.nrw }
  | filter (v : pl_V) (n : Nat) : v.fil = false → n ≤ v.nrw →
      pl_Tr .filt v { v with fil := true, nrw := n }
  | claim (v : pl_V) (w : Nat) : v.sel = true → w ≤ v.nrw → w * v.per ≤ v.bal →
      pl_Tr .other v { v with nrw := v.nrw - w, bal := v.bal - w * v.per }
  | withdraw (v : pl_V) : v.sel = true → v.per * v.nrw ≤ v.bal →
      pl_Tr .cp v { v with bal := v.per * v.nrw }

/-! ### call values and the launchpad-token slot -/

theorem pl_plain_noGuar {v : Variant} (hv : Plain v) : v.hasGuaranteed = false ∧ v.hasNft = false ∧
    v.vested = false := by
  rcases hv with rfl | rfl <;> exact ⟨rfl, rfl, rfl⟩

/-- a single fungible ESDT transfer is credited to its slot, exactly -/
theorem pl_credit_single {s : State} {e : Env} {id amt : Nat}
    (h : singleFungible e = .ok (.esdt id, amt)) :
    (creditPayments s e).bal (.esdt id) 0 = s.bal (.esdt id) 0 + amt := by
  unfold singleFungible at h
  split at h
  · rename_i p hp
    split at h
    · rename_i hn
      simp only [Except.ok.injEq, Prod.mk.injEq] at h
      obtain ⟨h1, h2⟩ := h
      unfold creditPayments
      simp only [hp, List.foldl_cons, List.foldl_nil, hn, h1, h2]
      simp [Bal.add]
    · cases h
  · cases h

/-- the call value of an accepted confirmation never touches the launchpad-token slot (whatever
    else the caller attached) -/
theorem pl_credit_confirm {s : State} {e : Env} {amt : Nat} (hne : s.payTok ≠ .esdt s.lpTok)
    (h : egldOrSingleFungible e = .ok (s.payTok, amt)) :
    (creditPayments s e).bal (.esdt s.lpTok) 0 = s.bal (.esdt s.lpTok) 0 := by
  unfold egldOrSingleFungible at h
  split at h
  · rename_i hp
    unfold creditPayments
    simp only [hp, List.foldl_nil]
    simp [Bal.add]
  · rename_i p hp
    split at h
    · rename_i hn
      simp only [Except.ok.injEq, Prod.mk.injEq] at h
      obtain ⟨h1, _⟩ := h
      unfold creditPayments
      simp only [hp, List.foldl_cons, List.foldl_nil, hn, h1]
      have : ¬ (Token.esdt s.lpTok = s.payTok) := fun hh => hne hh.symm
      simp [Bal.add, this]
    · cases h
  · cases h

/-! ### the three calls that move launchpad tokens, exactly -/

section exact
variable {hash : List Nat → List Nat} {s s' : State} {e : Env} {o : Out}

theorem pl_maxWinners (hv : Plain s.variant) : LP.Props.C02.maxWinners s = s.nrWinning := by
  unfold LP.Props.C02.maxWinners reservedForDeposit
  rw [(pl_plain_noGuar hv).1]
  simp

/-- **the deposit, exactly**: the owner, no earlier deposit, one fungible transfer of exactly
    `perTicket × nrWinning` launchpad tokens; the launchpad-token balance grows by exactly that;
    nothing is sent out -/
theorem pl_deposit_exact (hv : Plain s.variant) (hs : step hash s e .deposit = .ok (s', o)) :
    e.caller = s.owner ∧ s.deposited = false ∧
    singleFungible e = .ok (.esdt s.lpTok, s.perTicket * s.nrWinning) ∧
    s' = { creditPayments s e with deposited := true, totalDeposited := s.perTicket * s.nrWinning } ∧
    s'.bal (.esdt s'.lpTok) 0 = s.bal (.esdt s.lpTok) 0 + s.perTicket * s.nrWinning ∧
    o.xfers = [] := by
  obtain ⟨h1, h2, h3⟩ := (LP.Props.C02.deposit_accepted_iff hash s e).mp ⟨_, hs⟩
  obtain ⟨h4, h5, _⟩ := LP.Props.C02.deposit_effect hash s s' e o hs
  rw [pl_maxWinners hv] at h3 h4
  refine ⟨h1, h2, h3, h4, ?_, h5⟩
  rw [h4]
  exact pl_credit_single h3

/-- the balances after a claim, in the launchpad-token slot -/
theorem pl_balAfterClaim_lp (hne : s.payTok ≠ .esdt s.lpTok) (a : Nat) :
    balAfterClaim s a (.esdt s.lpTok) 0 = s.bal (.esdt s.lpTok) 0 - winCount s a * s.perTicket := by
  have hne' : ¬ (Token.esdt s.lpTok = s.payTok) := fun hh => hne hh.symm
  unfold balAfterClaim
  simp [Bal.sub, hne']

/-- **a settlement, the state**: an accepted `claim` of a plain launchpad (base or locked) is
    accepted under `ClaimAccepts` and leaves the settled state with the refund and the
    `winning × perTicket` launchpad tokens deducted -/
theorem pl_claim_state (hB : pl_Base s) (hs : step hash s e .claim = .ok (s', o)) :
    ∃ r, ClaimAccepts s e r ∧
      s' = { settledState s e.caller r with bal := balAfterClaim s e.caller } := by
  rcases hB.var with hv | hv
  · obtain ⟨r, h1, h2, _⟩ := (claim_base_iff hash s e s' o (by rw [hv]; rfl) (by rw [hv]; rfl)
      (by rw [hv]; rfl)).mp hs
    exact ⟨r, h1, h2⟩
  · obtain ⟨r, _, _, h1, h2, _⟩ := claim_lock_effect hash s e s' o (by rw [hv]; rfl) (by rw [hv]; rfl)
      hB.pct hs
    exact ⟨r, h1, h2⟩

/-- what `ClaimAccepts` says about launchpad tokens -/
theorem pl_claimAccepts_lp (hne : s.payTok ≠ .esdt s.lpTok) {r : Range} (h : ClaimAccepts s e r) :
    s.stage e = .claim ∧ s.range e.caller = some r ∧ winCount s e.caller ≤ s.nrWinning ∧
    winCount s e.caller * s.perTicket ≤ s.bal (.esdt s.lpTok) 0 := by
  obtain ⟨_, _, h3, _, h5, h6, _, _, h9⟩ := h
  have hne' : ¬ (Token.esdt s.lpTok = s.payTok) := fun hh => hne hh.symm
  refine ⟨h3, h5, h6, ?_⟩
  simpa [Bal.sub, hne'] using h9

/-- **the owner's withdrawal, exactly** (common path): claim stage; the recorded proceeds leave
    in the payment slot; the launchpad-token surplus `balance − perTicket × nrWinning` goes to the
    caller (one transfer, none if zero); exactly `perTicket × nrWinning` stay -/
theorem pl_cpc_exact {t t' : Tx} (h : claimPaymentCommon t e = .ok t')
    (hne : t.s.payTok ≠ .esdt t.s.lpTok) :
    t.s.stage e = .claim ∧ t.s.claimablePayment ≤ t.s.bal t.s.payTok 0 ∧
    t.s.perTicket * t.s.nrWinning ≤ t.s.bal (.esdt t.s.lpTok) 0 ∧
    t'.s = { t.s with claimablePayment := 0,
                      bal := ((t.s.bal.sub t.s.payTok 0 t.s.claimablePayment).sub (.esdt t.s.lpTok) 0
                        (t.s.bal (.esdt t.s.lpTok) 0 - t.s.perTicket * t.s.nrWinning)) } ∧
    t'.o.xfers = t.o.xfers
      ++ (if t.s.claimablePayment > 0 then [(e.caller, (⟨t.s.payTok, 0, t.s.claimablePayment⟩ : Pay))] else [])
      ++ (if t.s.bal (.esdt t.s.lpTok) 0 - t.s.perTicket * t.s.nrWinning > 0
          then [(e.caller, (⟨.esdt t.s.lpTok, 0, t.s.bal (.esdt t.s.lpTok) 0 - t.s.perTicket * t.s.nrWinning⟩ : Pay))]
          else []) ∧
    t'.o.locks = t.o.locks := by
  have hne' : ¬ (Token.esdt t.s.lpTok = t.s.payTok) := fun hh => hne hh.symm
  -- the tail, from any record whose launchpad-token slot is that of `t`
  have tail : ∀ t1 t2 : Tx, cpTail t1 e = .ok t2 →
      t1.s.perTicket * t1.s.nrWinning ≤ t1.s.bal (.esdt t1.s.lpTok) 0 ∧
      t2.s = { t1.s with bal := (t1.s.bal.sub (.esdt t1.s.lpTok) 0
                (t1.s.bal (.esdt t1.s.lpTok) 0 - t1.s.perTicket * t1.s.nrWinning)) } ∧
      t2.o.xfers = t1.o.xfers ++ (if t1.s.bal (.esdt t1.s.lpTok) 0 - t1.s.perTicket * t1.s.nrWinning > 0
          then [(e.caller, (⟨.esdt t1.s.lpTok, 0, t1.s.bal (.esdt t1.s.lpTok) 0 - t1.s.perTicket * t1.s.nrWinning⟩ : Pay))]
          else []) ∧ t2.o.locks = t1.o.locks := by
    intro t1 t2 h2
    unfold cpTail bsub at h2
    simp only [bind_ok_iff] at h2
    obtain ⟨extra, hx, h2⟩ := h2
    split at hx
    · rename_i hle
      simp only [Except.ok.injEq] at hx
      subst hx
      refine ⟨hle, ?_⟩
      split at h2
      · rename_i hpos
        rw [send_ok_iff] at h2
        obtain ⟨_, rfl⟩ := h2
        rw [if_pos hpos]
        exact ⟨rfl, rfl, rfl⟩
      · rename_i hz
        simp only [pure_ok_iff] at h2
        subst h2
        rw [if_neg hz]
        have h0 : t1.s.bal (.esdt t1.s.lpTok) 0 - t1.s.perTicket * t1.s.nrWinning = 0 := by omega
        rw [h0, Bal.sub_zero]
        exact ⟨rfl, by simp, rfl⟩
    · cases hx
  rw [claimPaymentCommon_eq] at h
  simp only [bind_ok_iff, req_ok_iff, requireStage, exists_const, beq_iff_eq] at h
  obtain ⟨hst, h⟩ := h
  split at h
  · rename_i hpos
    simp only [bind_ok_iff, send_ok_iff] at h
    obtain ⟨t1, ⟨hle, rfl⟩, h2⟩ := h
    obtain ⟨k1, k2, k3, k4⟩ := tail _ _ h2
    have hb : (sendResult (t.setS { t.s with claimablePayment := 0 }) e.caller
        ⟨t.s.payTok, 0, t.s.claimablePayment⟩).s.bal (.esdt t.s.lpTok) 0 = t.s.bal (.esdt t.s.lpTok) 0 := by
      simp [sendResult, Tx.setS, Bal.sub, hne']
    simp only [sendResult, Tx.setS] at k1 k2 k3 k4 hb
    simp only [hb] at k1 k2 k3
    refine ⟨hst, hle, k1, ?_, ?_, k4⟩
    · rw [k2]
    · rw [k3, if_pos hpos]
  · rename_i hz
    have hz' : t.s.claimablePayment = 0 := by omega
    obtain ⟨k1, k2, k3, k4⟩ := tail _ _ h
    refine ⟨hst, by omega, k1, ?_, ?_, k4⟩
    · rw [k2, hz', Bal.sub_zero]
      have : t.s = { t.s with claimablePayment := 0 } := by
        cases hts : t.s; simp only [hts] at hz'; simp [hz']
      rw [this]
    · rw [k3, if_neg hz]; simp

/-- **the owner's withdrawal of a plain launchpad, exactly** -/
theorem pl_claimPayment_exact (hB : pl_Base s) (hs : step hash s e .claimPayment = .ok (s', o)) :
    e.caller = s.owner ∧ s.stage e = .claim ∧ s.claimablePayment ≤ s.bal s.payTok 0 ∧
    s.perTicket * s.nrWinning ≤ s.bal (.esdt s.lpTok) 0 ∧
    s' = { s with claimablePayment := 0,
                  bal := ((s.bal.sub s.payTok 0 s.claimablePayment).sub (.esdt s.lpTok) 0
                    (s.bal (.esdt s.lpTok) 0 - s.perTicket * s.nrWinning)) } ∧
    o.xfers = (if s.claimablePayment > 0 then [(e.caller, (⟨s.payTok, 0, s.claimablePayment⟩ : Pay))] else [])
      ++ (if s.bal (.esdt s.lpTok) 0 - s.perTicket * s.nrWinning > 0
          then [(e.caller, (⟨.esdt s.lpTok, 0, s.bal (.esdt s.lpTok) 0 - s.perTicket * s.nrWinning⟩ : Pay))]
          else []) ∧
    o.locks = [] := by
  obtain ⟨m, _, hm, _, hown, _, _, _⟩ := step_ok_inv hs
  have how : e.caller = s.owner := by
    simp only [endpointMeta, Option.some.injEq] at hm
    subst hm
    exact hown rfl
  obtain ⟨t, hx, rfl, rfl⟩ := LP.Props.C20.step_nopay_inv
    (by intro m hm; simp [endpointMeta] at hm; rw [← hm]) hs
  obtain ⟨_, hv2, hv1⟩ := pl_plain_noGuar hB.var
  have hts : (LP.Props.C20.txOf s e).s = s := rfl
  simp only [exec, hts, hv1, Bool.false_eq_true, if_false, bind_ok_iff] at hx
  obtain ⟨t1, h1, hfin⟩ := hx
  obtain ⟨k1, k2, k3, k4, k5, k6⟩ := pl_cpc_exact h1 (by rw [hts]; exact hB.tokNe)
  rw [hts] at k1 k2 k3 k4 k5
  have hvar : t1.s.variant = s.variant := by rw [k4]
  rw [hvar, hv2] at hfin
  simp only [Bool.false_eq_true, if_false, pure_ok_iff] at hfin
  subst hfin
  refine ⟨how, k1, k2, k3, k4, ?_, ?_⟩
  · rw [k5]
    show ([] : List (Nat × Pay)) ++ _ ++ _ = _
    simp
  · rw [k6]; rfl

end exact

/-! ### every accepted call is one of the moves -/

theorem pl_filterFlags (s : State) (n : Nat) :
    (filterFlags s n).filtered = s.flags.filtered ∧ (filterFlags s n).selected = s.flags.selected := by
  unfold filterFlags
  split <;> exact ⟨rfl, rfl⟩

section calls
variable {hash : List Nat → List Nat} {s s' : State} {e : Env} {o : Out}

theorem pl_tr_setSupport {a : Nat} (hs : step hash s e (.setSupport a) = .ok (s', o)) :
    pl_Tr .other (pl_view s) (pl_view s') := by
  obtain ⟨t, hx, rfl⟩ := rb_step_np (by intro m hm; simp [endpointMeta] at hm; rw [← hm]) hs
  simp only [exec, pure_ok_iff] at hx
  subst hx
  exact .same _ _

theorem pl_tr_pause (hs : step hash s e .pause = .ok (s', o)) : pl_Tr .other (pl_view s) (pl_view s') := by
  obtain ⟨t, hx, rfl⟩ := rb_step_np (by intro m hm; simp [endpointMeta] at hm; rw [← hm]) hs
  simp only [exec, pure_ok_iff] at hx
  subst hx
  exact .same _ _

theorem pl_tr_unpause (hs : step hash s e .unpause = .ok (s', o)) : pl_Tr .other (pl_view s) (pl_view s') := by
  obtain ⟨t, hx, rfl⟩ := rb_step_np (by intro m hm; simp [endpointMeta] at hm; rw [← hm]) hs
  simp only [exec, pure_ok_iff] at hx
  subst hx
  exact .same _ _

theorem pl_tr_setConfStart {x : Nat} (hs : step hash s e (.setConfStart x) = .ok (s', o)) :
    pl_Tr .other (pl_view s) (pl_view s') := by
  obtain ⟨t, hx, rfl⟩ := rb_step_np (by intro m hm; simp [endpointMeta] at hm; rw [← hm]) hs
  rw [(exec_setConfStart_s hx).1]
  exact .same _ _

theorem pl_tr_setSelStart {x : Nat} (hs : step hash s e (.setSelStart x) = .ok (s', o)) :
    pl_Tr .other (pl_view s) (pl_view s') := by
  obtain ⟨t, hx, rfl⟩ := rb_step_np (by intro m hm; simp [endpointMeta] at hm; rw [← hm]) hs
  rw [(exec_setSelStart_s hx).1]
  exact .same _ _

theorem pl_tr_setClaimStart {x : Nat} (hs : step hash s e (.setClaimStart x) = .ok (s', o)) :
    pl_Tr .other (pl_view s) (pl_view s') := by
  obtain ⟨t, hx, rfl⟩ := rb_step_np (by intro m hm; simp [endpointMeta] at hm; rw [← hm]) hs
  rw [(exec_setClaimStart_s hx).1]
  exact .same _ _

theorem pl_tr_setTicketPrice {tok : Token} {a : Nat}
    (hs : step hash s e (.setTicketPrice tok a) = .ok (s', o)) : pl_Tr .other (pl_view s) (pl_view s') := by
  obtain ⟨t, hx, rfl⟩ := rb_step_np (by intro m hm; simp [endpointMeta] at hm; rw [← hm]) hs
  rw [(exec_setTicketPrice_s hx).1]
  exact .same _ _

theorem pl_tr_setPerTicket {a : Nat} (hs : step hash s e (.setPerTicket a) = .ok (s', o)) :
    pl_Tr .other (pl_view s) (pl_view s') := by
  obtain ⟨t, hx, rfl⟩ := rb_step_np (by intro m hm; simp [endpointMeta] at hm; rw [← hm]) hs
  obtain ⟨h1, _, h3, h4⟩ := exec_setPerTicket_s hx
  rw [h1]
  exact .setPer (pl_view s) a h3 h4

theorem pl_tr_addTickets {l : List (Nat × Nat)} (hv : Plain s.variant)
    (hs : step hash s e (.addTickets l) = .ok (s', o)) : pl_Tr .other (pl_view s) (pl_view s') := by
  obtain ⟨t, hx, rfl⟩ := rb_step_np (by
    intro m hm
    rcases hv with hv | hv <;> rw [hv] at hm <;>
      simp [endpointMeta, Variant.hasGuaranteed, Variant.v1Alloc, Variant.isV2] at hm <;> rw [← hm]) hs
  simp only [exec, bind_ok_iff, pure_ok_iff, requireStage, req_ok_iff, exists_const] at hx
  obtain ⟨_, s1, hcm, rfl⟩ := hx
  have hcm' : createMany l s = .ok s1 := hcm
  obtain ⟨_, _, _, _, _, _, _, rg, bt, lt, heq⟩ := createMany_ok l s s1 hcm'
  show pl_Tr .other (pl_view s) (pl_view s1)
  rw [heq]
  exact .same _ _

theorem pl_tr_deposit (hv : Plain s.variant) (hs : step hash s e .deposit = .ok (s', o)) :
    pl_Tr .other (pl_view s) (pl_view s') := by
  obtain ⟨_, h2, _, h4, h5, _⟩ := pl_deposit_exact hv hs
  have : pl_view s' = { pl_view s with dep := true, bal := (pl_view s).bal + (pl_view s).per * (pl_view s).nrw } := by
    unfold pl_view
    rw [h5, h4]
    rfl
  rw [this]
  exact .deposit _ h2

theorem pl_tr_confirm {n : Nat} (hne : s.payTok ≠ .esdt s.lpTok)
    (hs : step hash s e (.confirm n) = .ok (s', o)) : pl_Tr .other (pl_view s) (pl_view s') := by
  obtain ⟨total, hacc, rfl, _⟩ := LP.Props.C07.confirm_effect hash s e n s' o hs
  have hb := pl_credit_confirm hne hacc.2.1
  rw [pl_view_eq (s' := { creditPayments s e with
    confirmed := upd s.confirmed e.caller (s.confirmed e.caller + n) }) (s := s) rfl rfl rfl rfl rfl hb]
  exact .same _ _

theorem pl_tr_blacklist {l : List Nat} (hB : pl_Base s)
    (hs : step hash s e (.blacklist l) = .ok (s', o)) : pl_Tr .other (pl_view s) (pl_view s') := by
  obtain ⟨t, hx, rfl⟩ := rb_step_np (by intro m hm; simp [endpointMeta] at hm; rw [← hm]) hs
  obtain ⟨hv1, hv2, hv3, hv4⟩ := rb_plain_flags hB.var
  simp only [exec, bind_ok_iff] at hx
  obtain ⟨t1, h1, hx⟩ := hx
  obtain ⟨_, _, _, _, _, rfl⟩ := (addUsersToBlacklist_ok_iff _ _ _ _).mp h1
  have hvar : (blTx (rbTx s e) e l).s.variant = s.variant := rfl
  simp only [hvar, hv2, hv3, hv4, Bool.false_eq_true, if_false, pure_bind, pure_ok_iff] at hx
  subst hx
  have hne' : ¬ (Token.esdt s.lpTok = s.payTok) := fun hh => hB.tokNe hh.symm
  have hb : (blState s l).bal (.esdt (blState s l).lpTok) 0 = s.bal (.esdt s.lpTok) 0 := by
    show (s.bal.sub s.payTok 0 _) (.esdt s.lpTok) 0 = _
    simp [Bal.sub, hne']
  show pl_Tr .other (pl_view s) (pl_view (blState s l))
  rw [pl_view_eq (s' := blState s l) (s := s) rfl rfl rfl rfl rfl hb]
  exact .same _ _

theorem pl_tr_filter (hs : step hash s e .filter = .ok (s', o)) : pl_Tr .filt (pl_view s) (pl_view s') := by
  obtain ⟨t, hx, rfl⟩ := rb_step_np (by intro m hm; simp [endpointMeta] at hm; rw [← hm]) hs
  simp only [exec] at hx
  obtain ⟨hpre, x, f, b, _, hcase⟩ := rb_filterTickets_cases hx
  simp only [rbTx_s] at hcase hpre
  rcases hcase with ⟨_, h1⟩ | ⟨_, _, h1⟩
  · rw [h1]
    rw [pl_view_eq (s' := filterSaved s x f) (s := s) rfl rfl (pl_filterFlags s x.first).1
      (pl_filterFlags s x.first).2 rfl rfl]
    exact .same _ _
  · rw [h1]
    generalize hn : (if s.nrWinning > s.lastTicketId - f.removed then s.lastTicketId - f.removed
      else s.nrWinning) = n
    have hle : n ≤ s.nrWinning := by rw [← hn]; split <;> omega
    have : pl_view (filterDone s x f) = { pl_view s with fil := true, nrw := n } := by
      unfold pl_view filterDone
      simp only [(pl_filterFlags s x.first).2, hn]
    rw [this]
    exact .filter _ _ hpre.notFiltered hle

theorem pl_tr_select (hs : step hash s e .select = .ok (s', o)) : pl_Tr .other (pl_view s) (pl_view s') := by
  obtain ⟨t, hx, rfl⟩ := rb_step_np (by intro m hm; simp [endpointMeta] at hm; rw [← hm]) hs
  simp only [exec] at hx
  obtain ⟨_, hfil, _, rng, pos, t0, _, x, b, st, _, hcase⟩ := rb_selectWinners_cases hx
  simp only [rbTx_s] at hcase hfil
  rcases hcase with ⟨_, h1⟩ | ⟨_, h1⟩
  · rw [h1]
    exact .same _ _
  · rw [h1]
    exact .select (pl_view s) hfil

theorem pl_tr_claim (hB : pl_Base s) (hs : step hash s e .claim = .ok (s', o)) :
    pl_Tr .other (pl_view s) (pl_view s') := by
  obtain ⟨r, hacc, hs'⟩ := pl_claim_state hB hs
  obtain ⟨hst, hr, hnw, hle⟩ := pl_claimAccepts_lp hB.tokNe hacc
  have hsel : s.flags.selected = true := (rb_stage_claim hst).1
  have hw := winCount_of_range hr
  have : pl_view s' = { pl_view s with
      nrw := (pl_view s).nrw - winCount s e.caller, bal := (pl_view s).bal - winCount s e.caller * (pl_view s).per } := by
    rw [hs']
    unfold pl_view
    show pl_V.mk s.perTicket s.deposited s.flags.filtered s.flags.selected
      (s.nrWinning - countWinning s.status r.first (rangeLen r))
      (balAfterClaim s e.caller (.esdt s.lpTok) 0) = _
    rw [pl_balAfterClaim_lp hB.tokNe, ← hw]
  rw [this]
  exact .claim _ _ hsel hnw hle

theorem pl_tr_claimPayment (hB : pl_Base s) (hs : step hash s e .claimPayment = .ok (s', o)) :
    pl_Tr .cp (pl_view s) (pl_view s') := by
  obtain ⟨_, hst, _, hle, hs', _⟩ := pl_claimPayment_exact hB hs
  have hsel : s.flags.selected = true := (rb_stage_claim hst).1
  have hne' : ¬ (Token.esdt s.lpTok = s.payTok) := fun hh => hB.tokNe hh.symm
  have : pl_view s' = { pl_view s with bal := (pl_view s).per * (pl_view s).nrw } := by
    rw [hs']
    unfold pl_view
    simp only [Bal.sub, and_self, if_true, hne', false_and, if_false]
    congr 1
    omega
  rw [this]
  exact .withdraw _ hsel hle

end calls

/-- **every accepted call of a plain launchpad moves the launchpad-token view by one of the seven
    moves** — no restriction on the call, its arguments, its call value or its round -/
theorem pl_step_Tr {hash : List Nat → List Nat} {s s' : State} {e : Env} {c : Call} {o : Out}
    (hB : pl_Base s) (hs : step hash s e c = .ok (s', o)) :
    pl_Tr (pl_kind c) (pl_view s) (pl_view s') := by
  have hex := rb_exposed hB.var hs
  cases c with
  | addTickets l => exact pl_tr_addTickets hB.var hs
  | deposit => exact pl_tr_deposit hB.var hs
  | setTicketPrice tok a => exact pl_tr_setTicketPrice hs
  | setPerTicket a => exact pl_tr_setPerTicket hs
  | setConfStart x => exact pl_tr_setConfStart hs
  | setSelStart x => exact pl_tr_setSelStart hs
  | setClaimStart x => exact pl_tr_setClaimStart hs
  | setSupport a => exact pl_tr_setSupport hs
  | pause => exact pl_tr_pause hs
  | unpause => exact pl_tr_unpause hs
  | confirm n => exact pl_tr_confirm hB.tokNe hs
  | filter => exact pl_tr_filter hs
  | select => exact pl_tr_select hs
  | claim => exact pl_tr_claim hB hs
  | claimPayment => exact pl_tr_claimPayment hB hs
  | blacklist l => exact pl_tr_blacklist hB hs
  | _ => exact absurd hex id

end LP

#print axioms LP.pl_step_Base
#print axioms LP.pl_init_Base
#print axioms LP.pl_deposit_exact
#print axioms LP.pl_claim_state
#print axioms LP.pl_claimPayment_exact
#print axioms LP.pl_step_Tr
