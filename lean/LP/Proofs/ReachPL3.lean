import LP.Proofs.ReachPL2
import LP.Proofs.FrameFlags
/-
  LP.Proofs.ReachPL3 — the launchpad-token side of the two plain launchpads, part 3: helpers for
  `LP/Props/C02reach.lean`.

  * `pl_sumOver_pos`                         a positive sum has a positive summand
  * `pl_run_deposited`, `pl_run_perTicket`   the deposit flag and the tokens per ticket along a history
  * `pl_claim_out`                           the launchpad tokens an accepted `claim` sends, base and
                                             locked variant in one statement
  * `pl_Since`                               "later, by any accepted calls" on reachable states, with
                                             the transfer of `Reach`, `pl_Lp`, `pl_Exact`
-/
namespace LP
open LP.FY LP.Props.C09

theorem pl_sumOver_pos (f : Nat → Nat) (L : List Nat) (h : 0 < sumOver f L) : ∃ a ∈ L, 0 < f a := by
  apply Classical.byContradiction
  intro hn
  have : sumOver f L = 0 := sumOver_zero f L (fun a ha => by
    apply Classical.byContradiction
    intro h0
    exact hn ⟨a, ha, by omega⟩)
  omega

/-- the deposit flag is never reset along a history -/
theorem pl_run_deposited (hash : List Nat → List Nat) :
    ∀ (h : List (Env × Call)) (s : State), s.deposited = true → (run hash s h).deposited = true
  | [], _, hd => hd
  | (e, c) :: rest, s, hd => by
    unfold run
    cases hx : step hash s e c with
    | error err => exact pl_run_deposited hash rest s hd
    | ok q =>
      obtain ⟨s', o⟩ := q
      exact pl_run_deposited hash rest s' (deposited_mono hx hd)

/-- after the deposit the tokens per ticket never change again -/
theorem pl_run_perTicket (hash : List Nat → List Nat) :
    ∀ (h : List (Env × Call)) (s : State), s.deposited = true →
      (run hash s h).perTicket = s.perTicket
  | [], _, _ => rfl
  | (e, c) :: rest, s, hd => by
    unfold run
    cases hx : step hash s e c with
    | error err => exact pl_run_perTicket hash rest s hd
    | ok q =>
      obtain ⟨s', o⟩ := q
      show (run hash s' rest).perTicket = s.perTicket
      rw [pl_run_perTicket hash rest s' (deposited_mono hx hd),
        LP.Props.C17.perTicket_frozen_after_deposit hx hd]

/-- **the launchpad tokens of a settlement** (base and locked in one statement): the refund, then
    at most one lock call — carried by a transfer of the same amount to the lock contract — and at
    most one direct transfer to the caller; the two parts add up to `winning × perTicket`; the base
    launchpad makes no lock call.  The launchpad-token balance and `nrWinning` drop by exactly the
    entitlement resp. the number of winning tickets. -/
theorem pl_claim_out {hash : List Nat → List Nat} {s s' : State} {e : Env} {o : Out}
    (hB : pl_Base s) (hs : step hash s e .claim = .ok (s', o)) :
    ∃ (r : Range) (newLocks : List (Nat × Nat × Nat)) (newDirect : List Nat),
      s.stage e = .claim ∧ s.range e.caller = some r ∧
      o.locks = newLocks ∧
      o.xfers = refundXfers s e.caller
        ++ newLocks.map (fun l => (s.lockAddr, (⟨.esdt s.lpTok, 0, l.2.2⟩ : Pay)))
        ++ newDirect.map (fun d => (e.caller, (⟨.esdt s.lpTok, 0, d⟩ : Pay))) ∧
      (∀ l ∈ newLocks, l.1 = s.unlockEpoch ∧ l.2.1 = e.caller ∧ 0 < l.2.2) ∧
      (∀ d ∈ newDirect, 0 < d) ∧ newLocks.length ≤ 1 ∧ newDirect.length ≤ 1 ∧
      (newLocks.map (·.2.2)).sum + newDirect.sum = s.perTicket * winCountOf s e.caller ∧
      (s.variant = .base → newLocks = []) ∧
      winCountOf s e.caller ≤ s.nrWinning ∧
      s.perTicket * winCountOf s e.caller ≤ s.bal (.esdt s.lpTok) 0 ∧
      s' = { settledState s e.caller r with bal := balAfterClaim s e.caller } ∧
      s'.nrWinning = s.nrWinning - winCountOf s e.caller ∧
      s'.bal (.esdt s'.lpTok) 0 = s.bal (.esdt s.lpTok) 0 - s.perTicket * winCountOf s e.caller := by
  have hwc : winCountOf s e.caller = winCount s e.caller := rfl
  have common : ∀ r, ClaimAccepts s e r →
      s' = { settledState s e.caller r with bal := balAfterClaim s e.caller } →
      s.stage e = .claim ∧ s.range e.caller = some r ∧ winCountOf s e.caller ≤ s.nrWinning ∧
      s.perTicket * winCountOf s e.caller ≤ s.bal (.esdt s.lpTok) 0 ∧
      s'.nrWinning = s.nrWinning - winCountOf s e.caller ∧
      s'.bal (.esdt s'.lpTok) 0 = s.bal (.esdt s.lpTok) 0 - s.perTicket * winCountOf s e.caller := by
    intro r hacc hs'
    obtain ⟨k1, k2, k3, k4⟩ := pl_claimAccepts_lp hB.tokNe hacc
    have hw := winCount_of_range k2
    rw [hwc, Nat.mul_comm]
    refine ⟨k1, k2, k3, k4, ?_, ?_⟩
    · rw [hs', hw]; rfl
    · rw [hs']
      show balAfterClaim s e.caller (.esdt s.lpTok) 0 = _
      rw [pl_balAfterClaim_lp hB.tokNe, Nat.mul_comm]
  rcases hB.var with hv | hv
  · obtain ⟨r, h1, h2, h3, h4, _⟩ := (claim_base_iff hash s e s' o (by rw [hv]; rfl) (by rw [hv]; rfl)
      (by rw [hv]; rfl)).mp hs
    obtain ⟨c1, c2, c3, c4, c5, c6⟩ := common r h1 h2
    refine ⟨r, [], (if winCount s e.caller = 0 then [] else [winCount s e.caller * s.perTicket]),
      c1, c2, h4, ?_, ?_, ?_, by simp, ?_, ?_, fun _ => rfl, c3, c4, h2, c5, c6⟩
    · rw [h3]
      unfold tokenXfers
      split <;> simp
    · intro l hl; cases hl
    · intro d hd
      split at hd
      · cases hd
      · rename_i hz
        simp only [List.mem_singleton] at hd
        subst hd
        exact Nat.mul_pos (by omega) hB.perPos
    · split <;> simp
    · rw [hwc]
      split
      · rename_i hz; rw [hz]; simp
      · simp [Nat.mul_comm]
  · obtain ⟨r, nl, nd, h1, h2, h3, h4, h5, h6, h7, h8, h9, _⟩ :=
      claim_lock_effect hash s e s' o (by rw [hv]; rfl) (by rw [hv]; rfl) hB.pct hs
    obtain ⟨c1, c2, c3, c4, c5, c6⟩ := common r h1 h2
    refine ⟨r, nl, nd, c1, c2, h3, h4, h5, h6, h7, h8, ?_, ?_, c3, c4, h2, c5, c6⟩
    · rw [h9, hwc, Nat.mul_comm]
    · intro hb; rw [hv] at hb; cases hb

/-- the part of an entitlement `amount` that a settlement at epoch `e.epoch` locks -/
def pl_lockedAmt (s : State) (e : Env) (amount : Nat) : Nat :=
  if e.epoch < s.unlockEpoch then lockSplit amount s.lockPct else 0

theorem pl_lockedAmt_le {s : State} (hp : s.lockPct ≤ 10000) (e : Env) (amount : Nat) :
    pl_lockedAmt s e amount ≤ amount := by
  unfold pl_lockedAmt
  split
  · exact lockSplit_le hp
  · exact Nat.zero_le _

/-- **the split of a settlement of the locked launchpad, exactly**: with
    `amount = winning × perTicket` and `L = lockSplit amount lockPct` before the unlock epoch (`0`
    from the unlock epoch on), the outputs are the refund, then — if `L > 0` — one transfer of `L`
    to the lock contract with the lock call `(unlockEpoch, caller, L)`, then — if `amount − L > 0` —
    one direct transfer of `amount − L` to the caller -/
theorem pl_claim_locked_out {hash : List Nat → List Nat} {s s' : State} {e : Env} {o : Out}
    (hB : pl_Base s) (hv : s.variant = .locked) (hs : step hash s e .claim = .ok (s', o)) :
    o.locks = (if pl_lockedAmt s e (winCountOf s e.caller * s.perTicket) > 0
      then [(s.unlockEpoch, e.caller, pl_lockedAmt s e (winCountOf s e.caller * s.perTicket))] else []) ∧
    o.xfers = refundXfers s e.caller
      ++ (if pl_lockedAmt s e (winCountOf s e.caller * s.perTicket) > 0
          then [(s.lockAddr, (⟨.esdt s.lpTok, 0,
            pl_lockedAmt s e (winCountOf s e.caller * s.perTicket)⟩ : Pay))] else [])
      ++ (if winCountOf s e.caller * s.perTicket
            - pl_lockedAmt s e (winCountOf s e.caller * s.perTicket) > 0
          then [(e.caller, (⟨.esdt s.lpTok, 0, winCountOf s e.caller * s.perTicket
            - pl_lockedAmt s e (winCountOf s e.caller * s.perTicket)⟩ : Pay))] else []) ∧
    pl_lockedAmt s e (winCountOf s e.caller * s.perTicket)
      + (winCountOf s e.caller * s.perTicket - pl_lockedAmt s e (winCountOf s e.caller * s.perTicket))
      = winCountOf s e.caller * s.perTicket := by
  have hvest : s.variant.vested = false := by rw [hv]; rfl
  have hl : s.variant.hasLock = true := by rw [hv]; rfl
  have hle := pl_lockedAmt_le hB.pct e (winCountOf s e.caller * s.perTicket)
  refine ⟨?_, ?_, by omega⟩ <;>
  · have h := hs
    rw [step_claim_ok_iff, exec_claim_nonvested hash _ e hvest] at h
    obtain ⟨_, _, t, hx, -, rfl⟩ := h
    obtain ⟨r, ⟨_, _, hr, _, _, _⟩, t2, h3, h4⟩ := (claimBase_ok_iff _ e t).mp hx
    rw [txc_s] at hr h3
    have hw : winCountOf s e.caller = countWinning s.status r.first (rangeLen r) := winCount_of_range hr
    have hvar : (claimMid (txc s e) e r).s.variant = s.variant := by rw [claimMid_state]; rfl
    have hpct : (claimMid (txc s e) e r).s.lockPct ≤ 10000 := by rw [claimMid_state]; exact hB.pct
    rw [sendLaunchpadTokens_lock_ok_iff _ e _ _ _ (by rw [hvar]; exact hl) hpct] at h3
    obtain ⟨_, ht2⟩ := h3
    have hn' : t2.s.variant.hasNft = false := by
      rw [ht2, sendTokensLockedResult_state]
      show (claimMid (txc s e) e r).s.variant.hasNft = false
      rw [hvar, hv]; rfl
    simp only [hn', Bool.false_eq_true, if_false, pure_ok_iff] at h4
    subst h4
    have hmx : (claimMid (txc s e) e r).o.xfers = refundXfers s e.caller := by
      rw [claimMid_xfers]
      simp only [refundXfers, winCount_of_range hr, txc, List.nil_append]
      rfl
    have hml : (claimMid (txc s e) e r).o.locks = [] := by
      unfold claimMid refundResult; split <;> rfl
    have hue : (claimMid (txc s e) e r).s.unlockEpoch = s.unlockEpoch := by rw [claimMid_state]; rfl
    have hpc : (claimMid (txc s e) e r).s.lockPct = s.lockPct := by rw [claimMid_state]; rfl
    have hla : (claimMid (txc s e) e r).s.lockAddr = s.lockAddr := by rw [claimMid_state]; rfl
    have hlp : (claimMid (txc s e) e r).s.lpTok = s.lpTok := by rw [claimMid_state]; rfl
    have hpt : (claimMid (txc s e) e r).s.perTicket = s.perTicket := by rw [claimMid_state]; rfl
    rw [ht2, hw]
    unfold sendTokensLockedResult
    by_cases hz : countWinning s.status r.first (rangeLen r) = 0
    · rw [if_pos hz, hz]
      simp [pl_lockedAmt, lockSplit, hmx, hml]
    · rw [if_neg hz]
      unfold sendLockedResult
      simp only [hmx, hml, List.nil_append]
      unfold lockedPart pl_lockedAmt
      simp only [hue, hpc, hla, hlp, hpt]

/-! ### "later, by any accepted calls" -/

/-- `pl_Since hash s r s2 r2`: `s2` (at round `r2`) is reached from `s` (at round `r`) by accepted
    calls (any endpoint, `claimPayment` included) and by the passing of time -/
inductive pl_Since (hash : List Nat → List Nat) (s : State) (r : Nat) : State → Nat → Prop
  | refl : pl_Since hash s r s r
  | call (s1 : State) (r1 : Nat) (e : Env) (c : Call) (s2 : State) (o : Out) :
      pl_Since hash s r s1 r1 → r1 ≤ e.round → EnvOK e → CallOK c →
      step hash s1 e c = .ok (s2, o) → pl_Since hash s r s2 e.round
  | wait (s1 : State) (r1 r2 : Nat) : pl_Since hash s r s1 r1 → r1 ≤ r2 → pl_Since hash s r s1 r2

theorem pl_Since_reach {hash : List Nat → List Nat} {v : Variant} {s : State} {r : Nat}
    (h : Reach hash v s r) {s2 : State} {r2 : Nat} (hl : pl_Since hash s r s2 r2) :
    Reach hash v s2 r2 := by
  induction hl with
  | refl => exact h
  | call s1 r1 e c s2 o _ h1 h2 h3 h4 ih => exact .call s1 r1 e c s2 o ih h1 h2 h3 h4
  | wait s1 r1 r2 _ h1 ih => exact .wait s1 r1 r2 ih h1

theorem pl_Since_selected {hash : List Nat → List Nat} {s : State} {r : Nat}
    (h : s.flags.selected = true) {s2 : State} {r2 : Nat} (hl : pl_Since hash s r s2 r2) :
    s2.flags.selected = true := by
  induction hl with
  | refl => exact h
  | call s1 r1 e c s2 o _ _ _ _ h4 ih => exact (step_flags_gain h4).1 ih
  | wait s1 r1 r2 _ _ ih => exact ih

theorem pl_Since_Lp {T0 : Nat} {hash : List Nat → List Nat} {s : State} {r : Nat}
    (h : pl_Lp T0 s) {s2 : State} {r2 : Nat} (hl : pl_Since hash s r s2 r2) : pl_Lp T0 s2 := by
  induction hl with
  | refl => exact h
  | call s1 r1 e c s2 o _ _ _ _ h4 ih => exact pl_step ih h4
  | wait s1 r1 r2 _ _ ih => exact ih

theorem pl_Since_Exact {T0 : Nat} {hash : List Nat → List Nat} {s : State} {r : Nat}
    (h : pl_Lp T0 s) (hE : pl_Exact (pl_view s)) {s2 : State} {r2 : Nat}
    (hl : pl_Since hash s r s2 r2) : pl_Lp T0 s2 ∧ pl_Exact (pl_view s2) := by
  induction hl with
  | refl => exact ⟨h, hE⟩
  | call s1 r1 e c s2 o _ _ _ _ h4 ih => exact ⟨pl_step ih.1 h4, pl_step_Exact ih.1 ih.2 h4⟩
  | wait s1 r1 r2 _ _ ih => exact ih

end LP

#print axioms LP.pl_claim_out
#print axioms LP.pl_claim_locked_out
#print axioms LP.pl_run_perTicket
#print axioms LP.pl_Since_Exact
