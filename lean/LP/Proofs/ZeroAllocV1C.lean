import LP.Proofs.ZeroAllocV1B
import LP.Proofs.Gaps
import LP.Proofs.LockedGuarClaim
/-
  LP.Proofs.ZeroAllocV1C — zero-size allocations in the v1 guaranteed family, part 4 (prefix `zw_`):
  the remaining headline facts of LP/Props/C01reachV1.lean derived from the simulation invariant
  `zv_Inv` (LP/Proofs/ZeroAllocV1B.lean) on the REAL state:

    `zw_fam`, `zw_done`          static facts of the real state
    `zw_proceeds_frame`          frame of the owner's proceeds after completion
    `zw_owner_surplus`           `claimPayment` leaves exactly the outstanding winners' tokens
    `zw_all_settled`             every range gone (or empty) ⇒ `nrWinning = 0`
    `zw_whitelist`               whitelist = holders of a positive guarantee (ghosts included)
    `zw_deposit`                 the deposit is `perTicket × T0`
    `zw_reachZ_noConf`           nothing is confirmed before the deposit (no simulation needed)
-/
namespace LP
open LP.FY LP.Events

/-- the variant of a state satisfying the simulation invariant -/
theorem zw_fam {T0 : Nat} {s : State} {r : Nat} (h : zv_Inv T0 s r) : v1_Fam s.variant := by
  rcases h with h | ⟨_, z, hz, hsim⟩
  · exact (zv_PA_flags h).2.2.2
  · exact zv_fam_of_sim hz hsim

/-- facts of the real state once all selection steps are complete -/
theorem zw_done {T0 : Nat} {s : State} {r : Nat} (h : zv_Inv T0 s r) (hd : AllDone s) :
    v1_Fam s.variant ∧ s.payTok ≠ .esdt s.lpTok ∧ s.lockPct ≤ 10000 ∧ s.flags.filtered = true ∧
    s.cfg.conf ≤ r ∧ s.cfg.sel ≤ r ∧ ∃ L, PayEqPost s L := by
  obtain ⟨z, hz, hsim⟩ := zv_Inv_selected h hd.1
  obtain ⟨hcfg, hfl, _⟩ := hsim.fields
  have hdz : AllDone z := by unfold AllDone; rw [hfl]; exact hd
  have hD : PhD z.core := v1_phase_D hz.phase hdz.2
  have hstz : z.flags.started = true := hD.started
  have hfilz : z.flags.filtered = true := hD.filtered
  obtain ⟨hc1, hc2⟩ := hz.tlStarted hstz
  rw [hcfg] at hc1 hc2
  have hfil : s.flags.filtered = true := by rw [← hfl]; exact hfilz
  have htok : s.payTok ≠ .esdt s.lpTok := by have := hz.tokNe; rw [hsim.rest] at this; exact this
  have hpct : s.lockPct ≤ 10000 := by have := hz.static.2; rw [hsim.rest] at this; exact this
  obtain ⟨L, _, _, h3⟩ := zv_Inv_ledger h
  exact ⟨zv_fam_of_sim hz hsim, htok, hpct, hfil, hc1, hc2, L, (h3 hd).1⟩

/-- **frame of the proceeds after completion** on the real state -/
theorem zw_proceeds_frame {T0 : Nat} {hash : List Nat → List Nat} {s s' : State} {e : Env} {c : Call}
    {o : Out} {r : Nat} (h : zv_Inv T0 s r) (hr : r ≤ e.round) (hd : AllDone s)
    (hs : step hash s e c = .ok (s', o)) :
    s'.price = s.price ∧ AllDone s' ∧
    (s'.claimablePayment = s.claimablePayment ∨ (c = .claimPayment ∧ s'.claimablePayment = 0)) := by
  obtain ⟨hfam, htok, hpct, hfil, hc1, hc2, L, hpost⟩ := zw_done h hd
  refine gp_proceeds_done hc1 hc2 hr hd hfil hs ?_ ?_
  · rintro rfl
    obtain ⟨t, hx, rfl⟩ := rb_step_np (by intro m hm; simp [endpointMeta] at hm; rw [← hm]) hs
    obtain ⟨_, rg, B, _, _, hs', _⟩ := v1_claim_state hfam htok hpct hx
    rw [hs']; rfl
  · rintro rfl
    obtain ⟨t, hx, rfl⟩ := rb_step_np (by intro m hm; simp [endpointMeta] at hm; rw [← hm]) hs
    obtain ⟨hv1, hv2, _⟩ := v1_fam_flags hfam
    simp only [exec, rbTx_s, hv1, Bool.false_eq_true, if_false, bind_ok_iff] at hx
    obtain ⟨t1, h1, hfin⟩ := hx
    obtain ⟨_, B, cp, hs1, _⟩ := rb_claimPaymentCommon_frame h1
    simp only [rbTx_s] at hs1
    have hvar : t1.s.variant = s.variant := by rw [hs1]
    rw [hvar, hv2] at hfin
    simp only [Bool.false_eq_true, if_false, pure_ok_iff] at hfin
    subst hfin
    obtain ⟨_, hz, _, _⟩ :=
      LP.Props.C01.claimPaymentCommon_keeps_post (rbTx s e) t1 e L htok h1 hpost
    exact hz

/-- **the owner withdraws only the surplus** -/
theorem zw_owner_surplus {T0 : Nat} {hash : List Nat → List Nat} {s s' : State} {e : Env}
    {o : Out} {r : Nat} (h : zv_Inv T0 s r)
    (hs : step hash s e .claimPayment = .ok (s', o)) :
    s'.bal (.esdt s'.lpTok) 0 = s'.perTicket * s'.nrWinning ∧ s'.nrWinning = s.nrWinning ∧
    s'.claimablePayment = 0 ∧ AllDone s := by
  have hfam := zw_fam h
  obtain ⟨t, hx, rfl⟩ := rb_step_np (by intro m hm; simp [endpointMeta] at hm; rw [← hm]) hs
  obtain ⟨hv1, hv2, _⟩ := v1_fam_flags hfam
  simp only [exec, rbTx_s, hv1, Bool.false_eq_true, if_false, bind_ok_iff] at hx
  obtain ⟨t1, h1, hfin⟩ := hx
  obtain ⟨hst, B, cp, hs1, _⟩ := rb_claimPaymentCommon_frame h1
  simp only [rbTx_s] at hs1 hst
  have hvar : t1.s.variant = s.variant := by rw [hs1]
  rw [hvar, hv2] at hfin
  simp only [Bool.false_eq_true, if_false, pure_ok_iff] at hfin
  subst hfin
  obtain ⟨hsel, hadd, _, _⟩ := v1_stage_claim hst
  have hd : AllDone s := ⟨hsel, hadd⟩
  obtain ⟨_, htok, _, _, _, _, L, hpost⟩ := zw_done h hd
  obtain ⟨_, hsur, k1, k2, k3⟩ := LP.Props.C02.owner_gets_only_surplus (rbTx s e) t1 e htok h1
  simp only [rbTx_s] at hsur k1 k2 k3
  obtain ⟨_, hz, _, _⟩ :=
    LP.Props.C01.claimPaymentCommon_keeps_post (rbTx s e) t1 e L htok h1 hpost
  exact ⟨by rw [k3, k2, k1]; exact hsur, k1, hz, hd⟩

/-- once every range is gone or empty no winner is outstanding -/
theorem zw_all_settled {T0 : Nat} {s : State} {r : Nat} (h : zv_Inv T0 s r) (hd : AllDone s)
    (hall : ∀ a rg, s.range a = some rg → ¬ rg.first ≤ rg.last) : s.nrWinning = 0 := by
  obtain ⟨z, hz, hsim⟩ := zv_Inv_selected h hd.1
  have hfl : z.flags = s.flags := hsim.fields.2.1
  have hdz : AllDone z := by unfold AllDone; rw [hfl]; exact hd
  have hallz : ∀ a, z.range a = none := by
    intro a
    rw [hsim.range]
    cases hr : s.range a with
    | none => exact z_eraseR_of_none hr
    | some rg => exact z_eraseR_of_empty hr (hall a rg hr)
  have := v1_all_settled_nrWinning hz hdz hallz
  obtain ⟨R, B, K, C, rfl⟩ := hsim.shape'
  exact this

/-- until the first accepted `distribute` call the whitelist is exactly the set of holders of a
    positive guarantee (ghost guarantees included) -/
theorem zw_whitelist {T0 : Nat} {s : State} {r : Nat} (h : zv_Inv T0 s r)
    (hna : s.flags.additional = false) (hop : s.flags.selected = true → s.op = .none) (u : Nat) :
    u ∈ s.whitelist ↔ ∃ st, s.uts u = some st ∧ st.c + st.d > 0 := by
  rcases h with h | ⟨_, z, hz, hsim⟩
  · have hiv2 : s.variant.isV2 = false := (v1_fam_flags (zv_PA_flags h).2.2.2).2.2.1
    have hb := h.gx.base
    rw [hiv2] at hb
    constructor
    · intro hm
      obtain ⟨st, h1, h2⟩ := hb.pos_of_mem u hm
      exact ⟨st, h1, by simpa using h2⟩
    · rintro ⟨st, h1, h2⟩
      exact hb.mem_of_pos u st h1 (by simpa using h2)
  · obtain ⟨_, hfl, _, _, _, hopz, _⟩ := hsim.fields
    have := v1_whitelist_intact hz (by rw [hfl]; exact hna)
      (by intro hh; rw [hopz]; exact hop (by rw [← hfl]; exact hh)) u
    obtain ⟨R, B, K, C, rfl⟩ := hsim.shape'
    exact this

/-- **the deposit** made before the filter has completed is `perTicket × T0` -/
theorem zw_deposit {T0 : Nat} {hash : List Nat → List Nat} {s s' : State} {e : Env}
    {o : Out} {r : Nat} (h : zv_Inv T0 s r) (hf : s.flags.filtered = false)
    (hs : step hash s e .deposit = .ok (s', o)) :
    s'.totalDeposited = s.perTicket * T0 ∧ s'.deposited = true ∧
    singleFungible e = .ok (.esdt s.lpTok, s.perTicket * T0) := by
  have hres := (zv_Inv_reserve h).1 hf
  have hmax : LP.Props.C02.maxWinners s = T0 := by
    unfold LP.Props.C02.maxWinners reservedForDeposit
    rw [(v1_fam_flags (zw_fam h)).2.2.2.2.1]
    exact hres
  obtain ⟨hs', _, _⟩ := LP.Props.C02.deposit_effect hash s s' e o hs
  have hacc := ((LP.Props.C02.deposit_accepted_iff hash s e).mp ⟨_, hs⟩).2.2
  rw [hmax] at hacc
  refine ⟨?_, ?_, hacc⟩
  · rw [hs', hmax]
  · rw [hs']

/-- **nothing is confirmed before the deposit** in every state reachable without `v1_CallOK`
    (direct induction over the relation; `confirm` requires the deposit, `LP.Props.C07`) -/
theorem zw_reachZ_noConf {hash : List Nat → List Nat} {v : Variant} {s : State} {r : Nat}
    (h : v1_ReachZ hash v s r) : lk_NoConf s := by
  induction h with
  | init a e s hh => exact lk_init_noConf hh
  | call s r e c s' o _ _ _ h4 ih => exact lk_step_noConf ih h4
  | wait s r r' _ _ ih => exact ih

end LP

#print axioms LP.zw_done
#print axioms LP.zw_proceeds_frame
#print axioms LP.zw_owner_surplus
#print axioms LP.zw_all_settled
#print axioms LP.zw_whitelist
#print axioms LP.zw_deposit
#print axioms LP.zw_reachZ_noConf
