import LP.Guaranteed
/-
  LP.Proofs.Leftover — one iteration of the v2 leftover re-draw (`leftoverBody hash true`) (C).
-/
namespace LP

theorem inRange_ge (raw mn mx : Nat) : mn ≤ inRange raw mn mx := by
  unfold inRange; split <;> omega

theorem inRange_lt (raw mn mx : Nat) (h : mn < mx) : inRange raw mn mx < mx := by
  unfold inRange
  rw [if_neg (by omega)]
  have := Nat.mod_lt raw (show mx - mn > 0 by omega)
  omega

/-- One iteration of the v2 leftover loop never fails and is one of:
    * STOP: nothing changes except that `leftover` may have been zeroed (all tickets win);
    * CONTINUE, the ticket at the current position already wins, or the drawn ticket already
      wins (positions swapped): flags and counters unchanged, `offset + 1`;
    * CONTINUE ("Ok" outcome): exactly one ticket id, not winning before, is marked; it is the
      id stored at a position `p ≥ nrOrig + offset` (and `p ≤ last` when the current position
      is); `leftover - 1`, `additional + 1`, `offset + 1`. -/
theorem leftoverBody_v2_step (hash : List Nat → List Nat) (nrOrig last : Nat) (x : LSt) :
    ∃ x' b, leftoverBody hash true nrOrig last x = .ok (x', b) ∧
      ((b = false ∧ x'.offset = x.offset ∧ x'.status = x.status ∧ x'.posToId = x.posToId ∧
          x'.additional = x.additional ∧ (nrOrig + x.additional ≥ last ∨ x.leftover = 0)) ∨
       (b = true ∧ x'.offset = x.offset + 1 ∧ nrOrig + x.additional < last ∧ x.leftover ≠ 0 ∧
          ((x'.status = x.status ∧ x'.leftover = x.leftover ∧ x'.additional = x.additional) ∨
           (∃ p, nrOrig + x.offset ≤ p ∧ (nrOrig + x.offset ≤ last → p ≤ last) ∧
              x.status (idFromPos x.posToId p) = false ∧
              x'.status = upd x.status (idFromPos x.posToId p) true ∧
              x'.posToId = upd x.posToId p (idFromPos x.posToId (nrOrig + x.offset)) ∧
              x'.leftover + 1 = x.leftover ∧ x'.additional = x.additional + 1)))) := by
  unfold leftoverBody
  by_cases hfull : nrOrig + x.additional ≥ last
  · refine ⟨{ x with leftover := 0 }, false, ?_, Or.inl ⟨rfl, rfl, rfl, rfl, rfl, Or.inl hfull⟩⟩
    simp [hfull]
  · simp only [hfull, if_false]
    by_cases hlo : x.leftover = 0
    · exact ⟨x, false, by simp [hlo], Or.inl ⟨rfl, rfl, rfl, rfl, rfl, Or.inr hlo⟩⟩
    · simp only [hlo, if_false]
      by_cases hcur : x.status (idFromPos x.posToId (nrOrig + x.offset)) = true
      · refine ⟨{ x with offset := x.offset + 1 }, true, by simp [hcur], Or.inr ⟨rfl, rfl,
          by omega, hlo, Or.inl ⟨rfl, rfl, rfl⟩⟩⟩
      · simp only [hcur, Bool.false_eq_true, if_false]
        generalize x.tx.draw hash x.rng = d
        obtain ⟨raw, rng', tx'⟩ := d
        simp only []
        by_cases hsel : x.status (idFromPos x.posToId
            (inRange raw (nrOrig + x.offset) (last + 1))) = true
        · simp only [hsel, if_true]
          exact ⟨_, true, rfl, Or.inr ⟨rfl, rfl, by omega, hlo, Or.inl ⟨rfl, rfl, rfl⟩⟩⟩
        · simp only [hsel, Bool.false_eq_true, if_false]
          refine ⟨_, true, rfl, Or.inr ⟨rfl, rfl, by omega, hlo, Or.inr
            ⟨inRange raw (nrOrig + x.offset) (last + 1), inRange_ge _ _ _, ?_,
              by simpa using hsel, rfl, rfl, ?_, rfl⟩⟩⟩
          · intro hle
            have := inRange_lt raw (nrOrig + x.offset) (last + 1) (by omega)
            omega
          · show x.leftover - 1 + 1 = x.leftover
            omega

/-- consequence: a continuing iteration consumes exactly one position, so `k` continuing
    iterations move `offset` by `k`; flags only gain; `leftover + additional` is constant
    unless the loop stops by zeroing `leftover` -/
theorem leftoverBody_v2_mono (hash : List Nat → List Nat) (nrOrig last : Nat) (x x' : LSt)
    (b : Bool) (h : leftoverBody hash true nrOrig last x = .ok (x', b)) :
    (∀ t, x.status t = true → x'.status t = true) ∧
    (b = true → x'.offset = x.offset + 1 ∧
      x'.leftover + x'.additional = x.leftover + x.additional) := by
  obtain ⟨y, c, hy, hcase⟩ := leftoverBody_v2_step hash nrOrig last x
  rw [hy] at h
  cases h
  rcases hcase with ⟨hb, _, hs, _⟩ | ⟨hb, ho, _, hl, hcase⟩
  · exact ⟨fun t ht => by rw [hs]; exact ht, fun hb' => by rw [hb] at hb'; cases hb'⟩
  · rcases hcase with ⟨hs, h1, h2⟩ | ⟨p, _, _, hp, hs, _, h1, h2⟩
    · exact ⟨fun t ht => by rw [hs]; exact ht, fun _ => ⟨ho, by omega⟩⟩
    · refine ⟨fun t ht => ?_, fun _ => ⟨ho, by omega⟩⟩
      rw [hs, upd_apply]; split
      · rfl
      · exact ht

/-! ### the position invariant -/

/-- positions `≥ k` (up to `last`) hold pairwise distinct ticket ids -/
def PosDistinct (last : Nat) (posToId : Nat → Nat) (k : Nat) : Prop :=
  ∀ p q, k ≤ p → p < q → q ≤ last → idFromPos posToId p ≠ idFromPos posToId q

theorem idFromPos_ne_zero (f : Nat → Nat) (p : Nat) (hp : p ≠ 0) : idFromPos f p ≠ 0 := by
  unfold idFromPos; split <;> assumption

theorem idFromPos_upd (f : Nat → Nat) (p v q : Nat) (hv : v ≠ 0) :
    idFromPos (upd f p v) q = if q = p then v else idFromPos f q := by
  unfold idFromPos
  simp only [upd_apply]
  by_cases h : q = p
  · simp [h, hv]
  · simp [h]

/-- moving the id of the current position to a later position keeps the later ids distinct -/
theorem PosDistinct.write {last cur rp : Nat} {f f' : Nat → Nat}
    (h : PosDistinct last f cur)
    (hf : ∀ p, cur < p → idFromPos f' p = if p = rp then idFromPos f cur else idFromPos f p) :
    PosDistinct last f' (cur + 1) := by
  intro p q hp hpq hq
  rw [hf p (by omega), hf q (by omega)]
  by_cases h1 : p = rp <;> by_cases h2 : q = rp
  · omega
  · simp only [h1, h2, if_true, if_false]
    subst h1; exact h cur q (Nat.le_refl _) (by omega) hq
  · simp only [h1, h2, if_true, if_false]
    subst h2; exact fun e => h cur p (Nat.le_refl _) (by omega) (by omega) e.symm
  · simp only [h1, h2, if_false]
    exact h p q (by omega) hpq hq

/-- every continuing iteration of the v2 loop re-establishes the position invariant one
    position further: positions `> nrOrig + offset - 1` hold pairwise distinct ticket ids -/
theorem leftoverBody_v2_posDistinct (hash : List Nat → List Nat) (nrOrig last : Nat)
    (x x' : LSt) (hcur : nrOrig + x.offset ≠ 0)
    (hinv : PosDistinct last x.posToId (nrOrig + x.offset))
    (h : leftoverBody hash true nrOrig last x = .ok (x', true)) :
    PosDistinct last x'.posToId (nrOrig + x'.offset) := by
  have hcid := idFromPos_ne_zero x.posToId _ hcur
  unfold leftoverBody at h
  by_cases hfull : nrOrig + x.additional ≥ last
  · simp [hfull] at h
  · simp only [hfull, if_false] at h
    by_cases hlo : x.leftover = 0
    · simp [hlo] at h
    · simp only [hlo, if_false] at h
      by_cases hc : x.status (idFromPos x.posToId (nrOrig + x.offset)) = true
      · simp only [hc, if_true, Except.ok.injEq, Prod.mk.injEq, and_true] at h
        subst h
        exact fun p q hp hpq hq => hinv p q (by simp only at hp; omega) hpq hq
      · simp only [hc, Bool.false_eq_true, if_false] at h
        generalize x.tx.draw hash x.rng = d at h
        obtain ⟨raw, rng', tx'⟩ := d
        simp only [] at h
        have hge := inRange_ge raw (nrOrig + x.offset) (last + 1)
        by_cases hsel : x.status (idFromPos x.posToId
            (inRange raw (nrOrig + x.offset) (last + 1))) = true
        · simp only [hsel, if_true, Except.ok.injEq, Prod.mk.injEq, and_true] at h
          subst h
          refine hinv.write (rp := inRange raw (nrOrig + x.offset) (last + 1)) ?_
          intro p hp
          rw [idFromPos_upd _ _ _ _ hcid]
          split
          · rfl
          · unfold idFromPos
            rw [upd_other _ _ _ _ (by omega)]
        · simp only [hsel, Bool.false_eq_true, if_false, Except.ok.injEq, Prod.mk.injEq,
            and_true] at h
          subst h
          refine hinv.write (rp := inRange raw (nrOrig + x.offset) (last + 1)) ?_
          intro p hp
          exact idFromPos_upd _ _ _ _ hcid

/-
  NOT PROVED (stretch goal C, remaining parts):
  * "the Ok outcome marks a ticket id in `1..last`" and "the loop stops after at most
    `last - nrOrig + 1` iterations" both need the permutation invariant of `posToId`
    (positions `> nrOrig + offset - 1` hold pairwise distinct ids of `1..last`, positions
    below hold winning ids) together with the count `#winning = nrOrig + additional`; from
    these `nrOrig + offset ≤ last` follows whenever the loop continues.  The invariant is
    PosInv last status posToId k :=
      (∀ p, k ≤ p → p ≤ last → 1 ≤ idFromPos posToId p ∧ idFromPos posToId p ≤ last) ∧
      (∀ p q, k ≤ p → p < q → q ≤ last → idFromPos posToId p ≠ idFromPos posToId q)
    with k = nrOrig + offset; `leftoverBody_v2_step` shows what each outcome writes:
    `upd posToId p curId` (Ok) resp. the swap `upd (upd posToId cur selId) p curId`, both of
    which keep the ids at positions `≥ k + 1` pairwise distinct (that part IS proved:
    `leftoverBody_v2_posDistinct`); the range part and the counting are not formalised.
-/

end LP

namespace LP
/-- the identity placement (fresh `posToId`) satisfies the position invariant -/
example : PosDistinct 10 (fun _ => 0) 3 := by
  intro p q _ hpq _
  simp only [idFromPos, if_true]; omega
end LP
