import LP.Props.C01zeroG1full
/-
  LP.Proofs.ZeroAllocG1FullD — zero-size allocations for `Variant.guarV1` without any restriction
  on the allocation entries, part 4: what is needed to transfer the remaining headline theorems of
  LP/Props/C01reachG1.lean to `g1_ReachFull` / `g1_ReachFullA`:
    * `zi_static`, `zi_done_facts`: the static facts of the invariant `g1_WF` that hold on the REAL
      state (variant, distinct tokens, timeline once the filter has started, flags once complete);
    * `zi_done_frame`: `g1_done_frame` with the hypothesis `g1_WF` replaced by exactly those facts;
    * `zi_whitelist_intact`: the whitelist is the set of holders of a positive guarantee (ghosts
      included) until the first accepted `distribute` call;
    * `g1_LaterFull` (= `g1_Later` without the premise `v1_CallOK`), `zi_later_frozen`,
      `zi_later_settled`: the schedule is frozen once the confirmation period has started, a settled
      participant's entitlement never changes.
-/
namespace LP
open LP.FY LP.Events

/-! ### static facts on the real state -/

/-- variant, distinct tokens, and the timeline once the filter has started -/
theorem zi_static {T0 : Nat} {s : State} {r : Nat} (h : zh_Inv T0 s r) :
    s.variant = .guarV1 ∧ s.payTok ≠ .esdt s.lpTok ∧
    (s.flags.started = true → s.cfg.conf ≤ r ∧ s.cfg.sel ≤ r) := by
  rcases h with h | ⟨_, z, hz, hsim⟩
  · obtain ⟨U, BU, N, TG, hwf, _⟩ := h.sh
    exact ⟨hwf.var, hwf.tokNe, fun hst => by rw [h.ns] at hst; cases hst⟩
  · have hv := hz.var
    have ht := hz.tokNe
    have hl := hz.tlStarted
    obtain ⟨w, rfl⟩ := hsim.shape'
    exact ⟨hv, ht, hl⟩

/-- once every selection step is complete the filter has started and completed -/
theorem zi_done_facts {T0 : Nat} {s : State} {r : Nat} (h : zh_Inv T0 s r) (hd : AllDone s) :
    s.flags.started = true ∧ s.flags.filtered = true := by
  obtain ⟨z, hz, hsim, hdz⟩ := zh_Inv_done h hd
  have hD := v1_phase_D hz.phase hdz.2
  have hfl : z.flags = s.flags := hsim.fields.2.1
  exact ⟨by rw [← hfl]; exact hD.started, by rw [← hfl]; exact hD.filtered⟩

/-- a settled address has settled after all selection steps -/
theorem zi_settled_done {T0 : Nat} {s : State} {r : Nat} (h : zh_Inv T0 s r) {a : Nat}
    (hcl : s.claimed a = true) : AllDone s := by
  rcases h with h | ⟨_, z, hz, hsim⟩
  · rw [(zh_PA_fresh h a).2.2] at hcl; cases hcl
  · exact hsim.done a hcl

/-! ### the frame once every selection step is complete (copy of `g1_done_frame`,
    LP/Proofs/ReachG1Frame.lean, with `g1_WF` replaced by the facts it used) -/

theorem zi_done_frame {hash : List Nat → List Nat} {s s' : State} {e : Env} {c : Call}
    {o : Out} {r : Nat} (hvar : s.variant = .guarV1) (htok : s.payTok ≠ .esdt s.lpTok)
    (hc1 : s.cfg.conf ≤ r) (hc2 : s.cfg.sel ≤ r) (hfil : s.flags.filtered = true)
    (hr : r ≤ e.round) (hd : AllDone s)
    (hs : step hash s e c = .ok (s', o)) :
    s'.price = s.price ∧ s'.flags = s.flags ∧
    (s'.claimablePayment = s.claimablePayment ∨ (c = .claimPayment ∧ s'.claimablePayment = 0)) ∧
    (c ≠ .claim → s'.userTotal = s.userTotal ∧ s'.userClaimed = s.userClaimed ∧
      s'.claimed = s.claimed) := by
  have hex := g1_exposed hvar hs
  have hnotAdd : s.stage e ≠ .addTickets := fun hh => by have := rb_stage_addTickets hh; omega
  have hnotConf : s.stage e ≠ .confirm := fun hh => by have := (rb_stage_confirm hh).2; omega
  cases c with
  | addTicketsV1 l =>
    exact absurd (LP.Props.C06.alloc_only_in_addTickets hash s e _ _ (Or.inr (Or.inl ⟨l, rfl⟩)) hs) hnotAdd
  | setTicketPrice tok a =>
    exact absurd (LP.Props.C06.terms_only_in_addTickets hash s e _ _ (Or.inl ⟨tok, a, rfl⟩) hs) hnotAdd
  | setPerTicket a =>
    exact absurd (LP.Props.C06.terms_only_in_addTickets hash s e _ _ (Or.inr (Or.inl ⟨a, rfl⟩)) hs) hnotAdd
  | confirm n =>
    exact absurd (LP.Props.C06.confirm_only_in_confirm hash s e _ _ (Or.inl ⟨n, rfl⟩) hs) hnotConf
  | blacklist l =>
    rcases LP.Props.C06.blacklist_only_before_selection hash s e _ _ (Or.inl ⟨l, rfl⟩) hs with hh | hh
    · exact absurd hh hnotAdd
    · exact absurd hh hnotConf
  | unblacklist l =>
    rcases LP.Props.C06.blacklist_only_before_selection hash s e _ _ (Or.inr (Or.inr ⟨l, rfl⟩)) hs with hh | hh
    · exact absurd hh hnotAdd
    · exact absurd hh hnotConf
  | filter =>
    have := (LP.Props.C06.filter_gate hash s e _ hs).2
    rw [hfil] at this; cases this
  | select =>
    have := (LP.Props.C06.select_gate hash s e _ hs).2.2
    rw [hd.1] at this; cases this
  | distribute =>
    exfalso
    obtain ⟨t, hx, _, _⟩ := LP.Props.C20.step_nopay_inv (by
      intro m hm; simp only [endpointMeta] at hm; split at hm
      · simp at hm; rw [← hm]
      · cases hm) hs
    simp only [exec] at hx
    have := (distribute_ok_cases hash _ t e hx).1.notDone
    have h2 : s.flags.additional = true := hd.2
    simp only [LP.Props.C20.txOf] at this
    rw [h2] at this; cases this
  | setConfStart x =>
    obtain ⟨t, hx, rfl⟩ := rb_step_np (by intro m hm; simp [endpointMeta] at hm; rw [← hm]) hs
    have := (exec_setConfStart_s hx).2.1
    have : e.round < s.cfg.conf := this
    omega
  | setSelStart x =>
    obtain ⟨t, hx, rfl⟩ := rb_step_np (by intro m hm; simp [endpointMeta] at hm; rw [← hm]) hs
    have := (exec_setSelStart_s hx).2.1
    have : e.round < s.cfg.sel := this
    omega
  | setClaimStart x =>
    obtain ⟨t, hx, rfl⟩ := rb_step_np (by intro m hm; simp [endpointMeta] at hm; rw [← hm]) hs
    rw [(exec_setClaimStart_s hx).1]
    exact ⟨rfl, rfl, Or.inl rfl, fun _ => ⟨rfl, rfl, rfl⟩⟩
  | setSupport a =>
    obtain ⟨t, hx, rfl⟩ := rb_step_np (by intro m hm; simp [endpointMeta] at hm; rw [← hm]) hs
    simp only [exec, pure_ok_iff] at hx
    subst hx
    exact ⟨rfl, rfl, Or.inl rfl, fun _ => ⟨rfl, rfl, rfl⟩⟩
  | pause =>
    obtain ⟨t, hx, rfl⟩ := rb_step_np (by intro m hm; simp [endpointMeta] at hm; rw [← hm]) hs
    simp only [exec, pure_ok_iff] at hx
    subst hx
    exact ⟨rfl, rfl, Or.inl rfl, fun _ => ⟨rfl, rfl, rfl⟩⟩
  | unpause =>
    obtain ⟨t, hx, rfl⟩ := rb_step_np (by intro m hm; simp [endpointMeta] at hm; rw [← hm]) hs
    simp only [exec, pure_ok_iff] at hx
    subst hx
    exact ⟨rfl, rfl, Or.inl rfl, fun _ => ⟨rfl, rfl, rfl⟩⟩
  | deposit =>
    obtain ⟨m, t, _, _, _, hx, rfl, _⟩ := step_ok_inv hs
    rw [(exec_deposit_s hx).2]
    exact ⟨rfl, rfl, Or.inl rfl, fun _ => ⟨rfl, rfl, rfl⟩⟩
  | setSchedule1 a b c d f =>
    rw [setSchedule1_sched1 hs]
    exact ⟨rfl, rfl, Or.inl rfl, fun _ => ⟨rfl, rfl, rfl⟩⟩
  | claim =>
    obtain ⟨t, hx, rfl⟩ := rb_step_np (by intro m hm; simp [endpointMeta] at hm; rw [← hm]) hs
    obtain ⟨hvest, _, hv2, _⟩ := g1_flags hvar
    simp only [exec, rbTx_s, hvest, if_true] at hx
    obtain ⟨t1, c, h1, _, hts, _⟩ := g1_claimVested_state hv2 hx
    rcases v2_claimSettle_state h1 with ⟨_, rfl⟩ | ⟨_, _, rg, B, _, _, ht1, _⟩
    · rw [hts]; exact ⟨rfl, rfl, Or.inl rfl, fun hc => absurd rfl hc⟩
    · rw [hts, ht1]; exact ⟨rfl, rfl, Or.inl rfl, fun hc => absurd rfl hc⟩
  | claimPayment =>
    obtain ⟨t, hx, rfl⟩ := rb_step_np (by intro m hm; simp [endpointMeta] at hm; rw [← hm]) hs
    obtain ⟨hvest, _, hv2, _⟩ := g1_flags hvar
    simp only [exec, rbTx_s, hvest, if_true] at hx
    obtain ⟨_, _, _, hts⟩ := v2_claimPaymentOwn_state htok hx
    rw [hts]
    exact ⟨rfl, rfl, Or.inr ⟨rfl, rfl⟩, fun _ => ⟨rfl, rfl, rfl⟩⟩
  | _ => exact absurd hex id

/-- the frame from the simulation invariant -/
theorem zi_Inv_done_frame {T0 : Nat} {hash : List Nat → List Nat} {s s' : State} {e : Env} {c : Call}
    {o : Out} {r : Nat} (h : zh_Inv T0 s r) (hr : r ≤ e.round) (hd : AllDone s)
    (hs : step hash s e c = .ok (s', o)) :
    s'.price = s.price ∧ s'.flags = s.flags ∧
    (s'.claimablePayment = s.claimablePayment ∨ (c = .claimPayment ∧ s'.claimablePayment = 0)) ∧
    (c ≠ .claim → s'.userTotal = s.userTotal ∧ s'.userClaimed = s.userClaimed ∧
      s'.claimed = s.claimed) := by
  obtain ⟨hvar, htok, htl⟩ := zi_static h
  obtain ⟨hst, hfil⟩ := zi_done_facts h hd
  obtain ⟨hc1, hc2⟩ := htl hst
  exact zi_done_frame hvar htok hc1 hc2 hfil hr hd hs

/-! ### the whitelist until the first accepted `distribute` call -/

/-- until the first `distribute` call is accepted, the whitelist is exactly the set of holders of
    a positive guarantee — ghost guarantees included -/
theorem zi_whitelist_intact {T0 : Nat} {s : State} {r : Nat} (h : zh_Inv T0 s r)
    (hna : s.flags.additional = false) (hop : s.flags.selected = true → s.op = .none) (u : Nat) :
    u ∈ s.whitelist ↔ ∃ st, s.uts u = some st ∧ st.c + st.d > 0 := by
  rcases h with h | ⟨_, z, hz, hsim⟩
  · have hvar := (zh_PA_flags h).2.2.2
    have hiv2 : s.variant.isV2 = false := by rw [hvar]; rfl
    have hb := h.gx.base
    rw [hiv2] at hb
    constructor
    · intro hm
      obtain ⟨st, h1, h2⟩ := hb.pos_of_mem u hm
      exact ⟨st, h1, by simpa using h2⟩
    · rintro ⟨st, h1, h2⟩
      exact hb.mem_of_pos u st h1 (by simpa using h2)
  · obtain ⟨_, hfl, _, _, _, hop', _, _, hwl, _⟩ := hsim.fields
    have key := g1_whitelist_intact hz (by rw [hfl]; exact hna) (by rw [hfl, hop']; exact hop) u
    rw [hwl] at key
    rw [key]
    rcases hsim.uts u with h0 | ⟨h0, st, h1, h2, h3⟩
    · rw [h0]
    · constructor
      · rintro ⟨st', k1, _⟩
        rw [h0] at k1; cases k1
      · rintro ⟨st', k1, k2⟩
        rw [h1] at k1
        injection k1 with k1
        subst k1
        omega

/-! ### later states, without any premise on the calls -/

/-- `g1_LaterFull hash s r s2 r2`: `s2` (at round `r2`) is reached from `s` (at round `r`) by ANY
    accepted calls (no restriction on the allocation entries) with non-decreasing rounds and by the
    passing of time: `g1_Later` without the premise `v1_CallOK c` -/
inductive g1_LaterFull (hash : List Nat → List Nat) (s : State) (r : Nat) : State → Nat → Prop
  | refl : g1_LaterFull hash s r s r
  | call (s1 : State) (r1 : Nat) (e : Env) (c : Call) (s2 : State) (o : Out) :
      g1_LaterFull hash s r s1 r1 → r1 ≤ e.round → EnvOK e →
      step hash s1 e c = .ok (s2, o) → g1_LaterFull hash s r s2 e.round
  | wait (s1 : State) (r1 r2 : Nat) : g1_LaterFull hash s r s1 r1 → r1 ≤ r2 → g1_LaterFull hash s r s1 r2

/-- the restricted relation is contained in the unrestricted one -/
theorem g1_Later.toFull {hash : List Nat → List Nat} {s : State} {r : Nat} {s2 : State} {r2 : Nat}
    (hl : g1_Later hash s r s2 r2) : g1_LaterFull hash s r s2 r2 := by
  induction hl with
  | refl => exact .refl
  | call s1 r1 e c s2 o _ k1 k2 _ k4 ih => exact .call s1 r1 e c s2 o ih k1 k2 k4
  | wait s1 r1 r2 _ k1 ih => exact .wait s1 r1 r2 ih k1

theorem g1_LaterFull.reach {hash : List Nat → List Nat} {a0 : InitArgs} {s : State} {r : Nat}
    (h : g1_ReachFullA hash a0 s r) {s2 : State} {r2 : Nat} (hl : g1_LaterFull hash s r s2 r2) :
    g1_ReachFullA hash a0 s2 r2 ∧ r ≤ r2 := by
  induction hl with
  | refl => exact ⟨h, Nat.le_refl _⟩
  | call s1 r1 e c s2 o _ k1 k2 k4 ih => exact ⟨.call s1 r1 e c s2 o ih.1 k1 k2 k4, by have := ih.2; omega⟩
  | wait s1 r1 r2 _ k1 ih => exact ⟨.wait s1 r1 r2 ih.1 k1, by have := ih.2; omega⟩

/-- **the schedule is frozen once the confirmation period has started** (`g1_later_frozen` for the
    unrestricted relation; the start state need not be reachable) -/
theorem zi_later_frozen {hash : List Nat → List Nat} {s : State} {r : Nat} {sc : Sched1}
    (hconf : s.cfg.conf ≤ r) (hsc : s.sched1 = some sc) {s2 : State} {r2 : Nat}
    (hl : g1_LaterFull hash s r s2 r2) :
    s2.sched1 = some sc ∧ s2.cfg.conf = s.cfg.conf ∧ r ≤ r2 := by
  induction hl with
  | refl => exact ⟨hsc, rfl, Nat.le_refl _⟩
  | call s1 r1 e c s2 o _ k1 _ k4 ih =>
    obtain ⟨i1, i2, i3⟩ := ih
    have hge : s1.cfg.conf ≤ e.round := by rw [i2]; omega
    have hst : s1.stage e ≠ .addTickets := (LP.Props.C17.stage_ne_addTickets_iff s1 e).2 hge
    have h1 := LP.Props.C17.sched1_frozen k4 hst (by rw [i1]; exact nofun)
    have h2 := conf_frozen_once_reached k4 hge
    exact ⟨by rw [h1]; exact i1, by rw [h2]; exact i2, by omega⟩
  | wait s1 r1 r2 _ k1 ih => exact ⟨ih.1, ih.2.1, by have := ih.2.2; omega⟩

/-- **a settled participant's entitlement never changes** (`g1_later_settled` for the unrestricted
    relations): he stays settled, his booked amount never decreases, the completion flags stay
    set -/
theorem zi_later_settled {hash : List Nat → List Nat} {a0 : InitArgs} {s : State} {r : Nat}
    (h : g1_ReachFullA hash a0 s r) {a : Nat} (hcl : s.claimed a = true) {s2 : State} {r2 : Nat}
    (hl : g1_LaterFull hash s r s2 r2) :
    s2.claimed a = true ∧ s2.userTotal a = s.userTotal a ∧ s.userClaimed a ≤ s2.userClaimed a ∧
    AllDone s2 := by
  induction hl with
  | refl => exact ⟨hcl, rfl, Nat.le_refl _, zi_settled_done (zh_sim h) hcl⟩
  | call s1 r1 e c s2 o hl1 k1 k2 k4 ih =>
    obtain ⟨i1, i2, i3, i4⟩ := ih
    have hre := (g1_LaterFull.reach h hl1).1
    obtain ⟨_, hfl, _, hfr⟩ := zi_Inv_done_frame (zh_sim hre) k1 i4 k4
    have hd2 : AllDone s2 := by unfold AllDone; rw [hfl]; exact i4
    by_cases hc : c = .claim
    · subst hc
      obtain ⟨_, _, j3, _, _, _, j7, j8, _⟩ :=
        LP.Props.C01zeroG1full.claim_releases_exactly_guarV1_full hash s1 r1
          (g1_ReachFull_iff.mpr ⟨a0, hre⟩) e s2 o k1 k2 k4
      have hcl2 := (LP.Props.C09.step_claimed_exact hash s1 e .claim s2 o k4).2 rfl
      by_cases hae : a = e.caller
      · subst hae
        exact ⟨by rw [hcl2, upd_same], by rw [j8 i1]; exact i2, by omega, hd2⟩
      · obtain ⟨q1, q2⟩ := j7 a hae
        exact ⟨by rw [hcl2, upd_other _ _ _ _ hae]; exact i1, by rw [q2]; exact i2,
          by rw [q1]; exact i3, hd2⟩
    · obtain ⟨q1, q2, q3⟩ := hfr hc
      exact ⟨by rw [q3]; exact i1, by rw [q1]; exact i2, by rw [q2]; exact i3, hd2⟩
  | wait s1 r1 r2 _ k1 ih => exact ih

end LP

#print axioms LP.zi_done_frame
#print axioms LP.zi_whitelist_intact
#print axioms LP.zi_later_frozen
#print axioms LP.zi_later_settled
