import LP.Proofs.ReachG1Easy
/-
  LP.Proofs.ReachG1Alloc — preservation of `g1_WF` (`Variant.guarV1`) by the three endpoints that
  move the guaranteed-ticket reserve before the selection: `addTicketsV1`, `blacklist` (v1 clear
  hook) and `unblacklist` (v1 restore hook).  Same proofs as `LP/Proofs/ReachV1Alloc.lean`; the
  launchpad-token / vesting part is carried by `g1_Vest.early` (`nrWinning + reserve` conserved).
-/
namespace LP
open LP.FY LP.Events

theorem g1_addTicketsV1 {T0 : Nat} {hash : List Nat → List Nat} {s s' : State} {e : Env} {o : Out}
    {r : Nat} {l : List (Nat × Nat × Nat × Bool)} (h : g1_WF T0 s r) (hr : r ≤ e.round)
    (hpos : ∀ q ∈ l, 1 ≤ q.2.1 + q.2.2.1)
    (hs : step hash s e (.addTicketsV1 l) = .ok (s', o)) : g1_WF T0 s' e.round := by
  have hiv2 : s.variant.isV2 = false := (g1_flags h.var).2.2.1
  obtain ⟨t, hx, rfl⟩ := rb_step_np (by
    intro m hm; simp only [endpointMeta] at hm; split at hm
    · simp at hm; rw [← hm]
    · cases hm) hs
  simp only [exec, bind_ok_iff, pure_ok_iff] at hx
  obtain ⟨s1, hat, rfl⟩ := hx
  have hat' : addTicketsV1 s e l = .ok s1 := hat
  obtain ⟨hst, s0', hcm, hrg, hbt, hlt1, wl, u, tw, tg, heq⟩ := v1_addTicketsV1_inv hat'
  have hlt : e.round < s.cfg.conf := rb_stage_addTickets hst
  have hz : ∀ a, s.confirmed a = 0 := h.tlConf (by omega)
  have hns : s.flags.started = false := g1_notStarted_of_lt h hr (Or.inl hlt)
  obtain ⟨hadd, htg, L0, hp, ha, hg⟩ := v1_phase_notStarted h.phase hns
  have hX : GuarInvX s := (v1_GX_iff s hiv2).mpr hg
  obtain ⟨hcons, hX'⟩ := v1_step_guar (c := .addTicketsV1 l) rfl hX hs
  have hpos' : ∀ p ∈ v1_proj l, 1 ≤ p.2 := by
    intro p hp1
    obtain ⟨q, hq, rfl⟩ := List.mem_map.mp hp1
    exact hpos q hq
  obtain ⟨hnd, hnone, _, hlast, hchain, hfr, hfb, _⟩ := createMany_ok (v1_proj l) s s0' hcm
  have hch := hchain hpos'
  -- new addresses are not in the old list
  have hnew : ∀ a, a ∈ (v1_proj l).map Prod.fst → a ∉ L0.map Prod.fst := by
    intro a ha1 ha2
    obtain ⟨rr, hrr⟩ := rb_Chain_range_some ha.chain ha2
    have hn : s.range a = none := hnone a ha1
    have hrr' : s.range a = some rr := hrr
    rw [hn] at hrr'; cases hrr'
  have hl0 : s.lastTicketId = ticketTotal L0 := ha.last
  have hnrw0 : s.nrWinning = T0 - s.totalGuaranteed := hp.nrw
  have htg0 : s.totalGuaranteed ≤ T0 := htg
  have hs1v : (Tx.setS (rbTx s e) s1).s = s1 := rfl
  rw [hs1v] at hcons hX' ⊢
  have hiv2' : s1.variant.isV2 = false := by rw [heq]; exact hiv2
  have hg' := (v1_GX_iff s1 hiv2').mp hX'
  have htw : s1.nrWinning = tw := by rw [heq]
  have htg1 : s1.totalGuaranteed = tg := by rw [heq]
  rw [htw, htg1] at hcons
  have hrg1 : s1.range = s0'.range := hrg
  have hbt1 : s1.batch = s0'.batch := hbt
  have hlt2 : s1.lastTicketId = s0'.lastTicketId := hlt1
  refine ⟨by rw [heq]; exact h.var, by rw [heq]; exact h.pricePos, by rw [heq]; exact h.tokNe,
    by rw [heq]; exact h.static, by rw [heq]; exact h.balOther, ?_, ?_, ?_, ?_⟩
  · intro _ a; rw [heq]; exact hz a
  · intro hst2
    have hst3 : s.flags.started = true := by rw [heq] at hst2; exact hst2
    have := h.tlStarted hst3
    rw [heq]
    exact ⟨by show s.cfg.conf ≤ e.round; omega, by show s.cfg.sel ≤ e.round; omega⟩
  · exact g1_vs_early h hr hadd (by rw [heq]; exact hadd) (by rw [heq]; rfl) (by rw [heq])
      (by rw [htw, htg1]; omega) (fun _ a => by rw [heq]; exact hz a)
  · have hfl : s1.flags = s.flags := by rw [heq]
    have htgv : (v1_gv s1).tg = tg := htg1
    refine v1_mk_phaseA (L0 := L0 ++ v1_proj l) (by show s1.flags.additional = false; rw [hfl]; exact hadd)
      (by rw [htgv]; omega) ?_ ?_ hg'
    · refine ⟨?_, ?_, ?_, ?_, ?_, ⟨?_, ?_, ?_⟩, ?_, ?_, ?_⟩
      · show s1.flags.filtered = false; rw [hfl]; exact hp.notFiltered
      · show s1.flags.selected = false; rw [hfl]; exact hp.notSelected
      · show s1.nrWinning = T0 - (v1_gv s1).tg
        rw [htw, htgv]; omega
      · show s1.status = _; rw [heq]; exact hp.status0
      · show s1.posToId = _; rw [heq]; exact hp.pos0
      · rw [List.map_append, List.nodup_append]
        exact ⟨hp.ok.nodup, hnd, fun a ha1 b hb1 hab => hnew b hb1 (hab ▸ ha1)⟩
      · intro p hp1
        rcases List.mem_append.mp hp1 with hp1 | hp1
        · exact hp.ok.pos p hp1
        · exact hpos' p hp1
      · intro p hp1
        show s1.confirmed p.1 ≤ p.2
        have : s1.confirmed = s.confirmed := by rw [heq]
        rw [this, hz]; omega
      · intro a _
        show s1.confirmed a = 0
        have : s1.confirmed = s.confirmed := by rw [heq]
        rw [this]; exact hz a
      · intro a ha1
        rw [List.map_append, List.mem_append, not_or] at ha1
        show s1.range a = none
        rw [hrg1, hfr a ha1.2]; exact hp.outR a ha1.1
      · show s1.bal s1.payTok 0 = s1.price * sumOver s1.confirmed ((L0 ++ v1_proj l).map Prod.fst)
        have e1 : s1.confirmed = s.confirmed := by rw [heq]
        have e2 : s1.bal = s.bal := by rw [heq]
        have e3 : s1.payTok = s.payTok := by rw [heq]
        have e4 : s1.price = s.price := by rw [heq]
        rw [e1, e2, e3, e4, sumOver_zero _ _ (fun a _ => hz a)]
        have : s.bal s.payTok 0 = s.price * sumOver s.confirmed (L0.map Prod.fst) := hp.pay
        rw [sumOver_zero _ _ (fun a _ => hz a)] at this
        exact this
    · refine ⟨?_, ?_, ?_, ?_⟩
      · show s1.flags.started = false; rw [hfl]; exact ha.notStarted
      · show s1.op = .none
        have : s1.op = s.op := by rw [heq]
        rw [this]; exact ha.op
      · show Chain (L0 ++ v1_proj l) 1 s1.range s1.batch
        rw [rb_Chain_append, hrg1, hbt1]
        constructor
        · apply rb_Chain_congr ha.chain hp.ok.pos
          · intro a ha1; exact hfr a (fun hh => hnew a hh ha1)
          · intro x _ hx2; exact hfb x (by omega)
        · rw [← hl0, Nat.add_comm]; exact hch
      · show s1.lastTicketId = ticketTotal (L0 ++ v1_proj l)
        rw [hlt2, hlast, rb_ticketTotal_append, hl0]

/-! ### blacklist -/

theorem g1_blacklist {T0 : Nat} {hash : List Nat → List Nat} {s s' : State} {e : Env} {o : Out}
    {r : Nat} {l : List Nat} (h : g1_WF T0 s r) (hr : r ≤ e.round)
    (hs : step hash s e (.blacklist l) = .ok (s', o)) : g1_WF T0 s' e.round := by
  have hiv2 : s.variant.isV2 = false := (g1_flags h.var).2.2.1
  have hnft : s.variant.hasNft = false := (g1_flags h.var).2.1
  obtain ⟨t, hx, rfl⟩ := rb_step_np (by intro m hm; simp [endpointMeta] at hm; rw [← hm]) hs
  obtain ⟨hadd1, _, _, _, _, _, s1, py, bal, hgh, hts, hpb⟩ := exec_blacklist_out hx
  obtain ⟨_, hstage, hnd, hall, hle, _⟩ := (addUsersToBlacklist_ok_iff _ _ _ _).mp hadd1
  simp only [rbTx_s] at hstage hall hle hgh hpb
  obtain ⟨hpy, hbal⟩ := hpb hnft
  obtain ⟨⟨wl, uu, bb, nw, tg, hs1⟩, _⟩ := hgh
  have hts' : t.s = s1 := by rw [hts, hpy, hbal]
  rw [hts'] at hs ⊢
  have hns : s.flags.started = false := by
    rcases hstage with h1 | h1
    · exact g1_notStarted_of_lt h hr (Or.inl (rb_stage_addTickets h1))
    · exact g1_notStarted_of_lt h hr (Or.inr (rb_stage_confirm h1).2)
  obtain ⟨hadd, htg, L0, hp, ha, hg⟩ := v1_phase_notStarted h.phase hns
  have hX : GuarInvX s := (v1_GX_iff s hiv2).mpr hg
  obtain ⟨hcons, hX'⟩ := v1_step_guar (c := .blacklist l) rfl hX hs
  have hiv2' : s1.variant.isV2 = false := by rw [hs1]; exact hiv2
  have hg' := (v1_GX_iff s1 hiv2').mp hX'
  have hnw1 : s1.nrWinning = nw := by rw [hs1]
  have htg1 : s1.totalGuaranteed = tg := by rw [hs1]
  rw [hnw1, htg1] at hcons
  have hnrw0 : s.nrWinning = T0 - s.totalGuaranteed := hp.nrw
  have htg0 : s.totalGuaranteed ≤ T0 := htg
  have hall' : ∀ u ∈ l, u ∈ L0.map Prod.fst := by
    intro u hu
    apply Classical.byContradiction
    intro hnin
    have h1 : s.range u = none := hp.outR u hnin
    have h2 := (hall u hu).2
    rw [h1] at h2; cases h2
  have hsum := rb_sumOver_blacklist l s.confirmed (L0.map Prod.fst) hp.ok.nodup hnd hall'
  have hfl : s1.flags = s.flags := by rw [hs1]; rfl
  have hcf : s1.confirmed = fun a => if a ∈ l then 0 else s.confirmed a := by rw [hs1]; rfl
  have hbl : s1.bal = s.bal.sub s.payTok 0 (s.price * blConfSum s l) := by rw [hs1]; rfl
  have hpt : s1.payTok = s.payTok := by rw [hs1]; rfl
  have hlt : s1.lpTok = s.lpTok := by rw [hs1]; rfl
  have hpr : s1.price = s.price := by rw [hs1]; rfl
  have hcfg : s1.cfg = s.cfg := by rw [hs1]; rfl
  refine ⟨by rw [hs1]; exact h.var, by rw [hpr]; exact h.pricePos, by rw [hpt, hlt]; exact h.tokNe,
    by rw [hs1]; exact h.static, ?_, ?_, ?_, ?_, ?_⟩
  · intro t h1 h2
    rw [hpt] at h1; rw [hlt] at h2
    rw [hbl]
    simp only [Bal.sub, and_true]
    rw [if_neg h1]
    exact h.balOther t h1 h2
  · intro hlt2 a
    rw [hcf]
    show (if a ∈ l then 0 else s.confirmed a) = 0
    split
    · rfl
    · exact h.tlConf (by rw [hcfg] at hlt2; omega) a
  · intro hst2
    rw [hfl] at hst2
    have := h.tlStarted hst2
    rw [hcfg]; omega
  · have hne : Token.esdt s.lpTok ≠ s.payTok := fun hh => h.tokNe hh.symm
    refine g1_vs_early h hr hadd (by rw [hfl]; exact hadd) ?_ (by rw [hs1]; rfl)
      (by rw [hnw1, htg1]; omega) (fun hq a => ?_)
    · have hb : s1.bal (.esdt s1.lpTok) 0 = s.bal (.esdt s.lpTok) 0 := by
        rw [hlt, hbl]; simp [Bal.sub, hne]
      unfold g1_lproj
      rw [hb, hs1]; rfl
    · rw [hcf]
      show (if a ∈ l then 0 else s.confirmed a) = 0
      split
      · rfl
      · exact (h.vs.lp.nodep hq).1 a
  · have htgv : (v1_gv s1).tg = tg := htg1
    refine v1_mk_phaseA (L0 := L0) (by show s1.flags.additional = false; rw [hfl]; exact hadd)
      (by rw [htgv]; omega) ?_ ?_ hg'
    · refine ⟨?_, ?_, ?_, ?_, ?_, ⟨hp.ok.nodup, hp.ok.pos, ?_⟩, ?_, ?_, ?_⟩
      · show s1.flags.filtered = false; rw [hfl]; exact hp.notFiltered
      · show s1.flags.selected = false; rw [hfl]; exact hp.notSelected
      · show s1.nrWinning = T0 - (v1_gv s1).tg
        rw [hnw1, htgv]; omega
      · show s1.status = _; rw [hs1]; exact hp.status0
      · show s1.posToId = _; rw [hs1]; exact hp.pos0
      · intro p hp1
        show s1.confirmed p.1 ≤ p.2
        rw [hcf]
        show (if p.1 ∈ l then 0 else s.confirmed p.1) ≤ p.2
        split
        · omega
        · exact hp.ok.le p hp1
      · intro a ha1
        show s1.confirmed a = 0
        rw [hcf]
        show (if a ∈ l then 0 else s.confirmed a) = 0
        split
        · rfl
        · exact hp.outC a ha1
      · intro a ha1
        show s1.range a = none
        have : s1.range = s.range := by rw [hs1]; rfl
        rw [this]; exact hp.outR a ha1
      · show s1.bal s1.payTok 0 = s1.price * sumOver s1.confirmed (L0.map Prod.fst)
        rw [hbl, hpt, hpr, hcf]
        have hpay : s.bal s.payTok 0 = s.price * sumOver s.confirmed (L0.map Prod.fst) := hp.pay
        simp only [Bal.sub, and_self, if_true]
        unfold blConfSum at hle ⊢
        rw [hpay, ← hsum, Nat.mul_add]
        omega
    · refine ⟨?_, ?_, ?_, ?_⟩
      · show s1.flags.started = false; rw [hfl]; exact ha.notStarted
      · show s1.op = .none
        have : s1.op = s.op := by rw [hs1]; rfl
        rw [this]; exact ha.op
      · show Chain L0 1 s1.range s1.batch
        have e1 : s1.range = s.range := by rw [hs1]; rfl
        have e2 : s1.batch = s.batch := by rw [hs1]; rfl
        rw [e1, e2]; exact ha.chain
      · show s1.lastTicketId = ticketTotal L0
        have : s1.lastTicketId = s.lastTicketId := by rw [hs1]; rfl
        rw [this]; exact ha.last

/-! ### unblacklist -/

theorem g1_unblacklist {T0 : Nat} {hash : List Nat → List Nat} {s s' : State} {e : Env} {o : Out}
    {r : Nat} {l : List Nat} (h : g1_WF T0 s r) (hr : r ≤ e.round)
    (hs : step hash s e (.unblacklist l) = .ok (s', o)) : g1_WF T0 s' e.round := by
  have hiv2 : s.variant.isV2 = false := (g1_flags h.var).2.2.1
  obtain ⟨_, _, hstage, _, _, _, _, _, ⟨wl, uu, bb, nw, tg, hs1⟩, _⟩ :=
    LP.Props.C10.unblacklist_effect hash s e l s' o hs
  have hns : s.flags.started = false := by
    rcases hstage with h1 | h1
    · exact g1_notStarted_of_lt h hr (Or.inl (rb_stage_addTickets h1))
    · exact g1_notStarted_of_lt h hr (Or.inr (rb_stage_confirm h1).2)
  obtain ⟨hadd, htg, L0, hp, ha, hg⟩ := v1_phase_notStarted h.phase hns
  have hX : GuarInvX s := (v1_GX_iff s hiv2).mpr hg
  obtain ⟨hcons, hX'⟩ := v1_step_guar (c := .unblacklist l) rfl hX hs
  have hiv2' : s'.variant.isV2 = false := by rw [hs1]; exact hiv2
  have hg' := (v1_GX_iff s' hiv2').mp hX'
  have hnw1 : s'.nrWinning = nw := by rw [hs1]
  have htg1 : s'.totalGuaranteed = tg := by rw [hs1]
  rw [hnw1, htg1] at hcons
  have hnrw0 : s.nrWinning = T0 - s.totalGuaranteed := hp.nrw
  have htg0 : s.totalGuaranteed ≤ T0 := htg
  have hfl : s'.flags = s.flags := by rw [hs1]
  have hcfg : s'.cfg = s.cfg := by rw [hs1]
  refine ⟨by rw [hs1]; exact h.var, by rw [hs1]; exact h.pricePos, by rw [hs1]; exact h.tokNe,
    by rw [hs1]; exact h.static, by rw [hs1]; exact h.balOther, ?_, ?_, ?_, ?_⟩
  · intro hlt2 a
    have : s'.confirmed = s.confirmed := by rw [hs1]
    rw [this]
    exact h.tlConf (by rw [hcfg] at hlt2; omega) a
  · intro hst2
    rw [hfl] at hst2
    have := h.tlStarted hst2
    rw [hcfg]; omega
  · exact g1_vs_early h hr hadd (by rw [hfl]; exact hadd) (by rw [hs1]; rfl) (by rw [hs1])
      (by rw [hnw1, htg1]; omega) (fun hq a => by rw [hs1]; exact (h.vs.lp.nodep hq).1 a)
  · have htgv : (v1_gv s').tg = tg := htg1
    refine v1_mk_phaseA (L0 := L0) (by show s'.flags.additional = false; rw [hfl]; exact hadd)
      (by rw [htgv]; omega) ?_ ?_ hg'
    · refine ⟨?_, ?_, ?_, ?_, ?_, ⟨hp.ok.nodup, hp.ok.pos, ?_⟩, ?_, ?_, ?_⟩
      · show s'.flags.filtered = false; rw [hfl]; exact hp.notFiltered
      · show s'.flags.selected = false; rw [hfl]; exact hp.notSelected
      · show s'.nrWinning = T0 - (v1_gv s').tg
        rw [hnw1, htgv]; omega
      · show s'.status = _; rw [hs1]; exact hp.status0
      · show s'.posToId = _; rw [hs1]; exact hp.pos0
      · intro p hp1
        show s'.confirmed p.1 ≤ p.2
        have : s'.confirmed = s.confirmed := by rw [hs1]
        rw [this]; exact hp.ok.le p hp1
      · intro a ha1
        show s'.confirmed a = 0
        have : s'.confirmed = s.confirmed := by rw [hs1]
        rw [this]; exact hp.outC a ha1
      · intro a ha1
        show s'.range a = none
        have : s'.range = s.range := by rw [hs1]
        rw [this]; exact hp.outR a ha1
      · show s'.bal s'.payTok 0 = s'.price * sumOver s'.confirmed (L0.map Prod.fst)
        have e1 : s'.confirmed = s.confirmed := by rw [hs1]
        have e2 : s'.bal = s.bal := by rw [hs1]
        have e3 : s'.payTok = s.payTok := by rw [hs1]
        have e4 : s'.price = s.price := by rw [hs1]
        rw [e1, e2, e3, e4]; exact hp.pay
    · refine ⟨?_, ?_, ?_, ?_⟩
      · show s'.flags.started = false; rw [hfl]; exact ha.notStarted
      · show s'.op = .none
        have : s'.op = s.op := by rw [hs1]
        rw [this]; exact ha.op
      · show Chain L0 1 s'.range s'.batch
        have e1 : s'.range = s.range := by rw [hs1]
        have e2 : s'.batch = s.batch := by rw [hs1]
        rw [e1, e2]; exact ha.chain
      · show s'.lastTicketId = ticketTotal L0
        have : s'.lastTicketId = s.lastTicketId := by rw [hs1]
        rw [this]; exact ha.last

end LP
