import LP.Proofs.Events
/-
  LP.Proofs.EventsFrame — the endpoints outside `LP.Props.C20.emitting` (and `pause`/`unpause`)
  append nothing to the event log: one lemma `X_events : t'.o.events = t.o.events` per helper
  that carries a `Tx` (helpers on `State` cannot emit), then `exec_no_events` for all of them.
-/
namespace LP.Events

/-! ### owner withdrawals -/

theorem claimPaymentOwn_events {t t' : Tx} {e : Env} (h : claimPaymentOwn t e = .ok t') :
    t'.o.events = t.o.events := by
  unfold claimPaymentOwn at h
  simp only [bind_ok_iff, req_ok_iff, requireStage, exists_const] at h
  obtain ⟨_, h⟩ := h
  split at h
  · simp only [bind_ok_iff] at h
    obtain ⟨t1, h1, h⟩ := h
    have e1 : t1.o.events = t.o.events := (send_events h1).trans rfl
    split at h
    · simp only [pure_ok_iff] at h; subst h; exact e1
    · split at h
      · simp only [pure_ok_iff] at h; subst h; exact e1
      · rw [send_events h]; exact e1
  · simp only [bind_ok_iff, pure_ok_iff] at h
    obtain ⟨a, rfl, h⟩ := h
    split at h
    · simp only [pure_ok_iff] at h; subst h; rfl
    · split at h
      · simp only [pure_ok_iff] at h; subst h; rfl
      · rw [send_events h]; rfl

theorem claimPaymentCommon_events {t t' : Tx} {e : Env} (h : claimPaymentCommon t e = .ok t') :
    t'.o.events = t.o.events := by
  unfold claimPaymentCommon at h
  simp only [bind_ok_iff, req_ok_iff, requireStage, exists_const] at h
  obtain ⟨_, h⟩ := h
  split at h
  · simp only [bind_ok_iff] at h
    obtain ⟨t1, h1, x, _, h⟩ := h
    have e1 : t1.o.events = t.o.events := (send_events h1).trans rfl
    split at h
    · rw [send_events h]; exact e1
    · simp only [pure_ok_iff] at h; subst h; exact e1
  · simp only [bind_ok_iff, pure_ok_iff] at h
    obtain ⟨a, rfl, x, _, h⟩ := h
    split at h
    · exact send_events h
    · simp only [pure_ok_iff] at h; subst h; rfl

theorem claimNftPayment_events {t t' : Tx} {e : Env} (h : claimNftPayment t e = .ok t') :
    t'.o.events = t.o.events := by
  unfold claimNftPayment at h
  simp only [bind_ok_iff, req_ok_iff, requireStage, exists_const] at h
  obtain ⟨_, h⟩ := h
  split at h
  · simp only [bind_ok_iff, pure_ok_iff] at h
    obtain ⟨t1, h1, rfl⟩ := h
    exact (send_events h1 : t1.o.events = t.o.events)
  · simp only [pure_ok_iff] at h; subst h; rfl

/-! ### NFT draw and the combined secondary step -/

theorem nftBody_events (hash : List Nat → List Nat) (total : Nat) (ev0 : List Ev)
    (x x' : NSt) (c : Bool) (hx : x.tx.o.events = ev0) (h : nftBody hash total x = .ok (x', c)) :
    x'.tx.o.events = ev0 := by
  unfold nftBody at h
  have hd := (DrawFrame.draw hash x.tx x.rng).2.2.2.1
  split at h
  · cases h; exact hx
  · simp only at h
    split at h
    · cases h
    · cases h
      rw [← hx]; exact hd

theorem nftSubstep_events {hash : List Nat → List Nat} {t t' : Tx} {rng rng' : Rng} {st : LoopStatus}
    (h : nftSubstep hash t rng = .ok (t', rng', st)) : t'.o.events = t.o.events := by
  unfold nftSubstep at h
  simp only [bind_ok_iff, Prod.exists] at h
  obtain ⟨x, b, st0, hrun, hrest⟩ := h
  have hx : x.tx.o.events = t.o.events :=
    runWhile_invariant _ (fun y : NSt => y.tx.o.events = t.o.events)
      (fun y y' c hy hb => nftBody_events hash _ _ y y' c hy hb) _ _ _ _ rfl hrun
  cases st0 with
  | outOfFuel => cases hrest
  | interrupted =>
    simp only [pure_ok_iff, Prod.mk.injEq] at hrest
    obtain ⟨rfl, _, _⟩ := hrest
    exact hx
  | completed =>
    simp only [pure_ok_iff, Prod.mk.injEq] at hrest
    obtain ⟨rfl, _, _⟩ := hrest
    exact hx

theorem freshRng_events (t : Tx) : t.freshRng.2.o.events = t.o.events :=
  (DrawFrame.freshRng t).2.2.2.1

theorem guaranteedSubstep_events {hash : List Nat → List Nat} {t t' : Tx} {g g' : GuarOp}
    {st : LoopStatus} (h : guaranteedSubstep hash t g = .ok (t', g', st)) :
    t'.o.events = t.o.events :=
  (guaranteedSubstep_frame h).1.2.2.1

theorem selectNft_events {hash : List Nat → List Nat} {t t' : Tx} {e : Env}
    (h : selectNft hash t e = .ok t') : t'.o.events = t.o.events := by
  unfold selectNft at h
  simp only [bind_ok_iff, req_ok_iff, requireStage, exists_const] at h
  obtain ⟨_, _, _, h⟩ := h
  split at h
  case h_3 => simp [bind, Except.bind] at h
  case h_4 => simp [bind, Except.bind] at h
  all_goals
    simp only [bind_ok_iff, pure_ok_iff, Prod.exists, Prod.mk.injEq] at h
    obtain ⟨rng, t0, ⟨_, ht0⟩, t1, rng', st, hsub, hfin⟩ := h
    have e0 : t0.o.events = t.o.events := by
      first
        | (rw [← ht0]; exact freshRng_events t)
        | rw [← ht0]
    have e1 := nftSubstep_events hsub
    cases st <;>
      (simp only [pure_ok_iff] at hfin; subst hfin; show t1.o.events = _; rw [e1, e0])

theorem secondary_events {hash : List Nat → List Nat} {t t' : Tx} {e : Env}
    (h : secondary hash t e = .ok t') : t'.o.events = t.o.events := by
  unfold secondary at h
  simp only [bind_ok_iff, req_ok_iff, requireStage, exists_const] at h
  obtain ⟨_, _, _, h⟩ := h
  split at h
  case h_3 => simp [bind, Except.bind] at h
  all_goals
    simp only [bind_ok_iff, pure_ok_iff, Prod.exists, Prod.mk.injEq] at h
    obtain ⟨cur, t0, ⟨_, ht0⟩, hh⟩ := h
    have h0 : t0.o.events = t.o.events := by
      first
        | (rw [← ht0]; exact freshRng_events t)
        | rw [← ht0]
    clear ht0
    cases cur with
    | nft r =>
      simp only [bind_ok_iff, pure_ok_iff] at hh
      obtain ⟨_, rfl, hh⟩ := hh
      simp only [bind_ok_iff, Prod.exists] at hh
      obtain ⟨t2, rng', st, hsub, hfin⟩ := hh
      have h2 := nftSubstep_events hsub
      cases st <;>
        (simp only [pure_ok_iff] at hfin; subst hfin; show t2.o.events = _; rw [h2]; exact h0)
    | guar g =>
      simp only [bind_ok_iff, Prod.exists] at hh
      obtain ⟨t1, g', st, hsub, hfin⟩ := hh
      have hg := guaranteedSubstep_events hsub
      cases st with
      | completed =>
        simp only [bind_ok_iff, pure_ok_iff] at hfin
        obtain ⟨_, rfl, hfin⟩ := hfin
        simp only [bind_ok_iff, Prod.exists] at hfin
        obtain ⟨t2, rng', st2, hsub2, hfin⟩ := hfin
        have h2 := nftSubstep_events hsub2
        have hfr : (t1.setS (creditAdditional t1.s g'.additional)).freshRng.2.o.events
            = t1.o.events :=
          freshRng_events (t1.setS (creditAdditional t1.s g'.additional))
        cases st2 <;>
          (simp only [pure_ok_iff] at hfin; subst hfin; show t2.o.events = _
           rw [h2, hfr, hg]; exact h0)
      | interrupted =>
        simp only [bind_ok_iff, pure_ok_iff] at hfin
        obtain ⟨_, rfl, hfin⟩ := hfin
        simp only [pure_ok_iff] at hfin
        subst hfin
        show t1.o.events = _
        rw [hg]; exact h0
      | outOfFuel =>
        simp only [bind_ok_iff, pure_ok_iff] at hfin
        obtain ⟨_, rfl, hfin⟩ := hfin
        simp only [pure_ok_iff] at hfin
        subst hfin
        show t1.o.events = _
        rw [hg]; exact h0

/-! ### all silent endpoints -/

/-- the endpoints that never emit: everything outside `C20.emitting` except `pause`/`unpause` -/
def silent : Call → Bool
  | .addTickets _ | .addTicketsV1 _ | .deposit | .setPerTicket _ | .setConfStart _ | .setSelStart _
  | .setClaimStart _ | .setSupport _ | .claimPayment | .setSchedule1 .. | .confirmNft | .selectNft
  | .secondary | .setNftCost _ | .issueSft | .createSfts | .setTransferRole _ | .sftSetup => true
  | _ => false

/-- **a silent endpoint body appends nothing to the event log** -/
theorem exec_no_events {hash : List Nat → List Nat} {t t' : Tx} {e : Env} {c : Call}
    (hc : silent c = true) (h : exec hash t e c = .ok t') : t'.o.events = t.o.events := by
  cases c <;> simp only [silent, Bool.false_eq_true] at hc
  case addTickets l =>
    simp only [exec, bind_ok_iff, pure_ok_iff] at h
    obtain ⟨_, _, s1, _, rfl⟩ := h; rfl
  case addTicketsV1 l =>
    simp only [exec, bind_ok_iff, pure_ok_iff] at h
    obtain ⟨s1, _, rfl⟩ := h; rfl
  case deposit =>
    simp only [exec, bind_ok_iff, pure_ok_iff] at h
    obtain ⟨s1, _, rfl⟩ := h; rfl
  case setPerTicket amount =>
    simp only [exec, bind_ok_iff, pure_ok_iff] at h
    obtain ⟨_, _, _, _, _, _, rfl⟩ := h; rfl
  case setConfStart r =>
    simp only [exec, bind_ok_iff, pure_ok_iff] at h
    obtain ⟨_, _, _, _, rfl⟩ := h; rfl
  case setSelStart r =>
    simp only [exec, bind_ok_iff, pure_ok_iff] at h
    obtain ⟨_, _, _, _, rfl⟩ := h; rfl
  case setClaimStart r =>
    simp only [exec, bind_ok_iff, pure_ok_iff] at h
    obtain ⟨_, _, _, _, rfl⟩ := h; rfl
  case setSupport a => simp only [exec, pure_ok_iff] at h; subst h; rfl
  case claimPayment =>
    simp only [exec] at h
    split at h
    · exact claimPaymentOwn_events h
    · simp only [bind_ok_iff] at h
      obtain ⟨t1, h1, h2⟩ := h
      have e1 := claimPaymentCommon_events h1
      split at h2
      · rw [claimNftPayment_events h2, e1]
      · simp only [pure_ok_iff] at h2; subst h2; exact e1
  case setSchedule1 a b c d f =>
    simp only [exec, bind_ok_iff, pure_ok_iff] at h
    obtain ⟨s1, _, rfl⟩ := h; rfl
  case confirmNft =>
    simp only [exec, bind_ok_iff, pure_ok_iff] at h
    obtain ⟨s1, _, rfl⟩ := h; rfl
  case selectNft => exact selectNft_events h
  case secondary => exact secondary_events h
  case setNftCost c =>
    simp only [exec, bind_ok_iff, pure_ok_iff] at h
    obtain ⟨_, _, _, _, rfl⟩ := h; rfl
  case issueSft =>
    simp only [exec, bind_ok_iff] at h
    obtain ⟨_, _, h⟩ := h
    cases h
  case createSfts =>
    simp only [exec, bind_ok_iff] at h
    obtain ⟨_, _, _, _, h⟩ := h
    cases h
  case setTransferRole o =>
    simp only [exec, bind_ok_iff] at h
    obtain ⟨_, _, h⟩ := h
    cases h
  case sftSetup => simp only [exec, pure_ok_iff] at h; subst h; rfl

end LP.Events
