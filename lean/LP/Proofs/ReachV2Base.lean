import LP.Proofs.ReachV2Claim
/-
  LP.Proofs.ReachV2Base — every accepted call of `Variant.guarV2` keeps `WF2`; hence `WF2` holds in
  every reachable state (`Reach`/`ReachA` of LP/Proofs/ReachBase.lean, instantiated at `.guarV2`;
  `CallOK` puts no condition on `addTicketsV2`: v2 skips zero-size entries itself).
-/
namespace LP
open LP.FY

/-- the endpoints `guarV2` does not expose are rejected by the dispatcher -/
theorem v2_exposed {hash : List Nat → List Nat} {s s' : State} {e : Env} {c : Call} {o : Out}
    (hv : s.variant = .guarV2) (hs : step hash s e c = .ok (s', o)) :
    match c with
    | .addTickets _ | .addTicketsV1 _ | .setSchedule1 .. | .confirmNft | .selectNft | .secondary
    | .setNftCost _ | .issueSft | .createSfts | .setTransferRole _ | .sftSetup => False
    | _ => True := by
  obtain ⟨m, t, hm, _⟩ := step_ok_inv hs
  rw [hv] at hm
  cases c <;> first | trivial | (simp [endpointMeta, Variant.v1Alloc, Variant.isV2, Variant.hasUnblacklist, Variant.hasGuaranteed, Variant.hasNft] at hm)

/-- **preservation**: every accepted call of the v2 launchpad keeps the invariant -/
theorem call_WF2 {T0 : Nat} {hash : List Nat → List Nat} {s s' : State} {e : Env} {c : Call} {o : Out}
    {r : Nat} (h : WF2 T0 s r) (hr : r ≤ e.round) (hok : EnvOK e)
    (hs : step hash s e c = .ok (s', o)) : WF2 T0 s' e.round := by
  have hex := v2_exposed h.var hs
  cases c with
  | addTicketsV2 l => exact v2_addTickets h hr hs
  | deposit => exact v2_deposit h hr hok hs
  | setTicketPrice tok a => exact v2_setTicketPrice h hr hs
  | setPerTicket a => exact v2_setPerTicket h hr hs
  | setConfStart x => exact v2_setConfStart h hr hs
  | setSelStart x => exact v2_setSelStart h hr hs
  | setClaimStart x => exact v2_setClaimStart h hr hs
  | setSupport a => exact v2_setSupport h hr hs
  | pause => exact v2_pause h hr hs
  | unpause => exact v2_unpause h hr hs
  | confirm n => exact v2_confirm h hr hok hs
  | filter => exact v2_filter h hr hs
  | select => exact v2_select h hr hs
  | claim => exact v2_claim h hr hs
  | claimPayment => exact v2_claimPayment h hr hs
  | blacklist l => exact v2_blacklist h hr hs
  | refundUsers l => exact v2_refundUsers h hr hs
  | unblacklist l => exact v2_unblacklist h hr hs
  | distribute => exact v2_distribute h hr hs
  | setSchedule2 l => exact v2_setSchedule2 h hr hs
  | _ => exact absurd hex id

/-- the invariant holds in every reachable state of the v2 launchpad -/
theorem reach_WF2 {hash : List Nat → List Nat} {a0 : InitArgs} {s : State} {r : Nat}
    (h : ReachA hash .guarV2 a0 s r) : WF2 a0.nrWinning s r := by
  induction h with
  | init e s h => exact init_WF2 h
  | call s r e c s' o _ h1 h2 _ h4 ih => exact call_WF2 ih h1 h2 h4
  | wait s r r' _ h1 ih => exact wait_WF2 ih h1

end LP

#print axioms LP.init_WF2
#print axioms LP.call_WF2
#print axioms LP.reach_WF2
