import LP.Proofs.LockedGuarClaim
import LP.Proofs.Recipients
import LP.Proofs.AllocReach
import LP.Proofs.ResumeFrame
import LP.Props.C14
import LP.Proofs.ReachFLBase
import LP.Proofs.Once
/-
  LP.Proofs.Receipts — helpers for `LP/Props/C01receipts.lean`: CUMULATIVE RECEIPTS over whole
  histories, all eight contracts (prefix `cr_`).

  * `cr_paid tok a xfers`      amount of the fungible token `tok` (nonce 0) the transfers send to `a`
  * `cr_owedPay s e c a`       what the accepted call `c` by `e.caller` in state `s` owes `a` in the
                               ticket-payment token (refund of a claim, refund of a blacklisting,
                               NFT fee where the model refunds it in the same token)
  * `cr_step_pay`              ONE accepted call, ANY state with `payTok ≠ lpTok`: `a ≠ owner`
                               receives in the payment token exactly `cr_owedPay`
  * `cr_owedLp`, `cr_step_lp`  the same for the launchpad token (direct transfers; variants without
                               a lock)
  * `cr_total`, `cr_totalOwed` sums over the log `lk_runLog` of accepted transactions
  * `cr_post_frame`            after all selection steps, at a round ≥ sel: an accepted call other
                               than `claim` keeps every allocation record, winning flag,
                               confirmation, the price and the payment token
-/
namespace LP
open LP.FY LP.Props.C09 LP.Props.C14

/-! ## 1. sums of transfers -/

/-- amount of the fungible token `tok` (nonce 0) sent to `a` by a list of transfers -/
def cr_paid (tok : Token) (a : Nat) : List (Nat × Pay) → Nat
  | [] => 0
  | x :: rest =>
    (if x.1 = a ∧ x.2.tok = tok ∧ x.2.nonce = 0 then x.2.amount else 0) + cr_paid tok a rest

theorem cr_paid_append (tok : Token) (a : Nat) (l1 l2 : List (Nat × Pay)) :
    cr_paid tok a (l1 ++ l2) = cr_paid tok a l1 + cr_paid tok a l2 := by
  induction l1 with
  | nil => simp [cr_paid]
  | cons x rest ih => simp only [List.cons_append, cr_paid, ih]; omega

theorem cr_paid_zero (tok : Token) (a : Nat) (l : List (Nat × Pay))
    (h : ∀ x ∈ l, ¬ (x.1 = a ∧ x.2.tok = tok ∧ x.2.nonce = 0)) : cr_paid tok a l = 0 := by
  induction l with
  | nil => rfl
  | cons x rest ih =>
    simp only [cr_paid]
    rw [if_neg (h x (List.mem_cons_self ..)), ih (fun y hy => h y (List.mem_cons_of_mem _ hy))]

theorem cr_paid_single (tok : Token) (a b : Nat) (p : Pay) :
    cr_paid tok a [(b, p)] = if b = a ∧ p.tok = tok ∧ p.nonce = 0 then p.amount else 0 := by
  simp [cr_paid]

theorem cr_paid_ite (tok : Token) (a : Nat) (c : Prop) [Decidable c] (l : List (Nat × Pay)) :
    cr_paid tok a (if c then l else []) = if c then cr_paid tok a l else 0 := by
  split <;> rfl

/-- `directTo` of LP/Proofs/LockedGuarClaim.lean is `cr_paid` at the launchpad token -/
theorem cr_directTo_eq (lp a : Nat) (l : List (Nat × Pay)) :
    directTo lp a l = cr_paid (.esdt lp) a l := by
  induction l with
  | nil => rfl
  | cons x rest ih => simp only [directTo, cr_paid, ih]

/-- the NFT fee, if it is charged in the fungible token `tok` (else 0) -/
def cr_fee (s : State) (tok : Token) : Nat :=
  if s.nftCost.tok = tok ∧ s.nftCost.nonce = 0 then s.nftCost.amount else 0

theorem cr_paid_fee (s : State) (tok : Token) (a b : Nat) :
    cr_paid tok a [(b, s.nftCost)] = if b = a then cr_fee s tok else 0 := by
  rw [cr_paid_single]
  unfold cr_fee
  by_cases hb : b = a <;> simp [hb]

/-! ### sends -/

theorem cr_send_paid {t t' : Tx} {to : Nat} {p : Pay} (h : t.send to p = .ok t') (tok : Token) (a : Nat) :
    cr_paid tok a t'.o.xfers = cr_paid tok a t.o.xfers +
      (if to = a ∧ p.tok = tok ∧ p.nonce = 0 then p.amount else 0) := by
  rw [(Tx.send_s h).2.1]
  show cr_paid tok a (t.o.xfers ++ [(to, p)]) = _
  rw [cr_paid_append, cr_paid_single]

theorem cr_sendLocked_other {t t' : Tx} {e : Env} {d n : Nat} (h : t.sendLocked e d n = .ok t')
    (tok : Token) (htok : tok ≠ .esdt t.s.lpTok) (a : Nat) :
    cr_paid tok a t'.o.xfers = cr_paid tok a t.o.xfers := by
  have hne : ¬ (Token.esdt t.s.lpTok = tok) := fun hh => htok hh.symm
  unfold Tx.sendLocked at h
  dsimp only at h
  generalize (if e.epoch < t.s.unlockEpoch then lockSplit n t.s.lockPct else 0) = la at h
  split at h
  · simp only [bind_ok_iff, pure_ok_iff] at h
    obtain ⟨t0, h0, t1, rfl, h2⟩ := h
    have e0 : cr_paid tok a t0.o.xfers = cr_paid tok a t.o.xfers := by
      rw [cr_send_paid h0]; simp [hne]
    have hl : t0.s.lpTok = t.s.lpTok := by rw [(Tx.send_s h0).1]
    split at h2
    · rw [cr_send_paid h2]
      show cr_paid tok a t0.o.xfers + _ = _
      rw [e0]
      have : ¬ (Token.esdt t0.s.lpTok = tok) := by rw [hl]; exact hne
      simp [this]
    · cases h2; exact e0
  · simp only [bind_ok_iff, pure_ok_iff] at h
    obtain ⟨t1, rfl, h2⟩ := h
    split at h2
    · rw [cr_send_paid h2]; simp [hne]
    · cases h2; rfl

/-- the delivery of launchpad tokens (locked or not) sends nothing in any other token -/
theorem cr_sendLp_other {t t' : Tx} {e : Env} {d n : Nat} (h : t.sendLaunchpadTokens e d n = .ok t')
    (tok : Token) (htok : tok ≠ .esdt t.s.lpTok) (a : Nat) :
    cr_paid tok a t'.o.xfers = cr_paid tok a t.o.xfers := by
  have hne : ¬ (Token.esdt t.s.lpTok = tok) := fun hh => htok hh.symm
  unfold Tx.sendLaunchpadTokens at h
  split at h
  · cases h; rfl
  · dsimp only at h
    split at h
    · exact cr_sendLocked_other h tok htok a
    · rw [cr_send_paid h]; simp [hne]

/-! ## 2. one claim -/

/-- **non-vested claim, payment token**: the caller receives `price × (confirmed − winning)`, plus
    the NFT fee if the fee is charged in the payment token and he paid it without being drawn -/
theorem cr_claimBase_pay {t t' : Tx} {e : Env} (h : claimBase t e = .ok t')
    (hne : t.s.payTok ≠ .esdt t.s.lpTok) (a : Nat) :
    cr_paid t.s.payTok a t'.o.xfers = cr_paid t.s.payTok a t.o.xfers +
      (if e.caller = a then t.s.price * (t.s.confirmed a - winCount t.s a) +
         (if t.s.variant.hasNft = true ∧ nftCategory t.s a = 2 then cr_fee t.s t.s.payTok else 0)
       else 0) := by
  rw [claimBase_ok_iff] at h
  obtain ⟨r, ⟨_, _, hr, _, _, _⟩, t2, h2, h3⟩ := h
  have hw : winCount t.s e.caller = countWinning t.s.status r.first (rangeLen r) := winCount_of_range hr
  have e1 : cr_paid t.s.payTok a (claimMid t e r).o.xfers = cr_paid t.s.payTok a t.o.xfers +
      (if e.caller = a then t.s.price * (t.s.confirmed e.caller - winCount t.s e.caller) else 0) := by
    rw [claimMid_xfers, cr_paid_append, ← hw]
    congr 1
    by_cases hz : t.s.confirmed e.caller - winCount t.s e.caller = 0
    · rw [if_pos hz, hz]; simp [cr_paid]
    · rw [if_neg hz, cr_paid_single]
      by_cases hca : e.caller = a <;> simp [hca]
  have hlp : (claimMid t e r).s.lpTok = t.s.lpTok := by rw [claimMid_state]; rfl
  have e2 : cr_paid t.s.payTok a t2.o.xfers = cr_paid t.s.payTok a (claimMid t e r).o.xfers :=
    cr_sendLp_other h2 _ (by rw [hlp]; exact hne) a
  obtain ⟨b, hb, _, _⟩ := rb_sendLp h2
  have hvar : t2.s.variant = t.s.variant := by rw [hb, claimMid_state]; rfl
  rw [hvar] at h3
  by_cases hn : t.s.variant.hasNft = true
  · rw [if_pos hn, claimNft_ok_iff] at h3
    obtain ⟨_, _, rfl⟩ := h3
    rw [(claimNftResult_effect t2 e).2.1, cr_paid_append, e2, e1]
    have hcat : nftCategory t2.s e.caller = nftCategory t.s e.caller :=
      nftCategory_congr _ (by rw [hb, claimMid_state]; rfl) (by rw [hb, claimMid_state]; rfl)
    have hcost : t2.s.nftCost = t.s.nftCost := by rw [hb, claimMid_state]; rfl
    rw [hcat, cr_paid_ite]
    have hfee : cr_paid t.s.payTok a [(e.caller, t2.s.nftCost)]
        = if e.caller = a then cr_fee t.s t.s.payTok else 0 := by
      rw [hcost]; exact cr_paid_fee t.s t.s.payTok a e.caller
    rw [hfee]
    by_cases hca : e.caller = a
    · subst hca
      simp only [hn, true_and, if_true]
      split <;> omega
    · simp [hca]
  · have hn' : t.s.variant.hasNft = false := by simpa using hn
    rw [hn'] at h3
    simp only [Bool.false_eq_true, if_false, pure_ok_iff] at h3
    subst h3
    rw [e2, e1]
    by_cases hca : e.caller = a
    · subst hca; simp [hn']
    · simp [hca]

/-- **non-vested claim of a variant without a lock, launchpad token**: the caller receives
    `winning × perTicket` directly -/
theorem cr_claimBase_lp {t t' : Tx} {e : Env} (h : claimBase t e = .ok t')
    (hl : t.s.variant.hasLock = false)
    (hne : t.s.payTok ≠ .esdt t.s.lpTok)
    (hfee : t.s.variant.hasNft = true → t.s.nftCost.tok ≠ .esdt t.s.lpTok) (a : Nat) :
    cr_paid (.esdt t.s.lpTok) a t'.o.xfers = cr_paid (.esdt t.s.lpTok) a t.o.xfers +
      (if e.caller = a then winCount t.s a * t.s.perTicket else 0) := by
  rw [claimBase_ok_iff] at h
  obtain ⟨r, ⟨_, _, hr, _, _, _⟩, t2, h2, h3⟩ := h
  have hw : winCount t.s e.caller = countWinning t.s.status r.first (rangeLen r) := winCount_of_range hr
  have e1 : cr_paid (.esdt t.s.lpTok) a (claimMid t e r).o.xfers
      = cr_paid (.esdt t.s.lpTok) a t.o.xfers := by
    rw [claimMid_xfers, cr_paid_append]
    have : cr_paid (.esdt t.s.lpTok) a (if t.s.confirmed e.caller
        - countWinning t.s.status r.first (rangeLen r) = 0 then []
       else [(e.caller, (⟨t.s.payTok, 0,
          t.s.price * (t.s.confirmed e.caller - countWinning t.s.status r.first (rangeLen r))⟩ : Pay))])
        = 0 := by
      apply cr_paid_zero
      intro x hx hh
      split at hx
      · cases hx
      · simp only [List.mem_singleton] at hx
        subst hx
        exact hne hh.2.1
    rw [this]; rfl
  have hvm : (claimMid t e r).s.variant = t.s.variant := by rw [claimMid_state]; rfl
  have hl' : (claimMid t e r).s.variant.hasLock = false := by rw [hvm]; exact hl
  rw [sendLaunchpadTokens_nolock_ok_iff _ e _ _ _ hl'] at h2
  obtain ⟨_, rfl⟩ := h2
  have hlp : (claimMid t e r).s.lpTok = t.s.lpTok := by rw [claimMid_state]; rfl
  have hpt : (claimMid t e r).s.perTicket = t.s.perTicket := by rw [claimMid_state]; rfl
  have e2 : cr_paid (.esdt t.s.lpTok) a (sendTokensResult (claimMid t e r) e.caller
      (countWinning t.s.status r.first (rangeLen r))).o.xfers
      = cr_paid (.esdt t.s.lpTok) a t.o.xfers +
        (if e.caller = a then winCount t.s e.caller * t.s.perTicket else 0) := by
    rw [sendTokensResult_xfers, cr_paid_append, e1, hlp, hpt, ← hw]
    congr 1
    by_cases hz : winCount t.s e.caller = 0
    · rw [if_pos hz, hz]; simp [cr_paid]
    · rw [if_neg hz, cr_paid_single]
      by_cases hca : e.caller = a <;> simp [hca]
  have hvar : (sendTokensResult (claimMid t e r) e.caller
      (countWinning t.s.status r.first (rangeLen r))).s.variant = t.s.variant := by
    rw [sendTokensResult_state]; exact hvm
  rw [hvar] at h3
  by_cases hn : t.s.variant.hasNft = true
  · rw [if_pos hn, claimNft_ok_iff] at h3
    obtain ⟨_, _, rfl⟩ := h3
    rw [(claimNftResult_effect _ e).2.1, cr_paid_append, e2]
    have hcost : (sendTokensResult (claimMid t e r) e.caller
        (countWinning t.s.status r.first (rangeLen r))).s.nftCost = t.s.nftCost := by
      rw [sendTokensResult_state, claimMid_state]; rfl
    have : cr_paid (.esdt t.s.lpTok) a
        (if nftCategory (sendTokensResult (claimMid t e r) e.caller
          (countWinning t.s.status r.first (rangeLen r))).s e.caller = 2
         then [(e.caller, (sendTokensResult (claimMid t e r) e.caller
          (countWinning t.s.status r.first (rangeLen r))).s.nftCost)] else []) = 0 := by
      apply cr_paid_zero
      intro x hx hh
      split at hx
      · simp only [List.mem_singleton] at hx
        subst hx
        rw [hcost] at hh
        exact hfee hn hh.2.1
      · cases hx
    rw [this]
    by_cases hca : e.caller = a
    · subst hca; simp
    · simp [hca]
  · have hn' : t.s.variant.hasNft = false := by simpa using hn
    rw [hn'] at h3
    simp only [Bool.false_eq_true, if_false, pure_ok_iff] at h3
    subst h3
    rw [e2]
    by_cases hca : e.caller = a
    · subst hca; simp
    · simp [hca]

/-- the settle part of a vesting claim: the refund of the losing confirmed tickets (first claim
    only) -/
theorem cr_claimSettle_out {t t1 : Tx} {e : Env} (h : claimSettle t e = .ok t1) :
    t1.s.lpTok = t.s.lpTok ∧
    t1.o.xfers = t.o.xfers ++
      (if t.s.claimed e.caller = false ∧ t.s.confirmed e.caller - winCount t.s e.caller ≠ 0
       then [(e.caller, (⟨t.s.payTok, 0,
          t.s.price * (t.s.confirmed e.caller - winCount t.s e.caller)⟩ : Pay))] else []) := by
  unfold claimSettle at h
  cases hcl : t.s.claimed e.caller
  · simp only [hcl, Bool.false_eq_true, if_false, bind_ok_iff, Prod.exists, pure_ok_iff] at h
    obtain ⟨s1, rd, rf, hset, t2, href, rfl⟩ := h
    rw [settle_ok_iff] at hset
    obtain ⟨_, _, r, hr, hrd, _, _, hrf, hs1⟩ := hset
    rw [refund_ok_iff] at href
    obtain ⟨_, rfl⟩ := href
    have hw : winCount t.s e.caller = countWinning t.s.status r.first (rangeLen r) := winCount_of_range hr
    have hx : (refundResult (t.setS s1) e e.caller rf).o.xfers = t.o.xfers ++
        (if rf = 0 then [] else [(e.caller, (⟨t.s.payTok, 0, t.s.price * rf⟩ : Pay))]) := by
      rw [refundResult_xfers, hs1]; rfl
    have hlp : (refundResult (t.setS s1) e e.caller rf).s.lpTok = t.s.lpTok := by
      rw [refundResult_state, hs1]; rfl
    have hrf' : rf = t.s.confirmed e.caller - winCount t.s e.caller := by rw [hrf, hrd, hw]
    refine ⟨?_, ?_⟩
    · split
      · exact hlp
      · exact hlp
    · have : (if rd > 0 then (refundResult (t.setS s1) e e.caller rf).setS
          { (refundResult (t.setS s1) e e.caller rf).s with
            userTotal := upd (refundResult (t.setS s1) e e.caller rf).s.userTotal e.caller
              (rd * (refundResult (t.setS s1) e e.caller rf).s.perTicket) }
          else refundResult (t.setS s1) e e.caller rf).o.xfers
          = (refundResult (t.setS s1) e e.caller rf).o.xfers := by
        split <;> rfl
      rw [this, hx, ← hrf']
      by_cases hz : rf = 0 <;> simp [hz]
  · simp only [hcl, if_true, pure_ok_iff] at h
    subst h
    simp

/-- **vesting claim (first or repeat), payment token** -/
theorem cr_claimVested_pay {t t' : Tx} {e : Env} (h : claimVested t e = .ok t')
    (hne : t.s.payTok ≠ .esdt t.s.lpTok) (a : Nat) :
    cr_paid t.s.payTok a t'.o.xfers = cr_paid t.s.payTok a t.o.xfers +
      (if e.caller = a ∧ t.s.claimed a = false
       then t.s.price * (t.s.confirmed a - winCount t.s a) else 0) := by
  obtain ⟨t1, c, hset, _, _, _, _, _, _, hx⟩ := claimVested_inv h
  obtain ⟨hlp, hx1⟩ := cr_claimSettle_out hset
  rw [hx, cr_paid_append, hx1, cr_paid_append, hlp]
  have h0 : cr_paid t.s.payTok a
      (if c > 0 then [(e.caller, (⟨.esdt t.s.lpTok, 0, c⟩ : Pay))] else []) = 0 := by
    apply cr_paid_zero
    intro x hxm hh
    split at hxm
    · simp only [List.mem_singleton] at hxm
      subst hxm
      exact hne hh.2.1.symm
    · cases hxm
  rw [h0, Nat.add_zero]
  congr 1
  by_cases hca : e.caller = a
  · subst hca
    by_cases hcl : t.s.claimed e.caller = false
    · by_cases hz : t.s.confirmed e.caller - winCount t.s e.caller = 0
      · simp [hcl, hz, cr_paid]
      · simp [hcl, hz, cr_paid]
    · simp [hcl, cr_paid]
  · have : ∀ l : List (Nat × Pay), (∀ x ∈ l, x.1 = e.caller) → cr_paid t.s.payTok a l = 0 :=
      fun l hl => cr_paid_zero _ _ _ (fun x hx hh => hca ((hl x hx).symm.trans hh.1))
    rw [this]
    · simp [hca]
    · intro x hxm
      split at hxm
      · simp only [List.mem_singleton] at hxm; subst hxm; rfl
      · cases hxm

/-- **vesting claim (first or repeat), launchpad token**: the caller receives exactly the
    increment of his `userClaimed` record -/
theorem cr_claimVested_lp {t t' : Tx} {e : Env} (h : claimVested t e = .ok t')
    (hne : t.s.payTok ≠ .esdt t.s.lpTok) (a : Nat) :
    cr_paid (.esdt t.s.lpTok) a t'.o.xfers = cr_paid (.esdt t.s.lpTok) a t.o.xfers +
      (if e.caller = a then t'.s.userClaimed a - t.s.userClaimed a else 0) ∧
    t.s.userClaimed e.caller ≤ t'.s.userClaimed e.caller ∧
    (∀ b, b ≠ e.caller → t'.s.userClaimed b = t.s.userClaimed b) := by
  obtain ⟨t1, c, hset, _, huc, hoth, _, _, _, hx⟩ := claimVested_inv h
  obtain ⟨hlp, hx1⟩ := cr_claimSettle_out hset
  refine ⟨?_, by omega, hoth⟩
  rw [hx, cr_paid_append, hx1, cr_paid_append, hlp]
  have h0 : cr_paid (.esdt t.s.lpTok) a
      (if t.s.claimed e.caller = false ∧ t.s.confirmed e.caller - winCount t.s e.caller ≠ 0
       then [(e.caller, (⟨t.s.payTok, 0,
          t.s.price * (t.s.confirmed e.caller - winCount t.s e.caller)⟩ : Pay))] else []) = 0 := by
    apply cr_paid_zero
    intro x hxm hh
    split at hxm
    · simp only [List.mem_singleton] at hxm
      subst hxm
      exact hne hh.2.1
    · cases hxm
  rw [h0, Nat.add_zero]
  congr 1
  by_cases hca : e.caller = a
  · subst hca
    rw [huc]
    by_cases hc : c > 0
    · simp [hc, cr_paid]
    · have : c = 0 := by omega
      simp [this, cr_paid]
  · rw [if_neg hca]
    apply cr_paid_zero
    intro x hxm hh
    split at hxm
    · simp only [List.mem_singleton] at hxm; subst hxm; exact hca hh.1
    · cases hxm

/-! ## 3. blacklisting -/

theorem cr_mem_swapRemove_ne {l : List Nat} {u a : Nat} (h : a ≠ u) :
    a ∈ (swapRemove l u).1 ↔ a ∈ l := by
  rw [(nd_swapRemove_perm l u).mem_iff]
  exact List.mem_erase_of_ne h

/-- the NFT-fee refunds of a blacklisting: `a` gets the fee back iff listed and in `payers` -/
theorem cr_refundNftMany_paid (tok : Token) (a : Nat) : ∀ (l : List Nat) (t t' : Tx), l.Nodup →
    refundNftMany l t = .ok t' →
    cr_paid tok a t'.o.xfers = cr_paid tok a t.o.xfers +
      (if a ∈ l ∧ a ∈ t.s.payers then cr_fee t.s tok else 0)
  | [], t, t', _, h => by
    simp only [refundNftMany] at h
    injection h with h; subst h
    simp
  | u :: rest, t, t', hnd, h => by
    obtain ⟨hu, hnd'⟩ := List.nodup_cons.mp hnd
    rw [refundNftMany] at h
    simp only at h
    split at h
    · rename_i hdid
      have hup : u ∈ t.s.payers := (nd_swapRemove_snd _ _).mp hdid
      split at h
      · cases h
      · rename_i t1 hsend
        have ih := cr_refundNftMany_paid tok a rest t1 t' hnd' h
        have hs1 := (Tx.send_s hsend).1
        have hp1 : t1.s.payers = (swapRemove t.s.payers u).1 := by rw [hs1]; rfl
        have hc1 : t1.s.nftCost = t.s.nftCost := by rw [hs1]; rfl
        have hf1 : cr_fee t1.s tok = cr_fee t.s tok := by unfold cr_fee; rw [hc1]
        have hx1 : cr_paid tok a t1.o.xfers = cr_paid tok a t.o.xfers +
            (if u = a then cr_fee t.s tok else 0) := by
          rw [(Tx.send_s hsend).2.1]
          show cr_paid tok a (t.o.xfers ++ [(u, t.s.nftCost)]) = _
          rw [cr_paid_append, cr_paid_fee]
        rw [ih, hx1, hf1, hp1]
        by_cases hau : a = u
        · subst hau
          simp [hu, hup]
        · have hua : ¬ (u = a) := fun hh => hau hh.symm
          simp only [cr_mem_swapRemove_ne hau]
          simp [hau, hua]
    · rename_i hdid
      have hup : u ∉ t.s.payers := fun hh => hdid ((nd_swapRemove_snd _ _).mpr hh)
      rw [cr_refundNftMany_paid tok a rest t t' hnd' h]
      by_cases hau : a = u
      · subst hau
        simp [hu, hup]
      · simp [hau]

/-- the ticket refunds of a blacklisting -/
theorem cr_blXfer_paid (s : State) (tok : Token) (a : Nat) : ∀ l : List Nat, l.Nodup →
    cr_paid tok a (l.filterMap (Events.blXfer s))
      = if a ∈ l ∧ s.payTok = tok then s.price * s.confirmed a else 0
  | [], _ => by simp [cr_paid]
  | u :: rest, hnd => by
    obtain ⟨hu, hnd'⟩ := List.nodup_cons.mp hnd
    have ih := cr_blXfer_paid s tok a rest hnd'
    rw [List.filterMap_cons]
    unfold Events.blXfer
    have ih' : cr_paid tok a (List.filterMap (fun u => if s.confirmed u > 0
        then some (u, Events.refundPay s (s.confirmed u)) else none) rest)
        = if a ∈ rest ∧ s.payTok = tok then s.price * s.confirmed a else 0 := ih
    by_cases hc : s.confirmed u > 0
    · simp only [hc, if_true]
      show cr_paid tok a ((u, Events.refundPay s (s.confirmed u)) :: _) = _
      simp only [cr_paid]
      rw [ih']
      by_cases hau : a = u
      · subst hau
        by_cases htk : s.payTok = tok <;> simp [hu, htk, Events.refundPay]
      · have hua : ¬ (u = a) := fun hh => hau hh.symm
        simp [hau, hua]
    · simp only [hc, if_false]
      rw [ih']
      by_cases hau : a = u
      · subst hau
        have : s.confirmed a = 0 := by omega
        simp [hu, this]
      · simp [hau]

/-- **`blacklist`, any fungible token `tok`**: a listed user gets `price × confirmed` back (payment
    token), plus the NFT fee (fee token) if he had paid it -/
theorem cr_exec_blacklist_paid {hash : List Nat → List Nat} {t t' : Tx} {e : Env} {l : List Nat}
    (h : exec hash t e (.blacklist l) = .ok t') (tok : Token) (a : Nat) :
    cr_paid tok a t'.o.xfers = cr_paid tok a t.o.xfers +
      (if a ∈ l then (if t.s.payTok = tok then t.s.price * t.s.confirmed a else 0) +
        (if t.s.variant.hasNft = true ∧ a ∈ t.s.payers then cr_fee t.s tok else 0) else 0) := by
  rw [Events.exec_blacklist_eq] at h
  simp only [bind_ok_iff, pure_ok_iff] at h
  obtain ⟨t1, h1, t2, h2, t3, h3, h4⟩ := h
  obtain ⟨_, _, hnd, _, _, rfl⟩ := (Events.addUsersToBlacklist_ok_iff _ _ _ _).mp h1
  have hg : Events.GHook l (Events.blState t.s l) t2.s ∧ t2.o = (Events.blTx t e l).o := by
    unfold Events.blHookG at h2
    split at h2
    · simp only [bind_ok_iff, pure_ok_iff] at h2
      obtain ⟨s1, hs1, rfl⟩ := h2
      exact ⟨Events.clearGuaranteedV2_frame hs1, rfl⟩
    · split at h2
      · simp only [bind_ok_iff, pure_ok_iff] at h2
        obtain ⟨s1, hs1, rfl⟩ := h2
        exact ⟨Events.clearGuaranteedV1_frame hs1, rfl⟩
      · simp only [pure_ok_iff] at h2
        subst h2
        exact ⟨⟨⟨_, _, _, _, _, rfl⟩, fun _ _ => ⟨rfl, rfl⟩⟩, rfl⟩
  obtain ⟨⟨⟨wl, u, b, nw, tg, hs2⟩, _⟩, ho2⟩ := hg
  have hv2 : t2.s.variant = t.s.variant := by rw [hs2]; rfl
  have hp2 : t2.s.payers = t.s.payers := by rw [hs2]; rfl
  have hc2 : t2.s.nftCost = t.s.nftCost := by rw [hs2]; rfl
  have hx2 : cr_paid tok a t2.o.xfers = cr_paid tok a t.o.xfers +
      (if a ∈ l ∧ t.s.payTok = tok then t.s.price * t.s.confirmed a else 0) := by
    rw [ho2]
    show cr_paid tok a (t.o.xfers ++ l.filterMap (Events.blXfer t.s)) = _
    rw [cr_paid_append, cr_blXfer_paid t.s tok a l hnd]
  have hx4 : t'.o.xfers = t3.o.xfers := by
    subst h4
    unfold Events.blHookE
    split <;> rfl
  rw [hx4]
  unfold Events.blHookN at h3
  rw [hv2] at h3
  by_cases hn : t.s.variant.hasNft = true
  · rw [if_pos hn] at h3
    rw [cr_refundNftMany_paid tok a l t2 t3 hnd h3, hx2, hp2]
    have : cr_fee t2.s tok = cr_fee t.s tok := by unfold cr_fee; rw [hc2]
    rw [this]
    by_cases hal : a ∈ l
    · simp only [hal, hn, true_and, if_true]; omega
    · simp [hal]
  · have hn' : t.s.variant.hasNft = false := by simpa using hn
    rw [hn'] at h3
    simp only [Bool.false_eq_true, if_false, pure_ok_iff] at h3
    subst h3
    rw [hx2]
    by_cases hal : a ∈ l
    · simp [hal, hn']
    · simp [hal]

/-- **`refundUsers` (v2), any fungible token** -/
theorem cr_exec_refundUsers_paid {hash : List Nat → List Nat} {t t' : Tx} {e : Env} {l : List Nat}
    (h : exec hash t e (.refundUsers l) = .ok t') (tok : Token) (a : Nat) :
    cr_paid tok a t'.o.xfers = cr_paid tok a t.o.xfers +
      (if a ∈ l ∧ t.s.payTok = tok then t.s.price * t.s.confirmed a else 0) := by
  obtain ⟨h1, ho, _, _⟩ := Events.exec_refundUsers_out h
  obtain ⟨_, _, hnd, _, _, _⟩ := (Events.addUsersToBlacklist_ok_iff _ _ _ _).mp h1
  rw [ho]
  show cr_paid tok a (t.o.xfers ++ l.filterMap (Events.blXfer t.s)) = _
  rw [cr_paid_append, cr_blXfer_paid t.s tok a l hnd]

/-! ## 4. one accepted transaction -/

/-- what the accepted call `c` by `e.caller` in state `s` owes `a` in the ticket-payment token:
    * his (first) `claim`: `price × (confirmed − winning)`, plus the NFT fee if it is charged in the
      payment token and he paid it without being drawn (category 2);
    * `blacklist l` with `a ∈ l`: `price × confirmed`, plus the NFT fee if charged in the payment
      token and he had paid it; `refundUsers l` (v2) with `a ∈ l`: `price × confirmed`;
    * nothing otherwise -/
def cr_owedPay (s : State) (e : Env) (c : Call) (a : Nat) : Nat :=
  match c with
  | .claim =>
    if e.caller = a ∧ s.claimed a = false then
      s.price * (s.confirmed a - winCountOf s a) +
        (if s.variant.hasNft = true ∧ nftCategory s a = 2 then cr_fee s s.payTok else 0)
    else 0
  | .blacklist l =>
    if a ∈ l then s.price * s.confirmed a +
      (if s.variant.hasNft = true ∧ a ∈ s.payers then cr_fee s s.payTok else 0) else 0
  | .refundUsers l => if a ∈ l then s.price * s.confirmed a else 0
  | _ => 0

theorem cr_xfers_to_caller {hash : List Nat → List Nat} {s s' : State} {e : Env} {o : Out}
    (hs : step hash s e .claimPayment = .ok (s', o)) (tok : Token) {a : Nat} (ha : a ≠ s.owner) :
    cr_paid tok a o.xfers = 0 := by
  have ho := step_claimPayment_owner hs
  apply cr_paid_zero
  intro x hx hh
  have : x.1 = e.caller := (step_recipients hs).1 x hx
  exact ha (hh.1.symm.trans (this.trans ho))

/-- **one accepted transaction, payment token** — ANY state of ANY of the eight variants with
    `payTok ≠ lpTok` (no reachability): an address other than the owner receives in the
    ticket-payment token exactly `cr_owedPay` -/
theorem cr_step_pay {hash : List Nat → List Nat} {s s' : State} {e : Env} {c : Call} {o : Out}
    (hne : s.payTok ≠ .esdt s.lpTok) {a : Nat} (ha : a ≠ s.owner)
    (hs : step hash s e c = .ok (s', o)) :
    cr_paid s.payTok a o.xfers = cr_owedPay s e c a := by
  cases c with
  | claim =>
    rw [step_claim_ok_iff] at hs
    obtain ⟨_, _, t, hx, rfl, rfl⟩ := hs
    cases hv : s.variant.vested
    · rw [exec_claim_nonvested hash _ e hv] at hx
      have h1 := cr_claimBase_pay hx hne a
      obtain ⟨r, ⟨_, hcl, _⟩, _⟩ := (claimBase_ok_iff _ e t).mp hx
      have h1' : cr_paid s.payTok a t.o.xfers = 0 +
          (if e.caller = a then s.price * (s.confirmed a - winCount s a) +
             (if s.variant.hasNft = true ∧ nftCategory s a = 2 then cr_fee s s.payTok else 0)
           else 0) := h1
      rw [h1', Nat.zero_add]
      unfold cr_owedPay
      have hcl' : s.claimed e.caller = false := hcl
      by_cases hca : e.caller = a
      · subst hca; simp only [hcl', and_self, if_true]; rfl
      · simp [hca]
    · rw [exec_claim_vested hash _ e hv] at hx
      have h1 := cr_claimVested_pay hx hne a
      have h1' : cr_paid s.payTok a t.o.xfers = 0 +
          (if e.caller = a ∧ s.claimed a = false
           then s.price * (s.confirmed a - winCount s a) else 0) := h1
      rw [h1', Nat.zero_add]
      unfold cr_owedPay
      have hn : s.variant.hasNft = false := (rc_vested_flags hv).1
      simp only [hn, Bool.false_eq_true, false_and, if_false, Nat.add_zero]
      rfl
  | claimPayment => exact cr_xfers_to_caller hs _ ha
  | blacklist l =>
    obtain ⟨m, t, _, _, _, hx, rfl, rfl⟩ := step_ok_inv hs
    have h1 := cr_exec_blacklist_paid hx s.payTok a
    have h1' : cr_paid s.payTok a t.o.xfers = 0 +
        (if a ∈ l then (if s.payTok = s.payTok then s.price * s.confirmed a else 0) +
          (if s.variant.hasNft = true ∧ a ∈ s.payers then cr_fee s s.payTok else 0) else 0) := h1
    rw [h1', Nat.zero_add]
    simp [cr_owedPay]
  | refundUsers l =>
    obtain ⟨m, t, _, _, _, hx, rfl, rfl⟩ := step_ok_inv hs
    have h1 := cr_exec_refundUsers_paid hx s.payTok a
    have h1' : cr_paid s.payTok a t.o.xfers = 0 +
        (if a ∈ l ∧ s.payTok = s.payTok then s.price * s.confirmed a else 0) := h1
    rw [h1', Nat.zero_add]
    simp [cr_owedPay]
  | _ => rw [(step_quiet hs rfl).1]; rfl

/-- static facts every accepted call keeps -/
structure cr_Static (s : State) : Prop where
  tokNe : s.payTok ≠ .esdt s.lpTok
  feeNe : s.nftCost.tok ≠ .esdt s.lpTok
  pct : s.lockPct ≤ 10000

theorem cr_step_static {hash : List Nat → List Nat} {s s' : State} {e : Env} {c : Call} {o : Out}
    (h : cr_Static s) (hs : step hash s e c = .ok (s', o)) : cr_Static s' :=
  ⟨pl_step_tokNe hs h.tokNe, fl_step_fee_ne_lp hs h.feeNe, by rw [pl_step_lockPct hs]; exact h.pct⟩

/-- what the accepted call `c` (leading from `s` to `s'`) owes `a` in the launchpad token: his
    `claim` pays `winning × perTicket` (non-vested variants; for the locked variants partly through
    the lock contract), resp. the increment of his `userClaimed` record (vested variants) -/
def cr_owedLp (s s' : State) (e : Env) (c : Call) (a : Nat) : Nat :=
  match c with
  | .claim =>
    if e.caller = a then
      (if s.variant.vested = true then s'.userClaimed a - s.userClaimed a
       else s.perTicket * winCountOf s a)
    else 0
  | _ => 0

theorem cr_fee_lp_zero {s : State} (h : s.nftCost.tok ≠ .esdt s.lpTok) : cr_fee s (.esdt s.lpTok) = 0 := by
  unfold cr_fee
  rw [if_neg (fun hh => h hh.1)]

/-- **one accepted transaction, launchpad token** — ANY state with the static facts: an address
    that is neither the owner nor (locked variants) the lock contract receives in launchpad tokens
    (lock calls with destination `a` + direct transfers to `a`) exactly `cr_owedLp` -/
theorem cr_step_lp {hash : List Nat → List Nat} {s s' : State} {e : Env} {c : Call} {o : Out}
    (hS : cr_Static s) {a : Nat} (ha : a ≠ s.owner)
    (ha2 : s.variant.hasLock = true → a ≠ s.lockAddr)
    (hs : step hash s e c = .ok (s', o)) :
    received s.lpTok a o = cr_owedLp s s' e c a := by
  by_cases hl : s.variant.hasLock = true
  · have h1 := lk_step_received ⟨hl, hS.pct, hS.tokNe⟩ ha (ha2 hl) hs
    rw [h1]
    have hv : s.variant.vested = false := (lk_hasLock_flags hl).1
    cases c <;> simp [isClaimBy, cr_owedLp, hv]
  · have hl' : s.variant.hasLock = false := by simpa using hl
    have hlk : o.locks = [] := lk_step_locks (fun _ => hl') hs
    unfold received
    rw [hlk, cr_directTo_eq]
    show 0 + _ = _
    rw [Nat.zero_add]
    cases c with
    | claim =>
      have hs0 := hs
      rw [step_claim_ok_iff] at hs
      obtain ⟨_, _, t, hx, rfl, rfl⟩ := hs
      cases hv : s.variant.vested
      · rw [exec_claim_nonvested hash _ e hv] at hx
        have h1 := cr_claimBase_lp hx hl' hS.tokNe (fun _ => hS.feeNe) a
        have h1' : cr_paid (.esdt s.lpTok) a t.o.xfers = 0 +
            (if e.caller = a then winCount s a * s.perTicket else 0) := h1
        rw [h1', Nat.zero_add]
        simp only [cr_owedLp, hv, Bool.false_eq_true, if_false]
        rw [Nat.mul_comm]; rfl
      · rw [exec_claim_vested hash _ e hv] at hx
        have h1 := (cr_claimVested_lp hx hS.tokNe a).1
        have h1' : cr_paid (.esdt s.lpTok) a t.o.xfers = 0 +
            (if e.caller = a then t.s.userClaimed a - s.userClaimed a else 0) := h1
        rw [h1', Nat.zero_add]
        simp only [cr_owedLp, hv, if_true]
    | claimPayment => exact cr_xfers_to_caller hs _ ha
    | blacklist l =>
      obtain ⟨m, t, _, _, _, hx, rfl, rfl⟩ := step_ok_inv hs
      have h1 := cr_exec_blacklist_paid hx (.esdt s.lpTok) a
      have h1' : cr_paid (.esdt s.lpTok) a t.o.xfers = 0 +
          (if a ∈ l then (if s.payTok = .esdt s.lpTok then s.price * s.confirmed a else 0) +
            (if s.variant.hasNft = true ∧ a ∈ s.payers then cr_fee s (.esdt s.lpTok) else 0) else 0) := h1
      rw [h1', Nat.zero_add, cr_fee_lp_zero hS.feeNe, if_neg hS.tokNe]
      simp [cr_owedLp]
    | refundUsers l =>
      obtain ⟨m, t, _, _, _, hx, rfl, rfl⟩ := step_ok_inv hs
      have h1 := cr_exec_refundUsers_paid hx (.esdt s.lpTok) a
      have h1' : cr_paid (.esdt s.lpTok) a t.o.xfers = 0 +
          (if a ∈ l ∧ s.payTok = .esdt s.lpTok then s.price * s.confirmed a else 0) := h1
      rw [h1', Nat.zero_add]
      have : ¬ (a ∈ l ∧ s.payTok = .esdt s.lpTok) := fun hh => hS.tokNe hh.2
      rw [if_neg this]; rfl
    | _ => rw [(step_quiet hs rfl).1]; rfl

/-! ## 5. sums over the log of accepted transactions -/

/-- payment-token receipts of `a` over a log; the payment token is read in the state each
    transaction ran in (`setTicketPrice` may change it while tickets are being added; it is frozen
    from the confirmation start on) -/
def cr_totalPay (a : Nat) : List (State × Env × Call × Out) → Nat
  | [] => 0
  | x :: rest => cr_paid x.1.payTok a x.2.2.2.xfers + cr_totalPay a rest

/-- receipts of `a` in the fixed fungible token `tok` over a log -/
def cr_total (tok : Token) (a : Nat) : List (State × Env × Call × Out) → Nat
  | [] => 0
  | x :: rest => cr_paid tok a x.2.2.2.xfers + cr_total tok a rest

/-- what the transactions of a log owe `a` in the payment token, each evaluated in its pre-state -/
def cr_totalOwed (a : Nat) : List (State × Env × Call × Out) → Nat
  | [] => 0
  | x :: rest => cr_owedPay x.1 x.2.1 x.2.2.1 a + cr_totalOwed a rest

/-- the log entry is an accepted `claim` by `a` that performs his settlement (his first claim; in
    the non-vested variants every accepted claim is one) -/
def cr_isSettleBy (a : Nat) (x : State × Env × Call × Out) : Bool :=
  isClaimBy a x && !x.1.claimed a

/-- the log entry is an accepted `blacklist` / `refundUsers` listing `a` -/
def cr_isBlacklistOf (a : Nat) (x : State × Env × Call × Out) : Bool :=
  match x.2.2.1 with
  | .blacklist l => decide (a ∈ l)
  | .refundUsers l => decide (a ∈ l)
  | _ => false

/-- the state an accepted log entry leads to -/
def cr_post (hash : List Nat → List Nat) (x : State × Env × Call × Out) : State :=
  match step hash x.1 x.2.1 x.2.2.1 with
  | .ok (s', _) => s'
  | .error _ => x.1

def cr_totalOwedLp (hash : List Nat → List Nat) (a : Nat) : List (State × Env × Call × Out) → Nat
  | [] => 0
  | x :: rest => cr_owedLp x.1 (cr_post hash x) x.2.1 x.2.2.1 a + cr_totalOwedLp hash a rest

theorem cr_owedPay_of_not (s : State) (e : Env) (c : Call) (o : Out) (a : Nat)
    (h1 : cr_isSettleBy a (s, e, c, o) = false) (h2 : cr_isBlacklistOf a (s, e, c, o) = false) :
    cr_owedPay s e c a = 0 := by
  cases c <;> simp_all [cr_owedPay, cr_isSettleBy, cr_isBlacklistOf, isClaimBy]

/-- **payment-token receipts over ANY history** (any start state with `payTok ≠ lpTok`, any calls by
    anybody, rejected transactions leave no trace): what `a ≠ owner` receives in the payment token
    is exactly the sum of `cr_owedPay` over the accepted transactions -/
theorem cr_totalPay_eq (hash : List Nat → List Nat) (a : Nat) :
    ∀ (hist : List (Env × Call)) (s : State), s.payTok ≠ .esdt s.lpTok → a ≠ s.owner →
      cr_totalPay a (lk_runLog hash s hist) = cr_totalOwed a (lk_runLog hash s hist)
  | [], _, _, _ => rfl
  | (e, c) :: rest, s, hne, ha => by
    cases hx : step hash s e c with
    | error err =>
      rw [lk_runLog_cons_err hx]
      exact cr_totalPay_eq hash a rest s hne ha
    | ok q =>
      obtain ⟨s', o⟩ := q
      rw [lk_runLog_cons_ok hx]
      show cr_paid s.payTok a o.xfers + cr_totalPay a (lk_runLog hash s' rest)
        = cr_owedPay s e c a + cr_totalOwed a (lk_runLog hash s' rest)
      rw [cr_step_pay hne ha hx, cr_totalPay_eq hash a rest s' (pl_step_tokNe hx hne)
        (by rw [lk_step_owner hx]; exact ha)]

/-- once `a` is marked as claimed no later log entry is a settlement by `a` -/
theorem cr_no_settle_after (hash : List Nat → List Nat) (a : Nat) :
    ∀ (hist : List (Env × Call)) (s : State), s.claimed a = true →
      ∀ x ∈ lk_runLog hash s hist, cr_isSettleBy a x = false
  | [], _, _, x, hx => by cases hx
  | (e, c) :: rest, s, hcl, x, hx => by
    cases hs : step hash s e c with
    | error err =>
      rw [lk_runLog_cons_err hs] at hx
      exact cr_no_settle_after hash a rest s hcl x hx
    | ok q =>
      obtain ⟨s', o⟩ := q
      rw [lk_runLog_cons_ok hs] at hx
      rcases List.mem_cons.mp hx with rfl | hx
      · simp [cr_isSettleBy, hcl]
      · exact cr_no_settle_after hash a rest s' (step_claimed_mono hash s e c s' o hs a hcl) x hx

/-- **each participant settles at most once**: along ANY history from ANY state at most one
    accepted claim by `a` performs a settlement (pays a refund / delivers the entitlement) -/
theorem cr_settle_once (hash : List Nat → List Nat) (a : Nat) :
    ∀ (hist : List (Env × Call)) (s : State),
      ((lk_runLog hash s hist).filter (cr_isSettleBy a)).length ≤ 1
  | [], _ => Nat.zero_le _
  | (e, c) :: rest, s => by
    cases hs : step hash s e c with
    | error err =>
      rw [lk_runLog_cons_err hs]
      exact cr_settle_once hash a rest s
    | ok q =>
      obtain ⟨s', o⟩ := q
      rw [lk_runLog_cons_ok hs]
      cases hb : cr_isSettleBy a (s, e, c, o)
      · rw [List.filter_cons_of_neg (by simp [hb])]
        exact cr_settle_once hash a rest s'
      · rw [List.filter_cons_of_pos (by simp [hb])]
        have hcl : s'.claimed a = true := by
          have hb' : isClaimBy a (s, e, c, o) = true := by
            simp only [cr_isSettleBy, Bool.and_eq_true] at hb; exact hb.1
          cases c <;> simp only [isClaimBy, Bool.false_eq_true] at hb'
          have hca : e.caller = a := by simpa using hb'
          rw [← hca]
          exact claim_sets_claimed hash s e s' o hs
        have : (lk_runLog hash s' rest).filter (cr_isSettleBy a) = [] := by
          rw [List.filter_eq_nil_iff]
          intro x hxm
          rw [cr_no_settle_after hash a rest s' hcl x hxm]; simp
        rw [this]; simp

/-- **launchpad-token receipts over ANY history** (any start state with the static facts): lock
    calls with destination `a` plus direct transfers to `a` add up to the sum of `cr_owedLp` -/
theorem cr_totalLp_eq (hash : List Nat → List Nat) (a : Nat) :
    ∀ (hist : List (Env × Call)) (s : State), cr_Static s → a ≠ s.owner →
      (s.variant.hasLock = true → a ≠ s.lockAddr) →
      totalReceived s.lpTok a (lk_runLog hash s hist) = cr_totalOwedLp hash a (lk_runLog hash s hist)
  | [], _, _, _, _ => rfl
  | (e, c) :: rest, s, hS, ha, ha2 => by
    cases hx : step hash s e c with
    | error err =>
      rw [lk_runLog_cons_err hx]
      exact cr_totalLp_eq hash a rest s hS ha ha2
    | ok q =>
      obtain ⟨s', o⟩ := q
      rw [lk_runLog_cons_ok hx]
      have hpost : cr_post hash (s, e, c, o) = s' := by
        unfold cr_post; simp only [hx]
      show received s.lpTok a o + totalReceived s.lpTok a (lk_runLog hash s' rest)
        = cr_owedLp s (cr_post hash (s, e, c, o)) e c a + cr_totalOwedLp hash a (lk_runLog hash s' rest)
      have ih := cr_totalLp_eq hash a rest s' (cr_step_static hS hx)
        (by rw [lk_step_owner hx]; exact ha)
        (by rw [pl_step_variant hx, (pl_step_lockAddr hx).1]; exact ha2)
      rw [pl_step_lpTok hx] at ih
      rw [hpost, cr_step_lp hS ha ha2 hx, ih]

/-! ## 6. after all selection steps: what an accepted call can still change -/

/-- winning flags, vesting receipts and the two NFT lists -/
structure cr_X where
  status : Nat → Bool
  userClaimed : Nat → Nat
  nftWinners : List Nat
  payers : List Nat

def State.cr_x (s : State) : cr_X := ⟨s.status, s.userClaimed, s.nftWinners, s.payers⟩

theorem cr_send_x {t t' : Tx} {to : Nat} {p : Pay} (h : t.send to p = .ok t') : t'.s.cr_x = t.s.cr_x := by
  rw [(Tx.send_s h).1]; rfl

theorem cr_claimPaymentOwn_x {t t' : Tx} {e : Env} (h : claimPaymentOwn t e = .ok t') :
    t'.s.cr_x = t.s.cr_x := by
  unfold claimPaymentOwn at h
  simp only [bind_ok_iff, req_ok_iff, requireStage, exists_const] at h
  obtain ⟨_, h⟩ := h
  split at h
  · simp only [bind_ok_iff] at h
    obtain ⟨t1, h1, h⟩ := h
    have e1 : t1.s.cr_x = t.s.cr_x := (cr_send_x h1).trans rfl
    split at h
    · simp only [pure_ok_iff] at h; subst h; exact e1
    · split at h
      · simp only [pure_ok_iff] at h; subst h; exact e1
      · rw [cr_send_x h]; exact e1
  · simp only [bind_ok_iff, pure_ok_iff] at h
    obtain ⟨a, rfl, h⟩ := h
    split at h
    · simp only [pure_ok_iff] at h; subst h; rfl
    · split at h
      · simp only [pure_ok_iff] at h; subst h; rfl
      · rw [cr_send_x h]; rfl

theorem cr_claimPaymentCommon_x {t t' : Tx} {e : Env} (h : claimPaymentCommon t e = .ok t') :
    t'.s.cr_x = t.s.cr_x := by
  unfold claimPaymentCommon at h
  simp only [bind_ok_iff, req_ok_iff, requireStage, exists_const] at h
  obtain ⟨_, h⟩ := h
  split at h
  · simp only [bind_ok_iff] at h
    obtain ⟨t1, h1, x, _, h⟩ := h
    have e1 : t1.s.cr_x = t.s.cr_x := (cr_send_x h1).trans rfl
    split at h
    · rw [cr_send_x h]; exact e1
    · simp only [pure_ok_iff] at h; subst h; exact e1
  · simp only [bind_ok_iff, pure_ok_iff] at h
    obtain ⟨a, rfl, x, _, h⟩ := h
    split at h
    · exact cr_send_x h
    · simp only [pure_ok_iff] at h; subst h; rfl

theorem cr_claimNftPayment_x {t t' : Tx} {e : Env} (h : claimNftPayment t e = .ok t') :
    t'.s.cr_x = t.s.cr_x := by
  unfold claimNftPayment at h
  simp only [bind_ok_iff, req_ok_iff, requireStage, exists_const] at h
  obtain ⟨_, h⟩ := h
  split at h
  · simp only [bind_ok_iff, pure_ok_iff] at h
    obtain ⟨t1, h1, rfl⟩ := h
    exact (cr_send_x h1 : t1.s.cr_x = t.s.cr_x)
  · simp only [pure_ok_iff] at h; subst h; rfl

theorem cr_exec_claimPayment_x {hash : List Nat → List Nat} {t t' : Tx} {e : Env}
    (h : exec hash t e .claimPayment = .ok t') : t'.s.cr_x = t.s.cr_x := by
  simp only [exec] at h
  split at h
  · exact cr_claimPaymentOwn_x h
  · simp only [bind_ok_iff] at h
    obtain ⟨t1, h1, h2⟩ := h
    have e1 := cr_claimPaymentCommon_x h1
    split at h2
    · rw [cr_claimNftPayment_x h2, e1]
    · simp only [pure_ok_iff] at h2; subst h2; exact e1

/-- what a settlement can do to the winning flags: nothing, or clear the caller's range -/
def cr_StatusEff (s : State) (caller : Nat) (st' : Nat → Bool) : Prop :=
  st' = s.status ∨ ∃ r, s.range caller = some r ∧
    st' = (clearRange s.status s.posToId r.first (rangeLen r)).1

theorem cr_claimSettle_x {t t1 : Tx} {e : Env} (h : claimSettle t e = .ok t1) :
    cr_StatusEff t.s e.caller t1.s.status ∧ t1.s.nftWinners = t.s.nftWinners ∧
    t1.s.payers = t.s.payers := by
  unfold claimSettle at h
  cases hcl : t.s.claimed e.caller
  · simp only [hcl, Bool.false_eq_true, if_false, bind_ok_iff, Prod.exists, pure_ok_iff] at h
    obtain ⟨s1, rd, rf, hset, t2, href, rfl⟩ := h
    rw [settle_ok_iff] at hset
    obtain ⟨_, _, r, hr, _, _, _, _, hs1⟩ := hset
    rw [refund_ok_iff] at href
    obtain ⟨_, rfl⟩ := href
    have hst : (refundResult (t.setS s1) e e.caller rf).s.status
        = (clearRange t.s.status t.s.posToId r.first (rangeLen r)).1 := by
      rw [refundResult_state, hs1]; rfl
    have hw : (refundResult (t.setS s1) e e.caller rf).s.nftWinners = t.s.nftWinners := by
      rw [refundResult_state, hs1]; rfl
    have hp : (refundResult (t.setS s1) e e.caller rf).s.payers = t.s.payers := by
      rw [refundResult_state, hs1]; rfl
    refine ⟨Or.inr ⟨r, hr, ?_⟩, ?_, ?_⟩
    · split <;> exact hst
    · split <;> exact hw
    · split <;> exact hp
  · simp only [hcl, if_true, pure_ok_iff] at h
    subst h
    exact ⟨Or.inl rfl, rfl, rfl⟩

theorem cr_claimPay_x {v2 : Bool} {t t' : Tx} {e : Env} {c : Nat} (h : claimPay v2 t e c = .ok t') :
    t'.s.status = t.s.status ∧ t'.s.nftWinners = t.s.nftWinners ∧ t'.s.payers = t.s.payers := by
  unfold claimPay at h
  split at h
  · simp only [bind_ok_iff, pure_ok_iff] at h
    obtain ⟨t1, h1, rfl⟩ := h
    have hs := (Tx.send_s h1).1
    cases v2 <;> (simp only [Tx.setS, Tx.emit]; rw [hs]; exact ⟨rfl, rfl, rfl⟩)
  · simp only [pure_ok_iff] at h
    subst h; exact ⟨rfl, rfl, rfl⟩

/-- **the `claim` endpoint, any variant**: the winning flags are untouched or the caller's range is
    cleared; the NFT lists lose at most the caller -/
theorem cr_exec_claim_x {hash : List Nat → List Nat} {t t' : Tx} {e : Env}
    (h : exec hash t e .claim = .ok t') :
    cr_StatusEff t.s e.caller t'.s.status ∧
    (∀ b, b ≠ e.caller → (b ∈ t'.s.nftWinners ↔ b ∈ t.s.nftWinners) ∧
      (b ∈ t'.s.payers ↔ b ∈ t.s.payers)) := by
  cases hv : t.s.variant.vested
  · rw [exec_claim_nonvested hash t e hv, claimBase_ok_iff] at h
    obtain ⟨r, ⟨_, _, hr, _, _, _⟩, t2, h2, h3⟩ := h
    obtain ⟨b, hb, _, _⟩ := rb_sendLp h2
    have hst2 : t2.s.status = (clearRange t.s.status t.s.posToId r.first (rangeLen r)).1 := by
      rw [hb, claimMid_state]; rfl
    have hw2 : t2.s.nftWinners = t.s.nftWinners := by rw [hb, claimMid_state]; rfl
    have hp2 : t2.s.payers = t.s.payers := by rw [hb, claimMid_state]; rfl
    split at h3
    · rw [claimNft_ok_iff] at h3
      obtain ⟨_, _, rfl⟩ := h3
      obtain ⟨_, _, _, hW, hP, _⟩ := claimNftResult_effect t2 e
      have hst : (claimNftResult t2 e).s.status = t2.s.status := by
        unfold claimNftResult; dsimp only; split <;> rfl
      refine ⟨Or.inr ⟨r, hr, by rw [hst, hst2]⟩, fun x hx => ⟨?_, ?_⟩⟩
      · rw [hW, cr_mem_swapRemove_ne hx, hw2]
      · rw [hP]
        split
        · rw [cr_mem_swapRemove_ne hx, hp2]
        · rw [hp2]
    · simp only [pure_ok_iff] at h3
      subst h3
      exact ⟨Or.inr ⟨r, hr, hst2⟩, fun x _ => ⟨by rw [hw2], by rw [hp2]⟩⟩
  · rw [exec_claim_vested hash t e hv, claimVested_eq] at h
    have key : ∀ v2, claimBody v2 t e = .ok t' → cr_StatusEff t.s e.caller t'.s.status ∧
        t'.s.nftWinners = t.s.nftWinners ∧ t'.s.payers = t.s.payers := by
      intro v2 hb
      unfold claimBody at hb
      simp only [bind_ok_iff] at hb
      obtain ⟨t1, h1, c, _, h2⟩ := hb
      obtain ⟨k1, k2, k3⟩ := cr_claimSettle_x h1
      obtain ⟨j1, j2, j3⟩ := cr_claimPay_x h2
      exact ⟨by rw [j1]; exact k1, by rw [j2, k2], by rw [j3, k3]⟩
    have : cr_StatusEff t.s e.caller t'.s.status ∧
        t'.s.nftWinners = t.s.nftWinners ∧ t'.s.payers = t.s.payers := by
      split at h
      · simp only [bind_ok_iff, req_ok_iff, exists_const] at h
        exact key _ h.2
      · exact key _ h
    exact ⟨this.1, fun x _ => ⟨by rw [this.2.1], by rw [this.2.2]⟩⟩

theorem cr_countWinning_congr (st st' : Nat → Bool) (first : Nat) :
    ∀ len, (∀ k, k < len → st' (first + k) = st (first + k)) →
      countWinning st' first len = countWinning st first len
  | 0, _ => rfl
  | k + 1, h => by
    simp only [countWinning]
    rw [cr_countWinning_congr st st' first k (fun j hj => h j (by omega)), h k (by omega)]

/-- **after all selection steps** (valid timeline, round ≥ selection start): an accepted call other
    than `claim` changes none of: winning flags, vesting receipts, NFT lists, allocation records,
    confirmations, `claimed`, price, payment token, tokens per ticket, NFT fee -/
theorem cr_post_x {hash : List Nat → List Nat} {s s' : State} {e : Env} {c : Call} {o : Out}
    (hd : AllDone s) (hf : s.flags.filtered = true) (hv : validPeriods s.cfg = true)
    (hsel : s.cfg.sel ≤ e.round) (hs : step hash s e c = .ok (s', o)) (hc : c ≠ .claim) :
    s'.cr_x = s.cr_x ∧ s'.range = s.range ∧ s'.confirmed = s.confirmed ∧ s'.claimed = s.claimed ∧
    s'.price = s.price ∧ s'.payTok = s.payTok ∧ s'.perTicket = s.perTicket ∧
    s'.nftCost = s.nftCost := by
  have hst := be_stage_late hv hsel
  have hcl : s'.claimed = s.claimed := (step_claimed_exact hash s e c s' o hs).1 hc
  obtain ⟨m, t, _, _, _, hx, hs', _⟩ := step_ok_inv hs
  have static : c.setsStatic = true → (∀ tok a, c ≠ .setTicketPrice tok a) →
      (∀ a, c ≠ .setPerTicket a) → (∀ p, c ≠ .setNftCost p) →
      s'.cr_x = s.cr_x ∧ s'.range = s.range ∧ s'.confirmed = s.confirmed ∧ s'.claimed = s.claimed ∧
      s'.price = s.price ∧ s'.payTok = s.payTok ∧ s'.perTicket = s.perTicket ∧
      s'.nftCost = s.nftCost := by
    intro h1 h2 h3 h4
    have hp := price_frame hs h2
    refine ⟨?_, ?_, ?_, hcl, hp.1, hp.2, perTicket_frame hs h3, nftCost_frame hs h4⟩ <;>
    · rcases step_static_cases hs with ⟨hc', _⟩ | ⟨_, h1'⟩
      · rw [h1] at hc'; cases hc'
      · rw [h1']; cases c <;> rfl
  cases c with
  | claim => exact absurd rfl hc
  | addTickets l =>
    exact absurd (Props.C06.alloc_only_in_addTickets hash s e _ _ (Or.inl ⟨l, rfl⟩) hs) hst.1
  | addTicketsV1 l =>
    exact absurd (Props.C06.alloc_only_in_addTickets hash s e _ _ (Or.inr (Or.inl ⟨l, rfl⟩)) hs) hst.1
  | addTicketsV2 l =>
    exact absurd (Props.C06.alloc_only_in_addTickets hash s e _ _ (Or.inr (Or.inr ⟨l, rfl⟩)) hs) hst.1
  | setTicketPrice tok a =>
    exact absurd (Props.C06.terms_only_in_addTickets hash s e _ _ (Or.inl ⟨tok, a, rfl⟩) hs) hst.1
  | setPerTicket a =>
    exact absurd (Props.C06.terms_only_in_addTickets hash s e _ _ (Or.inr (Or.inl ⟨a, rfl⟩)) hs) hst.1
  | setNftCost p =>
    exact absurd (Props.C06.terms_only_in_addTickets hash s e _ _
      (Or.inr (Or.inr (Or.inl ⟨p, rfl⟩))) hs) hst.1
  | setSchedule2 l =>
    exact absurd (Props.C06.terms_only_in_addTickets hash s e _ _
      (Or.inr (Or.inr (Or.inr ⟨l, rfl⟩))) hs) hst.1
  | confirm n =>
    exact absurd (Props.C06.confirm_only_in_confirm hash s e _ _ (Or.inl ⟨n, rfl⟩) hs) hst.2
  | confirmNft =>
    exact absurd (Props.C06.confirm_only_in_confirm hash s e _ _ (Or.inr rfl) hs) hst.2
  | blacklist l =>
    rcases Props.C06.blacklist_only_before_selection hash s e _ _ (Or.inl ⟨l, rfl⟩) hs with h1 | h1
    · exact absurd h1 hst.1
    · exact absurd h1 hst.2
  | refundUsers l =>
    rcases Props.C06.blacklist_only_before_selection hash s e _ _ (Or.inr (Or.inl ⟨l, rfl⟩)) hs
      with h1 | h1
    · exact absurd h1 hst.1
    · exact absurd h1 hst.2
  | unblacklist l =>
    rcases Props.C06.blacklist_only_before_selection hash s e _ _ (Or.inr (Or.inr ⟨l, rfl⟩)) hs
      with h1 | h1
    · exact absurd h1 hst.1
    · exact absurd h1 hst.2
  | filter =>
    have := (Props.C06.filter_gate hash s e _ hs).2
    rw [hf] at this; cases this
  | select =>
    have := (Props.C06.select_gate hash s e _ hs).2.2
    rw [hd.1] at this; cases this
  | distribute =>
    have := (Props.C06.additional_gate hash s e _ _ (Or.inl rfl) hs).2.2
    rw [hd.2] at this; cases this
  | selectNft =>
    have := (Props.C06.additional_gate hash s e _ _ (Or.inr (Or.inl rfl)) hs).2.2
    rw [hd.2] at this; cases this
  | secondary =>
    have := (Props.C06.additional_gate hash s e _ _ (Or.inr (Or.inr rfl)) hs).2.2
    rw [hd.2] at this; cases this
  | issueSft | createSfts | setTransferRole _ =>
    simp only [exec, bind_ok_iff, reduceCtorEq, and_false, exists_false] at hx
  | deposit => exact static rfl nofun nofun nofun
  | setSchedule1 a b c d f => exact static rfl nofun nofun nofun
  | setConfStart r => exact static rfl nofun nofun nofun
  | setSelStart r => exact static rfl nofun nofun nofun
  | setClaimStart r => exact static rfl nofun nofun nofun
  | setSupport a =>
    simp only [exec, pure_ok_iff] at hx
    rw [hs', ← hx]
    exact ⟨rfl, rfl, rfl, rfl, rfl, rfl, rfl, rfl⟩
  | pause =>
    simp only [exec, pure_ok_iff] at hx
    rw [hs', ← hx]
    exact ⟨rfl, rfl, rfl, rfl, rfl, rfl, rfl, rfl⟩
  | unpause =>
    simp only [exec, pure_ok_iff] at hx
    rw [hs', ← hx]
    exact ⟨rfl, rfl, rfl, rfl, rfl, rfl, rfl, rfl⟩
  | sftSetup =>
    simp only [exec, pure_ok_iff] at hx
    rw [hs', ← hx]
    exact ⟨rfl, rfl, rfl, rfl, rfl, rfl, rfl, rfl⟩
  | claimPayment =>
    have hp := price_frame hs nofun
    have htk : t.s.tk = (tx0 s e).s.tk := exec_tk_eq (c := .claimPayment) (by simp) (by simp) (by simp) (by simp) (by simp) hx
    have hcb := step_cb hs
    refine ⟨?_, ?_, ?_, hcl, hp.1, hp.2, perTicket_frame hs nofun, nftCost_frame hs nofun⟩
    · rw [hs', cr_exec_claimPayment_x hx]; rfl
    · rw [hs', tk_range htk]; rfl
    · exact congrArg CB.confirmed hcb

/-- the participant-side data of `a` -/
structure cr_Kept (a : Nat) (s s' : State) : Prop where
  range : s'.range a = s.range a
  status : ∀ r, s.range a = some r → ∀ id, r.first ≤ id → id ≤ r.last → s'.status id = s.status id
  confirmed : s'.confirmed a = s.confirmed a
  claimed : s'.claimed a = s.claimed a
  uc : s.variant.vested = true → s'.userClaimed a = s.userClaimed a
  price : s'.price = s.price
  payTok : s'.payTok = s.payTok
  perTicket : s'.perTicket = s.perTicket
  nftCost : s'.nftCost = s.nftCost
  winners : a ∈ s'.nftWinners ↔ a ∈ s.nftWinners
  payers : a ∈ s'.payers ↔ a ∈ s.payers

/-- **after all selection steps**: an accepted call that is not a `claim` by `a` himself changes
    nothing of `a`'s data (his record, his winning flags, his confirmations, …); the records of
    different participants are disjoint (`hdisj`, a fact of every reachable state after the filter) -/
theorem cr_post_frame {hash : List Nat → List Nat} {s s' : State} {e : Env} {c : Call} {o : Out}
    {a : Nat} (hd : AllDone s) (hf : s.flags.filtered = true) (hv : validPeriods s.cfg = true)
    (hsel : s.cfg.sel ≤ e.round) (hne : s.payTok ≠ .esdt s.lpTok)
    (hdisj : ∀ b ra rb, a ≠ b → s.range a = some ra → s.range b = some rb →
      ra.last < rb.first ∨ rb.last < ra.first)
    (hs : step hash s e c = .ok (s', o)) (hnot : c = .claim → e.caller ≠ a) : cr_Kept a s s' := by
  by_cases hc : c = .claim
  · subst hc
    have hca : a ≠ e.caller := fun h => hnot rfl h.symm
    have hp := price_frame hs nofun
    obtain ⟨_, _, hrb⟩ := step_claim_rb hs
    have hcb := step_cb hs
    have hcl := (step_claimed_exact hash s e .claim s' o hs).2 rfl
    obtain ⟨m, t, _, _, _, hx, hs', _⟩ := step_ok_inv hs
    obtain ⟨hst, hlists⟩ := cr_exec_claim_x hx
    refine ⟨?_, ?_, ?_, ?_, ?_, hp.1, hp.2, perTicket_frame hs nofun, nftCost_frame hs nofun, ?_, ?_⟩
    · rcases hrb with ⟨h1, _, _⟩ | ⟨r, _, h1, _⟩
      · rw [h1]
      · rw [h1, upd_other _ _ _ _ hca]
    · intro ra hra id h1 h2
      rcases hst with h | ⟨rb, hrb', h⟩
      · rw [hs', h]; rfl
      · rw [hs', h, clearRange_status]
        have hrb'' : s.range e.caller = some rb := hrb'
        have := hdisj e.caller ra rb hca hra hrb''
        have hno : ¬ (rb.first ≤ id ∧ id < rb.first + rangeLen rb) := by
          unfold rangeLen; omega
        rw [if_neg hno]; rfl
    · have : s'.confirmed = (cbAfter s e .claim).confirmed := congrArg CB.confirmed hcb
      rw [this]
      show (if (s.variant.vested && s.claimed e.caller) = true then s.confirmed
        else upd s.confirmed e.caller 0) a = _
      split
      · rfl
      · rw [upd_other _ _ _ _ hca]
    · rw [hcl, upd_other _ _ _ _ hca]
    · intro hvs
      rw [step_claim_ok_iff] at hs
      obtain ⟨_, _, t2, hx2, rfl, rfl⟩ := hs
      rw [exec_claim_vested hash _ e hvs] at hx2
      exact (cr_claimVested_lp hx2 hne a).2.2 a hca
    · rw [hs']; exact (hlists a hca).1
    · rw [hs']; exact (hlists a hca).2
  · obtain ⟨k1, k2, k3, k4, k5, k6, k7, k8⟩ := cr_post_x hd hf hv hsel hs hc
    have hst : s'.status = s.status := congrArg cr_X.status k1
    have huc : s'.userClaimed = s.userClaimed := congrArg cr_X.userClaimed k1
    have hw : s'.nftWinners = s.nftWinners := congrArg cr_X.nftWinners k1
    have hpy : s'.payers = s.payers := congrArg cr_X.payers k1
    exact ⟨by rw [k2], fun _ _ _ _ _ => by rw [hst], by rw [k3], by rw [k4], fun _ => by rw [huc],
      k5, k6, k7, k8, by rw [hw], by rw [hpy]⟩

/-! ## 7. from a state in which all steps are done -/

/-- what `a`'s settlement pays him in the payment token, read in state `s`: the refund of his
    losing confirmed tickets, plus the NFT fee if it is charged in the payment token and he paid it
    without being drawn -/
def cr_due (s : State) (a : Nat) : Nat :=
  s.price * (s.confirmed a - winCountOf s a) +
    (if s.variant.hasNft = true ∧ nftCategory s a = 2 then cr_fee s s.payTok else 0)

theorem cr_owedPay_claim (s : State) (e : Env) (a : Nat) (h1 : e.caller = a)
    (h2 : s.claimed a = false) : cr_owedPay s e .claim a = cr_due s a := by
  simp [cr_owedPay, cr_due, h1, h2]

theorem cr_winCountOf_kept {a : Nat} {s s' : State} (h : cr_Kept a s s') :
    winCountOf s' a = winCountOf s a := by
  unfold winCountOf
  rw [h.range]
  cases hr : s.range a with
  | none => rfl
  | some r =>
    simp only
    apply cr_countWinning_congr
    intro k hk
    apply h.status r hr
    · omega
    · unfold rangeLen at hk; omega

theorem cr_due_kept {a : Nat} {s s' : State} (h : cr_Kept a s s') (hvar : s'.variant = s.variant) :
    cr_due s' a = cr_due s a := by
  unfold cr_due
  have hcat : nftCategory s' a = nftCategory s a := by
    unfold nftCategory
    simp only [h.winners, h.payers]
  have hfee : cr_fee s' s'.payTok = cr_fee s s.payTok := by
    unfold cr_fee; rw [h.nftCost, h.payTok]
  rw [h.price, h.confirmed, cr_winCountOf_kept h, hvar, hcat, hfee]

/-- the facts about a reachable state in which all steps are done that the frame needs -/
theorem cr_covered_done {hash : List Nat → List Nat} {s : State} {r : Nat}
    (h : be_Covered hash s r) (hd : AllDone s) :
    s.flags.filtered = true ∧ validPeriods s.cfg = true ∧ s.cfg.sel ≤ r ∧
    (∀ a b ra rb, a ≠ b → s.range a = some ra → s.range b = some rb →
      ra.last < rb.first ∨ rb.last < ra.first) := by
  have hg := (be_family_all hash).good h
  have hf : s.flags.filtered = true := hg.tix.selFil hd.1
  have hgood := ar_good_covered h
  exact ⟨hf, hg.valid, (hgood.tl (hgood.filStarted hf)).2, (ar_tix_covered h).disjF hf⟩

/-- after `a` has settled, from a reachable state in which all steps are done: nothing more reaches
    him in the payment token, and (non-vested variants) nothing in launchpad tokens -/
theorem cr_after_settle (hash : List Nat → List Nat) (a : Nat) :
    ∀ (hist : List (Env × Call)) (s : State) (r : Nat), be_Covered hash s r → AllDone s →
      cr_Static s → LP.Props.C17.RoundsFrom r hist → (∀ x ∈ hist, be_HistOK x.1 x.2) →
      a ≠ s.owner → (s.variant.hasLock = true → a ≠ s.lockAddr) → s.claimed a = true →
      cr_total s.payTok a (lk_runLog hash s hist) = 0 ∧
      (s.variant.vested = false → totalReceived s.lpTok a (lk_runLog hash s hist) = 0) ∧
      (∀ x ∈ lk_runLog hash s hist, cr_isSettleBy a x = false)
  | [], _, _, _, _, _, _, _, _, _, _ => ⟨rfl, fun _ => rfl, fun _ hx => by cases hx⟩
  | (e, c) :: rest, s, r, hcov, hd, hS, ⟨hr1, hr2⟩, hok, ha, ha2, hcl => by
    have hok' : ∀ x ∈ rest, be_HistOK x.1 x.2 := fun x hx => hok x (List.mem_cons_of_mem _ hx)
    cases hx : step hash s e c with
    | error err =>
      rw [lk_runLog_cons_err hx]
      exact cr_after_settle hash a rest s e.round ((be_family_all hash).wait hcov hr1) hd hS hr2 hok'
        ha ha2 hcl
    | ok q =>
      obtain ⟨s', o⟩ := q
      rw [lk_runLog_cons_ok hx]
      obtain ⟨hf, hv, hsel, hdisj⟩ := cr_covered_done hcov hd
      have hsel' : s.cfg.sel ≤ e.round := Nat.le_trans hsel hr1
      have hcov' := (be_family_all hash).call hcov hr1 (hok (e, c) (List.mem_cons_self ..)) hx
      have hg := step_flags_gain4 hx
      have hd' : AllDone s' := ⟨hg.2.2.1 hd.1, hg.2.2.2 hd.2⟩
      have hvar := pl_step_variant hx
      have hlp := pl_step_lpTok hx
      have hown := lk_step_owner hx
      have hcl' : s'.claimed a = true := step_claimed_mono hash s e c s' o hx a hcl
      have hpay : s'.payTok = s.payTok := by
        by_cases hc : ∃ tok p, c = .setTicketPrice tok p
        · obtain ⟨tok, p, rfl⟩ := hc
          exact absurd (Props.C06.terms_only_in_addTickets hash s e _ _ (Or.inl ⟨tok, p, rfl⟩) hx)
            (be_stage_late hv hsel').1
        · exact (price_frame hx (fun tok p hh => hc ⟨tok, p, hh⟩)).2
      have ih := cr_after_settle hash a rest s' e.round hcov' hd' (cr_step_static hS hx) hr2 hok'
        (by rw [hown]; exact ha) (by rw [hvar, (pl_step_lockAddr hx).1]; exact ha2) hcl'
      rw [hpay, hlp, hvar] at ih
      have hbl : cr_isBlacklistOf a (s, e, c, o) = false := by
        cases c <;> try rfl
        case blacklist l =>
          rcases Props.C06.blacklist_only_before_selection hash s e _ _ (Or.inl ⟨l, rfl⟩) hx with h1 | h1
          · exact absurd h1 (be_stage_late hv hsel').1
          · exact absurd h1 (be_stage_late hv hsel').2
        case refundUsers l =>
          rcases Props.C06.blacklist_only_before_selection hash s e _ _ (Or.inr (Or.inl ⟨l, rfl⟩)) hx
            with h1 | h1
          · exact absurd h1 (be_stage_late hv hsel').1
          · exact absurd h1 (be_stage_late hv hsel').2
      have hset : cr_isSettleBy a (s, e, c, o) = false := by simp [cr_isSettleBy, hcl]
      refine ⟨?_, fun hvs => ?_, ?_⟩
      · show cr_paid s.payTok a o.xfers + cr_total s.payTok a (lk_runLog hash s' rest) = 0
        rw [cr_step_pay hS.tokNe ha hx, cr_owedPay_of_not s e c o a hset hbl, ih.1]
      · show received s.lpTok a o + totalReceived s.lpTok a (lk_runLog hash s' rest) = 0
        rw [cr_step_lp hS ha ha2 hx, ih.2.1 hvs]
        have : cr_owedLp s s' e c a = 0 := by
          cases c <;> try rfl
          case claim =>
            by_cases hca : e.caller = a
            · exfalso
              obtain ⟨err, herr⟩ := (second_claim_rejected hash s e hvs (by rw [hca]; exact hcl)).1
              rw [herr] at hx; cases hx
            · simp [cr_owedLp, hca]
        rw [this]
      · intro x hxm
        rcases List.mem_cons.mp hxm with rfl | hxm
        · exact hset
        · exact ih.2.2 x hxm

/-- **from a reachable state in which all steps are done, an unsettled participant**: along any
    admissible history, `a` receives in the payment token nothing until his claim and then exactly
    `cr_due s a` — price × (confirmed − winning) (+ NFT fee) AS EVALUATED IN THE STARTING STATE —,
    and (non-vested variants) in launchpad tokens exactly `perTicket × winning` as evaluated in the
    starting state; at most one settlement -/
theorem cr_from_done (hash : List Nat → List Nat) (a : Nat) :
    ∀ (hist : List (Env × Call)) (s : State) (r : Nat), be_Covered hash s r → AllDone s →
      cr_Static s → LP.Props.C17.RoundsFrom r hist → (∀ x ∈ hist, be_HistOK x.1 x.2) →
      a ≠ s.owner → (s.variant.hasLock = true → a ≠ s.lockAddr) → s.claimed a = false →
      cr_total s.payTok a (lk_runLog hash s hist) =
        (match (lk_runLog hash s hist).find? (isClaimBy a) with
         | some _ => cr_due s a
         | none => 0) ∧
      (s.variant.vested = false → totalReceived s.lpTok a (lk_runLog hash s hist) =
        (match (lk_runLog hash s hist).find? (isClaimBy a) with
         | some _ => s.perTicket * winCountOf s a
         | none => 0))
  | [], _, _, _, _, _, _, _, _, _, _ => ⟨rfl, fun _ => rfl⟩
  | (e, c) :: rest, s, r, hcov, hd, hS, ⟨hr1, hr2⟩, hok, ha, ha2, hcl => by
    have hok' : ∀ x ∈ rest, be_HistOK x.1 x.2 := fun x hx => hok x (List.mem_cons_of_mem _ hx)
    cases hx : step hash s e c with
    | error err =>
      rw [lk_runLog_cons_err hx]
      exact cr_from_done hash a rest s e.round ((be_family_all hash).wait hcov hr1) hd hS hr2 hok'
        ha ha2 hcl
    | ok q =>
      obtain ⟨s', o⟩ := q
      rw [lk_runLog_cons_ok hx]
      obtain ⟨hf, hv, hsel, hdisj⟩ := cr_covered_done hcov hd
      have hsel' : s.cfg.sel ≤ e.round := Nat.le_trans hsel hr1
      have hcov' := (be_family_all hash).call hcov hr1 (hok (e, c) (List.mem_cons_self ..)) hx
      have hg := step_flags_gain4 hx
      have hd' : AllDone s' := ⟨hg.2.2.1 hd.1, hg.2.2.2 hd.2⟩
      have hvar := pl_step_variant hx
      have hlp := pl_step_lpTok hx
      have hown := lk_step_owner hx
      have ha' : a ≠ s'.owner := by rw [hown]; exact ha
      have ha2' : s'.variant.hasLock = true → a ≠ s'.lockAddr := by
        rw [hvar, (pl_step_lockAddr hx).1]; exact ha2
      have hbl : cr_isBlacklistOf a (s, e, c, o) = false := by
        cases c <;> try rfl
        case blacklist l =>
          rcases Props.C06.blacklist_only_before_selection hash s e _ _ (Or.inl ⟨l, rfl⟩) hx with h1 | h1
          · exact absurd h1 (be_stage_late hv hsel').1
          · exact absurd h1 (be_stage_late hv hsel').2
        case refundUsers l =>
          rcases Props.C06.blacklist_only_before_selection hash s e _ _ (Or.inr (Or.inl ⟨l, rfl⟩)) hx
            with h1 | h1
          · exact absurd h1 (be_stage_late hv hsel').1
          · exact absurd h1 (be_stage_late hv hsel').2
      cases hb : isClaimBy a (s, e, c, o)
      · have hnot : c = .claim → e.caller ≠ a := by
          intro hc hca
          subst hc
          simp [isClaimBy, hca] at hb
        have hk := cr_post_frame (a := a) hd hf hv hsel' hS.tokNe
          (fun b ra rb => hdisj a b ra rb) hx hnot
        have ih := cr_from_done hash a rest s' e.round hcov' hd' (cr_step_static hS hx) hr2 hok'
          ha' ha2' (by rw [hk.claimed]; exact hcl)
        rw [hk.payTok, hlp, hvar, cr_due_kept hk hvar, hk.perTicket, cr_winCountOf_kept hk] at ih
        have hset : cr_isSettleBy a (s, e, c, o) = false := by simp [cr_isSettleBy, hb]
        rw [List.find?_cons_of_neg (by simp [hb])]
        refine ⟨?_, fun hvs => ?_⟩
        · show cr_paid s.payTok a o.xfers + cr_total s.payTok a (lk_runLog hash s' rest) = _
          rw [cr_step_pay hS.tokNe ha hx, cr_owedPay_of_not s e c o a hset hbl, ih.1, Nat.zero_add]
        · show received s.lpTok a o + totalReceived s.lpTok a (lk_runLog hash s' rest) = _
          rw [cr_step_lp hS ha ha2 hx, ih.2 hvs]
          have : cr_owedLp s s' e c a = 0 := by
            cases c <;> try rfl
            case claim =>
              have hca : ¬ e.caller = a := hnot rfl
              simp [cr_owedLp, hca]
          rw [this, Nat.zero_add]
      · have hcc : c = .claim ∧ e.caller = a := by
          cases c <;> simp only [isClaimBy, Bool.false_eq_true] at hb
          exact ⟨rfl, by simpa using hb⟩
        obtain ⟨rfl, hca⟩ := hcc
        have hcl' : s'.claimed a = true := by rw [← hca]; exact claim_sets_claimed hash s e s' o hx
        have hpay : s'.payTok = s.payTok := (price_frame hx nofun).2
        have hafter := cr_after_settle hash a rest s' e.round hcov' hd' (cr_step_static hS hx) hr2
          hok' ha' ha2' hcl'
        rw [hpay, hlp, hvar] at hafter
        rw [List.find?_cons_of_pos (by simp [hb])]
        refine ⟨?_, fun hvs => ?_⟩
        · show cr_paid s.payTok a o.xfers + cr_total s.payTok a (lk_runLog hash s' rest) = cr_due s a
          rw [cr_step_pay hS.tokNe ha hx, cr_owedPay_claim s e a hca hcl, hafter.1, Nat.add_zero]
        · show received s.lpTok a o + totalReceived s.lpTok a (lk_runLog hash s' rest)
            = s.perTicket * winCountOf s a
          rw [cr_step_lp hS ha ha2 hx, hafter.2.1 hvs, Nat.add_zero]
          simp [cr_owedLp, hca, hvs]

/-! ## 8. the static facts hold in every reachable state -/

theorem cr_init_static {v : Variant} {a : InitArgs} {e : Env} {s : State} (h : init v a e = .ok s) :
    cr_Static s := by
  unfold init at h
  cases v <;>
    simp only [Variant.hasNft, Variant.v1Alloc, Variant.hasLock, bind_ok_iff, req_ok_iff, pure_ok_iff, pure_bind,
      exists_const, if_true, if_false, Bool.false_eq_true, beq_self_eq_true, reduceCtorEq, decide_eq_true_eq,
      bne_iff_ne, ne_eq, not_false_eq_true, beq_iff_eq, bne_self_eq_false, Bool.and_eq_true] at h
  case nft =>
    obtain ⟨_, hne, _, _, _, _, _, _, hc, rfl⟩ := h
    exact ⟨hne, validCost_ne_lp hc, Nat.zero_le _⟩
  case nftGuar =>
    obtain ⟨_, _, hne, _, _, _, _, _, _, hc, rfl⟩ := h
    exact ⟨hne, validCost_ne_lp hc, Nat.zero_le _⟩
  case locked =>
    obtain ⟨hne, _, _, _, _, _, ⟨_, h8⟩, _, _, rfl⟩ := h
    exact ⟨hne, nofun, h8⟩
  case lockedGuar =>
    obtain ⟨hne, _, _, _, _, _, _, ⟨_, h8⟩, _, _, rfl⟩ := h
    exact ⟨hne, nofun, h8⟩
  all_goals
    obtain ⟨hne, h⟩ := h
    repeat (cases h with | intro _ h)
    subst h
    exact ⟨hne, nofun, Nat.zero_le _⟩

theorem cr_static_covered {hash : List Nat → List Nat} {s : State} {r : Nat}
    (h : be_Covered hash s r) : cr_Static s := by
  cases h with
  | plain _ h =>
    induction h with
    | init a e s hh => exact cr_init_static hh
    | call s r e c s' o _ _ _ _ h4 ih => exact cr_step_static ih h4
    | wait s r r' _ _ ih => exact ih
  | guarV2 h =>
    induction h with
    | init a e s hh => exact cr_init_static hh
    | call s r e c s' o _ _ _ _ h4 ih => exact cr_step_static ih h4
    | wait s r r' _ _ ih => exact ih
  | nft h =>
    induction h with
    | init a e s hh => exact cr_init_static hh
    | call s r e c s' o _ _ _ _ h4 ih => exact cr_step_static ih h4
    | wait s r r' _ _ ih => exact ih
  | v1 _ h =>
    induction h with
    | init a e s hh => exact cr_init_static hh
    | call s r e c s' o _ _ _ _ h4 ih => exact cr_step_static ih h4
    | wait s r r' _ _ ih => exact ih
  | guarV1 h =>
    induction h with
    | init a e s hh => exact cr_init_static hh
    | call s r e c s' o _ _ _ _ h4 ih => exact cr_step_static ih h4
    | wait s r r' _ _ ih => exact ih
  | nftGuar h =>
    induction h with
    | init a e s hh => exact cr_init_static hh
    | call s r e c s' o _ _ _ _ h4 ih => exact cr_step_static ih h4
    | wait s r r' _ _ ih => exact ih

/-! ## 9. vested variants: cumulative launchpad tokens = increase of `userClaimed` -/

/-- **vested variants, from a reachable state in which all steps are done**: along any admissible
    history the launchpad tokens `a` receives add up to the increase of his `userClaimed` record -/
theorem cr_vested_from_done (hash : List Nat → List Nat) (a : Nat) :
    ∀ (hist : List (Env × Call)) (s : State) (r : Nat), be_Covered hash s r → AllDone s →
      cr_Static s → s.variant.vested = true → LP.Props.C17.RoundsFrom r hist →
      (∀ x ∈ hist, be_HistOK x.1 x.2) → a ≠ s.owner →
      totalReceived s.lpTok a (lk_runLog hash s hist) + s.userClaimed a
        = (run hash s hist).userClaimed a
  | [], _, _, _, _, _, _, _, _, _ => by simp [lk_runLog, totalReceived, run]
  | (e, c) :: rest, s, r, hcov, hd, hS, hvs, ⟨hr1, hr2⟩, hok, ha => by
    have hok' : ∀ x ∈ rest, be_HistOK x.1 x.2 := fun x hx => hok x (List.mem_cons_of_mem _ hx)
    cases hx : step hash s e c with
    | error err =>
      rw [lk_runLog_cons_err hx, lk_run_cons_err hx]
      exact cr_vested_from_done hash a rest s e.round ((be_family_all hash).wait hcov hr1) hd hS hvs
        hr2 hok' ha
    | ok q =>
      obtain ⟨s', o⟩ := q
      rw [lk_runLog_cons_ok hx, lk_run_cons_ok hx]
      obtain ⟨hf, hv, hsel, hdisj⟩ := cr_covered_done hcov hd
      have hsel' : s.cfg.sel ≤ e.round := Nat.le_trans hsel hr1
      have hcov' := (be_family_all hash).call hcov hr1 (hok (e, c) (List.mem_cons_self ..)) hx
      have hg := step_flags_gain4 hx
      have hd' : AllDone s' := ⟨hg.2.2.1 hd.1, hg.2.2.2 hd.2⟩
      have hvar := pl_step_variant hx
      have hlp := pl_step_lpTok hx
      have hl : s.variant.hasLock = false := (rc_vested_flags hvs).2
      have ih := cr_vested_from_done hash a rest s' e.round hcov' hd' (cr_step_static hS hx)
        (by rw [hvar]; exact hvs) hr2 hok' (by rw [lk_step_owner hx]; exact ha)
      rw [hlp] at ih
      show received s.lpTok a o + totalReceived s.lpTok a (lk_runLog hash s' rest) + s.userClaimed a = _
      rw [cr_step_lp hS ha (fun h => by rw [hl] at h; cases h) hx, ← ih]
      by_cases hcc : c = .claim ∧ e.caller = a
      · obtain ⟨rfl, hca⟩ := hcc
        have hmono : s.userClaimed a ≤ s'.userClaimed a := by
          have hx' := hx
          rw [step_claim_ok_iff] at hx'
          obtain ⟨_, _, t2, hx2, hs2, _⟩ := hx'
          rw [exec_claim_vested hash _ e hvs] at hx2
          have := (cr_claimVested_lp hx2 hS.tokNe a).2.1
          rw [hca] at this
          rw [hs2]; exact this
        simp only [cr_owedLp, hca, hvs, if_true]
        omega
      · have hnot : c = .claim → e.caller ≠ a := fun h1 h2 => hcc ⟨h1, h2⟩
        have hk := cr_post_frame (a := a) hd hf hv hsel' hS.tokNe
          (fun b ra rb => hdisj a b ra rb) hx hnot
        have : cr_owedLp s s' e c a = 0 := by
          cases c <;> try rfl
          case claim =>
            have hca : ¬ e.caller = a := hnot rfl
            simp [cr_owedLp, hca]
        rw [this, hk.uc hvs]
        omega

end LP

#print axioms LP.cr_step_pay
#print axioms LP.cr_step_lp
#print axioms LP.cr_totalPay_eq
#print axioms LP.cr_settle_once
#print axioms LP.cr_totalLp_eq
#print axioms LP.cr_post_frame
#print axioms LP.cr_from_done
#print axioms LP.cr_after_settle
#print axioms LP.cr_vested_from_done
#print axioms LP.cr_static_covered
