import LP.Proofs.ReachBECore
/-
  LP.Proofs.ReachBEFam — the end-to-end blacklist theorems, proved ONCE for an abstract family of
  reachable states (`be_Family hash P R`: `R` is closed under accepted calls satisfying `P` and
  under waiting, and implies `be_Good`).  The per-variant files instantiate `R` with
  `Reach hash v` (base, locked, guarV2, nft), `v1_Reach hash v` (migration, lockedGuar) and
  `g1_Reach hash` (guarV1).
-/
namespace LP
open LP.Props LP.Events LP.FY LP.Props.C17

/-- the two variant-independent facts, packaged for the inductions over the `…Reach` predicates -/
def be_BV (s : State) : Prop := BlZero s ∧ validPeriods s.cfg = true

theorem be_BV_init {v : Variant} {a : InitArgs} {e : Env} {s : State} (h : init v a e = .ok s) :
    be_BV s := ⟨C10frame.init_blZero v a e s h, be_validPeriods_init h⟩

theorem be_BV_step {hash : List Nat → List Nat} {s s' : State} {e : Env} {c : Call} {o : Out}
    (hb : be_BV s) (h : step hash s e c = .ok (s', o)) : be_BV s' :=
  ⟨C10frame.blacklisted_confirmed_zero_all hash s e c s' o hb.1 h, be_validPeriods_step h hb.2⟩

/-- a family of reachable states -/
structure be_Family (hash : List Nat → List Nat) (P : Env → Call → Prop) (R : State → Nat → Prop) :
    Prop where
  call : ∀ {s : State} {r : Nat} {e : Env} {c : Call} {s' : State} {o : Out},
    R s r → r ≤ e.round → P e c → step hash s e c = .ok (s', o) → R s' e.round
  wait : ∀ {s : State} {r r' : Nat}, R s r → r ≤ r' → R s r'
  good : ∀ {s : State} {r : Nat}, R s r → be_Good s

/-! ### `be_Later`: transitivity, histories -/

theorem be_Later.trans {P : Env → Call → Prop} {hash : List Nat → List Nat} {s s1 s2 : State}
    {r r1 r2 : Nat} (h1 : be_Later P hash s r s1 r1) (h2 : be_Later P hash s1 r1 s2 r2) :
    be_Later P hash s r s2 r2 := by
  induction h2 with
  | refl => exact h1
  | call sa ra e c sb o _ ha hb hc ih => exact .call sa ra e c sb o ih ha hb hc
  | wait sa ra rb _ ha ih => exact .wait sa ra rb ih ha

/-- a history with non-decreasing rounds whose transactions satisfy `P` leads to a later state
    (rejected transactions leave the state unchanged) -/
theorem be_later_run {P : Env → Call → Prop} (hash : List Nat → List Nat) :
    ∀ (p : Hist) (s : State) (r : Nat), RoundsFrom r p → (∀ x ∈ p, P x.1 x.2) →
      ∃ r', be_Later P hash s r (run hash s p) r' ∧ ∀ q : Hist, RoundsFrom r (p ++ q) → RoundsFrom r' q
  | [], s, r, _, _ => ⟨r, .refl, fun _ hq => hq⟩
  | (e, c) :: rest, s, r, ⟨h1, h2⟩, hall => by
    have hrest : ∀ x ∈ rest, P x.1 x.2 := fun x hx => hall x (List.mem_cons_of_mem _ hx)
    unfold run
    cases hst : step hash s e c with
    | error err =>
      obtain ⟨r', hl, hq⟩ := be_later_run hash rest s e.round h2 hrest
      exact ⟨r', (be_Later.wait s r e.round .refl h1).trans hl, fun q hr => hq q hr.2⟩
    | ok x =>
      obtain ⟨s', o⟩ := x
      obtain ⟨r', hl, hq⟩ := be_later_run hash rest s' e.round h2 hrest
      exact ⟨r', (be_Later.call s r e c s' o .refl h1 (hall (e, c) (List.mem_cons_self ..)) hst).trans hl,
        fun q hr => hq q hr.2⟩

namespace be_Family
variable {hash : List Nat → List Nat} {P : Env → Call → Prop} {R : State → Nat → Prop}

theorem later (F : be_Family hash P R) {s s' : State} {r r' : Nat} (hs : R s r)
    (h : be_Later P hash s r s' r') : R s' r' := by
  induction h with
  | refl => exact hs
  | call s1 r1 e c s2 o _ h1 h2 h3 ih => exact F.call ih h1 h2 h3
  | wait s1 r1 r2 _ h1 ih => exact F.wait ih h1

/-- **1.** a blacklisted participant has nothing confirmed; once the filter has completed they have
    no allocation record (no ticket id is theirs), no winning ticket, and the winner view is empty -/
theorem holds_no_ticket (F : be_Family hash P R) {s : State} {r : Nat} (hs : R s r) {a : Nat}
    (hb : s.blacklist a = true) :
    s.confirmed a = 0 ∧ winCountOf s a = 0 ∧ viewWinningIds s a = [] ∧
    (s.flags.filtered = true → s.range a = none) :=
  ⟨(F.good hs).conf_zero hb, (F.good hs).winCount_zero hb, (F.good hs).view_nil hb,
    fun hf => (F.good hs).no_range hf hb⟩

/-- **1, interrupted filter.** -/
theorem mid_filter (F : be_Family hash P R) {s : State} {r : Nat} (hs : R s r) {f rm : Nat}
    (hop : s.op = .filter f rm) :
    s.flags.filtered = false ∧ s.flags.selected = false ∧
    (∀ a rg, s.blacklist a = true → s.range a = some rg → f ≤ rg.first) ∧
    (∀ e, ∃ err, step hash s e .claim = .error err) := by
  obtain ⟨h1, h2, h3⟩ := (F.good hs).mid_filter hop
  exact ⟨h1, h2, h3, fun e => (F.good hs).no_claim_before_filter hash e h1⟩

/-- **3.** from a state where `a` is blacklisted and selection has started, every `claim` by `a`
    in every later state is rejected -/
theorem claims_nothing (F : be_Family hash P R) {s s' : State} {r r' : Nat} (hs : R s r) {a : Nat}
    (hb : s.blacklist a = true) (hsel : s.cfg.sel ≤ r) (hl : be_Later P hash s r s' r')
    (e : Env) (he : e.caller = a) : ∃ err, step hash s' e .claim = .error err := by
  have hfr := be_frozen_later (F.good hs).valid hsel hl
  have hb' : s'.blacklist e.caller = true := by rw [hfr.bl, he]; exact hb
  exact (F.good (F.later hs hl)).claim_rejected hash e hb'

/-- **3, variants without an un-blacklist endpoint** (base, locked, nft, lockedGuar): the flag is
    permanent, so from the moment `a` is blacklisted — whatever the stage — every `claim` by `a`
    in every later state is rejected -/
theorem claims_nothing_ever (F : be_Family hash P R) {s s' : State} {r r' : Nat} (hs : R s r)
    (hv : s.variant.hasUnblacklist = false) {a : Nat} (hb : s.blacklist a = true)
    (hl : be_Later P hash s r s' r') (e : Env) (he : e.caller = a) :
    ∃ err, step hash s' e .claim = .error err := by
  have hb' : s'.blacklist e.caller = true := by rw [he]; exact (be_blacklist_permanent hv hl hb).2
  exact (F.good (F.later hs hl)).claim_rejected hash e hb'

/-- **3, `run` form.** along any history `p` (rounds non-decreasing from `r`, transactions
    satisfying `P`; rejected transactions allowed), a `claim` by `a` after `p` is rejected -/
theorem claims_nothing_run (F : be_Family hash P R) {s : State} {r : Nat} (hs : R s r) {a : Nat}
    (hb : s.blacklist a = true) (hsel : s.cfg.sel ≤ r) (p : Hist) (hr : RoundsFrom r p)
    (hp : ∀ x ∈ p, P x.1 x.2) (e : Env) (he : e.caller = a) :
    ∃ err, step hash (run hash s p) e .claim = .error err := by
  obtain ⟨r', hl, _⟩ := be_later_run (P := P) hash p s r hr hp
  exact F.claims_nothing hs hb hsel hl e he

/-- **4.** no ticket flagged winning lies in a range owned by a blacklisted participant -/
theorem never_wins (F : be_Family hash P R) {s : State} {r : Nat} (hs : R s r) {a : Nat}
    (hb : s.blacklist a = true) {rg : Range} (hr : s.range a = some rg) (id : Nat)
    (_h1 : rg.first ≤ id) (_h2 : id ≤ rg.last) : s.status id = false :=
  (F.good hs).never_wins hb hr id

/-- **5.** an accepted un-blacklisting in a reachable state: nobody's confirmations, allocation
    records or winning flags change; outside the list the blacklist flag and the guaranteed-ticket
    records are unchanged; the listed participants come back with nothing confirmed (their refund
    was complete) and the resulting state is again a state of the family -/
theorem unblacklist_others (F : be_Family hash P R) {s s' : State} {r : Nat} {e : Env} {l : List Nat}
    {o : Out} (hs : R s r) (hr : r ≤ e.round) (hp : P e (.unblacklist l))
    (h : step hash s e (.unblacklist l) = .ok (s', o)) :
    R s' e.round ∧ o.xfers = [] ∧
    (∀ a, s'.confirmed a = s.confirmed a ∧ s'.range a = s.range a ∧ s'.status a = s.status a) ∧
    (∀ a, a ∉ l → s'.blacklist a = s.blacklist a ∧ s'.uts a = s.uts a ∧ s'.blUts a = s.blUts a) ∧
    (∀ u ∈ l, s.blacklist u = true ∧ s'.blacklist u = false ∧ s'.confirmed u = 0) := by
  obtain ⟨_, _, _, _, hall, hbl, hsame, hout, _, hx⟩ := C10.unblacklist_effect hash s e l s' o h
  refine ⟨F.call hs hr hp h, hx, hsame, ?_, ?_⟩
  · intro a ha
    have := hbl a
    simp only [ha, if_false] at this
    exact ⟨this, hout a ha⟩
  · intro u hu
    have := hbl u
    simp only [hu, if_true] at this
    exact ⟨hall u hu, this, by rw [(hsame u).1]; exact (F.good hs).conf_zero (hall u hu)⟩

end be_Family

end LP
