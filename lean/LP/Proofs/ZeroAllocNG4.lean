import LP.Proofs.ZeroAllocNG3
/-
  LP.Proofs.ZeroAllocNG4 — zero-size allocations in `Variant.nftGuar`, part 4: the bodies of `claim`
  (by a holder of a non-empty range: same claim on the erased state; by a holder of an empty
  range: nothing but the "not confirmed" SFT is handed out, the erased state does not move),
  `filter` and `secondary` on the erased state.
-/
namespace LP
open LP.FY LP.Props.C09

/-! ### claim -/

section
variable {R : Nat → Option Range} {B : Nat → Option Batch} {K C : Nat → Bool} {U : Nat → Option UTS}

theorem zc_claimNft_ok {t t' : Tx} {e : Env} (h : claimNft t e = .ok t') :
    claimNft (zc_wt t R B K C U) e = .ok (zc_wt t' R B K C U) := by
  rw [claimNft_ok_iff] at h ⊢
  obtain ⟨h1, h2, rfl⟩ := h
  refine ⟨h1, h2, ?_⟩
  unfold claimNftResult
  have hk : nftCategory (zc_wt t R B K C U).s e.caller = nftCategory t.s e.caller := rfl
  simp only [hk]
  split <;> rfl

theorem zc_sendLp_ok {t t' : Tx} {e : Env} {a n : Nat} (hl : t.s.variant.hasLock = false)
    (h : t.sendLaunchpadTokens e a n = .ok t') :
    (zc_wt t R B K C U).sendLaunchpadTokens e a n = .ok (zc_wt t' R B K C U) := by
  have hl' : (zc_wt t R B K C U).s.variant.hasLock = false := hl
  rw [sendLaunchpadTokens_nolock_ok_iff _ e _ _ _ hl] at h
  rw [sendLaunchpadTokens_nolock_ok_iff _ e _ _ _ hl']
  obtain ⟨h1, rfl⟩ := h
  refine ⟨h1, ?_⟩
  unfold sendTokensResult
  split <;> rfl

theorem zc_claimMid (t : Tx) (e : Env) (r : Range) :
    claimMid (zc_wt t R B K C U) e r
      = zc_wt (claimMid t e r) (upd R e.caller none) (upd B r.first none) K (upd C e.caller true) U := by
  unfold claimMid refundResult
  show (if t.s.confirmed e.caller - countWinning t.s.status r.first (rangeLen r) = 0 then _ else _) = _
  split <;> rfl

end

/-- **a claim by an address whose range is not empty** is matched by the same claim on the
    erased state -/
theorem zc_claimBase {t t' : Tx} {e : Env} {r : Range} {R : Nat → Option Range}
    {B : Nat → Option Batch} {K C : Nat → Bool} {U : Nat → Option UTS}
    (hl : t.s.variant.hasLock = false)
    (h : claimBase t e = .ok t') (hr : t.s.range e.caller = some r)
    (hR : R e.caller = some r) (hC : C e.caller = t.s.claimed e.caller) :
    claimBase (zc_wt t R B K C U) e
      = .ok (zc_wt t' (upd R e.caller none) (upd B r.first none) K (upd C e.caller true) U) := by
  rw [claimBase_ok_iff] at h ⊢
  obtain ⟨r', ⟨hst, hcl, hr', hnw, hle, hb⟩, t2, h3, h4⟩ := h
  have hrr : r' = r := by rw [hr] at hr'; exact (Option.some.inj hr').symm
  subst hrr
  have hl2 : (claimMid t e r').s.variant.hasLock = false := by rw [claimMid_state]; exact hl
  refine ⟨r', ⟨hst, ?_, hR, hnw, hle, hb⟩,
    zc_wt t2 (upd R e.caller none) (upd B r'.first none) K (upd C e.caller true) U, ?_, ?_⟩
  · show C e.caller = false
    rw [hC]; exact hcl
  · rw [zc_claimMid]
    exact zc_sendLp_ok hl2 h3
  · show (if t2.s.variant.hasNft = true then claimNft (zc_wt t2 _ _ _ _ _) e else pure (zc_wt t2 _ _ _ _ _)) = _
    by_cases hn : t2.s.variant.hasNft = true
    · rw [if_pos hn] at h4 ⊢
      exact zc_claimNft_ok h4
    · rw [if_neg hn] at h4 ⊢
      simp only [pure_ok_iff] at h4
      subst h4; rfl

/-- **a claim by an address whose range is empty** (`nftGuar`; the address has confirmed nothing
    and is in neither NFT list) changes nothing but the caller's `claimed` flag, its stale range
    and the batch slot at the range's first id; nothing is paid; the "not confirmed" SFT (category
    3) is handed out -/
theorem zc_claim_stutter {hash : List Nat → List Nat} {s s' : State} {e : Env} {o : Out} {r : Range}
    (hv : s.variant = .nftGuar) (hs : step hash s e .claim = .ok (s', o))
    (hr : s.range e.caller = some r) (he : r.last < r.first) (hc : s.confirmed e.caller = 0)
    (hw : e.caller ∉ s.nftWinners) (hp : e.caller ∉ s.payers) :
    s' = zc_w s (upd s.range e.caller none) (upd s.batch r.first none) s.blacklist
          (upd s.claimed e.caller true) s.uts ∧
    o.xfers = [] ∧ o.sfts = [(e.caller, 3)] ∧ o.locks = [] := by
  obtain ⟨hvv, hn, _, _, hl, _⟩ := ng_flags hv
  rw [step_claim_ok_iff, exec_claim_nonvested hash _ e hvv] at hs
  obtain ⟨_, _, t, hx, rfl, rfl⟩ := hs
  obtain ⟨r', ⟨_, _, hr', _, _, _⟩, t2, h3, h4⟩ := (claimBase_ok_iff _ e t).mp hx
  have hrr : r' = r := by
    have hr'' : s.range e.caller = some r' := hr'
    rw [hr] at hr''; exact (Option.some.inj hr'').symm
  subst hrr
  have hlen : rangeLen r' = 0 := by unfold rangeLen; omega
  have hcw : countWinning (txc s e).s.status r'.first (rangeLen r') = 0 := by rw [hlen]; rfl
  have hc' : (txc s e).s.confirmed e.caller = 0 := hc
  have hmid : claimMid (txc s e) e r' = (txc s e).setS (settledState s e.caller r') := by
    unfold claimMid
    rw [hcw, hc']
    rfl
  have hl2 : (claimMid (txc s e) e r').s.variant.hasLock = false := by rw [claimMid_state]; exact hl
  rw [sendLaunchpadTokens_nolock_ok_iff _ e _ _ _ hl2, hcw] at h3
  obtain ⟨_, ht2⟩ := h3
  have ht2' : t2 = (txc s e).setS (settledState s e.caller r') := by
    rw [ht2, hmid]; rfl
  subst ht2'
  have hn2 : ((txc s e).setS (settledState s e.caller r')).s.variant.hasNft = true := hn
  rw [if_pos hn2, claimNft_ok_iff] at h4
  obtain ⟨_, _, rfl⟩ := h4
  have hcat : nftCategory ((txc s e).setS (settledState s e.caller r')).s e.caller = 3 := by
    unfold nftCategory
    have h1 : e.caller ∉ ((txc s e).setS (settledState s e.caller r')).s.nftWinners := hw
    have h2 : e.caller ∉ ((txc s e).setS (settledState s e.caller r')).s.payers := hp
    rw [if_neg h1, if_neg h2]
  have hsw : (swapRemove ((txc s e).setS (settledState s e.caller r')).s.nftWinners e.caller).1
      = s.nftWinners := by
    have h1 : e.caller ∉ ((txc s e).setS (settledState s e.caller r')).s.nftWinners := hw
    rw [swapRemove_of_not_mem h1]; rfl
  have hconf : upd s.confirmed e.caller 0 = s.confirmed := by
    funext x
    by_cases hx : x = e.caller
    · subst hx; simp [hc]
    · simp [upd, hx]
  unfold claimNftResult
  simp only [hcat, show ¬ ((3 : Nat) = 2) by decide, if_false, hsw]
  refine ⟨?_, rfl, rfl, rfl⟩
  show ({ settledState s e.caller r' with nftWinners := s.nftWinners } : State) = _
  unfold settledState
  rw [hlen, hconf]
  rfl

/-! ### the filter -/

theorem zc_filStOf {s : State} {x : FilSt} (K C : Nat → Bool) (U : Nat → Option UTS)
    (h : filStOf s = some x) :
    filStOf (zc_w s (z_eraseR s.range) (z_eraseB s.batch) K C U) = some (z_ef x) := by
  unfold filStOf at h ⊢
  show (match s.op with | .none => _ | .filter f r => _ | _ => _) = _
  cases hop : s.op <;> rw [hop] at h <;> simp only at h ⊢
  · injection h with h; subst h; rfl
  · injection h with h; subst h; rfl
  · cases h
  · cases h

/-- **the body of `filter`**: the same call on the erased state gives the erased result -/
theorem zc_filterTickets {t t' : Tx} {e : Env} {L0 : List (Nat × Nat)} (K C : Nat → Bool)
    (U : Nat → Option UTS)
    (h : filterTickets t e = .ok t') (hok : AllocOK t.s.confirmed L0)
    (hmid : ∀ x, filStOf t.s = some x → Mid t.s.confirmed t.s.lastTicketId L0 (z_ef x)) :
    filterTickets (zc_wt t (z_eraseR t.s.range) (z_eraseB t.s.batch) K C U) e
      = .ok (zc_wt t' (z_eraseR t'.s.range) (z_eraseB t'.s.batch) K C U) := by
  obtain ⟨hpre, x, hxs⟩ := filterTickets_inv t t' e h
  have hpre' : FilterPre (zc_wt t (z_eraseR t.s.range) (z_eraseB t.s.batch) K C U).s e :=
    ⟨hpre.notPaused, hpre.stage, hpre.notFiltered⟩
  have hxs' : filStOf (zc_wt t (z_eraseR t.s.range) (z_eraseB t.s.batch) K C U).s = some (z_ef x) :=
    zc_filStOf K C U hxs
  have hloop := z_filter_loop hok (t.s.lastTicketId + 2) t.c.budget x (hmid x hxs)
  cases hrun : runWhile (filterBody t.s.confirmed t.s.lastTicketId) (t.s.lastTicketId + 2)
      t.c.budget x with
  | error err =>
    have := filterTickets_error t e x err hpre hxs hrun
    rw [this] at h; cases h
  | ok q =>
    obtain ⟨f, b, st⟩ := q
    rw [hrun] at hloop
    have hrun' : runWhile (filterBody (zc_wt t (z_eraseR t.s.range) (z_eraseB t.s.batch) K C U).s.confirmed
        (zc_wt t (z_eraseR t.s.range) (z_eraseB t.s.batch) K C U).s.lastTicketId)
        ((zc_wt t (z_eraseR t.s.range) (z_eraseB t.s.batch) K C U).s.lastTicketId + 2)
        (zc_wt t (z_eraseR t.s.range) (z_eraseB t.s.batch) K C U).c.budget (z_ef x) = .ok (z_ef f, b, st) := hloop
    cases st with
    | outOfFuel =>
      have := filterTickets_outOfFuel t e x f b hpre hxs hrun
      rw [this] at h; cases h
    | interrupted =>
      have h1 := filterTickets_interrupted t e x f b hpre hxs hrun
      rw [h1] at h
      injection h with h
      subst h
      rw [filterTickets_interrupted _ e (z_ef x) (z_ef f) b hpre' hxs' hrun']
      rfl
    | completed =>
      by_cases hle : f.removed ≤ t.s.lastTicketId
      · have h1 := filterTickets_completed t e x f b hpre hxs hrun hle
        rw [h1] at h
        injection h with h
        subst h
        rw [filterTickets_completed _ e (z_ef x) (z_ef f) b hpre' hxs' hrun' hle]
        rfl
      · obtain ⟨err, this⟩ := filterTickets_underflow t e x f b hpre hxs hrun hle
        rw [this] at h; cases h

end LP
